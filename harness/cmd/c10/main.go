// Harness for C10 (recovering a signer from arbitrary raw transaction bytes is total and sound).
//
// Produces signed transactions with the implementation's own signer in every mode, mutates them
// structure-aware (per RLP element), adds malformed streams, random bytes and an exhaustive sweep of
// all inputs of length <= 2, runs ethsigner.RecoverRawTransaction / RecoverLegacyRawTransaction /
// RecoverEIP1559Transaction / DecodeEIP1559SignaturePayload on them under recover(), and writes Coq
// case files evaluated by Tx/RunC10.v.
//
// Independent of firefly-signer in this file: the RLP reader/writer used to build mutations and the
// ECDSA oracle table (own code below), Keccak (x/crypto/sha3) and ECDSA recovery/verification
// (decred secp256k1 called directly).
package main

import (
	"bytes"
	"context"
	"encoding/hex"
	"encoding/json"
	"flag"
	"fmt"
	"io"
	"math/big"
	"os"
	"path/filepath"
	"strings"
	"sync"

	dsecp "github.com/decred/dcrd/dcrec/secp256k1/v4"
	decdsa "github.com/decred/dcrd/dcrec/secp256k1/v4/ecdsa"
	"github.com/hyperledger/firefly-signer/pkg/ethsigner"
	"github.com/hyperledger/firefly-signer/pkg/ethtypes"
	"github.com/hyperledger/firefly-signer/pkg/secp256k1"
	"github.com/sirupsen/logrus"
	"golang.org/x/crypto/sha3"
	"verifharness/cv"
)

// ---------- own RLP (lenient reader mirroring the accepted language, canonical writer) ----------

type elem struct {
	list bool
	data []byte
	kids []*elem
}

func str(b []byte) *elem   { return &elem{data: append([]byte{}, b...)} }
func lst(k ...*elem) *elem { return &elem{list: true, kids: k} }
func num(n *big.Int) *elem { return str(new(big.Int).Abs(n).Bytes()) }
func num64(n int64) *elem  { return num(big.NewInt(n)) }
func (e *elem) clone() *elem {
	c := &elem{list: e.list, data: append([]byte{}, e.data...)}
	for _, k := range e.kids {
		c.kids = append(c.kids, k.clone())
	}
	return c
}

func minBytes(n int) []byte { return big.NewInt(int64(n)).Bytes() }

func encHdr(payload []byte, base byte) []byte {
	if len(payload) <= 55 {
		return append([]byte{base + byte(len(payload))}, payload...)
	}
	lb := minBytes(len(payload))
	return append(append([]byte{base + 55 + byte(len(lb))}, lb...), payload...)
}

func enc(e *elem) []byte {
	if !e.list {
		if len(e.data) == 1 && e.data[0] < 0x80 {
			return []byte{e.data[0]}
		}
		return encHdr(e.data, 0x80)
	}
	var p []byte
	for _, k := range e.kids {
		p = append(p, enc(k)...)
	}
	return encHdr(p, 0xc0)
}

// encNonCanonical: the same element in a non-minimal form: a single byte < 0x80 behind a length prefix, anything
// else with the long (length-of-length) header although the short one would do
func encNonCanonical(e *elem) []byte {
	base := byte(0x80)
	p := e.data
	if e.list {
		base = 0xc0
		p = nil
		for _, k := range e.kids {
			p = append(p, enc(k)...)
		}
	} else if len(p) == 1 && p[0] < 0x80 {
		return []byte{0x81, p[0]}
	}
	if len(p) > 55 {
		lb := append([]byte{0}, minBytes(len(p))...)
		return append(append([]byte{base + 55 + byte(len(lb))}, lb...), p...)
	}
	return append([]byte{base + 56, byte(len(p))}, p...)
}

// dec reads the first element (trailing bytes ignored); nil,nil on empty input
func dec(b []byte) (*elem, int, error) {
	if len(b) == 0 {
		return nil, 0, nil
	}
	p := b[0]
	long := func(base byte) (int, int, error) {
		ll := int(p - base)
		if ll > len(b)-1 {
			return 0, 0, fmt.Errorf("short")
		}
		v := new(big.Int).SetBytes(b[1 : 1+ll])
		if v.BitLen() > 31 {
			return 0, 0, fmt.Errorf("too many")
		}
		n := int(v.Int64())
		if n > len(b)-1-ll {
			return 0, 0, fmt.Errorf("short")
		}
		return 1 + ll, n, nil
	}
	kids := func(p []byte) ([]*elem, error) {
		var out []*elem
		for len(p) > 0 {
			e, n, err := dec(p)
			if err != nil {
				return nil, err
			}
			out = append(out, e)
			p = p[n:]
		}
		return out, nil
	}
	switch {
	case p < 0x80:
		return str(b[:1]), 1, nil
	case p <= 0xb7:
		n := int(p - 0x80)
		if n > len(b)-1 {
			return nil, 0, fmt.Errorf("short")
		}
		return str(b[1 : 1+n]), 1 + n, nil
	case p < 0xc0:
		h, n, err := long(0xb7)
		if err != nil {
			return nil, 0, err
		}
		return str(b[h : h+n]), h + n, nil
	case p <= 0xf7:
		n := int(p - 0xc0)
		if n > len(b)-1 {
			return nil, 0, fmt.Errorf("short")
		}
		k, err := kids(b[1 : 1+n])
		if err != nil {
			return nil, 0, err
		}
		return &elem{list: true, kids: k}, 1 + n, nil
	default:
		h, n, err := long(0xf7)
		if err != nil {
			return nil, 0, err
		}
		k, err := kids(b[h : h+n])
		if err != nil {
			return nil, 0, err
		}
		return &elem{list: true, kids: k}, h + n, nil
	}
}

func keccak(b []byte) []byte {
	h := sha3.NewLegacyKeccak256()
	h.Write(b)
	return h.Sum(nil)
}

// ---------- ECDSA, through decred directly ----------

func addrOf(pub *dsecp.PublicKey) []byte {
	return keccak(pub.SerializeUncompressed()[1:])[12:]
}

// libRecover: vB in {27,28}; returns the address or nil when the library refuses
func libRecover(digest []byte, vB byte, r, s *big.Int) []byte {
	if r.BitLen() > 256 || s.BitLen() > 256 {
		return nil
	}
	sig := make([]byte, 65)
	sig[0] = vB
	r.FillBytes(sig[1:33])
	s.FillBytes(sig[33:65])
	pub, _, err := decdsa.RecoverCompact(sig, digest)
	if err != nil {
		return nil
	}
	return addrOf(pub)
}

// libVerifies: is there a public key with this address for which (r,s) verifies over digest — recovered
// with the given normalised V (27/28), or with either when want is 0?
func libVerifies(digest []byte, r, s *big.Int, addr []byte, want int) bool {
	if r.BitLen() > 256 || s.BitLen() > 256 {
		return false
	}
	for _, vB := range []byte{27, 28} {
		if want != 0 && int(vB) != want {
			continue
		}
		sig := make([]byte, 65)
		sig[0] = vB
		r.FillBytes(sig[1:33])
		s.FillBytes(sig[33:65])
		pub, _, err := decdsa.RecoverCompact(sig, digest)
		if err != nil || !bytes.Equal(addrOf(pub), addr) {
			continue
		}
		var rs, ss dsecp.ModNScalar
		if rs.SetByteSlice(sig[1:33]) || ss.SetByteSlice(sig[33:65]) {
			continue
		}
		if decdsa.NewSignature(&rs, &ss).Verify(digest, pub) {
			return true
		}
	}
	return false
}

// expectedVB: the recovery id (as 27/28) that the V written in the input denotes: a plain y-parity for
// type 0x02 (0 = V is something else, left to property C05), 27/28 or 35+2*chain+parity for legacy
// (taken modulo 2^64, the implementation's Int64() conversion); -1 = a legacy V that denotes nothing
func expectedVB(typed bool, l []*elem, chain int64) int {
	if typed {
		v := elemInt(l, 9)
		if !l[9].list && v.IsInt64() && (v.Int64() == 0 || v.Int64() == 1) {
			return 27 + int(v.Int64())
		}
		return 0
	}
	if l[6].list {
		return -1
	}
	two64 := new(big.Int).Lsh(big.NewInt(1), 64)
	v := new(big.Int).Mod(elemInt(l, 6), two64)
	if v.Cmp(big.NewInt(27)) == 0 || v.Cmp(big.NewInt(28)) == 0 {
		return int(v.Int64())
	}
	w := new(big.Int).Sub(v, big.NewInt(35))
	w.Sub(w, new(big.Int).Mul(big.NewInt(chain), big.NewInt(2)))
	w.Mod(w, two64)
	if w.Cmp(big.NewInt(0)) == 0 || w.Cmp(big.NewInt(1)) == 0 {
		return 27 + int(w.Int64())
	}
	return -1
}

// ---------- running the implementation ----------

type outcome struct {
	cls     int // 0 ok, 1 error, 2 panic
	addr    []byte
	tx      *ethsigner.Transaction
	payload []byte
	err     string
	// the values as the implementation returned them (not copied): kept to see whether they change later
	liveAddr    *ethtypes.Address0xHex
	liveTx      *ethsigner.Transaction
	livePayload []byte
	// wave 6: the shape of the Go result tuple ("an error, or an address together with the fields and the
	// payload"): non-empty when an error came with a non-nil address/transaction, or no error with a nil
	// address / transaction / fields / empty payload
	shape string
}

func copyInt(h *ethtypes.HexInteger) *ethtypes.HexInteger {
	if h == nil {
		return nil
	}
	return (*ethtypes.HexInteger)(new(big.Int).Set((*big.Int)(h)))
}

func copyTx(t *ethsigner.Transaction) *ethsigner.Transaction {
	if t == nil {
		return nil
	}
	c := &ethsigner.Transaction{Nonce: copyInt(t.Nonce), GasPrice: copyInt(t.GasPrice), MaxPriorityFeePerGas: copyInt(t.MaxPriorityFeePerGas),
		MaxFeePerGas: copyInt(t.MaxFeePerGas), GasLimit: copyInt(t.GasLimit), Value: copyInt(t.Value)}
	if t.From != nil {
		c.From = append(json.RawMessage{}, t.From...)
	}
	if t.To != nil {
		a := *t.To
		c.To = &a
	}
	if t.Data != nil {
		c.Data = append(ethtypes.HexBytes0xPrefix{}, t.Data...)
	}
	return c
}

// fingerprint of a result, computed from the given values at the time of the call
func fpOf(cls int, a *ethtypes.Address0xHex, t *ethsigner.Transaction, payload []byte) string {
	var sb strings.Builder
	fi := func(h *ethtypes.HexInteger) {
		if h == nil {
			sb.WriteString("nil,")
		} else {
			sb.WriteString((*big.Int)(h).Text(16) + ",")
		}
	}
	fmt.Fprintf(&sb, "%d|", cls)
	if a != nil {
		sb.WriteString(hex.EncodeToString(a[:]))
	}
	sb.WriteString("|")
	if t != nil {
		fi(t.Nonce)
		fi(t.GasPrice)
		fi(t.MaxPriorityFeePerGas)
		fi(t.MaxFeePerGas)
		fi(t.GasLimit)
		fi(t.Value)
		if t.To != nil {
			sb.WriteString(hex.EncodeToString(t.To[:]))
		}
		fmt.Fprintf(&sb, ",%v,", t.Data == nil)
		sb.Write(t.Data)
	}
	sb.WriteString("|")
	sb.Write(payload)
	return sb.String()
}

func (o *outcome) liveFp() string { return fpOf(o.cls, o.liveAddr, o.liveTx, o.livePayload) }

var ctx = context.Background()

func runImpl(entry int, in []byte, chain int64) (o outcome) {
	defer func() {
		if x := recover(); x != nil {
			o = outcome{cls: 2, err: fmt.Sprint(x)}
		}
	}()
	var a *ethtypes.Address0xHex
	var t *ethsigner.TransactionWithOriginalPayload
	var err error
	switch entry {
	case 0:
		a, t, err = ethsigner.RecoverRawTransaction(ctx, in, chain)
	case 1:
		a, t, err = ethsigner.RecoverLegacyRawTransaction(ctx, in, chain)
	case 2:
		a, t, err = ethsigner.RecoverEIP1559Transaction(ctx, in, chain)
	default:
		tx, e := ethsigner.DecodeEIP1559SignaturePayload(ctx, in, chain)
		if e != nil {
			o = outcome{cls: 1, err: e.Error()}
			if tx != nil {
				o.shape = "an error was returned together with a non-nil transaction"
			}
			return o
		}
		o = outcome{cls: 0, tx: copyTx(tx), liveTx: tx}
		if tx == nil {
			o.shape = "no error was returned but the transaction is nil"
		}
		return o
	}
	if err != nil {
		o = outcome{cls: 1, err: err.Error()}
		if a != nil || t != nil {
			o.shape = "an error was returned together with a non-nil address or transaction"
		}
		return o
	}
	if a == nil || t == nil || t.Transaction == nil || len(t.Payload) == 0 {
		// "returns an error, or an address together with the decoded fields and the signed payload"
		o = outcome{cls: 0, shape: "no error was returned but the address, the transaction, its fields or the payload is nil/empty"}
		if a != nil {
			o.addr = append([]byte{}, a[:]...)
			o.liveAddr = a
		}
		if t != nil {
			o.tx, o.payload, o.liveTx, o.livePayload = copyTx(t.Transaction), append([]byte{}, t.Payload...), t.Transaction, t.Payload
		}
		return o
	}
	// the projections are compared on copies taken now; the values themselves are kept as well (retained results)
	o = outcome{cls: 0, tx: copyTx(t.Transaction), payload: append([]byte{}, t.Payload...), liveAddr: a, liveTx: t.Transaction, livePayload: t.Payload}
	if a != nil {
		o.addr = append([]byte{}, a[:]...)
	}
	return o
}

// ---------- state kept across calls: retained results, repeated calls, caller-owned input buffer ----------

type retainedRes struct {
	kind  string
	entry int
	chain int64
	input []byte
	o     outcome
	fp    string
}

const retainN = 32

func (g *gen) fail(class string, m map[string]interface{}) {
	g.failCount[class]++
	if g.failCount[class] <= 6 {
		g.st.ImplFailures = append(g.st.ImplFailures, m)
	}
}

func shortHex(b []byte) string {
	if len(b) > 4096 {
		return hex.EncodeToString(b[:4096]) + fmt.Sprintf("...(%d bytes)", len(b))
	}
	return hex.EncodeToString(b)
}

// checkRetained: every result still held must read exactly as it did when it was returned
func (g *gen) checkRetained() {
	for i := 0; i < len(g.ring); i++ {
		rr := g.ring[i]
		if rr.o.liveFp() != rr.fp {
			g.fail("retained", map[string]interface{}{"what": "a result returned by an earlier call changed after later calls (returned values share state between calls)",
				"input": shortHex(rr.input), "chain": rr.chain, "entry": rr.entry, "kind": rr.kind})
			g.ring = append(g.ring[:i], g.ring[i+1:]...)
			i--
		}
	}
}

// retain: hold the result; when the ring is full the oldest entry is run again and must give the same result
func (g *gen) retain(rr *retainedRes) {
	g.ring = append(g.ring, rr)
	if len(g.ring) <= retainN {
		return
	}
	old := g.ring[0]
	g.ring = g.ring[1:]
	g.rerun(old)
}

func (g *gen) finishRetained() {
	for len(g.ring) > 0 {
		old := g.ring[0]
		g.ring = g.ring[1:]
		g.rerun(old)
	}
}

func (g *gen) rerun(old *retainedRes) {
	again := runImpl(old.entry, append([]byte{}, old.input...), old.chain)
	if again.liveFp() != old.fp {
		g.fail("repeat", map[string]interface{}{"what": "the same call repeated later gave a different result (class, address, fields or payload)",
			"input": shortHex(old.input), "chain": old.chain, "entry": old.entry, "kind": old.kind})
	}
	g.checkRetained()
}

// concurrent section: the pooled inputs run from several goroutines at once must give their sequential results
func (g *gen) concurrentSection(workers, rounds int) {
	if len(g.pool) == 0 {
		return
	}
	var mu sync.Mutex
	var wg sync.WaitGroup
	bad := map[int]bool{}
	for w := 0; w < workers; w++ {
		wg.Add(1)
		go func(w int) {
			defer wg.Done()
			n := len(g.pool)
			for k := 0; k < rounds*n; k++ {
				i := (k*(2*w+1) + w*7) % n
				p := g.pool[i]
				o := runImpl(p.entry, append([]byte{}, p.input...), p.chain)
				if o.liveFp() != p.fp {
					mu.Lock()
					bad[i] = true
					mu.Unlock()
				}
			}
		}(w)
	}
	wg.Wait()
	g.st.Extra["concurrent_calls"] = workers * rounds * len(g.pool)
	for i := range g.pool {
		if bad[i] {
			p := g.pool[i]
			g.fail("concurrent", map[string]interface{}{"what": "a call made while other goroutines were recovering other transactions gave a result different from the same call made alone",
				"input": shortHex(p.input), "chain": p.chain, "entry": p.entry, "kind": p.kind})
		}
	}
}

func coqOptN(h *ethtypes.HexInteger) string {
	if h == nil {
		return "None"
	}
	return "(Some " + cv.CoqBytes((*big.Int)(h).Bytes()) + ")"
}

func coqTx(t *ethsigner.Transaction) string {
	if t == nil {
		return "(mkOtx None None None None None None None (BLit \"\"))"
	}
	to := "None"
	if t.To != nil {
		to = "(Some " + cv.CoqBytes(t.To[:]) + ")"
	}
	return fmt.Sprintf("(mkOtx %s %s %s %s %s %s %s %s)", coqOptN(t.Nonce), coqOptN(t.GasPrice), coqOptN(t.MaxPriorityFeePerGas),
		coqOptN(t.MaxFeePerGas), coqOptN(t.GasLimit), to, coqOptN(t.Value), cv.Compress(t.Data).Coq())
}

type desc struct {
	Kind  string `json:"kind"`
	Entry int    `json:"entry"`
	Chain int64  `json:"chain"`
	Input string `json:"input"`
	Full  string `json:"full_hex,omitempty"`
	Impl  string `json:"impl"`
	Key   string `json:"key,omitempty"`
}

type gen struct {
	w            *cv.Writer
	st           *cv.Stats
	seen         map[string]bool
	ring         []*retainedRes
	pool         []*retainedRes
	failCount    map[string]int
	shapeChecked int
}

var entryNames = []string{"RecoverRawTransaction", "RecoverLegacyRawTransaction", "RecoverEIP1559Transaction", "DecodeEIP1559SignaturePayload"}

func elemInt(l []*elem, i int) *big.Int {
	if i >= len(l) || l[i].list {
		return new(big.Int)
	}
	return new(big.Int).SetBytes(l[i].data)
}

// exactlyAccessListDropped: the accepted type-0x02 input l (non-empty access list) shows the known finding and
// nothing else
func exactlyAccessListDropped(l []*elem, o outcome, entry int, chain int64) bool {
	t := o.tx
	if t == nil || len(l) < 9 {
		return false
	}
	for i := 0; i < 8; i++ {
		if l[i].list {
			return false
		}
	}
	eqI := func(h *ethtypes.HexInteger, e *elem) bool {
		return h != nil && (*big.Int)(h).Sign() >= 0 && bytes.Equal((*big.Int)(h).Bytes(), e.data)
	}
	if !bytes.Equal(big.NewInt(chain).Bytes(), l[0].data) || chain < 0 || t.GasPrice != nil ||
		!eqI(t.Nonce, l[1]) || !eqI(t.MaxPriorityFeePerGas, l[2]) || !eqI(t.MaxFeePerGas, l[3]) || !eqI(t.GasLimit, l[4]) || !eqI(t.Value, l[6]) ||
		!bytes.Equal(t.Data, l[7].data) {
		return false
	}
	switch len(l[5].data) {
	case 0:
		if t.To != nil {
			return false
		}
	case 20:
		if t.To == nil || !bytes.Equal(t.To[:], l[5].data) {
			return false
		}
	default:
		return false
	}
	if entry == 3 {
		return true
	}
	if len(l) < 12 || !bytes.Equal(o.payload, append([]byte{2}, enc(lst(l[0:9]...))...)) {
		return false
	}
	want := expectedVB(true, l, chain)
	return libVerifies(keccak(o.payload), elemInt(l, 10), elemInt(l, 11), o.addr, want)
}

// oracleEntries: every (digest, vB, r, s) the recovery could ask the ECDSA library about, answered by
// the library.  Computed from the input alone (own RLP code), never from the implementation's output.
func oracleEntries(entry int, in []byte, chain int64) (string, []*elem, bool) {
	typed := len(in) > 0 && in[0] == 2 && entry != 1
	body := in
	if typed {
		body = in[1:]
	}
	if entry >= 2 && !typed {
		return "[]", nil, typed
	}
	top, _, err := dec(body)
	if err != nil || top == nil || !top.list {
		return "[]", nil, typed
	}
	l := top.kids
	var digests [][]byte
	var r, s *big.Int
	if typed {
		if len(l) < 12 {
			return "[]", l, typed
		}
		digests = append(digests, keccak(append([]byte{2}, enc(lst(l[0:9]...))...)))
		r, s = elemInt(l, 10), elemInt(l, 11)
	} else {
		if len(l) < 9 {
			return "[]", l, typed
		}
		digests = append(digests, keccak(enc(lst(l[0:6]...))))
		l155 := append(append([]*elem{}, l[0:6]...), num64(chain), num64(0), num64(0))
		digests = append(digests, keccak(enc(lst(l155...))))
		r, s = elemInt(l, 7), elemInt(l, 8)
	}
	if r.BitLen() > 256 || s.BitLen() > 256 {
		return "[]", l, typed
	}
	var parts []string
	for _, d := range digests {
		for _, vB := range []byte{27, 28} {
			a := libRecover(d, vB, r, s)
			as := "None"
			if a != nil {
				as = "(Some " + cv.CoqBytes(a) + ")"
			}
			parts = append(parts, fmt.Sprintf("(%s, %d, %s, %s, %s)", cv.CoqBytes(d), vB, cv.CoqBytes(r.Bytes()), cv.CoqBytes(s.Bytes()), as))
		}
	}
	return "[" + strings.Join(parts, "; ") + "]", l, typed
}

func (g *gen) add(kind string, entry int, in cv.DSL, chain int64) outcome {
	b := in.Expand()
	// the implementation gets its own buffer (with spare capacity, as a network read buffer has); after the
	// call the buffer must be unchanged, and the caller then reuses it: nothing returned may depend on it
	buf := make([]byte, len(b), len(b)+64)
	copy(buf, b)
	o := runImpl(entry, buf, chain)
	if !bytes.Equal(buf, b) || !bytes.Equal(buf[:cap(buf)][len(b):], make([]byte, cap(buf)-len(b))) {
		g.fail("input-modified", map[string]interface{}{"what": entryNames[entry] + " modified the caller's input buffer",
			"input": shortHex(b), "chain": chain, "entry": entry})
	}
	if o.shape != "" {
		g.fail("result-shape", map[string]interface{}{"what": entryNames[entry] + ": " + o.shape + " (the result must be an error, or an address together with the fields and the payload)",
			"input": shortHex(b), "chain": chain, "entry": entry})
	}
	g.shapeChecked++
	fp0 := fpOf(o.cls, nil, o.tx, o.payload) // from the copies taken inside runImpl
	if o.cls == 0 && entry != 3 && len(o.addr) == 20 {
		var a ethtypes.Address0xHex
		copy(a[:], o.addr)
		fp0 = fpOf(o.cls, &a, o.tx, o.payload)
	}
	buf = buf[:cap(buf)]
	for i := range buf {
		buf[i] = 0xa5
	}
	if o.liveFp() != fp0 {
		g.fail("input-aliased", map[string]interface{}{"what": "the returned address/fields/payload changed when the caller overwrote its input buffer after the call (result aliases the input)",
			"input": shortHex(b), "chain": chain, "entry": entry})
	} else {
		rr := &retainedRes{kind: kind, entry: entry, chain: chain, input: b, o: o, fp: fp0}
		g.checkRetained()
		g.retain(rr)
		if len(b) <= 4096 && (o.cls == 0 && len(g.pool) < 260 && g.w.Count()%3 == 0 || o.cls == 1 && g.w.Count()%40 == 0 && len(g.pool) < 320) {
			g.pool = append(g.pool, rr)
		}
	}
	orc, l, typed := oracleEntries(entry, b, chain)
	key := ""
	g.st.Hit(fmt.Sprintf("%s:class=%d", kind, o.cls))
	g.st.Hit(fmt.Sprintf("entry=%s:class=%d", entryNames[entry], o.cls))
	switch o.cls {
	case 2:
		g.st.ImplFailures = append(g.st.ImplFailures, map[string]interface{}{"what": entryNames[entry] + " panicked: " + o.err,
			"input": in.Describe(), "chain": chain, "entry": entry})
	case 0:
		// property oracles on the implementation alone, independent path (decred + own RLP)
		if l == nil {
			g.st.ImplFailures = append(g.st.ImplFailures, map[string]interface{}{"what": "accepted an input that is not an RLP list",
				"input": in.Describe(), "chain": chain, "entry": entry})
			break
		}
		if typed && (l[0].list || !elemInt(l, 0).IsInt64() || elemInt(l, 0).Int64() != chain) {
			g.st.ImplFailures = append(g.st.ImplFailures, map[string]interface{}{"what": "type-0x02 transaction with a different embedded chain id was not refused",
				"input": in.Describe(), "chain": chain, "entry": entry})
		}
		if o.tx != nil {
			for _, h := range []*ethtypes.HexInteger{o.tx.Nonce, o.tx.GasPrice, o.tx.MaxPriorityFeePerGas, o.tx.MaxFeePerGas, o.tx.GasLimit, o.tx.Value} {
				if h != nil && (*big.Int)(h).Sign() < 0 {
					g.fail("negative-field", map[string]interface{}{"what": "a returned transaction field is negative (RLP integers are non-negative; the payload encodes the magnitude)",
						"input": in.Describe(), "chain": chain, "entry": entry})
					break
				}
			}
		}
		if typed && len(l) > 8 && l[8].list && len(l[8].kids) > 0 {
			// the known finding, and only it: everything else about the result is as the property demands
			// (payload = 0x02 || RLP of the first nine elements as received, fields = their values, signature
			// verifies); any other deviation on such an input is reported as usual
			if exactlyAccessListDropped(l, o, entry, chain) {
				key = "C10/eip1559-access-list-dropped"
				g.st.Hit("known:access-list-dropped")
			} else {
				g.st.Hit("access-list-nonempty:other-deviation")
			}
		}
		if entry != 3 {
			ri := 7
			if typed {
				ri = 10
			}
			want := expectedVB(typed, l, chain)
			if want < 0 {
				g.st.ImplFailures = append(g.st.ImplFailures, map[string]interface{}{"what": "a legacy transaction whose V is neither 27/28 nor 35+2*chain+parity was accepted",
					"input": in.Describe(), "chain": chain, "entry": entry})
			} else if !libVerifies(keccak(o.payload), elemInt(l, ri), elemInt(l, ri+1), o.addr, want) {
				g.st.ImplFailures = append(g.st.ImplFailures, map[string]interface{}{"what": "the signature in the input (r, s, recovery id denoted by V) does not verify over keccak256(returned payload) for the returned address",
					"input": in.Describe(), "chain": chain, "entry": entry, "address": hex.EncodeToString(o.addr), "payload": hex.EncodeToString(o.payload)})
			}
		}
	}
	impl := ""
	switch o.cls {
	case 0:
		tj, _ := json.Marshal(o.tx)
		impl = fmt.Sprintf("ok addr=%s tx=%s payload=%s", hex.EncodeToString(o.addr), tj, cv.Compress(o.payload).Describe())
	case 1:
		impl = "error: " + o.err
	default:
		impl = "PANIC: " + o.err
	}
	k := fmt.Sprintf("%d|%d|", entry, chain)
	if len(b) > 200 {
		a, bb, c := cv.Cks(b)
		k += fmt.Sprintf("%d/%d/%d", a, bb, c)
	} else {
		k += hex.EncodeToString(b)
	}
	if !g.seen[k] {
		g.seen[k] = true
		if len(b) > 2 {
			g.st.Distinct++
		}
	}
	full := ""
	if len(b) <= 8192 {
		full = hex.EncodeToString(b)
	}
	term := fmt.Sprintf("CRec %d %s (%d)%%Z %s %d %s %s %s", entry, in.Coq(), chain, orc, o.cls, cv.CoqBytes(o.addr), coqTx(o.tx), cv.Compress(o.payload).Coq())
	g.w.Add(term, desc{Kind: kind, Entry: entry, Chain: chain, Input: in.Describe(), Full: full, Impl: impl, Key: key})
	if len(g.st.Samples) < 6 && (o.cls == 0 && g.w.Count()%7 == 0 || g.w.Count()%401 == 0) {
		g.st.Samples = append(g.st.Samples, map[string]interface{}{"kind": kind, "entry": entryNames[entry], "chain": chain, "input": in.Describe(), "impl": impl})
	}
	return o
}

// addAll: RecoverRawTransaction always; the direct entry points on a share of the cases
func (g *gen) addAll(kind string, b []byte, chain int64, direct bool) {
	in := cv.Compress(b)
	g.add(kind, 0, in, chain)
	if direct {
		if len(b) > 0 && b[0] == 2 {
			g.add(kind, 2, in, chain)
			g.add(kind, 3, in, chain)
		} else {
			g.add(kind, 1, in, chain)
		}
	}
}

// ---------- base transactions, signed by the implementation ----------

type base struct {
	name  string
	typed bool
	chain int64
	elems []*elem // the top-level elements of the signed transaction
	key   *secp256k1.KeyPair
}

func (b *base) raw() []byte { return assemble(b.typed, b.elems) }

func assemble(typed bool, l []*elem) []byte {
	out := enc(lst(l...))
	if typed {
		return append([]byte{2}, out...)
	}
	return out
}

func big2(exp uint, add int64) *big.Int {
	return new(big.Int).Add(new(big.Int).Lsh(big.NewInt(1), exp), big.NewInt(add))
}

func hx(n *big.Int) *ethtypes.HexInteger { return (*ethtypes.HexInteger)(n) }

func mustKey(h string) *secp256k1.KeyPair {
	b, _ := hex.DecodeString(h)
	k, err := secp256k1.NewSecp256k1KeyPair(b)
	if err != nil {
		panic(err)
	}
	return k
}

func fieldSets(r *cv.Rand) []ethsigner.Transaction {
	addr := ethtypes.MustNewAddress("0x497eedc4299dea2f2a364be10025d0ad0f702de3")
	addr0 := ethtypes.MustNewAddress("0x00000000000000000000000000000000000000ff")
	return []ethsigner.Transaction{
		{Nonce: ethtypes.NewHexInteger64(3), GasPrice: ethtypes.NewHexInteger64(100000000), MaxPriorityFeePerGas: ethtypes.NewHexInteger64(123456780), MaxFeePerGas: ethtypes.NewHexInteger64(150000000),
			GasLimit: ethtypes.NewHexInteger64(40574), To: addr, Value: ethtypes.NewHexInteger64(100000000), Data: []byte{0xfe, 0xed, 0xbe, 0xef}},
		{}, // everything nil: contract creation, zeros
		{Nonce: hx(big2(64, -1)), GasPrice: ethtypes.NewHexInteger64(0x80), MaxPriorityFeePerGas: ethtypes.NewHexInteger64(0x7f), MaxFeePerGas: hx(big2(128, 0)),
			GasLimit: ethtypes.NewHexInteger64(0x100), To: addr0, Value: hx(big2(256, -1)), Data: r.Bytes(300)},
		{Nonce: ethtypes.NewHexInteger64(0x7f), GasPrice: ethtypes.NewHexInteger64(0xffff), MaxFeePerGas: ethtypes.NewHexInteger64(1),
			GasLimit: ethtypes.NewHexInteger64(21000), Value: ethtypes.NewHexInteger64(0), Data: bytes.Repeat([]byte{0x61}, 56)},
		{Nonce: ethtypes.NewHexInteger64(0), GasPrice: ethtypes.NewHexInteger64(1), MaxPriorityFeePerGas: ethtypes.NewHexInteger64(1), MaxFeePerGas: ethtypes.NewHexInteger64(2),
			GasLimit: ethtypes.NewHexInteger64(1), To: addr, Value: ethtypes.NewHexInteger64(0x80), Data: []byte{0x00}},
		// every integer field wider than 64 bits / in 2^63..2^64-1 (nothing may be reduced to an int64 or uint64 on the way)
		{Nonce: hx(big2(64, 1)), GasPrice: hx(big2(63, 5)), MaxPriorityFeePerGas: hx(big2(64, 0)), MaxFeePerGas: hx(big2(72, 3)),
			GasLimit: hx(big2(65, 2)), To: addr0, Value: hx(big2(63, 0)), Data: bytes.Repeat([]byte{0x80}, 55)},
	}
}

func randTx(r *cv.Rand) ethsigner.Transaction {
	ri := func() *ethtypes.HexInteger {
		switch r.Intn(6) {
		case 0:
			return nil
		case 1:
			return ethtypes.NewHexInteger64(int64(r.Pick([]int{0, 1, 0x7f, 0x80, 0xff, 0x100, 0xffff, 0x10000})))
		case 2:
			return hx(new(big.Int).SetBytes(r.Bytes(1 + r.Intn(32))))
		default:
			return ethtypes.NewHexInteger64(int64(r.U64() >> uint(1+r.Intn(62))))
		}
	}
	t := ethsigner.Transaction{Nonce: ri(), GasPrice: ri(), MaxPriorityFeePerGas: ri(), MaxFeePerGas: ri(), GasLimit: ri(), Value: ri()}
	if r.Intn(4) != 0 {
		var a ethtypes.Address0xHex
		copy(a[:], r.Bytes(20))
		t.To = &a
	}
	t.Data = r.Bytes(r.Pick([]int{0, 1, 4, 31, 32, 36, 55, 56, 68, 100, 135, 136, 137, 200}))
	return t
}

var modeNames = []string{"legacy-original", "legacy-eip155", "eip1559", "auto"}

func signBase(t ethsigner.Transaction, mode int, k *secp256k1.KeyPair, chain int64) *base {
	var raw []byte
	var err error
	switch mode {
	case 0:
		raw, err = t.SignLegacyOriginal(k)
	case 1:
		raw, err = t.SignLegacyEIP155(k, chain)
	case 2:
		raw, err = t.SignEIP1559(k, chain)
	default:
		raw, err = t.Sign(k, chain)
	}
	if err != nil {
		panic(err)
	}
	typed := len(raw) > 0 && raw[0] == 2
	body := raw
	if typed {
		body = raw[1:]
	}
	top, _, derr := dec(body)
	if derr != nil || top == nil || !top.list {
		panic("signed transaction does not parse: " + hex.EncodeToString(raw))
	}
	return &base{name: modeNames[mode], typed: typed, chain: chain, elems: top.kids, key: k}
}

// resign: recompute the signature of the (possibly mutated) fields with the library, so that the
// mutated transaction carries a valid signature over the payload its own elements define
func resign(typed bool, l []*elem, k *secp256k1.KeyPair, chain int64, eip155 bool) []*elem {
	var msg []byte
	n := 6
	if typed {
		n = 9
		msg = append([]byte{2}, enc(lst(l[0:9]...))...)
	} else if eip155 {
		msg = enc(lst(append(append([]*elem{}, l[0:6]...), num64(chain), num64(0), num64(0))...))
	} else {
		msg = enc(lst(l[0:6]...))
	}
	var sk dsecp.ModNScalar
	sk.SetByteSlice(k.PrivateKeyBytes())
	sig := decdsa.SignCompact(dsecp.NewPrivateKey(&sk), keccak(msg), false)
	v := int64(sig[0]) // 27/28
	switch {
	case typed:
		v -= 27
	case eip155:
		v += chain*2 + 8
	}
	out := append([]*elem{}, l[0:n]...)
	return append(out, num64(v), str(new(big.Int).SetBytes(sig[1:33]).Bytes()), str(new(big.Int).SetBytes(sig[33:65]).Bytes()))
}

// ---------- mutations ----------

func (g *gen) mutateElements(b *base, r *cv.Rand, direct bool) {
	n := len(b.elems)
	emit := func(kind string, l []*elem) {
		g.addAll("mut:"+kind, assemble(b.typed, l), b.chain, direct)
	}
	with := func(i int, e *elem) []*elem {
		l := append([]*elem{}, b.elems...)
		l[i] = e
		return l
	}
	for i := 0; i < n; i++ {
		orig := b.elems[i]
		emit("elem->emptylist", with(i, lst()))
		emit("elem->list-of-self", with(i, lst(orig.clone())))
		emit("elem->emptystring", with(i, str(nil)))
		emit("elem->overlong", with(i, str(append(append([]byte{}, orig.data...), r.Bytes(33)...))))
		emit("elem->leading-zero", with(i, str(append([]byte{0}, orig.data...))))
		emit("elem->zero-byte", with(i, str([]byte{0})))
		// a leading zero on a value wider than any field (33..41 bytes) and on a 32-byte value
		emit("elem->leading-zero-long", with(i, str(append([]byte{0}, r.Bytes(32+r.Intn(9))...))))
		if i%2 == 0 {
			emit("elem->leading-zero-long", with(i, str(append([]byte{0}, r.Bytes(31)...))))
		}
		// same length, different content (the signature stays the one of the original): one bit of the last byte
		if len(orig.data) > 0 && !orig.list {
			fl := append([]byte{}, orig.data...)
			fl[len(fl)-1] ^= 1 << uint(r.Intn(8))
			if fl[0] != 0 || len(fl) == 1 {
				emit("elem->bitflip", with(i, str(fl)))
			}
		}
		// dropped
		emit("elem-dropped", append(append([]*elem{}, b.elems[:i]...), b.elems[i+1:]...))
		// inserted before i
		ins := append(append(append([]*elem{}, b.elems[:i]...), str([]byte{1})), b.elems[i:]...)
		emit("elem-inserted", ins)
	}
	emit("elem-appended", append(append([]*elem{}, b.elems...), str([]byte{7})))
	if direct {
		// a wrong shape together with a different element count (guards that look at the count only)
		for i := 0; i < n; i++ {
			for k, e := range []*elem{lst(), str(append([]byte{0}, b.elems[i].data...)), str(r.Bytes(19))} {
				if k == 2 && i != n-7 && i != 0 { // 19 bytes: the "to" position (and one integer position)
					continue
				}
				emit("elem-appended+shape", append(with(i, e), str([]byte{7})))
				if k == 0 {
					emit("elem-appended+shape", append(with(i, e), lst(), str(nil), str([]byte{1})))
				}
			}
		}
		// the first k elements only, k = 0 .. n+1 (the exact element counts around every length guard),
		// through every entry point
		for k := 0; k <= n; k++ {
			g.addAll("mut:first-k-elements", assemble(b.typed, append([]*elem{}, b.elems[:k]...)), b.chain, true)
		}
	}
	emit("elem-appended-list", append(append([]*elem{}, b.elems...), lst(str([]byte{7})), str(nil)))
	if direct {
		// one element written in a non-minimal RLP form (the decoder is lenient; the payload is re-encoded)
		for i := 0; i < n; i++ {
			var p []byte
			for j, k := range b.elems {
				if j == i {
					p = append(p, encNonCanonical(k)...)
				} else {
					p = append(p, enc(k)...)
				}
			}
			out := encHdr(p, 0xc0)
			if b.typed {
				out = append([]byte{2}, out...)
			}
			g.addAll("mut:elem-noncanonical-encoding", out, b.chain, i%4 == 0)
		}
	}
	// an extra last element in the long form with declared length 0: its header ends exactly where the list ends
	for _, tail := range [][]byte{{0xb8, 0x00}, {0xf8, 0x00}, {0xb9, 0x00, 0x00}} {
		var p []byte
		for _, k := range b.elems {
			p = append(p, enc(k)...)
		}
		out := encHdr(append(p, tail...), 0xc0)
		if b.typed {
			out = append([]byte{2}, out...)
		}
		g.addAll("mut:elem-appended-longform-empty", out, b.chain, direct)
	}
	// trailing bytes after the RLP element (ignored by the decoder)
	g.addAll("mut:trailing-bytes", append(b.raw(), 0xc0, 0x01), b.chain, direct)
	// non-canonical outer header: long form with a leading zero in the length
	{
		var p []byte
		for _, k := range b.elems {
			p = append(p, enc(k)...)
		}
		lb := append([]byte{0}, minBytes(len(p))...)
		out := append(append([]byte{0xf7 + byte(len(lb))}, lb...), p...)
		if b.typed {
			out = append([]byte{2}, out...)
		}
		g.addAll("mut:noncanonical-outer-header", out, b.chain, direct)
	}
}

// unsignedPayload: the 9-element signature payload that DecodeEIP1559SignaturePayload is meant for, mutated per
// element and cut to every element count (8 = one short of its minimum)
func (g *gen) unsignedPayload(l9 []*elem, chain int64, r *cv.Rand) {
	emit := func(kind string, l []*elem) {
		in := cv.Compress(assemble(true, l))
		g.add("unsigned:"+kind, 3, in, chain)
		if r.Intn(3) == 0 {
			g.add("unsigned:"+kind, 0, in, chain)
			g.add("unsigned:"+kind, 2, in, chain)
		}
	}
	for k := 0; k <= len(l9); k++ {
		emit("first-k-elements", append([]*elem{}, l9[:k]...))
	}
	for i := range l9 {
		with := func(e *elem) []*elem {
			l := append([]*elem{}, l9...)
			l[i] = e
			return l
		}
		emit("elem->emptylist", with(lst()))
		emit("elem->list-of-self", with(lst(l9[i].clone())))
		emit("elem->leading-zero", with(str(append([]byte{0}, l9[i].data...))))
		emit("elem->zero-byte", with(str([]byte{0})))
		emit("elem->emptystring", with(str(nil)))
		emit("elem->19-bytes", with(str(r.Bytes(19))))
		emit("elem-dropped", append(append([]*elem{}, l9[:i]...), l9[i+1:]...))
		emit("elem-dropped+shape", append(append([]*elem{}, l9[:i]...), with(lst())[i+1:]...))
	}
	emit("elem-appended", append(append([]*elem{}, l9...), str(nil)))
	emit("elem-appended-list", append(append([]*elem{}, l9...), lst()))
}

func (g *gen) mutateTo(b *base, r *cv.Rand) {
	ti := 3
	if b.typed {
		ti = 5
	}
	for _, n := range []int{0, 1, 19, 20, 21, 32} {
		l := append([]*elem{}, b.elems...)
		l[ti] = str(r.Bytes(n))
		g.addAll(fmt.Sprintf("mut:to-len=%d", n), assemble(b.typed, l), b.chain, true)
		// the same with a signature that is valid for the mutated fields
		l2 := resign(b.typed, l, b.key, b.chain, b.name != "legacy-original")
		g.addAll(fmt.Sprintf("mut:resigned:to-len=%d", n), assemble(b.typed, l2), b.chain, false)
	}
}

// wrong-shaped fields carrying a signature that is valid for them (the D10f family)
func (g *gen) resignedShapes(b *base, r *cv.Rand) {
	nf := 6
	if b.typed {
		nf = 9
	}
	for i := 0; i < nf; i++ {
		for _, m := range []struct {
			kind string
			e    *elem
		}{
			{"leading-zero", str(append([]byte{0}, b.elems[i].data...))},
			{"zero-byte", str([]byte{0})},
			{"emptylist", lst()},
			{"list-of-self", lst(b.elems[i].clone())},
			{"emptystring", str(nil)},
			{"leading-zero-long", str(append([]byte{0}, r.Bytes(32+r.Intn(9))...))},
		} {
			l := append([]*elem{}, b.elems...)
			l[i] = m.e
			l2 := resign(b.typed, l, b.key, b.chain, b.name != "legacy-original")
			g.addAll(fmt.Sprintf("mut:resigned:field%d->%s", i, m.kind), assemble(b.typed, l2), b.chain, i%3 == 0)
		}
	}
	if b.typed {
		// a non-empty access list, validly signed: the known finding (the list is dropped from the returned fields)
		var a [20]byte
		copy(a[:], r.Bytes(20))
		l := append([]*elem{}, b.elems...)
		l[8] = lst(lst(str(a[:]), lst(str(r.Bytes(32)))))
		l2 := resign(true, l, b.key, b.chain, false)
		g.addAll("mut:resigned:access-list-nonempty", assemble(true, l2), b.chain, true)
		// embedded chain id variants, validly signed
		for _, c := range []*big.Int{big.NewInt(b.chain + 1), big2(64, b.chain), big.NewInt(0)} {
			l := append([]*elem{}, b.elems...)
			l[0] = num(c)
			l2 := resign(true, l, b.key, b.chain, false)
			g.addAll("mut:resigned:chainid="+c.String(), assemble(true, l2), b.chain, true)
		}
		// the embedded chain id is the unsigned 64-bit pattern of a negative supplied chain id (2^64 + c), and
		// the values at the int64 edge
		for _, c := range []int64{-1, -b.chain - 1, -(1 << 63), -(1 << 62)} {
			for _, emb := range []*big.Int{new(big.Int).Add(big2(64, 0), big.NewInt(c)), new(big.Int).Neg(big.NewInt(c))} {
				l := append([]*elem{}, b.elems...)
				l[0] = num(emb)
				l2 := resign(true, l, b.key, c, false)
				g.addAll("mut:resigned:chainid-wraps-negative", assemble(true, l2), c, true)
			}
		}
	}
}

func (g *gen) mutateRS(b *base, r *cv.Rand) {
	ri := len(b.elems) - 2
	for which := 0; which < 2; which++ {
		for n := 0; n <= 40; n++ {
			l := append([]*elem{}, b.elems...)
			v := r.Bytes(n)
			if n > 0 && v[0] == 0 {
				v[0] = 1
			}
			l[ri+which] = str(v)
			g.addAll(fmt.Sprintf("mut:%s-random-len", []string{"R", "S"}[which]), assemble(b.typed, l), b.chain, n%8 == 0)
		}
		// the true value left-padded with zero bytes up to 40 bytes (same integer)
		for _, n := range []int{31, 32, 33, 34, 40} {
			orig := b.elems[ri+which].data
			if n <= len(orig) {
				continue
			}
			l := append([]*elem{}, b.elems...)
			l[ri+which] = str(append(make([]byte, n-len(orig)), orig...))
			g.addAll(fmt.Sprintf("mut:%s-zero-padded", []string{"R", "S"}[which]), assemble(b.typed, l), b.chain, true)
		}
		// +-1, zero, group order, 2^256-1, 2^256
		orig := new(big.Int).SetBytes(b.elems[ri+which].data)
		nOrd, _ := new(big.Int).SetString("fffffffffffffffffffffffffffffffebaaedce6af48a03bbfd25e8cd0364141", 16)
		for _, v := range []*big.Int{new(big.Int).Add(orig, big.NewInt(1)), new(big.Int).Sub(orig, big.NewInt(1)), big.NewInt(0), nOrd,
			new(big.Int).Sub(nOrd, orig), big2(256, -1), big2(256, 0), big2(256, 1)} {
			l := append([]*elem{}, b.elems...)
			l[ri+which] = num(v)
			g.addAll(fmt.Sprintf("mut:%s-boundary", []string{"R", "S"}[which]), assemble(b.typed, l), b.chain, false)
		}
	}
	// R and S swapped
	l := append([]*elem{}, b.elems...)
	l[ri], l[ri+1] = l[ri+1], l[ri]
	g.addAll("mut:RS-swapped", assemble(b.typed, l), b.chain, false)
}

func (g *gen) mutateV(b *base, direct bool) {
	vi := len(b.elems) - 3
	trueV := new(big.Int).SetBytes(b.elems[vi].data)
	c := big.NewInt(b.chain)
	c2 := new(big.Int).Mul(c, big.NewInt(2))
	vals := []*big.Int{big.NewInt(0), big.NewInt(1), big.NewInt(2), big.NewInt(26), big.NewInt(27), big.NewInt(28), big.NewInt(29),
		big2(8, 0), big2(8, 27), big2(63, -1), big2(63, 0), big2(64, 0), big2(64, 1), big2(64, 27), big2(64, 28),
		new(big.Int).Add(trueV, big2(64, 0)), new(big.Int).Add(trueV, big2(8, 0)), new(big.Int).Add(trueV, big.NewInt(1)), new(big.Int).Sub(trueV, big.NewInt(1))}
	// what the EIP-155 subtraction turns into a plain parity 0/1 (2c+8, 2c+9), their neighbours, and into 27/28 + 256
	for _, d := range []int64{6, 7, 8, 9, 10, 11} {
		vals = append(vals, new(big.Int).Add(c2, big.NewInt(d)))
	}
	vals = append(vals, new(big.Int).Add(c2, big.NewInt(8+2)), new(big.Int).Add(new(big.Int).Add(c2, big.NewInt(8)), big2(64, 0)))
	for d := int64(33); d <= 38; d++ { // 35+2c-2 .. 35+2c+3
		vals = append(vals, new(big.Int).Add(c2, big.NewInt(d)))
		vals = append(vals, new(big.Int).Add(new(big.Int).Add(c2, big.NewInt(d)), big2(8, 0)))
	}
	for _, v := range vals {
		if v.Sign() < 0 {
			continue
		}
		l := append([]*elem{}, b.elems...)
		l[vi] = num(v)
		g.addAll("mut:V", assemble(b.typed, l), b.chain, direct)
	}
	for _, e := range []*elem{lst(), lst(str([]byte{27})), str([]byte{0, 27}), str([]byte{0})} {
		l := append([]*elem{}, b.elems...)
		l[vi] = e
		g.addAll("mut:V-shape", assemble(b.typed, l), b.chain, direct)
	}
}

func (g *gen) typeBytes(b *base) {
	raw := b.raw()
	body := raw
	if b.typed {
		body = raw[1:]
	}
	for t := 0; t < 256; t++ {
		// the type byte replaced / prepended
		g.addAll("mut:type-byte", append([]byte{byte(t)}, body...), b.chain, t == 2 || t == 0xc7 || t == 0xf8)
	}
	if !b.typed {
		// first byte of the legacy list itself altered
		for _, t := range []byte{0xc6, 0xc7, 0xf7, 0xf8, 0xf9, 0xb8, 0x7f, 0x80} {
			m := append([]byte{}, raw...)
			m[0] = t
			g.addAll("mut:first-byte", m, b.chain, true)
		}
	}
}

func (g *gen) truncations(b *base, every bool) {
	raw := b.raw()
	for k := 0; k < len(raw); k++ {
		if !every && k > 16 && k < len(raw)-16 && k%7 != 0 {
			continue
		}
		g.addAll("mut:truncate", raw[:k], b.chain, k%5 == 0)
	}
}

// negativeChains: legacy transactions signed (with the library) in the EIP-155 form for a negative supplied chain id
// whose V = 35+2c+parity is still a non-negative integer
func (g *gen) negativeChains(b *base) {
	if b.typed {
		return
	}
	for _, c := range []int64{-1, -3, -4, -5, -17, -18} {
		l2 := resign(false, b.elems, b.key, c, true)
		g.addAll("negative-chain-eip155", assemble(false, l2), c, true)
		g.addAll("negative-chain-eip155", assemble(false, l2), -c, false)
	}
}

func (g *gen) chains(b *base) {
	for _, c := range []int64{b.chain + 1, b.chain - 1, 0, -1, -b.chain, 1 << 62, (1 << 62) + b.chain, 1<<63 - 1, -(1 << 63)} {
		g.addAll("other-chain", b.raw(), c, true)
	}
}

// randStructured: a transaction-shaped list built from scratch (not from a signed base): every element
// has the right shape with probability ~0.85 and one of the wrong shapes otherwise; signed with the library
// for the payload its own elements define (so that only the shape checks stand between it and acceptance)
// or left with a random signature.
func (g *gen) randStructured(r *cv.Rand, keys []*secp256k1.KeyPair) {
	typed := r.Bool()
	chain := int64(r.Pick([]int{0, 1, 5, 1337, 1 << 31}))
	rint := func() *elem {
		switch r.Intn(5) {
		case 0:
			return str(nil)
		case 1:
			return str([]byte{byte(1 + r.Intn(255))})
		default:
			b := r.Bytes(1 + r.Intn(9))
			if b[0] == 0 {
				b[0] = 1
			}
			return str(b)
		}
	}
	wrong := func(e *elem) *elem {
		switch r.Intn(7) {
		case 0:
			return lst()
		case 1:
			return lst(e.clone())
		case 2:
			return str(append([]byte{0}, e.data...))
		case 3:
			return str([]byte{0})
		case 4:
			return str(r.Bytes(19))
		case 5:
			return str(r.Bytes(21 + r.Intn(20)))
		default:
			return str(nil)
		}
	}
	var l []*elem
	to := str(nil)
	if r.Intn(3) != 0 {
		to = str(r.Bytes(20))
	}
	data := str(r.Bytes(r.Pick([]int{0, 1, 4, 36, 55, 56, 100})))
	if typed {
		l = []*elem{num64(chain), rint(), rint(), rint(), rint(), to, rint(), data, lst()}
	} else {
		l = []*elem{rint(), rint(), rint(), to, rint(), data}
	}
	nf := len(l)
	dev := 0
	for i := range l {
		if r.Intn(7) == 0 {
			l[i] = wrong(l[i])
			dev++
		}
	}
	eip155 := r.Bool()
	k := keys[r.Intn(len(keys))]
	var full []*elem
	if r.Intn(4) != 0 {
		full = resign(typed, append(l, str(nil), str(nil), str(nil)), k, chain, eip155)
	} else {
		v := int64(27 + r.Intn(2))
		if typed {
			v -= 27
		} else if eip155 {
			v += chain*2 + 8
		}
		full = append(append([]*elem{}, l...), num64(v), str(r.Bytes(32)), str(r.Bytes(32)))
	}
	// deviations in the signature part and in the element count
	switch r.Intn(12) {
	case 0:
		full[nf] = wrong(full[nf])
	case 1:
		full[nf+1] = wrong(full[nf+1])
	case 2:
		full[nf+2] = wrong(full[nf+2])
	}
	switch r.Intn(10) { // independently: a different element count
	case 3:
		full = full[:len(full)-1]
	case 4:
		full = append(full, rint())
	case 5:
		full = append(full, lst(), rint())
	}
	kind := "random-structured:canonical"
	if dev > 0 {
		kind = "random-structured:deviating"
	}
	g.addAll(kind, assemble(typed, full), chain, r.Intn(3) == 0)
}

// ---------- sweep digest, mirrors Tx/RunC10.v ----------

func mulmodp(a, b uint64) uint64 {
	var res uint64
	a %= cv.CksP
	for b > 0 {
		if b&1 == 1 {
			res = (res + a) % cv.CksP
		}
		a = (a * 2) % cv.CksP
		b >>= 1
	}
	return res
}
func mix(acc uint64, l []byte) uint64 {
	n, a, b := cv.Cks(l)
	p := cv.CksP
	v := mulmodp(acc, 1000003)
	v = (v + mulmodp(n, 65537)) % p
	v = (v + mulmodp(a, 257)) % p
	v = (v + b%p + 1) % p
	return v
}
func serOutcome(o outcome) []byte {
	switch o.cls {
	case 0:
		return append(append([]byte{0}, o.addr...), o.payload...)
	case 1:
		return []byte{1}
	default:
		return []byte{2}
	}
}
func blockDigest(entry int, chain int64, k int, prefix []byte, count *int, panics *[]string) uint64 {
	var acc uint64
	var rec func(k int, cur []byte)
	rec = func(k int, cur []byte) {
		if k == 0 {
			o := runImpl(entry, cur, chain)
			if o.cls == 2 && len(*panics) < 8 {
				*panics = append(*panics, fmt.Sprintf("%s(%s)", entryNames[entry], hex.EncodeToString(cur)))
			}
			if o.shape != "" && len(*panics) < 8 {
				*panics = append(*panics, fmt.Sprintf("%s(%s): %s", entryNames[entry], hex.EncodeToString(cur), o.shape))
			}
			acc = mix(acc, serOutcome(o))
			*count++
			return
		}
		for b := 0; b < 256; b++ {
			rec(k-1, append(append([]byte{}, cur...), byte(b)))
		}
	}
	rec(k, prefix)
	return acc
}

func main() {
	out := flag.String("out", "", "output directory")
	tier := flag.String("tier", "quick", "quick|thorough")
	replay := flag.String("replay", "", "replay file")
	flag.Parse()
	if *out == "" {
		fmt.Fprintln(os.Stderr, "need -out")
		os.Exit(2)
	}
	os.MkdirAll(*out, 0o755)
	logrus.SetOutput(io.Discard) // the recovery functions log every refusal
	header := "From Coq Require Import String List NArith ZArith Uint63.\nFrom FFS Require Import Base.Bytes Base.Lit Tx.RunC10.\nImport ListNotations.\nOpen Scope string_scope. Open Scope N_scope."
	st := cv.NewStats()
	g := &gen{st: st, seen: map[string]bool{}, failCount: map[string]int{}}

	if *replay != "" {
		raw, err := os.ReadFile(*replay)
		if err != nil {
			panic(err)
		}
		var rp struct {
			Case json.RawMessage `json:"case"`
		}
		json.Unmarshal(raw, &rp)
		var d desc
		json.Unmarshal(rp.Case, &d)
		var alt struct {
			Input string `json:"input"`
			Chain int64  `json:"chain"`
			Entry int    `json:"entry"`
		}
		json.Unmarshal(rp.Case, &alt)
		hexIn := d.Full
		if hexIn == "" {
			hexIn = alt.Input
		}
		b, herr := hex.DecodeString(hexIn)
		if herr != nil {
			fmt.Println("replay: case has no literal input recorded; description:", d.Input)
			os.Exit(0)
		}
		g.w = cv.NewWriter(*out, "C10", header, "case", "mismatches", 1)
		o := g.add("replay", d.Entry, cv.Lit(b), d.Chain)
		g.w.Flush()
		// failures that need more than one call: other calls in between, the same call again, a few goroutines
		// (the extra cases go to a writer that is never flushed)
		{
			g.w = cv.NewWriter(*out, "C10aux", header, "case", "mismatches", 1)
			k := mustKey("0000000000000000000000000000000000000000000000000000000000000001")
			t := fieldSets(cv.NewRand(10))[0]
			for i := 0; i < 3; i++ {
				for mode := 0; mode < 3; mode++ {
					g.add("replay-aux", 0, cv.Compress(signBase(t, mode, k, 1337).raw()), 1337)
				}
				g.add("replay", d.Entry, cv.Lit(b), d.Chain)
			}
			g.finishRetained()
			g.pool = g.ring[:0]
			for _, in := range [][]byte{b, signBase(t, 1, k, 1337).raw(), signBase(t, 2, k, 1337).raw()} {
				e, c := 0, int64(1337)
				if len(g.pool) == 0 {
					e, c = d.Entry, d.Chain
				}
				oo := runImpl(e, append([]byte{}, in...), c)
				g.pool = append(g.pool, &retainedRes{kind: "replay", entry: e, chain: c, input: in, o: oo, fp: oo.liveFp()})
			}
			g.concurrentSection(4, 300)
		}
		fmt.Printf("implementation: %s(%s, chain %d): class=%d addr=%s payload=%s err=%s\n", entryNames[d.Entry], hexIn, d.Chain, o.cls,
			hex.EncodeToString(o.addr), hex.EncodeToString(o.payload), o.err)
		st.Evaluations = 1
		st.Write(filepath.Join(*out, "stats_C10.json"))
		return
	}

	thorough := *tier == "thorough"
	r := cv.NewRand(10)
	g.w = cv.NewWriter(*out, "C10", header, "case", "mismatches", 16)

	// --- fixed corpus: the witnesses of the repaired defects and hand-made boundary inputs ---
	hexb := func(s string) []byte { b, _ := hex.DecodeString(s); return b }
	for _, c := range []struct {
		entry int
		in    string
	}{
		{0, "02"}, {2, "02"}, {3, "02"}, // D10a
		{0, "0205"}, {2, "0205"}, {3, "0205"}, // D10b
		{0, "c9808080808080c08080"}, {1, "c9808080808080c08080"}, // D10c (legacy V is a list)
		{0, "02cc808080808080808080c08080"}, {2, "02cc808080808080808080c08080"}, // D10c (1559 V is a list)
		{1, "05"}, {1, "80"}, {1, "7f"}, // D10e
		{0, ""}, {1, ""}, {2, ""}, {3, ""},
		{0, "c0"}, {1, "c0"}, {0, "02c0"}, {3, "02c0"}, {0, "c7"}, {0, "c6"}, {1, "c6808080808080"},
		{0, "c9808080808080808080"}, {0, "c98080808080801b8080"}, {0, "c98080808080801c0101"}, {0, "c9808080808080250101"},
		{0, "02cc010180808080808080800101"}, {3, "02c9018080808080808080"}, {3, "02c90180808080808080c0"}, {3, "02c98080808080808080c0"},
		{0, "02f800"}, {2, "02f800"}, {3, "02f800"}, {0, "f801c0"}, {1, "f801c0"}, {0, "02f801c0"}, {1, "b800"}, {0, "02b800"}, {0, "f90000"}, {1, "f90000"},
		{0, "02f90000"}, {0, "c2b800"}, {0, "02c2b800"}, {0, "c2f800"}, {0, "02c2f800"}, {0, "c3b80100"}, {0, "c3f801c0"}, {0, "ca808080808080808080b8"}, {0, "ca80808080808080801bb8"},
		{0, "cb8080808080801b0101b800"}, {0, "cb8080808080801b0101f800"}, {0, "f80b8080808080801b0101b800"},
		{0, "ff"}, {0, "f8"}, {0, "f800"}, {1, "ff"}, {2, "02ff"}, {2, "03"}, {0, "01"}, {0, "03"}, {0, "7f"},
	} {
		for _, ch := range []int64{1, 0} {
			g.add("corpus", c.entry, cv.Lit(hexb(c.in)), ch)
		}
	}

	keys := []*secp256k1.KeyPair{
		mustKey("0000000000000000000000000000000000000000000000000000000000000001"),
		mustKey("fffffffffffffffffffffffffffffffebaaedce6af48a03bbfd25e8cd0364140"), // n-1
		mustKey("000000a1b2c3d4e5f60718293a4b5c6d7e8f90a1b2c3d4e5f60718293a4b5c6d"),
	}
	rk := r.Bytes(32)
	rk[0] &= 0x7f
	keys = append(keys, mustKey(hex.EncodeToString(rk)))
	chainsList := []int64{1337, 1, 0, 1 << 31, 1 << 53}

	// large inputs (first, so that the round-robin sharding spreads them): a valid transaction with
	// 60 KiB of data, and a list of many empty strings inside a long list header
	{
		t := fieldSets(r)[0]
		t.Data = bytes.Repeat([]byte{0x5a}, 60000)
		mode := 2
		if thorough {
			b := signBase(t, 1, keys[0], 1337)
			g.addAll("valid:large-data", b.raw(), 1337, false)
		}
		b := signBase(t, mode, keys[0], 1337)
		g.addAll("valid:large-data", b.raw(), 1337, false)
		nEmpty := 3000 // the list decoder model is quadratic in the number of elements under vm_compute
		if thorough {
			nEmpty = 65533
		}
		big := append(append([]byte{0xf9}, byte(nEmpty>>8), byte(nEmpty)), bytes.Repeat([]byte{0x80}, nEmpty)...)
		g.addAll("large:list-of-empty-strings", big, 1, false)
		g.addAll("large:list-of-empty-strings", append([]byte{2}, big[:len(big)-1]...), 0, false)
	}
	// --- valid signed transactions in every mode, every field set ---
	var bases []*base
	fs := fieldSets(r)
	nRand := 6
	if thorough {
		nRand = 40
	}
	for i := 0; i < nRand; i++ {
		fs = append(fs, randTx(r))
	}
	for fi, t := range fs {
		for mode := 0; mode < 4; mode++ {
			k := keys[(fi+mode)%len(keys)]
			ch := chainsList[(fi+mode)%len(chainsList)]
			b := signBase(t, mode, k, ch)
			bases = append(bases, b)
			raw := b.raw()
			g.addAll("valid:"+b.name, raw, ch, true)
			if !b.typed {
				// the unsigned EIP-1559 payload of the same fields, for DecodeEIP1559SignaturePayload
				up := t.SignaturePayloadEIP1559(ch).Bytes()
				g.add("valid:eip1559-signature-payload", 3, cv.Compress(up), ch)
				if mode == 0 && (fi < 3 || thorough) {
					top, _, derr := dec(up[1:])
					if derr != nil || top == nil || !top.list || len(top.kids) != 9 {
						panic("unsigned payload does not parse")
					}
					g.unsignedPayload(top.kids, ch, r)
				}
			}
		}
	}
	// the list header changes form when the payload of the list reaches 56 and 256 bytes: data lengths chosen
	// so that the signature payload, or the signed transaction, has exactly 55/56/255/256 bytes of list payload
	{
		addr := ethtypes.MustNewAddress("0x497eedc4299dea2f2a364be10025d0ad0f702de3")
		hitB := map[string]bool{}
		for d := 0; d <= 262; d++ {
			t := ethsigner.Transaction{Nonce: ethtypes.NewHexInteger64(1), GasPrice: ethtypes.NewHexInteger64(2), MaxFeePerGas: ethtypes.NewHexInteger64(3),
				GasLimit: ethtypes.NewHexInteger64(4), To: addr, Value: ethtypes.NewHexInteger64(5), Data: bytes.Repeat([]byte{0x11}, d)}
			inner := func(l []*elem) int {
				n := 0
				for _, k := range l {
					n += len(enc(k))
				}
				return n
			}
			dat := str(t.Data)
			leg := []*elem{num64(1), num64(2), num64(4), str(addr[:]), num64(5), dat}
			typ := []*elem{num64(1), num64(1), str(nil), num64(3), num64(4), str(addr[:]), num64(5), dat, lst()}
			sizes := map[int]int{ // mode -> list payload of the signature payload
				0: inner(leg), 1: inner(append(append([]*elem{}, leg...), num64(1), num64(0), num64(0))), 2: inner(typ)}
			for mode := 0; mode < 3; mode++ {
				sp := sizes[mode]
				signedMin := sp + 67 // + V (1) + R, S (33 each at most)
				if mode == 1 {
					signedMin = inner(leg) + 67
				}
				want := sp == 55 || sp == 56 || sp == 255 || sp == 256 || (signedMin >= 255 && signedMin <= 258)
				tag := fmt.Sprintf("%d/%d/%d", mode, sp, signedMin)
				if !want || hitB[tag] {
					continue
				}
				hitB[tag] = true
				b := signBase(t, mode, keys[d%len(keys)], 1)
				g.addAll("valid:list-header-boundary:"+b.name, b.raw(), 1, true)
			}
		}
	}
	// extreme chain ids: signed and recovered with the same chain, int64 wrap-around in the V arithmetic
	for i, ch := range []int64{1 << 62, 1<<62 - 18, 1<<62 - 17, 1<<63 - 1, 1<<53 + 1} {
		t := fs[i%3]
		for _, mode := range []int{1, 2} {
			b := signBase(t, mode, keys[i%len(keys)], ch)
			g.addAll("valid:extreme-chain:"+b.name, b.raw(), ch, true)
			g.addAll("valid:extreme-chain:other", b.raw(), ch+1, false)
		}
	}

	// --- structure-aware mutation ---
	// the expensive mutation families go to one base per mode, each with a different field set;
	// the cheaper ones to a further share of the bases
	isFull := func(i int) bool { return i%4 == (i/4)%4 && i < 16 }
	nLight := 10
	if thorough {
		isFull = func(i int) bool { return i < 24 }
		nLight = 60
	}
	light := 0
	for i, b := range bases {
		if isFull(i) {
			g.mutateElements(b, r, true)
			g.mutateRS(b, r)
			g.mutateV(b, true)
			g.truncations(b, i == 0 || i == 10 || thorough) // every offset for one legacy and one typed transaction
			g.resignedShapes(b, r)
			g.mutateTo(b, r)
			g.chains(b)
			g.negativeChains(b)
		} else if light < nLight {
			light++
			g.mutateElements(b, r, false)
			g.truncations(b, false)
			if light%2 == 0 {
				g.resignedShapes(b, r)
			} else {
				g.mutateV(b, false)
			}
		}
	}
	// every type byte, for one legacy and one typed transaction
	g.typeBytes(bases[1])
	g.typeBytes(bases[2])

	// --- transaction-shaped lists built from scratch ---
	nStruct := 300
	if thorough {
		nStruct = 4000
	}
	for i := 0; i < nStruct; i++ {
		g.randStructured(r, keys)
	}

	// --- random bytes up to 64 KiB ---
	nR := 250
	if thorough {
		nR = 5000
	}
	firsts := []byte{0x02, 0x02, 0xc7, 0xc9, 0xf7, 0xf8, 0xf9, 0xfa, 0xff, 0xc6, 0x01, 0x80, 0xb8}
	for i := 0; i < nR; i++ {
		n := r.Intn(48)
		switch {
		case i%25 == 0:
			n = 1 + r.Intn(65536)
		case i%5 == 0:
			n = 1 + r.Intn(600)
		}
		b := r.Bytes(n)
		if n > 0 && r.Intn(4) != 0 {
			b[0] = firsts[r.Intn(len(firsts))]
		}
		if n > 3 && r.Bool() {
			// make the header plausible: a list whose declared payload fits
			if b[0] == 2 {
				b[1] = 0xc0 + byte(min(n-2, 55))
			} else {
				b[0] = 0xc0 + byte(min(n-1, 55))
			}
		}
		g.addAll("random", b, []int64{1, 0, 1337}[r.Intn(3)], i%4 == 0)
	}
	// --- state kept across calls: the results still held are read again and their calls repeated; then the
	// pooled calls (accepted and refused inputs of every family) from 8 goroutines at once
	g.finishRetained()
	wk, rounds := 8, 6
	if thorough {
		rounds = 40
	}
	g.concurrentSection(wk, rounds)
	st.Extra["retained_window"] = retainN
	st.Extra["result_shape_checked"] = g.shapeChecked
	st.Extra["concurrent_pool"] = len(g.pool)
	if err := g.w.Flush(); err != nil {
		panic(err)
	}

	// --- exhaustive sweep: every input of length <= 2, every entry point ---
	var blocks []string
	count := 0
	var panics []string
	type ec struct {
		entry int
		chain int64
	}
	// (no input this short gets as far as looking at the chain id, so one chain id per entry point)
	for _, e := range []ec{{0, 1}, {1, 1}, {2, 0}, {3, 1}} {
		blocks = append(blocks, fmt.Sprintf("(%d%%nat, (%d)%%Z, BLit \"\", 0%%nat, %d)", e.entry, e.chain, blockDigest(e.entry, e.chain, 0, nil, &count, &panics)))
		blocks = append(blocks, fmt.Sprintf("(%d%%nat, (%d)%%Z, BLit \"\", 1%%nat, %d)", e.entry, e.chain, blockDigest(e.entry, e.chain, 1, nil, &count, &panics)))
		for b := 0; b < 256; b++ {
			blocks = append(blocks, fmt.Sprintf("(%d%%nat, (%d)%%Z, BLit \"%02x\", 1%%nat, %d)", e.entry, e.chain, b, blockDigest(e.entry, e.chain, 1, []byte{byte(b)}, &count, &panics)))
		}
	}
	for _, p := range panics {
		st.ImplFailures = append(st.ImplFailures, map[string]interface{}{"what": "panicked (or returned neither an error nor a complete result) in the exhaustive sweep", "input": p})
	}
	sweepShards := 4
	for k := 0; k < sweepShards; k++ {
		var mine []string
		for i, b := range blocks {
			if i%sweepShards == k {
				mine = append(mine, b)
			}
		}
		f, _ := os.Create(filepath.Join(*out, fmt.Sprintf("sweep_C10_%d.v", k)))
		fmt.Fprintln(f, header)
		fmt.Fprintf(f, "Definition blocks : list (nat * Z * bdsl * nat * N) := [\n  %s\n].\n", strings.Join(mine, ";\n  "))
		fmt.Fprintln(f, "Definition M := Eval vm_compute in (sweep_mismatches blocks).\nPrint M.")
		f.Close()
	}
	st.Extra["sweep_inputs"] = count
	st.Extra["sweep_max_len"] = 2
	st.Extra["sweep_blocks"] = len(blocks)
	st.Extra["base_transactions"] = len(bases)
	st.Exhaustive = true
	st.Evaluations = g.w.Count() + count
	st.Distinct += 65536 // the sweep inputs of length 2 (each run through every entry point)
	st.Rule = "signed transactions from the implementation's own signer (4 modes x field sets at the RLP/integer boundaries x keys 1, n-1, leading-zero, random x chain ids 0,1,1337,2^31,2^53 and int64 extremes), each under structure-aware mutation (every element -> empty list / list of itself / empty string / over-long / leading zero / zero byte; dropped; inserted; appended; R and S of every length 0..40, zero-padded, +-1, 0, n, 2^256-1, 2^256; V in {0,1,2,26..29,2^8,2^63-1,2^63,2^64,2^64+27,35+2c-2..35+2c+3 (+256), true V +-1 / +2^8 / +2^64, list, leading zero}; every type byte; truncation at every offset; 'to' of 0,1,19,20,21,32 bytes; wrong-shaped fields re-signed with the library so the signature is valid for them; non-empty access list; embedded chain id +1, +2^64, 0; other chain ids), random bytes up to 64 KiB with plausible headers, the witnesses of the repaired defects, and every byte string of length <= 2 through all four entry points (exhaustive, per-block digest). distinct = distinct (entry, chain, input); non-trivial = more than two bytes of input"
	if err := st.Write(filepath.Join(*out, "stats_C10.json")); err != nil {
		panic(err)
	}
}
