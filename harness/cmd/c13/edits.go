// Edit sessions: parameter definitions that CHANGE AFTER USE.
//
// An abi.Parameter caches its parsed type component tree in an unexported field; the API says "if you
// have modified the structure since Validate was last called, you should call Validate again".  The other
// generators of this harness parse every type text on fresh Parameter objects, so a change that makes a
// LATER parse depend on an EARLIER one (a member's cached tree reused by the enclosing tuple, a cache that
// survives a copy, a cache keyed by too little) is invisible to them (seed C02-4).
//
// A session holds a ParameterArray (1..3 top-level parameters, mostly tuples, members nested), uses it
// once (TypeComponentTree, SignatureString, String of every top-level parameter; in half of the sessions
// also of every nested member on its own, so that members carry their own cache), then repeatedly
//   * changes the definition: a member's / the root's type text (another leaf type, alias <-> canonical
//     spelling, leaf <-> tuple with the components left in place), the array suffix (other dimensions, one
//     more / one fewer), the components (add, remove, exchange, replace), an invalid text at any depth
//     (single-edit mutation or a fixed witness), a repair of the invalid text, back to the first definition;
//   * applies it to the Go objects in one of four ways: assigning the fields of the SAME objects; on
//     by-value copies of the Parameter structs (which copy the unexported cache); inside brand-new top-level
//     Parameters around by-value copies of the members (no Validate: the first use parses); in place with
//     every Components slice re-allocated and every other level a by-value copy;  optionally with the
//     existing member objects moved to other positions;
//   * calls Validate() on every top-level parameter (in a third of the steps Entry.Validate() first);
//   * observes acceptance, the tree and the rendering through the edited objects.
// Every observation is (1) written as an ordinary CParam case -- the model is pure, so its answer for the
// NEW definition is what Run.check_case compares with, together with the grammar oracle -- and (2) compared
// in Go with a fresh parse of the same definition.  Further Go-side checks: Validate, TypeComponentTree and
// SignatureString of the edited object agree (in particular a refused re-validation leaves no stale tree
// behind), ParameterArray.TypeComponentTree / Entry.Signature over the edited list are the tuple of the
// members' answers, the objects an edit was copied FROM still answer for their old definition, and every
// tree handed out is retained and looked at again later (gen.retain).
package main

import (
	"fmt"
	"strconv"
	"strings"

	"github.com/hyperledger/firefly-signer/pkg/abi"
)

const (
	editInPlace      = iota // assign the fields of the existing objects, then Validate() the top-level parameters
	editByValue             // copy the Parameter structs by value (with their unexported cache), edit the copies, Validate()
	editFreshTop            // new top-level Parameter structs around by-value copies of the members; no Validate (first use parses)
	editShallowSlice        // in place, but every Components slice is re-allocated and every other level is a by-value copy; Validate()
	editModes
)

// one step of a session as recorded for the replay
type sessStep struct {
	Defs []pj   `json:"defs"`
	Mode int    `json:"mode"` // -1: build fresh objects (first step)
	Rot  int    `json:"rot"`
	Warm bool   `json:"warm"` // use every nested member on its own after the step
	Val  int    `json:"validate"`
	What string `json:"edit"`
	Outs bool   `json:"as_outputs"` // the list is the entry's Outputs (else its Inputs)
}

type sessJ struct {
	Steps []sessStep `json:"steps"`
	Index int        `json:"index"` // the top-level parameter the case is about
}

// ---------- definitions ----------

func cloneParam(p *param) *param {
	q := &param{T: p.T}
	for _, c := range p.C {
		q.C = append(q.C, cloneParam(c))
	}
	return q
}

func cloneDefs(ds []*param) []*param {
	out := make([]*param, len(ds))
	for i, d := range ds {
		out[i] = cloneParam(d)
	}
	return out
}

func defsKey(ds []*param) string {
	var sb strings.Builder
	for _, d := range ds {
		sb.WriteString(d.key())
		sb.WriteByte(';')
	}
	return sb.String()
}

func defsJSON(ds []*param) []pj {
	out := make([]pj, len(ds))
	for i, d := range ds {
		out[i] = d.json()
	}
	return out
}

func nodesOfDefs(ds []*param) []*param {
	var out []*param
	var w func(p *param)
	w = func(p *param) {
		out = append(out, p)
		for _, c := range p.C {
			w(c)
		}
	}
	for _, d := range ds {
		w(d)
	}
	return out
}

func splitDims(s string) (string, string) {
	if i := strings.IndexByte(s, '['); i >= 0 {
		return s[:i], s[i:]
	}
	return s, ""
}

func isTupleText(s string) bool { return baseOf(s) == "tuple" }

func (g *gen) pickNode(ns []*param, pred func(*param) bool) *param {
	var c []*param
	for _, n := range ns {
		if pred(n) {
			c = append(c, n)
		}
	}
	if len(c) == 0 {
		return nil
	}
	// members (the later nodes) twice as likely as the first node
	if len(c) > 1 && g.r.Intn(3) != 0 {
		return c[1+g.r.Intn(len(c)-1)]
	}
	return c[g.r.Intn(len(c))]
}

var fixedInvalid = []string{"uint7", "tuple7", "uint008", "uint8[", "", "bytes33", "uint8[4294967296]", "uint8[01]", "Uint8", "fixed8x0", "tuple[", "string32", "uint264"}

var aliasPairs = [][2]string{{"uint", "uint256"}, {"int", "int256"}, {"fixed", "fixed128x18"}, {"ufixed", "ufixed128x18"}}

func (g *gen) editOnce(defs *[]*param) string {
	r := g.r
	ns := nodesOfDefs(*defs)
	any := func(*param) bool { return true }
	switch r.Intn(14) {
	case 0, 1: // another leaf type, dimensions kept
		n := g.pickNode(ns, func(p *param) bool { return !isTupleText(p.T) })
		if n == nil {
			return ""
		}
		_, d := splitDims(n.T)
		n.T = g.validLeaf() + d
		return "leaf-type"
	case 2: // other dimensions
		n := g.pickNode(ns, any)
		b, _ := splitDims(n.T)
		n.T = b + g.validDims()
		return "array-suffix"
	case 3: // one more / one fewer dimension
		n := g.pickNode(ns, any)
		b, d := splitDims(n.T)
		if d != "" && r.Bool() {
			n.T = b + d[:strings.LastIndexByte(d, '[')]
			return "dimension-removed"
		}
		n.T = n.T + []string{"[]", "[1]", "[2]", "[4294967295]", "[0]"}[r.Intn(5)]
		return "dimension-added"
	case 4, 5, 6: // the members of a tuple (or the top-level list)
		fields := defs
		top := true
		if tn := g.pickNode(ns, func(p *param) bool { return isTupleText(p.T) }); tn != nil && r.Intn(4) != 0 {
			fields = &tn.C
			top = false
		}
		switch op := r.Intn(4); {
		case op == 0 || len(*fields) == 0:
			if top && len(*fields) >= 3 {
				return ""
			}
			pos := r.Intn(len(*fields) + 1)
			nf := append([]*param{}, (*fields)[:pos]...)
			nf = append(nf, g.validParam(1))
			*fields = append(nf, (*fields)[pos:]...)
			return "member-added"
		case op == 1 && len(*fields) > 1:
			pos := r.Intn(len(*fields))
			nf := append([]*param{}, (*fields)[:pos]...)
			*fields = append(nf, (*fields)[pos+1:]...)
			return "member-removed"
		case op == 2 && len(*fields) > 1:
			i := r.Intn(len(*fields) - 1)
			nf := append([]*param{}, *fields...)
			nf[i], nf[i+1] = nf[i+1], nf[i]
			*fields = nf
			return "members-exchanged"
		case len(*fields) > 0:
			(*fields)[r.Intn(len(*fields))] = g.validParam(2)
			return "member-replaced"
		}
		return ""
	case 7: // leaf <-> tuple; the components stay where they are (they are not looked at on a leaf)
		n := g.pickNode(ns, any)
		_, d := splitDims(n.T)
		if isTupleText(n.T) {
			n.T = g.validLeaf() + d
			return "tuple-to-leaf"
		}
		n.T = "tuple" + d
		if len(n.C) == 0 || r.Bool() {
			n.C = []*param{g.validParam(1), g.validParam(0)}
		}
		return "leaf-to-tuple"
	case 8, 9: // a single-edit mutation of a text, at any depth (mostly refused)
		n := g.pickNode(ns, any)
		s, kind := g.mutate(n.T)
		n.T = s
		return "mutated:" + kind
	case 10: // a text that is certainly refused
		n := g.pickNode(ns, any)
		n.T = fixedInvalid[r.Intn(len(fixedInvalid))]
		return "invalid"
	case 11: // the same type spelled differently
		n := g.pickNode(ns, func(p *param) bool {
			b, _ := splitDims(p.T)
			for _, a := range aliasPairs {
				if b == a[0] || b == a[1] {
					return true
				}
			}
			return false
		})
		if n == nil {
			return ""
		}
		b, d := splitDims(n.T)
		for _, a := range aliasPairs {
			if b == a[0] {
				n.T = a[1] + d
			} else if b == a[1] {
				n.T = a[0] + d
			}
		}
		return "alias"
	case 12: // only a width / precision / length changes by a little (the trees differ in one number)
		n := g.pickNode(ns, any)
		s, kind := n.T, ""
		for try := 0; try < 8 && kind != "number-shift"; try++ {
			s, kind = g.mutate(n.T)
		}
		if kind != "number-shift" {
			return ""
		}
		n.T = s
		return "number-shift"
	default: // a whole member replaced by another parameter
		n := g.pickNode(ns, any)
		q := g.validParam(2)
		n.T, n.C = q.T, q.C
		return "node-replaced"
	}
}

func (g *gen) editDefs(defs []*param) ([]*param, string) {
	for try := 0; try < 50; try++ {
		cp := cloneDefs(defs)
		what := g.editOnce(&cp)
		if what != "" && defsKey(cp) != defsKey(defs) {
			return cp, what
		}
	}
	cp := cloneDefs(defs)
	return append(cp, leaf("uint8")), "member-added"
}

// ---------- objects ----------

// adopt turns the existing object `old` into the definition `fresh` (a freshly built object used as template).
func adopt(old, fresh *abi.Parameter, mode int, depth int, rot int) *abi.Parameter {
	p := old
	switch {
	case mode == editByValue, mode == editFreshTop && depth > 0, mode == editShallowSlice && depth%2 == 1:
		cp := *old // copies the unexported cache as well
		p = &cp
	case mode == editFreshTop && depth == 0:
		p = &abi.Parameter{Components: old.Components, Indexed: old.Indexed}
	}
	p.Name, p.Type, p.InternalType, p.Indexed = fresh.Name, fresh.Type, fresh.InternalType, fresh.Indexed
	p.Components = adoptList(p.Components, fresh.Components, mode, depth+1, rot)
	return p
}

func adoptList(olds, freshes abi.ParameterArray, mode int, depth int, rot int) abi.ParameterArray {
	if len(freshes) == 0 {
		return nil
	}
	var out abi.ParameterArray
	if mode == editInPlace && len(olds) == len(freshes) {
		out = olds // the same slice
	} else {
		out = make(abi.ParameterArray, len(freshes))
	}
	src := append(abi.ParameterArray{}, olds...)
	for i, f := range freshes {
		if i < len(src) {
			// rot != 0: the existing objects are reused at other positions
			out[i] = adopt(src[(i+rot)%len(src)], f, mode, depth, rot)
		} else {
			out[i] = f // more members than before: the additional ones are new objects
		}
	}
	// an object must not be used at two positions
	seen := map[*abi.Parameter]bool{}
	for i, p := range out {
		if seen[p] {
			out[i] = freshes[i]
		}
		seen[out[i]] = true
	}
	return out
}

// warm uses every nested Parameter on its own, so that members carry a cache of their own even when the
// enclosing parameter parses them without touching it.
func warm(pa abi.ParameterArray) {
	for _, p := range pa {
		func() {
			defer func() { _ = recover() }()
			if _, err := p.TypeComponentTree(); err == nil {
				_, _ = p.SignatureString()
				_ = p.String() // (logs a warning when the parameter is refused: only called on accepted ones)
			}
		}()
		warm(p.Components)
	}
}

// observeObj reads acceptance, tree and rendering through an existing object; `validated` says that
// Validate() was just called on it with the result vErr.
func observeObj(a *abi.Parameter, validated bool, vErr error) (r result, problem string) {
	defer func() {
		if x := recover(); x != nil {
			r = result{cls: 2, err: fmt.Sprint(x)}
		}
	}()
	tc, err := a.TypeComponentTree()
	sig, serr := a.SignatureString()
	switch {
	case validated && (vErr == nil) != (err == nil):
		problem = fmt.Sprintf("Validate ok=%v but TypeComponentTree afterwards ok=%v", vErr == nil, err == nil)
	case (serr == nil) != (err == nil):
		problem = fmt.Sprintf("TypeComponentTree ok=%v but SignatureString ok=%v", err == nil, serr == nil)
	}
	if err != nil {
		return result{cls: 1, err: err.Error()}, problem
	}
	r = result{cls: 0, tree: observe(tc), sig: tc.String(), tc: tc}
	if problem == "" && (sig != r.sig || a.String() != r.sig) {
		problem = fmt.Sprintf("SignatureString %q / String %q differ from the tree's rendering %q", sig, a.String(), r.sig)
	}
	return r, problem
}

type sessState struct {
	defs    []*param
	objs    abi.ParameterArray
	entry   *abi.Entry
	results []result
}

// apply performs one step on the session's objects and returns the observation per top-level parameter
// and the Go-side problems found.
func (s *sessState) apply(st sessStep) (res []result, problems []string) {
	defs := make([]*param, len(st.Defs))
	fresh := make(abi.ParameterArray, len(st.Defs))
	for i, j := range st.Defs {
		defs[i] = fromJSON(j)
		fresh[i] = defs[i].abi()
	}
	prevObjs, prevRes := s.objs, s.results
	if st.Mode < 0 {
		s.objs = fresh
		s.entry = nil
	} else {
		s.objs = adoptList(s.objs, fresh, st.Mode, 0, st.Rot)
	}
	if s.entry == nil || st.Mode == editFreshTop || st.Val == 2 {
		s.entry = &abi.Entry{Type: abi.Function, Name: "f"}
	}
	if st.Outs {
		s.entry.Inputs, s.entry.Outputs = nil, s.objs
	} else {
		s.entry.Inputs, s.entry.Outputs = s.objs, nil
	}
	s.defs = defs
	verrs := make([]error, len(s.objs))
	var eerr error
	entryValidated := false
	validated := st.Mode != editFreshTop && (st.Mode >= 0 || st.Val == 1)
	func() {
		defer func() {
			if x := recover(); x != nil {
				problems = append(problems, fmt.Sprint("panic in Validate: ", x))
			}
		}()
		if !validated {
			return
		}
		if st.Val == 0 {
			// the whole entry; it stops at the first refused parameter (the later ones then keep what
			// they had), so only an accepted entry stands for a validation of every parameter
			eerr = s.entry.Validate()
			entryValidated = true
			if eerr == nil {
				return
			}
		}
		for i, p := range s.objs {
			verrs[i] = p.Validate()
		}
	}()
	allOK := true
	var sigs, trees []string
	for i, p := range s.objs {
		r, problem := observeObj(p, validated, verrs[i])
		if problem != "" {
			problems = append(problems, fmt.Sprintf("parameter %d: %s", i, problem))
		}
		res = append(res, r)
		if r.cls != 0 {
			allOK = false
		} else {
			sigs = append(sigs, r.sig)
			trees = append(trees, r.tree.describe())
		}
	}
	if entryValidated && (eerr == nil) != allOK {
		problems = append(problems, fmt.Sprintf("Entry.Validate ok=%v, the parameters one by one ok=%v", eerr == nil, allOK))
	}
	// the list as a whole
	func() {
		defer func() {
			if x := recover(); x != nil {
				problems = append(problems, fmt.Sprint("panic in the list views: ", x))
			}
		}()
		tc, err := s.objs.TypeComponentTree()
		switch {
		case (err == nil) != allOK:
			problems = append(problems, fmt.Sprintf("ParameterArray.TypeComponentTree ok=%v, parameters one by one ok=%v", err == nil, allOK))
		case err == nil:
			if got, want := observe(tc).describe(), "tuple("+strings.Join(trees, ",")+")"; got != want {
				problems = append(problems, "ParameterArray.TypeComponentTree = "+got+", parameters one by one = "+want)
			} else if tc.String() != "("+strings.Join(sigs, ",")+")" {
				problems = append(problems, "ParameterArray tree renders as "+tc.String())
			}
		}
		sig, err := s.entry.Signature()
		switch {
		case st.Outs:
			if err != nil || sig != "f()" {
				problems = append(problems, fmt.Sprintf("Entry.Signature of an entry without inputs = %q, %v", sig, err))
			}
		case (err == nil) != allOK:
			problems = append(problems, fmt.Sprintf("Entry.Signature ok=%v, parameters one by one ok=%v", err == nil, allOK))
		case err == nil && sig != "f("+strings.Join(sigs, ",")+")":
			problems = append(problems, "Entry.Signature = "+sig+", parameters one by one give f("+strings.Join(sigs, ",")+")")
		}
	}()
	// the objects the edit was copied from are untouched: they still answer for their old definition
	if st.Mode == editByValue || st.Mode == editFreshTop {
		for i, p := range prevObjs {
			r, _ := observeObj(p, false, nil)
			if r.summary() != prevRes[i].summary() {
				problems = append(problems, fmt.Sprintf("the object parameter %d was copied from changed its answer: %s, before the copy was edited: %s",
					i, r.summary(), prevRes[i].summary()))
			}
		}
	}
	if st.Warm {
		warm(s.objs)
	}
	s.results = res
	return res, problems
}

func describeResult(r result) (implDesc, tree string) {
	tree = "None"
	switch r.cls {
	case 0:
		tree = "(Some " + r.tree.coq() + ")"
		implDesc = fmt.Sprintf("ok sig=%q tree=%s", r.sig, r.tree.describe())
	case 1:
		implDesc = "error: " + r.err
	default:
		implDesc = "PANIC: " + r.err
	}
	return
}

// record writes the observations of one step as cases and compares them with fresh parses.
func (g *gen) record(kind string, s *sessState, hist []sessStep, res []result, problems []string) {
	sj := func(i int) *sessJ { return &sessJ{Steps: append([]sessStep{}, hist...), Index: i} }
	for _, pr := range problems {
		g.st.ImplFailures = append(g.st.ImplFailures, map[string]interface{}{
			"what": "parameter objects edited between uses: " + pr, "session": sj(0), "kind": kind})
	}
	for i, r := range res {
		p := s.defs[i]
		fresh := run(p)
		if fresh.summary() != r.summary() {
			g.st.ImplFailures = append(g.st.ImplFailures, map[string]interface{}{
				"what":  "a parameter object that was used, edited and validated again answers differently from a fresh object with the same definition",
				"param": p.json(), "edited_object": r.summary(), "fresh_object": fresh.summary(), "session": sj(i), "kind": kind})
		}
		implDesc, tree := describeResult(r)
		g.st.Hit(fmt.Sprintf("%s:class=%d", "edit", r.cls))
		g.retain(p, r)
		g.emit(kind, p, r, tree, true, implDesc+" (edited object)", sj(i))
	}
}

// recordList writes the list-level views of the edited objects (Entry.Signature, ParameterArray tree) as cases.
func (g *gen) recordList(kind string, s *sessState, hist []sessStep) {
	if len(hist) > 0 && hist[len(hist)-1].Outs {
		return
	}
	sj := &sessJ{Steps: append([]sessStep{}, hist...), Index: -1}
	g.emitList(kind, s.defs, s.entry.Name, s.entry, s.objs, sj)
}

func anyRefused(res []result) bool {
	for _, r := range res {
		if r.cls != 0 {
			return true
		}
	}
	return false
}

func (g *gen) sessionDefs() []*param {
	r := g.r
	k := 1 + r.Intn(2)
	var defs []*param
	for j := 0; j < k; j++ {
		defs = append(defs, g.validParam(2))
	}
	// at least one tuple with members (members are where a stale cache can hide)
	t := &param{T: "tuple" + g.validDims()}
	for j, m := 0, 1+r.Intn(3); j < m; j++ {
		t.C = append(t.C, g.validParam(1+r.Intn(2)))
	}
	pos := r.Intn(len(defs) + 1)
	defs = append(append(append([]*param{}, defs[:pos]...), t), defs[pos:]...)
	if len(defs) > 3 {
		defs = defs[:3]
	}
	return defs
}

func (g *gen) editSessions(n int) {
	r := g.r
	for i := 0; i < n; i++ {
		defs := g.sessionDefs()
		first := cloneDefs(defs)
		s := &sessState{}
		outs := i%4 == 3
		st0 := sessStep{Defs: defsJSON(defs), Mode: -1, Warm: i%2 == 1, Val: i % 3 % 2, What: "first-use", Outs: outs}
		hist := []sessStep{st0}
		res, problems := s.apply(st0)
		g.record("edit:first-use", s, hist, res, problems)
		g.recordList("edit:first-use", s, hist)
		lastValid := cloneDefs(defs)
		refused := anyRefused(res)
		steps := 3 + r.Intn(3)
		for step := 0; step <= steps; step++ {
			var defs2 []*param
			what := ""
			switch {
			case step == steps:
				defs2, what = cloneDefs(first), "back-to-first"
			case refused && r.Bool():
				defs2, what = cloneDefs(lastValid), "repaired"
			case refused:
				defs2, what = g.editDefs(lastValid)
			default:
				defs2, what = g.editDefs(s.defs)
			}
			st := sessStep{Defs: defsJSON(defs2), Mode: (i + step) % editModes, Val: (i + 2*step) % 3, Warm: (i+step)%3 == 0, What: what, Outs: outs}
			if r.Intn(4) == 0 {
				st.Rot = 1
			}
			hist = append(hist, st)
			res, problems = s.apply(st)
			g.st.Hit("edit:" + strings.SplitN(what, ":", 2)[0])
			g.st.Hit("edit-mode:" + strconv.Itoa(st.Mode))
			g.record("edit:"+what, s, hist, res, problems)
			g.recordList("edit:"+what, s, hist)
			refused = anyRefused(res)
			if !refused {
				lastValid = cloneDefs(defs2)
			} else {
				g.st.Hit("edit:step-with-refused-parameter")
			}
		}
	}
}

// replaySession re-runs the recorded steps and prints what the edited objects and fresh ones answer.
func (g *gen) replaySession(sj *sessJ) {
	s := &sessState{}
	var hist []sessStep
	for k, st := range sj.Steps {
		hist = append(hist, st)
		res, problems := s.apply(st)
		for i, r := range res {
			fresh := run(s.defs[i])
			mark := ""
			if fresh.summary() != r.summary() {
				mark = "   <-- differs from a fresh object: " + fresh.summary()
			}
			fmt.Printf("step %d (%s, mode %d) parameter %d type=%q: %s%s\n", k, st.What, st.Mode, i, s.defs[i].T, r.summary(), mark)
		}
		for _, pr := range problems {
			fmt.Println("   problem:", pr)
		}
		if k == len(sj.Steps)-1 {
			g.record("replay", s, hist, res, problems)
			g.recordList("replay", s, hist)
			sig, err := s.entry.Signature()
			fmt.Printf("Entry.Signature of the edited list = %q, %v\n", sig, err)
		}
	}
}
