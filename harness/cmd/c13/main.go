// Harness for C13 (ABI type strings).  Generates ABI parameter objects (type text + components) from
// the type grammar, from single-edit mutations of valid types, from the boundary families the
// property lists and from arbitrary unicode / byte strings; runs pkg/abi on them under recover()
// and writes Coq case files that AbiType/Run.v evaluates against the model and the grammar.
package main

import (
	"encoding/hex"
	"encoding/json"
	"flag"
	"fmt"
	"os"
	"path/filepath"
	"strconv"
	"strings"
	"sync"
	"unicode/utf8"

	"github.com/hyperledger/firefly-signer/pkg/abi"
	"verifharness/cv"
)

// ---------- inputs ----------

type param struct {
	T string   // type text (arbitrary bytes)
	C []*param // components
}

type pj struct {
	T    string `json:"type_hex"`
	Text string `json:"type"`
	C    []pj   `json:"components,omitempty"`
}

func (p *param) json() pj {
	o := pj{T: hex.EncodeToString([]byte(p.T)), Text: strconv.QuoteToASCII(p.T)}
	for _, c := range p.C {
		o.C = append(o.C, c.json())
	}
	return o
}
func fromJSON(j pj) *param {
	b, _ := hex.DecodeString(j.T)
	p := &param{T: string(b)}
	for _, c := range j.C {
		p.C = append(p.C, fromJSON(c))
	}
	return p
}
func (p *param) coq() string {
	parts := make([]string, len(p.C))
	for i, c := range p.C {
		parts[i] = c.coq()
	}
	return "(DP " + cv.CoqBytes([]byte(p.T)) + " [" + strings.Join(parts, "; ") + "])"
}

// the name, the indexed flag and the internal type do not take part in the type grammar: they vary
// (deterministically, by the type text) so that a dependence on them shows up as a disagreement
var paramNames = []string{"p", "", "a b", "tuple", "uint8", "p"}

func (p *param) abi() *abi.Parameter {
	h := uint32(len(p.T)*7 + len(p.C))
	for i := 0; i < len(p.T); i++ {
		h = h*31 + uint32(p.T[i])
	}
	o := &abi.Parameter{Name: paramNames[h%uint32(len(paramNames))], Type: p.T, Indexed: h%5 == 0}
	if h%7 == 0 {
		o.InternalType = "struct X." + p.T
	}
	for _, c := range p.C {
		o.Components = append(o.Components, c.abi())
	}
	return o
}
func (p *param) key() string {
	var sb strings.Builder
	sb.WriteString(hex.EncodeToString([]byte(p.T)))
	sb.WriteByte('(')
	for _, c := range p.C {
		sb.WriteString(c.key())
		sb.WriteByte(',')
	}
	sb.WriteByte(')')
	return sb.String()
}

// ---------- observations ----------

type otree struct {
	kind   abi.ComponentType
	name   string
	suffix string
	m, n   uint16
	k      int
	kids   []*otree
}

func observe(tc abi.TypeComponent) *otree {
	o := &otree{kind: tc.ComponentType()}
	switch o.kind {
	case abi.ElementaryComponent:
		o.name = string(tc.ElementaryType().BaseType())
		o.suffix = tc.ElementarySuffix()
		o.m = tc.ElementaryM()
		o.n = tc.ElementaryN()
	case abi.FixedArrayComponent:
		o.k = tc.FixedArrayLen()
		o.kids = []*otree{observe(tc.ArrayChild())}
	case abi.DynamicArrayComponent:
		o.kids = []*otree{observe(tc.ArrayChild())}
	case abi.TupleComponent:
		for _, c := range tc.TupleChildren() {
			o.kids = append(o.kids, observe(c))
		}
	}
	return o
}
func (o *otree) coq() string {
	switch o.kind {
	case abi.ElementaryComponent:
		return fmt.Sprintf("(OElem %s %s %d %d)", cv.CoqBytes([]byte(o.name)), cv.CoqBytes([]byte(o.suffix)), o.m, o.n)
	case abi.FixedArrayComponent:
		if o.k < 0 {
			return "(OTuple [OTuple []; OTuple []; OTuple []])" // cannot happen on 64-bit; never matches
		}
		return fmt.Sprintf("(OFixed %s %d)", o.kids[0].coq(), o.k)
	case abi.DynamicArrayComponent:
		return "(ODyn " + o.kids[0].coq() + ")"
	default:
		parts := make([]string, len(o.kids))
		for i, c := range o.kids {
			parts[i] = c.coq()
		}
		return "(OTuple [" + strings.Join(parts, "; ") + "])"
	}
}
func (o *otree) describe() string {
	switch o.kind {
	case abi.ElementaryComponent:
		return fmt.Sprintf("%s|%s|m=%d|n=%d", o.name, o.suffix, o.m, o.n)
	case abi.FixedArrayComponent:
		return fmt.Sprintf("fixed[%d](%s)", o.k, o.kids[0].describe())
	case abi.DynamicArrayComponent:
		return "dyn(" + o.kids[0].describe() + ")"
	default:
		parts := make([]string, len(o.kids))
		for i, c := range o.kids {
			parts[i] = c.describe()
		}
		return "tuple(" + strings.Join(parts, ",") + ")"
	}
}
func (o *otree) tupleFree() bool {
	if o.kind == abi.TupleComponent {
		return false
	}
	for _, c := range o.kids {
		if !c.tupleFree() {
			return false
		}
	}
	return true
}

// normal form of an observed tree as a parameter object: canonical text for leaves, "tuple" +
// dimensions with normalised components for tuples (uses only the observation, not String())
func (o *otree) normal() *param {
	switch o.kind {
	case abi.ElementaryComponent:
		return &param{T: o.name + o.suffix}
	case abi.FixedArrayComponent:
		p := o.kids[0].normal()
		return &param{T: p.T + "[" + strconv.Itoa(o.k) + "]", C: p.C}
	case abi.DynamicArrayComponent:
		p := o.kids[0].normal()
		return &param{T: p.T + "[]", C: p.C}
	default:
		p := &param{T: "tuple"}
		for _, c := range o.kids {
			p.C = append(p.C, c.normal())
		}
		return p
	}
}

type result struct {
	cls  int // 0 ok, 1 error, 2 panic
	tree *otree
	sig  string
	err  string
	tc   abi.TypeComponent
}

// what the correspondence compares, as one string
func (r result) summary() string {
	if r.cls != 0 {
		return fmt.Sprintf("class=%d", r.cls)
	}
	return "ok " + r.tree.describe() + " sig=" + r.sig
}

func run(p *param) (r result) {
	defer func() {
		if x := recover(); x != nil {
			r = result{cls: 2, err: fmt.Sprint(x)}
		}
	}()
	tc, err := p.abi().TypeComponentTree()
	if err != nil {
		return result{cls: 1, err: err.Error()}
	}
	return result{cls: 0, tree: observe(tc), sig: tc.String(), tc: tc}
}

func revalidate(p *param) (cls int) {
	defer func() {
		if x := recover(); x != nil {
			cls = 2
		}
	}()
	a := p.abi()
	orig := a.Type
	a.Type = "uint256"
	_ = a.Validate()
	if _, err := a.TypeComponentTree(); err != nil {
		return 3
	}
	a.Type = orig
	if err := a.Validate(); err != nil {
		// the earlier (valid) tree must not be served for a text that was just refused
		if tc, err2 := a.TypeComponentTree(); err2 == nil && tc != nil {
			return 4
		}
		if _, err2 := a.SignatureString(); err2 == nil {
			return 4
		}
		return 1
	}
	// and the tree now served is the one of the new text
	tc, err := a.TypeComponentTree()
	if err != nil {
		return 1
	}
	fresh, err2 := p.abi().TypeComponentTree()
	if err2 != nil || tc.String() != fresh.String() || observe(tc).describe() != observe(fresh).describe() {
		return 3
	}
	// the other order: a refused text first, then this one
	b := p.abi()
	b.Type = "uint7["
	if b.Validate() == nil {
		return 3
	}
	b.Type = orig
	if _, err := b.TypeComponentTree(); err != nil {
		return 3
	}
	if s, err := b.SignatureString(); err != nil || s != fresh.String() {
		return 3
	}
	return 0
}

// other entry points must agree with TypeComponentTree: Validate (class) and SignatureString
func runEntryPoints(p *param) (vcls int, sig string, scls int) {
	func() {
		defer func() {
			if x := recover(); x != nil {
				vcls = 2
			}
		}()
		if err := p.abi().Validate(); err != nil {
			vcls = 1
		}
	}()
	func() {
		defer func() {
			if x := recover(); x != nil {
				scls = 2
			}
		}()
		s, err := p.abi().SignatureString()
		if err != nil {
			scls = 1
		}
		sig = s
	}()
	return
}

type desc struct {
	Kind  string    `json:"kind"`
	Param *pj       `json:"param,omitempty"`
	ABI   [][2][]pj `json:"abi,omitempty"`
	Impl  string    `json:"impl"`
	Key   string    `json:"key,omitempty"`
	// edit sessions (edits.go): the steps that led to the objects which gave this answer, and which
	// top-level parameter of the session the case is about
	Session *sessJ `json:"session,omitempty"`
	// list-level cases (CSig / CList): entry name and inputs
	Name   *string `json:"entry_name,omitempty"`
	Inputs []pj    `json:"inputs,omitempty"`
	// rune cases (runes.go): the text as hex
	Runes *string `json:"rune_text_hex,omitempty"`
}

type gen struct {
	w    *cv.Writer
	st   *cv.Stats
	seen map[string]bool
	r    *cv.Rand
	// returned trees kept and looked at again after other parameters have been parsed
	retained []retainedTree
	// distinct parameters with their sequential result, for the concurrent pass
	pool []pooled
}

type retainedTree struct {
	p       *param
	tc      abi.TypeComponent
	summary string
}

type pooled struct {
	p       *param
	summary string
}

const retainN = 256

// retain keeps the component tree handed out for p; when it leaves the window (or at the end) the tree
// is observed again and must still be what it was: a parse of another parameter must not reach into it.
func (g *gen) retain(p *param, r result) {
	if r.cls != 0 {
		return
	}
	g.retained = append(g.retained, retainedTree{p: p, tc: r.tc, summary: r.summary()})
	if len(g.retained) > retainN {
		g.recheck(g.retained[0])
		g.retained = g.retained[1:]
	}
}

func (g *gen) recheck(rt retainedTree) {
	now := "PANIC"
	func() {
		defer func() { _ = recover() }()
		now = result{cls: 0, tree: observe(rt.tc), sig: rt.tc.String()}.summary()
	}()
	g.st.Hit("retained:rechecked")
	if now != rt.summary {
		g.st.ImplFailures = append(g.st.ImplFailures, map[string]interface{}{
			"what": "a type component tree returned earlier changed after other parameters were parsed", "param": rt.p.json(),
			"first": rt.summary, "later": now})
	}
}

// concurrentPass validates the pooled parameters from several goroutines at once (each in its own order)
// and compares with the sequential results.
func (g *gen) concurrentPass(workers int) {
	var mu sync.Mutex
	var wg sync.WaitGroup
	bad := map[int]string{}
	n := len(g.pool)
	for w := 0; w < workers; w++ {
		wg.Add(1)
		go func(w int) {
			defer wg.Done()
			stride := []int{1, 7, 11, 13, 17, 19, 23, 29}[w%8]
			for i := 0; i < n; i++ {
				k := (w*131 + i*stride) % n
				if got := run(g.pool[k].p).summary(); got != g.pool[k].summary {
					mu.Lock()
					if _, dup := bad[k]; !dup {
						bad[k] = got
					}
					mu.Unlock()
				}
			}
		}(w)
	}
	wg.Wait()
	g.st.Distribution["concurrent:evaluations"] += n * workers
	reported := 0
	for k, got := range bad {
		if reported++; reported > 20 {
			break
		}
		g.st.ImplFailures = append(g.st.ImplFailures, map[string]interface{}{
			"what": "validating the parameter concurrently with others gives a different result than alone", "param": g.pool[k].p.json(),
			"sequential": g.pool[k].summary, "concurrent": got})
	}
}

var knownBases = map[string]bool{"int": true, "uint": true, "address": true, "bool": true, "fixed": true, "ufixed": true, "bytes": true, "function": true, "string": true, "tuple": true}

func baseOf(s string) string {
	i := 0
	for i < len(s) && s[i] >= 'a' && s[i] <= 'z' {
		i++
	}
	return s[:i]
}

func (g *gen) add(kind string, p *param) {
	r := run(p)
	implDesc := ""
	tree := "None"
	reparse := true
	switch r.cls {
	case 0:
		tree = "(Some " + r.tree.coq() + ")"
		implDesc = fmt.Sprintf("ok sig=%q tree=%s", r.sig, r.tree.describe())
		// idempotence, on the implementation alone: the normal form parses to the same tree and signature
		n := r.tree.normal()
		r2 := run(n)
		if r2.cls != 0 || r2.tree.describe() != r.tree.describe() || r2.sig != r.sig {
			reparse = false
		}
		if reparse && r.tree.tupleFree() {
			// for tuple-free types the rendered signature itself is an input spelling
			r3 := run(&param{T: r.sig, C: p.C})
			if r3.cls != 0 || r3.tree.describe() != r.tree.describe() || r3.sig != r.sig {
				reparse = false
			}
		}
		if !reparse {
			implDesc += " REPARSE-DIFFERS"
		}
	case 1:
		implDesc = "error: " + r.err
	default:
		implDesc = "PANIC: " + r.err
	}
	// Validate on a parameter whose type text was changed after an earlier Validate must reflect the new text
	if rv := revalidate(p); rv != r.cls {
		g.st.ImplFailures = append(g.st.ImplFailures, map[string]interface{}{
			"what": "Validate after changing Type does not equal Validate of a fresh parameter", "param": p.json(),
			"fresh_class": r.cls, "revalidate_class": rv})
	}
	vcls, sig2, scls := runEntryPoints(p)
	if vcls != r.cls || scls != r.cls || (r.cls == 0 && sig2 != r.sig) {
		g.st.ImplFailures = append(g.st.ImplFailures, map[string]interface{}{
			"what": "Validate / SignatureString / TypeComponentTree disagree on the same parameter", "param": p.json(),
			"tree_class": r.cls, "validate_class": vcls, "signature_class": scls, "sig_tree": r.sig, "sig_param": sig2})
	}
	g.st.Hit(fmt.Sprintf("%s:class=%d", kind, r.cls))
	b := baseOf(p.T)
	if knownBases[b] {
		g.st.Hit("base:" + b)
	} else {
		g.st.Hit("base:(unknown)")
	}
	g.st.Hit(fmt.Sprintf("len:%s", lenBucket(len(p.T))))
	k := p.key()
	if !g.seen[k] {
		g.seen[k] = true
		if knownBases[b] {
			g.st.Distinct++
		}
		if r.cls != 2 && (len(g.pool) < 4000 || len(g.seen)%8 == 0) && len(g.pool) < 12000 {
			g.pool = append(g.pool, pooled{p: p, summary: r.summary()})
		}
	}
	g.retain(p, r)
	if len(g.st.Samples) < 40 && g.w.Count()%97 == 0 {
		g.st.Samples = append(g.st.Samples, map[string]interface{}{"kind": kind, "param": p.json(), "impl": implDesc})
	}
	g.emit(kind, p, r, tree, reparse, implDesc, nil)
}

// emit writes one CParam case: the parameter object with what the implementation answered for it (for an
// edit session: what the EDITED objects answered; sess then records how they got there, for the replay)
func (g *gen) emit(kind string, p *param, r result, tree string, reparse bool, implDesc string, sess *sessJ) {
	j := p.json()
	g.w.Add(fmt.Sprintf("CParam %s %d %s %s %v", p.coq(), r.cls, tree, cv.CoqBytes([]byte(r.sig)), reparse),
		desc{Kind: kind, Param: &j, Impl: implDesc, Session: sess})
}

var entryNames = []string{"f", "transfer", "", "a b", "tuple", "f(", "x"}

func coqList(ps []*param) string {
	parts := make([]string, len(ps))
	for i, p := range ps {
		parts[i] = p.coq()
	}
	return "[" + strings.Join(parts, "; ") + "]"
}

// emitList writes the list-level observations as cases: Entry.Signature() (CSig) and
// ParameterArray.TypeComponentTree() (CList) of the given objects, which stand for the definitions ps.
func (g *gen) emitList(kind string, ps []*param, name string, en *abi.Entry, pa abi.ParameterArray, sess *sessJ) {
	ins := make([]pj, len(ps))
	for i, p := range ps {
		ins[i] = p.json()
	}
	// Entry.Signature
	cls, sig := 0, ""
	func() {
		defer func() {
			if x := recover(); x != nil {
				cls = 2
			}
		}()
		s, err := en.Signature()
		if err != nil {
			cls = 1
			return
		}
		sig = s
	}()
	g.st.Hit(fmt.Sprintf("list:signature:class=%d", cls))
	g.w.Add(fmt.Sprintf("CSig %s %s %d %s", cv.CoqBytes([]byte(name)), coqList(ps), cls, cv.CoqBytes([]byte(sig))),
		desc{Kind: kind + ":signature", Name: &name, Inputs: ins, Impl: fmt.Sprintf("class=%d sig=%q", cls, sig), Session: sess})
	// ParameterArray.TypeComponentTree
	var r result
	func() {
		defer func() {
			if x := recover(); x != nil {
				r = result{cls: 2, err: fmt.Sprint(x)}
			}
		}()
		tc, err := pa.TypeComponentTree()
		if err != nil {
			r = result{cls: 1, err: err.Error()}
			return
		}
		r = result{cls: 0, tree: observe(tc), sig: tc.String(), tc: tc}
	}()
	implDesc, tree := describeResult(r)
	g.st.Hit(fmt.Sprintf("list:tree:class=%d", r.cls))
	g.w.Add(fmt.Sprintf("CList %s %d %s %s", coqList(ps), r.cls, tree, cv.CoqBytes([]byte(r.sig))),
		desc{Kind: kind + ":list-tree", Name: &name, Inputs: ins, Impl: implDesc, Session: sess})
}

func lenBucket(n int) string {
	switch {
	case n == 0:
		return "0"
	case n <= 8:
		return "1..8"
	case n <= 24:
		return "9..24"
	default:
		return ">24"
	}
}

func (g *gen) addABI(kind string, entries [][2][]*param) {
	a := abi.ABI{}
	var dj [][2][]pj
	parts := []string{}
	for _, e := range entries {
		en := &abi.Entry{Type: abi.Function, Name: "f"}
		var ej [2][]pj
		var ins, outs []string
		for _, p := range e[0] {
			en.Inputs = append(en.Inputs, p.abi())
			ej[0] = append(ej[0], p.json())
			ins = append(ins, p.coq())
		}
		for _, p := range e[1] {
			en.Outputs = append(en.Outputs, p.abi())
			ej[1] = append(ej[1], p.json())
			outs = append(outs, p.coq())
		}
		a = append(a, en)
		dj = append(dj, ej)
		parts = append(parts, "(["+strings.Join(ins, "; ")+"], ["+strings.Join(outs, "; ")+"])")
	}
	cls := 0
	func() {
		defer func() {
			if x := recover(); x != nil {
				cls = 2
			}
		}()
		if err := a.Validate(); err != nil {
			cls = 1
		}
	}()
	g.entryOracles(entries, dj)
	g.st.Hit(fmt.Sprintf("%s:class=%d", kind, cls))
	g.w.Add(fmt.Sprintf("CAbi [%s] %d", strings.Join(parts, "; "), cls), desc{Kind: kind, ABI: dj, Impl: fmt.Sprintf("class=%d", cls)})
}

// entryOracles: the entry-level views of the same parameters (Entry.Validate, Entry.Signature,
// ParameterArray.TypeComponentTree, for every kind of entry) agree with the per-parameter results.
func (g *gen) entryOracles(entries [][2][]*param, dj [][2][]pj) {
	kinds := []abi.EntryType{abi.Function, abi.Event, abi.Error, abi.Constructor, abi.Fallback, abi.Receive}
	for ei, e := range entries {
		en := &abi.Entry{Type: kinds[(ei+len(e[0]))%len(kinds)], Name: "f"}
		allOK, insOK := true, true
		var sigs, trees []string
		for _, p := range e[0] {
			en.Inputs = append(en.Inputs, p.abi())
			r := run(p)
			if r.cls != 0 {
				allOK, insOK = false, false
			} else {
				sigs = append(sigs, r.sig)
				trees = append(trees, r.tree.describe())
			}
		}
		for _, p := range e[1] {
			en.Outputs = append(en.Outputs, p.abi())
			if run(p).cls != 0 {
				allOK = false
			}
		}
		problem := ""
		func() {
			defer func() {
				if x := recover(); x != nil {
					problem = fmt.Sprint("panic: ", x)
				}
			}()
			// the tuple view of the inputs first (fresh parameters), then Validate, then the signature
			pa := abi.ParameterArray{}
			for _, p := range e[0] {
				pa = append(pa, p.abi())
			}
			tc, err := pa.TypeComponentTree()
			switch {
			case (err == nil) != insOK:
				problem = fmt.Sprintf("ParameterArray.TypeComponentTree ok=%v, parameters one by one ok=%v", err == nil, insOK)
			case err == nil:
				want := "tuple(" + strings.Join(trees, ",") + ")"
				if got := observe(tc).describe(); got != want {
					problem = "ParameterArray.TypeComponentTree = " + got + ", parameters one by one = " + want
				} else if tc.String() != "("+strings.Join(sigs, ",")+")" {
					problem = "ParameterArray tree renders as " + tc.String()
				}
			}
			if problem != "" {
				return
			}
			if err := en.Validate(); (err == nil) != allOK {
				problem = fmt.Sprintf("Entry.Validate ok=%v, parameters one by one ok=%v", err == nil, allOK)
				return
			}
			sig, err := en.Signature()
			if (err == nil) != insOK {
				problem = fmt.Sprintf("Entry.Signature ok=%v, inputs one by one ok=%v", err == nil, insOK)
			} else if err == nil && sig != "f("+strings.Join(sigs, ",")+")" {
				problem = "Entry.Signature = " + sig + ", inputs one by one give f(" + strings.Join(sigs, ",") + ")"
			}
		}()
		g.st.Hit("entry-oracle:" + string(en.Type))
		{
			// the same list on fresh objects as model-checked cases (entry names vary: they are not validated)
			name := entryNames[(ei+len(e[0])+len(e[1]))%len(entryNames)]
			fe := &abi.Entry{Type: en.Type, Name: name}
			pa := abi.ParameterArray{}
			for _, p := range e[0] {
				fe.Inputs = append(fe.Inputs, p.abi())
				pa = append(pa, p.abi())
			}
			g.emitList("entry", e[0], name, fe, pa, nil)
		}
		if problem != "" {
			g.st.ImplFailures = append(g.st.ImplFailures, map[string]interface{}{
				"what": "entry-level view disagrees with the parameters validated one by one: " + problem, "entry": dj[ei]})
		}
	}
}

// ---------- generators ----------

var leafBases = []string{"uint", "int", "address", "bool", "fixed", "ufixed", "bytes", "function", "string"}

func (g *gen) validLeaf() string {
	r := g.r
	switch r.Intn(12) {
	case 0:
		return "uint" + strconv.Itoa(8*(1+r.Intn(32)))
	case 1:
		return "int" + strconv.Itoa(8*(1+r.Intn(32)))
	case 2:
		return []string{"uint", "int", "fixed", "ufixed"}[r.Intn(4)]
	case 3:
		return "address"
	case 4:
		return "bool"
	case 5:
		return "fixed" + strconv.Itoa(8*(1+r.Intn(32))) + "x" + strconv.Itoa(1+r.Intn(80))
	case 6:
		return "ufixed" + strconv.Itoa(8*(1+r.Intn(32))) + "x" + strconv.Itoa(1+r.Intn(80))
	case 7:
		return "bytes" + strconv.Itoa(1+r.Intn(32))
	case 8:
		return "bytes"
	case 9:
		return "string"
	case 10:
		return "function"
	default:
		return []string{"uint256", "uint8", "int256", "bytes32", "bytes1", "fixed8x1", "ufixed256x80", "fixed128x18"}[r.Intn(8)]
	}
}

func (g *gen) validDims() string {
	r := g.r
	n := []int{0, 0, 0, 1, 1, 2, 3}[r.Intn(7)]
	s := ""
	for i := 0; i < n; i++ {
		switch r.Intn(6) {
		case 0, 1:
			s += "[]"
		case 2:
			s += "[" + strconv.Itoa(r.Intn(10)) + "]"
		case 3:
			s += "[" + strconv.Itoa(r.Intn(1000)) + "]"
		case 4:
			s += "[" + []string{"0", "1", "9", "10", "255", "256", "65535", "65536", "4294967295", "2147483648"}[r.Intn(10)] + "]"
		default:
			s += "[" + strconv.FormatUint(r.U64()%4294967296, 10) + "]"
		}
	}
	return s
}

func (g *gen) validParam(depth int) *param {
	r := g.r
	if depth > 0 && r.Intn(4) == 0 {
		p := &param{T: "tuple" + g.validDims()}
		n := []int{0, 1, 1, 2, 2, 3}[r.Intn(6)]
		for i := 0; i < n; i++ {
			p.C = append(p.C, g.validParam(depth-1))
		}
		return p
	}
	p := &param{T: g.validLeaf() + g.validDims()}
	if r.Intn(10) == 0 {
		// components on a non-tuple are not looked at
		p.C = append(p.C, &param{T: []string{"uint8", "nonsense", "", "tuple"}[r.Intn(4)]})
	}
	return p
}

const alphabet = "abcdefghijklmnopqrstuvwxyz0123456789[]x(),"

var editChars = []string{"0", "1", "7", "8", "9", "[", "]", "x", "+", "-", " ", "\t", "_", ".", ",", "(", ")", "e", "a", "U", "X", "I", "B", "T", "\n", "\x00", "é", "８", " ", "\xff", "[]", "[0]", "0x"}

func (g *gen) mutate(s string) (string, string) {
	r := g.r
	b := []byte(s)
	pos := 0
	if len(b) > 0 {
		pos = r.Intn(len(b) + 1)
	}
	switch r.Intn(9) {
	case 0: // insert
		c := editChars[r.Intn(len(editChars))]
		return string(b[:pos]) + c + string(b[pos:]), "insert"
	case 1: // delete
		if len(b) == 0 {
			return s, "noop"
		}
		if pos == len(b) {
			pos--
		}
		return string(b[:pos]) + string(b[pos+1:]), "delete"
	case 2: // replace
		if len(b) == 0 {
			return s, "noop"
		}
		if pos == len(b) {
			pos--
		}
		c := editChars[r.Intn(len(editChars))]
		return string(b[:pos]) + c + string(b[pos+1:]), "replace"
	case 3: // replace by alphabet char
		if len(b) == 0 {
			return s, "noop"
		}
		if pos == len(b) {
			pos--
		}
		return string(b[:pos]) + string(alphabet[r.Intn(len(alphabet))]) + string(b[pos+1:]), "replace-alpha"
	case 4: // upper-case one letter
		for i := range b {
			j := (pos + i) % len(b)
			if b[j] >= 'a' && b[j] <= 'z' {
				b[j] -= 32
				return string(b), "upper"
			}
		}
		return s, "noop"
	case 5: // leading zero before a digit run
		for i := range b {
			j := (pos + i) % len(b)
			if b[j] >= '0' && b[j] <= '9' && (j == 0 || b[j-1] < '0' || b[j-1] > '9') {
				return string(b[:j]) + "0" + string(b[j:]), "leading-zero"
			}
		}
		return s, "noop"
	case 6: // sign / space before a digit run
		for i := range b {
			j := (pos + i) % len(b)
			if b[j] >= '0' && b[j] <= '9' && (j == 0 || b[j-1] < '0' || b[j-1] > '9') {
				c := []string{"+", "-", " "}[r.Intn(3)]
				return string(b[:j]) + c + string(b[j:]), "sign-space"
			}
		}
		return s, "noop"
	case 7: // change a number by +-1, or make it huge
		for i := range b {
			j := (pos + i) % len(b)
			if b[j] >= '0' && b[j] <= '9' && (j == 0 || b[j-1] < '0' || b[j-1] > '9') {
				e := j
				for e < len(b) && b[e] >= '0' && b[e] <= '9' {
					e++
				}
				v, _ := strconv.ParseUint(string(b[j:e]), 10, 64)
				var nv string
				switch r.Intn(5) {
				case 0:
					nv = strconv.FormatUint(v+1, 10)
				case 1:
					if v > 0 {
						nv = strconv.FormatUint(v-1, 10)
					} else {
						nv = "1"
					}
				case 2:
					nv = strconv.FormatUint(v+8, 10)
				case 3:
					nv = strconv.FormatUint(v+65536, 10)
				default:
					nv = strconv.FormatUint(v+4294967296, 10)
				}
				return string(b[:j]) + nv + string(b[e:]), "number-shift"
			}
		}
		return s, "noop"
	default: // duplicate / swap adjacent
		if len(b) < 2 {
			return s + s, "dup"
		}
		if pos >= len(b)-1 {
			pos = len(b) - 2
		}
		b[pos], b[pos+1] = b[pos+1], b[pos]
		return string(b), "swap"
	}
}

func (g *gen) randomText() string {
	r := g.r
	n := r.Intn(25)
	switch r.Intn(4) {
	case 0: // random bytes (mostly invalid UTF-8)
		return string(r.Bytes(n))
	case 1: // random runes
		var sb strings.Builder
		for i := 0; i < n; i++ {
			var ru rune
			switch r.Intn(4) {
			case 0:
				ru = rune(r.Intn(0x80))
			case 1:
				ru = rune(0x80 + r.Intn(0x780))
			case 2:
				ru = rune(0x800 + r.Intn(0xf000))
			default:
				ru = rune(0x10000 + r.Intn(0x100000))
			}
			if !utf8.ValidRune(ru) {
				ru = 0xfffd
			}
			sb.WriteRune(ru)
		}
		return sb.String()
	case 2: // random over the ABI alphabet
		var sb strings.Builder
		for i := 0; i < n; i++ {
			sb.WriteByte(alphabet[r.Intn(len(alphabet))])
		}
		return sb.String()
	default: // a known base followed by alphabet noise
		var sb strings.Builder
		sb.WriteString(append(leafBases, "tuple")[r.Intn(10)])
		for i := 0; i < r.Intn(8); i++ {
			sb.WriteByte("0123456789[]x"[r.Intn(13)])
		}
		return sb.String()
	}
}

func leaf(s string) *param { return &param{T: s} }

func (g *gen) boundaryCorpus(thorough bool) {
	u8 := []*param{leaf("uint8")}
	// regression corpus: the witnesses of D13a / D13b (fixed by 72abd47, dff070b) and their neighbours
	for _, s := range []string{"uint008", "uint0008", "bytes01", "fixed128x018", "fixed0128x18", "uint256[007]", "uint256[00]", "uint256[0]",
		"uint256[01]", "int08", "ufixed08x1", "ufixed8x01", "bytes032", "uint0", "uint00", "bytes00", "string[01][]", "bool[][001]"} {
		g.add("corpus:leading-zero", leaf(s))
	}
	for _, s := range []string{"tuple7", "tuple7[2]", "tuple256", "tuplex", "tuple0", "tuple1[]", "tuple [2]", "tuple()", "tuple,", "tuple", "tuple[]", "tuple[2][]", "tuples", "tupl", "tuplee[2]"} {
		g.add("corpus:tuple-suffix", &param{T: s, C: u8})
	}
	// every width around the table for uint / int / bytes
	for m := 0; m <= 300; m++ {
		g.add("family:uintM", leaf("uint"+strconv.Itoa(m)))
		g.add("family:intM", leaf("int"+strconv.Itoa(m)))
	}
	for _, m := range []uint64{65535, 65536, 65537, 65544, 65536 + 256, 131072 + 8, 4294967296, 4294967304, 4294967552, 18446744073709551615} {
		g.add("family:uintM-huge", leaf("uint"+strconv.FormatUint(m, 10)))
		g.add("family:intM-huge", leaf("int"+strconv.FormatUint(m, 10)))
		g.add("family:bytesM-huge", leaf("bytes"+strconv.FormatUint(m, 10)))
		g.add("family:fixedM-huge", leaf("fixed"+strconv.FormatUint(m, 10)+"x18"))
		g.add("family:fixedN-huge", leaf("ufixed128x"+strconv.FormatUint(m, 10)))
	}
	for _, s := range []string{"uint18446744073709551616", "uint99999999999999999999999", "uint256[18446744073709551616]", "uint8[99999999999999999999999]", "bytes18446744073709551617", "fixed8x18446744073709551617"} {
		g.add("family:overflow64", leaf(s))
	}
	for m := 0; m <= 70; m++ {
		g.add("family:bytesM", leaf("bytes"+strconv.Itoa(m)))
	}
	// fixed / ufixed: all M with N = 18, all N with M = 128, corners +-1
	for _, b := range []string{"fixed", "ufixed"} {
		for m := 0; m <= 272; m++ {
			if m%8 == 0 || m%8 == 1 || m%8 == 7 || m < 10 || m > 250 {
				g.add("family:fixedM", leaf(b+strconv.Itoa(m)+"x18"))
			}
		}
		for n := 0; n <= 90; n++ {
			g.add("family:fixedN", leaf(b+"128x"+strconv.Itoa(n)))
		}
		for _, m := range []int{0, 7, 8, 9, 16, 248, 255, 256, 257, 264} {
			for _, n := range []int{0, 1, 2, 79, 80, 81, 255, 256} {
				g.add("family:fixed-corners", leaf(b+strconv.Itoa(m)+"x"+strconv.Itoa(n)))
			}
		}
		for _, s := range []string{"x", "x18", "128x", "128", "128x18x", "128x18x1", "128xx18", "x128x18", "128X18", "128x-18", "128x+18", "128 x18", "128x 18", "+128x18", "128.18", "128x1_8", "1_28x18", "0x80x18", "128x0x12"} {
			g.add("family:fixed-malformed", leaf(b+s))
		}
	}
	// suffix-less types with a suffix; missing / malformed suffixes
	for _, b := range []string{"address", "bool", "string", "function"} {
		for _, s := range []string{"", "1", "8", "0", "160", "24", "x", " ", "8x1", "[", "]", "[]", "[1]", "[]]", "[[]", "s", "A"} {
			g.add("family:suffixless", leaf(b+s))
		}
	}
	for _, b := range []string{"uint", "int", "bytes", "fixed", "ufixed"} {
		for _, s := range []string{"", " ", "+8", "-8", " 8", "8 ", "8\t", "\t8", "8\n", "0x8", "0b1000", "0o10", "1_6", "_8", "8_", "1e1", "8.0", "٨", "８", "８[]", "8é"} {
			g.add("family:sign-space", leaf(b+s))
		}
	}
	// upper case, prefixes
	for _, s := range []string{"Uint8", "uInt8", "uinT8", "UINT8", "Address", "addresS", "Bool", "BYTES", "Bytes32", "String", "Tuple", "tuplE", "Function", "Fixed", "uFixed128x18", " uint8", "\tuint8", "uint8\n", "(uint8)", "()", "(", ")", "", " ", "8", "[]", "[1]", "x", "uint,uint", "uint8,", "uintx", "intx8", "uin", "u", "ui256", "bytess", "byte", "byte1", "str", "strings", "addres", "addresss", "boolean", "fix128x18", "fixedd128x18", "ufixe128x18", "functio", "functions", "unit8", "uint256uint256"} {
		g.add("family:case-prefix", &param{T: s, C: u8})
	}
	// array dimensions on every base
	dimsList := []string{"[]", "[0]", "[1]", "[2]", "[10]", "[4294967295]", "[4294967296]", "[4294967297]", "[2147483647]", "[2147483648]", "[18446744073709551615]", "[18446744073709551616]",
		"[][]", "[2][3]", "[][3]", "[3][]", "[1][2][3][4]", "[", "]", "[[]", "[]]", "[[]]", "][", "[1", "1]", "[1]]", "[[1]", "[1][", "[1]]2[", "[]x", "[]1", "[] ", "[ ]", "[ 1]", "[1 ]", "[a]", "[-1]", "[+1]", "[-0]",
		"[0x10]", "[1_0]", "[01]", "[00]", "[1e3]", "[1.0]", "[,]", "[1,2]", "[x]", "[]uint8", "[][", "[]]x[", "[１]", "[é]", "[\x00]", "[\xff]", "[1][01]", "[01][1]", "[][00]"}
	for _, b := range []string{"uint256", "uint", "int8", "address", "bool", "fixed128x18", "ufixed", "bytes32", "bytes", "string", "function", "tuple", "uint7", "nothing", ""} {
		for _, d := range dimsList {
			g.add("family:dims", &param{T: b + d, C: u8})
		}
	}
	// tuples: components of every shape, nesting, invalid member at depth
	g.add("family:tuple", &param{T: "tuple"})
	g.add("family:tuple", &param{T: "tuple[]"})
	g.add("family:tuple", &param{T: "tuple", C: []*param{leaf("uint8"), leaf("string[]"), leaf("bytes")}})
	g.add("family:tuple", &param{T: "tuple", C: []*param{leaf("uint8"), leaf("uint008")}})
	g.add("family:tuple", &param{T: "tuple", C: []*param{leaf("uint7")}})
	g.add("family:tuple", &param{T: "tuple", C: []*param{{T: "tuple", C: []*param{{T: "tuple[2]", C: []*param{leaf("int")}}}}}})
	g.add("family:tuple", &param{T: "tuple", C: []*param{{T: "tuple", C: []*param{{T: "tuple[2]", C: []*param{leaf("int1")}}}}}})
	g.add("family:tuple", &param{T: "tuple", C: []*param{{T: "tuple9", C: []*param{leaf("int")}}}})
	g.add("family:tuple", &param{T: "tuple", C: []*param{leaf("uint8"), leaf("")}})
	g.add("family:tuple", &param{T: "tuple[", C: []*param{leaf("nonsense")}})
	g.add("family:tuple", &param{T: "tuple[01]", C: []*param{leaf("bool")}})
	g.add("family:tuple", &param{T: "uint8", C: []*param{leaf("nonsense")}})
	g.add("family:tuple", &param{T: "uint8[2]", C: []*param{{T: "tuple7"}}})
	// deep nesting
	{
		p := leaf("uint8")
		for i := 0; i < 12; i++ {
			p = &param{T: "tuple" + []string{"", "[]", "[2]"}[i%3], C: []*param{p, leaf("bool")}}
			g.add("family:tuple-deep", p)
		}
	}
	// wrap-around of a width / precision / dimension parsed wider than it is stored: 2^16, 2^32, 2^64 + a valid value
	for _, w := range []string{"65544", "65568", "65537", "131073", "4294967297", "4294967328", "18446744073709551624", "18446744073709551617", "18446744073709551648",
		"340282366920938463463374607431768211464", "115792089237316195423570985008687907853269984665640564039457584007913129640192"} {
		for _, f := range []string{"uint%s", "int%s", "bytes%s", "fixed%sx18", "ufixed128x%s", "uint8[%s]", "tuple[%s]", "bytes%s[1]", "string[2][%s]"} {
			g.add("family:wraparound", &param{T: fmt.Sprintf(f, w), C: u8})
		}
	}
	// long inputs: many dimensions, long numerals, many components (nothing in the grammar bounds them)
	for _, b := range []string{"uint256", "ufixed256x80", "bytes", "tuple", "string", "bool", "uint7", "tuple7"} {
		for _, n := range []int{5, 8, 9, 15, 16, 17, 31, 32, 33, 64, 65, 100, 257} {
			var sb, sb2, sb3 strings.Builder
			for i := 0; i < n; i++ {
				sb.WriteString([]string{"[]", "[4294967295]", "[0]", "[10]"}[(i+n)%4])
				sb2.WriteString("[]")
				sb3.WriteString("[" + strconv.Itoa(i+1) + "]")
			}
			g.add("family:dims-long", &param{T: b + sb.String(), C: u8})
			g.add("family:dims-long", &param{T: b + sb2.String(), C: u8})
			g.add("family:dims-long", &param{T: b + sb3.String(), C: u8})
			// the same with one bad dimension at the far end / in the middle
			g.add("family:dims-long-bad", &param{T: b + sb2.String() + "[01]", C: u8})
			g.add("family:dims-long-bad", &param{T: b + sb2.String() + "[", C: u8})
			g.add("family:dims-long-bad", &param{T: b + sb3.String()[:sb3.Len()/2] + "]" + sb3.String()[sb3.Len()/2:], C: u8})
			g.add("family:dims-long-bad", &param{T: b + sb.String() + "[4294967296]", C: u8})
		}
	}
	for _, z := range []int{1, 2, 15, 16, 17, 19, 20, 21, 31, 32, 63, 64, 65, 200} {
		zs := strings.Repeat("0", z)
		ns := strings.Repeat("9", z)
		os_ := "1" + zs
		for _, f := range []string{"uint%s8", "uint%s", "bytes%s1", "fixed%s8x18", "fixed8x%s1", "uint8[%s1]", "uint8[%s]", "tuple[%s2]"} {
			g.add("family:long-numeral", &param{T: fmt.Sprintf(f, zs), C: u8})
		}
		for _, f := range []string{"uint%s", "int%s", "bytes%s", "ufixed%sx1", "ufixed8x%s", "bool[%s]", "tuple[][%s]"} {
			g.add("family:long-numeral", &param{T: fmt.Sprintf(f, ns), C: u8})
			g.add("family:long-numeral", &param{T: fmt.Sprintf(f, os_), C: u8})
		}
	}
	for _, n := range []int{4, 15, 16, 17, 32, 33, 64, 255, 256, 257, 1000} {
		p := &param{T: "tuple"}
		q := &param{T: "tuple[2][]"}
		for i := 0; i < n; i++ {
			p.C = append(p.C, leaf([]string{"uint8", "bytes", "string[]", "fixed", "address[3]"}[i%5]))
			q.C = append(q.C, leaf([]string{"uint8", "bytes", "string[]", "fixed", "address[3]"}[i%5]))
		}
		g.add("family:tuple-wide", p)
		g.add("family:tuple-wide", q)
		// invalid member last / first
		p2 := &param{T: "tuple", C: append(append([]*param{}, p.C...), leaf("uint008"))}
		g.add("family:tuple-wide-bad", p2)
		p3 := &param{T: "tuple[1]", C: append([]*param{leaf("bytes33")}, p.C...)}
		g.add("family:tuple-wide-bad", p3)
	}
	_ = thorough
}

func main() {
	out := flag.String("out", "", "output directory")
	tier := flag.String("tier", "quick", "quick|thorough")
	replay := flag.String("replay", "", "replay file")
	flag.Parse()
	if *out == "" {
		fmt.Fprintln(os.Stderr, "need -out")
		os.Exit(2)
	}
	os.MkdirAll(*out, 0o755)
	header := "From Coq Require Import String List NArith Uint63.\nFrom FFS Require Import Base.Bytes Base.Lit AbiType.Run.\nImport ListNotations.\nOpen Scope N_scope."
	st := cv.NewStats()
	st.Rule = "distinct parameter objects whose type text starts with a known base name (so parsing goes beyond the table lookup)"
	g := &gen{st: st, seen: map[string]bool{}, r: cv.NewRand(13)}

	if *replay != "" {
		raw, err := os.ReadFile(*replay)
		if err != nil {
			panic(err)
		}
		var rp struct {
			Case desc `json:"case"`
		}
		json.Unmarshal(raw, &rp)
		g.w = cv.NewWriter(*out, "C13", header, "case", "mismatches", 1)
		if rp.Case.Runes != nil {
			raw, _ := hex.DecodeString(*rp.Case.Runes)
			rw := newRuneWriter(*out, 1)
			addRuneCase(rw, st, "replay", string(raw))
			pairs, et := rangeRunes(string(raw))
			fmt.Printf("Go runtime: runes (value, width) = %v, base name = %q\n", pairs, et)
			rw.Flush()
			st.Evaluations = rw.Count()
			st.Write(filepath.Join(*out, "stats_C13.json"))
			return
		} else if rp.Case.Session != nil {
			g.replaySession(rp.Case.Session)
		} else if rp.Case.Param != nil {
			p := fromJSON(*rp.Case.Param)
			g.add("replay", p)
			r := run(p)
			fmt.Printf("implementation: type=%q class=%d sig=%q err=%s\n", p.T, r.cls, r.sig, r.err)
			if r.tree != nil {
				fmt.Println("implementation tree:", r.tree.describe())
			}
		} else if rp.Case.Name != nil {
			var ps []*param
			fe := &abi.Entry{Type: abi.Function, Name: *rp.Case.Name}
			pa := abi.ParameterArray{}
			for _, j := range rp.Case.Inputs {
				p := fromJSON(j)
				ps = append(ps, p)
				fe.Inputs = append(fe.Inputs, p.abi())
				pa = append(pa, p.abi())
			}
			g.emitList("replay", ps, *rp.Case.Name, fe, pa, nil)
			sig, err := fe.Signature()
			fmt.Printf("implementation: Entry.Signature = %q, %v\n", sig, err)
		} else if rp.Case.ABI != nil {
			var es [][2][]*param
			for _, e := range rp.Case.ABI {
				var x [2][]*param
				for i := 0; i < 2; i++ {
					for _, p := range e[i] {
						x[i] = append(x[i], fromJSON(p))
					}
				}
				es = append(es, x)
			}
			g.addABI("replay", es)
			fmt.Println("implementation:", st.Distribution)
		} else {
			fmt.Println("replay: no case in file")
		}
		g.w.Flush()
		st.Evaluations = g.w.Count()
		st.Write(filepath.Join(*out, "stats_C13.json"))
		return
	}

	thorough := *tier == "thorough"
	g.w = cv.NewWriter(*out, "C13", header, "case", "mismatches", 16)

	g.boundaryCorpus(thorough)

	// random valid parameter objects, and single-edit mutations of them
	nValid, nMut, nRand, nAbi := 1500, 6000, 1200, 150
	if thorough {
		nValid, nMut, nRand, nAbi = 20000, 120000, 20000, 2000
	}
	for i := 0; i < nValid; i++ {
		g.add("grammar", g.validParam(3))
	}
	for i := 0; i < nMut; i++ {
		p := g.validParam(2)
		// mutate the type text of the root or of one component
		target := p
		if len(p.C) > 0 && g.r.Intn(3) == 0 {
			target = p.C[g.r.Intn(len(p.C))]
		}
		s, kind := g.mutate(target.T)
		for try := 0; try < 6 && s == target.T; try++ {
			s, kind = g.mutate(target.T)
		}
		target.T = s
		g.add("mutation:"+kind, p)
	}
	for i := 0; i < nRand; i++ {
		p := &param{T: g.randomText()}
		if g.r.Intn(3) == 0 {
			p.C = []*param{leaf("uint8")}
		}
		g.add("random", p)
	}
	// whole ABI documents: one invalid parameter at every position of a 3-entry document (inputs and
	// outputs, first/middle/last entry), and an invalid member deep inside a tuple
	{
		ok := func() *param { return leaf("uint256") }
		bads := []*param{leaf("uint008"), leaf("tuple7"), leaf("uint7"), leaf(""), {T: "tuple[2]", C: []*param{leaf("bool"), leaf("bytes33")}}}
		for e := 0; e < 3; e++ {
			for side := 0; side < 2; side++ {
				for pos := 0; pos < 2; pos++ {
					for bi, bad := range bads {
						if (e+side+pos+bi)%2 == 1 && bi > 1 {
							continue
						}
						var es [][2][]*param
						for k := 0; k < 3; k++ {
							x := [2][]*param{{ok(), ok()}, {ok(), ok()}}
							if k == e {
								x[side][pos] = bad
							}
							es = append(es, x)
						}
						g.addABI("abi:positions", es)
					}
				}
			}
		}
		g.addABI("abi:positions", nil)
		g.addABI("abi:positions", [][2][]*param{{nil, nil}})
		g.addABI("abi:positions", [][2][]*param{{{ok()}, nil}, {nil, {ok()}}})
	}
	// whole ABI documents: first error wins, inputs before outputs
	for i := 0; i < nAbi; i++ {
		var es [][2][]*param
		ne := 1 + g.r.Intn(3)
		for e := 0; e < ne; e++ {
			var x [2][]*param
			for k := 0; k < 2; k++ {
				for j := g.r.Intn(3); j > 0; j-- {
					p := g.validParam(2)
					if g.r.Intn(8) == 0 {
						p.T, _ = g.mutate(p.T)
					}
					x[k] = append(x[k], p)
				}
			}
			es = append(es, x)
		}
		g.addABI("abi", es)
	}

	// parameter objects that are edited between uses (edits.go)
	nSess := 160
	if thorough {
		nSess = 4000
	}
	g.editSessions(nSess)

	// UTF-8 boundary texts: the range-over-string decoding of the Go runtime against AbiType/ModelRune.v
	// (cases_C13R_*.v, evaluator AbiType/RunRune.v), and the same texts as type texts (runes.go)
	rw := newRuneWriter(*out, 2)
	g.runeCases(rw, thorough)
	if err := rw.Flush(); err != nil {
		panic(err)
	}

	for _, rt := range g.retained {
		g.recheck(rt)
	}
	g.retained = nil
	g.concurrentPass(8)

	// nil pointers: the ten objects of theorem C13_nil_refuted on the implementation (nil.go)
	brokenNil := nilWitnesses(st)

	if err := g.w.Flush(); err != nil {
		panic(err)
	}
	st.Evaluations = g.w.Count() + rw.Count()
	if err := writeStats(st, filepath.Join(*out, "stats_C13.json"), brokenNil); err != nil {
		panic(err)
	}
	fmt.Printf("C13 harness: %d cases, %d distinct non-trivial\n", st.Evaluations, st.Distinct)
}
