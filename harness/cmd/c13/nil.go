// Nil pointers (referee issue I2).  A *Parameter inside Components / a ParameterArray and an *Entry of an ABI
// may be nil (JSON null).  The pure model has no nil; AbiType/ModelNil.v has, with the dereference explicit,
// and theorem C13_nil_refuted lists ten objects with the model's answer (panic where the member loop of a
// tuple, Entry.Validate or ABI.Validate dereferences the nil; ok / error where the nil is never reached).
// The same ten objects are run here on the implementation, also decoded from JSON text; a disagreement is
// a broken correspondence (the nullable model no longer describes the code), not a failing input: the
// property's quantifier is over type strings and the panic is a declared limitation (props/C13.json).
package main

import (
	"encoding/json"
	"fmt"
	"os"

	"github.com/hyperledger/firefly-signer/pkg/abi"
	"verifharness/cv"
)

func classOf(f func() error) (cls int, msg string) {
	defer func() {
		if x := recover(); x != nil {
			cls, msg = 2, fmt.Sprint(x)
		}
	}()
	if err := f(); err != nil {
		return 1, err.Error()
	}
	return 0, ""
}

type nilWitness struct {
	name  string
	model int // answer of AbiType/ModelNil.v (theorem C13_nil_refuted): 0 ok, 1 error, 2 panic
	json  string
	abi   bool // the JSON text is an ABI document (else a parameter)
	build func() func() error
}

func nilWitnesses(st *cv.Stats) (broken []interface{}) {
	lf := func(t string) *abi.Parameter { return &abi.Parameter{Type: t} }
	param := func(p *abi.Parameter) func() error { return func() error { return p.Validate() } }
	doc := func(a abi.ABI) func() error { return func() error { return a.Validate() } }
	ws := []nilWitness{
		{"ValidateN NNil", 2, `null`, false, func() func() error { return param(nil) }},
		{"tuple [nil]", 2, `{"type":"tuple","components":[null]}`, false,
			func() func() error { return param(&abi.Parameter{Type: "tuple", Components: abi.ParameterArray{nil}}) }},
		{"tuple[2] [uint8, tuple [nil]]", 2, `{"type":"tuple[2]","components":[{"type":"uint8"},{"type":"tuple","components":[null]}]}`, false,
			func() func() error {
				return param(&abi.Parameter{Type: "tuple[2]", Components: abi.ParameterArray{lf("uint8"),
					{Type: "tuple", Components: abi.ParameterArray{nil}}}})
			}},
		{"ABI [nil]", 2, `[null]`, true, func() func() error { return doc(abi.ABI{nil}) }},
		{"ABI [entry inputs [nil]]", 2, `[{"type":"function","name":"f","inputs":[null]}]`, true,
			func() func() error {
				return doc(abi.ABI{{Type: abi.Function, Name: "f", Inputs: abi.ParameterArray{nil}}})
			}},
		{"ABI [entry outputs [tuple [nil]]]", 2, `[{"type":"function","name":"f","outputs":[{"type":"tuple","components":[null]}]}]`, true,
			func() func() error {
				return doc(abi.ABI{{Type: abi.Function, Name: "f", Outputs: abi.ParameterArray{
					{Type: "tuple", Components: abi.ParameterArray{nil}}}}})
			}},
		{"uint256 [nil]", 0, `{"type":"uint256","components":[null]}`, false,
			func() func() error { return param(&abi.Parameter{Type: "uint256", Components: abi.ParameterArray{nil}}) }},
		{"tuple7 [nil]", 1, `{"type":"tuple7","components":[null]}`, false,
			func() func() error { return param(&abi.Parameter{Type: "tuple7", Components: abi.ParameterArray{nil}}) }},
		{"tuple [uint7, nil]", 1, `{"type":"tuple","components":[{"type":"uint7"},null]}`, false,
			func() func() error {
				return param(&abi.Parameter{Type: "tuple", Components: abi.ParameterArray{lf("uint7"), nil}})
			}},
		{"ABI [entry inputs [uint7], nil]", 1, `[{"type":"function","name":"f","inputs":[{"type":"uint7"}]},null]`, true,
			func() func() error {
				return doc(abi.ABI{{Type: abi.Function, Name: "f", Inputs: abi.ParameterArray{lf("uint7")}}, nil})
			}},
	}
	seen := map[string]interface{}{}
	for _, w := range ws {
		cls, msg := classOf(w.build())
		// the same object as a JSON document (how a nil gets there in practice)
		jcls, jmsg := classOf(func() error {
			if w.abi {
				var a abi.ABI
				if err := json.Unmarshal([]byte(w.json), &a); err != nil {
					return fmt.Errorf("json: %v", err)
				}
				return a.Validate()
			}
			var p *abi.Parameter
			if err := json.Unmarshal([]byte(w.json), &p); err != nil {
				return fmt.Errorf("json: %v", err)
			}
			return p.Validate()
		})
		st.Hit("nil:witness")
		seen[w.name] = map[string]interface{}{"model": w.model, "impl": cls, "impl_json": jcls}
		if cls != w.model || jcls != w.model {
			broken = append(broken, map[string]interface{}{
				"what": "nullable model (AbiType/ModelNil.v, theorem C13_nil_refuted) and implementation disagree on a nil-pointer object",
				"case": w.name, "json": w.json, "model_class": w.model, "impl_class": cls, "impl_json_class": jcls,
				"impl_msg": msg, "impl_json_msg": jmsg,
			})
		}
	}
	st.Extra["nil_witnesses"] = seen
	return broken
}

// writeStats writes the stats file; Go-side model/implementation disagreements go under the top-level key
// "correspondence_failures" that ./check reads (cv.Stats has no field for it).
func writeStats(st *cv.Stats, path string, broken []interface{}) error {
	if err := st.Write(path); err != nil {
		return err
	}
	if len(broken) == 0 {
		return nil
	}
	raw, err := os.ReadFile(path)
	if err != nil {
		return err
	}
	var m map[string]interface{}
	if err := json.Unmarshal(raw, &m); err != nil {
		return err
	}
	m["correspondence_failures"] = broken
	b, err := json.MarshalIndent(m, "", " ")
	if err != nil {
		return err
	}
	return os.WriteFile(path, b, 0o644)
}
