package main

// Wave 6: rune cases.  The Go source collects the base name of a type text with
//
//	for _, r := range abiTypeString { if r >= 'a' && r <= 'z' { etBuilder.WriteRune(r) } else { break } }
//
// The model scans bytes (AbiType/Model.v take_lower); AbiType/ModelRune.v transcribes the rune loop (UTF-8
// decoding of the range statement, WriteRune) and ProofsRune.v proves the two scans equal.  Here the
// decoder model is tied to the Go runtime: for UTF-8 boundary strings (overlong forms of letters, surrogates,
// truncated and out-of-range sequences, random bytes) the (rune, width) sequence of the range statement and
// the collected base name are written as cases_C13R_*.v for AbiType/RunRune.v (codes 7 / 8).  Every such
// string also goes through the main pipeline as a type text (bare and after "uint"), so the implementation's
// own answer on it is compared with the byte-scanning model.

import (
	"encoding/hex"
	"strings"
	"unicode/utf8"

	"verifharness/cv"
)

const runeHeader = "From Coq Require Import String List NArith Uint63.\nFrom FFS Require Import Base.Bytes Base.Lit AbiType.RunRune.\nImport ListNotations.\nOpen Scope N_scope."

type runeDesc struct {
	Kind string `json:"kind"`
	Hex  string `json:"rune_text_hex"`
	Text string `json:"text"`
	Impl string `json:"impl"`
}

func newRuneWriter(out string, shards int) *cv.Writer {
	return cv.NewWriter(out, "C13R", runeHeader, "rcase", "mismatches_rune", shards)
}

// what the Go runtime does on s
func rangeRunes(s string) (pairs [][2]int, et string) {
	idx := []int{}
	rs := []rune{}
	for i, r := range s {
		idx = append(idx, i)
		rs = append(rs, r)
	}
	for k := range rs {
		next := len(s)
		if k+1 < len(idx) {
			next = idx[k+1]
		}
		pairs = append(pairs, [2]int{int(rs[k]), next - idx[k]})
	}
	// the loop of parseABIParameterComponents, verbatim
	etBuilder := new(strings.Builder)
	for _, r := range s {
		if r >= 'a' && r <= 'z' {
			etBuilder.WriteRune(r)
		} else {
			break
		}
	}
	return pairs, etBuilder.String()
}

func addRuneCase(w *cv.Writer, st *cv.Stats, kind, s string) {
	pairs, et := rangeRunes(s)
	var sb strings.Builder
	sb.WriteString("CRunes " + cv.CoqBytes([]byte(s)) + " [")
	for i, p := range pairs {
		if i > 0 {
			sb.WriteString("; ")
		}
		sb.WriteString("(" + itoa(p[0]) + ", " + itoa(p[1]) + ")")
	}
	sb.WriteString("] " + cv.CoqBytes([]byte(et)))
	w.Add(sb.String(), runeDesc{Kind: kind, Hex: hex.EncodeToString([]byte(s)), Text: strings.ToValidUTF8(s, "�"),
		Impl: "runes=" + itoa(len(pairs)) + " base=" + et})
	st.Hit(kind)
	if utf8.ValidString(s) {
		st.Hit("runes:valid-utf8")
	} else {
		st.Hit("runes:invalid-utf8")
	}
}

func itoa(n int) string {
	if n == 0 {
		return "0"
	}
	neg := n < 0
	if neg {
		n = -n
	}
	var b []byte
	for n > 0 {
		b = append([]byte{byte('0' + n%10)}, b...)
		n /= 10
	}
	if neg {
		return "-" + string(b)
	}
	return string(b)
}

var runeCorpus = []string{
	"", "a", "z", "`", "{", "az", "\x7f", "\x80", "\xbf", "\xc0\x80", "\xc1\xa1", "\xc1\xbf", "\xc2\x7f", "\xc2\x80", "\xc2\xbf", "\xc2\xc0",
	"\xdf\xbf", "\xe0\x80\x80", "\xe0\x81\xa1", "\xe0\x9f\xbf", "\xe0\xa0\x80", "\xe0\xa0\x7f", "\xe0\xa0\xc0", "\xe1\x80\x80", "\xec\xbf\xbf",
	"\xed\x9f\xbf", "\xed\xa0\x80", "\xed\xbf\xbf", "\xee\x80\x80", "\xef\xbf\xbd", "\xef\xbf\xbf", "\xf0\x80\x81\xa1", "\xf0\x8f\xbf\xbf",
	"\xf0\x90\x80\x80", "\xf0\x90\x80\x7f", "\xf0\x90\xc0\x80", "\xf1\x80\x80\x80", "\xf3\xbf\xbf\xbf", "\xf4\x8f\xbf\xbf", "\xf4\x90\x80\x80",
	"\xf5\x80\x80\x80", "\xf8\x88\x80\x80\x80", "\xfe", "\xff", "\xc2", "\xdf", "\xe0", "\xe0\xa0", "\xe2\x82", "\xed\x9f", "\xf0", "\xf0\x90", "\xf0\x90\x80",
	"\xf4\x8f\xbf", "\xc3\xa9", "\xe2\x82\xac", "\xf0\x9f\x98\x80", "\xef\xbb\xbf", "\xc5\xbf", "\xe2\x84\xaa",
}

var leadBytes = []byte{0x60, 0x61, 0x7a, 0x7b, 0x7f, 0x80, 0xbf, 0xc0, 0xc1, 0xc2, 0xdf, 0xe0, 0xe1, 0xec, 0xed, 0xee, 0xef, 0xf0, 0xf1, 0xf3, 0xf4, 0xf5, 0xf7, 0xf8, 0xff}
var contBytes = []byte{0x61, 0x7f, 0x80, 0x81, 0x8f, 0x90, 0x9f, 0xa0, 0xa1, 0xbf, 0xc0, 0xff}

func (g *gen) randomRuneText() string {
	r := g.r
	var sb strings.Builder
	for sb.Len() < 1+r.Intn(20) {
		switch r.Intn(5) {
		case 0:
			sb.WriteByte(byte('a' + r.Intn(26)))
		case 1:
			var ru rune
			switch r.Intn(3) {
			case 0:
				ru = rune(0x80 + r.Intn(0x780))
			case 1:
				ru = rune(0x800 + r.Intn(0xf800))
			default:
				ru = rune(0x10000 + r.Intn(0x100000))
			}
			if !utf8.ValidRune(ru) {
				ru = 0xfffd
			}
			sb.WriteRune(ru)
		case 2:
			sb.WriteByte(r.Byte())
		default:
			sb.WriteByte(leadBytes[r.Intn(len(leadBytes))])
			for k := r.Intn(4); k > 0; k-- {
				sb.WriteByte(contBytes[r.Intn(len(contBytes))])
			}
		}
	}
	return sb.String()
}

// runeCases writes the rune cases and feeds the same strings to the main pipeline as type texts.
func (g *gen) runeCases(w *cv.Writer, thorough bool) {
	emit := func(kind, s string) {
		addRuneCase(w, g.st, kind, s)
		g.add("rune-boundary", &param{T: s})
		g.add("rune-boundary", &param{T: "uint" + s})
	}
	for _, s := range runeCorpus {
		emit("runes:corpus", s)
		emit("runes:corpus", "uint"+s+"a[2]")
		emit("runes:corpus", "tuple"+s)
	}
	n := 500
	if thorough {
		n = 20000
	}
	for i := 0; i < n; i++ {
		emit("runes:random", g.randomRuneText())
	}
}
