package main

import (
	"context"
	"encoding/json"
	"fmt"

	"github.com/hyperledger/firefly-signer/pkg/eip712"
	"github.com/hyperledger/firefly-signer/pkg/ethsigner"
	"github.com/hyperledger/firefly-signer/pkg/secp256k1"
)

func hashV(doc string) (out string) {
	defer func() {
		if x := recover(); x != nil {
			out = fmt.Sprintf("PANIC %v", x)
		}
	}()
	var td eip712.TypedData
	if err := json.Unmarshal([]byte(doc), &td); err != nil {
		return "unmarshal-err " + err.Error()
	}
	h, err := eip712.EncodeTypedDataV4(context.Background(), &td)
	if err != nil {
		return "err " + err.Error()
	}
	return h.String()
}
func hashP(doc string) (out string) {
	defer func() {
		if x := recover(); x != nil {
			out = fmt.Sprintf("PANIC %v", x)
		}
	}()
	var td *eip712.TypedData
	if err := json.Unmarshal([]byte(doc), &td); err != nil {
		return "unmarshal-err " + err.Error()
	}
	kp, _ := secp256k1.GenerateSecp256k1KeyPair()
	r, err := ethsigner.SignTypedDataV4(context.Background(), kp, td)
	if err != nil {
		return "err " + err.Error()
	}
	return r.Hash.String()
}

func main() {
	mk := func(t string, v string) string {
		return `{"types":{"A":[{"name":"x","type":"` + t + `"}]},"primaryType":"A","domain":{},"message":{"x":` + v + `}}`
	}
	for _, d := range []string{
		`{"types":{"A":[null]},"primaryType":"A","message":{}}`,
		`null`,
		mk("int256", "9223372036854775808"), mk("int256", `"9223372036854775808"`), mk("int256", `"-9223372036854775808"`),
		mk("int256", "9007199254740993"), mk("int256", `"9007199254740993"`), mk("int256", `"9007199254740992"`),
		mk("uint8", "1.5"), mk("uint8", `"1"`), mk("uint8", `"1.5"`),
		mk("uint256", "1e30"), mk("uint256", `"1e30"`),
		mk("uint8", "256"), mk("uint8", `"256"`), mk("uint8", `"0x100"`), mk("uint8", `"0xff"`), mk("uint8", `255`),
		mk("int8", "-129"), mk("int8", `-128`), mk("int8", `"-0x80"`),
		mk("uint64", "18446744073709551615"), mk("uint64", `"18446744073709551615"`),
	} {
		fmt.Printf("%-120s\n   V: %s\n   P: %s\n", d, hashV(d), hashP(d))
	}
}
