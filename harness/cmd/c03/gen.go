// Type trees, values, an independent transcription of the Solidity enc() function, and the printers
// used by the C03 harness.  Nothing in this file calls pkg/abi's encoder or decoder.
package main

import (
	"fmt"
	"math/big"
	"strings"

	"github.com/hyperledger/firefly-signer/pkg/abi"
	"verifharness/cv"
)

// ---------- type trees ----------

type kind int

const (
	kUint kind = iota
	kInt
	kAddress
	kBool
	kFixed
	kUfixed
	kBytesN
	kBytes
	kString
	kFunction
	kFixedArr
	kDynArr
	kTuple
)

// T is an ABI type; Name is the parameter name of a tuple member / top-level parameter (set on the
// outermost node of that member only).
type T struct {
	K    kind
	M, N int
	Len  int
	Elem *T
	Kids []*T
	Name string
}

func (t *T) elementary() bool { return t.K < kFixedArr }

// base returns the innermost non-array type and the array suffix string ("[3][]").
func (t *T) base() (*T, string) {
	switch t.K {
	case kFixedArr:
		b, s := t.Elem.base()
		return b, s + fmt.Sprintf("[%d]", t.Len)
	case kDynArr:
		b, s := t.Elem.base()
		return b, s + "[]"
	}
	return t, ""
}

func (t *T) elemName() string {
	switch t.K {
	case kUint:
		return fmt.Sprintf("uint%d", t.M)
	case kInt:
		return fmt.Sprintf("int%d", t.M)
	case kAddress:
		return "address"
	case kBool:
		return "bool"
	case kFixed:
		return fmt.Sprintf("fixed%dx%d", t.M, t.N)
	case kUfixed:
		return fmt.Sprintf("ufixed%dx%d", t.M, t.N)
	case kBytesN:
		return fmt.Sprintf("bytes%d", t.M)
	case kBytes:
		return "bytes"
	case kString:
		return "string"
	case kFunction:
		return "function"
	}
	return "?"
}

// Sig is the canonical signature string of the type, e.g. (uint256,bytes)[2].
func (t *T) Sig() string {
	switch t.K {
	case kFixedArr:
		return fmt.Sprintf("%s[%d]", t.Elem.Sig(), t.Len)
	case kDynArr:
		return t.Elem.Sig() + "[]"
	case kTuple:
		p := make([]string, len(t.Kids))
		for i, k := range t.Kids {
			p[i] = k.Sig()
		}
		return "(" + strings.Join(p, ",") + ")"
	}
	return t.elemName()
}

// Param builds the abi.Parameter for a tuple member / top-level parameter.
func (t *T) Param() *abi.Parameter {
	b, arrays := t.base()
	p := &abi.Parameter{Name: t.Name}
	if b.K == kTuple {
		p.Type = "tuple" + arrays
		for _, k := range b.Kids {
			p.Components = append(p.Components, k.Param())
		}
	} else {
		p.Type = b.elemName() + arrays
	}
	return p
}

// Params: t must be a tuple; its members become the parameter array.
func (t *T) Params() abi.ParameterArray {
	var pa abi.ParameterArray
	for _, k := range t.Kids {
		pa = append(pa, k.Param())
	}
	return pa
}

func (t *T) dynamic() bool {
	switch t.K {
	case kBytes, kString, kDynArr:
		return true
	case kFixedArr:
		return t.Elem.dynamic()
	case kTuple:
		for _, k := range t.Kids {
			if k.dynamic() {
				return true
			}
		}
	}
	return false
}

func (t *T) hasFixedPoint() bool {
	switch t.K {
	case kFixed, kUfixed:
		return true
	case kFixedArr, kDynArr:
		return t.Elem.hasFixedPoint()
	case kTuple:
		for _, k := range t.Kids {
			if k.hasFixedPoint() {
				return true
			}
		}
	}
	return false
}

func (t *T) hasZeroFixedArr() bool {
	switch t.K {
	case kFixedArr:
		return t.Len == 0 || t.Elem.hasZeroFixedArr()
	case kDynArr:
		return t.Elem.hasZeroFixedArr()
	case kTuple:
		for _, k := range t.Kids {
			if k.hasZeroFixedArr() {
				return true
			}
		}
	}
	return false
}

func (t *T) depth() int {
	switch t.K {
	case kFixedArr, kDynArr:
		return 1 + t.Elem.depth()
	case kTuple:
		d := 0
		for _, k := range t.Kids {
			if x := k.depth(); x > d {
				d = x
			}
		}
		return 1 + d
	}
	return 0
}

// ---------- values ----------

// V mirrors Abi/Spec.v val: a number, a byte string or a list.
type V struct {
	Num   *big.Int
	Bytes []byte
	List  []*V
	IsL   bool
}

func vnum(z *big.Int) *V     { return &V{Num: new(big.Int).Set(z)} }
func vbytes(b []byte) *V     { return &V{Bytes: append([]byte{}, b...)} }
func vlist(l []*V) *V        { return &V{List: l, IsL: true} }
func (v *V) isNum() bool     { return v.Num != nil }
func (v *V) isBytes() bool   { return v.Num == nil && !v.IsL }
func (v *V) Coq() string {
	switch {
	case v.Num != nil:
		if v.Num.Sign() < 0 {
			return fmt.Sprintf("(VNum (%s))", v.Num.String())
		}
		return fmt.Sprintf("(VNum %s)", v.Num.String())
	case v.IsL:
		p := make([]string, len(v.List))
		for i, k := range v.List {
			p[i] = k.Coq()
		}
		return "(VList [" + strings.Join(p, "; ") + "])"
	default:
		return "(VBytes (bexpand " + cv.Compress(v.Bytes).Coq() + "))"
	}
}
func (v *V) Describe() string {
	switch {
	case v.Num != nil:
		return v.Num.String()
	case v.IsL:
		p := make([]string, len(v.List))
		for i, k := range v.List {
			p[i] = k.Describe()
		}
		return "[" + strings.Join(p, ",") + "]"
	default:
		return `"` + cv.Compress(v.Bytes).Describe() + `"`
	}
}
func (v *V) Equal(w *V) bool {
	if v == nil || w == nil {
		return v == w
	}
	switch {
	case v.Num != nil:
		return w.Num != nil && v.Num.Cmp(w.Num) == 0
	case v.IsL:
		if !w.IsL || len(v.List) != len(w.List) {
			return false
		}
		for i := range v.List {
			if !v.List[i].Equal(w.List[i]) {
				return false
			}
		}
		return true
	default:
		return w.isBytes() && string(v.Bytes) == string(w.Bytes)
	}
}

// ---------- the Solidity specification encoding, transcribed independently ----------

func word(z *big.Int) []byte {
	m := new(big.Int).Lsh(big.NewInt(1), 256)
	x := new(big.Int).Mod(z, m) // Go's Mod is Euclidean: result in [0, 2^256)
	out := make([]byte, 32)
	x.FillBytes(out)
	return out
}

func padRight(b []byte) []byte {
	out := append([]byte{}, b...)
	for len(out)%32 != 0 {
		out = append(out, 0)
	}
	return out
}

type item struct {
	dyn bool
	enc []byte
}

func headTail(items []item) []byte {
	headLen := 0
	for _, it := range items {
		if it.dyn {
			headLen += 32
		} else {
			headLen += len(it.enc)
		}
	}
	var head, tail []byte
	off := headLen
	for _, it := range items {
		if it.dyn {
			head = append(head, word(big.NewInt(int64(off)))...)
			tail = append(tail, it.enc...)
			off += len(it.enc)
		} else {
			head = append(head, it.enc...)
		}
	}
	return append(head, tail...)
}

// specEnc is enc(t, v) of the "Formal Specification of the Encoding".
func specEnc(t *T, v *V) []byte {
	switch t.K {
	case kUint, kInt, kAddress, kBool, kFixed, kUfixed:
		return word(v.Num)
	case kBytesN, kFunction:
		return padRight(v.Bytes)
	case kBytes, kString:
		return append(word(big.NewInt(int64(len(v.Bytes)))), padRight(v.Bytes)...)
	case kFixedArr, kDynArr:
		items := make([]item, len(v.List))
		for i, e := range v.List {
			items[i] = item{t.Elem.dynamic(), specEnc(t.Elem, e)}
		}
		body := headTail(items)
		if t.K == kDynArr {
			return append(word(big.NewInt(int64(len(v.List)))), body...)
		}
		return body
	case kTuple:
		items := make([]item, len(v.List))
		for i, e := range v.List {
			items[i] = item{t.Kids[i].dynamic(), specEnc(t.Kids[i], e)}
		}
		return headTail(items)
	}
	return nil
}
