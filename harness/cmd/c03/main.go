// Harness for C03 (ABI decode inverts the specification encoding; JSON output serialization).
// Generates component trees (named / unnamed / partially named members) and values, encodes them
// with an independent transcription of the Solidity enc() (gen.go), runs pkg/abi's decoder, output
// serializer and ParseJSON->Encode on them under recover(), and writes Coq case files that
// Abi/RunC03.v evaluates against the models, Spec.enc and the denotation oracle.
package main

import (
	"bytes"
	"encoding/hex"
	"encoding/json"
	"flag"
	"fmt"
	"math/big"
	"os"
	"path/filepath"
	"sort"
	"strings"
	"unicode/utf8"

	"github.com/hyperledger/firefly-signer/pkg/abi"
	"verifharness/cv"
)

// ---------- Coq printers ----------

func coqB(b []byte) string { return "(B " + cv.Compress(b).Coq() + ")" }

func coqN(n int) string { return fmt.Sprintf("%d", n) }

func coqZ(z *big.Int) string {
	if z.Sign() < 0 {
		return "(" + z.String() + ")"
	}
	return z.String()
}

var ekindName = map[kind]string{kUint: "EUInt", kInt: "EInt", kAddress: "EAddress", kBool: "EBool", kFixed: "EFixed",
	kUfixed: "EUFixed", kBytesN: "EBytes", kBytes: "EBytes", kString: "EString", kFunction: "EFunction"}

// coqTcomp prints the tcomp mirror of what parseABIParameterComponents builds for this member: the
// key name sits on every node of the member's array chain and on its base component.
func (t *T) coqTcomp(key string) string {
	k := coqB([]byte(key))
	switch t.K {
	case kFixedArr:
		return fmt.Sprintf("(TCFixedArr %d %s %s)", t.Len, t.Elem.coqTcomp(key), k)
	case kDynArr:
		return fmt.Sprintf("(TCDynArr %s %s)", t.Elem.coqTcomp(key), k)
	case kTuple:
		p := make([]string, len(t.Kids))
		for i, c := range t.Kids {
			p[i] = c.coqTcomp(c.Name)
		}
		return "(TCTuple [" + strings.Join(p, "; ") + "] " + k + ")"
	}
	suffix, m, n := "", 0, 0
	switch t.K {
	case kUint, kInt, kBytesN:
		suffix, m = fmt.Sprintf("%d", t.M), t.M
	case kFixed, kUfixed:
		suffix, m, n = fmt.Sprintf("%dx%d", t.M, t.N), t.M, t.N
	case kAddress:
		m = 160
	case kBool:
		m = 8
	case kFunction:
		m = 24
	}
	return fmt.Sprintf("(TCElem %s %s %d %d %s)", ekindName[t.K], coqB([]byte(suffix)), m, n, k)
}

// ---------- projection of the implementation's value tree ----------

func projCoq(c *abi.ComponentValue) string {
	if c == nil || c.Component == nil {
		return "DOther"
	}
	if c.Component.ComponentType() == abi.ElementaryComponent {
		switch x := c.Value.(type) {
		case *big.Int:
			if x == nil {
				return "DOther"
			}
			return "(DNum " + coqZ(x) + ")"
		case []byte:
			return "(DBytes " + coqB(x) + ")"
		case string:
			return "(DStr " + coqB([]byte(x)) + ")"
		case *big.Float:
			if x == nil || x.IsInf() {
				return "DOther"
			}
			mant := new(big.Float)
			exp := x.MantExp(mant) // x = mant * 2^exp, 0.5 <= |mant| < 1
			prec := int(x.Prec())
			mant.SetMantExp(mant, prec)
			mi, _ := mant.Int(nil)
			return fmt.Sprintf("(DFloat %s %s)", coqZ(mi), coqZ(big.NewInt(int64(exp-prec))))
		default:
			return "DOther"
		}
	}
	p := make([]string, len(c.Children))
	for i, k := range c.Children {
		p[i] = projCoq(k)
	}
	return "(DList [" + strings.Join(p, "; ") + "])"
}

// projV turns the implementation's tree into a spec value (nil when a leaf is not a number / bytes).
func projV(c *abi.ComponentValue) *V {
	if c == nil || c.Component == nil {
		return nil
	}
	if c.Component.ComponentType() == abi.ElementaryComponent {
		switch x := c.Value.(type) {
		case *big.Int:
			if x == nil {
				return nil
			}
			return vnum(x)
		case []byte:
			return vbytes(x)
		case string:
			return vbytes([]byte(x))
		}
		return nil
	}
	l := make([]*V, len(c.Children))
	for i, k := range c.Children {
		if l[i] = projV(k); l[i] == nil {
			return nil
		}
	}
	return vlist(l)
}

func describeCV(c *abi.ComponentValue) string {
	if c == nil || c.Component == nil {
		return "nil"
	}
	if c.Component.ComponentType() == abi.ElementaryComponent {
		switch x := c.Value.(type) {
		case *big.Int:
			return x.String()
		case []byte:
			return "0x" + cv.Compress(x).Describe()
		case string:
			return fmt.Sprintf("%q", x)
		case *big.Float:
			return "float:" + x.Text('g', 30)
		}
		return fmt.Sprintf("?%T", c.Value)
	}
	p := make([]string, len(c.Children))
	for i, k := range c.Children {
		p[i] = describeCV(k)
	}
	return "[" + strings.Join(p, ",") + "]"
}

// ---------- JSON text -> jv term ----------

func jvCoq(x interface{}) string {
	switch v := x.(type) {
	case nil:
		return "JNull"
	case bool:
		if v {
			return "(JBool true)"
		}
		return "(JBool false)"
	case string:
		return "(JStr " + coqB([]byte(v)) + ")"
	case json.Number:
		return "(JNumber " + coqB([]byte(v.String())) + ")"
	case []interface{}:
		p := make([]string, len(v))
		for i, e := range v {
			p[i] = jvCoq(e)
		}
		return "(JArr [" + strings.Join(p, "; ") + "])"
	case map[string]interface{}:
		keys := make([]string, 0, len(v))
		for k := range v {
			keys = append(keys, k)
		}
		sort.Strings(keys)
		p := make([]string, len(keys))
		for i, k := range keys {
			p[i] = "(" + coqB([]byte(k)) + ", " + jvCoq(v[k]) + ")"
		}
		return "(JObj [" + strings.Join(p, "; ") + "])"
	}
	return "JNull"
}

// ---------- running the implementation ----------

func safeDecode(pa abi.ParameterArray, block []byte, off int) (c *abi.ComponentValue, cls int) {
	defer func() {
		if x := recover(); x != nil {
			c, cls = nil, 2
		}
	}()
	c, err := pa.DecodeABIData(block, off)
	if err != nil {
		return nil, 1
	}
	return c, 0
}

type serCfg struct{ Mode, Is, Bs, Ad int }

func (s serCfg) build() *abi.Serializer {
	z := abi.NewSerializer()
	z.SetFormattingMode([]abi.FormattingMode{abi.FormatAsObjects, abi.FormatAsFlatArrays, abi.FormatAsSelfDescribingArrays, abi.FormattingMode(7)}[s.Mode])
	z.SetIntSerializer([]abi.IntSerializer{abi.Base10StringIntSerializer, abi.HexIntSerializer0xPrefix, abi.JSONNumberIntSerializer, abi.NumberIfFitsOrBase10StringIntSerializer}[s.Is])
	z.SetByteSerializer([]abi.ByteSerializer{abi.HexByteSerializer, abi.HexByteSerializer0xPrefix, abi.Base64ByteSerializer}[s.Bs])
	if s.Ad > 0 {
		z.SetAddressSerializer([]abi.AddressSerializer{nil, abi.HexAddrSerializer0xPrefix, abi.HexAddrSerializerPlain, abi.ChecksumAddrSerializer}[s.Ad])
	}
	return z
}
func (s serCfg) coq() string { return fmt.Sprintf("(mkser %d %d %d %d)", s.Mode, s.Is, s.Bs, s.Ad) }
func (s serCfg) String() string {
	return fmt.Sprintf("mode=%s int=%s bytes=%s addr=%s",
		[]string{"objects", "flat-arrays", "self-describing", "other"}[s.Mode],
		[]string{"base10", "0xhex", "json-number", "number-if-fits"}[s.Is],
		[]string{"hex", "0xhex", "base64"}[s.Bs], []string{"nil", "0x", "plain", "checksum"}[s.Ad])
}

func safeSerialize(s *abi.Serializer, c *abi.ComponentValue) (out []byte, cls int) {
	defer func() {
		if x := recover(); x != nil {
			out, cls = nil, 2
		}
	}()
	b, err := s.SerializeJSON(c)
	if err != nil {
		return nil, 1
	}
	return b, 0
}

// roundTrip: ParseJSON on the serializer's output, then EncodeABIData. 1 = original bytes, 2 = not.
func roundTrip(pa abi.ParameterArray, js []byte, want []byte) (rt int, detail string) {
	defer func() {
		if x := recover(); x != nil {
			rt, detail = 2, fmt.Sprintf("panic: %v", x)
		}
	}()
	c, err := pa.ParseJSON(js)
	if err != nil {
		return 2, "ParseJSON: " + err.Error()
	}
	b, err := c.EncodeABIData()
	if err != nil {
		return 2, "EncodeABIData: " + err.Error()
	}
	if !bytes.Equal(b, want) {
		return 2, "re-encoded " + hex.EncodeToString(b)
	}
	return 1, ""
}

// ---------- case descriptions (also the replay format) ----------

type desc struct {
	Kind   string  `json:"kind"`
	Type   *T      `json:"type"`
	Sig    string  `json:"signature"`
	Names  string  `json:"names,omitempty"`
	Value  *V      `json:"value,omitempty"`
	ValueS string  `json:"value_text,omitempty"`
	Pre    string  `json:"pre_hex,omitempty"`
	Post   string  `json:"post_hex,omitempty"`
	Block  string  `json:"block_hex,omitempty"`
	Off    int     `json:"offset"`
	Ser    *serCfg `json:"serializer,omitempty"`
	SerS   string  `json:"serializer_text,omitempty"`
	Impl   string  `json:"impl"`
	Key    string  `json:"key,omitempty"`
}

type ctx struct {
	w    *cv.Writer
	st   *cv.Stats
	seen map[string]bool
}

func (t *T) namesDesc() string {
	var p []string
	var rec func(t *T)
	rec = func(t *T) {
		switch t.K {
		case kFixedArr, kDynArr:
			rec(t.Elem)
		case kTuple:
			for _, k := range t.Kids {
				p = append(p, fmt.Sprintf("%q", k.Name))
				rec(k)
			}
		}
	}
	rec(t)
	return strings.Join(p, ",")
}

func (c *ctx) distinct(key string, nontrivial bool) {
	if !c.seen[key] {
		c.seen[key] = true
		if nontrivial {
			c.st.Distinct++
		}
	}
}

// retained: the caller keeps a decoded value and then reuses the buffer it decoded from (reads the next
// message into it). A decoded value must not change under its holder: it is described, serialized and
// re-encoded before and after every byte of the input buffer is overwritten (seed C03-8: a "zero-copy"
// decodeABIBytes returned a slice of the caller's block).
var retainedFailures int

func (c *ctx) retained(t *T, pa abi.ParameterArray, block []byte, off int, how string) {
	priv := append([]byte{}, block...)
	d, cls := safeDecode(pa, priv, off)
	if cls != 0 {
		return
	}
	c.st.Hit("retained:" + how)
	ser := serCfg{Mode: 0, Is: 0, Bs: 1, Ad: 0}.build()
	before := describeCV(d)
	js1, s1 := safeSerialize(ser, d)
	enc1, e1 := func() (b []byte, cls int) {
		defer func() {
			if x := recover(); x != nil {
				b, cls = nil, 2
			}
		}()
		b, err := d.EncodeABIData()
		if err != nil {
			return nil, 1
		}
		return b, 0
	}()
	for i := range priv {
		priv[i] ^= 0xa5
	}
	after := describeCV(d)
	js2, s2 := safeSerialize(ser, d)
	enc2, e2 := func() (b []byte, cls int) {
		defer func() {
			if x := recover(); x != nil {
				b, cls = nil, 2
			}
		}()
		b, err := d.EncodeABIData()
		if err != nil {
			return nil, 1
		}
		return b, 0
	}()
	if before != after || s1 != s2 || !bytes.Equal(js1, js2) || e1 != e2 || !bytes.Equal(enc1, enc2) {
		retainedFailures++
		if retainedFailures <= 25 {
			c.st.ImplFailures = append(c.st.ImplFailures, map[string]interface{}{
				"what":      "a decoded value kept by the caller changed when the caller overwrote the buffer it was decoded from (the value aliases the input block): description / JSON / re-encoding differ before and after",
				"signature": t.Sig(), "block": hex.EncodeToString(block), "offset": off, "how": how,
				"before": before, "after": after, "json_before": string(js1), "json_after": string(js2)})
		}
	}
}

// addDec: decode the specification encoding of v, placed after pre and before post.
func (c *ctx) addDec(t *T, v *V, pre, post []byte) {
	enc := specEnc(t, v)
	block := append(append(append([]byte{}, pre...), enc...), post...)
	pa := t.Params()
	dcv, cls := safeDecode(pa, block, len(pre))
	c.retained(t, pa, block, len(pre), "spec-encoding")
	impl := fmt.Sprintf("class=%d", cls)
	if cls == 0 {
		impl += " tree=" + describeCV(dcv)
	}
	claimed := !t.hasFixedPoint() && !t.hasZeroFixedArr()
	c.st.Hit(fmt.Sprintf("dec:class=%d", cls))
	c.st.Hit(fmt.Sprintf("dec:depth=%d", t.depth()))
	c.st.Hit(fmt.Sprintf("dec:pre=%s", lenBucket(len(pre))))
	c.st.Hit(fmt.Sprintf("dec:post=%s", lenBucket(len(post))))
	if !claimed {
		c.st.Hit("dec:outside-identity-claim(fixed-point or T[0])")
	}
	term := fmt.Sprintf("CDec %s %s %s %s %s %d %s", t.coqTcomp(""), v.Coq(), cv.Compress(pre).Coq(), cv.Compress(post).Coq(),
		cv.Compress(enc).Coq(), cls, projCoq(dcv))
	c.distinct("dec|"+t.Sig()+"|"+t.namesDesc()+"|"+v.Describe()+"|"+hex.EncodeToString(pre)+"|"+hex.EncodeToString(post), t.depth() > 1 || t.dynamic())
	c.w.Add(term, desc{Kind: "decode", Type: t, Sig: t.Sig(), Names: t.namesDesc(), Value: v, ValueS: v.Describe(),
		Pre: hex.EncodeToString(pre), Post: hex.EncodeToString(post), Off: len(pre), Impl: impl})
}

// addRaw: decode an arbitrary block.
func (c *ctx) addRaw(t *T, block []byte, off int, how string) {
	pa := t.Params()
	dcv, cls := safeDecode(pa, block, off)
	c.retained(t, pa, block, off, "raw:"+how)
	impl := fmt.Sprintf("class=%d", cls)
	if cls == 0 {
		impl += " tree=" + describeCV(dcv)
	}
	c.st.Hit(fmt.Sprintf("raw:%s:class=%d", how, cls))
	term := fmt.Sprintf("CRaw %s %s %s %d %s", t.coqTcomp(""), cv.Compress(block).Coq(), coqZ(big.NewInt(int64(off))), cls, projCoq(dcv))
	c.distinct("raw|"+t.Sig()+"|"+hex.EncodeToString(block)+fmt.Sprintf("|%d", off), len(block) > 32)
	c.w.Add(term, desc{Kind: "decode-raw/" + how, Type: t, Sig: t.Sig(), Block: hex.EncodeToString(block), Off: off, Impl: impl})
}

// addSer: serialize the decoded value of (t, v) under one configuration.
func (c *ctx) addSer(t *T, v *V, s serCfg) {
	enc := specEnc(t, v)
	pa := t.Params()
	dcv, cls := safeDecode(pa, enc, 0)
	if cls != 0 || !v.Equal(projV(dcv)) {
		// the decode clause fails on this input; reported by the decode case of the same (t, v)
		c.addDec(t, v, nil, nil)
		return
	}
	js, scls := safeSerialize(s.build(), dcv)
	jterm := "JNull"
	rt := 0
	impl := fmt.Sprintf("class=%d", scls)
	if scls == 0 {
		var tree interface{}
		d := json.NewDecoder(bytes.NewReader(js))
		d.UseNumber()
		if err := d.Decode(&tree); err != nil {
			c.st.ImplFailures = append(c.st.ImplFailures, map[string]interface{}{"what": "serializer output is not JSON", "signature": t.Sig(), "value": v.Describe(), "serializer": s.String(), "output": string(js)})
			return
		}
		jterm = jvCoq(tree)
		impl += " json=" + string(js)
		if s.Mode <= 1 && s.Bs <= 1 {
			var detail string
			rt, detail = roundTrip(pa, js, enc)
			impl += fmt.Sprintf(" roundtrip=%d %s", rt, detail)
		}
	}
	c.st.Hit("ser:" + s.String())
	c.st.Hit(fmt.Sprintf("ser:class=%d", scls))
	c.st.Hit(fmt.Sprintf("ser:roundtrip=%d", rt))
	term := fmt.Sprintf("CSer %s %s %s %d %s %d", s.coq(), t.coqTcomp(""), v.Coq(), scls, jterm, rt)
	c.distinct("ser|"+s.String()+"|"+t.Sig()+"|"+t.namesDesc()+"|"+v.Describe(), true)
	sc := s
	key := ""
	if !validUTF8(t, v) {
		// json.Marshal replaces invalid UTF-8 by U+FFFD: the document cannot denote the value (code 15)
		key = "C03/string-invalid-utf8"
		c.st.Hit("ser:invalid-utf8-string")
	}
	c.w.Add(term, desc{Kind: "serialize", Type: t, Sig: t.Sig(), Names: t.namesDesc(), Value: v, ValueS: v.Describe(), Ser: &sc, SerS: s.String(), Impl: impl, Key: key})
}

func lenBucket(n int) string {
	switch {
	case n == 0:
		return "0"
	case n < 32:
		return "1..31"
	case n == 32:
		return "32"
	case n%32 == 0:
		return "k*32"
	default:
		return "other"
	}
}

// validUTF8 reports whether every string leaf of v (under t) is valid UTF-8.
func validUTF8(t *T, v *V) bool {
	switch t.K {
	case kString:
		return utf8.Valid(v.Bytes)
	case kFixedArr, kDynArr:
		for _, e := range v.List {
			if !validUTF8(t.Elem, e) {
				return false
			}
		}
	case kTuple:
		for i, e := range v.List {
			if !validUTF8(t.Kids[i], e) {
				return false
			}
		}
	}
	return true
}

func main() {
	out := flag.String("out", "", "output directory")
	tier := flag.String("tier", "quick", "quick|thorough")
	replay := flag.String("replay", "", "replay file")
	flag.Parse()
	if *out == "" {
		fmt.Fprintln(os.Stderr, "need -out")
		os.Exit(2)
	}
	os.MkdirAll(*out, 0o755)
	header := "From Coq Require Import String List NArith ZArith Uint63.\nFrom FFS Require Import Base.Bytes Base.Lit Abi.Types Abi.Spec Abi.ModelTypes Abi.SerModel Abi.RunC03.\nImport ListNotations.\nOpen Scope string_scope. Open Scope Z_scope. Open Scope N_scope."
	st := cv.NewStats()
	c := &ctx{st: st, seen: map[string]bool{}}

	if *replay != "" {
		raw, err := os.ReadFile(*replay)
		if err != nil {
			panic(err)
		}
		var rp struct {
			Case desc `json:"case"`
		}
		if err := json.Unmarshal(raw, &rp); err != nil || rp.Case.Type == nil {
			fmt.Println("replay: the file does not hold a generated case (it names a broken obligation or correspondence)")
			os.Exit(0)
		}
		c.w = cv.NewWriter(*out, "C03", header, "case", "mismatches", 1)
		d := rp.Case
		switch {
		case d.Kind == "decode":
			pre, _ := hex.DecodeString(d.Pre)
			post, _ := hex.DecodeString(d.Post)
			c.addDec(d.Type, d.Value, pre, post)
		case strings.HasPrefix(d.Kind, "decode-raw"):
			b, _ := hex.DecodeString(d.Block)
			c.addRaw(d.Type, b, d.Off, "replay")
		case d.Kind == "serialize":
			c.addSer(d.Type, d.Value, *d.Ser)
		case strings.HasPrefix(d.Kind, "entry/"):
			c.addEntry(d.Type, d.Value)
			c.addDec(d.Type, d.Value, nil, nil)
		}
		c.w.Flush()
		raw2, _ := os.ReadFile(filepath.Join(*out, "cases_C03_0.jsonl"))
		fmt.Println("implementation on the replayed case:", string(raw2))
		st.Evaluations = 1
		st.Write(filepath.Join(*out, "stats_C03.json"))
		return
	}

	thorough := *tier == "thorough"
	c.w = cv.NewWriter(*out, "C03", header, "case", "mismatches", 16)
	r := cv.NewRand(3)
	g := &gen{r: r, st: st}

	generate(c, g, thorough)

	if err := c.w.Flush(); err != nil {
		panic(err)
	}
	st.Evaluations = c.w.Count()
	st.Rule = "component trees from the ABI type grammar (all 32 uint/int widths, bytes1..32, address, bool, function, string, bytes, fixed-point; T[k] k=0..3, T[], tuples of 0..4 members; every wrapper sequence of depth<=3 over a static and a dynamic base enumerated; named / unnamed / partially named / index-colliding member names); values at 0, +-1, the range ends, sign-bit patterns, dynamic data of length 0/1/31/32/33/64/65; the specification encoding (independent Go transcription, re-checked against Spec.enc in Coq) decoded at offset |pre| with trailing bytes; the minimal / exact-fit family (minimal.go: array and tuple wrappers T[1] T[2] T[3] T[] (T) (u8,T) (T,u8) (string,T,u8) (T,string) stacked to depth 3 over uint256 / bytes / string / bytes3, every dynamic leaf empty or exactly one word, every dynamic array of length 0 / 1 / 2 with minimal elements, T[n] and T[] of n = 4..33 minimal entries, nothing / 1 byte / 32 bytes after the encoding; the same values through DecodeCallData, ParseError and DecodeEventData; those blocks cut by 1/31/32/33/64 bytes, offset words moved to the last word of the block +-1, count words set to the words remaining and one more, blocks ending at the last data byte of a bytes/string/bytes<M> leaf +-1); mutated encodings (truncation/extension at word boundaries +-1, offset and count words replaced by boundary values, byte flips); every serializer combination (3 modes x 4 int x 3 byte x 4 address) with ParseJSON->Encode round trip for object/flat-array modes with hex renderings; string leaves at the edges of UTF-8 validity (ff, truncated / overlong / surrogate / out-of-range sequences: json.Marshal's U+FFFD substitution must equal the model's, the failing denotation is the known finding C03/string-invalid-utf8; U+FFFD, U+D7FF, U+E000 and the range ends of every width as valid neighbours). distinct = distinct (names, type, value, pre, post | block | serializer); non-trivial = nested or dynamic type / block longer than one word / any serializer case"
	if err := st.Write(filepath.Join(*out, "stats_C03.json")); err != nil {
		panic(err)
	}
}
