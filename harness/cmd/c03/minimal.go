// Round 3: the minimal / exact-fit family.
//
// Every guard of abidecode.go compares a count, an offset or a byte length with the number of bytes
// that remain in the block (headPosition+32 > len, offset+32 > len, dataOffset+byteLength > len,
// (n-1)*32 >= len-headStart, (n-1)*32 >= len-headPosition, (n-1)*32 >= len-dataOffset).  A guard that
// is subtly too strict rejects exactly the valid encodings that leave the fewest bytes after the
// guarded position: every dynamic leaf empty (or exactly one word long), every dynamic array empty
// (or holding minimal elements), and nothing after the value in the block.  This file enumerates those
// values for every systematic stacking of array / tuple wrappers, places the value last / non-last in
// the data, encodes it with the specification encoder (gen.go) with 0, 1 and 32 bytes after it, and adds
// the just-failing neighbours (the same block cut short, offset words moved to the last word of the block
// and one past it).  The decoded value is also requested through the call-data, error and event entry
// points (Go-side oracle).
package main

import (
	"encoding/hex"
	"fmt"
	"math/big"
	"strings"

	"github.com/hyperledger/firefly-signer/pkg/abi"
	"github.com/hyperledger/firefly-signer/pkg/ethtypes"
)

// minWrappers: the wrappers of the minimal family.  Fixed arrays of 1, 2 and 3 entries; the tuple
// wrappers put t last in the data ((u8,t), (t,u8): a static sibling lives in the head; (str,t,u8): an
// earlier tail precedes t) and non-last ((t,str): a later tail follows t).
func minWrappers(t *T) []*T {
	u8 := func() *T { return &T{K: kUint, M: 8} }
	str := func() *T { return &T{K: kString} }
	return []*T{
		{K: kFixedArr, Len: 1, Elem: t},
		{K: kFixedArr, Len: 2, Elem: clone(t)},
		{K: kFixedArr, Len: 3, Elem: clone(t)},
		{K: kDynArr, Elem: clone(t)},
		{K: kTuple, Kids: []*T{clone(t)}},
		{K: kTuple, Kids: []*T{u8(), clone(t)}},
		{K: kTuple, Kids: []*T{clone(t), u8()}},
		{K: kTuple, Kids: []*T{str(), clone(t), u8()}},
		{K: kTuple, Kids: []*T{clone(t), str()}},
	}
}

// minShape: a type and the wrapper indices applied to the base, innermost first.
type minShape struct {
	t  *T
	wr []int
}

func minShapes(depth int, base *T) []minShape {
	if depth == 0 {
		return []minShape{{clone(base), nil}}
	}
	var out []minShape
	for _, s := range minShapes(depth-1, base) {
		for wi, w := range minWrappers(s.t) {
			out = append(out, minShape{w, append(append([]int{}, s.wr...), wi)})
		}
	}
	return out
}

// minSpec selects one member of the minimal family: lens[i] is the length of a dynamic array that has i
// dynamic arrays above it (the last entry repeats); leaf is the length of every bytes / string leaf.
type minSpec struct {
	lens []int
	leaf int
}

func (m minSpec) String() string {
	p := make([]string, len(m.lens))
	for i, n := range m.lens {
		p[i] = fmt.Sprintf("%d", n)
	}
	return fmt.Sprintf("arrays=%s,leaf=%d", strings.Join(p, "/"), m.leaf)
}

// minValue builds the value.  Static leaves are fixed non-zero patterns (a zero word must not be
// mistaken for a length or an offset).
func minValue(t *T, m minSpec, level int) *V {
	switch t.K {
	case kUint, kUfixed, kAddress:
		return vnum(big.NewInt(int64(7 + level)))
	case kInt, kFixed:
		return vnum(big.NewInt(-1))
	case kBool:
		return vnum(big.NewInt(1))
	case kBytesN:
		b := make([]byte, t.M)
		for i := range b {
			b[i] = byte(0xa0 + i)
		}
		return vbytes(b)
	case kFunction:
		b := make([]byte, 24)
		for i := range b {
			b[i] = byte(0xc0 + i)
		}
		return vbytes(b)
	case kBytes, kString:
		b := make([]byte, m.leaf)
		for i := range b {
			b[i] = byte('a' + i%26)
		}
		return vbytes(b)
	case kFixedArr:
		l := make([]*V, t.Len)
		for i := range l {
			l[i] = minValue(t.Elem, m, level)
		}
		return vlist(l)
	case kDynArr:
		n := m.lens[len(m.lens)-1]
		if level < len(m.lens) {
			n = m.lens[level]
		}
		l := make([]*V, n)
		for i := range l {
			l[i] = minValue(t.Elem, m, level+1)
		}
		return vlist(l)
	case kTuple:
		l := make([]*V, len(t.Kids))
		for i := range l {
			l[i] = minValue(t.Kids[i], m, level)
		}
		return vlist(l)
	}
	return nil
}

var minSpecsQuick = []minSpec{
	{[]int{0}, 0},    // every dynamic array empty, every dynamic leaf empty
	{[]int{1}, 0},    // every dynamic array holds one minimal element
	{[]int{1, 0}, 0}, // the outermost arrays hold one element, the arrays inside are empty
	{[]int{2}, 0},    // two minimal elements (a count guard with a wrong factor needs n >= 2)
	{[]int{2, 0}, 0},
	{[]int{1}, 32}, // dynamic leaves of exactly one word: the data ends with the leaf, no padding
}

var minSpecsThorough = []minSpec{
	{[]int{1, 2}, 0}, {[]int{3}, 0}, {[]int{3, 1}, 0}, {[]int{0}, 32}, {[]int{2}, 32}, {[]int{1}, 1}, {[]int{1}, 31}, {[]int{1}, 33}, {[]int{2}, 64},
}

// minPosts: nothing after the encoding, one byte, one word.
var minPosts = [][]byte{nil, {0xee}, func() []byte {
	b := make([]byte, 32)
	for i := range b {
		b[i] = 0xee
	}
	return b
}()}

func minimalFamily(c *ctx, g *gen, thorough bool) {
	r := g.r
	st := g.st
	seen := map[string]bool{}
	type kept struct {
		t   *T
		v   *V
		d   int
		dyn bool
	}
	var pool []kept

	emit := func(t *T, m minSpec, d int, posts []int, pre []byte) {
		v := minValue(t, m, 0)
		key := t.Sig() + "|" + v.Describe()
		if seen[key] {
			return // static shapes (and shapes without a dynamic array) have one minimal value
		}
		seen[key] = true
		for _, pi := range posts {
			c.addDec(t, v, pre, minPosts[pi])
			st.Hit(fmt.Sprintf("minimal:depth=%d:post=%d", d, len(minPosts[pi])))
		}
		st.Hit("minimal:" + m.String())
		if t.dynamic() {
			st.Hit("minimal:dynamic-type")
		} else {
			st.Hit("minimal:static-type")
		}
		c.addEntry(t, v)
		pool = append(pool, kept{t, v, d, t.dynamic()})
	}

	specs := minSpecsQuick
	if thorough {
		specs = append(append([]minSpec{}, minSpecsQuick...), minSpecsThorough...)
	}
	bases := []*T{{K: kUint, M: 256}, {K: kBytes}, {K: kString}, {K: kBytesN, M: 3}}
	idx := 0
	d3rot := r.Intn(16)
	for bi, base := range bases {
		for d := 1; d <= 3; d++ {
			if bi >= 2 && d >= 2 && !(thorough && d == 2) {
				continue // string / bytes3: depth 1 (depth 2 in the thorough tier); bytes and uint256 carry the deep shapes
			}
			for _, sh := range minShapes(d, base) {
				idx++
				t := asTuple(sh.t)
				g.names(t.Kids, idx%3)
				var pre []byte
				switch idx % 4 {
				case 1:
					pre = r.Bytes(4)
				case 3:
					pre = r.Bytes(32 * (1 + r.Intn(2)))
				}
				switch {
				case d <= 2:
					for si, m := range specs {
						posts := []int{0}
						if d == 1 || (thorough && si < len(minSpecsQuick)) {
							posts = []int{0, 1, 2}
						} else if thorough {
							// the thorough-only members of the family at depth 2: nothing after the encoding
						} else if (idx+si)%3 == 0 {
							posts = []int{0, 1 + (idx/3)%2}
						}
						emit(t, m, d, posts, pre)
					}
				case thorough:
					// depth 3, thorough tier: every shape; the all-minimal value and the empty-arrays value with
					// nothing after them, and two more members of the family drawn from the VERIF_SEED stream
					emit(t, specs[1], d, []int{0}, pre)
					if t.dynamic() {
						emit(t, specs[0], d, []int{0}, pre)
						emit(t, specs[2+r.Intn(len(specs)-2)], d, []int{0}, pre)
						emit(t, specs[2+r.Intn(len(specs)-2)], d, []int{0, 1 + idx%2}, pre)
					}
				default:
					// depth 3, quick tier: every shape whose two inner wrappers are arrays (array of array of the
					// base inside each outer wrapper) and a rotating eighth of the others; the all-minimal
					// value with nothing after it, and one more member of the family in rotation
					arrays2 := sh.wr[0] < 4 && sh.wr[1] < 4
					if !arrays2 && (idx+d3rot)%16 != 0 {
						continue
					}
					emit(t, specs[1], d, []int{0}, pre)
					if t.dynamic() && idx%2 == 0 {
						emit(t, specs[[]int{0, 2, 3, 4, 5}[(idx/2+d3rot)%5]], d, []int{0}, pre)
					}
				}
			}
		}
	}

	// longer fixed arrays of minimal dynamic entries (a guard wrong only from some length on), and the
	// entry types with the smallest encodings of 64, 96 and 128 bytes per entry
	for _, n := range []int{4, 5, 8, 17, 33} {
		for _, e := range []*T{
			{K: kString},
			{K: kDynArr, Elem: &T{K: kUint, M: 8}},
			{K: kTuple, Kids: []*T{{K: kBytes}}},
			{K: kFixedArr, Len: 1, Elem: &T{K: kString}},
			{K: kTuple, Kids: []*T{{K: kUint, M: 8}, {K: kString}}},
			{K: kUint, M: 256},
			{K: kTuple, Kids: []*T{{K: kUint, M: 8}, {K: kBytesN, M: 32}}},
		} {
			for _, t := range []*T{
				{K: kTuple, Kids: []*T{{K: kFixedArr, Len: n, Elem: clone(e)}}},
				{K: kTuple, Kids: []*T{{K: kUint, M: 256}, {K: kFixedArr, Len: n, Elem: clone(e)}}},
				{K: kTuple, Kids: []*T{{K: kDynArr, Elem: &T{K: kFixedArr, Len: n, Elem: clone(e)}}, {K: kBool}}},
			} {
				if n > 8 && !thorough && t.Kids[0].K != kFixedArr {
					continue
				}
				emit(t, minSpec{[]int{1, 0}, 0}, 2, []int{0}, nil)
				st.Hit("minimal:long-fixed-array")
			}
			// a dynamic array of n minimal entries, last in the data
			t := &T{K: kTuple, Kids: []*T{{K: kUint, M: 256}, {K: kDynArr, Elem: clone(e)}}}
			emit(t, minSpec{[]int{n, 0}, 0}, 2, []int{0}, nil)
			st.Hit("minimal:long-dynamic-array")
		}
	}

	// --- the just-failing neighbours of the exact-fit blocks (correspondence of every guard at its flip
	// point: the implementation must reject / panic exactly where the model does) ---
	// Quick tier: a fixed subsample of the pool (every depth <= 1 value, every 4th of depth 2, every 8th of depth 3).
	// Thorough tier: the pool is visited in an order drawn from the VERIF_SEED stream and every stream has a
	// budget (the full product - all cuts, every word against every delta and count - is millions of blocks
	// and the 16 evaluators do not survive it; the budgets keep the family at about 10x the quick tier).
	nCut, nOff, nCnt := 0, 0, 0
	cutBudget, offBudget, cntBudget := 1<<30, 1<<30, 1<<30
	order := make([]int, len(pool))
	for i := range order {
		order[i] = i
	}
	if thorough {
		cutBudget, offBudget, cntBudget = 8000, 9000, 8000
		for i := len(order) - 1; i > 0; i-- {
			j := r.Intn(i + 1)
			order[i], order[j] = order[j], order[i]
		}
	}
	for _, i := range order {
		k := pool[i]
		if !thorough && ((k.d >= 3 && i%8 != 0) || (k.d == 2 && i%4 != 0)) {
			continue
		}
		if nCut >= cutBudget && nOff >= offBudget && nCnt >= cntBudget {
			break
		}
		enc := specEnc(k.t, k.v)
		if len(enc) == 0 {
			continue
		}
		cuts := []int{1}
		if k.d <= 1 {
			cuts = []int{1, 31, 32, 33, 64}
		} else if k.dyn && (k.d == 2 || thorough) {
			cuts = []int{1, []int{31, 32, 33, 64}[(i+r.Intn(4))%4]}
		}
		for _, j := range cuts {
			if j > len(enc) || nCut >= cutBudget {
				continue
			}
			c.addRaw(k.t, append([]byte{}, enc[:len(enc)-j]...), 0, "minimal-cut")
			nCut++
		}
		// an offset / count word moved so that what it designates ends exactly at the end of the block
		// (just accepted), one byte later (just rejected), or one byte earlier / one word later; relative
		// to a head start it may belong to
		if !k.dyn || (k.d >= 3 && !thorough) {
			continue
		}
		words := len(enc) / 32
		nw := 1
		if k.d <= 1 && (words <= 5 || thorough) {
			nw = words
		}
		for q := 0; q < nw; q++ {
			w := q
			if nw == 1 {
				w = r.Intn(words)
			}
			hs := 32 * r.Intn(words)
			deltas := []int{0, 1}
			if r.Intn(3) == 0 || thorough {
				deltas = append(deltas, []int{-1, 32}[r.Intn(2)])
			}
			for _, delta := range deltas {
				z := len(enc) - 32 - hs + delta
				if z < 0 || nOff >= offBudget {
					continue
				}
				b := append([]byte{}, enc...)
				copy(b[32*w:], word(big.NewInt(int64(z))))
				c.addRaw(k.t, b, 0, "minimal-offset-at-end")
				nOff++
			}
			// as a count: the number of words that remain after this word (the count guard is just false)
			// and one more (just true); sometimes the number of 64 byte entries that remain, and one more
			rem := len(enc) - 32*(w+1)
			counts := []int{rem / 32, rem/32 + 1}
			if r.Intn(4) == 0 || thorough {
				counts = append(counts, rem/64, rem/64+1)
			}
			for _, z := range counts {
				if nCnt >= cntBudget {
					continue
				}
				b := append([]byte{}, enc...)
				copy(b[32*w:], word(big.NewInt(int64(z))))
				c.addRaw(k.t, b, 0, "minimal-count-at-fit")
				nCnt++
			}
		}
	}
	unpaddedLeaves(c, g, thorough)
	st.Extra["minimal_family"] = map[string]int{"values": len(pool), "cut_blocks": nCut, "moved_offset_words": nOff, "moved_count_words": nCnt,
		"cut_budget": cutBudget, "offset_budget": offBudget, "count_budget": cntBudget}
}

// unpaddedLeaves: the block ends inside / exactly at the end of the data of the last bytes, string or
// bytesN leaf (the decoder does not require the padding): dataOffset+byteLength == len(block) and +-1.
func unpaddedLeaves(c *ctx, g *gen, thorough bool) {
	for _, n := range []int{1, 2, 31, 32, 33, 63, 64, 65} {
		for _, t := range []*T{
			{K: kTuple, Kids: []*T{{K: kBytes}}},
			{K: kTuple, Kids: []*T{{K: kUint, M: 8}, {K: kString}}},
			{K: kTuple, Kids: []*T{{K: kDynArr, Elem: &T{K: kBytes}}}},
			{K: kTuple, Kids: []*T{{K: kFixedArr, Len: 2, Elem: &T{K: kString}}}},
			{K: kTuple, Kids: []*T{{K: kTuple, Kids: []*T{{K: kBytes}, {K: kBool}}}}},
		} {
			v := minValue(t, minSpec{[]int{1}, n}, 0)
			enc := specEnc(t, v)
			pad := (32 - n%32) % 32
			for _, j := range []int{pad - 1, pad, pad + 1} {
				if j < 0 || j > len(enc) {
					continue
				}
				c.addRaw(t, append([]byte{}, enc[:len(enc)-j]...), 0, "unpadded-leaf")
			}
		}
	}
	// fixed-point leaves (outside the identity claim, inside the correspondence): the word present / one byte short
	for _, t := range []*T{
		{K: kTuple, Kids: []*T{{K: kUfixed, M: 128, N: 18}}},
		{K: kTuple, Kids: []*T{{K: kFixed, M: 8, N: 1}}},
		{K: kTuple, Kids: []*T{{K: kUint, M: 8}, {K: kFixedArr, Len: 2, Elem: &T{K: kUfixed, M: 256, N: 80}}}},
	} {
		enc := specEnc(t, minValue(t, minSpec{[]int{1}, 0}, 0))
		for _, j := range []int{0, 1, 32} {
			c.addRaw(t, append([]byte{}, enc[:len(enc)-j]...), 0, "unpadded-leaf")
		}
	}
	for m := 1; m <= 32; m++ {
		if !thorough && m > 4 && m < 30 {
			continue
		}
		for _, t := range []*T{
			{K: kTuple, Kids: []*T{{K: kBytesN, M: m}}},
			{K: kTuple, Kids: []*T{{K: kUint, M: 8}, {K: kFixedArr, Len: 2, Elem: &T{K: kBytesN, M: m}}}},
			{K: kTuple, Kids: []*T{{K: kDynArr, Elem: &T{K: kBytesN, M: m}}}},
		} {
			v := minValue(t, minSpec{[]int{2}, 0}, 0)
			enc := specEnc(t, v)
			pad := 32 - m
			for _, j := range []int{pad - 1, pad, pad + 1} {
				if j < 0 {
					continue
				}
				c.addRaw(t, append([]byte{}, enc[:len(enc)-j]...), 0, "unpadded-leaf")
			}
		}
	}
}

// ---------- the other decode entry points (Go-side oracle on the implementation alone) ----------

type entryFailure struct {
	desc
	What string `json:"what"`
}

// addEntry: the specification encoding of v must decode to v through Entry.DecodeCallData (function
// selector in front), ABI.ParseError (error selector in front) and Entry.DecodeEventData (no indexed
// parameter: the data is the encoding).  The selector / topic 0 is whatever the implementation computes
// (selectors are C11's subject); only the decoded value is judged.
func (c *ctx) addEntry(t *T, v *V) {
	if t.hasFixedPoint() || t.hasZeroFixedArr() {
		return
	}
	enc := specEnc(t, v)
	fail := func(how, detail string) {
		c.st.Hit("entry:" + how + ":FAILED")
		c.st.ImplFailures = append(c.st.ImplFailures, entryFailure{
			desc: desc{Kind: "entry/" + how, Type: t, Sig: t.Sig(), Names: t.namesDesc(), Value: v, ValueS: v.Describe(), Impl: detail},
			What: "the specification encoding did not decode back to the value through " + how,
		})
	}
	for _, how := range []string{"DecodeCallData", "ParseError", "DecodeEventData"} {
		detail, ok := runEntry(how, t, v, enc)
		c.st.Hit("entry:" + how)
		if !ok {
			fail(how, detail)
		}
	}
}

func runEntry(how string, t *T, v *V, enc []byte) (detail string, ok bool) {
	defer func() {
		if x := recover(); x != nil {
			detail, ok = fmt.Sprintf("panic: %v", x), false
		}
	}()
	var got *abi.ComponentValue
	var err error
	switch how {
	case "DecodeCallData":
		e := &abi.Entry{Type: abi.Function, Name: "f", Inputs: t.Params()}
		sel, serr := e.GenerateFunctionSelector()
		if serr != nil {
			return "selector: " + serr.Error(), false
		}
		got, err = e.DecodeCallData(append(append([]byte{}, sel...), enc...))
	case "ParseError":
		e := &abi.Entry{Type: abi.Error, Name: "E", Inputs: t.Params()}
		sel, serr := e.GenerateFunctionSelector()
		if serr != nil {
			return "selector: " + serr.Error(), false
		}
		var found bool
		_, got, found = abi.ABI{e}.ParseError(append(append([]byte{}, sel...), enc...))
		if !found {
			return "ParseError did not match", false
		}
	default:
		e := &abi.Entry{Type: abi.Event, Name: "Ev", Inputs: t.Params()}
		got, err = e.DecodeEventData([]ethtypes.HexBytes0xPrefix{e.SignatureHashBytes()}, enc)
	}
	if err != nil {
		return "error: " + err.Error(), false
	}
	if !v.Equal(projV(got)) {
		return "decoded " + describeCV(got) + " from " + hex.EncodeToString(enc), false
	}
	return "", true
}
