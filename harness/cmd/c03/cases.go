// Generators for the C03 harness: type trees with member names, boundary-directed values, the
// systematic shape enumeration, mutated encodings and the serializer matrix.
package main

import (
	"fmt"
	"math/big"

	"verifharness/cv"
)

type gen struct {
	r  *cv.Rand
	st *cv.Stats
}

func pow2(k int) *big.Int { return new(big.Int).Lsh(big.NewInt(1), uint(k)) }
func sub1(z *big.Int) *big.Int { return new(big.Int).Sub(z, big.NewInt(1)) }
func neg(z *big.Int) *big.Int  { return new(big.Int).Neg(z) }

var identNames = []string{"a", "b", "amount", "to", "data", "x1", "Value", "_from", "tokenId", "naïve", "name", "type", "value"}

// ---------- types ----------

func (g *gen) elem() *T {
	r := g.r
	switch c := r.Intn(20); {
	case c < 5:
		return &T{K: kUint, M: 8 * (1 + r.Intn(32))}
	case c < 9:
		return &T{K: kInt, M: 8 * (1 + r.Intn(32))}
	case c < 11:
		return &T{K: kAddress}
	case c < 12:
		return &T{K: kBool}
	case c < 14:
		return &T{K: kBytesN, M: 1 + r.Intn(32)}
	case c < 16:
		return &T{K: kBytes}
	case c < 18:
		return &T{K: kString}
	case c < 19:
		return &T{K: kFunction}
	default:
		if r.Bool() {
			return &T{K: kFixed, M: 8 * (1 + r.Intn(32)), N: 1 + r.Intn(80)}
		}
		return &T{K: kUfixed, M: 8 * (1 + r.Intn(32)), N: 1 + r.Intn(80)}
	}
}

// nameMode: 0 all named, 1 none named, 2 partially, 3 names that collide with default index names
func (g *gen) names(kids []*T, mode int) {
	used := map[string]bool{}
	for i, k := range kids {
		switch mode {
		case 0:
			n := identNames[g.r.Intn(len(identNames))]
			for used[n] {
				n += fmt.Sprintf("%d", i)
			}
			used[n] = true
			k.Name = n
		case 1:
			k.Name = ""
		case 2:
			if g.r.Bool() {
				n := identNames[g.r.Intn(len(identNames))]
				for used[n] {
					n += "_"
				}
				used[n] = true
				k.Name = n
			}
		default:
			// a member named like another member's default name, or two members with the same name
			switch g.r.Intn(3) {
			case 0:
				k.Name = fmt.Sprintf("%d", (i+1)%len(kids))
			case 1:
				k.Name = ""
			default:
				k.Name = "dup"
			}
		}
	}
}

func (g *gen) typ(depth int) *T {
	r := g.r
	if depth <= 0 || r.Intn(5) < 2 {
		return g.elem()
	}
	switch r.Intn(6) {
	case 0, 1:
		n := []int{1, 1, 2, 2, 3, 0}[r.Intn(6)]
		if n == 0 && r.Intn(3) != 0 {
			n = 2
		}
		return &T{K: kFixedArr, Len: n, Elem: g.typ(depth - 1)}
	case 2, 3:
		return &T{K: kDynArr, Elem: g.typ(depth - 1)}
	default:
		return g.tuple(depth-1, -1)
	}
}

func (g *gen) tuple(depth int, nameMode int) *T {
	r := g.r
	n := []int{1, 1, 2, 2, 3, 3, 4, 0}[r.Intn(8)]
	t := &T{K: kTuple}
	for i := 0; i < n; i++ {
		t.Kids = append(t.Kids, g.typ(depth))
	}
	if nameMode < 0 {
		nameMode = []int{0, 0, 1, 1, 2, 2, 2, 3}[r.Intn(8)]
	}
	g.names(t.Kids, nameMode)
	g.st.Hit(fmt.Sprintf("names:%s", []string{"all-named", "unnamed", "partial", "colliding"}[nameMode]))
	return t
}

// ---------- values ----------

var dynLens = []int{0, 1, 2, 31, 32, 33, 63, 64, 65, 100}

var utf8Samples = []string{"", "a", "hello world", "naïve café", "漢字かな", "emoji 😀 ok", "quote\" back\\slash", "<tag>&amp;", "line\nbreak\ttab", " sep", "nul\x00byte",
	"0123456789012345678901234567890", "01234567890123456789012345678901", "012345678901234567890123456789012"}

func (g *gen) num(t *T) *big.Int {
	r := g.r
	var lo, hi *big.Int // inclusive range
	switch t.K {
	case kUint, kUfixed:
		lo, hi = big.NewInt(0), sub1(pow2(t.M))
	case kInt, kFixed:
		lo, hi = neg(pow2(t.M-1)), sub1(pow2(t.M-1))
	case kAddress:
		lo, hi = big.NewInt(0), sub1(pow2(160))
	case kBool:
		return big.NewInt(int64(r.Intn(2)))
	}
	pick := func(z *big.Int) *big.Int {
		if z.Cmp(lo) < 0 {
			return new(big.Int).Set(lo)
		}
		if z.Cmp(hi) > 0 {
			return new(big.Int).Set(hi)
		}
		return z
	}
	safe := sub1(pow2(53))
	switch c := r.Intn(16); c {
	case 0:
		return pick(big.NewInt(0))
	case 1:
		return pick(big.NewInt(1))
	case 2:
		return pick(big.NewInt(-1))
	case 3:
		return new(big.Int).Set(lo)
	case 4:
		return new(big.Int).Set(hi)
	case 5:
		return pick(new(big.Int).Add(lo, big.NewInt(1)))
	case 6:
		return pick(sub1(hi))
	case 7: // number-if-fits switch-over
		z := new(big.Int).Add(safe, big.NewInt(int64(r.Intn(3)-1)))
		if r.Bool() {
			z.Neg(z)
		}
		return pick(z)
	case 8: // high bit of the top byte of the type's width set / clear
		z := pow2(t.bits() - 1 - r.Intn(2))
		return pick(z)
	case 9: // byte-boundary patterns: 0xff..ff of k bytes, 0x0100..00
		k := 1 + r.Intn(32)
		z := sub1(pow2(8 * k))
		if r.Bool() {
			z = pow2(8 * (k - 1))
		}
		if r.Intn(3) == 0 {
			z.Neg(z)
		}
		return pick(z)
	case 10: // int64 / uint64 edges
		z := []*big.Int{pow2(63), sub1(pow2(63)), pow2(64), sub1(pow2(64)), neg(pow2(63)), neg(sub1(pow2(63)))}[r.Intn(6)]
		return pick(z)
	default:
		// random in range
		span := new(big.Int).Sub(hi, lo)
		span.Add(span, big.NewInt(1))
		z := new(big.Int).SetBytes(r.Bytes(40))
		z.Mod(z, span)
		z.Add(z, lo)
		if r.Intn(3) == 0 { // small magnitudes are the common case in practice
			z = pick(big.NewInt(int64(r.Intn(100000)) - 50000))
		}
		return z
	}
}

func (t *T) bits() int {
	switch t.K {
	case kAddress:
		return 160
	case kBool:
		return 1
	}
	return t.M
}

func (g *gen) dynBytes() []byte {
	r := g.r
	n := dynLens[r.Intn(len(dynLens))]
	if r.Intn(4) == 0 {
		n = r.Intn(130)
	}
	b := r.Bytes(n)
	if n > 0 && r.Intn(4) == 0 {
		b[n-1] = 0 // trailing zero bytes must survive
	}
	if n > 0 && r.Intn(4) == 0 {
		b[0] = 0
	}
	return b
}

func (g *gen) value(t *T, utf8Only bool) *V {
	r := g.r
	switch t.K {
	case kUint, kInt, kAddress, kBool, kFixed, kUfixed:
		return vnum(g.num(t))
	case kBytesN:
		b := r.Bytes(t.M)
		if r.Intn(3) == 0 {
			b[t.M-1] = 0
		}
		if r.Intn(3) == 0 {
			b[0] = 0xff
		}
		return vbytes(b)
	case kFunction:
		return vbytes(r.Bytes(24))
	case kBytes:
		return vbytes(g.dynBytes())
	case kString:
		if utf8Only || r.Intn(3) != 0 {
			return vbytes([]byte(utf8Samples[r.Intn(len(utf8Samples))]))
		}
		return vbytes(g.dynBytes())
	case kFixedArr:
		l := make([]*V, t.Len)
		for i := range l {
			l[i] = g.value(t.Elem, utf8Only)
		}
		return vlist(l)
	case kDynArr:
		n := []int{0, 1, 1, 2, 2, 3, 5}[r.Intn(7)]
		l := make([]*V, n)
		for i := range l {
			l[i] = g.value(t.Elem, utf8Only)
		}
		return vlist(l)
	case kTuple:
		l := make([]*V, len(t.Kids))
		for i := range l {
			l[i] = g.value(t.Kids[i], utf8Only)
		}
		return vlist(l)
	}
	return nil
}

// ---------- systematic shapes ----------

// wrappers applied to a type; the tuple wrappers add a static or dynamic sibling before / after
func wrappers(t *T) []*T {
	u8 := func() *T { return &T{K: kUint, M: 8} }
	str := func() *T { return &T{K: kString} }
	return []*T{
		{K: kFixedArr, Len: 2, Elem: t},
		{K: kDynArr, Elem: t},
		{K: kTuple, Kids: []*T{t}},
		{K: kTuple, Kids: []*T{u8(), t}},
		{K: kTuple, Kids: []*T{t, u8()}},
		{K: kTuple, Kids: []*T{str(), t, u8()}},
	}
}

func clone(t *T) *T {
	if t == nil {
		return nil
	}
	c := *t
	c.Elem = clone(t.Elem)
	c.Kids = nil
	for _, k := range t.Kids {
		c.Kids = append(c.Kids, clone(k))
	}
	return &c
}

func shapes(depth int, base *T) []*T {
	if depth == 0 {
		return []*T{base}
	}
	var out []*T
	for _, s := range shapes(depth-1, base) {
		out = append(out, wrappers(clone(s))...)
	}
	return out
}

// zeroSized: the type has an element type whose encoding is empty (T[0], empty tuples): a count word
// is then not bounded by the data and the mutation stream leaves such types alone.
func (t *T) zeroSized() bool {
	switch t.K {
	case kFixedArr:
		return t.Len == 0 || t.Elem.zeroSized()
	case kDynArr:
		return t.Elem.zeroSized()
	case kTuple:
		if len(t.Kids) == 0 {
			return true
		}
		for _, k := range t.Kids {
			if k.zeroSized() {
				return true
			}
		}
	}
	return false
}

var wordBoundaries = func() []*big.Int {
	l := []*big.Int{big.NewInt(0), big.NewInt(1), big.NewInt(31), big.NewInt(32), big.NewInt(33), big.NewInt(64), big.NewInt(96),
		sub1(pow2(31)), pow2(31), sub1(pow2(32)), pow2(32), pow2(63), sub1(pow2(64)), pow2(255), sub1(pow2(256))}
	return l
}()

func (g *gen) pre() []byte {
	r := g.r
	switch r.Intn(8) {
	case 0, 1, 2:
		return nil
	case 3:
		return r.Bytes(4) // a function selector
	case 4:
		return r.Bytes(32)
	case 5:
		return r.Bytes(1 + r.Intn(31))
	case 6:
		return r.Bytes(32 * (1 + r.Intn(3)))
	default:
		return r.Bytes(r.Intn(100))
	}
}

func (g *gen) post() []byte {
	r := g.r
	switch r.Intn(6) {
	case 0, 1, 2:
		return nil // the block ends exactly where the encoding ends
	case 3:
		return r.Bytes(1 + r.Intn(31))
	case 4:
		return r.Bytes(32)
	default:
		return r.Bytes(r.Intn(80))
	}
}

func asTuple(t *T) *T {
	if t.K == kTuple {
		return t
	}
	return &T{K: kTuple, Kids: []*T{t}}
}

func generate(c *ctx, g *gen, thorough bool) {
	r := g.r
	st := g.st
	mul := 1
	if thorough {
		mul = 12
	}

	// --- 1. every integer width at its range ends, through a one-member tuple, block ends with the word ---
	for m := 8; m <= 256; m += 8 {
		ut := &T{K: kUint, M: m}
		it := &T{K: kInt, M: m}
		for _, z := range []*big.Int{big.NewInt(0), big.NewInt(1), sub1(pow2(m)), pow2(m - 1), sub1(pow2(m - 1))} {
			c.addDec(asTuple(ut), vlist([]*V{vnum(z)}), nil, nil)
		}
		for _, z := range []*big.Int{big.NewInt(-1), neg(pow2(m - 1)), sub1(pow2(m - 1)), big.NewInt(1)} {
			c.addDec(asTuple(it), vlist([]*V{vnum(z)}), nil, nil)
		}
		st.Hit("width-sweep")
	}
	for m := 1; m <= 32; m++ {
		bt := &T{K: kBytesN, M: m}
		b := r.Bytes(m)
		b[m-1] |= 1
		c.addDec(asTuple(bt), vlist([]*V{vbytes(b)}), g.pre(), nil)
	}
	for _, z := range []*big.Int{big.NewInt(0), big.NewInt(1), sub1(pow2(160)), pow2(159)} {
		c.addDec(asTuple(&T{K: kAddress}), vlist([]*V{vnum(z)}), nil, nil)
	}
	for _, n := range dynLens {
		c.addDec(asTuple(&T{K: kBytes}), vlist([]*V{vbytes(r.Bytes(n))}), nil, nil)
		c.addDec(asTuple(&T{K: kString}), vlist([]*V{vbytes(r.Bytes(n))}), r.Bytes(4), nil)
	}

	// --- 2. systematic wrapper sequences (depth <= 3) over a static and a dynamic base ---
	maxDepth := 3
	for _, base := range []*T{{K: kUint, M: 256}, {K: kBytes}, {K: kBytesN, M: 3}, {K: kString}} {
		for d := 1; d <= maxDepth; d++ {
			if d == 3 && (base.K == kBytesN || base.K == kString) && !thorough {
				continue
			}
			for i, s := range shapes(d, base) {
				if !thorough && d == 3 && i%2 == 1 && base.K == kUint {
					// the quick tier takes every other static depth-3 shape (all dynamic ones)
					continue
				}
				t := asTuple(s)
				if t == s && len(t.Kids) > 0 {
					// already a tuple at the root: decoded as the parameter list itself
				}
				g.names(t.Kids, []int{0, 1, 2}[i%3])
				v := g.value(t, false)
				var pre, post []byte
				if i%3 == 1 {
					pre = r.Bytes(4)
				}
				if i%4 == 2 {
					post = r.Bytes(7)
				}
				c.addDec(t, v, pre, post)
				st.Hit(fmt.Sprintf("shape-enum:depth=%d", d))
			}
		}
	}

	// --- 2b. wide tuples: member indices >= 10 (default names "10", "11", ...), static members wider
	// than one word inside arrays (head advance = member size, not 32) ---
	{
		var kids []*T
		var vals []*V
		for i := 0; i < 13; i++ {
			k := &T{K: kUint, M: 8 * (i + 1)}
			if i%4 == 3 {
				k = &T{K: kString}
			}
			kids = append(kids, k)
		}
		wide := &T{K: kTuple, Kids: kids}
		vals = g.value(wide, true).List
		c.addDec(wide, vlist(vals), nil, nil)
		for i, k := range wide.Kids {
			if i == 2 || i == 11 {
				k.Name = fmt.Sprintf("m%d", i)
			}
		}
		c.addDec(wide, vlist(vals), r.Bytes(4), r.Bytes(9))
		pair := func() *T { return &T{K: kTuple, Kids: []*T{{K: kUint, M: 256}, {K: kBytesN, M: 32}, {K: kInt, M: 64}}} }
		for _, t := range []*T{
			{K: kTuple, Kids: []*T{{K: kDynArr, Elem: pair()}, {K: kUint, M: 8}}},
			{K: kTuple, Kids: []*T{{K: kFixedArr, Len: 3, Elem: pair()}, {K: kUint, M: 8}}},
			{K: kTuple, Kids: []*T{{K: kFixedArr, Len: 2, Elem: &T{K: kFixedArr, Len: 2, Elem: pair()}}, {K: kString}}},
			{K: kTuple, Kids: []*T{{K: kDynArr, Elem: &T{K: kFixedArr, Len: 2, Elem: &T{K: kUint, M: 16}}}, {K: kDynArr, Elem: &T{K: kFixedArr, Len: 2, Elem: &T{K: kString}}}}},
			{K: kTuple, Kids: []*T{pair(), {K: kDynArr, Elem: &T{K: kDynArr, Elem: pair()}}, pair()}},
		} {
			for j := 0; j < 3; j++ {
				c.addDec(t, g.value(t, false), g.pre(), g.post())
			}
			st.Hit("wide-static-members")
		}
	}

	// --- 2c. minimal / exact-fit family (round 3): every guard of the decoder that compares a count, an
	// offset or a length with the bytes remaining in the block sees its tightest valid input ---
	minimalFamily(c, g, thorough)

	// --- 3. random trees and values ---
	type tv struct {
		t *T
		v *V
	}
	var pool []tv
	nRand := 500 * mul
	for i := 0; i < nRand; i++ {
		t := g.tuple(1+r.Intn(3), -1)
		if len(t.Kids) == 0 && r.Intn(4) != 0 {
			continue
		}
		v := g.value(t, false)
		c.addDec(t, v, g.pre(), g.post())
		if !t.zeroSized() && len(specEnc(t, v)) <= 1600 {
			pool = append(pool, tv{t, v})
		}
	}
	// zero-length fixed arrays and empty tuples as elements (outside the identity claim for T[0])
	for _, t := range []*T{
		{K: kTuple, Kids: []*T{{K: kFixedArr, Len: 0, Elem: &T{K: kUint, M: 256}}, {K: kUint, M: 8}}},
		{K: kTuple, Kids: []*T{{K: kFixedArr, Len: 0, Elem: &T{K: kString}}, {K: kUint, M: 8}}},
		{K: kTuple, Kids: []*T{{K: kDynArr, Elem: &T{K: kFixedArr, Len: 0, Elem: &T{K: kBytes}}}, {K: kBool}}},
		{K: kTuple, Kids: []*T{{K: kDynArr, Elem: &T{K: kTuple}}, {K: kBool}}},
		{K: kTuple, Kids: []*T{{K: kTuple}, {K: kString}}},
		{K: kTuple},
	} {
		c.addDec(t, g.value(t, false), nil, nil)
		c.addDec(t, g.value(t, false), r.Bytes(5), r.Bytes(3))
	}

	// --- 4. mutated encodings (the decoder's guards, offsets and counts) ---
	nMut := 700 * mul
	for i := 0; i < nMut && len(pool) > 0; i++ {
		p := pool[r.Intn(len(pool))]
		enc := specEnc(p.t, p.v)
		off := 0
		how := ""
		switch r.Intn(9) {
		case 0: // truncate at a word boundary, +-1
			how = "truncate"
			if len(enc) > 0 {
				k := 32 * r.Intn(len(enc)/32+1)
				k += r.Intn(3) - 1
				if k < 0 {
					k = 0
				}
				if k > len(enc) {
					k = len(enc)
				}
				enc = enc[:k]
			}
		case 1: // drop the last byte / last word
			how = "truncate-tail"
			k := []int{1, 31, 32, 33}[r.Intn(4)]
			if k > len(enc) {
				k = len(enc)
			}
			enc = enc[:len(enc)-k]
		case 2, 3: // replace a word by a boundary value
			how = "word-replace"
			if len(enc) >= 32 {
				w := r.Intn(len(enc) / 32)
				var z *big.Int
				if r.Intn(3) == 0 {
					z = big.NewInt(int64(len(enc) + 32*(r.Intn(5)-2) + r.Intn(3) - 1))
					if z.Sign() < 0 {
						z = big.NewInt(0)
					}
				} else {
					z = wordBoundaries[r.Intn(len(wordBoundaries))]
				}
				copy(enc[32*w:], word(z))
			}
		case 4: // add to / subtract from a word (offsets and counts move by one element)
			how = "word-adjust"
			if len(enc) >= 32 {
				w := r.Intn(len(enc) / 32)
				z := new(big.Int).SetBytes(enc[32*w : 32*w+32])
				if z.BitLen() <= 16 {
					z.Add(z, big.NewInt(int64([]int{-32, -1, 1, 32, 64}[r.Intn(5)])))
					if z.Sign() < 0 {
						z.SetInt64(0)
					}
					copy(enc[32*w:], word(z))
				}
			}
		case 5: // flip one byte
			how = "flip"
			if len(enc) > 0 {
				enc[r.Intn(len(enc))] ^= byte(1 << uint(r.Intn(8)))
			}
		case 6: // decode at a shifted offset
			how = "offset-shift"
			off = []int{1, 31, 32, 33, 64}[r.Intn(5)]
		case 7: // the offset is at / past the end of the block
			how = "offset-end"
			off = len(enc) + r.Intn(3) - 1
			if off < 0 {
				off = 0
			}
		default: // dirty high bytes in a word (width-aware readers)
			how = "dirty-high-bytes"
			if len(enc) >= 32 {
				w := r.Intn(len(enc) / 32)
				enc[32*w+r.Intn(31)] = 0xff
			}
		}
		c.addRaw(p.t, enc, off, how)
	}

	// --- 5. serializer matrix ---
	var serPool []tv
	for i := 0; i < 40*mul; i++ {
		var t *T
		for {
			t = g.tuple(1+r.Intn(2), -1)
			if !t.hasFixedPoint() && len(t.Kids) > 0 {
				break
			}
		}
		serPool = append(serPool, tv{t, g.value(t, true)})
	}
	// fixed members that exercise each elementary rendering, and the number-if-fits switch-over
	safe := sub1(pow2(53))
	mk := func(names []string, ts []*T, vs []*V) tv {
		t := &T{K: kTuple, Kids: ts}
		for i := range ts {
			ts[i].Name = names[i]
		}
		return tv{t, vlist(vs)}
	}
	for _, d := range []int64{-2, -1, 0, 1, 2} {
		z := new(big.Int).Add(safe, big.NewInt(d))
		serPool = append(serPool, mk([]string{"p", "n", ""}, []*T{{K: kUint, M: 64}, {K: kInt, M: 256}, {K: kInt, M: 56}},
			[]*V{vnum(z), vnum(neg(z)), vnum(big.NewInt(d))}))
	}
	serPool = append(serPool,
		mk([]string{"a", "", "c", "d"}, []*T{{K: kAddress}, {K: kBool}, {K: kBytesN, M: 5}, {K: kFunction}},
			[]*V{vnum(new(big.Int).SetBytes(r.Bytes(20))), vnum(big.NewInt(1)), vbytes(r.Bytes(5)), vbytes(r.Bytes(24))}),
		mk([]string{"a", "b"}, []*T{{K: kAddress}, {K: kAddress}}, []*V{vnum(big.NewInt(0)), vnum(sub1(pow2(160)))}),
		mk([]string{"", "1"}, []*T{{K: kUint, M: 8}, {K: kUint, M: 8}}, []*V{vnum(big.NewInt(7)), vnum(big.NewInt(9))}),   // collides
		mk([]string{"1", ""}, []*T{{K: kUint, M: 8}, {K: kUint, M: 8}}, []*V{vnum(big.NewInt(7)), vnum(big.NewInt(9))}),   // collides
		mk([]string{"x", "x"}, []*T{{K: kString}, {K: kBytes}}, []*V{vbytes([]byte("s")), vbytes([]byte{1, 2})}),          // duplicate
		mk([]string{"1", "0"}, []*T{{K: kBool}, {K: kString}}, []*V{vnum(big.NewInt(0)), vbytes([]byte("swapped names"))}), // distinct
	)
	{
		var kids []*T
		for i := 0; i < 12; i++ {
			k := &T{K: kUint, M: 16}
			if i == 5 {
				k = &T{K: kString}
			}
			if i == 3 {
				k.Name = "named"
			}
			kids = append(kids, k)
		}
		t := &T{K: kTuple, Kids: kids}
		serPool = append(serPool, tv{t, g.value(t, true)})
	}
	for i, p := range serPool {
		// every combination on the fixed members and on a slice of the random pool; a rotating
		// subset elsewhere so that each case file stays small
		full := i >= len(serPool)-12 || i%8 == 0
		k := 0
		for mode := 0; mode < 3; mode++ {
			for is := 0; is < 4; is++ {
				for bs := 0; bs < 3; bs++ {
					for ad := 0; ad < 4; ad++ {
						k++
						if full || (k+i)%13 == 0 {
							c.addSer(p.t, p.v, serCfg{mode, is, bs, ad})
						}
					}
				}
			}
		}
		if i%10 == 0 {
			c.addSer(p.t, p.v, serCfg{3, 0, 0, 0}) // an unknown formatting mode is an error
		}
	}
	// string leaves at the edges of UTF-8 validity (referee issue 1): json.Marshal writes U+FFFD for every
	// byte at which no valid encoding starts.  The model (SerWire.v) predicts the document; for the invalid
	// ones the denotation / round-trip clauses fail: known finding C03/string-invalid-utf8 (code 15).
	{
		str := func(name string) *T { return &T{K: kString, Name: name} }
		one := func(b string) tv {
			return tv{&T{K: kTuple, Kids: []*T{str("")}}, vlist([]*V{vbytes([]byte(b))})}
		}
		edge := []tv{
			one("\xff"),                 // the referee's witness
			one("a\xffb"),               // in the middle of ASCII
			one("\xc3"),                 // truncated 2-byte sequence
			one("\xe2\x82"),             // truncated 3-byte sequence
			one("\xc0\xaf"),             // overlong
			one("\xed\xa0\x80"),         // surrogate
			one("\xf4\x90\x80\x80"),     // above U+10FFFF
			one("\xf0\x9f\x98"),         // truncated 4-byte sequence
			one("\x80\xbf"),             // stray continuation bytes
			one("\xef\xbf\xbd"),         // U+FFFD itself: valid
			one("\xed\x9f\xbf\xee\x80\x80"), // U+D7FF U+E000: valid, next to the surrogate range
			one("\xf4\x8f\xbf\xbf\xf0\x90\x80\x80\xe0\xa0\x80\xc2\x80\xdf\xbf"), // range ends: valid
			{&T{K: kTuple, Kids: []*T{str("s"), {K: kUint, M: 8, Name: "n"}, {K: kDynArr, Elem: &T{K: kString}, Name: ""}}},
				vlist([]*V{vbytes([]byte("ok")), vnum(big.NewInt(7)), vlist([]*V{vbytes([]byte("caf\xc3\xa9")), vbytes([]byte("caf\xe9"))})})},
		}
		k := 0
		for _, p := range edge {
			for mode := 0; mode < 3; mode++ {
				for bs := 0; bs < 3; bs++ {
					k++
					c.addSer(p.t, p.v, serCfg{mode, k % 4, bs, (k / 3) % 4})
				}
			}
		}
	}
	// wave 6: a parameter list wider than 1024 members (theorems C03_json_roundtrip_wide* removed the width
	// guard: strconv.Itoa, the input walk's default key, and strconv.FormatInt, the serializer's default name,
	// agree at every index).  A string named "s" and 1030 unnamed uint8 (default names "1" .. "1030"): the
	// model's document must equal the implementation's (code 4), denote the value (13) and - Go side, with
	// the real strconv.Itoa - parse and encode back to the bytes (14).
	{
		kids := []*T{{K: kString, Name: "s"}}
		vs := []*V{vbytes([]byte("wide"))}
		for i := 1; i <= 1030; i++ {
			kids = append(kids, &T{K: kUint, M: 8})
			vs = append(vs, vnum(big.NewInt(int64((i*7+r.Intn(256))%256))))
		}
		t := &T{K: kTuple, Kids: kids}
		v := vlist(vs)
		c.addSer(t, v, serCfg{0, 1, 1, 3})
		c.addSer(t, v, serCfg{0, 3, 0, 0})
		c.addSer(t, v, serCfg{2, 0, 2, 1})
		st.Hit("ser:wide-tuple-1031")
	}
	st.Samples = append(st.Samples,
		"CDec (TCTuple [TCDynArr (TCTuple [TCElem EString ..; TCElem EUInt \"8\" 8 0 ..]) ..]) (VList [VList [VList [VBytes ..; VNum 255]]]) pre=4 bytes post=[]",
		"CRaw ((uint256,bytes)[]) word 2 (element offset) replaced by len+1",
		"CSer (mkser 0 3 1 3) (int256 n = -9007199254740992) objects/number-if-fits/0xhex/checksum")
}
