package main

// Part 3: directed search for a broken ATOMICITY of the discovery step (round 3, seed C17-2).
//
// The model's step "discover" (Wallet/Notify.v: notify_new_files) inserts the new addresses and
// snapshots the listeners in one atomic step; Properties/C17.v C17_discovery_steps_atomic checks on
// the translated source that this is one critical section.  When that obligation breaks, this part
// looks for the concrete failing history: many short trials of
//
//	{ Refresh (or the fs event loop) discovering 1-3 new addresses }  ||  { k goroutines, each after a
//	  calibrated delay:  before := GetAccounts(); AddListener(fresh channel); after := GetAccounts() }
//
// on a wallet that is reused for a round of trials (listeners and addresses accumulate), with the
// oracle, for every listener l and every address a listed at the end of the round:
//
//	a in before(l)      -> l receives a never       (it was listed before l registered)
//	a not in after(l)   -> l receives a exactly once (l was registered before a first appeared)
//	otherwise           -> at most once              (a appeared while l was registering)
//
// Every clause holds for every schedule of a wallet with the property (AddListener, GetAccounts and
// the discovery are serialised by the wallet mutex; deliveries are asynchronous, so "never received"
// is only declared after a deadline).  Bounded by a time budget, not by a trial count.

import (
	"context"
	"encoding/hex"
	"os"
	"path/filepath"
	"runtime"
	"sort"
	"sync"
	"time"

	"github.com/hyperledger/firefly-signer/pkg/ethtypes"
	"github.com/hyperledger/firefly-signer/pkg/fswallet"

	"verifharness/cv"
)

type directedCfg struct {
	Round    int    `json:"round"`
	Stream   uint64 `json:"stream"`
	Seed     int64  `json:"seed"`
	K        int    `json:"registrants"`
	Loop     int    `json:"registrations_per_registrant"`
	Procs    int    `json:"gomaxprocs"`
	Listener bool   `json:"listener"`
	Trials   int    `json:"trials"`
}

type dListener struct {
	ch     chan ethtypes.Address0xHex
	trial  int
	before map[string]bool
	after  map[string]bool
	got    map[string]int
}

type directedResult struct {
	fails     []map[string]interface{}
	trials    int
	mustPairs int // (listener, address) pairs in the "exactly once" class
	zeroPairs int // pairs in the "never" class
	midPairs  int // pairs in the "at most once" class
	lateRegs  int // listeners of a trial that registered after that trial's addresses were listed
	skipped   bool
}

func accountSet(w fswallet.Wallet, ctx context.Context) map[string]bool {
	accs, _ := w.GetAccounts(ctx)
	m := make(map[string]bool, len(accs))
	for _, a := range accs {
		m[hex.EncodeToString(a[:])] = true
	}
	return m
}

func spinFor(d time.Duration) {
	if d <= 0 {
		return
	}
	t0 := time.Now()
	for time.Since(t0) < d {
	}
}

var directedWait = 2 * time.Second

// runDirectedRound: one wallet, cfg.Trials trials
func runDirectedRound(cfg directedCfg) *directedResult {
	res := &directedResult{}
	old := runtime.GOMAXPROCS(cfg.Procs)
	defer runtime.GOMAXPROCS(old)
	r := cv.NewRand(cfg.Stream)
	dir, err := os.MkdirTemp("", "c17d")
	if err != nil {
		panic(err)
	}
	defer os.RemoveAll(dir)
	ctx := context.Background()
	wc := walletCfg{Listener: cfg.Listener, Regex: r.Bool(), Format: "none"}
	wc.Loose = wc.Regex && r.Bool()
	w, err := fswallet.NewFilesystemWallet(ctx, wc.conf(dir))
	if err != nil {
		panic(err)
	}
	if err := w.Initialize(ctx); err != nil {
		if envExhausted(err) {
			_ = closeWithDeadline(w, 5*time.Second)
			res.skipped = true
			return res
		}
		panic(err)
	}
	fail := func(what string, detail map[string]interface{}) {
		if len(res.fails) < 3 {
			res.fails = append(res.fails, map[string]interface{}{"what": what, "key": "", "kind": "directed", "config": cfg, "detail": detail})
		}
	}

	var listeners []*dListener
	var created []string          // addresses written so far, in order
	createdIn := map[string]int{} // address -> trial
	for trial := 0; trial < cfg.Trials; trial++ {
		// how long a Refresh of this directory takes right now (nothing new to discover)
		t0 := time.Now()
		_ = w.Refresh(ctx)
		dRefresh := time.Since(t0)
		if dRefresh > 2*time.Millisecond {
			dRefresh = 2 * time.Millisecond
		}
		nNew := 1 + r.Intn(3)
		names := make([]string, nNew)
		for i := range names {
			a := randHex(r, 20)
			names[i] = a + primaryExt
			if r.Intn(4) == 0 {
				names[i] = "0x" + names[i]
			}
			created = append(created, a)
			createdIn[a] = trial
		}
		if r.Intn(3) == 0 {
			// a name that carries no address (38 hex digits after a letter): ignored under every rule
			names = append(names, "g"+randHex(r, 19)+primaryExt)
		}
		writeFiles := func() {
			for _, n := range names {
				_ = os.WriteFile(filepath.Join(dir, n), []byte("{}"), 0o600)
			}
		}
		if !cfg.Listener {
			writeFiles()
		}
		span := dRefresh + dRefresh/3
		if cfg.Listener {
			span = 400 * time.Microsecond
		}
		start := make(chan struct{})
		var wg sync.WaitGroup
		wg.Add(1)
		go func() {
			defer wg.Done()
			<-start
			if cfg.Listener {
				writeFiles() // the fs event loop discovers
			} else {
				_ = w.Refresh(ctx)
			}
		}()
		regs := make([][]*dListener, cfg.K)
		for i := 0; i < cfg.K; i++ {
			delay := time.Duration(r.Intn(int(span) + 1))
			if !cfg.Listener && r.Bool() {
				// the critical sections of the discovery come after ReadDir / Info, at the end of a Refresh
				delay = dRefresh*6/10 + time.Duration(r.Intn(int(dRefresh*55/100)+1))
			}
			gosched := r.Intn(3) == 0
			regs[i] = make([]*dListener, cfg.Loop)
			for j := range regs[i] {
				regs[i][j] = &dListener{ch: make(chan ethtypes.Address0xHex, 4*cfg.Trials+8), trial: trial, got: map[string]int{}}
			}
			wg.Add(1)
			go func(i int) {
				defer wg.Done()
				<-start
				if gosched {
					runtime.Gosched()
				}
				spinFor(delay)
				for _, l := range regs[i] {
					l.before = accountSet(w, ctx)
					w.AddListener(l.ch)
					l.after = accountSet(w, ctx)
				}
			}(i)
		}
		close(start)
		wg.Wait()
		for i := range regs {
			listeners = append(listeners, regs[i]...)
		}
		res.trials++
	}

	// end of the round: everything written is discovered (a last Refresh covers what the event loop
	// may not have processed yet), then the deliveries are awaited
	_ = w.Refresh(ctx)
	final := accountSet(w, ctx)
	for _, a := range created {
		if !final[a] {
			fail("an address whose key file was written before a completed Refresh is not listed", map[string]interface{}{"address": a})
		}
	}
	var finalList []string
	for a := range final {
		finalList = append(finalList, a)
		if _, ok := createdIn[a]; !ok {
			fail("the account list holds an address no key file stands for", map[string]interface{}{"address": a})
		}
	}
	sort.Strings(finalList)
	type pair struct {
		l    *dListener
		a    string
		want int // 0 never, 1 exactly once, -1 at most once
	}
	var pairs []pair
	lateSeen := map[*dListener]bool{}
	for _, l := range listeners {
		for _, a := range finalList {
			switch {
			case l.before[a]:
				pairs = append(pairs, pair{l, a, 0})
				res.zeroPairs++
				if createdIn[a] == l.trial {
					lateSeen[l] = true
				}
			case !l.after[a]:
				pairs = append(pairs, pair{l, a, 1})
				res.mustPairs++
			default:
				pairs = append(pairs, pair{l, a, -1})
				res.midPairs++
			}
		}
	}
	res.lateRegs = len(lateSeen)
	drain := func() {
		for _, l := range listeners {
			for {
				select {
				case a := <-l.ch:
					l.got[hex.EncodeToString(a[:])]++
					continue
				default:
				}
				break
			}
		}
	}
	missing := func() int {
		n := 0
		for _, p := range pairs {
			if p.want == 1 && p.l.got[p.a] < 1 {
				n++
			}
		}
		return n
	}
	deadline := time.Now().Add(directedWait)
	for {
		drain()
		if missing() == 0 || time.Now().After(deadline) {
			break
		}
		time.Sleep(200 * time.Microsecond)
	}
	if missing() > 0 {
		directedWait = 300 * time.Millisecond // the first timeout is the finding; do not pay for it again
	}
	// a grace period for surplus deliveries: let the notifier goroutines that are still sending finish
	time.Sleep(2 * time.Millisecond)
	drain()
	idx := map[*dListener]int{}
	for i, l := range listeners {
		idx[l] = i
	}
	for _, p := range pairs {
		got := p.l.got[p.a]
		d := map[string]interface{}{"listener": idx[p.l], "registered_in_trial": p.l.trial, "address": p.a, "address_written_in_trial": createdIn[p.a], "deliveries": got,
			"listed_before_AddListener": p.l.before[p.a], "listed_right_after_AddListener": p.l.after[p.a]}
		switch {
		case p.want == 1 && got == 0:
			fail("a listener registered before the address first appeared (GetAccounts right after its AddListener did not list it) never received it", d)
		case p.want == 0 && got > 0:
			fail("a listener received an address that was already listed before it registered", d)
		case got > 1:
			fail("a listener received the same address twice", d)
		}
	}
	for _, l := range listeners {
		for a, n := range l.got {
			if !final[a] && n > 0 {
				fail("a listener received an address that is not in the account list", map[string]interface{}{"listener": idx[l], "address": a})
			}
		}
	}
	// a Refresh that cannot read the directory changes nothing
	_ = os.RemoveAll(dir)
	_ = w.Refresh(ctx)
	if after := accountSet(w, ctx); len(after) != len(final) {
		fail("a Refresh of a removed directory changed the account list", map[string]interface{}{"before": len(final), "after": len(after)})
	}
	if !closeWithDeadline(w, 10*time.Second) {
		fail("Close did not return", nil)
	}
	return res
}

// directedCfgFor: the schedule parameters of round n (a function of VERIF_SEED and n only)
func directedCfgFor(n int) directedCfg {
	r := cv.NewRand(uint64(9000 + n))
	procs := []int{2, 4, 8, runtime.NumCPU()}[r.Intn(4)]
	if procs > runtime.NumCPU() {
		procs = runtime.NumCPU()
	}
	cfg := directedCfg{Round: n, Stream: uint64(9500 + n), Seed: cv.Seed(), K: 2 + r.Intn(7), Loop: 1 + r.Intn(3), Procs: procs, Listener: n%5 == 4, Trials: 12}
	if cfg.K > 2*procs {
		cfg.K = 2 * procs
	}
	return cfg
}

// runDirected: rounds until the budget is used up or three findings were made
func runDirected(budget time.Duration, st *cv.Stats) {
	t0 := time.Now()
	rounds := 0
	for n := 0; time.Since(t0) < budget && len(st.ImplFailures) < 20; n++ {
		cfg := directedCfgFor(n)
		res := runDirectedRound(cfg)
		if res.skipped {
			st.Hit("env/inotify-instances-exhausted (directed round skipped)")
			continue
		}
		rounds++
		st.Distribution["directed/rounds"]++
		st.Distribution["directed/trials"] += res.trials
		st.Distribution["directed/pairs-registered-before-discovery (exactly once)"] += res.mustPairs
		st.Distribution["directed/pairs-listed-before-registration (never)"] += res.zeroPairs
		st.Distribution["directed/pairs-appeared-while-registering (at most once)"] += res.midPairs
		st.Distribution["directed/listeners-registered-after-their-trial's-discovery"] += res.lateRegs
		if cfg.Listener {
			st.Distribution["directed/rounds-with-fs-listener"]++
		}
		found := 0
		for _, f := range res.fails {
			st.ImplFailures = append(st.ImplFailures, f)
			found++
		}
		if found > 0 {
			break
		}
	}
	st.Extra["directed_rounds"] = rounds
	st.Extra["directed_trials"] = st.Distribution["directed/trials"]
	st.Extra["directed_seconds"] = time.Since(t0).Seconds()
}
