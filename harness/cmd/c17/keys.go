package main

import (
	"crypto/aes"
	"crypto/cipher"
	"encoding/hex"
	"encoding/json"
	"fmt"

	"github.com/btcsuite/btcd/btcec/v2"
	"golang.org/x/crypto/scrypt"
	"golang.org/x/crypto/sha3"

	"verifharness/cv"
)

func keccak(parts ...[]byte) []byte {
	h := sha3.NewLegacyKeccak256()
	for _, p := range parts {
		h.Write(p)
	}
	return h.Sum(nil)
}

type keyT struct {
	priv     []byte
	addr     []byte // 20 bytes
	password []byte
	file     []byte // Keystore V3 JSON, scrypt N=2
}

func (k *keyT) hex() string { return hex.EncodeToString(k.addr) }

func addrOfPriv(priv []byte) []byte {
	_, pub := btcec.PrivKeyFromBytes(priv)
	return keccak(pub.SerializeUncompressed()[1:])[12:]
}

func newKey(r *cv.Rand) *keyT {
	p := r.Bytes(32)
	p[0] &= 0x7f // below the group order
	if p[0] == 0 && p[1] == 0 {
		p[1] = 1
	}
	k := &keyT{priv: p, addr: addrOfPriv(p), password: []byte(fmt.Sprintf("pw-%x", r.Bytes(4)))}
	k.file = v3Write(r, k.priv, k.password, k.addr)
	return k
}

type v3File struct {
	Address string `json:"address,omitempty"`
	ID      string `json:"id"`
	Version int    `json:"version"`
	Crypto  struct {
		Cipher       string `json:"cipher"`
		CipherText   string `json:"ciphertext"`
		CipherParams struct {
			IV string `json:"iv"`
		} `json:"cipherparams"`
		KDF       string `json:"kdf"`
		KDFParams struct {
			DKLen int    `json:"dklen"`
			N     int    `json:"n"`
			P     int    `json:"p"`
			R     int    `json:"r"`
			Salt  string `json:"salt"`
		} `json:"kdfparams"`
		MAC string `json:"mac"`
	} `json:"crypto"`
}

func aesCTR(key, iv, in []byte) []byte {
	block, err := aes.NewCipher(key)
	if err != nil {
		panic(err)
	}
	out := make([]byte, len(in))
	cipher.NewCTR(block, iv).XORKeyStream(out, in)
	return out
}

// v3Write: Web3 Secret Storage V3 with scrypt N=2, r=8, p=1 (tiny cost so that signing stays fast)
func v3Write(r *cv.Rand, priv []byte, password []byte, claimedAddr []byte) []byte {
	salt := r.Bytes(32)
	iv := r.Bytes(16)
	dk, err := scrypt.Key(password, salt, 2, 8, 1, 32)
	if err != nil {
		panic(err)
	}
	ct := aesCTR(dk[:16], iv, priv)
	var f v3File
	f.Address = hex.EncodeToString(claimedAddr)
	u := r.Bytes(16)
	u[6] = (u[6] & 0x0f) | 0x40
	u[8] = (u[8] & 0x3f) | 0x80
	f.ID = fmt.Sprintf("%x-%x-%x-%x-%x", u[0:4], u[4:6], u[6:8], u[8:10], u[10:16])
	f.Version = 3
	f.Crypto.Cipher = "aes-128-ctr"
	f.Crypto.CipherText = hex.EncodeToString(ct)
	f.Crypto.CipherParams.IV = hex.EncodeToString(iv)
	f.Crypto.KDF = "scrypt"
	f.Crypto.KDFParams.DKLen = 32
	f.Crypto.KDFParams.N = 2
	f.Crypto.KDFParams.P = 1
	f.Crypto.KDFParams.R = 8
	f.Crypto.KDFParams.Salt = hex.EncodeToString(salt)
	f.Crypto.MAC = hex.EncodeToString(keccak(dk[16:32], ct))
	b, _ := json.Marshal(&f)
	return b
}
