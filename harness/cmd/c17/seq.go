package main

// Part 1: sequential histories through the public API of pkg/fswallet on real temp directories,
// written as cases for the Coq evaluator Wallet/NotifyRun.v (model = Wallet/Notify.v).

import (
	"context"
	"encoding/hex"
	"encoding/json"
	"fmt"
	"os"
	"path/filepath"
	"regexp"
	"sort"
	"strings"
	"sync/atomic"
	"time"

	"github.com/hyperledger/firefly-signer/pkg/eip712"
	"github.com/hyperledger/firefly-signer/pkg/ethsigner"
	"github.com/hyperledger/firefly-signer/pkg/ethtypes"
	"github.com/hyperledger/firefly-signer/pkg/fswallet"

	"verifharness/cv"
)

const primaryExt = ".key.json"
const matchRegex = `^((0x)?[0-9a-fA-F]{40})\.key\.json$`

var nameRe = regexp.MustCompile(`^(0x)?([0-9a-fA-F]{40})$`)

// nameAddr: the address a directory entry stands for — written from the documented naming rule,
// independent of fswallet.matchFilename: a regular file called [0x]<40 hex digits><ext>.
func nameAddr(name string, isDir bool) (string, bool) {
	if isDir || !strings.HasSuffix(name, primaryExt) {
		return "", false
	}
	m := nameRe.FindStringSubmatch(strings.TrimSuffix(name, primaryExt))
	if m == nil {
		return "", false
	}
	return strings.ToLower(m[2]), true
}

type walletCfg struct {
	Listener bool   `json:"listener"`
	Regex    bool   `json:"regex"`
	Format   string `json:"metadata_format"`
	Loose    bool   `json:"loose_regex,omitempty"` // Part 3 only: a capture group that also matches non-addresses
}

// a regex whose capture group also matches names that are not addresses: those files have to be
// ignored (ethtypes.NewAddress fails), so the address function is still nameAddr
const looseRegex = `^(.+)\.key\.json$`

func (c walletCfg) conf(dir string) *fswallet.Config {
	cf := &fswallet.Config{
		Path:            dir,
		SignerCacheSize: "250",
		SignerCacheTTL:  "24h",
		DisableListener: !c.Listener,
		Filenames:       fswallet.FilenamesConfig{PrimaryExt: primaryExt, PasswordExt: ".pwd", PasswordTrimSpace: true},
		Metadata:        fswallet.MetadataConfig{Format: c.Format},
	}
	if c.Regex {
		cf.Filenames.PrimaryMatchRegex = matchRegex
		if c.Loose {
			cf.Filenames.PrimaryMatchRegex = looseRegex
		}
	}
	return cf
}

type listenerRec struct {
	id   int
	ch   chan ethtypes.Address0xHex
	recv []string // hex addresses received so far
}

type history struct {
	cfg        walletCfg
	dir        string
	w          fswallet.Wallet
	ctx        context.Context
	files      []string // fid-1 -> name
	isDir      map[string]bool
	addrIdx    map[string]int // hex address -> small number
	addrs      []string
	listeners  []*listenerRec
	initl      []int
	known      map[string]bool // addresses the wallet must have seen (wait target only)
	expected   int             // deliveries that must eventually arrive (wait target only)
	received   int
	steps      []string // Coq hsteps
	desc       []interface{}
	slow       *bool
	fails      []map[string]interface{}
	deliveries int
}

func (h *history) addrNum(a string) int {
	if n, ok := h.addrIdx[a]; ok {
		return n
	}
	n := len(h.addrs) + 1
	h.addrIdx[a] = n
	h.addrs = append(h.addrs, a)
	return n
}

func (h *history) fail(what string, detail interface{}) {
	h.fails = append(h.fails, map[string]interface{}{"what": what, "key": "", "kind": "history", "config": h.cfg, "detail": detail, "steps": h.desc})
}

func nums(xs []int) string {
	s := make([]string, len(xs))
	for i, x := range xs {
		s[i] = fmt.Sprint(x)
	}
	return "[" + strings.Join(s, "; ") + "]"
}

// listing: what os.ReadDir returns — every entry, sorted by name — as file ids
func (h *history) listing() []int {
	names := append([]string{}, h.files...)
	sort.Strings(names)
	ids := make([]int, len(names))
	for i, n := range names {
		for k, f := range h.files {
			if f == n {
				ids[i] = k + 1
			}
		}
	}
	return ids
}

func (h *history) noteDiscovery(names []string) {
	for _, n := range names {
		if a, ok := nameAddr(n, h.isDir[n]); ok && !h.known[a] {
			h.known[a] = true
			h.expected += len(h.listeners)
		}
	}
}

func (h *history) create(name string, content []byte, dir bool) {
	p := filepath.Join(h.dir, name)
	var err error
	if dir {
		err = os.Mkdir(p, 0o755)
	} else {
		err = os.WriteFile(p, content, 0o644)
	}
	if err != nil {
		panic(err)
	}
	h.files = append(h.files, name)
	h.isDir[name] = dir
	fid := len(h.files)
	h.steps = append(h.steps, fmt.Sprintf("HCreate %d", fid))
	h.desc = append(h.desc, map[string]interface{}{"op": "create", "fid": fid, "name": name, "dir": dir})
	if h.cfg.Listener {
		// the fs listener will pick it up: wait until its effect is visible, then it is an HEvent
		if a, ok := nameAddr(name, dir); ok {
			deadline := time.Now().Add(patience(10 * time.Second))
			seen := false
			for !seen && time.Now().Before(deadline) {
				acc, _ := h.w.GetAccounts(h.ctx)
				for _, x := range acc {
					if hex.EncodeToString(x[:]) == a {
						seen = true
					}
				}
				if !seen {
					time.Sleep(2 * time.Millisecond)
				}
			}
			if !seen {
				slowMode.Store(true)
				h.fail("the file-system event for a created matching key file was never reflected in GetAccounts", map[string]interface{}{"name": name})
			}
		} else {
			time.Sleep(3 * time.Millisecond)
		}
		h.noteDiscovery([]string{name})
		h.steps = append(h.steps, fmt.Sprintf("HEvent %d", fid))
	}
}

func (h *history) refresh() {
	if err := h.w.Refresh(h.ctx); err != nil {
		h.fail("Refresh returned an error on an existing directory", err.Error())
	}
	l := h.listing()
	h.noteDiscovery(h.files)
	h.steps = append(h.steps, "HRefresh "+nums(l))
	h.desc = append(h.desc, map[string]interface{}{"op": "refresh", "listing": l})
}

func (h *history) addListener() {
	l := &listenerRec{id: 100 + len(h.listeners), ch: make(chan ethtypes.Address0xHex, 512)}
	h.w.AddListener(l.ch)
	h.listeners = append(h.listeners, l)
	h.steps = append(h.steps, fmt.Sprintf("HAddListener %d", l.id))
	h.desc = append(h.desc, map[string]interface{}{"op": "addListener", "lid": l.id})
}

func (h *history) accounts() []string {
	acc, err := h.w.GetAccounts(h.ctx)
	if err != nil {
		h.fail("GetAccounts returned an error", err.Error())
	}
	var ns []int
	var hs []string
	for _, a := range acc {
		s := hex.EncodeToString(a[:])
		hs = append(hs, s)
		ns = append(ns, h.addrNum(s))
	}
	h.steps = append(h.steps, "HAccounts "+nums(ns))
	h.desc = append(h.desc, map[string]interface{}{"op": "getAccounts", "result": hs})
	return hs
}

// drain: quiescent point — wait for the deliveries that must come, then a little longer for any that must not
func (h *history) drain() {
	deadline := time.Now().Add(patience(8 * time.Second))
	poll := func() bool {
		got := false
		for _, l := range h.listeners {
			for {
				select {
				case a := <-l.ch:
					l.recv = append(l.recv, hex.EncodeToString(a[:]))
					h.received++
					h.deliveries++
					got = true
					continue
				default:
				}
				break
			}
		}
		return got
	}
	for h.received < h.expected && time.Now().Before(deadline) {
		if !poll() {
			time.Sleep(time.Millisecond)
		}
	}
	if h.received < h.expected {
		slowMode.Store(true)
	}
	idle := time.Now()
	for time.Since(idle) < 15*time.Millisecond {
		if poll() {
			idle = time.Now()
		} else {
			time.Sleep(2 * time.Millisecond)
		}
	}
	var parts []string
	d := map[string]interface{}{}
	for _, l := range h.listeners {
		var ns []int
		for _, a := range l.recv {
			ns = append(ns, h.addrNum(a))
		}
		parts = append(parts, fmt.Sprintf("(%d, %s)", l.id, nums(ns)))
		d[fmt.Sprint(l.id)] = append([]string{}, l.recv...)
	}
	h.steps = append(h.steps, "HDrain ["+strings.Join(parts, "; ")+"]")
	h.desc = append(h.desc, map[string]interface{}{"op": "drain", "received": d})
}

func (h *history) sign(k *keyT) {
	var a ethtypes.Address0xHex
	copy(a[:], k.addr)
	from, _ := json.Marshal("0x" + k.hex())
	_, err1 := h.w.Sign(h.ctx, &ethsigner.Transaction{From: from, Nonce: ethtypes.NewHexInteger64(1), GasLimit: ethtypes.NewHexInteger64(21000), GasPrice: ethtypes.NewHexInteger64(1)}, 1)
	_, err2 := h.w.SignTypedDataV4(h.ctx, a, &eip712.TypedData{PrimaryType: eip712.EIP712Domain})
	if err1 != nil || err2 != nil {
		h.fail("Sign / SignTypedDataV4 failed for a discovered key file with a valid password file", fmt.Sprintf("%v / %v", err1, err2))
	}
	h.desc = append(h.desc, map[string]interface{}{"op": "sign", "address": k.hex()})
}

// once some wait has timed out the implementation is broken anyway: keep the remaining waits short
var slowMode atomic.Bool

func patience(d time.Duration) time.Duration {
	if slowMode.Load() {
		d /= 20
		if d < 300*time.Millisecond {
			d = 300 * time.Millisecond
		}
	}
	return d
}

// the box is shared: when the per-user inotify instances (128) are used up by other processes the
// watcher cannot be created — an environment condition, not a property failure
func envExhausted(err error) bool {
	return err != nil && (strings.Contains(err.Error(), "too many open files") || strings.Contains(err.Error(), "no space left on device"))
}

func closeWithDeadline(w fswallet.Wallet, d time.Duration) bool {
	d = patience(d)
	done := make(chan struct{})
	go func() { _ = w.Close(); close(done) }()
	select {
	case <-done:
		return true
	case <-time.After(d):
		slowMode.Store(true)
		return false
	}
}

func randHex(r *cv.Rand, n int) string { return hex.EncodeToString(r.Bytes(n)) }

// runHistory performs one random history and returns the Coq term, the JSON description, failures
func runHistory(r *cv.Rand, cfg walletCfg, pool []*keyT, slow *bool, st *cv.Stats) (string, interface{}, []map[string]interface{}, bool) {
	dir, err := os.MkdirTemp("", "c17h")
	if err != nil {
		panic(err)
	}
	defer os.RemoveAll(dir)
	h := &history{cfg: cfg, dir: dir, ctx: context.Background(), isDir: map[string]bool{}, addrIdx: map[string]int{}, known: map[string]bool{}, slow: slow}
	nInit := r.Intn(3)
	var chans []chan<- ethtypes.Address0xHex
	for i := 0; i < nInit; i++ {
		l := &listenerRec{id: 100 + i, ch: make(chan ethtypes.Address0xHex, 512)}
		h.listeners = append(h.listeners, l)
		h.initl = append(h.initl, l.id)
		chans = append(chans, l.ch)
	}
	// files present before the wallet starts
	type pre struct {
		name string
		dir  bool
	}
	var pres []pre
	usedAddr := []string{}
	contentOf := map[string][]byte{}
	newName := func() (string, []byte, bool) {
		switch k := r.Intn(12); {
		case k < 4: // fresh address, plain spelling
			a := randHex(r, 20)
			usedAddr = append(usedAddr, a)
			return a + primaryExt, []byte("{}"), false
		case k < 6 && len(usedAddr) > 0: // another spelling of a used address
			a := usedAddr[r.Intn(len(usedAddr))]
			content := []byte("{}")
			if c, ok := contentOf[a]; ok {
				content = c // another spelling of the real key's address holds the same key
			}
			if r.Bool() {
				return "0x" + a + primaryExt, content, false
			}
			return strings.ToUpper(a) + primaryExt, content, false
		case k < 7:
			a := randHex(r, 20)
			usedAddr = append(usedAddr, a)
			return "0x" + a + primaryExt, []byte("{}"), false
		case k < 8:
			return randHex(r, 20) + ".pwd", []byte("x"), false
		case k < 9:
			return randHex(r, 19) + "f" + primaryExt[:len(primaryExt)-1], []byte("{}"), false // .key.jso
		case k < 10:
			return randHex(r, 19) + primaryExt, []byte("{}"), false // 38 hex digits
		case k < 11:
			return randHex(r, 20) + primaryExt, nil, true // a directory with a matching name
		default:
			return "README-" + randHex(r, 2) + ".txt", []byte("hello"), false
		}
	}
	exists := map[string]bool{}
	nPre := r.Intn(4)
	for i := 0; i < nPre; i++ {
		n, _, d := newName()
		if exists[n] {
			continue
		}
		exists[n] = true
		pres = append(pres, pre{n, d})
	}
	for _, p := range pres {
		full := filepath.Join(dir, p.name)
		if p.dir {
			_ = os.Mkdir(full, 0o755)
		} else {
			_ = os.WriteFile(full, []byte("{}"), 0o644)
		}
		h.files = append(h.files, p.name)
		h.isDir[p.name] = p.dir
		h.steps = append(h.steps, fmt.Sprintf("HCreate %d", len(h.files)))
		h.desc = append(h.desc, map[string]interface{}{"op": "create-before-start", "fid": len(h.files), "name": p.name, "dir": p.dir})
	}
	w, err := fswallet.NewFilesystemWallet(h.ctx, cfg.conf(dir), chans...)
	if err != nil {
		panic(err)
	}
	h.w = w
	if err := w.Initialize(h.ctx); err != nil {
		if envExhausted(err) {
			st.Hit("env/inotify-instances-exhausted (history skipped)")
			_ = closeWithDeadline(w, 5*time.Second)
			return "", nil, nil, false
		}
		h.fail("Initialize failed on an existing directory", err.Error())
		return "", nil, h.fails, false
	}
	// Initialize = Refresh of what is there
	if len(h.files) > 0 {
		h.noteDiscovery(h.files)
	}
	h.steps = append(h.steps, "HRefresh "+nums(h.listing()))
	h.desc = append(h.desc, map[string]interface{}{"op": "initialize", "listing": h.listing()})

	var realKey *keyT
	nSteps := 8 + r.Intn(9)
	for i := 0; i < nSteps; i++ {
		switch k := r.Intn(20); {
		case k < 7:
			n, c, d := newName()
			if exists[n] {
				continue
			}
			exists[n] = true
			h.create(n, c, d)
			st.Hit("seq/op=create")
		case k < 8 && realKey == nil && len(pool) > 0:
			realKey = pool[r.Intn(len(pool))]
			if exists[realKey.hex()+primaryExt] {
				realKey = nil
				continue
			}
			exists[realKey.hex()+primaryExt] = true
			h.create(realKey.hex()+".pwd", append(append([]byte{}, realKey.password...), '\n'), false)
			h.create(realKey.hex()+primaryExt, realKey.file, false)
			usedAddr = append(usedAddr, realKey.hex())
			contentOf[realKey.hex()] = realKey.file
			st.Hit("seq/op=create-real-key")
		case k < 11:
			h.refresh()
			st.Hit("seq/op=refresh")
		case k < 14:
			h.addListener()
			st.Hit("seq/op=addListener")
		case k < 17:
			h.accounts()
			st.Hit("seq/op=getAccounts")
		case k < 18:
			h.accounts()
			h.drain()
			st.Hit("seq/op=drain")
		default:
			if realKey != nil && h.known[realKey.hex()] {
				h.sign(realKey)
				st.Hit("seq/op=sign")
			}
		}
	}
	h.refresh()
	final := h.accounts()
	h.drain()
	if realKey != nil {
		h.sign(realKey)
	}
	if !closeWithDeadline(w, 10*time.Second) {
		h.fail("Close did not return within 10 s", nil)
	}
	// table: file id -> address number
	var tab []string
	for i, n := range h.files {
		if a, ok := nameAddr(n, h.isDir[n]); ok {
			tab = append(tab, fmt.Sprintf("(%d, Some %d)", i+1, h.addrNum(a)))
		} else {
			tab = append(tab, fmt.Sprintf("(%d, None)", i+1))
		}
	}
	term := fmt.Sprintf("Hist %v [%s] %s [%s]", !cfg.Listener, strings.Join(tab, "; "), nums(h.initl), strings.Join(h.steps, "; "))
	desc := map[string]interface{}{"kind": "history", "config": cfg, "files": h.files, "addresses": h.addrs, "initial_listeners": h.initl, "steps": h.desc}
	nontrivial := len(final) > 0 && h.deliveries > 0
	return term, desc, h.fails, nontrivial
}
