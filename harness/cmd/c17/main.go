// Harness for C17 (wallet discovery is race-free and notifies each new address exactly once).
//
// Part 1 (seq.go): sequential histories through the public API of pkg/fswallet on real temp
// directories, written as Coq cases for Wallet/NotifyRun.v (the Notify model replays them).
// Part 2 (stress.go): schedule search — a stress driver whose Go-side oracles and (in a -race
// build) the race detector provide the concrete failing schedule when an obligation breaks.
package main

import (
	"encoding/json"
	"flag"
	"fmt"
	"io"
	"os"
	"os/exec"
	"path/filepath"
	"regexp"
	"sort"
	"strings"
	"time"

	"github.com/sirupsen/logrus"

	"verifharness/cv"
)

const header = "From Coq Require Import List NArith.\nFrom FFS Require Import Wallet.Notify Wallet.NotifyRun.\nImport ListNotations.\nOpen Scope N_scope."

func writeCurrent(out string, v interface{}) {
	b, _ := json.Marshal(v)
	_ = os.WriteFile(filepath.Join(out, "current_case.json"), b, 0o644)
}

// ---- race detector reports -----------------------------------------------------------------

var frameRe = regexp.MustCompile(`^\s+(\S+)\(\)$`)

// parseRaceReports returns one finding per distinct set of pkg/fswallet frames on the access stacks
func parseRaceReports(glob string) []map[string]interface{} {
	files, _ := filepath.Glob(glob)
	sort.Strings(files)
	seen := map[string]bool{}
	var out []map[string]interface{}
	for _, f := range files {
		b, err := os.ReadFile(f)
		if err != nil {
			continue
		}
		for _, rep := range strings.Split(string(b), "==================") {
			if !strings.Contains(rep, "WARNING: DATA RACE") {
				continue
			}
			// stanzas: "Read at", "Previous write at", ... (the two conflicting accesses); stop at "Goroutine"
			var tops []string // the innermost pkg/fswallet frame of each of the two access stacks
			var lines []string
			inAccess := false
			haveTop := false
			for _, ln := range strings.Split(rep, "\n") {
				t := strings.TrimSpace(ln)
				switch {
				case strings.HasPrefix(t, "Read at"), strings.HasPrefix(t, "Write at"), strings.HasPrefix(t, "Previous read at"),
					strings.HasPrefix(t, "Previous write at"), strings.HasPrefix(t, "Atomic"), strings.HasPrefix(t, "Previous atomic"):
					inAccess = true
					haveTop = false
					lines = append(lines, t)
					continue
				case strings.HasPrefix(t, "Goroutine"), strings.HasPrefix(t, "Location"):
					inAccess = false
				}
				if inAccess {
					if m := frameRe.FindStringSubmatch(ln); m != nil {
						lines = append(lines, "  "+m[1])
						if strings.Contains(m[1], "/pkg/fswallet.") && !haveTop {
							tops = append(tops, m[1])
							haveTop = true
						}
					} else if strings.Contains(t, "pkg/fswallet/") {
						lines = append(lines, "    "+t)
					}
				}
			}
			if len(tops) == 0 {
				continue // a race inside the harness or a library only: not a finding about pkg/fswallet
			}
			sort.Strings(tops)
			key := strings.Join(tops, "|")
			if seen[key] {
				continue
			}
			seen[key] = true
			if len(lines) > 30 {
				lines = lines[:30]
			}
			out = append(out, map[string]interface{}{
				"what":   "data race reported by the Go race detector with frames in pkg/fswallet",
				"key":    "",
				"kind":   "race",
				"frames": lines,
			})
		}
	}
	return out
}

func main() {
	out := flag.String("out", "", "output directory")
	tier := flag.String("tier", "quick", "quick|thorough")
	replay := flag.String("replay", "", "replay file written by ./check")
	flag.Parse()
	if *out == "" {
		fmt.Fprintln(os.Stderr, "c17: -out required")
		os.Exit(2)
	}
	_ = os.MkdirAll(*out, 0o755)

	// A race-enabled build re-executes itself with GORACE pointing at a log file (the variable is
	// only read at process start) and then turns the reports into findings.
	if raceEnabled && os.Getenv("C17_CHILD") == "" {
		logBase := filepath.Join(*out, "race_report")
		cmd := exec.Command(os.Args[0], os.Args[1:]...)
		cmd.Env = append(os.Environ(), "C17_CHILD=1", "GORACE=halt_on_error=0 exitcode=0 log_path="+logBase)
		cmd.Stdout, cmd.Stderr = os.Stdout, os.Stderr
		err := cmd.Run()
		races := parseRaceReports(logBase + ".*")
		sp := filepath.Join(*out, "stats_C17.json")
		var st map[string]interface{}
		if b, rerr := os.ReadFile(sp); rerr == nil && json.Unmarshal(b, &st) == nil {
			fl, _ := st["impl_oracle_failures"].([]interface{})
			for _, r := range races {
				fl = append(fl, r)
			}
			st["impl_oracle_failures"] = fl
			if ex, ok := st["extra"].(map[string]interface{}); ok {
				ex["race_detector"] = "on"
				ex["race_reports_in_fswallet"] = len(races)
			}
			b, _ := json.MarshalIndent(st, "", " ")
			_ = os.WriteFile(sp, b, 0o644)
		}
		if err != nil {
			fmt.Fprintln(os.Stderr, "c17: child failed:", err)
			os.Exit(1)
		}
		return
	}

	logrus.SetOutput(io.Discard)
	logrus.SetLevel(logrus.PanicLevel)
	thorough := *tier == "thorough"
	st := cv.NewStats()
	t0 := time.Now()

	master := cv.NewRand(17)
	pool := make([]*keyT, 8)
	for i := range pool {
		pool[i] = newKey(master)
	}

	if *replay != "" {
		doReplay(*replay, pool)
		return
	}

	// ---------------- Part 1: sequential histories ----------------
	w := cv.NewWriter(*out, "C17", header, "case", "mismatches", 16)
	nOff, nOn := 150, 30
	if thorough {
		nOff, nOn = 3000, 400
	}
	if raceEnabled {
		nOff, nOn = nOff*2/3, nOn*2/3
	}
	only := os.Getenv("C17_ONLY") // development aid: "directed" runs Part 3 alone
	if only == "directed" {
		nOff, nOn = 0, 0
	}
	slow := false
	formats := []string{"auto", "none", "AUTO"}
	nontrivial := 0
	for i := 0; i < nOff+nOn; i++ {
		r := cv.NewRand(uint64(1000 + i))
		cfg := walletCfg{Listener: i >= nOff, Regex: r.Intn(3) == 0, Format: formats[r.Intn(len(formats))]}
		if len(st.ImplFailures) >= 12 {
			break // broken beyond doubt: do not spend the time budget on more of the same
		}
		writeCurrent(*out, map[string]interface{}{"kind": "history", "index": i, "config": cfg})
		term, desc, fails, nt := runHistory(r, cfg, pool, &slow, st)
		for _, f := range fails {
			f["index"] = i
			if len(st.ImplFailures) < 20 {
				st.ImplFailures = append(st.ImplFailures, f)
			}
		}
		if term == "" {
			continue
		}
		if d, ok := desc.(map[string]interface{}); ok {
			d["index"] = i
		}
		w.Add(term, desc)
		if nt {
			nontrivial++
		}
		st.Hit(fmt.Sprintf("seq/listener=%v/regex=%v/format=%s", cfg.Listener, cfg.Regex, cfg.Format))
		if i == 0 || i == nOff {
			st.Samples = append(st.Samples, map[string]interface{}{"coq": term, "description": desc})
		}
	}
	if err := w.Flush(); err != nil {
		panic(err)
	}
	tSeq := time.Since(t0)

	// ---------------- Part 2: schedule search ----------------
	type combo struct {
		g, procs int
		listener bool
		format   string
		early    bool
	}
	var combos []combo
	gs := []int{2, 4, 8, 32}
	ps := []int{1, 2, 4, 16}
	if thorough {
		for rep := 0; rep < 6; rep++ {
			for _, g := range gs {
				for _, p := range ps {
					for _, l := range []bool{false, true} {
						for _, f := range []string{"auto", "none"} {
							combos = append(combos, combo{g, p, l, f, (g+p+rep)%3 == 0})
						}
					}
				}
			}
		}
	} else {
		// a Latin-square style subset: every G and every GOMAXPROCS with both listener settings
		k := 0
		for gi, g := range gs {
			for pi, p := range ps {
				if (gi+pi)%2 == int(cv.Seed())%2 || g == 32 || p == 1 {
					combos = append(combos, combo{g, p, k%2 == 0, []string{"auto", "none"}[(k/2)%2], k%5 == 4})
					k++
				}
			}
		}
	}
	if only == "directed" {
		combos = nil
	}
	ops := 40
	if thorough {
		ops = 80
	}
	runs := 0
	for i, c := range combos {
		o := ops
		if c.g >= 32 {
			o = ops / 2
		}
		cfg := stressCfg{G: c.g, Procs: c.procs, Listener: c.listener, Format: c.format, Ops: o, CloseEarly: c.early, Stream: uint64(5000 + i), Seed: cv.Seed()}
		if len(st.ImplFailures) >= 16 {
			break
		}
		writeCurrent(*out, map[string]interface{}{"kind": "stress", "config": cfg})
		res := runStress(cfg, pool)
		if res.skipped {
			st.Hit("env/inotify-instances-exhausted (stress run skipped)")
			continue
		}
		runs++
		if res.fatal {
			st.ImplFailures = append(st.ImplFailures, res.fails[len(res.fails)-1])
			break // goroutines of the wallet are stuck: nothing more to learn, and they would distort later runs
		}
		for _, f := range res.fails {
			if len(st.ImplFailures) < 20 {
				st.ImplFailures = append(st.ImplFailures, f)
			}
		}
		st.Hit(fmt.Sprintf("stress/G=%d/procs=%d/listener=%v/format=%s/closeEarly=%v", c.g, c.procs, c.listener, c.format, c.early))
		for k, v := range res.ops {
			st.Distribution["stress/op="+k] += v
		}
		st.Distribution["stress/deliveries"] += res.deliveries
		st.Distribution["stress/accounts"] += res.accounts
		st.Distribution["stress/listeners"] += res.listeners
		st.Distribution["stress/must-deliver-pairs-checked"] += res.mustPairs
		if i == 0 {
			st.Samples = append(st.Samples, map[string]interface{}{"stress": cfg, "accounts": res.accounts, "listeners": res.listeners, "deliveries": res.deliveries, "must_deliver_pairs": res.mustPairs})
		}
	}

	// ---------------- Part 3: directed search for a split discovery step ----------------
	if len(st.ImplFailures) < 16 {
		budget := 4 * time.Second
		if thorough {
			budget = 40 * time.Second
		}
		writeCurrent(*out, map[string]interface{}{"kind": "directed", "config": directedCfgFor(0)})
		runDirected(budget, st)
	}
	dRounds, _ := st.Extra["directed_rounds"].(int)
	runs += dRounds

	st.Evaluations = w.Count() + runs
	st.Distinct = nontrivial + runs
	st.Rule = "Part 1: random sequential histories (8-16 steps + epilogue) over {create file: fresh address / second spelling 0x.. or upper case of a used address / real key file + password file / non-matching names (.pwd, 38 hex digits, .key.jso, README) / directory with a matching name; Refresh; AddListener; GetAccounts; drain; Sign+SignTypedDataV4} x {listener disabled (exact order compared) | enabled (sets compared at quiescent points)} x {extension rule | capture-group regex} x {metadata auto | AUTO | none}, 0-2 initial listeners, 0-3 files before start; non-trivial = at least one account discovered and one delivery. Part 2: stress runs with G goroutines x GOMAXPROCS x listener on/off x metadata format, ops {create, second spelling, real key, non-matching, Refresh, GetAccounts, AddListener, Sign, SignTypedDataV4, GetWalletFile}, Close (also concurrent and while running) with deadline; oracles: duplicate-account, disappearing account, no-convergence (with and without final Refresh), missing-delivery (listener registered before the address's first file was written), duplicate-delivery, phantom-delivery, close-does-not-return, sign failure for a listed key, deadlock (workers not finishing); race-detector reports with pkg/fswallet frames when built with -race. Part 3 (time budget 4 s / 40 s): directed rounds on one reused wallet, 12 trials each of {Refresh or the fs event loop discovering 1-3 new addresses} || {2-8 goroutines, after a delay drawn from the measured duration of a Refresh: GetAccounts; AddListener(fresh channel) x1-3; GetAccounts} under GOMAXPROCS 2..NumCPU; oracle per (listener, address): listed before AddListener -> never delivered, not listed right after AddListener -> delivered exactly once, otherwise at most once; no phantom delivery; Close returns."
	st.Extra["seq_histories"] = w.Count()
	st.Extra["stress_runs"] = runs
	st.Extra["seq_seconds"] = tSeq.Seconds()
	st.Extra["total_seconds"] = time.Since(t0).Seconds()
	st.Extra["race_detector"] = map[bool]string{true: "on", false: "off"}[raceEnabled]
	if err := st.Write(filepath.Join(*out, "stats_C17.json")); err != nil {
		panic(err)
	}
	_ = os.Remove(filepath.Join(*out, "current_case.json"))
}

// doReplay re-runs the history or stress configuration named in a ./check replay file
func doReplay(path string, pool []*keyT) {
	b, err := os.ReadFile(path)
	if err != nil {
		panic(err)
	}
	var rf struct {
		Case json.RawMessage `json:"case"`
	}
	_ = json.Unmarshal(b, &rf)
	var c struct {
		Kind   string          `json:"kind"`
		Index  int             `json:"index"`
		Config json.RawMessage `json:"config"`
	}
	_ = json.Unmarshal(rf.Case, &c)
	switch c.Kind {
	case "history":
		var cfg walletCfg
		_ = json.Unmarshal(c.Config, &cfg)
		slow := false
		term, desc, fails, _ := runHistory(cv.NewRand(uint64(1000+c.Index)), cfg, pool, &slow, cv.NewStats())
		d, _ := json.MarshalIndent(desc, "", " ")
		fmt.Printf("history %d\n%s\n%s\nfailures: %v\n", c.Index, term, d, fails)
	case "stress":
		var cfg stressCfg
		_ = json.Unmarshal(c.Config, &cfg)
		for i := 0; i < 5; i++ {
			res := runStress(cfg, pool)
			f, _ := json.MarshalIndent(res.fails, "", " ")
			fmt.Printf("stress run %d: accounts=%d listeners=%d deliveries=%d failures=%s\n", i, res.accounts, res.listeners, res.deliveries, f)
		}
	case "directed":
		var cfg directedCfg
		_ = json.Unmarshal(c.Config, &cfg)
		// the finding depends on the schedule: repeat the round (same parameters) until it shows again, 30 s at most
		t0 := time.Now()
		trials := 0
		for i := 0; time.Since(t0) < 30*time.Second; i++ {
			res := runDirectedRound(cfg)
			trials += res.trials
			if len(res.fails) > 0 {
				f, _ := json.MarshalIndent(res.fails, "", " ")
				fmt.Printf("directed round %d, repetition %d (%d trials so far): failures=%s\n", cfg.Round, i, trials, f)
				return
			}
		}
		fmt.Printf("directed round %d: not reproduced in %d trials (schedule dependent; rerun ./check C17)\n", cfg.Round, trials)
	default:
		fmt.Println("replay: the case is a race report or a broken obligation; rerun ./check C17 (race build) to reproduce:")
		fmt.Println(string(rf.Case))
	}
}
