package main

// Part 2: schedule search.  Many goroutines drive one wallet through its public API while key files
// appear; Go-side oracles check what the theorems of Properties/C17.v state (duplicates, missing /
// duplicate deliveries, convergence, Close returning).  With a -race build the race detector's
// reports with frames in pkg/fswallet are collected by the parent process (main.go).

import (
	"context"
	"encoding/hex"
	"encoding/json"
	"fmt"
	"os"
	"path/filepath"
	"runtime"
	"sort"
	"strings"
	"sync"
	"sync/atomic"
	"time"

	"github.com/hyperledger/firefly-signer/pkg/eip712"
	"github.com/hyperledger/firefly-signer/pkg/ethsigner"
	"github.com/hyperledger/firefly-signer/pkg/ethtypes"
	"github.com/hyperledger/firefly-signer/pkg/fswallet"

	"verifharness/cv"
)

type stressCfg struct {
	G          int    `json:"goroutines"`
	Procs      int    `json:"gomaxprocs"`
	Listener   bool   `json:"listener"`
	Format     string `json:"metadata_format"`
	Ops        int    `json:"ops_per_goroutine"`
	CloseEarly bool   `json:"close_while_running"`
	Stream     uint64 `json:"stream"`
	Seed       int64  `json:"seed"`
}

type collector struct {
	id      int
	ch      chan ethtypes.Address0xHex
	mu      sync.Mutex
	recv    []string
	regDone int64        // logical time after AddListener returned (0 = initial listener)
	react   atomic.Value // func(): what this listener does on every notification (may call back into the wallet)
}

func (c *collector) run(stop <-chan struct{}, last *atomic.Int64) {
	for {
		select {
		case a := <-c.ch:
			c.mu.Lock()
			c.recv = append(c.recv, hex.EncodeToString(a[:]))
			c.mu.Unlock()
			last.Store(time.Now().UnixNano())
			if f, ok := c.react.Load().(func()); ok {
				f() // a listener that queries the wallet when notified: must never deadlock with the notifier
			}
		case <-stop:
			return
		}
	}
}

type stressResult struct {
	fails      []map[string]interface{}
	accounts   int
	listeners  int
	deliveries int
	mustPairs  int
	fatal      bool
	skipped    bool
	ops        map[string]int
}

func runStress(cfg stressCfg, pool []*keyT) *stressResult {
	res := &stressResult{ops: map[string]int{}}
	var failMu sync.Mutex
	fail := func(what string, detail interface{}) {
		failMu.Lock()
		defer failMu.Unlock()
		if len(res.fails) < 6 {
			res.fails = append(res.fails, map[string]interface{}{"what": what, "key": "", "kind": "stress", "config": cfg, "detail": detail})
		}
	}
	old := runtime.GOMAXPROCS(cfg.Procs)
	defer runtime.GOMAXPROCS(old)
	dir, err := os.MkdirTemp("", "c17s")
	if err != nil {
		panic(err)
	}
	defer os.RemoveAll(dir)
	ctx := context.Background()
	master := cv.NewRand(cfg.Stream)

	var clock atomic.Int64
	var lastRecv atomic.Int64
	stop := make(chan struct{})
	var colMu sync.Mutex
	var cols []*collector
	newCollector := func(buf int) *collector {
		c := &collector{ch: make(chan ethtypes.Address0xHex, buf)}
		colMu.Lock()
		c.id = 100 + len(cols)
		cols = append(cols, c)
		colMu.Unlock()
		go c.run(stop, &lastRecv)
		return c
	}
	var initial []chan<- ethtypes.Address0xHex
	for i := 0; i < 1+master.Intn(2); i++ {
		initial = append(initial, newCollector(master.Intn(2)).ch)
	}
	wc := walletCfg{Listener: cfg.Listener, Regex: master.Bool(), Format: cfg.Format}
	w, err := fswallet.NewFilesystemWallet(ctx, wc.conf(dir), initial...)
	if err != nil {
		panic(err)
	}
	reaction := func() { _, _ = w.GetAccounts(ctx) }
	colMu.Lock()
	cols[0].react.Store(reaction)
	colMu.Unlock()
	if err := w.Initialize(ctx); err != nil {
		if envExhausted(err) {
			res.skipped = true
			_ = closeWithDeadline(w, 5*time.Second)
			close(stop)
			return res
		}
		fail("Initialize failed on an existing directory", err.Error())
		return res
	}

	// created addresses: logical time before the first file of the address was written
	var crMu sync.Mutex
	createBegin := map[string]int64{}
	var keyMu sync.Mutex
	var sharedKeys []*keyT // real key files completely written (any worker may sign with them, also concurrently)
	var opMu sync.Mutex
	hit := func(k string) { opMu.Lock(); res.ops[k]++; opMu.Unlock() }

	var wg sync.WaitGroup
	for g := 0; g < cfg.G; g++ {
		wg.Add(1)
		go func(g int) {
			defer wg.Done()
			r := cv.NewRand(cfg.Stream*1000 + uint64(g) + 1)
			var mine []string // addresses this worker created (hex)
			var myKey *keyT   // a real key this worker owns (created at most once)
			if g < len(pool) {
				myKey = pool[g]
			}
			keyCreated := false
			seen := map[string]bool{}
			checkAccounts := func() map[string]bool {
				acc, err := w.GetAccounts(ctx)
				if err != nil {
					fail("GetAccounts returned an error", err.Error())
				}
				now := map[string]bool{}
				for _, a := range acc {
					s := hex.EncodeToString(a[:])
					if now[s] {
						fail("duplicate-account: GetAccounts returned an address twice", s)
					}
					now[s] = true
				}
				for s := range seen {
					if !now[s] {
						fail("an account listed earlier disappeared from GetAccounts", s)
					}
				}
				seen = now
				return now
			}
			for i := 0; i < cfg.Ops; i++ {
				switch k := r.Intn(20); {
				case k < 6: // create a key file for a fresh address
					a := hex.EncodeToString(r.Bytes(20))
					crMu.Lock()
					createBegin[a] = clock.Add(1)
					crMu.Unlock()
					name := a + primaryExt
					if r.Intn(3) == 0 {
						name = "0x" + a + primaryExt
					}
					_ = os.WriteFile(filepath.Join(dir, name), []byte("{}"), 0o644)
					mine = append(mine, a)
					hit("create")
				case k < 7 && len(mine) > 0: // second spelling of an address of mine
					a := mine[r.Intn(len(mine))]
					name := strings.ToUpper(a) + primaryExt
					if r.Bool() {
						name = "0x" + a + primaryExt
					}
					_ = os.WriteFile(filepath.Join(dir, name), []byte("{}"), 0o644)
					hit("create-second-spelling")
				case k < 8 && myKey != nil && !keyCreated:
					keyCreated = true
					crMu.Lock()
					createBegin[myKey.hex()] = clock.Add(1)
					crMu.Unlock()
					_ = os.WriteFile(filepath.Join(dir, myKey.hex()+".pwd"), myKey.password, 0o644)
					_ = os.WriteFile(filepath.Join(dir, myKey.hex()+primaryExt), myKey.file, 0o644)
					keyMu.Lock()
					sharedKeys = append(sharedKeys, myKey)
					keyMu.Unlock()
					hit("create-real-key")
				case k < 8: // a file that must be ignored
					_ = os.WriteFile(filepath.Join(dir, hex.EncodeToString(r.Bytes(19))+primaryExt), []byte("{}"), 0o644)
					hit("create-nonmatching")
				case k < 11:
					if err := w.Refresh(ctx); err != nil {
						fail("Refresh returned an error", err.Error())
					}
					hit("refresh")
				case k < 14:
					checkAccounts()
					hit("getAccounts")
				case k < 16:
					c := newCollector(r.Intn(3))
					if r.Bool() {
						c.react.Store(reaction)
					}
					w.AddListener(c.ch)
					atomic.StoreInt64(&c.regDone, clock.Add(1))
					hit("addListener")
				case k < 19:
					keyMu.Lock()
					var key *keyT
					if len(sharedKeys) > 0 {
						key = sharedKeys[r.Intn(len(sharedKeys))]
					}
					keyMu.Unlock()
					if key != nil {
						myKey := key
						listed := checkAccounts()[myKey.hex()]
						var a ethtypes.Address0xHex
						copy(a[:], myKey.addr)
						var err error
						if r.Bool() {
							from, _ := json.Marshal("0x" + myKey.hex())
							_, err = w.Sign(ctx, &ethsigner.Transaction{From: from, Nonce: ethtypes.NewHexInteger64(int64(i)), GasLimit: ethtypes.NewHexInteger64(21000), GasPrice: ethtypes.NewHexInteger64(1)}, 1)
							hit("sign")
						} else {
							_, err = w.SignTypedDataV4(ctx, a, &eip712.TypedData{PrimaryType: eip712.EIP712Domain})
							hit("signTypedDataV4")
						}
						if listed && err != nil {
							fail("Sign / SignTypedDataV4 failed for a listed account whose key and password files exist", err.Error())
						}
					} else {
						var a ethtypes.Address0xHex
						copy(a[:], r.Bytes(20))
						if _, err := w.GetWalletFile(ctx, a); err == nil {
							fail("GetWalletFile succeeded for an address without a file", hex.EncodeToString(a[:]))
						}
						hit("getWalletFile-unknown")
					}
				default:
					runtime.Gosched()
				}
			}
		}(g)
	}
	closed := make(chan bool, 4)
	closer := func() {
		closed <- closeWithDeadline(w, 15*time.Second)
	}
	nClose := 0
	if cfg.CloseEarly {
		time.Sleep(time.Duration(1+master.Intn(5)) * time.Millisecond)
		go closer()
		go closer()
		nClose += 2
	}
	workersDone := make(chan struct{})
	go func() { wg.Wait(); close(workersDone) }()
	select {
	case <-workersDone:
	case <-time.After(patience(60 * time.Second)):
		fail("deadlock: worker goroutines did not finish within 60 s", nil)
		res.fatal = true
		return res
	}
	// quiescence: with the listener running every created matching file must show up without a Refresh
	crMu.Lock()
	want := map[string]bool{}
	for a := range createBegin {
		want[a] = true
	}
	crMu.Unlock()
	accSet := func() (map[string]bool, []string) {
		acc, _ := w.GetAccounts(ctx)
		m := map[string]bool{}
		var dups []string
		for _, a := range acc {
			s := hex.EncodeToString(a[:])
			if m[s] {
				dups = append(dups, s)
			}
			m[s] = true
		}
		return m, dups
	}
	if cfg.Listener && !cfg.CloseEarly {
		deadline := time.Now().Add(patience(15 * time.Second))
		for time.Now().Before(deadline) {
			m, _ := accSet()
			ok := true
			for a := range want {
				if !m[a] {
					ok = false
				}
			}
			if ok {
				break
			}
			time.Sleep(5 * time.Millisecond)
		}
		m, _ := accSet()
		var missing []string
		for a := range want {
			if !m[a] {
				missing = append(missing, a)
			}
		}
		if len(missing) > 0 {
			slowMode.Store(true)
			sort.Strings(missing)
			fail("no-convergence: with the file-system listener running, created key files never appeared in GetAccounts", missing)
		}
	}
	if err := w.Refresh(ctx); err != nil {
		fail("Refresh returned an error", err.Error())
	}
	final, dups := accSet()
	if len(dups) > 0 {
		fail("duplicate-account: GetAccounts returned an address twice", dups)
	}
	var missing, extra []string
	for a := range want {
		if !final[a] {
			missing = append(missing, a)
		}
	}
	for a := range final {
		if !want[a] {
			extra = append(extra, a)
		}
	}
	if len(missing) > 0 || len(extra) > 0 {
		sort.Strings(missing)
		sort.Strings(extra)
		fail("no-convergence: after a final Refresh the account list differs from the set of matching key files", map[string]interface{}{"missing": missing, "unexpected": extra})
	}
	// wait for the notifier goroutines to finish delivering
	colMu.Lock()
	all := append([]*collector{}, cols...)
	colMu.Unlock()
	mustHave := func() (int, []string) {
		n := 0
		var miss []string
		for _, c := range all {
			reg := atomic.LoadInt64(&c.regDone)
			c.mu.Lock()
			got := map[string]bool{}
			for _, a := range c.recv {
				got[a] = true
			}
			c.mu.Unlock()
			for a, t := range createBegin {
				if reg < t && final[a] {
					n++
					if !got[a] {
						miss = append(miss, fmt.Sprintf("listener %d (registered at %d) address %s (created at %d)", c.id, reg, a, t))
					}
				}
			}
		}
		return n, miss
	}
	deadline := time.Now().Add(patience(15 * time.Second))
	for time.Now().Before(deadline) {
		if _, miss := mustHave(); len(miss) == 0 {
			break
		}
		time.Sleep(5 * time.Millisecond)
	}
	for {
		l := lastRecv.Load()
		if l == 0 || time.Since(time.Unix(0, l)) > 60*time.Millisecond {
			break
		}
		time.Sleep(10 * time.Millisecond)
	}
	n, miss := mustHave()
	res.mustPairs = n
	if len(miss) > 0 {
		slowMode.Store(true)
		sort.Strings(miss)
		if len(miss) > 8 {
			miss = miss[:8]
		}
		fail("missing-delivery: a listener registered before an address first appeared never received it", miss)
	}
	for _, c := range all {
		c.mu.Lock()
		cnt := map[string]int{}
		for _, a := range c.recv {
			cnt[a]++
			res.deliveries++
		}
		c.mu.Unlock()
		for a, k := range cnt {
			if k > 1 {
				fail("duplicate-delivery: a listener received the same address more than once", fmt.Sprintf("listener %d address %s x%d", c.id, a, k))
			}
			if !final[a] {
				fail("phantom-delivery: a listener received an address that is not in the account list", fmt.Sprintf("listener %d address %s", c.id, a))
			}
		}
	}
	go closer()
	nClose++
	for i := 0; i < nClose; i++ {
		if !<-closed {
			fail("close-does-not-return: Close did not return within 15 s", nil)
			break
		}
	}
	close(stop)
	res.accounts = len(final)
	res.listeners = len(all)
	return res
}
