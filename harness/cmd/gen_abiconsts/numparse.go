// numparse.go: where is the strconv.ParseUint call of a numeric parser, and with which base / bitSize?
//
// The three dimension parsers of typecomponents.go (parseMSuffix, parseNSuffix, parseArrayM) each reach
// exactly one strconv.Parse* call.  The call does not have to be written in the function itself: a
// behaviour-preserving refactor may move it into a helper of the package (R-C13: parseSuffixDimension
// shared by parseMSuffix and parseNSuffix), possibly with the base or bit size handed down as an
// argument.  So the search follows calls to functions and methods declared in package abi,
// transitively (bounded depth, cycles cut), and evaluates the base / bitSize arguments of the Parse*
// call along the call path: integer literals, package-level integer constants, parameters bound to
// constant arguments of the call site, locals defined once, and + - * / % << >> and integer
// conversions over those.
//
// It stays closed: every Parse* call reachable from the parser counts (one extra call anywhere on the
// paths and the translator refuses), a parameter or local that is written to in the body is not a
// constant, a call path deeper than the bound is refused rather than ignored, the same call site reached
// with two different values is refused, and a base / bitSize that cannot be evaluated is refused.
package main

import (
	"fmt"
	"go/ast"
	"go/parser"
	"go/token"
	"os"
	"path"
	"path/filepath"
	"sort"
	"strconv"
	"strings"
)

const maxCallDepth = 6

type funcInfo struct {
	decl    *ast.FuncDecl
	imports map[string]string // local name -> import path of the declaring file ("." for dot imports: path -> ".")
	dot     map[string]bool   // import paths that are dot-imported
}

type pkgInfo struct {
	fset   *token.FileSet
	funcs  map[string][]*funcInfo // plain functions by name
	meths  map[string][]*funcInfo // methods by name (any receiver)
	consts map[string]ast.Expr    // package-level constants with an explicit value
}

// loadPackage parses every non-test Go file of dir (main is the already parsed typecomponents.go).
func loadPackage(fset *token.FileSet, dir string, main *ast.File, mainPath string) *pkgInfo {
	pk := &pkgInfo{fset: fset, funcs: map[string][]*funcInfo{}, meths: map[string][]*funcInfo{}, consts: map[string]ast.Expr{}}
	ents, err := os.ReadDir(dir)
	if err != nil {
		fail("%v", err)
	}
	var names []string
	for _, e := range ents {
		n := e.Name()
		if e.IsDir() || !strings.HasSuffix(n, ".go") || strings.HasSuffix(n, "_test.go") {
			continue
		}
		names = append(names, n)
	}
	sort.Strings(names)
	for _, n := range names {
		p := filepath.Join(dir, n)
		f := main
		if filepath.Clean(p) != filepath.Clean(mainPath) {
			f, err = parser.ParseFile(fset, p, nil, 0)
			if err != nil {
				fail("%v", err)
			}
		}
		pk.addFile(f)
	}
	return pk
}

func (pk *pkgInfo) addFile(f *ast.File) {
	imports := map[string]string{}
	dot := map[string]bool{}
	for _, im := range f.Imports {
		ip, err := strconv.Unquote(im.Path.Value)
		if err != nil {
			continue
		}
		switch {
		case im.Name == nil:
			imports[path.Base(ip)] = ip
		case im.Name.Name == ".":
			dot[ip] = true
		case im.Name.Name == "_":
		default:
			imports[im.Name.Name] = ip
		}
	}
	for _, d := range f.Decls {
		switch d := d.(type) {
		case *ast.FuncDecl:
			fi := &funcInfo{decl: d, imports: imports, dot: dot}
			if d.Recv == nil {
				pk.funcs[d.Name.Name] = append(pk.funcs[d.Name.Name], fi)
			} else {
				pk.meths[d.Name.Name] = append(pk.meths[d.Name.Name], fi)
			}
		case *ast.GenDecl:
			if d.Tok != token.CONST {
				continue
			}
			for _, sp := range d.Specs {
				vs := sp.(*ast.ValueSpec)
				for i, n := range vs.Names {
					if i < len(vs.Values) {
						pk.consts[n.Name] = vs.Values[i]
					}
				}
			}
		}
	}
}

// cval is an evaluated integer or the reason why there is none.
type cval struct {
	v   uint64
	why string // "" = known
}

func known(v uint64) cval                     { return cval{v: v} }
func unknown(f string, a ...interface{}) cval { return cval{why: fmt.Sprintf(f, a...)} }

var intTypes = map[string]bool{"int": true, "int8": true, "int16": true, "int32": true, "int64": true,
	"uint": true, "uint8": true, "uint16": true, "uint32": true, "uint64": true, "uintptr": true, "byte": true}

// writes counts, in the body of fi, the definitions (:=, var, const) of name and every other write to it
// (=, op=, ++/--, &name, range variable).
func writes(fi *funcInfo, name string) (defs []ast.Expr, badDefs, others int) {
	isName := func(e ast.Expr) bool {
		id, ok := e.(*ast.Ident)
		return ok && id.Name == name
	}
	ast.Inspect(fi.decl.Body, func(n ast.Node) bool {
		switch s := n.(type) {
		case *ast.AssignStmt:
			for i, l := range s.Lhs {
				if !isName(l) {
					continue
				}
				if s.Tok == token.DEFINE {
					if len(s.Lhs) == len(s.Rhs) {
						defs = append(defs, s.Rhs[i])
					} else {
						badDefs++
					}
				} else {
					others++
				}
			}
		case *ast.IncDecStmt:
			if isName(s.X) {
				others++
			}
		case *ast.UnaryExpr:
			if s.Op == token.AND && isName(s.X) {
				others++
			}
		case *ast.RangeStmt:
			if (s.Key != nil && isName(s.Key)) || (s.Value != nil && isName(s.Value)) {
				others++
			}
		case *ast.ValueSpec:
			for i, id := range s.Names {
				if id.Name != name {
					continue
				}
				if len(s.Names) == len(s.Values) {
					defs = append(defs, s.Values[i])
				} else {
					badDefs++
				}
			}
		case *ast.FuncLit:
			for _, f := range s.Type.Params.List {
				for _, id := range f.Names {
					if id.Name == name {
						others++ // shadowed by a closure parameter: give up on this name
					}
				}
			}
		}
		return true
	})
	return
}

func (pk *pkgInfo) eval(e ast.Expr, fi *funcInfo, env map[string]cval, depth int) cval {
	if depth > 20 {
		return unknown("expression too deep")
	}
	switch x := e.(type) {
	case *ast.BasicLit:
		if x.Kind != token.INT {
			return unknown("%s is not an integer literal", x.Value)
		}
		v, err := strconv.ParseUint(strings.ReplaceAll(x.Value, "_", ""), 0, 64)
		if err != nil {
			return unknown("%v", err)
		}
		return known(v)
	case *ast.ParenExpr:
		return pk.eval(x.X, fi, env, depth+1)
	case *ast.Ident:
		if fi == nil { // package-level constant expression
			if c, ok := pk.consts[x.Name]; ok {
				return pk.eval(c, nil, nil, depth+1)
			}
			return unknown("%s is not a constant known to the translator", x.Name)
		}
		defs, bad, others := writes(fi, x.Name)
		if pv, isParam := env[x.Name]; isParam {
			if len(defs)+bad+others != 0 {
				return unknown("parameter %s of %s is written to in the body", x.Name, fi.decl.Name.Name)
			}
			return pv
		}
		if len(defs)+bad+others > 0 {
			if len(defs) == 1 && bad == 0 && others == 0 {
				return pk.eval(defs[0], fi, env, depth+1)
			}
			return unknown("local %s of %s is not defined exactly once", x.Name, fi.decl.Name.Name)
		}
		if c, ok := pk.consts[x.Name]; ok {
			return pk.eval(c, nil, nil, depth+1)
		}
		return unknown("%s is not a constant known to the translator", x.Name)
	case *ast.BinaryExpr:
		a := pk.eval(x.X, fi, env, depth+1)
		if a.why != "" {
			return a
		}
		b := pk.eval(x.Y, fi, env, depth+1)
		if b.why != "" {
			return b
		}
		switch x.Op {
		case token.ADD:
			return known(a.v + b.v)
		case token.SUB:
			if b.v > a.v {
				return unknown("negative constant")
			}
			return known(a.v - b.v)
		case token.MUL:
			return known(a.v * b.v)
		case token.QUO:
			if b.v == 0 {
				return unknown("division by zero")
			}
			return known(a.v / b.v)
		case token.REM:
			if b.v == 0 {
				return unknown("division by zero")
			}
			return known(a.v % b.v)
		case token.SHL:
			if b.v > 63 {
				return unknown("shift too large")
			}
			return known(a.v << b.v)
		case token.SHR:
			if b.v > 63 {
				return known(0)
			}
			return known(a.v >> b.v)
		}
		return unknown("operator %s", x.Op)
	case *ast.CallExpr:
		if id, ok := x.Fun.(*ast.Ident); ok && intTypes[id.Name] && len(x.Args) == 1 {
			return pk.eval(x.Args[0], fi, env, depth+1)
		}
	}
	return unknown("not a constant expression the translator can evaluate")
}

type parseSite struct {
	pos        token.Pos
	fn         string // strconv function name
	nargs      int
	base, bits cval
	via        string // call path
}

type walker struct {
	pk        *pkgInfo
	sites     []parseSite
	truncated []string
}

// isStrconvParse reports the strconv function name when call is strconv.Parse* (through any import name).
func isStrconvParse(call *ast.CallExpr, fi *funcInfo) (string, bool) {
	switch f := call.Fun.(type) {
	case *ast.SelectorExpr:
		if x, ok := f.X.(*ast.Ident); ok && fi.imports[x.Name] == "strconv" && strings.HasPrefix(f.Sel.Name, "Parse") {
			return f.Sel.Name, true
		}
	case *ast.Ident:
		if fi.dot["strconv"] && strings.HasPrefix(f.Name, "Parse") {
			return f.Name, true
		}
	}
	return "", false
}

func paramNames(fd *ast.FuncDecl) (names []string, variadic bool) {
	if fd.Type.Params == nil {
		return nil, false
	}
	for _, f := range fd.Type.Params.List {
		if _, ok := f.Type.(*ast.Ellipsis); ok {
			variadic = true
		}
		if len(f.Names) == 0 {
			names = append(names, "_")
		}
		for _, n := range f.Names {
			names = append(names, n.Name)
		}
	}
	return
}

func (w *walker) walk(fi *funcInfo, env map[string]cval, stack []string) {
	if fi.decl.Body == nil {
		return
	}
	via := strings.Join(stack, " -> ")
	ast.Inspect(fi.decl.Body, func(n ast.Node) bool {
		call, ok := n.(*ast.CallExpr)
		if !ok {
			return true
		}
		if name, ok := isStrconvParse(call, fi); ok {
			s := parseSite{pos: call.Pos(), fn: name, nargs: len(call.Args), via: via,
				base: unknown("missing"), bits: unknown("missing")}
			if len(call.Args) == 3 {
				s.base = w.pk.eval(call.Args[1], fi, env, 0)
				s.bits = w.pk.eval(call.Args[2], fi, env, 0)
			}
			w.sites = append(w.sites, s)
			return true
		}
		var targets []*funcInfo
		var callee string
		switch f := call.Fun.(type) {
		case *ast.Ident:
			callee = f.Name
			targets = w.pk.funcs[callee]
		case *ast.SelectorExpr:
			if x, ok := f.X.(*ast.Ident); ok {
				if _, isImport := fi.imports[x.Name]; isImport {
					return true // another package
				}
			}
			callee = f.Sel.Name
			targets = w.pk.meths[callee]
		}
		for _, t := range targets {
			cyc := false
			for _, s := range stack {
				if s == callee {
					cyc = true
				}
			}
			if cyc {
				continue
			}
			if len(stack) >= maxCallDepth {
				w.truncated = append(w.truncated, via+" -> "+callee)
				continue
			}
			names, variadic := paramNames(t.decl)
			env2 := map[string]cval{}
			for i, pn := range names {
				if pn == "_" {
					continue
				}
				if variadic || len(call.Args) != len(names) {
					env2[pn] = unknown("parameter %s of %s: call with a different number of arguments", pn, callee)
					continue
				}
				v := w.pk.eval(call.Args[i], fi, env, 0)
				if v.why != "" {
					v = unknown("parameter %s of %s is not constant at the call in %s (%s)", pn, callee, fi.decl.Name.Name, v.why)
				}
				env2[pn] = v
			}
			w.walk(t, env2, append(append([]string{}, stack...), callee))
		}
		return true
	})
}

// numericParse finds the single strconv.ParseUint call reachable from function fn and returns its
// base and bitSize.
func (pk *pkgInfo) numericParse(fn string) (uint64, uint64) {
	fis := pk.funcs[fn]
	if len(fis) == 0 {
		fail("function %s not found", fn)
	}
	if len(fis) > 1 {
		fail("function %s is declared %d times (build-tagged variants?)", fn, len(fis))
	}
	fi := fis[0]
	env := map[string]cval{}
	names, _ := paramNames(fi.decl)
	for _, pn := range names {
		env[pn] = unknown("parameter %s of %s is an input", pn, fn)
	}
	w := &walker{pk: pk}
	w.walk(fi, env, []string{fn})
	if len(w.truncated) > 0 {
		fail("%s: call path deeper than %d not followed: %s", fn, maxCallDepth, w.truncated[0])
	}
	// the same call site reached along several paths counts once, if the values agree
	byPos := map[token.Pos]parseSite{}
	var order []token.Pos
	for _, s := range w.sites {
		if o, ok := byPos[s.pos]; ok {
			if o.base != s.base || o.bits != s.bits {
				fail("%s: the strconv.%s call at %s is reached with different arguments (%s / %s)", fn, s.fn, pk.fset.Position(s.pos), o.via, s.via)
			}
			continue
		}
		byPos[s.pos] = s
		order = append(order, s.pos)
	}
	if len(order) != 1 {
		var where []string
		for _, p := range order {
			where = append(where, pk.fset.Position(p).String()+" via "+byPos[p].via)
		}
		fail("%s: expected exactly one strconv.Parse* call (in the function or the package functions it calls), found %d %v", fn, len(order), where)
	}
	s := byPos[order[0]]
	if s.fn != "ParseUint" || s.nargs != 3 {
		fail("%s: the numeric parse (%s, via %s) is not strconv.ParseUint(s, base, bits)", fn, pk.fset.Position(s.pos), s.via)
	}
	if s.base.why != "" {
		fail("%s: cannot determine the base of strconv.ParseUint at %s (via %s): %s", fn, pk.fset.Position(s.pos), s.via, s.base.why)
	}
	if s.bits.why != "" {
		fail("%s: cannot determine the bitSize of strconv.ParseUint at %s (via %s): %s", fn, pk.fset.Position(s.pos), s.via, s.bits.why)
	}
	return s.base.v, s.bits.v
}
