// gen_abiconsts regenerates coq/theories/Gen/AbiConsts.v from pkg/abi/typecomponents.go: the
// elementary type table (one record per registerElementaryType call, sorted by name so that a
// reordering of the Go source changes nothing), the "tuple" type word and the arguments of the
// strconv.ParseUint calls in parseMSuffix / parseNSuffix / parseArrayM.  AbiType/Model.v uses these
// constants, so a changed bound, flag or binding breaks the proofs that needed the old value.
//
// It fails closed (non-zero exit, nothing written) on any construct it cannot classify in what the type
// grammar depends on: an unknown field in a table entry, a non-literal name / suffix kind / default
// suffix / bound, a duplicate type name, a missing function, a numeric parse that is not
// strconv.ParseUint with literal base and bitSize.  The fields the grammar does not depend on (the
// dynamic closure, the reader / encoder / decoder bindings) are classified when they have a known
// shape and emitted as DynUnknown / "?" otherwise, so that only the proofs that need them break.
package main

import (
	"flag"
	"fmt"
	"go/ast"
	"go/parser"
	"go/token"
	"os"
	"path/filepath"
	"sort"
	"strconv"
	"strings"
)

type entry struct {
	name, suffix, defaultSuffix            string
	defaultM, mMin, mMax, mMod, nMin, nMax uint64
	fixed32                                bool
	dynamic, json, reader, encode, decode  string
	seen                                   map[string]bool
}

func fail(format string, a ...interface{}) {
	fmt.Fprintf(os.Stderr, "gen_abiconsts: "+format+"\n", a...)
	os.Exit(1)
}

var suffixKinds = map[string]string{
	"suffixTypeNone": "SuffixNone", "suffixTypeMOptional": "SuffixMOptional",
	"suffixTypeMRequired": "SuffixMRequired", "suffixTypeMxNRequired": "SuffixMxNRequired",
}
var jsonKinds = map[string]bool{
	"JSONEncodingTypeBool": true, "JSONEncodingTypeInteger": true, "JSONEncodingTypeBytes": true,
	"JSONEncodingTypeFloat": true, "JSONEncodingTypeString": true,
}

func intLit(e ast.Expr, what string) uint64 {
	bl, ok := e.(*ast.BasicLit)
	if !ok || bl.Kind != token.INT {
		fail("%s: expected an integer literal", what)
	}
	v, err := strconv.ParseUint(bl.Value, 0, 64)
	if err != nil {
		fail("%s: %v", what, err)
	}
	return v
}
func strLit(e ast.Expr, what string) string {
	bl, ok := e.(*ast.BasicLit)
	if !ok || bl.Kind != token.STRING {
		fail("%s: expected a string literal", what)
	}
	v, err := strconv.Unquote(bl.Value)
	if err != nil {
		fail("%s: %v", what, err)
	}
	return v
}
func ident(e ast.Expr, what string) string {
	id, ok := e.(*ast.Ident)
	if !ok {
		fail("%s: expected an identifier", what)
	}
	return id.Name
}

// singleReturn gives the expression of a function literal whose body is exactly `return <expr>`.
func singleReturn(fl *ast.FuncLit, what string) ast.Expr {
	if fl.Body == nil || len(fl.Body.List) != 1 {
		return nil
	}
	rs, ok := fl.Body.List[0].(*ast.ReturnStmt)
	if !ok || len(rs.Results) != 1 {
		return nil
	}
	return rs.Results[0]
}

// dynRule classifies the `dynamic` closure of an entry.
func dynRule(fl *ast.FuncLit, what string) string {
	if fl.Type.Params == nil || len(fl.Type.Params.List) != 1 || len(fl.Type.Params.List[0].Names) != 1 {
		return "DynUnknown"
	}
	param := fl.Type.Params.List[0].Names[0].Name
	ret := singleReturn(fl, what)
	if ret == nil {
		return "DynUnknown"
	}
	switch r := ret.(type) {
	case *ast.Ident:
		if r.Name == "false" {
			return "DynNever"
		}
		if r.Name == "true" {
			return "DynAlways"
		}
	case *ast.BinaryExpr:
		// tc.elementarySuffix == ""
		if r.Op == token.EQL {
			if sel, ok := r.X.(*ast.SelectorExpr); ok {
				if x, ok := sel.X.(*ast.Ident); ok && x.Name == param && sel.Sel.Name == "elementarySuffix" {
					if bl, ok := r.Y.(*ast.BasicLit); ok && bl.Kind == token.STRING && bl.Value == `""` {
						return "DynIfNoSuffix"
					}
				}
			}
		}
	}
	return "DynUnknown"
}

// readerName classifies readExternalData: func(ctx, desc, input) { return F(ctx, desc, input) }.
func readerName(fl *ast.FuncLit, what string) string {
	var names []string
	for _, f := range fl.Type.Params.List {
		for _, n := range f.Names {
			names = append(names, n.Name)
		}
	}
	ret := singleReturn(fl, what)
	if ret == nil {
		return "?"
	}
	call, ok := ret.(*ast.CallExpr)
	if !ok || len(call.Args) != len(names) {
		return "?"
	}
	for i, a := range call.Args {
		if id, ok := a.(*ast.Ident); !ok || id.Name != names[i] {
			return "?"
		}
	}
	if id, ok := call.Fun.(*ast.Ident); ok {
		return id.Name
	}
	return "?"
}

func softIdent(e ast.Expr) string {
	if id, ok := e.(*ast.Ident); ok {
		return id.Name
	}
	return "?"
}

func main() {
	repo := flag.String("repo", "/repo", "firefly-signer tree")
	out := flag.String("out", "", "output .v file")
	flag.Parse()
	if *out == "" {
		fail("need -out")
	}
	src := filepath.Join(*repo, "pkg", "abi", "typecomponents.go")
	fset := token.NewFileSet()
	file, err := parser.ParseFile(fset, src, nil, 0)
	if err != nil {
		fail("%v", err)
	}

	// string constants (BaseTypeName values, tupleTypeString) and package-level func-valued vars
	strConsts := map[string]string{}
	funcVars := map[string]*ast.FuncLit{}
	for _, d := range file.Decls {
		gd, ok := d.(*ast.GenDecl)
		if !ok {
			continue
		}
		for _, sp := range gd.Specs {
			vs, ok := sp.(*ast.ValueSpec)
			if !ok {
				continue
			}
			for i, n := range vs.Names {
				if i >= len(vs.Values) {
					continue
				}
				switch v := vs.Values[i].(type) {
				case *ast.BasicLit:
					if gd.Tok == token.CONST && v.Kind == token.STRING {
						s, _ := strconv.Unquote(v.Value)
						strConsts[n.Name] = s
					}
				case *ast.FuncLit:
					funcVars[n.Name] = v
				}
			}
		}
	}
	tuple, ok := strConsts["tupleTypeString"]
	if !ok {
		fail("const tupleTypeString not found")
	}

	// the table
	var entries []*entry
	ast.Inspect(file, func(n ast.Node) bool {
		call, ok := n.(*ast.CallExpr)
		if !ok {
			return true
		}
		if id, ok := call.Fun.(*ast.Ident); !ok || id.Name != "registerElementaryType" {
			return true
		}
		if len(call.Args) != 1 {
			fail("registerElementaryType with %d arguments", len(call.Args))
		}
		cl, ok := call.Args[0].(*ast.CompositeLit)
		if !ok {
			fail("registerElementaryType argument is not a composite literal")
		}
		if id, ok := cl.Type.(*ast.Ident); !ok || id.Name != "elementaryTypeInfo" {
			fail("registerElementaryType argument is not an elementaryTypeInfo literal")
		}
		e := &entry{suffix: "SuffixNone", seen: map[string]bool{}}
		for _, el := range cl.Elts {
			kv, ok := el.(*ast.KeyValueExpr)
			if !ok {
				fail("positional field in an elementaryTypeInfo literal")
			}
			key := ident(kv.Key, "field name")
			what := fmt.Sprintf("%s: field %s", fset.Position(kv.Pos()), key)
			if e.seen[key] {
				fail("%s: duplicate field", what)
			}
			e.seen[key] = true
			switch key {
			case "name":
				c := ident(kv.Value, what)
				v, ok := strConsts[c]
				if !ok {
					fail("%s: %s is not a string constant of this file", what, c)
				}
				e.name = v
			case "suffixType":
				k, ok := suffixKinds[ident(kv.Value, what)]
				if !ok {
					fail("%s: unknown suffix type", what)
				}
				e.suffix = k
			case "defaultSuffix":
				e.defaultSuffix = strLit(kv.Value, what)
			case "defaultM":
				e.defaultM = intLit(kv.Value, what)
			case "mMin":
				e.mMin = intLit(kv.Value, what)
			case "mMax":
				e.mMax = intLit(kv.Value, what)
			case "mMod":
				e.mMod = intLit(kv.Value, what)
			case "nMin":
				e.nMin = intLit(kv.Value, what)
			case "nMax":
				e.nMax = intLit(kv.Value, what)
			case "fixed32":
				switch ident(kv.Value, what) {
				case "true":
					e.fixed32 = true
				case "false":
					e.fixed32 = false
				default:
					fail("%s: not a boolean literal", what)
				}
			case "dynamic":
				switch v := kv.Value.(type) {
				case *ast.Ident:
					if fl, ok := funcVars[v.Name]; ok {
						e.dynamic = dynRule(fl, what)
					} else {
						e.dynamic = "DynUnknown"
					}
				case *ast.FuncLit:
					e.dynamic = dynRule(v, what)
				default:
					e.dynamic = "DynUnknown"
				}
			case "jsonEncodingType":
				j := ident(kv.Value, what)
				if !jsonKinds[j] {
					fail("%s: unknown JSON encoding type %s", what, j)
				}
				e.json = j
			case "readExternalData":
				if fl, ok := kv.Value.(*ast.FuncLit); ok {
					e.reader = readerName(fl, what)
				} else {
					e.reader = softIdent(kv.Value)
				}
			case "encodeABIData":
				e.encode = softIdent(kv.Value)
			case "decodeABIData":
				e.decode = softIdent(kv.Value)
			default:
				fail("%s: unknown field (the translator must be taught what it means)", what)
			}
		}
		if !e.seen["name"] {
			fail("%s: entry without a name", fset.Position(cl.Pos()))
		}
		if e.dynamic == "" {
			e.dynamic = "DynUnknown"
		}
		for _, f := range []*string{&e.reader, &e.encode, &e.decode} {
			if *f == "" {
				*f = "?"
			}
		}
		if e.json == "" {
			e.json = "JSONEncodingTypeBool" // iota zero value
		}
		entries = append(entries, e)
		return true
	})
	if len(entries) == 0 {
		fail("no registerElementaryType calls found")
	}
	sort.Slice(entries, func(i, j int) bool { return entries[i].name < entries[j].name })
	for i := 1; i < len(entries); i++ {
		if entries[i].name == entries[i-1].name {
			fail("type name %q registered twice (the later registration would win in the Go map)", entries[i].name)
		}
	}

	// strconv.ParseUint(x, base, bits) in the three numeric parsers (see numparse.go: the call may sit
	// in a helper of the same package, reached through constant arguments)
	pk := loadPackage(fset, filepath.Join(*repo, "pkg", "abi"), file, src)
	parseArgs := func(fn string) (uint64, uint64) { return pk.numericParse(fn) }
	mBase, mBits := parseArgs("parseMSuffix")
	nBase, nBits := parseArgs("parseNSuffix")
	aBase, aBits := parseArgs("parseArrayM")

	var sb strings.Builder
	sb.WriteString(`(* GENERATED by harness/cmd/gen_abiconsts from pkg/abi/typecomponents.go -- do not edit.
   The elementary type table of the ABI type parser and the numeric-parse parameters, as the
   source says them now.  AbiType/Model.v uses these constants, so a changed bound, flag or
   binding breaks the proofs that needed the old value. *)
From Coq Require Import String NArith List.
Import ListNotations.
Local Open Scope string_scope.
Local Open Scope N_scope.

Inductive suffix_kind := SuffixNone | SuffixMOptional | SuffixMRequired | SuffixMxNRequired.
(* the [dynamic] closure of an entry: constant false / constant true / tc.elementarySuffix == "" /
   a shape the translator does not know *)
Inductive dyn_rule := DynNever | DynAlways | DynIfNoSuffix | DynUnknown.
Inductive json_enc := JSONEncodingTypeBool | JSONEncodingTypeInteger | JSONEncodingTypeBytes
                    | JSONEncodingTypeFloat | JSONEncodingTypeString.

Record elem_info := mkElem {
  et_name : string;
  et_suffix : suffix_kind;
  et_default_suffix : string;
  et_defaultM : N;
  et_mMin : N; et_mMax : N; et_mMod : N;
  et_nMin : N; et_nMax : N;
  et_fixed32 : bool;
  et_dynamic : dyn_rule;
  et_json : json_enc;
  et_reader : string;    (* function called by readExternalData *)
  et_encode : string;    (* encodeABIData *)
  et_decode : string     (* decodeABIData *)
}.

(* sorted by name (the Go side is a map keyed by name) *)
Definition elementary_types : list elem_info := [
`)
	q := func(s string) string { return `"` + strings.ReplaceAll(s, `"`, `""`) + `"` }
	for i, e := range entries {
		sep := ";"
		if i == len(entries)-1 {
			sep = ""
		}
		fmt.Fprintf(&sb, "  mkElem %s %s %s %d %d %d %d %d %d %v %s %s %s %s %s%s\n",
			q(e.name), e.suffix, q(e.defaultSuffix), e.defaultM, e.mMin, e.mMax, e.mMod, e.nMin, e.nMax,
			e.fixed32, e.dynamic, e.json, q(e.reader), q(e.encode), q(e.decode), sep)
	}
	sb.WriteString("].\n\n")
	fmt.Fprintf(&sb, "Definition tuple_type_string : string := %s.\n\n", q(tuple))
	sb.WriteString("(* strconv.ParseUint(s, base, bitSize) arguments in parseMSuffix / parseNSuffix / parseArrayM *)\n")
	fmt.Fprintf(&sb, "Definition parse_m_base : N := %d.\nDefinition parse_m_bits : N := %d.\n", mBase, mBits)
	fmt.Fprintf(&sb, "Definition parse_n_base : N := %d.\nDefinition parse_n_bits : N := %d.\n", nBase, nBits)
	fmt.Fprintf(&sb, "Definition parse_array_base : N := %d.\nDefinition parse_array_bits : N := %d.\n", aBase, aBits)

	if err := os.WriteFile(*out, []byte(sb.String()), 0o644); err != nil {
		fail("%v", err)
	}
}
