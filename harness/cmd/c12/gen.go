// Type trees, values, the harness's own transcription of the Solidity enc() function and of the
// canonical signature, and the printers for Abi/RunC12.v.  Nothing in this file calls pkg/abi's
// signature, selector, encoder or decoder code (it only builds abi.Parameter / abi.ComponentValue
// structures to hand to it).
package main

import (
	"fmt"
	"math/big"
	"strings"

	"github.com/hyperledger/firefly-signer/pkg/abi"
	"golang.org/x/crypto/sha3"
	"verifharness/cv"
)

// ---------- type trees ----------

type kind int

const (
	kUint kind = iota
	kInt
	kAddress
	kBool
	kFixed
	kUfixed
	kBytesN
	kBytes
	kString
	kFunction
	kFixedArr
	kDynArr
	kTuple
	kInvalid // a type string that does not validate
)

// T is an ABI type.  Name is the parameter / tuple member name (kept on the outermost node of the
// member).  Alias: spell uint256/int256/fixed128x18/ufixed128x18 by their alias in the ABI JSON.
type T struct {
	K     kind   `json:"k"`
	M     int    `json:"m,omitempty"`
	N     int    `json:"n,omitempty"`
	Len   int    `json:"len,omitempty"`
	Elem  *T     `json:"elem,omitempty"`
	Kids  []*T   `json:"kids,omitempty"`
	Name  string `json:"name,omitempty"`
	Alias bool   `json:"alias,omitempty"`
	Bad   string `json:"bad,omitempty"` // kInvalid: the type string
}

func (t *T) base() (*T, string) {
	switch t.K {
	case kFixedArr:
		b, s := t.Elem.base()
		return b, s + fmt.Sprintf("[%d]", t.Len)
	case kDynArr:
		b, s := t.Elem.base()
		return b, s + "[]"
	}
	return t, ""
}

// canonical name of an elementary type (aliases expanded)
func (t *T) elemName() string {
	switch t.K {
	case kUint:
		return fmt.Sprintf("uint%d", t.M)
	case kInt:
		return fmt.Sprintf("int%d", t.M)
	case kAddress:
		return "address"
	case kBool:
		return "bool"
	case kFixed:
		return fmt.Sprintf("fixed%dx%d", t.M, t.N)
	case kUfixed:
		return fmt.Sprintf("ufixed%dx%d", t.M, t.N)
	case kBytesN:
		return fmt.Sprintf("bytes%d", t.M)
	case kBytes:
		return "bytes"
	case kString:
		return "string"
	case kFunction:
		return "function"
	case kInvalid:
		return t.Bad
	}
	return "?"
}

// spelling used in the ABI JSON handed to the implementation
func (t *T) jsonName() string {
	if t.Alias {
		switch {
		case t.K == kUint && t.M == 256:
			return "uint"
		case t.K == kInt && t.M == 256:
			return "int"
		case t.K == kFixed && t.M == 128 && t.N == 18:
			return "fixed"
		case t.K == kUfixed && t.M == 128 && t.N == 18:
			return "ufixed"
		}
	}
	return t.elemName()
}

// Sig is the canonical spelling: aliases expanded, tuples as parenthesised lists.
func (t *T) Sig() string {
	switch t.K {
	case kFixedArr:
		return fmt.Sprintf("%s[%d]", t.Elem.Sig(), t.Len)
	case kDynArr:
		return t.Elem.Sig() + "[]"
	case kTuple:
		p := make([]string, len(t.Kids))
		for i, k := range t.Kids {
			p[i] = k.Sig()
		}
		return "(" + strings.Join(p, ",") + ")"
	}
	return t.elemName()
}

func (t *T) Param(indexed bool) *abi.Parameter {
	b, arrays := t.base()
	p := &abi.Parameter{Name: t.Name, Indexed: indexed}
	if b.K == kTuple {
		p.Type = "tuple" + arrays
		for _, k := range b.Kids {
			p.Components = append(p.Components, k.Param(false))
		}
	} else {
		p.Type = b.jsonName() + arrays
	}
	return p
}

func (t *T) valid() bool {
	switch t.K {
	case kInvalid:
		return false
	case kFixedArr, kDynArr:
		return t.Elem.valid()
	case kTuple:
		for _, k := range t.Kids {
			if !k.valid() {
				return false
			}
		}
	}
	return true
}

func (t *T) dynamic() bool {
	switch t.K {
	case kBytes, kString, kDynArr:
		return true
	case kFixedArr:
		return t.Elem.dynamic()
	case kTuple:
		for _, k := range t.Kids {
			if k.dynamic() {
				return true
			}
		}
	}
	return false
}

func (t *T) hasFixedPoint() bool {
	switch t.K {
	case kFixed, kUfixed:
		return true
	case kFixedArr, kDynArr:
		return t.Elem.hasFixedPoint()
	case kTuple:
		for _, k := range t.Kids {
			if k.hasFixedPoint() {
				return true
			}
		}
	}
	return false
}

func (t *T) hasZeroFixedArr() bool {
	switch t.K {
	case kFixedArr:
		return t.Len == 0 || t.Elem.hasZeroFixedArr()
	case kDynArr:
		return t.Elem.hasZeroFixedArr()
	case kTuple:
		for _, k := range t.Kids {
			if k.hasZeroFixedArr() {
				return true
			}
		}
	}
	return false
}

// topicIsValue: an indexed argument of this type is stored in the topic itself
func (t *T) topicIsValue() bool {
	switch t.K {
	case kUint, kInt, kAddress, kBool, kFixed, kUfixed, kFunction:
		return true
	}
	return false
}

var ekindName = map[kind]string{kUint: "EUInt", kInt: "EInt", kAddress: "EAddress", kBool: "EBool", kFixed: "EFixed",
	kUfixed: "EUFixed", kBytesN: "EBytes", kBytes: "EBytes", kString: "EString", kFunction: "EFunction"}

// Coq prints the dty term (the name of the outermost node is printed by the caller).
func (t *T) Coq() string {
	switch t.K {
	case kFixedArr:
		return fmt.Sprintf("(DFA %d %s)", t.Len, t.Elem.Coq())
	case kDynArr:
		return fmt.Sprintf("(DDA %s)", t.Elem.Coq())
	case kTuple:
		p := make([]string, len(t.Kids))
		for i, k := range t.Kids {
			p[i] = fmt.Sprintf("(%s, %s)", coqString(k.memberName()), k.Coq())
		}
		return "(DTup [" + strings.Join(p, "; ") + "])"
	}
	m, n := t.M, t.N
	switch t.K {
	case kAddress:
		m = 160
	case kBool:
		m = 8
	case kFunction:
		m = 24
	case kBytes, kString:
		m = 0
	}
	return fmt.Sprintf("(DE %s %d %d)", ekindName[t.K], m, n)
}

// the name lives on the outermost node of a member; array levels and the base share it
func (t *T) memberName() string { return t.Name }

func coqString(s string) string {
	return `"` + strings.ReplaceAll(s, `"`, `""`) + `"`
}

// ---------- entries ----------

type Param struct {
	T       *T   `json:"t"`
	Indexed bool `json:"indexed,omitempty"`
}

type Entry struct {
	Type      string  `json:"type"` // function constructor receive fallback event error other
	Name      string  `json:"name"`
	Anonymous bool    `json:"anonymous,omitempty"`
	Inputs    []Param `json:"inputs"`
	// Outputs never contribute to the signature / selector / call data (not printed into the Coq term: the
	// model and the specification are functions of the inputs only)
	Outputs []Param `json:"outputs,omitempty"`
}

var etypeCoq = map[string]string{"function": "TyFunction", "constructor": "TyConstructor", "receive": "TyReceive",
	"fallback": "TyFallback", "event": "TyEvent", "error": "TyError"}

func (e *Entry) Coq() string {
	ps := make([]string, len(e.Inputs))
	for i, p := range e.Inputs {
		ty := "None"
		if p.T.valid() {
			ty = "(Some " + p.T.Coq() + ")"
		}
		ps[i] = fmt.Sprintf("DP %s %s %v", coqString(p.T.Name), ty, p.Indexed)
	}
	ty, ok := etypeCoq[e.Type]
	if !ok {
		ty = "TyOther"
	}
	return fmt.Sprintf("(DEnt %s %s %v [%s])", ty, coqString(e.Name), e.Anonymous, strings.Join(ps, "; "))
}

func (e *Entry) Abi() *abi.Entry {
	ae := &abi.Entry{Type: abi.EntryType(e.Type), Name: e.Name, Anonymous: e.Anonymous, Inputs: abi.ParameterArray{}}
	for _, p := range e.Inputs {
		ae.Inputs = append(ae.Inputs, p.T.Param(p.Indexed))
	}
	for _, p := range e.Outputs {
		ae.Outputs = append(ae.Outputs, p.T.Param(p.Indexed))
	}
	return ae
}

func (e *Entry) valid() bool {
	for _, p := range e.Inputs {
		if !p.T.valid() {
			return false
		}
	}
	return true
}

// Sig: the canonical signature, built from the type trees by the harness
func (e *Entry) Sig() string {
	p := make([]string, len(e.Inputs))
	for i, in := range e.Inputs {
		p[i] = in.T.Sig()
	}
	return e.Name + "(" + strings.Join(p, ",") + ")"
}

func keccak(b []byte) []byte {
	h := sha3.NewLegacyKeccak256()
	h.Write(b)
	return h.Sum(nil)
}

func (e *Entry) Selector() []byte { return keccak([]byte(e.Sig()))[:4] }
func (e *Entry) Topic0() []byte   { return keccak([]byte(e.Sig())) }

func (e *Entry) tuple() *T {
	t := &T{K: kTuple}
	for _, p := range e.Inputs {
		t.Kids = append(t.Kids, p.T)
	}
	return t
}

func (e *Entry) Describe() string {
	p := make([]string, len(e.Inputs))
	for i, in := range e.Inputs {
		b, arr := in.T.base()
		s := in.T.Sig()
		if b.K != kTuple && b.Alias {
			s = b.jsonName() + arr + "(alias)"
		}
		if in.Indexed {
			s += " indexed"
		}
		p[i] = s
	}
	a := ""
	if e.Anonymous {
		a = " anonymous"
	}
	if len(e.Outputs) > 0 {
		o := make([]string, len(e.Outputs))
		for i, out := range e.Outputs {
			o[i] = out.T.Sig()
		}
		a += " returns (" + strings.Join(o, ",") + ")"
	}
	return e.Type + " " + e.Name + "(" + strings.Join(p, ",") + ")" + a
}

// ---------- values ----------

// V mirrors RunC12.v dval.
type V struct {
	Num   *big.Int `json:"num,omitempty"`
	Bytes []byte   `json:"bytes,omitempty"`
	Str   bool     `json:"str,omitempty"` // Bytes is a Go string
	List  []*V     `json:"list,omitempty"`
	IsL   bool     `json:"isl,omitempty"`
	Float []string `json:"float,omitempty"` // mant, exp
	Nil   bool     `json:"nil,omitempty"`
	Other bool     `json:"other,omitempty"`
}

func (v *V) Coq() string {
	switch {
	case v == nil || v.Nil:
		return "DNilP"
	case v.Other:
		return "DOther"
	case v.Float != nil:
		return fmt.Sprintf("(DFloat (%s) (%s))", v.Float[0], v.Float[1])
	case v.Num != nil:
		return fmt.Sprintf("(DNum (%s))", v.Num.String())
	case v.IsL:
		p := make([]string, len(v.List))
		for i, k := range v.List {
			p[i] = k.Coq()
		}
		return "(DList [" + strings.Join(p, "; ") + "])"
	case v.Str:
		return "(DStr " + cv.Compress(v.Bytes).Coq() + ")"
	default:
		return "(DBytes " + cv.Compress(v.Bytes).Coq() + ")"
	}
}

func (v *V) Describe() string {
	switch {
	case v == nil || v.Nil:
		return "nil"
	case v.Other:
		return "other"
	case v.Float != nil:
		return v.Float[0] + "p" + v.Float[1]
	case v.Num != nil:
		return v.Num.String()
	case v.IsL:
		p := make([]string, len(v.List))
		for i, k := range v.List {
			p[i] = k.Describe()
		}
		return "[" + strings.Join(p, ",") + "]"
	case v.Str:
		return fmt.Sprintf("%q", string(v.Bytes))
	default:
		return "0x" + cv.Compress(v.Bytes).Describe()
	}
}

func vlistCoq(l []*V) string {
	p := make([]string, len(l))
	for i, k := range l {
		p[i] = k.Coq()
	}
	return "[" + strings.Join(p, "; ") + "]"
}

// project a value tree returned by the implementation
func proj(c *abi.ComponentValue) *V {
	if c == nil {
		return &V{Nil: true}
	}
	switch x := c.Value.(type) {
	case nil:
		l := make([]*V, len(c.Children))
		for i, k := range c.Children {
			l[i] = proj(k)
		}
		return &V{IsL: true, List: l}
	case *big.Int:
		if x == nil {
			return &V{Other: true}
		}
		return &V{Num: new(big.Int).Set(x)}
	case []byte:
		return &V{Bytes: append([]byte{}, x...)}
	case string:
		return &V{Bytes: []byte(x), Str: true}
	case *big.Float:
		if x == nil || x.IsInf() {
			return &V{Other: true}
		}
		m := new(big.Float).Copy(x)
		e := m.MantExp(m)
		p := int(x.MinPrec())
		m.SetMantExp(m, p)
		i, _ := m.Int(nil)
		return &V{Float: []string{i.String(), fmt.Sprintf("%d", e-p)}}
	default:
		return &V{Other: true}
	}
}

// build the value tree for component tc from v (what walkInput would build for a well-formed input)
func build(tc abi.TypeComponent, v *V) *abi.ComponentValue {
	if v == nil || v.Nil {
		return nil
	}
	c := &abi.ComponentValue{Component: tc}
	switch {
	case v.Num != nil:
		c.Value = new(big.Int).Set(v.Num)
	case v.IsL:
		switch tc.ComponentType() {
		case abi.TupleComponent:
			kids := tc.TupleChildren()
			for i := 0; i < len(kids) && i < len(v.List); i++ {
				c.Children = append(c.Children, build(kids[i], v.List[i]))
			}
		case abi.FixedArrayComponent, abi.DynamicArrayComponent:
			for _, k := range v.List {
				c.Children = append(c.Children, build(tc.ArrayChild(), k))
			}
		}
		if c.Children == nil {
			c.Children = []*abi.ComponentValue{}
		}
	case v.Str:
		c.Value = string(v.Bytes)
	default:
		c.Value = append([]byte{}, v.Bytes...)
	}
	return c
}

// ---------- the Solidity specification encoding, transcribed independently ----------

func word(z *big.Int) []byte {
	m := new(big.Int).Lsh(big.NewInt(1), 256)
	x := new(big.Int).Mod(z, m)
	out := make([]byte, 32)
	x.FillBytes(out)
	return out
}

func padRight(b []byte) []byte {
	out := append([]byte{}, b...)
	for len(out)%32 != 0 {
		out = append(out, 0)
	}
	return out
}

type item struct {
	dyn bool
	enc []byte
}

func headTail(items []item) []byte {
	headLen := 0
	for _, it := range items {
		if it.dyn {
			headLen += 32
		} else {
			headLen += len(it.enc)
		}
	}
	var head, tail []byte
	off := headLen
	for _, it := range items {
		if it.dyn {
			head = append(head, word(big.NewInt(int64(off)))...)
			tail = append(tail, it.enc...)
			off += len(it.enc)
		} else {
			head = append(head, it.enc...)
		}
	}
	return append(head, tail...)
}

func specEnc(t *T, v *V) []byte {
	switch t.K {
	case kUint, kInt, kAddress, kBool, kFixed, kUfixed:
		return word(v.Num)
	case kBytesN, kFunction:
		return padRight(v.Bytes)
	case kBytes, kString:
		return append(word(big.NewInt(int64(len(v.Bytes)))), padRight(v.Bytes)...)
	case kFixedArr, kDynArr:
		items := make([]item, len(v.List))
		for i, e := range v.List {
			items[i] = item{t.Elem.dynamic(), specEnc(t.Elem, e)}
		}
		body := headTail(items)
		if t.K == kDynArr {
			return append(word(big.NewInt(int64(len(v.List)))), body...)
		}
		return body
	case kTuple:
		items := make([]item, len(v.List))
		for i, e := range v.List {
			items[i] = item{t.Kids[i].dynamic(), specEnc(t.Kids[i], e)}
		}
		return headTail(items)
	}
	return nil
}

// ---------- generators ----------

var widths = []int{8, 16, 24, 32, 40, 48, 56, 64, 72, 80, 88, 96, 104, 112, 120, 128, 136, 144, 152, 160, 168, 176,
	184, 192, 200, 208, 216, 224, 232, 240, 248, 256}

func pow2(k int) *big.Int { return new(big.Int).Lsh(big.NewInt(1), uint(k)) }

func genElem(r *cv.Rand, allowFixedPoint bool) *T {
	for {
		switch r.Intn(14) {
		case 0, 1:
			if r.Intn(3) == 0 {
				return &T{K: kUint, M: 256, Alias: r.Bool()}
			}
			return &T{K: kUint, M: widths[r.Intn(32)]}
		case 2, 3:
			if r.Intn(3) == 0 {
				return &T{K: kInt, M: 256, Alias: r.Bool()}
			}
			return &T{K: kInt, M: widths[r.Intn(32)]}
		case 4:
			return &T{K: kAddress}
		case 5:
			return &T{K: kBool}
		case 6, 7:
			return &T{K: kBytesN, M: 1 + r.Intn(32)}
		case 8:
			return &T{K: kBytes}
		case 9:
			return &T{K: kString}
		case 10:
			return &T{K: kFunction}
		case 11, 12:
			if !allowFixedPoint {
				continue
			}
			k := kFixed
			if r.Bool() {
				k = kUfixed
			}
			if r.Intn(3) == 0 {
				return &T{K: k, M: 128, N: 18, Alias: r.Bool()}
			}
			return &T{K: k, M: widths[r.Intn(32)], N: []int{1, 2, 18, 79, 80}[r.Intn(5)]}
		default:
			return &T{K: kUint, M: 256, Alias: true}
		}
	}
}

func genType(r *cv.Rand, depth int, allowFixedPoint, allowZeroLen bool) *T {
	if depth <= 0 || r.Intn(5) < 2 {
		return genElem(r, allowFixedPoint)
	}
	switch r.Intn(4) {
	case 0:
		n := []int{1, 1, 2, 2, 3, 4}[r.Intn(6)]
		if allowZeroLen && r.Intn(8) == 0 {
			n = 0
		}
		if allowZeroLen && r.Intn(12) == 0 {
			n = []int{10, 255, 256, 65536, 4294967295}[r.Intn(5)]
		}
		return &T{K: kFixedArr, Len: n, Elem: genType(r, depth-1, allowFixedPoint, allowZeroLen)}
	case 1:
		return &T{K: kDynArr, Elem: genType(r, depth-1, allowFixedPoint, allowZeroLen)}
	default:
		n := []int{0, 1, 1, 2, 2, 3, 4}[r.Intn(7)]
		t := &T{K: kTuple}
		for i := 0; i < n; i++ {
			k := genType(r, depth-1, allowFixedPoint, allowZeroLen)
			setName(k, memberName(r, i))
			t.Kids = append(t.Kids, k)
		}
		return t
	}
}

func memberName(r *cv.Rand, i int) string {
	switch r.Intn(6) {
	case 0:
		return ""
	case 1:
		return fmt.Sprintf("%d", i)
	default:
		return fmt.Sprintf("%c%d", 'a'+byte(r.Intn(26)), i)
	}
}

func setName(t *T, name string) { t.Name = name }

var entryNames = []string{"transfer", "Transfer", "f", "g", "foo", "bar", "baz", "sam", "x_1", "$pay", "Error", "Panic", "a", "",
	"approve", "E", "MyEvent", "InsufficientBalance", "f2", "set"}

func genEntry(r *cv.Rand, typ string, nparams, depth int, allowFixedPoint, allowZeroLen bool) *Entry {
	e := &Entry{Type: typ, Name: entryNames[r.Intn(len(entryNames))]}
	for i := 0; i < nparams; i++ {
		t := genType(r, depth, allowFixedPoint, allowZeroLen)
		setName(t, memberName(r, i))
		e.Inputs = append(e.Inputs, Param{T: t})
	}
	return e
}

func randBytes(r *cv.Rand, n int) []byte {
	switch r.Intn(4) {
	case 0:
		return make([]byte, n)
	case 1:
		b := make([]byte, n)
		for i := range b {
			b[i] = 0xff
		}
		return b
	default:
		return r.Bytes(n)
	}
}

func randBelow(r *cv.Rand, bound *big.Int) *big.Int {
	// bound > 0
	b := r.Bytes(len(bound.Bytes()) + 1)
	return new(big.Int).Mod(new(big.Int).SetBytes(b), bound)
}

// a well-typed value of type t
func genValue(r *cv.Rand, t *T) *V {
	switch t.K {
	case kUint, kUfixed:
		hi := pow2(t.M)
		switch r.Intn(6) {
		case 0:
			return &V{Num: big.NewInt(0)}
		case 1:
			return &V{Num: big.NewInt(1)}
		case 2:
			return &V{Num: new(big.Int).Sub(hi, big.NewInt(1))}
		case 3:
			return &V{Num: pow2(t.M - 1)}
		default:
			return &V{Num: randBelow(r, hi)}
		}
	case kInt, kFixed:
		half := pow2(t.M - 1)
		switch r.Intn(7) {
		case 0:
			return &V{Num: big.NewInt(0)}
		case 1:
			return &V{Num: big.NewInt(-1)}
		case 2:
			return &V{Num: new(big.Int).Sub(half, big.NewInt(1))}
		case 3:
			return &V{Num: new(big.Int).Neg(half)}
		case 4:
			return &V{Num: big.NewInt(1)}
		default:
			return &V{Num: new(big.Int).Sub(randBelow(r, pow2(t.M)), half)}
		}
	case kAddress:
		if r.Intn(5) == 0 {
			return &V{Num: new(big.Int).Sub(pow2(160), big.NewInt(1))}
		}
		return &V{Num: randBelow(r, pow2(160))}
	case kBool:
		return &V{Num: big.NewInt(int64(r.Intn(2)))}
	case kBytesN:
		return &V{Bytes: nonNil(randBytes(r, t.M))}
	case kFunction:
		return &V{Bytes: nonNil(randBytes(r, 24))}
	case kBytes:
		return &V{Bytes: nonNil(randBytes(r, []int{0, 1, 31, 32, 33, 64, 65}[r.Intn(7)]))}
	case kString:
		s := []string{"", "a", "Hello World", "0123456789012345678901234567890", "01234567890123456789012345678901",
			"012345678901234567890123456789012", "héllo 世界", "not enough balance for transfer; needed 100 more"}[r.Intn(8)]
		return &V{Bytes: []byte(s), Str: true}
	case kFixedArr:
		l := make([]*V, t.Len)
		for i := range l {
			l[i] = genValue(r, t.Elem)
		}
		return &V{IsL: true, List: l}
	case kDynArr:
		l := make([]*V, []int{0, 1, 2, 3}[r.Intn(4)])
		for i := range l {
			l[i] = genValue(r, t.Elem)
		}
		return &V{IsL: true, List: l}
	case kTuple:
		l := make([]*V, len(t.Kids))
		for i := range l {
			l[i] = genValue(r, t.Kids[i])
		}
		return &V{IsL: true, List: l}
	}
	return &V{Other: true}
}

func nonNil(b []byte) []byte {
	if b == nil {
		return []byte{}
	}
	return b
}

func (v *V) Equal(w *V) bool {
	if v == nil || w == nil {
		return v == w
	}
	switch {
	case v.Nil || v.Other || v.Float != nil:
		return false
	case v.Num != nil:
		return w.Num != nil && v.Num.Cmp(w.Num) == 0
	case v.IsL:
		if !w.IsL || len(v.List) != len(w.List) {
			return false
		}
		for i := range v.List {
			if !v.List[i].Equal(w.List[i]) {
				return false
			}
		}
		return true
	default:
		return w.Num == nil && !w.IsL && w.Str == v.Str && string(v.Bytes) == string(w.Bytes)
	}
}
