// Sequences: the model is pure -- Signature / selector / topic0 / every decoding are functions of the
// entry definition -- so the implementation has to be observed the same way: many operations on ONE
// parsed object, every answer compared with the model (the steps are ordinary cases evaluated by
// Abi/RunC12.v, grouped into one HSeq term) and every repeated observation compared with the first one
// (Go side, reported through stats.impl_oracle_failures with the whole sequence as replay).
//
// The objects of a sequence (Spec.ABI: event E, function twin F, error twin X, ...) are built once:
//   own    -- every entry has its own abi.Parameter values (what json.Unmarshal gives)
//   shared -- entries whose i-th parameters are equal share ONE *abi.Parameter (and so its cached type tree)
//   json   -- the ABI is serialised and parsed back with abi.ParseABI
// and optionally used from several goroutines (before or after the sequential pass).
package main

import (
	"encoding/hex"
	"encoding/json"
	"fmt"
	"sort"
	"strings"
	"sync"

	"github.com/hyperledger/firefly-signer/pkg/abi"
	"verifharness/cv"
)

func sameParam(a, b Param) bool {
	x, _ := json.Marshal(a)
	y, _ := json.Marshal(b)
	return string(x) == string(y)
}

// backing records every slice of *Entry / *Parameter handed to the implementation over its FULL capacity: all
// of them are sub-slices with spare capacity whose tail holds other values (canaries, or the entries of a longer
// slice), so an append / write through a slice the implementation was given is visible afterwards.
type backing struct {
	ents   []*abi.Entry
	snapE  []*abi.Entry
	params [][]*abi.Parameter
	snapP  [][]*abi.Parameter
}

func (b *backing) rehouse(pa abi.ParameterArray) abi.ParameterArray {
	full := make(abi.ParameterArray, len(pa), len(pa)+2)
	copy(full, pa)
	tail := full[:cap(full)]
	tail[len(pa)] = &abi.Parameter{Name: "canary1", Type: "uint8"}
	tail[len(pa)+1] = &abi.Parameter{Name: "canary2", Type: "bool"}
	for _, p := range pa {
		if p != nil && len(p.Components) > 0 {
			p.Components = b.rehouse(p.Components)
		}
	}
	b.params = append(b.params, tail)
	return full
}

func (b *backing) snapshot() {
	b.snapE = append([]*abi.Entry{}, b.ents...)
	b.snapP = nil
	for _, p := range b.params {
		b.snapP = append(b.snapP, append([]*abi.Parameter{}, p...))
	}
}

// changed: which backing array no longer holds the pointers it held when the objects were built
func (b *backing) changed() string {
	for i := range b.ents {
		if b.ents[i] != b.snapE[i] {
			return fmt.Sprintf("the backing array of the ABI slice changed at index %d", i)
		}
	}
	for k, p := range b.params {
		for i := range p {
			if p[i] != b.snapP[k][i] {
				return fmt.Sprintf("the backing array of a ParameterArray (%d parameters + spare capacity) changed at index %d", len(p)-2, i)
			}
		}
	}
	return ""
}

// buildObjects builds the pkg/abi objects of a sequence: the ABI is full[:n] of a longer array, every
// Inputs / Outputs / Components slice has spare capacity
func buildObjects(s *Spec) (abi.ABI, *backing) {
	a := buildEntries(s)
	b := &backing{}
	for i, e := range a {
		if s.PrefixTwin && i == len(a)-1 && i > 0 {
			e.Inputs = a[0].Inputs[:len(e.Inputs)] // same backing array as the event's parameter list
		} else {
			e.Inputs = b.rehouse(e.Inputs)
		}
		e.Outputs = b.rehouse(e.Outputs)
	}
	full := make(abi.ABI, len(a), len(a)+3)
	copy(full, a)
	tail := full[:cap(full)]
	for i := len(a); i < len(tail); i++ {
		tail[i] = &abi.Entry{Type: abi.Error, Name: fmt.Sprintf("Canary%d", i), Inputs: abi.ParameterArray{}}
	}
	b.ents = tail
	b.snapshot()
	return full, b
}

func buildEntries(s *Spec) abi.ABI {
	var a abi.ABI
	switch s.Mode {
	case "shared":
		for k, e := range s.ABI {
			ae := &abi.Entry{Type: abi.EntryType(e.Type), Name: e.Name, Anonymous: e.Anonymous, Inputs: abi.ParameterArray{}}
			for i, p := range e.Inputs {
				var shared *abi.Parameter
				for j := 0; j < k && shared == nil; j++ {
					if i < len(s.ABI[j].Inputs) && sameParam(s.ABI[j].Inputs[i], p) {
						shared = a[j].Inputs[i]
					}
				}
				if shared == nil {
					shared = p.T.Param(p.Indexed)
				}
				ae.Inputs = append(ae.Inputs, shared)
			}
			for _, p := range e.Outputs {
				ae.Outputs = append(ae.Outputs, p.T.Param(p.Indexed))
			}
			a = append(a, ae)
		}
	case "json":
		for _, e := range s.ABI {
			a = append(a, e.Abi())
		}
		b, err := json.Marshal(a)
		if err != nil {
			panic(err)
		}
		parsed, err := abi.ParseABI(b)
		if err != nil || len(parsed) != len(a) {
			panic(fmt.Sprintf("harness: ABI JSON did not parse back: %v", err))
		}
		a = parsed
	default:
		for _, e := range s.ABI {
			a = append(a, e.Abi())
		}
	}
	return a
}

// external form of a value for ParseExternalData (only used by touch steps: what matters is that the
// input walker runs over the cached type tree, not the value)
func ext(t *T, v *V) interface{} {
	switch t.K {
	case kBool:
		return v.Num != nil && v.Num.Sign() != 0
	case kAddress:
		return fmt.Sprintf("0x%040x", v.Num)
	case kUint, kInt, kFixed, kUfixed:
		return v.Num.String()
	case kBytesN, kBytes, kFunction:
		return "0x" + hex.EncodeToString(v.Bytes)
	case kString:
		return string(v.Bytes)
	case kFixedArr, kDynArr:
		l := make([]interface{}, len(v.List))
		for i, k := range v.List {
			l[i] = ext(t.Elem, k)
		}
		return l
	case kTuple:
		l := make([]interface{}, len(v.List))
		for i, k := range v.List {
			l[i] = ext(t.Kids[i], k)
		}
		return l
	}
	return nil
}

func walkTree(tc abi.TypeComponent, out *[]string, depth int) {
	if tc == nil || depth > 8 {
		return
	}
	*out = append(*out, tc.String()+"/"+tc.KeyName()+fmt.Sprintf("/%d", tc.ComponentType()))
	_ = tc.Parameter()
	switch tc.ComponentType() { // the accessors return typed nil pointers for the other component types
	case abi.ElementaryComponent:
		_ = tc.ElementaryType()
	case abi.FixedArrayComponent, abi.DynamicArrayComponent:
		walkTree(tc.ArrayChild(), out, depth+1)
	case abi.TupleComponent:
		for _, c := range tc.TupleChildren() {
			walkTree(c, out, depth+1)
		}
	}
}

// runTouch: operations that are not modelled themselves but read (and may fill) the caches the modelled
// ones depend on.  The observation is the signature-level text only.
func runTouch(s *Spec) {
	ae := s.ae
	var obs []string
	p, msg := safely(func() {
		for _, op := range strings.Split(s.Class, ",") {
			switch op {
			case "string":
				obs = append(obs, "String="+ae.String())
				for _, in := range ae.Inputs {
					obs = append(obs, in.String())
				}
			case "tree":
				tc, err := ae.Inputs.TypeComponentTree()
				if err == nil {
					walkTree(tc, &obs, 0)
				}
				for _, in := range ae.Inputs {
					if t1, err := in.TypeComponentTree(); err == nil {
						obs = append(obs, "p:"+t1.String())
					}
				}
			case "sol":
				_ = ae.SolString()
				_, _, _ = ae.SolidityDef()
			case "validate":
				obs = append(obs, fmt.Sprintf("validate=%v", ae.Validate() == nil))
			case "validate-abi":
				obs = append(obs, fmt.Sprintf("validate-abi=%v", s.aabi.Validate() == nil))
			case "maps":
				var names []string
				for n, e := range s.aabi.Events() {
					names = append(names, "ev:"+n+"="+e.String())
				}
				for n, e := range s.aabi.Functions() {
					names = append(names, "fn:"+n+"="+e.String())
				}
				for n, e := range s.aabi.Errors() {
					names = append(names, "er:"+n+"="+e.String())
				}
				if c := s.aabi.Constructor(); c != nil {
					names = append(names, "constructor="+c.String())
				}
				sort.Strings(names)
				obs = append(obs, names...)
			case "marshal":
				b, err := json.Marshal(ae)
				if err == nil {
					var back abi.Entry
					if json.Unmarshal(b, &back) == nil {
						obs = append(obs, "json="+back.String())
					}
				}
			case "input":
				if s.Value != nil {
					cvv, err := ae.Inputs.ParseExternalData(ext(s.Entry.tuple(), s.Value))
					if err == nil {
						b, err2 := cvv.EncodeABIData()
						obs = append(obs, fmt.Sprintf("input=%s,%v", hex.EncodeToString(keccak(b)[:6]), err2 == nil))
						if cd, err3 := ae.EncodeCallDataValues(ext(s.Entry.tuple(), s.Value)); err3 == nil {
							obs = append(obs, "calldata="+hex.EncodeToString(keccak(cd)[:6]))
						}
					} else {
						obs = append(obs, "input=refused")
					}
				}
			case "selector":
				id, err := ae.GenerateFunctionSelector()
				h, err2 := ae.SignatureHash()
				obs = append(obs, fmt.Sprintf("id=%s,%v hash=%s,%v", hex.EncodeToString(id), err == nil, hex.EncodeToString(h), err2 == nil))
			}
		}
	})
	s.Describe = fmt.Sprintf("touch[%s] prefix=%d %s", s.Class, s.Prefix, s.Entry.Describe())
	if s.Value != nil {
		s.Describe += " value=" + s.Value.Describe()
	}
	s.Observed = fmt.Sprintf("panic=%v %s %s", p, strings.Join(obs, " | "), msg)
	s.panicked = p
}

func (s *Spec) identity() string { return fmt.Sprintf("%s|%d|%s", s.Kind, s.Obj, s.Describe) }

// attach the shared objects to a step
func (s *Spec) bind(seq *Spec, objs abi.ABI, names []string) {
	s.aabi = objs
	s.arena = cv.NewArena(4096)
	k := len(objs)
	if s.Prefix > 0 && s.Prefix < k {
		k = s.Prefix
		s.aabi = objs[:k] // shorter slice, same backing array: what follows are the longer ABI's entries
	}
	if s.Kind == "err" {
		s.ABI = seq.ABI[:k]
		s.coqEnts = names[:k]
		return
	}
	s.Entry = seq.ABI[s.Obj]
	s.ae = objs[s.Obj]
	s.coqEnt = names[s.Obj]
}

func (s *Spec) unbind() {
	s.aabi, s.ae, s.coqEnt, s.coqEnts, s.arena = nil, nil, "", nil, nil
	s.Entry, s.ABI = nil, nil
}

func runStep(step *Spec, st *cv.Stats) string {
	if step.Kind == "touch" {
		runTouch(step)
		return ""
	}
	return run(step, st)
}

func runSeq(s *Spec, st *cv.Stats) string {
	objs, back := buildObjects(s)
	names := make([]string, len(s.ABI))
	var lets []string
	for i, e := range s.ABI {
		names[i] = fmt.Sprintf("e%d", i)
		lets = append(lets, fmt.Sprintf("let e%d := %s in", i, e.Coq()))
	}
	for _, step := range s.Steps {
		step.bind(s, objs, names)
	}
	s.Changed = nil
	// several goroutines on the not yet validated objects
	var early [][]string
	if s.Par > 0 && s.First {
		early = runParallel(s, objs, names)
	}
	var terms []string
	first := map[string]int{}
	if s.Par > 0 && s.First {
		if c := back.changed(); c != "" {
			s.Changed = append(s.Changed, "after the concurrent pass: "+c)
			back.snapshot()
		}
	}
	for i, step := range s.Steps {
		step.aliasing = nil
		if t := runStep(step, st); t != "" {
			terms = append(terms, t)
		}
		st.Hit("seq-step:" + step.Kind)
		// the caller's memory is as it was: slices of entries / parameters over their full capacity, the arena
		// the byte inputs were carved from
		if c := back.changed(); c != "" {
			step.aliasing = append(step.aliasing, c)
			back.snapshot()
		}
		for _, al := range step.aliasing {
			s.Changed = append(s.Changed, fmt.Sprintf("step %d (%s on %s) wrote to memory of the caller: %s", i, step.Kind, step.Describe, al))
		}
		// the same request on separately allocated objects and inputs gives the same answer
		if step.Kind != "touch" {
			f := *step
			f.ae, f.aabi, f.arena, f.retain = nil, nil, nil, nil
			run(&f, cv.NewStats())
			if f.Observed != step.Observed {
				s.Changed = append(s.Changed, fmt.Sprintf("step %d (%s on %s) answers differently on the shared / aliased objects than on separately allocated copies: shared %s -- separate %s",
					i, step.Kind, step.Describe, step.Observed, f.Observed))
			}
		}
		if step.Kind == "touch" && step.panicked {
			s.Changed = append(s.Changed, fmt.Sprintf("step %d (%s) panicked: %s", i, step.Describe, step.Observed))
		}
		id := step.identity()
		if j, ok := first[id]; ok {
			if s.Steps[j].Observed != step.Observed {
				s.Changed = append(s.Changed, fmt.Sprintf("step %d repeats step %d (%s on %s) and answers differently: first %s -- later %s",
					i, j, step.Kind, step.Describe, s.Steps[j].Observed, step.Observed))
			}
		} else {
			first[id] = i
		}
	}
	// results returned earlier must still read the same after everything that ran since
	for i, step := range s.Steps {
		if step.retain == nil {
			continue
		}
		now := ""
		p, _ := safely(func() { now = step.retain() })
		if p || now != step.retained0 {
			s.Changed = append(s.Changed, fmt.Sprintf("the values returned by step %d (%s on %s) changed after later calls: returned %s -- now %s",
				i, step.Kind, step.Describe, step.retained0, now))
		}
		step.retain = nil
	}
	var late [][]string
	if s.Par > 0 && !s.First {
		late = runParallel(s, objs, names)
	}
	for g, obs := range append(early, late...) {
		for i, o := range obs {
			if o != s.Steps[i].Observed {
				s.Changed = append(s.Changed, fmt.Sprintf("goroutine %d, step %d (%s on %s) answers differently from the sequential pass: sequential %s -- concurrent %s",
					g, i, s.Steps[i].Kind, s.Steps[i].Describe, s.Steps[i].Observed, o))
			}
		}
	}
	descs := make([]string, len(s.ABI))
	for i, e := range s.ABI {
		descs[i] = e.Describe()
	}
	s.Describe = fmt.Sprintf("sequence mode=%s par=%d first=%v objects=[%s] steps=%d", s.Mode, s.Par, s.First, strings.Join(descs, "; "), len(s.Steps))
	s.Observed = fmt.Sprintf("%d steps, %d changed answers", len(s.Steps), len(s.Changed))
	if len(s.Changed) > 5 {
		s.Changed = append(s.Changed[:5], fmt.Sprintf("... and %d more", len(s.Changed)-5))
	}
	for _, step := range s.Steps {
		step.unbind()
	}
	if len(s.Changed) > 0 {
		s.What = "one parsed ABI entry answered differently when asked again (signature / selector / topic0 / decoding are functions of the entry definition): " + s.Changed[0]
		b, _ := json.Marshal(s)
		var f map[string]interface{}
		json.Unmarshal(b, &f)
		f["key"] = s.Key
		st.ImplFailures = append(st.ImplFailures, f)
		st.Hit("seq:changed-answer")
	}
	st.Hit(fmt.Sprintf("seq:mode=%s,par=%d,first=%v", s.Mode, s.Par, s.First))
	return fmt.Sprintf("%s HSeq %s [%s]", strings.Join(lets, " "), hashTable(s), strings.Join(terms, "; "))
}

// runParallel runs all the steps of the sequence from s.Par goroutines on the same objects (each with its
// own copies of the step descriptions) and returns what each observed
func runParallel(s *Spec, objs abi.ABI, names []string) [][]string {
	out := make([][]string, s.Par)
	var wg sync.WaitGroup
	for g := 0; g < s.Par; g++ {
		wg.Add(1)
		go func(g int) {
			defer wg.Done()
			st := cv.NewStats()
			obs := make([]string, len(s.Steps))
			n := len(s.Steps)
			for k := 0; k < n; k++ {
				i := k
				if g%2 == 1 { // odd goroutines walk the steps backwards
					i = n - 1 - k
				}
				c := *s.Steps[i]
				c.bind(s, objs, names)
				runStep(&c, st)
				obs[i] = c.Observed
			}
			out[g] = obs
		}(g)
	}
	wg.Wait()
	return out
}

// ---------- generation ----------

// bytesTwin: the event whose indexed members that are surfaced as the raw topic are declared `bytes`
// (what the raw-topic component looks like) -- a different event unless nothing changes
func bytesTwin(e *Entry) *Entry {
	c := cloneEntry(e)
	for i, p := range c.Inputs {
		if p.Indexed && !p.T.topicIsValue() {
			c.Inputs[i].T = &T{K: kBytes, Name: p.T.Name}
		}
	}
	return c
}

func (g *gen) sequence(r *cv.Rand, e *Entry, mode string, par int, parFirst bool, extra ...*Entry) {
	exact := !e.tuple().hasFixedPoint()
	nIdx := 0
	for _, p := range e.Inputs {
		if p.Indexed {
			nIdx++
		}
	}
	f := cloneEntry(e)
	f.Type, f.Anonymous = "function", false
	for i := len(e.Inputs) - 1; i >= 0; i-- { // return values: the inputs backwards (must not show anywhere)
		f.Outputs = append(f.Outputs, Param{T: e.Inputs[i].T})
	}
	x := cloneEntry(e)
	x.Type, x.Anonymous, x.Name = "error", false, e.Name+"Err"
	if mode != "shared" {
		for i := range f.Inputs {
			f.Inputs[i].Indexed = false
			x.Inputs[i].Indexed = false
		}
	}
	other := genEntry(r, "error", r.Intn(3), 1, false, false)
	other.Name = "Other"
	seq := &Spec{Kind: "seq", Class: fmt.Sprintf("seq:%s:par=%d", mode, par), ABI: append([]*Entry{e, f, x, other}, extra...), Mode: mode, Par: par, First: parFirst}
	P := -1
	if len(e.Inputs) >= 1 {
		// a function over the first n-1 parameters whose Inputs slice is a sub-slice of the event's own
		tw := cloneEntry(e)
		tw.Type, tw.Anonymous, tw.Name = "function", false, e.Name+"P"
		tw.Inputs = tw.Inputs[:len(tw.Inputs)-1]
		seq.ABI = append(seq.ABI, tw)
		seq.PrefixTwin = true
		P = len(seq.ABI) - 1
	}
	const E, F, X = 0, 1, 2
	sig := func(objs ...int) []*Spec {
		var l []*Spec
		for _, o := range objs {
			l = append(l, &Spec{Kind: "sig", Class: "seq", Obj: o})
		}
		return l
	}
	newLog := func() []*Spec {
		vals := make([]*V, len(e.Inputs))
		for i, p := range e.Inputs {
			vals[i] = genValue(r, p.T)
		}
		topics, data, exp, _ := buildLog(r, e, vals)
		good := &Spec{Kind: "event", Class: "seq:valid", Obj: E, Topics: topics, Data: data}
		if exact && nIdx <= 4 && !(nIdx == 4 && !e.Anonymous) {
			good.Expect, good.ExpVals = "values", exp
		} else {
			good.Lenient = nIdx > 3
		}
		l := []*Spec{good}
		// logs of other events: the twin with `bytes` in place of the hashed indexed members, a renamed one,
		// the own log with a topic missing
		if !e.Anonymous {
			tw := bytesTwin(e)
			if tw.Sig() != e.Sig() {
				l = append(l, &Spec{Kind: "event", Class: "seq:foreign-topic0:bytes-twin", Obj: E, Topics: append([]hexb{tw.Topic0()}, topics[1:]...), Data: data, Expect: "refuse"})
			}
			o := cloneEntry(e)
			o.Name = e.Name + "2"
			l = append(l, &Spec{Kind: "event", Class: "seq:foreign-topic0:other-event", Obj: E, Topics: append([]hexb{o.Topic0()}, topics[1:]...), Data: data, Expect: "refuse"})
		}
		if len(topics) > 0 {
			l = append(l, &Spec{Kind: "event", Class: "seq:too-few-topics", Obj: E, Topics: topics[:len(topics)-1], Data: data, Expect: "refuse"})
		}
		return l
	}
	call := func(obj int) []*Spec {
		ent := seq.ABI[obj]
		v := genValue(r, ent.tuple())
		c := &Spec{Kind: "call", Class: "seq:roundtrip", Obj: obj, Value: v, Exact: exact && !ent.tuple().hasZeroFixedArr()}
		data := append(ent.Selector(), specEnc(ent.tuple(), v)...)
		d1 := &Spec{Kind: "dec", Class: "seq:own", Obj: obj, Data: data}
		foreign := append(append([]byte{}, other.Selector()...), data[4:]...)
		d2 := &Spec{Kind: "dec", Class: "seq:foreign", Obj: obj, Data: foreign}
		return []*Spec{c, d1, d2}
	}
	revertOn := func(k int) []*Spec {
		all := append([]*Entry{{Type: "error", Name: "Error", Inputs: []Param{{T: &T{K: kString, Name: "reason"}}}}}, seq.ABI[:k]...)
		pre := k
		if k == len(seq.ABI) {
			pre = 0
		}
		firstWithSel := func(sel []byte) int {
			for k, en := range all {
				if en.Type == "error" && string(en.Selector()) == string(sel) {
					return k
				}
			}
			return -1
		}
		var l []*Spec
		for _, en := range []*Entry{x, all[0], other} {
			v := genValue(r, en.tuple())
			sp := &Spec{Kind: "err", Class: fmt.Sprintf("seq:own-data:prefix=%d", pre), Prefix: pre, Data: append(en.Selector(), specEnc(en.tuple(), v)...)}
			if idx := firstWithSel(en.Selector()); idx < 0 {
				sp.Expect = "refuse" // the definition lies beyond the end of this (shorter) ABI slice
			} else if !en.tuple().hasFixedPoint() {
				sp.Expect, sp.ExpIdx, sp.ExpVals = "values", idx, v.List
			}
			l = append(l, sp)
		}
		// the function twin's call data is not revert data of any error (unless a selector coincides)
		v := genValue(r, f.tuple())
		sp := &Spec{Kind: "err", Class: "seq:function-selector", Prefix: pre, Data: append(f.Selector(), specEnc(f.tuple(), v)...)}
		if firstWithSel(f.Selector()) < 0 {
			sp.Expect = "refuse"
		}
		return append(l, sp)
	}
	// lookups on the shorter slices of the ABI's backing array first, on the whole ABI afterwards
	revert := func() []*Spec {
		var l []*Spec
		l = append(l, &Spec{Kind: "touch", Class: "maps,validate-abi", Obj: E, Prefix: 2})
		l = append(l, revertOn(2)...)
		l = append(l, revertOn(3)[:2]...)
		l = append(l, &Spec{Kind: "touch", Class: "maps", Obj: E})
		return append(l, revertOn(len(seq.ABI))...)
	}
	touch := func(obj int) []*Spec {
		ops := []string{"string", "tree", "sol", "maps", "marshal", "input", "selector"}
		k := r.Intn(len(ops))
		cls := ops[k] + "," + ops[(k+1+r.Intn(len(ops)-1))%len(ops)]
		if r.Intn(4) == 0 {
			cls += "," + []string{"validate", "validate-abi"}[r.Intn(2)]
		}
		return []*Spec{{Kind: "touch", Class: cls, Obj: obj, Value: genValue(r, seq.ABI[obj].tuple())}}
	}

	log1 := newLog()
	blocks := [][]*Spec{log1, call(F), revert(), touch(E), touch([]int{F, X}[r.Intn(2)])}
	for k := range extra {
		blocks = append(blocks, touch(4+k), sig(4+k))
	}
	if P >= 0 {
		blocks = append(blocks, append(append(sig(P), touch(P)...), call(P)...))
	}
	if r.Bool() {
		blocks = append(blocks, call(E))
	}
	if r.Bool() {
		blocks = append(blocks, newLog())
	}
	// order: the first log decode comes first in half of the sequences (objects not validated by anything else)
	for i := len(blocks) - 1; i > 0; i-- {
		j := r.Intn(i + 1)
		if j == 0 && r.Bool() {
			continue
		}
		blocks[i], blocks[j] = blocks[j], blocks[i]
	}
	var steps []*Spec
	if r.Intn(3) > 0 {
		steps = append(steps, sig(E, F, X)...)
	}
	for bi, b := range blocks {
		steps = append(steps, b...)
		steps = append(steps, sig(E)...)
		if (mode == "shared" && bi%2 == 0) || r.Intn(4) == 0 {
			steps = append(steps, sig(F, X)...)
		}
	}
	// the first log again (same topics, same data), all signatures, and decoding through the twins
	for _, st := range log1 {
		c := *st
		steps = append(steps, &c)
	}
	steps = append(steps, sig(E, F, X)...)
	steps = append(steps, call(X)[1:]...)
	steps = append(steps, revertOn(len(seq.ABI))[:3]...)
	if P >= 0 {
		steps = append(steps, sig(P)...)
	}
	seq.Steps = steps
	g.add(seq)
}

func (g *gen) sequences(r *cv.Rand, nRandom int, thorough bool) {
	modes := []string{"own", "shared", "json"}
	k := 0
	next := func() (string, int, bool) {
		k++
		par := 0
		if k%4 == 0 {
			par = 4
		}
		return modes[k%3], par, k%8 == 0
	}
	// every kind of indexed member, named and anonymous
	kinds := []*T{{K: kString}, {K: kBytes}, {K: kBytesN, M: 1}, {K: kBytesN, M: 32}, {K: kBytesN, M: 20},
		{K: kDynArr, Elem: &T{K: kUint, M: 8}}, {K: kFixedArr, Len: 2, Elem: &T{K: kAddress}}, {K: kDynArr, Elem: &T{K: kString}},
		{K: kTuple, Kids: []*T{{K: kUint, M: 8, Name: "x"}, {K: kBool, Name: "y"}}},
		{K: kTuple, Kids: []*T{{K: kString, Name: "x"}, {K: kDynArr, Elem: &T{K: kBytesN, M: 4}, Name: "y"}}},
		{K: kFixedArr, Len: 2, Elem: &T{K: kTuple, Kids: []*T{{K: kUint, M: 256, Alias: true, Name: "q"}}}},
		{K: kUint, M: 256, Alias: true}, {K: kInt, M: 64}, {K: kAddress}, {K: kBool}, {K: kFunction}, {K: kFixed, M: 128, N: 18}}
	for ki, kd := range kinds {
		for _, anon := range []bool{false, true} {
			if anon && !thorough && ki%3 != 0 {
				continue
			}
			c := *kd
			c.Name = "ix"
			e := &Entry{Type: "event", Name: "Named", Anonymous: anon, Inputs: []Param{{T: &T{K: kUint, M: 256, Name: "a"}}, {T: &c, Indexed: true}, {T: &T{K: kString, Name: "s"}}}}
			mode, par, pf := next()
			g.sequence(r, e, mode, par, pf)
		}
	}
	// two and three hashed indexed members, first / last position
	s2 := &Entry{Type: "event", Name: "Two", Inputs: []Param{{T: &T{K: kString, Name: "a"}, Indexed: true}, {T: &T{K: kUint, M: 8, Name: "b"}},
		{T: &T{K: kDynArr, Elem: &T{K: kBytesN, M: 32}, Name: "c"}, Indexed: true}, {T: &T{K: kBytesN, M: 8, Name: "d"}, Indexed: true}}}
	for _, m := range modes {
		g.sequence(r, s2, m, 4, m == "json")
	}
	// an ABI that also holds a constructor and an entry whose type does not validate (skipped by ParseError,
	// reported by Validate, rendered as "" by String)
	for _, m := range modes {
		g.sequence(r, s2, m, 0, false, &Entry{Type: "constructor", Inputs: []Param{{T: &T{K: kUint, M: 256, Name: "supply"}}}},
			&Entry{Type: "error", Name: "Bad", Inputs: []Param{{T: &T{K: kInvalid, Bad: "wrong", Name: "z"}}}},
			&Entry{Type: "error", Name: "Error", Inputs: []Param{{T: &T{K: kString, Name: "message"}}}})
	}
	// random events
	for i := 0; i < nRandom; i++ {
		e := genEntry(r, "event", 1+i%7, 1+r.Intn(3), i%5 == 4, false)
		e.Anonymous = r.Intn(3) == 0
		limit := 3
		if e.Anonymous {
			limit = 4
		}
		c := 0
		for j := range e.Inputs {
			if c < limit && r.Intn(2) == 0 {
				e.Inputs[j].Indexed = true
				c++
			}
		}
		mode, par, pf := next()
		g.sequence(r, e, mode, par, pf)
	}
}
