// Harness for C12 (selectors, event topics, error selectors identify exactly the right ABI entry).
// Generates ABI entries (functions, events incl. anonymous, errors) over structured type trees, call
// data, event logs and revert data -- valid, foreign and malformed -- runs pkg/abi on them under
// recover() and writes the case files evaluated by Abi/RunC12.v.
package main

import (
	"encoding/json"
	"flag"
	"fmt"
	"io"
	"math/big"
	"os"
	"path/filepath"
	"strings"

	"github.com/sirupsen/logrus"
	"verifharness/cv"
)

const header = "From Coq Require Import String List NArith ZArith Uint63.\n" +
	"From FFS Require Import Base.Bytes Base.Lit Abi.ModelTypes Abi.EntryModel Abi.RunC12.\n" +
	"Import ListNotations.\nOpen Scope string_scope. Open Scope N_scope."

type gen struct {
	w    *cv.Writer
	st   *cv.Stats
	seen map[string]bool
	cur  string
	// beyondLimit: the events being generated have more indexed arguments than the EVM has topics; no
	// expectation is attached and a refusal is not compared
	beyondLimit bool
}

func (g *gen) add(s *Spec) {
	b, _ := json.Marshal(s)
	os.WriteFile(g.cur, b, 0o644)
	term := run(s, g.st)
	if s.Kind == "seq" {
		term = "(" + term + ")" // let e0 := .. in HSeq table [steps]
	} else {
		term = "HC " + hashTable(s) + " (" + term + ")"
	}
	s.CoqTermLen = len(term)
	key := s.Kind + "|" + s.Describe
	if !g.seen[key] {
		g.seen[key] = true
		g.st.Distinct++
	}
	g.st.Evaluations++
	g.st.Hit("kind:" + s.Kind)
	if len(g.st.Samples) < 24 && (g.st.Evaluations%37 == 1) {
		g.st.Samples = append(g.st.Samples, map[string]string{"kind": s.Kind, "class": s.Class, "input": s.Describe, "observed": s.Observed})
	}
	g.w.Add(term, s)
}

// hashTable: (signature, Keccak-256 digest) for every entry of the case, computed by the harness from its
// own canonical signature with golang.org/x/crypto/sha3 directly
func hashTable(s *Spec) string {
	var ents []*Entry
	if s.Entry != nil {
		ents = append(ents, s.Entry)
	}
	if s.Kind == "err" || s.Kind == "seq" {
		ents = append(ents, &Entry{Type: "error", Name: "Error", Inputs: []Param{{T: &T{K: kString, Name: "reason"}}}})
		ents = append(ents, s.ABI...)
	}
	seen := map[string]bool{}
	var parts []string
	for _, e := range ents {
		if !e.valid() || seen[e.Sig()] {
			continue
		}
		seen[e.Sig()] = true
		parts = append(parts, "("+cv.CoqBytes([]byte(e.Sig()))+", "+cv.CoqBytes(keccak([]byte(e.Sig())))+")")
	}
	return "[" + strings.Join(parts, "; ") + "]"
}

// ---------- signatures ----------

func (g *gen) signatures(r *cv.Rand, n int) {
	// every elementary type on its own, every alias, as function / event / error
	var elems []*T
	for _, m := range widths {
		elems = append(elems, &T{K: kUint, M: m}, &T{K: kInt, M: m})
	}
	for m := 1; m <= 32; m++ {
		elems = append(elems, &T{K: kBytesN, M: m})
	}
	elems = append(elems, &T{K: kUint, M: 256, Alias: true}, &T{K: kInt, M: 256, Alias: true},
		&T{K: kFixed, M: 128, N: 18, Alias: true}, &T{K: kUfixed, M: 128, N: 18, Alias: true},
		&T{K: kFixed, M: 8, N: 1}, &T{K: kFixed, M: 256, N: 80}, &T{K: kUfixed, M: 8, N: 80}, &T{K: kUfixed, M: 256, N: 1},
		&T{K: kFixed, M: 128, N: 18}, &T{K: kUfixed, M: 128, N: 18},
		&T{K: kAddress}, &T{K: kBool}, &T{K: kBytes}, &T{K: kString}, &T{K: kFunction})
	types := []string{"function", "event", "error"}
	for i, t := range elems {
		c := *t
		c.Name = "v"
		g.add(&Spec{Kind: "sig", Class: "elementary", Entry: &Entry{Type: types[i%3], Name: "f", Inputs: []Param{{T: &c}}}})
	}
	// array and tuple renderings around an alias
	for _, al := range []*T{{K: kUint, M: 256, Alias: true}, {K: kInt, M: 256, Alias: true}, {K: kFixed, M: 128, N: 18, Alias: true}, {K: kUfixed, M: 128, N: 18, Alias: true}} {
		a1 := &T{K: kDynArr, Elem: al, Name: "a"}
		a2 := &T{K: kFixedArr, Len: 3, Elem: &T{K: kDynArr, Elem: al}, Name: "b"}
		tu := &T{K: kTuple, Kids: []*T{al, {K: kDynArr, Elem: &T{K: kTuple, Kids: []*T{al, {K: kBool}}}}}, Name: "c"}
		ta := &T{K: kFixedArr, Len: 2, Elem: &T{K: kDynArr, Elem: &T{K: kTuple, Kids: []*T{al}}}, Name: "d"}
		g.add(&Spec{Kind: "sig", Class: "alias-nesting", Entry: &Entry{Type: "function", Name: "g", Inputs: []Param{{T: a1}, {T: a2}, {T: tu}, {T: ta}}}})
	}
	// fixed array dimensions
	for _, k := range []int{0, 1, 9, 10, 99, 100, 255, 256, 65535, 65536, 4294967295} {
		g.add(&Spec{Kind: "sig", Class: "array-dim", Entry: &Entry{Type: "function", Name: "h", Inputs: []Param{{T: &T{K: kFixedArr, Len: k, Elem: &T{K: kUint, M: 8}, Name: "x"}}}}})
	}
	// entry types and names
	for _, ty := range []string{"function", "constructor", "receive", "fallback", "event", "error", ""} {
		for _, nm := range []string{"", "f", "Error"} {
			g.add(&Spec{Kind: "sig", Class: "entry-type", Entry: &Entry{Type: ty, Name: nm, Inputs: []Param{{T: &T{K: kString, Name: "reason"}}}}})
		}
	}
	g.add(&Spec{Kind: "sig", Class: "entry-type", Entry: &Entry{Type: "event", Name: "A", Anonymous: true, Inputs: []Param{{T: &T{K: kAddress, Name: "a"}, Indexed: true}}}})
	// types that do not validate: first, middle, last, nested
	for _, bad := range []string{"wrong", "uint7", "uint264", "bytes33", "tuple7", "uint256[", "", "Uint256", "fixed128", "int 8"} {
		b := &T{K: kInvalid, Bad: bad, Name: "z"}
		g.add(&Spec{Kind: "sig", Class: "invalid-type", Entry: &Entry{Type: "function", Name: "f", Inputs: []Param{{T: b}}}})
		g.add(&Spec{Kind: "sig", Class: "invalid-type", Entry: &Entry{Type: "event", Name: "f", Inputs: []Param{{T: &T{K: kBool, Name: "a"}}, {T: b}, {T: &T{K: kBool, Name: "c"}}}}})
		g.add(&Spec{Kind: "sig", Class: "invalid-type", Entry: &Entry{Type: "error", Name: "f", Inputs: []Param{{T: &T{K: kBool, Name: "a"}}, {T: &T{K: kTuple, Kids: []*T{b}, Name: "t"}}}}})
	}
	// random entries, 0..8 parameters
	for i := 0; i < n; i++ {
		e := genEntry(r, types[r.Intn(3)], i%9, 1+r.Intn(3), true, true)
		if e.Type == "event" {
			e.Anonymous = r.Intn(3) == 0
			for j := range e.Inputs {
				e.Inputs[j].Indexed = r.Intn(3) == 0
			}
		}
		if e.Type == "function" && r.Bool() { // return values are not part of the signature
			e.Outputs = genEntry(r, "function", 1+r.Intn(2), 1, true, true).Inputs
		}
		g.add(&Spec{Kind: "sig", Class: fmt.Sprintf("random:%d-params", len(e.Inputs)), Entry: e})
	}
}

// ---------- call data ----------

func (g *gen) calls(r *cv.Rand, n int) []*Spec {
	var out []*Spec
	types := []string{"function", "error", "function", "constructor"}
	for i := 0; i < n; i++ {
		e := genEntry(r, types[r.Intn(4)], i%9, 1+r.Intn(3), false, false)
		if e.Type == "function" && i%2 == 0 {
			e.Outputs = genEntry(r, "function", 1+r.Intn(2), 1, false, false).Inputs
		}
		v := genValue(r, e.tuple())
		s := &Spec{Kind: "call", Class: fmt.Sprintf("roundtrip:%d-params", len(e.Inputs)), Entry: e, Value: v, Exact: true}
		g.add(s)
		out = append(out, s)
	}
	// values the encoder must refuse, or shapes it was not built for (no spec oracle; model must agree)
	for i := 0; i < n/6+4; i++ {
		e := genEntry(r, "function", 1+r.Intn(3), 1, false, false)
		v := genValue(r, e.tuple())
		cls := "bad-value"
		switch r.Intn(4) {
		case 0: // one member missing
			v.List = v.List[:len(v.List)-1]
			cls = "bad-value:arity-short"
		case 1: // a nil child
			v.List[0] = &V{Nil: true}
			cls = "bad-value:nil-child"
		case 2: // number out of range for a uint8
			e.Inputs[0].T = &T{K: kUint, M: 8, Name: "u"}
			v.List[0] = &V{Num: big.NewInt(256)}
			cls = "bad-value:uint8=256"
		default: // wrong Go type
			e.Inputs[0].T = &T{K: kBool, Name: "u"}
			v.List[0] = &V{Bytes: []byte("x"), Str: true}
			cls = "bad-value:string-for-bool"
		}
		g.add(&Spec{Kind: "call", Class: cls, Entry: e, Value: v})
	}
	// an entry whose type does not validate
	g.add(&Spec{Kind: "call", Class: "invalid-type", Entry: &Entry{Type: "function", Name: "f", Inputs: []Param{{T: &T{K: kInvalid, Bad: "wrong", Name: "z"}}}}, Value: &V{IsL: true, List: []*V{{Num: big.NewInt(1)}}}})
	return out
}

// ---------- cross rejection, malformed call data ----------

func pool(r *cv.Rand) []*Entry {
	u := func(m int) *T { return &T{K: kUint, M: m, Name: "a"} }
	fixed := []*Entry{
		{Type: "function", Name: "transfer", Inputs: []Param{{T: &T{K: kAddress, Name: "to"}}, {T: u(256)}}},
		{Type: "function", Name: "transfer", Inputs: []Param{{T: &T{K: kAddress, Name: "to"}}, {T: &T{K: kUint, M: 256, Alias: true, Name: "amount"}}}}, // same selector as above
		{Type: "function", Name: "transfer", Inputs: []Param{{T: &T{K: kAddress, Name: "to"}}, {T: u(128)}}},
		{Type: "function", Name: "transferFrom", Inputs: []Param{{T: &T{K: kAddress, Name: "to"}}, {T: u(256)}}},
		{Type: "error", Name: "transfer", Inputs: []Param{{T: &T{K: kAddress, Name: "to"}}, {T: u(256)}}}, // same selector, another entry type
		{Type: "function", Name: "f", Inputs: nil},
		{Type: "function", Name: "g", Inputs: nil},
		{Type: "function", Name: "f", Inputs: []Param{{T: u(256)}}},
		{Type: "function", Name: "f", Inputs: []Param{{T: &T{K: kInt, M: 256, Name: "a"}}}},
		{Type: "function", Name: "f", Inputs: []Param{{T: &T{K: kTuple, Kids: []*T{u(256)}, Name: "t"}}}},
		{Type: "function", Name: "f", Inputs: []Param{{T: &T{K: kDynArr, Elem: &T{K: kUint, M: 256}, Name: "t"}}}},
		{Type: "function", Name: "f", Inputs: []Param{{T: &T{K: kFixedArr, Len: 1, Elem: &T{K: kUint, M: 256}, Name: "t"}}}},
		{Type: "function", Name: "f", Inputs: []Param{{T: u(256)}, {T: u(256)}}},
		{Type: "function", Name: "f", Inputs: []Param{{T: &T{K: kBytes, Name: "b"}}}},
		{Type: "function", Name: "f", Inputs: []Param{{T: &T{K: kString, Name: "b"}}}},
		{Type: "function", Name: "f", Inputs: []Param{{T: &T{K: kBytesN, M: 32, Name: "b"}}}},
		{Type: "error", Name: "Error", Inputs: []Param{{T: &T{K: kString, Name: "reason"}}}},
		{Type: "error", Name: "Panic", Inputs: []Param{{T: u(256)}}},
	}
	for len(fixed) < 40 {
		fixed = append(fixed, genEntry(r, []string{"function", "error"}[r.Intn(2)], r.Intn(4), 1+r.Intn(2), false, false))
	}
	return fixed
}

func (g *gen) cross(r *cv.Rand, npool int) {
	p := pool(r)[:npool]
	datas := make([][]byte, len(p))
	for i, e := range p {
		datas[i] = append(e.Selector(), specEnc(e.tuple(), genValue(r, e.tuple()))...)
	}
	for i := range p {
		for j := range p {
			cls := "cross:foreign"
			if string(p[i].Selector()) == string(p[j].Selector()) {
				cls = "cross:same-selector"
			}
			g.add(&Spec{Kind: "dec", Class: cls, Entry: p[j], Data: datas[i]})
		}
	}
}

func (g *gen) malformedCalls(r *cv.Rand, calls []*Spec, n int) {
	for i := 0; i < n && i < len(calls); i++ {
		e := calls[i].Entry
		data := append(e.Selector(), specEnc(e.tuple(), calls[i].Value)...)
		for k := 0; k <= 4 && k <= len(data); k++ { // 0..3 bytes: too short; 4: the selector alone
			g.add(&Spec{Kind: "dec", Class: fmt.Sprintf("short:%d", k), Entry: e, Data: data[:k]})
		}
		for k := 0; k < 4; k++ { // one selector byte off by one bit / by one
			d := append([]byte{}, data...)
			if r.Bool() {
				d[k] ^= 1 << uint(r.Intn(8))
			} else {
				d[k]++
			}
			g.add(&Spec{Kind: "dec", Class: fmt.Sprintf("selector-byte-%d-changed", k), Entry: e, Data: d})
		}
		if len(data) > 4 { // selector shifted by one byte; data truncated; data extended
			g.add(&Spec{Kind: "dec", Class: "selector-shifted", Entry: e, Data: data[1:]})
			g.add(&Spec{Kind: "dec", Class: "selector-shifted", Entry: e, Data: append([]byte{0}, data...)})
			g.add(&Spec{Kind: "dec", Class: "truncated", Entry: e, Data: data[:len(data)-1]})
			g.add(&Spec{Kind: "dec", Class: "truncated", Entry: e, Data: data[:4+(len(data)-4)/2]})
		}
		g.add(&Spec{Kind: "dec", Class: "extended", Entry: e, Data: append(append([]byte{}, data...), r.Bytes(1+r.Intn(40))...)})
		g.add(&Spec{Kind: "dec", Class: "random", Entry: e, Data: r.Bytes(r.Intn(100))})
	}
}

// ---------- events ----------

func topicFor(r *cv.Rand, t *T, v *V) []byte {
	if t.topicIsValue() {
		return specEnc(t, v)
	}
	// a hash of the value; the decoder can only surface it
	return keccak(specEnc(t, v))
}

// log builds the log of event e for argument values vals: topics, data, and what a decoder must return
func buildLog(r *cv.Rand, e *Entry, vals []*V) (topics []hexb, data []byte, exp []*V, exact bool) {
	// the *big.Float a fixed-point member decodes to is not recomputed by the harness
	exact = !e.tuple().hasFixedPoint()
	if !e.Anonymous {
		topics = append(topics, e.Topic0())
	}
	dt := &T{K: kTuple}
	dv := &V{IsL: true}
	for i, p := range e.Inputs {
		if p.Indexed {
			tp := topicFor(r, p.T, vals[i])
			topics = append(topics, tp)
			if p.T.topicIsValue() {
				exp = append(exp, vals[i])
			} else {
				exp = append(exp, &V{Bytes: tp})
			}
		} else {
			dt.Kids = append(dt.Kids, p.T)
			dv.List = append(dv.List, vals[i])
			exp = append(exp, vals[i])
		}
	}
	data = specEnc(dt, dv)
	return
}

func dataTuple(e *Entry) *T {
	t := &T{K: kTuple}
	for _, p := range e.Inputs {
		if !p.Indexed {
			t.Kids = append(t.Kids, p.T)
		}
	}
	return t
}

// minSize: the least number of bytes a decoder needs to see for a value of the type
func minSize(t *T) int {
	switch t.K {
	case kFixedArr:
		if t.dynamic() {
			return 32
		}
		return t.Len * minSize(t.Elem)
	case kTuple:
		if t.dynamic() {
			return 32
		}
		n := 0
		for _, k := range t.Kids {
			n += minSize(k)
		}
		return n
	}
	return 32
}

func cloneEntry(e *Entry) *Entry {
	c := *e
	c.Inputs = append([]Param{}, e.Inputs...)
	return &c
}

func (g *gen) eventVariants(r *cv.Rand, e *Entry, malformed bool, full bool) {
	vals := make([]*V, len(e.Inputs))
	nIdx := 0
	for i, p := range e.Inputs {
		vals[i] = genValue(r, p.T)
		if p.Indexed {
			nIdx++
		}
	}
	topics, data, exp, exact := buildLog(r, e, vals)
	an := "named"
	if e.Anonymous {
		an = "anonymous"
	}
	good := &Spec{Kind: "event", Class: fmt.Sprintf("valid:%s:%d-of-%d-indexed", an, nIdx, len(e.Inputs)), Entry: e, Topics: topics, Data: data}
	if exact && !g.beyondLimit {
		good.Expect, good.ExpVals = "values", exp
	}
	good.Lenient = g.beyondLimit
	g.add(good)
	if !malformed {
		return
	}
	need := len(topics)
	// too few topics: every shorter prefix
	for k := 0; k < need; k++ {
		g.add(&Spec{Kind: "event", Class: fmt.Sprintf("too-few-topics:%s:%d-of-%d", an, k, need), Entry: e, Topics: topics[:k], Data: data, Expect: "refuse"})
	}
	// surplus topics are ignored
	extra := append(append([]hexb{}, topics...), hexb(r.Bytes(32)))
	sp := &Spec{Kind: "event", Class: "surplus-topic:" + an, Entry: e, Topics: extra, Data: data, Lenient: true}
	if exact {
		sp.Expect, sp.ExpVals = "values", exp
	}
	g.add(sp)
	if !e.Anonymous {
		// foreign signature topic: another event's hash, one bit flipped, 31 / 33 bytes wide, all zero
		other := cloneEntry(e)
		other.Name = e.Name + "2"
		muts := map[string][]byte{"other-event": other.Topic0(), "zero": make([]byte, 32), "31-bytes": topics[0][:31],
			"33-bytes": append(append([]byte{}, topics[0]...), 0), "empty": {}}
		fl := append([]byte{}, topics[0]...)
		fl[r.Intn(32)] ^= 1 << uint(r.Intn(8))
		muts["bit-flipped"] = fl
		fl2 := append([]byte{}, topics[0]...)
		fl2[31] ^= 1
		muts["last-bit-flipped"] = fl2
		names := []string{"other-event", "zero", "31-bytes", "33-bytes", "empty", "bit-flipped", "last-bit-flipped"}
		if !full { // two of the seven, rotating
			k := r.Intn(7)
			names = []string{names[k], names[(k+3)%7]}
		}
		for _, name := range names {
			tt := append([]hexb{hexb(muts[name])}, topics[1:]...)
			g.add(&Spec{Kind: "event", Class: "foreign-topic0:" + name, Entry: e, Topics: tt, Data: data, Expect: "refuse"})
		}
		// topic0 missing, argument topics present (shifted by one)
		if need > 1 {
			g.add(&Spec{Kind: "event", Class: "topic0-dropped", Entry: e, Topics: topics[1:], Data: data, Expect: "refuse"})
		}
		// the same log offered to the anonymous twin, and the anonymous log offered to the named event
		twin := cloneEntry(e)
		twin.Anonymous = true
		g.add(&Spec{Kind: "event", Class: "named-log-to-anonymous-twin", Entry: twin, Topics: topics, Data: data, Lenient: true})
	} else {
		twin := cloneEntry(e)
		twin.Anonymous = false
		g.add(&Spec{Kind: "event", Class: "anonymous-log-to-named-twin", Entry: twin, Topics: topics, Data: data, Expect: "refuse"})
	}
	// topic widths other than 32 on each argument topic
	first := 0
	if !e.Anonymous {
		first = 1
	}
	for k := first; k < need; k++ {
		ws := []int{0, 31, 33}
		if !full {
			ws = ws[r.Intn(3):][:1]
		}
		for _, w := range ws {
			tt := append([]hexb{}, topics...)
			if w < 32 {
				tt[k] = topics[k][:w]
			} else {
				tt[k] = append(append([]byte{}, topics[k]...), 0x5a)
			}
			g.add(&Spec{Kind: "event", Class: fmt.Sprintf("topic-width:%d", w), Entry: e, Topics: tt, Data: data, Lenient: true})
		}
	}
	// data truncated / empty / extended
	if len(data) > 0 {
		tr := &Spec{Kind: "event", Class: "data-truncated:1", Entry: e, Topics: topics, Data: data[:len(data)-1]}
		g.add(tr) // whether the last byte is needed depends on the last member (padding of bytes<M>, string, ...)
		if len(data) >= 32 {
			tr = &Spec{Kind: "event", Class: "data-truncated:32", Entry: e, Topics: topics, Data: data[:len(data)-32]}
			if !dataTuple(e).dynamic() { // static data is exactly the words of its members: a missing word must be noticed
				tr.Expect = "refuse"
			}
			g.add(tr)
		}
		g.add(&Spec{Kind: "event", Class: "data-empty", Entry: e, Topics: topics, Data: nil, Expect: "refuse"})
	}
	ext := &Spec{Kind: "event", Class: "data-extended", Entry: e, Topics: topics, Data: append(append([]byte{}, data...), r.Bytes(32)...), Lenient: true}
	if exact && len(data) > 0 {
		ext.Expect, ext.ExpVals = "values", exp
	}
	g.add(ext)
}

// all subsets of {0..n-1} of size <= limit
func subsets(n, limit int) [][]bool {
	var out [][]bool
	for mask := 0; mask < 1<<uint(n); mask++ {
		c := 0
		fl := make([]bool, n)
		for i := 0; i < n; i++ {
			if mask&(1<<uint(i)) != 0 {
				fl[i] = true
				c++
			}
		}
		if c <= limit {
			out = append(out, fl)
		}
	}
	return out
}

func (g *gen) events(r *cv.Rand, nEntries int, thorough bool) {
	// fixed corpus: the witness of D12a (fixed by 228bb41) and its neighbours
	u := &T{K: kUint, M: 256, Name: "a"}
	d12 := &Entry{Type: "event", Name: "E", Inputs: []Param{{T: u}}}
	g.add(&Spec{Kind: "event", Class: "D12a:named-event-empty-topics", Entry: d12, Topics: []hexb{}, Data: word(big.NewInt(7)), Expect: "refuse", Key: "C12/D12a-named-event-empty-topics"})
	g.add(&Spec{Kind: "event", Class: "nil-topics", Entry: d12, Topics: nil, Data: word(big.NewInt(7)), Expect: "refuse", Key: "C12/D12a-named-event-empty-topics"})
	g.add(&Spec{Kind: "event", Class: "D12a:named-event-empty-topics", Entry: &Entry{Type: "event", Name: "E0"}, Topics: []hexb{}, Data: nil, Expect: "refuse", Key: "C12/D12a-named-event-empty-topics"})
	g.add(&Spec{Kind: "event", Class: "valid:anonymous:0-of-0-indexed", Entry: &Entry{Type: "event", Name: "E0", Anonymous: true}, Topics: []hexb{}, Data: nil, Expect: "values", ExpVals: []*V{}})
	// every elementary kind indexed, named and anonymous
	kinds := []*T{{K: kUint, M: 8}, {K: kUint, M: 256, Alias: true}, {K: kInt, M: 8}, {K: kInt, M: 256}, {K: kInt, M: 64}, {K: kAddress}, {K: kBool},
		{K: kFunction}, {K: kBytesN, M: 1}, {K: kBytesN, M: 32}, {K: kBytes}, {K: kString}, {K: kFixed, M: 128, N: 18}, {K: kUfixed, M: 8, N: 1},
		{K: kFixed, M: 128, N: 18, Alias: true}, {K: kDynArr, Elem: &T{K: kUint, M: 8}}, {K: kFixedArr, Len: 2, Elem: &T{K: kAddress}},
		{K: kTuple, Kids: []*T{{K: kUint, M: 8, Name: "x"}, {K: kBool, Name: "y"}}}}
	for ki, k := range kinds {
		for _, anon := range []bool{false, true} {
			c := *k
			c.Name = "ix"
			e := &Entry{Type: "event", Name: "K", Anonymous: anon, Inputs: []Param{{T: &T{K: kString, Name: "s"}}, {T: &c, Indexed: true}, {T: &T{K: kUint, M: 16, Name: "n"}}}}
			g.eventVariants(r, e, thorough || !anon || ki%3 == 0, thorough || ki < 2)
		}
	}
	// every assignment of indexed flags up to the topic limit, 0..8 parameters
	for n := 0; n <= 8; n++ {
		for _, anon := range []bool{false, true} {
			limit := 3
			if anon {
				limit = 4
			}
			base := genEntry(r, "event", n, 1, true, false)
			base.Anonymous = anon
			for si, fl := range subsets(n, limit) {
				if !thorough && n >= 6 && si%3 != 0 {
					continue
				}
				e := cloneEntry(base)
				for i := range fl {
					e.Inputs[i].Indexed = fl[i]
				}
				g.eventVariants(r, e, si%7 == 0 && (thorough || si%21 == 0), thorough)
			}
		}
	}
	// random events with nested types
	for i := 0; i < nEntries; i++ {
		e := genEntry(r, "event", i%9, 1+r.Intn(3), true, false)
		e.Anonymous = r.Intn(3) == 0
		limit := 3
		if e.Anonymous {
			limit = 4
		}
		c := 0
		for j := range e.Inputs {
			if c < limit && r.Intn(3) == 0 {
				e.Inputs[j].Indexed = true
				c++
			}
		}
		g.eventVariants(r, e, i%2 == 0, thorough)
	}
	// beyond the topic limit (no expectation: outside the property's quantifier, model must agree)
	g.beyondLimit = true
	for i := 0; i < 4; i++ {
		e := genEntry(r, "event", 6, 1, false, false)
		for j := range e.Inputs {
			e.Inputs[j].Indexed = j < 5
		}
		g.eventVariants(r, e, false, false)
	}
	g.beyondLimit = false
	// an entry whose type does not validate
	g.add(&Spec{Kind: "event", Class: "invalid-type", Entry: &Entry{Type: "event", Name: "f", Inputs: []Param{{T: &T{K: kInvalid, Bad: "wrong", Name: "z"}}}}, Topics: []hexb{}, Expect: "refuse"})
}

// ---------- revert data ----------

func (g *gen) errors(r *cv.Rand, n int) {
	builtin := &Entry{Type: "error", Name: "Error", Inputs: []Param{{T: &T{K: kString, Name: "reason"}}}}
	for i := 0; i < n; i++ {
		nerr := i % 6
		var a []*Entry
		var errIdx []int
		for len(errIdx) < nerr {
			// functions and events between the error definitions must be ignored
			if r.Intn(3) == 0 {
				a = append(a, genEntry(r, []string{"function", "event"}[r.Intn(2)], r.Intn(3), 1, false, false))
				continue
			}
			e := genEntry(r, "error", r.Intn(5), 1+r.Intn(2), false, false)
			switch r.Intn(8) {
			case 0:
				if len(errIdx) > 0 { // same name as an earlier error, other parameters
					e.Name = a[errIdx[0]].Name
				}
			case 1:
				if len(errIdx) > 0 { // exact duplicate of an earlier error: the first one wins
					e = cloneEntry(a[errIdx[0]])
				}
			case 2:
				e = cloneEntry(builtin) // a user definition of Error(string)
			}
			errIdx = append(errIdx, len(a))
			a = append(a, e)
		}
		all := append([]*Entry{builtin}, a...)
		firstWithSel := func(sel []byte) int {
			for k, e := range all {
				if e.Type == "error" && string(e.Selector()) == string(sel) {
					return k
				}
			}
			return -1
		}
		// revert data of each definition (and of the built-in one)
		for _, k := range append([]int{-1}, errIdx...) {
			e := builtin
			if k >= 0 {
				e = a[k]
			}
			v := genValue(r, e.tuple())
			data := append(e.Selector(), specEnc(e.tuple(), v)...)
			exp := firstWithSel(e.Selector())
			g.add(&Spec{Kind: "err", Class: fmt.Sprintf("own-data:%d-errors", nerr), ABI: a, Data: data, Expect: "values", ExpIdx: exp, ExpVals: v.List})
			if k >= 0 && i%3 == 0 {
				// selector alone / truncated arguments: found only if that still decodes (no parameters)
				sp := &Spec{Kind: "err", Class: "selector-only", ABI: a, Data: e.Selector()}
				if minSize(e.tuple()) > 0 {
					sp.Expect = "refuse"
				}
				g.add(sp)
				d := append([]byte{}, data...)
				d[r.Intn(4)] ^= 0x80
				sp2 := &Spec{Kind: "err", Class: "selector-bit-flipped", ABI: a, Data: d}
				if firstWithSel(d[:4]) < 0 {
					sp2.Expect = "refuse"
				}
				g.add(sp2)
			}
		}
		// foreign selectors: the functions / events of this ABI, an unrelated error, random, short
		for _, e := range a {
			if e.Type != "error" {
				v := genValue(r, e.tuple())
				sp := &Spec{Kind: "err", Class: "non-error-entry-selector", ABI: a, Data: append(e.Selector(), specEnc(e.tuple(), v)...)}
				if firstWithSel(e.Selector()) < 0 {
					sp.Expect = "refuse"
				}
				g.add(sp)
			}
		}
		foreign := &Entry{Type: "error", Name: "Unrelated", Inputs: []Param{{T: &T{K: kUint, M: 256, Name: "x"}}}}
		if firstWithSel(foreign.Selector()) < 0 {
			g.add(&Spec{Kind: "err", Class: "foreign-error", ABI: a, Data: append(foreign.Selector(), word(big.NewInt(5))...), Expect: "refuse"})
		}
		if i%4 == 0 {
			for _, k := range []int{0, 1, 3} {
				g.add(&Spec{Kind: "err", Class: fmt.Sprintf("short:%d", k), ABI: a, Data: builtin.Selector()[:k], Expect: "refuse"})
			}
			g.add(&Spec{Kind: "err", Class: "random", ABI: a, Data: r.Bytes(4 + r.Intn(70))})
		}
	}
	// an ABI whose error entry does not validate is skipped
	bad := &Entry{Type: "error", Name: "Bad", Inputs: []Param{{T: &T{K: kInvalid, Bad: "wrong", Name: "z"}}}}
	okE := &Entry{Type: "error", Name: "Ok", Inputs: []Param{{T: &T{K: kUint, M: 8, Name: "z"}}}}
	g.add(&Spec{Kind: "err", Class: "invalid-type-entry", ABI: []*Entry{bad, okE}, Data: append(okE.Selector(), word(big.NewInt(3))...), Expect: "values", ExpIdx: 2, ExpVals: []*V{{Num: big.NewInt(3)}}})
}

func main() {
	out := flag.String("out", "", "output directory")
	tier := flag.String("tier", "quick", "quick|thorough")
	replay := flag.String("replay", "", "replay file")
	flag.Parse()
	if *out == "" {
		fmt.Fprintln(os.Stderr, "need -out")
		os.Exit(2)
	}
	os.MkdirAll(*out, 0o755)
	logrus.SetOutput(io.Discard) // pkg/abi logs every signature it cannot build
	st := cv.NewStats()
	st.Rule = "distinct (kind, entry / ABI, input) descriptions; every case runs at least one entry-level function of pkg/abi beyond argument validation"
	g := &gen{st: st, seen: map[string]bool{}, cur: filepath.Join(*out, "current_case.json")}

	if *replay != "" {
		raw, err := os.ReadFile(*replay)
		if err != nil {
			panic(err)
		}
		var rp struct {
			Case *Spec `json:"case"`
		}
		if err := json.Unmarshal(raw, &rp); err != nil || rp.Case == nil || rp.Case.Kind == "" {
			fmt.Println("replay: no case recorded in", *replay)
			os.Exit(0)
		}
		g.w = cv.NewWriter(*out, "C12", header, "hcase", "mismatches", 1)
		g.add(rp.Case)
		g.w.Flush()
		fmt.Println("input:", rp.Case.Describe)
		fmt.Println("implementation:", rp.Case.Observed)
		st.Write(filepath.Join(*out, "stats_C12.json"))
		return
	}

	thorough := *tier == "thorough"
	g.w = cv.NewWriter(*out, "C12", header, "hcase", "mismatches", 16)
	r := cv.NewRand(12)
	nSig, nCall, nPool, nMal, nEv, nErr, nSeq := 150, 110, 40, 12, 20, 36, 21
	if thorough {
		nSig, nCall, nPool, nMal, nEv, nErr, nSeq = 6000, 6000, 40, 400, 1500, 1500, 400
	}
	g.events(r, nEv, thorough)
	g.signatures(r, nSig)
	calls := g.calls(r, nCall)
	g.malformedCalls(r, calls, nMal)
	g.cross(r, nPool)
	g.errors(r, nErr)
	g.sequences(r, nSeq, thorough)
	if err := g.w.Flush(); err != nil {
		panic(err)
	}
	os.Remove(g.cur)
	st.Extra["tier"] = *tier
	st.Extra["seed"] = cv.Seed()
	if err := st.Write(filepath.Join(*out, "stats_C12.json")); err != nil {
		panic(err)
	}
	fmt.Printf("C12 harness: %d cases, %d distinct\n", st.Evaluations, st.Distinct)
}
