// Case specifications (JSON-serialisable, so a replay file can be re-run), the code that runs
// pkg/abi on them under recover(), and the printers of the Coq case terms.
package main

import (
	"encoding/hex"
	"encoding/json"
	"fmt"
	"strings"

	"github.com/hyperledger/firefly-signer/pkg/abi"
	"github.com/hyperledger/firefly-signer/pkg/ethtypes"
	"verifharness/cv"
)

type hexb []byte

func (h hexb) MarshalJSON() ([]byte, error) { return json.Marshal(hex.EncodeToString(h)) }
func (h *hexb) UnmarshalJSON(b []byte) error {
	var s string
	if err := json.Unmarshal(b, &s); err != nil {
		return err
	}
	x, err := hex.DecodeString(s)
	*h = x
	return err
}

// Spec is one case.  Kind: sig | call | dec | event | err.
type Spec struct {
	Kind   string   `json:"kind"`
	Class  string   `json:"class"`           // generator class (for the distribution and for reading replay files)
	Entry  *Entry   `json:"entry,omitempty"` // sig, call, dec, event
	ABI    []*Entry `json:"abi,omitempty"`   // err
	Value  *V       `json:"value,omitempty"` // call: the argument tuple
	Exact  bool     `json:"exact,omitempty"` // call: well-typed value, spec oracles apply
	Data   hexb     `json:"data,omitempty"`  // dec, event, err
	Topics []hexb   `json:"topics,omitempty"`
	// expectation computed by the generator from how it built the input (never from the implementation)
	Expect     string `json:"expect,omitempty"` // "" none | "refuse" | "values" (event: ExpVals; err: ExpIdx + ExpVals)
	ExpVals    []*V   `json:"exp_vals,omitempty"`
	ExpIdx     int    `json:"exp_idx,omitempty"`
	Signature  string `json:"signature,omitempty"` // harness-computed canonical signature (documentation in replay files)
	Lenient    bool   `json:"lenient,omitempty"` // event: not an EVM log of this event; a refusal is not compared
	Key        string `json:"key,omitempty"`
	Observed   string `json:"observed,omitempty"`
	Describe   string `json:"describe,omitempty"`
	CoqTermLen int    `json:"coq_term_len,omitempty"`
}

func class(err error, panicked bool) int {
	if panicked {
		return 2
	}
	if err != nil {
		return 1
	}
	return 0
}

func safely(f func()) (panicked bool, msg string) {
	defer func() {
		if r := recover(); r != nil {
			panicked = true
			msg = fmt.Sprint(r)
		}
	}()
	f()
	return
}

func topicsCoq(ts []hexb) string {
	p := make([]string, len(ts))
	for i, t := range ts {
		p[i] = cv.CoqBytes(t)
	}
	return "[" + strings.Join(p, "; ") + "]"
}

func short(b []byte) string {
	if len(b) > 200 {
		return hex.EncodeToString(b[:200]) + fmt.Sprintf("...(%d bytes)", len(b))
	}
	return hex.EncodeToString(b)
}

// run executes the implementation on the case and returns the Coq term.
func run(s *Spec, st *cv.Stats) string {
	switch s.Kind {
	case "sig":
		return runSig(s, st)
	case "call":
		return runCall(s, st)
	case "dec":
		return runDec(s, st)
	case "event":
		return runEvent(s, st)
	case "err":
		return runErr(s, st)
	}
	panic("unknown case kind " + s.Kind)
}

func runSig(s *Spec, st *cv.Stats) string {
	ae := s.Entry.Abi()
	var sig string
	var err error
	var sel, top []byte
	p, msg := safely(func() {
		sig, err = ae.Signature()
		sel = ae.FunctionSelectorBytes()
		top = ae.SignatureHashBytes()
	})
	c := class(err, p)
	s.Describe = s.Entry.Describe()
	s.Signature = s.Entry.Sig()
	s.Observed = fmt.Sprintf("class=%d signature=%q selector=%s hash=%s %s", c, sig, hex.EncodeToString(sel), hex.EncodeToString(top), msg)
	st.Hit(fmt.Sprintf("sig:class=%d", c))
	return fmt.Sprintf("CSig %s %d %s %s %s", s.Entry.Coq(), c, cv.CoqBytes([]byte(sig)), cv.CoqBytes(sel), cv.CoqBytes(top))
}

func runCall(s *Spec, st *cv.Stats) string {
	ae := s.Entry.Abi()
	var enc []byte
	var err, derr error
	var dec *abi.ComponentValue
	dcls := 1
	decV := &V{Nil: true}
	p, msg := safely(func() {
		var tree abi.TypeComponent
		tree, err = ae.Inputs.TypeComponentTree()
		if err != nil {
			return
		}
		enc, err = ae.EncodeCallData(build(tree, s.Value))
	})
	ecls := class(err, p)
	if ecls == 0 {
		p2, msg2 := safely(func() { dec, derr = ae.DecodeCallData(enc) })
		dcls = class(derr, p2)
		msg += msg2
		if dcls == 0 {
			decV = proj(dec)
		}
	}
	s.Describe = s.Entry.Describe() + " value=" + s.Value.Describe()
	s.Signature = s.Entry.Sig()
	s.Observed = fmt.Sprintf("encode class=%d data=%s decode class=%d value=%s %s", ecls, short(enc), dcls, decV.Describe(), msg)
	st.Hit(fmt.Sprintf("call:encode=%d,decode=%d", ecls, dcls))
	return fmt.Sprintf("CCall %s %s %v %d %s %d %s", s.Entry.Coq(), s.Value.Coq(), s.Exact, ecls, cv.Compress(enc).Coq(), dcls, decV.Coq())
}

func runDec(s *Spec, st *cv.Stats) string {
	ae := s.Entry.Abi()
	var dec *abi.ComponentValue
	var err error
	p, msg := safely(func() { dec, err = ae.DecodeCallData(s.Data) })
	c := class(err, p)
	decV := &V{Nil: true}
	if c == 0 {
		decV = proj(dec)
	}
	s.Describe = s.Entry.Describe() + " data=" + short(s.Data)
	s.Signature = s.Entry.Sig()
	s.Observed = fmt.Sprintf("class=%d value=%s %s", c, decV.Describe(), msg)
	st.Hit(fmt.Sprintf("dec:%s:class=%d", s.Class, c))
	return fmt.Sprintf("CDec %s %s %d %s", s.Entry.Coq(), cv.Compress(s.Data).Coq(), c, decV.Coq())
}

func expectCoqEvent(s *Spec) string {
	switch s.Expect {
	case "refuse":
		return "(Some None)"
	case "values":
		return "(Some (Some " + vlistCoq(s.ExpVals) + "))"
	}
	return "None"
}

func runEvent(s *Spec, st *cv.Stats) string {
	ae := s.Entry.Abi()
	topics := make([]ethtypes.HexBytes0xPrefix, len(s.Topics))
	for i, t := range s.Topics {
		topics[i] = ethtypes.HexBytes0xPrefix(t)
	}
	if s.Topics == nil && s.Class != "nil-topics" {
		topics = []ethtypes.HexBytes0xPrefix{}
	}
	var dec *abi.ComponentValue
	var err error
	p, msg := safely(func() { dec, err = ae.DecodeEventData(topics, ethtypes.HexBytes0xPrefix(s.Data)) })
	c := class(err, p)
	var outs []string
	var desc []string
	if c == 0 && dec != nil {
		for _, ch := range dec.Children {
			if ch == nil || ch.Component == nil {
				outs = append(outs, `DCh "" "" DNilP`)
				desc = append(desc, "nil")
				continue
			}
			v := proj(ch)
			outs = append(outs, fmt.Sprintf("DCh %s %s %s", coqString(ch.Component.String()), coqString(ch.Component.KeyName()), v.Coq()))
			desc = append(desc, ch.Component.String()+" "+ch.Component.KeyName()+"="+v.Describe())
		}
	}
	tl := make([]string, len(s.Topics))
	for i, t := range s.Topics {
		tl[i] = hex.EncodeToString(t)
	}
	s.Describe = s.Entry.Describe() + " topics=[" + strings.Join(tl, ",") + "] data=" + short(s.Data)
	s.Signature = s.Entry.Sig()
	s.Observed = fmt.Sprintf("class=%d children=[%s] %s", c, strings.Join(desc, "; "), msg)
	st.Hit(fmt.Sprintf("event:%s:class=%d", s.Class, c))
	return fmt.Sprintf("CEvent %s %s %s %d [%s] %s %v", s.Entry.Coq(), topicsCoq(s.Topics), cv.Compress(s.Data).Coq(), c,
		strings.Join(outs, "; "), expectCoqEvent(s), !s.Lenient)
}

// the serializer pipeline FormatErrorStringCtx uses, called directly (codec oracle of the model)
func formatArgs(cvv *abi.ComponentValue) (parts [][]byte, ok bool) {
	defer func() {
		if r := recover(); r != nil {
			parts, ok = nil, false
		}
	}()
	res, err := abi.NewSerializer().
		SetFormattingMode(abi.FormatAsFlatArrays).
		SetIntSerializer(abi.Base10StringIntSerializer).
		SetByteSerializer(abi.HexByteSerializer0xPrefix).
		SetAddressSerializer(abi.HexAddrSerializer0xPrefix).
		SerializeInterface(cvv)
	if err != nil {
		return nil, false
	}
	arr, isArr := res.([]interface{})
	if !isArr || arr == nil {
		return nil, false
	}
	for _, c := range arr {
		b, _ := json.Marshal(c)
		parts = append(parts, b)
	}
	return parts, true
}

func runErr(s *Spec, st *cv.Stats) string {
	a := abi.ABI{}
	ents := make([]string, len(s.ABI))
	descs := make([]string, len(s.ABI))
	for i, e := range s.ABI {
		a = append(a, e.Abi())
		ents[i] = e.Coq()
		descs[i] = e.Describe()
	}
	var en *abi.Entry
	var cvv *abi.ComponentValue
	var ok, sok bool
	var str string
	p, msg := safely(func() {
		en, cvv, ok = a.ParseError(s.Data)
		str, sok = a.ErrorString(s.Data)
	})
	c := 0
	if p {
		c = 2
	}
	found := "None"
	fmtc := "None"
	obs := "not found"
	if c == 0 && ok && en != nil {
		sig, _ := en.Signature()
		v := proj(cvv)
		found = fmt.Sprintf("(Some (%s, %s, %s))", coqString(en.Name), coqString(sig), v.Coq())
		idx := -1
		for i := range a {
			if a[i] == en {
				idx = i
			}
		}
		obs = fmt.Sprintf("found abi[%d] %s args=%s", idx, sig, v.Describe())
		if parts, pok := formatArgs(cvv); pok {
			ps := make([]string, len(parts))
			for i, b := range parts {
				ps[i] = cv.CoqBytes(b)
			}
			fmtc = "(Some [" + strings.Join(ps, "; ") + "])"
		}
	}
	exp := "None"
	switch s.Expect {
	case "refuse":
		exp = "(Some None)"
	case "values":
		exp = fmt.Sprintf("(Some (Some (%d, %s)))", s.ExpIdx, vlistCoq(s.ExpVals))
	}
	s.Describe = "abi=[" + strings.Join(descs, "; ") + "] data=" + short(s.Data)
	s.Observed = fmt.Sprintf("class=%d %s string=%q ok=%v %s", c, obs, str, sok, msg)
	st.Hit(fmt.Sprintf("err:%s:found=%v", s.Class, ok))
	return fmt.Sprintf("CErr [%s] %s %d %s %s %v %s %s", strings.Join(ents, "; "), cv.Compress(s.Data).Coq(), c, found,
		cv.CoqBytes([]byte(str)), sok, fmtc, exp)
}
