// Case specifications (JSON-serialisable, so a replay file can be re-run), the code that runs
// pkg/abi on them under recover(), and the printers of the Coq case terms.
package main

import (
	"encoding/hex"
	"encoding/json"
	"fmt"
	"strings"

	"github.com/hyperledger/firefly-signer/pkg/abi"
	"github.com/hyperledger/firefly-signer/pkg/ethtypes"
	"verifharness/cv"
)

type hexb []byte

func (h hexb) MarshalJSON() ([]byte, error) { return json.Marshal(hex.EncodeToString(h)) }
func (h *hexb) UnmarshalJSON(b []byte) error {
	var s string
	if err := json.Unmarshal(b, &s); err != nil {
		return err
	}
	x, err := hex.DecodeString(s)
	*h = x
	return err
}

// Spec is one case.  Kind: sig | call | dec | event | err.
type Spec struct {
	Kind   string   `json:"kind"`
	Class  string   `json:"class"`           // generator class (for the distribution and for reading replay files)
	Entry  *Entry   `json:"entry,omitempty"` // sig, call, dec, event
	ABI    []*Entry `json:"abi,omitempty"`   // err
	Value  *V       `json:"value,omitempty"` // call: the argument tuple
	Exact  bool     `json:"exact,omitempty"` // call: well-typed value, spec oracles apply
	Data   hexb     `json:"data,omitempty"`  // dec, event, err
	Topics []hexb   `json:"topics,omitempty"`
	// expectation computed by the generator from how it built the input (never from the implementation)
	Expect     string `json:"expect,omitempty"` // "" none | "refuse" | "values" (event: ExpVals; err: ExpIdx + ExpVals)
	ExpVals    []*V   `json:"exp_vals,omitempty"`
	ExpIdx     int    `json:"exp_idx,omitempty"`
	Signature  string `json:"signature,omitempty"` // harness-computed canonical signature (documentation in replay files)
	Lenient    bool   `json:"lenient,omitempty"` // event: not an EVM log of this event; a refusal is not compared
	Key        string `json:"key,omitempty"`
	Observed   string `json:"observed,omitempty"`
	Describe   string `json:"describe,omitempty"`
	CoqTermLen int    `json:"coq_term_len,omitempty"`
	// seq (seq.go): a sequence of steps run on ONE set of parsed objects (ABI = their definitions)
	Steps []*Spec `json:"steps,omitempty"`
	Obj   int     `json:"obj,omitempty"`   // a step of a sequence: index into the sequence's ABI of the entry it runs on
	Mode  string  `json:"mode,omitempty"`  // seq: how the objects are built (own | shared | json)
	Par   int     `json:"par,omitempty"`   // seq: goroutines re-running the steps on the same objects
	First bool    `json:"first,omitempty"` // seq: the goroutines run before the sequential pass (objects not yet validated)
	// seq: the last entry of ABI is a function whose Inputs slice is objects[0].Inputs[:k] -- the SAME backing
	// array, cap > len (an append to it lands in the event's parameter list)
	PrefixTwin bool `json:"prefix_twin,omitempty"`
	// err / touch step of a sequence: run on the sub-slice objects[:Prefix] of the sequence's ABI slice (cap > len,
	// the entries after it belong to the longer ABI)
	Prefix int `json:"prefix,omitempty"`
	What  string  `json:"what,omitempty"`  // filled in when a Go-side oracle fails on the case
	Changed []string `json:"changed,omitempty"`

	// a step of a sequence runs on these shared objects instead of freshly built ones
	ae      *abi.Entry
	aabi    abi.ABI
	coqEnt  string // Coq name bound to the entry / entries by the enclosing sequence term
	coqEnts []string
	panicked bool
	arena    *cv.Arena // inside a sequence: topics / data are carved from one arena, followed by other bytes
	// retain re-projects the raw values the implementation returned for this step (selector / hash slices,
	// decoded trees, call data); a sequence calls it again after all later steps have run
	aliasing  []string // writes through / beyond the caller's slices noticed by the step itself
	retain    func() string
	retained0 string
}

// abiEntry: the pkg/abi object the case runs on -- fresh for a stand-alone case, the shared one inside a sequence
func (s *Spec) abiEntry() *abi.Entry {
	if s.ae != nil {
		return s.ae
	}
	return s.Entry.Abi()
}

// carve: inside a sequence byte inputs live in one arena, each followed by the next one (cap > len)
func (s *Spec) carve(b []byte) []byte {
	if s.arena == nil || b == nil {
		return b
	}
	return s.arena.Put(b)
}

// arenaGuard: call after all inputs are carved; the returned function, called after the implementation ran,
// notes a write to the caller's bytes (the inputs themselves or the bytes that follow them)
func (s *Spec) arenaGuard() func(what string) {
	if s.arena == nil {
		return func(string) {}
	}
	s.arena.Put(keccak([]byte("bytes after the last input")))
	snap := s.arena.Snapshot()
	return func(what string) {
		if !s.arena.Unchanged(snap) {
			s.aliasing = append(s.aliasing, what+" wrote to the caller's topic / data bytes (or the bytes after them)")
		}
	}
}

func (s *Spec) keep(f func() string) {
	s.retain = nil
	if s.aabi == nil { // only sequences look at retained results
		return
	}
	if p, _ := safely(func() { s.retained0 = f() }); !p {
		s.retain = f
	}
}

func (s *Spec) entryCoq() string {
	if s.coqEnt != "" {
		return s.coqEnt
	}
	return s.Entry.Coq()
}

func class(err error, panicked bool) int {
	if panicked {
		return 2
	}
	if err != nil {
		return 1
	}
	return 0
}

func safely(f func()) (panicked bool, msg string) {
	defer func() {
		if r := recover(); r != nil {
			panicked = true
			msg = fmt.Sprint(r)
		}
	}()
	f()
	return
}

func topicsCoq(ts []hexb) string {
	p := make([]string, len(ts))
	for i, t := range ts {
		p[i] = cv.CoqBytes(t)
	}
	return "[" + strings.Join(p, "; ") + "]"
}

func short(b []byte) string {
	if len(b) > 200 {
		return hex.EncodeToString(b[:200]) + fmt.Sprintf("...(%d bytes)", len(b))
	}
	return hex.EncodeToString(b)
}

// run executes the implementation on the case and returns the Coq term.
func run(s *Spec, st *cv.Stats) string {
	switch s.Kind {
	case "sig":
		return runSig(s, st)
	case "call":
		return runCall(s, st)
	case "dec":
		return runDec(s, st)
	case "event":
		return runEvent(s, st)
	case "err":
		return runErr(s, st)
	case "seq":
		return runSeq(s, st)
	}
	panic("unknown case kind " + s.Kind)
}

func runSig(s *Spec, st *cv.Stats) string {
	ae := s.abiEntry()
	var sig string
	var err error
	var sel, top []byte
	p, msg := safely(func() {
		sig, err = ae.Signature()
		sel = ae.FunctionSelectorBytes()
		top = ae.SignatureHashBytes()
	})
	c := class(err, p)
	s.keep(func() string { return hex.EncodeToString(sel) + "/" + hex.EncodeToString(top) })
	s.Describe = s.Entry.Describe()
	s.Signature = s.Entry.Sig()
	s.Observed = fmt.Sprintf("class=%d signature=%q selector=%s hash=%s %s", c, sig, hex.EncodeToString(sel), hex.EncodeToString(top), msg)
	st.Hit(fmt.Sprintf("sig:class=%d", c))
	return fmt.Sprintf("CSig %s %d %s %s %s", s.entryCoq(), c, cv.CoqBytes([]byte(sig)), cv.CoqBytes(sel), cv.CoqBytes(top))
}

func runCall(s *Spec, st *cv.Stats) string {
	ae := s.abiEntry()
	var enc []byte
	var err, derr error
	var dec *abi.ComponentValue
	dcls := 1
	decV := &V{Nil: true}
	p, msg := safely(func() {
		var tree abi.TypeComponent
		tree, err = ae.Inputs.TypeComponentTree()
		if err != nil {
			return
		}
		enc, err = ae.EncodeCallData(build(tree, s.Value))
	})
	ecls := class(err, p)
	if ecls == 0 {
		p2, msg2 := safely(func() { dec, derr = ae.DecodeCallData(enc) })
		dcls = class(derr, p2)
		msg += msg2
		if dcls == 0 {
			decV = proj(dec)
		}
	}
	s.keep(func() string { return hex.EncodeToString(enc) + "/" + proj(dec).Describe() })
	s.Describe = s.Entry.Describe() + " value=" + s.Value.Describe()
	s.Signature = s.Entry.Sig()
	// the other EncodeCallData* entry points (arguments as Go values / as JSON) must produce the same call data
	if ecls == 0 && s.Exact {
		var encV, encJ []byte
		var errV, errJ error
		x := ext(s.Entry.tuple(), s.Value)
		js, _ := json.Marshal(x)
		pv, _ := safely(func() {
			encV, errV = ae.EncodeCallDataValues(x)
			encJ, errJ = ae.EncodeCallDataJSON(js)
		})
		if pv || errV != nil || errJ != nil || string(encV) != string(enc) || string(encJ) != string(enc) {
			msg += fmt.Sprintf(" EncodeCallDataValues: %s err=%v; EncodeCallDataJSON: %s err=%v (panic=%v)", short(encV), errV, short(encJ), errJ, pv)
			st.ImplFailures = append(st.ImplFailures, map[string]interface{}{
				"what": "EncodeCallDataValues / EncodeCallDataJSON do not produce the call data EncodeCallData produces for the same arguments (selector ++ enc(arguments))",
				"key":  s.Key, "kind": s.Kind, "class": s.Class, "entry": s.Entry, "value": s.Value, "exact": s.Exact,
				"describe": s.Describe, "observed": fmt.Sprintf("EncodeCallData=%s%s", short(enc), msg)})
		}
		st.Hit("call:values+json")
	}
	s.Observed = fmt.Sprintf("encode class=%d data=%s decode class=%d value=%s %s", ecls, short(enc), dcls, decV.Describe(), msg)
	st.Hit(fmt.Sprintf("call:encode=%d,decode=%d", ecls, dcls))
	return fmt.Sprintf("CCall %s %s %v %d %s %d %s", s.entryCoq(), s.Value.Coq(), s.Exact, ecls, cv.Compress(enc).Coq(), dcls, decV.Coq())
}

func runDec(s *Spec, st *cv.Stats) string {
	ae := s.abiEntry()
	var dec *abi.ComponentValue
	var err error
	data := s.carve(s.Data)
	guard := s.arenaGuard()
	p, msg := safely(func() { dec, err = ae.DecodeCallData(data) })
	guard("DecodeCallData")
	c := class(err, p)
	decV := &V{Nil: true}
	if c == 0 {
		decV = proj(dec)
	}
	if c == 0 {
		s.keep(func() string { return proj(dec).Describe() })
	}
	s.Describe = s.Entry.Describe() + " data=" + short(s.Data)
	s.Signature = s.Entry.Sig()
	s.Observed = fmt.Sprintf("class=%d value=%s %s", c, decV.Describe(), msg)
	st.Hit(fmt.Sprintf("dec:%s:class=%d", s.Class, c))
	return fmt.Sprintf("CDec %s %s %d %s", s.entryCoq(), cv.Compress(s.Data).Coq(), c, decV.Coq())
}

func expectCoqEvent(s *Spec) string {
	switch s.Expect {
	case "refuse":
		return "(Some None)"
	case "values":
		return "(Some (Some " + vlistCoq(s.ExpVals) + "))"
	}
	return "None"
}

func runEvent(s *Spec, st *cv.Stats) string {
	ae := s.abiEntry()
	topics := make([]ethtypes.HexBytes0xPrefix, len(s.Topics))
	for i, t := range s.Topics {
		topics[i] = ethtypes.HexBytes0xPrefix(t)
	}
	if s.Topics == nil && s.Class != "nil-topics" {
		topics = []ethtypes.HexBytes0xPrefix{}
	}
	evData := ethtypes.HexBytes0xPrefix(s.Data)
	var tfull []ethtypes.HexBytes0xPrefix
	var canaryA, canaryB ethtypes.HexBytes0xPrefix
	if s.arena != nil {
		// the topics slice is a sub-slice with spare capacity; what follows it are the topics of "another log"
		tfull = make([]ethtypes.HexBytes0xPrefix, len(s.Topics), len(s.Topics)+2)
		for i, t := range s.Topics {
			tfull[i] = ethtypes.HexBytes0xPrefix(s.carve(t))
		}
		canaryA, canaryB = ethtypes.HexBytes0xPrefix(s.carve(keccak([]byte("canary-a")))), ethtypes.HexBytes0xPrefix(s.carve(keccak([]byte("canary-b"))))
		tail := tfull[:cap(tfull)]
		tail[len(s.Topics)], tail[len(s.Topics)+1] = canaryA, canaryB
		topics = tfull
		evData = ethtypes.HexBytes0xPrefix(s.carve(s.Data))
	}
	var dec *abi.ComponentValue
	var err error
	guard := s.arenaGuard()
	p, msg := safely(func() { dec, err = ae.DecodeEventData(topics, evData) })
	guard("DecodeEventData")
	if tfull != nil {
		tail := tfull[:cap(tfull)]
		same := len(tail) == len(s.Topics)+2 && &tail[len(s.Topics)][0] == &canaryA[0] && &tail[len(s.Topics)+1][0] == &canaryB[0]
		for i, t := range s.Topics {
			same = same && len(tail[i]) == len(t) && string(tail[i]) == string(t)
		}
		if !same {
			s.aliasing = append(s.aliasing, "DecodeEventData changed the caller's topics slice (elements, or the slots after its length)")
		}
	}
	c := class(err, p)
	var outs []string
	var desc []string
	if c == 0 && dec != nil {
		for _, ch := range dec.Children {
			if ch == nil || ch.Component == nil {
				outs = append(outs, `DCh "" "" DNilP`)
				desc = append(desc, "nil")
				continue
			}
			v := proj(ch)
			outs = append(outs, fmt.Sprintf("DCh %s %s %s", coqString(ch.Component.String()), coqString(ch.Component.KeyName()), v.Coq()))
			desc = append(desc, ch.Component.String()+" "+ch.Component.KeyName()+"="+v.Describe())
		}
	}
	if c == 0 && dec != nil {
		s.keep(func() string {
			d := proj(dec).Describe()
			for _, ch := range dec.Children {
				if ch != nil && ch.Component != nil {
					d += " " + ch.Component.String()
				}
			}
			return d
		})
	}
	tl := make([]string, len(s.Topics))
	for i, t := range s.Topics {
		tl[i] = hex.EncodeToString(t)
	}
	s.Describe = s.Entry.Describe() + " topics=[" + strings.Join(tl, ",") + "] data=" + short(s.Data)
	s.Signature = s.Entry.Sig()
	s.Observed = fmt.Sprintf("class=%d children=[%s] %s", c, strings.Join(desc, "; "), msg)
	st.Hit(fmt.Sprintf("event:%s:class=%d", s.Class, c))
	return fmt.Sprintf("CEvent %s %s %s %d [%s] %s %v", s.entryCoq(), topicsCoq(s.Topics), cv.Compress(s.Data).Coq(), c,
		strings.Join(outs, "; "), expectCoqEvent(s), !s.Lenient)
}

// the serializer pipeline FormatErrorStringCtx uses, called directly (codec oracle of the model)
func formatArgs(cvv *abi.ComponentValue) (parts [][]byte, ok bool) {
	defer func() {
		if r := recover(); r != nil {
			parts, ok = nil, false
		}
	}()
	res, err := abi.NewSerializer().
		SetFormattingMode(abi.FormatAsFlatArrays).
		SetIntSerializer(abi.Base10StringIntSerializer).
		SetByteSerializer(abi.HexByteSerializer0xPrefix).
		SetAddressSerializer(abi.HexAddrSerializer0xPrefix).
		SerializeInterface(cvv)
	if err != nil {
		return nil, false
	}
	arr, isArr := res.([]interface{})
	if !isArr || arr == nil {
		return nil, false
	}
	for _, c := range arr {
		b, _ := json.Marshal(c)
		parts = append(parts, b)
	}
	return parts, true
}

func runErr(s *Spec, st *cv.Stats) string {
	a := abi.ABI{}
	ents := make([]string, len(s.ABI))
	descs := make([]string, len(s.ABI))
	for i, e := range s.ABI {
		if s.aabi == nil {
			a = append(a, e.Abi())
		}
		ents[i] = e.Coq()
		descs[i] = e.Describe()
	}
	if s.aabi != nil {
		a = s.aabi
		copy(ents, s.coqEnts)
	}
	var en *abi.Entry
	var cvv *abi.ComponentValue
	var ok, sok bool
	var str string
	rdata := s.carve(s.Data)
	guard := s.arenaGuard()
	defer guard("ParseError / ErrorString")
	p, msg := safely(func() {
		en, cvv, ok = a.ParseError(rdata)
		str, sok = a.ErrorString(rdata)
	})
	c := 0
	if p {
		c = 2
	}
	found := "None"
	fmtc := "None"
	obs := "not found"
	if c == 0 && ok && en != nil {
		sig, _ := en.Signature()
		v := proj(cvv)
		found = fmt.Sprintf("(Some (%s, %s, %s))", coqString(en.Name), coqString(sig), v.Coq())
		idx := -1
		for i := range a {
			if a[i] == en {
				idx = i
			}
		}
		obs = fmt.Sprintf("found abi[%d] %s args=%s", idx, sig, v.Describe())
		// identity of the attributed entry: an error definition of THIS ABI (or the built-in one, which is not an
		// element of it) whose selector -- computed by the harness from the definition -- the data carries.  Which of
		// several definitions with the same signature is returned is not fixed by the property.
		var def *Entry
		if idx >= 0 && idx < len(s.ABI) {
			def = s.ABI[idx]
		} else {
			def = &Entry{Type: "error", Name: "Error", Inputs: []Param{{T: &T{K: kString, Name: "reason"}}}}
		}
		if def.Type != "error" || !def.valid() || len(s.Data) < 4 || string(def.Selector()) != string(s.Data[:4]) || (idx < 0 && en.Name != "Error") {
			st.ImplFailures = append(st.ImplFailures, map[string]interface{}{
				"what": "ParseError attributed revert data to an entry that is not an error definition of the ABI (or the built-in Error(string)) carrying its selector",
				"key":  s.Key, "kind": s.Kind, "class": s.Class, "abi": s.ABI, "data": s.Data, "describe": "abi=[" + strings.Join(descs, "; ") + "] data=" + short(s.Data),
				"observed": obs})
		}
		if parts, pok := formatArgs(cvv); pok {
			ps := make([]string, len(parts))
			for i, b := range parts {
				ps[i] = cv.CoqBytes(b)
			}
			fmtc = "(Some [" + strings.Join(ps, "; ") + "])"
		}
	}
	if c == 0 && ok && en != nil {
		s.keep(func() string { sg, _ := en.Signature(); return sg + " " + proj(cvv).Describe() })
	}
	exp := "None"
	switch s.Expect {
	case "refuse":
		exp = "(Some None)"
	case "values":
		exp = fmt.Sprintf("(Some (Some (%d, %s)))", s.ExpIdx, vlistCoq(s.ExpVals))
	}
	s.Describe = "abi=[" + strings.Join(descs, "; ") + "] data=" + short(s.Data)
	s.Observed = fmt.Sprintf("class=%d %s string=%q ok=%v %s", c, obs, str, sok, msg)
	st.Hit(fmt.Sprintf("err:%s:found=%v", s.Class, ok))
	return fmt.Sprintf("CErr [%s] %s %d %s %s %v %s %s", strings.Join(ents, "; "), cv.Compress(s.Data).Coq(), c, found,
		cv.CoqBytes([]byte(str)), sok, fmtc, exp)
}
