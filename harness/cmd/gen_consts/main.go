// gen_consts regenerates coq/theories/Gen/Consts.v from the top-level `const` declarations (and
// package-level `var`s whose initialiser is a constant expression) of the Go packages whose
// constants the Coq models write down by hand:
//
//	pkg/rlp  pkg/ethsigner  pkg/secp256k1  pkg/keystorev3  pkg/rpcbackend  internal/rpcserver
//
// Every non-test .go file of those directories is parsed with go/parser (standard library only, no
// type checking), every constant whose expression the evaluator of eval.go understands is emitted
// as `Definition <pkg>_<name> : Z | string | bool := …` (sorted by name, no line numbers, so the
// output depends only on the declarations), and the theorems `Cxx_source_constants` at the end of
// the statements files Properties/C06.v, C01.v, C07.v, C15.v, C09.v, C16.v state that each value
// the model hard-codes equals the generated one.  The models stay as they are; the theorem is what
// breaks when the source changes.
//
// It fails closed: a constant listed in `required` below (those a model uses) that is no longer
// declared, is declared twice, changed its kind (integer / string) or has an expression the
// evaluator cannot evaluate makes the translator exit non-zero with a message naming the
// construct; nothing is written then.  Constants no model uses are emitted when they can be
// evaluated and skipped silently otherwise (the reason is kept as a comment in the output).
// `-need pkg,pkg` restricts the required set to some packages (default: all of them).
package main

import (
	"flag"
	"fmt"
	"os"
	"path/filepath"
	"sort"
	"strings"
)

// directories scanned, relative to the repository root
var scanned = []string{
	"pkg/rlp", "pkg/ethsigner", "pkg/secp256k1", "pkg/keystorev3", "pkg/rpcbackend", "internal/rpcserver",
}

type req struct {
	pkg, name string
	kind      kind
	usedBy    string
}

// the constants a model hard-codes (and a `…_source_constants` theorem mentions)
var required = []req{
	{"rlp", "shortString", kInt, "Rlp/Model.v shortString (C06, C01, C10)"},
	{"rlp", "longString", kInt, "Rlp/Model.v longString (C06, C01, C10)"},
	{"rlp", "shortList", kInt, "Rlp/Model.v shortList (C06, C01, C10)"},
	{"rlp", "longList", kInt, "Rlp/Model.v longList (C06, C01, C10)"},
	{"rlp", "shortToLong", kInt, "Rlp/Model.v shortToLong (C06, C01, C10)"},
	{"rlp", "maxInt32", kInt, "Rlp/Model.v maxInt32 (C06, C01, C10)"},
	{"ethsigner", "TransactionType1559", kInt, "Tx/Model.v TransactionType1559 (C01, C10)"},
	{"keystorev3", "nLight", kInt, "Keystore/Model.v nLight (C07)"},
	{"keystorev3", "nStandard", kInt, "Keystore/Model.v nStandard (C07)"},
	{"keystorev3", "pDefault", kInt, "Keystore/Model.v pDefault (C07)"},
	{"keystorev3", "defaultR", kInt, "Keystore/Model.v defaultR (C07)"},
	{"keystorev3", "version3", kInt, "Keystore/Model.v version3 (C07, C15)"},
	{"keystorev3", "derivedKeyLen", kInt, "Keystore/Model.v derivedKeyLen (C07, C15)"},
	{"keystorev3", "cipherAES128ctr", kString, "Keystore/Model.v cipherAES128ctr (C07)"},
	{"keystorev3", "kdfTypeScrypt", kString, "Keystore/Model.v kdfTypeScrypt (C07, C15)"},
	{"keystorev3", "kdfTypePbkdf2", kString, "Keystore/Model.v kdfTypePbkdf2 (C07, C15)"},
	{"keystorev3", "prfHmacSHA256", kString, "Keystore/Model.v prfHmacSHA256 (C07, C15)"},
	{"rpcbackend", "RPCCodeParseError", kInt, "Rpc/Model.v, Rpc/WfModel.v RPCCodeParseError (C09, C16)"},
	{"rpcbackend", "RPCCodeInvalidRequest", kInt, "Rpc/Model.v, Rpc/WfModel.v RPCCodeInvalidRequest (C09, C16)"},
	{"rpcbackend", "RPCCodeInternalError", kInt, "Rpc/Model.v, Rpc/WfModel.v RPCCodeInternalError, WsClient/Model.v codeInternal (C09, C16, C18)"},
}

func fail(format string, a ...interface{}) {
	fmt.Fprintf(os.Stderr, "gen_consts: "+format+"\n", a...)
	os.Exit(1)
}

// coqString renders a Go string (a byte sequence) as a Coq term of type string.
func coqString(s string) string {
	printable := true
	for i := 0; i < len(s); i++ {
		if s[i] < 0x20 || s[i] > 0x7e {
			printable = false
		}
	}
	if printable {
		return `"` + strings.ReplaceAll(s, `"`, `""`) + `"%string`
	}
	var sb strings.Builder
	for i := 0; i < len(s); i++ {
		fmt.Fprintf(&sb, "String (ascii_of_N %d) (", s[i])
	}
	sb.WriteString("EmptyString")
	sb.WriteString(strings.Repeat(")", len(s)))
	return sb.String()
}

// commentSafe makes a piece of Go source harmless inside a Coq comment (Coq lexes string
// literals and nested comment brackets inside comments).
func commentSafe(s string) string {
	s = strings.Join(strings.Fields(s), " ")
	s = strings.ReplaceAll(s, `"`, "'")
	s = strings.ReplaceAll(s, "(*", "( *")
	s = strings.ReplaceAll(s, "*)", "* )")
	if len(s) > 160 {
		s = s[:160] + " …"
	}
	return s
}

func asciiIdent(s string) bool {
	for i := 0; i < len(s); i++ {
		c := s[i]
		if !(c == '_' || c >= '0' && c <= '9' || c >= 'a' && c <= 'z' || c >= 'A' && c <= 'Z') {
			return false
		}
	}
	return s != "" && s != "_"
}

func main() {
	repo := flag.String("repo", "/repo", "repository root")
	out := flag.String("out", "", "output file (coq/theories/Gen/Consts.v)")
	need := flag.String("need", "", "comma separated package names whose required constants must be evaluable (default: all)")
	flag.Parse()
	if *out == "" {
		fail("-out is required")
	}
	needSet := map[string]bool{}
	for _, p := range strings.Split(*need, ",") {
		if p != "" {
			needSet[p] = true
		}
	}

	w := &world{pkgs: map[string]*pkg{}}
	for _, dir := range scanned {
		p, err := loadPkg(filepath.Join(*repo, dir), dir)
		if err != nil {
			fail("%v", err)
		}
		if p == nil {
			continue // directory without Go files: its required constants are reported missing below
		}
		if other, dup := w.pkgs[p.name]; dup {
			fail("two scanned directories declare package %s (%s and %s)", p.name, other.dir, p.dir)
		}
		p.w = w
		w.pkgs[p.name] = p
	}

	type line struct{ coqName, text string }
	var lines []line
	var skipped []string
	for _, pn := range w.pkgNames() {
		p := w.pkgs[pn]
		for _, n := range p.declNames() {
			d := p.decls[n]
			what := fmt.Sprintf("%s.%s (%s)", p.name, n, d.file)
			if !asciiIdent(n) {
				if n != "_" {
					skipped = append(skipped, what+": identifier is not plain ASCII")
				}
				continue
			}
			v, err := p.eval(n)
			if err != nil {
				skipped = append(skipped, what+": "+err.Error())
				continue
			}
			word := "const"
			if d.isVar {
				word = "var"
			}
			ty := v.typeName
			if ty == "" {
				ty = "untyped"
			}
			cmt := fmt.Sprintf("(* %s: %s %s %s = %s *)", d.file, word, n, ty, commentSafe(d.src))
			var def string
			switch v.k {
			case kInt:
				def = fmt.Sprintf("Definition %s_%s : Z := (%s)%%Z.", p.name, n, v.i.String())
			case kString:
				def = fmt.Sprintf("Definition %s_%s : string := %s.", p.name, n, coqString(v.s))
			case kBool:
				def = fmt.Sprintf("Definition %s_%s : bool := %v.", p.name, n, v.b)
			}
			lines = append(lines, line{p.name + "_" + n, cmt + "\n" + def + "\n"})
		}
	}

	// fail closed on what a model uses
	var problems []string
	for _, r := range required {
		if len(needSet) > 0 && !needSet[r.pkg] {
			continue
		}
		p := w.pkgs[r.pkg]
		if p == nil {
			problems = append(problems, fmt.Sprintf("%s.%s: package %s not found in the scanned directories; used by %s", r.pkg, r.name, r.pkg, r.usedBy))
			continue
		}
		d := p.decls[r.name]
		if d == nil {
			problems = append(problems, fmt.Sprintf("%s.%s: no top-level const/var of that name in %s any more (renamed, removed or moved into a function?); used by %s",
				r.pkg, r.name, p.dir, r.usedBy))
			continue
		}
		v, err := p.eval(r.name)
		if err != nil {
			problems = append(problems, fmt.Sprintf("%s.%s (%s): cannot evaluate `%s`: %v; used by %s", r.pkg, r.name, d.file, commentSafe(d.src), err, r.usedBy))
			continue
		}
		if v.k != r.kind {
			problems = append(problems, fmt.Sprintf("%s.%s (%s): is now a %s constant, the model has a %s; used by %s", r.pkg, r.name, d.file, v.k, r.kind, r.usedBy))
		}
	}
	if len(problems) > 0 {
		fail("constants a model depends on can no longer be extracted:\n  %s", strings.Join(problems, "\n  "))
	}

	sort.Slice(lines, func(i, j int) bool { return lines[i].coqName < lines[j].coqName })
	for i := 1; i < len(lines); i++ {
		if lines[i].coqName == lines[i-1].coqName {
			fail("two constants map to the Coq name %s", lines[i].coqName)
		}
	}
	sort.Strings(skipped)

	var sb strings.Builder
	sb.WriteString("(* GENERATED by harness/cmd/gen_consts from the top-level const/var declarations of\n   ")
	sb.WriteString(strings.Join(scanned, ", "))
	sb.WriteString(` -- do not edit.
   The constants of the source as it is now, evaluated by the translator's constant-expression
   evaluator.  The models keep their own hand-written copies; the theorems Cxx_source_constants
   in Properties/ state that the two agree, and break when the source changes. *)
From Coq Require Import String Ascii ZArith NArith.

`)
	for _, l := range lines {
		sb.WriteString(l.text)
	}
	if len(skipped) > 0 {
		sb.WriteString("\n(* not emitted (no model uses them):\n")
		for _, s := range skipped {
			sb.WriteString("   " + commentSafe(s) + "\n")
		}
		sb.WriteString("*)\n")
	}
	if err := os.WriteFile(*out, []byte(sb.String()), 0o644); err != nil {
		fail("%v", err)
	}
}
