package main

// Package loading (go/parser + go/ast, no type checking) and the constant-expression evaluator.
//
// Evaluated: integer, character and string literals; true / false; iota (with the implicit
// repetition of the previous expression list in a const group); references to other package-level
// constants of the same package (in any file, declared before or after) and, through the import
// table of the declaring file, of another scanned package and of a few constants of package math;
// parentheses; unary + - ^ !; binary + - * / % & | ^ &^ << >>, comparisons, && ||, string
// concatenation; len of a constant string; conversions T(x) where T is a predeclared sized integer
// type (int and uint are 64 bits), string, bool or a declared type whose underlying type is one of
// those (`type RPCCode int64`).  Untyped integers have arbitrary precision; a typed integer result
// is reduced modulo 2^bits into the range of its type (the Go compiler rejects an overflowing
// constant, so on a tree that compiles the reduction is the identity; ^ on a typed unsigned
// operand is the complement within the type, as in Go).
//
// Not evaluated (the constant is skipped, or the translator fails if a model uses it):
// floating-point and imaginary literals, conversions to other types, function calls other than
// len, composite literals, references to anything that is not a constant, a variable that is
// assigned to or whose address is taken anywhere in the package, a name declared twice (files
// selected by build tags).

import (
	"bytes"
	"fmt"
	"go/ast"
	"go/parser"
	"go/printer"
	"go/token"
	"math/big"
	"os"
	"path/filepath"
	"sort"
	"strconv"
	"strings"
)

type kind int

const (
	kInt kind = iota
	kString
	kBool
)

func (k kind) String() string { return [...]string{"integer", "string", "boolean"}[k] }

type intType struct {
	bits   uint
	signed bool
}

type value struct {
	k        kind
	i        *big.Int
	s        string
	b        bool
	typeName string   // "" = untyped
	it       *intType // set for typed integers
}

type decl struct {
	name    string
	typ     ast.Expr
	val     ast.Expr
	iota    int64
	inConst bool
	isVar   bool
	file    string
	imports map[string]string
	src     string
	problem string // set at load time when the declaration cannot be used at all
	state   int    // 0 new, 1 being evaluated, 2 done
	v       value
	err     error
}

type typeDecl struct {
	expr    ast.Expr
	imports map[string]string
}

type pkg struct {
	name, dir string
	decls     map[string]*decl
	types     map[string]*typeDecl
	funcs     map[string]bool
	w         *world
}

type world struct{ pkgs map[string]*pkg }

func (w *world) pkgNames() []string {
	var ns []string
	for n := range w.pkgs {
		ns = append(ns, n)
	}
	sort.Strings(ns)
	return ns
}

func (p *pkg) declNames() []string {
	var ns []string
	for n := range p.decls {
		ns = append(ns, n)
	}
	sort.Strings(ns)
	return ns
}

func exprText(fset *token.FileSet, e ast.Expr) string {
	if e == nil {
		return ""
	}
	var b bytes.Buffer
	if err := printer.Fprint(&b, fset, e); err != nil {
		return "?"
	}
	return b.String()
}

// loadPkg parses the non-test files of one directory. rel is the repo-relative directory.
func loadPkg(dir, rel string) (*pkg, error) {
	ents, err := os.ReadDir(dir)
	if err != nil {
		if os.IsNotExist(err) {
			return nil, nil
		}
		return nil, err
	}
	fset := token.NewFileSet()
	p := &pkg{dir: rel, decls: map[string]*decl{}, types: map[string]*typeDecl{}, funcs: map[string]bool{}}
	var files []*ast.File
	var names []string
	for _, e := range ents {
		n := e.Name()
		if e.IsDir() || !strings.HasSuffix(n, ".go") || strings.HasSuffix(n, "_test.go") {
			continue
		}
		f, err := parser.ParseFile(fset, filepath.Join(dir, n), nil, parser.SkipObjectResolution)
		if err != nil {
			return nil, fmt.Errorf("%s/%s does not parse: %v", rel, n, err)
		}
		if p.name == "" {
			p.name = f.Name.Name
		} else if p.name != f.Name.Name {
			return nil, fmt.Errorf("%s: files of two packages (%s and %s) in one directory", rel, p.name, f.Name.Name)
		}
		files = append(files, f)
		names = append(names, rel+"/"+n)
	}
	if len(files) == 0 {
		return nil, nil
	}
	for fi, f := range files {
		imports := map[string]string{}
		for _, im := range f.Imports {
			path, _ := strconv.Unquote(im.Path.Value)
			local := path[strings.LastIndex(path, "/")+1:]
			if im.Name != nil {
				local = im.Name.Name
			}
			imports[local] = path
		}
		for _, d := range f.Decls {
			switch g := d.(type) {
			case *ast.FuncDecl:
				if g.Recv == nil {
					p.funcs[g.Name.Name] = true
				}
			case *ast.GenDecl:
				switch g.Tok {
				case token.TYPE:
					for _, s := range g.Specs {
						ts := s.(*ast.TypeSpec)
						p.types[ts.Name.Name] = &typeDecl{expr: ts.Type, imports: imports}
					}
				case token.CONST, token.VAR:
					var prevType ast.Expr
					var prevVals []ast.Expr
					for idx, s := range g.Specs {
						vs := s.(*ast.ValueSpec)
						typ, vals := vs.Type, vs.Values
						if g.Tok == token.CONST {
							if len(vals) == 0 {
								typ, vals = prevType, prevVals // implicit repetition
							} else {
								prevType, prevVals = typ, vals
							}
						}
						for j, id := range vs.Names {
							nd := &decl{name: id.Name, typ: typ, iota: int64(idx), inConst: g.Tok == token.CONST,
								isVar: g.Tok == token.VAR, file: names[fi], imports: imports}
							switch {
							case len(vals) == len(vs.Names):
								nd.val = vals[j]
								nd.src = exprText(fset, vals[j])
							case len(vals) == 0:
								nd.problem = "declared without an initialiser"
							default:
								nd.problem = "initialised from a multi-value expression"
							}
							if id.Name == "_" {
								continue
							}
							if old, dup := p.decls[id.Name]; dup {
								old.problem = fmt.Sprintf("declared twice (%s and %s; files selected by build tags?)", old.file, nd.file)
								continue
							}
							p.decls[id.Name] = nd
						}
					}
				}
			}
		}
	}
	// a package-level variable is a constant for our purpose only if nothing in the package assigns
	// to it or takes its address (name-based, so a shadowing local counts too: conservative)
	for fi, f := range files {
		mark := func(e ast.Expr, how string) {
			for {
				if pe, ok := e.(*ast.ParenExpr); ok {
					e = pe.X
					continue
				}
				break
			}
			if id, ok := e.(*ast.Ident); ok {
				if d := p.decls[id.Name]; d != nil && d.isVar && d.problem == "" {
					d.problem = fmt.Sprintf("is a variable that is %s in %s", how, names[fi])
				}
			}
		}
		ast.Inspect(f, func(n ast.Node) bool {
			switch s := n.(type) {
			case *ast.AssignStmt:
				if s.Tok != token.DEFINE {
					for _, l := range s.Lhs {
						mark(l, "assigned to")
					}
				}
			case *ast.IncDecStmt:
				mark(s.X, "assigned to")
			case *ast.UnaryExpr:
				if s.Op == token.AND {
					mark(s.X, "address-taken")
				}
			case *ast.RangeStmt:
				if s.Tok == token.ASSIGN {
					mark(s.Key, "assigned to")
					mark(s.Value, "assigned to")
				}
			}
			return true
		})
	}
	return p, nil
}

var builtinInts = map[string]intType{
	"int": {64, true}, "int8": {8, true}, "int16": {16, true}, "int32": {32, true}, "int64": {64, true},
	"uint": {64, false}, "uint8": {8, false}, "uint16": {16, false}, "uint32": {32, false}, "uint64": {64, false},
	"uintptr": {64, false}, "byte": {8, false}, "rune": {32, true},
}

var builtinOther = map[string]bool{"float32": true, "float64": true, "complex64": true, "complex128": true, "error": true, "any": true}

// constants of package math that bound integer types
var mathConsts = map[string]string{
	"MaxInt8": "127", "MinInt8": "-128", "MaxInt16": "32767", "MinInt16": "-32768",
	"MaxInt32": "2147483647", "MinInt32": "-2147483648",
	"MaxInt64": "9223372036854775807", "MinInt64": "-9223372036854775808",
	"MaxInt": "9223372036854775807", "MinInt": "-9223372036854775808",
	"MaxUint8": "255", "MaxUint16": "65535", "MaxUint32": "4294967295",
	"MaxUint64": "18446744073709551615", "MaxUint": "18446744073709551615",
}

// rtype is a resolved type: an integer type, string, bool, or something the evaluator does not handle.
type rtype struct {
	name  string
	k     kind
	it    *intType
	other string // non-empty: why a conversion to it is not evaluated
}

func (p *pkg) scannedByImport(imports map[string]string, local string) (*pkg, string) {
	path, ok := imports[local]
	if !ok {
		return nil, ""
	}
	for _, q := range p.w.pkgs {
		if path == q.dir || strings.HasSuffix(path, "/"+q.dir) {
			return q, path
		}
	}
	return nil, path
}

// asType says whether e denotes a type in this package's scope and resolves it.
func (p *pkg) asType(e ast.Expr, imports map[string]string, depth int) (rtype, bool) {
	if depth > 20 {
		return rtype{other: "type declaration chain too deep"}, true
	}
	switch t := e.(type) {
	case *ast.ParenExpr:
		return p.asType(t.X, imports, depth+1)
	case *ast.Ident:
		if td, ok := p.types[t.Name]; ok {
			r, _ := p.asType(td.expr, td.imports, depth+1)
			if r.other == "" {
				r.name = t.Name
			}
			return r, true
		}
		if p.decls[t.Name] != nil || p.funcs[t.Name] {
			return rtype{}, false
		}
		if it, ok := builtinInts[t.Name]; ok {
			c := it
			return rtype{name: t.Name, k: kInt, it: &c}, true
		}
		switch {
		case t.Name == "string":
			return rtype{name: "string", k: kString}, true
		case t.Name == "bool":
			return rtype{name: "bool", k: kBool}, true
		case builtinOther[t.Name]:
			return rtype{other: "type " + t.Name + " (only integer, string and boolean constants are evaluated)"}, true
		}
		return rtype{}, false
	case *ast.SelectorExpr:
		if x, ok := t.X.(*ast.Ident); ok {
			if q, _ := p.scannedByImport(imports, x.Name); q != nil {
				if td, ok := q.types[t.Sel.Name]; ok {
					r, _ := q.asType(td.expr, td.imports, depth+1)
					if r.other == "" {
						r.name = q.name + "." + t.Sel.Name
					}
					return r, true
				}
			}
		}
		return rtype{}, false
	case *ast.ArrayType, *ast.StarExpr, *ast.MapType, *ast.ChanType, *ast.FuncType, *ast.StructType, *ast.InterfaceType:
		return rtype{other: fmt.Sprintf("a composite type (%T)", e)}, true
	}
	return rtype{}, false
}

func wrap(x *big.Int, t *intType) *big.Int {
	m := new(big.Int).Lsh(big.NewInt(1), t.bits)
	r := new(big.Int).And(x, new(big.Int).Sub(m, big.NewInt(1))) // two's complement semantics for negative x
	if t.signed && r.Bit(int(t.bits)-1) == 1 {
		r.Sub(r, m)
	}
	return r
}

func convert(v value, t rtype) (value, error) {
	if t.other != "" {
		return value{}, fmt.Errorf("conversion to %s", t.other)
	}
	switch {
	case v.k == kInt && t.k == kInt:
		return value{k: kInt, i: wrap(v.i, t.it), typeName: t.name, it: t.it}, nil
	case v.k == kString && t.k == kString:
		return value{k: kString, s: v.s, typeName: t.name}, nil
	case v.k == kBool && t.k == kBool:
		return value{k: kBool, b: v.b, typeName: t.name}, nil
	}
	return value{}, fmt.Errorf("conversion of a %s constant to type %s", v.k, t.name)
}

// eval gives the value of the package-level constant (or constant-initialised variable) name.
func (p *pkg) eval(name string) (value, error) {
	d := p.decls[name]
	if d == nil {
		return value{}, fmt.Errorf("%s.%s is not a package-level constant", p.name, name)
	}
	switch d.state {
	case 2:
		return d.v, d.err
	case 1:
		return value{}, fmt.Errorf("initialisation cycle through %s", name)
	}
	d.state = 1
	d.v, d.err = p.evalDecl(d)
	d.state = 2
	return d.v, d.err
}

func (p *pkg) evalDecl(d *decl) (value, error) {
	if d.problem != "" {
		return value{}, fmt.Errorf("%s", d.problem)
	}
	v, err := p.evalExpr(d.val, d)
	if err != nil {
		return value{}, err
	}
	if d.typ != nil {
		t, ok := p.asType(d.typ, d.imports, 0)
		if !ok {
			return value{}, fmt.Errorf("declared type `%s` is not a type the evaluator knows", typeText(d.typ))
		}
		return convert(v, t)
	}
	return v, nil
}

func typeText(e ast.Expr) string { return exprText(token.NewFileSet(), e) }

func (p *pkg) evalExpr(e ast.Expr, d *decl) (value, error) {
	switch x := e.(type) {
	case *ast.BasicLit:
		switch x.Kind {
		case token.INT:
			n, ok := new(big.Int).SetString(x.Value, 0)
			if !ok {
				return value{}, fmt.Errorf("integer literal %s", x.Value)
			}
			return value{k: kInt, i: n}, nil
		case token.CHAR:
			s := x.Value
			if len(s) < 3 {
				return value{}, fmt.Errorf("character literal %s", s)
			}
			r, _, tail, err := strconv.UnquoteChar(s[1:len(s)-1], '\'')
			if err != nil || tail != "" {
				return value{}, fmt.Errorf("character literal %s", s)
			}
			return value{k: kInt, i: big.NewInt(int64(r))}, nil
		case token.STRING:
			s, err := strconv.Unquote(x.Value)
			if err != nil {
				return value{}, fmt.Errorf("string literal %s", x.Value)
			}
			return value{k: kString, s: s}, nil
		}
		return value{}, fmt.Errorf("%s literal %s (floating-point and imaginary constants are not evaluated)", strings.ToLower(x.Kind.String()), x.Value)
	case *ast.ParenExpr:
		return p.evalExpr(x.X, d)
	case *ast.Ident:
		if p.decls[x.Name] != nil {
			v, err := p.eval(x.Name)
			if err != nil {
				return value{}, fmt.Errorf("%s: %v", x.Name, err)
			}
			return v, nil
		}
		if p.types[x.Name] != nil || p.funcs[x.Name] {
			return value{}, fmt.Errorf("reference to %s, which is not a constant", x.Name)
		}
		switch x.Name {
		case "iota":
			if !d.inConst {
				return value{}, fmt.Errorf("iota outside a const declaration")
			}
			return value{k: kInt, i: big.NewInt(d.iota)}, nil
		case "true", "false":
			return value{k: kBool, b: x.Name == "true"}, nil
		}
		return value{}, fmt.Errorf("reference to %s, which is not a package-level constant of %s", x.Name, p.name)
	case *ast.SelectorExpr:
		id, ok := x.X.(*ast.Ident)
		if !ok || p.decls[id.Name] != nil {
			return value{}, fmt.Errorf("selector expression `%s`", typeText(x))
		}
		q, path := p.scannedByImport(d.imports, id.Name)
		if q != nil {
			if !ast.IsExported(x.Sel.Name) {
				return value{}, fmt.Errorf("reference to unexported %s.%s", id.Name, x.Sel.Name)
			}
			v, err := q.eval(x.Sel.Name)
			if err != nil {
				return value{}, fmt.Errorf("%s.%s: %v", id.Name, x.Sel.Name, err)
			}
			if v.typeName != "" && v.it != nil && !strings.Contains(v.typeName, ".") {
				if _, builtin := builtinInts[v.typeName]; !builtin {
					v.typeName = q.name + "." + v.typeName
				}
			}
			return v, nil
		}
		if path == "math" {
			if s, ok := mathConsts[x.Sel.Name]; ok {
				n, _ := new(big.Int).SetString(s, 10)
				return value{k: kInt, i: n}, nil
			}
		}
		return value{}, fmt.Errorf("reference to %s.%s (a package outside the scanned ones)", id.Name, x.Sel.Name)
	case *ast.UnaryExpr:
		v, err := p.evalExpr(x.X, d)
		if err != nil {
			return value{}, err
		}
		switch {
		case x.Op == token.NOT && v.k == kBool:
			return value{k: kBool, b: !v.b, typeName: v.typeName}, nil
		case v.k != kInt:
			return value{}, fmt.Errorf("unary %s on a %s constant", x.Op, v.k)
		}
		r := new(big.Int)
		switch x.Op {
		case token.ADD:
			r.Set(v.i)
		case token.SUB:
			r.Neg(v.i)
		case token.XOR:
			if v.it != nil && !v.it.signed {
				mask := new(big.Int).Sub(new(big.Int).Lsh(big.NewInt(1), v.it.bits), big.NewInt(1))
				r.Xor(v.i, mask)
			} else {
				r.Not(v.i)
			}
		default:
			return value{}, fmt.Errorf("unary operator %s", x.Op)
		}
		if v.it != nil {
			r = wrap(r, v.it)
		}
		return value{k: kInt, i: r, typeName: v.typeName, it: v.it}, nil
	case *ast.BinaryExpr:
		a, err := p.evalExpr(x.X, d)
		if err != nil {
			return value{}, err
		}
		b, err := p.evalExpr(x.Y, d)
		if err != nil {
			return value{}, err
		}
		return binary(x.Op, a, b)
	case *ast.CallExpr:
		if x.Ellipsis.IsValid() || len(x.Args) != 1 {
			return value{}, fmt.Errorf("call `%s` (only conversions and len of a constant string are evaluated)", typeText(x.Fun))
		}
		if t, isType := p.asType(x.Fun, d.imports, 0); isType {
			v, err := p.evalExpr(x.Args[0], d)
			if err != nil {
				return value{}, err
			}
			return convert(v, t)
		}
		if id, ok := x.Fun.(*ast.Ident); ok && id.Name == "len" && p.decls["len"] == nil && !p.funcs["len"] {
			v, err := p.evalExpr(x.Args[0], d)
			if err != nil {
				return value{}, err
			}
			if v.k != kString {
				return value{}, fmt.Errorf("len of a %s constant", v.k)
			}
			it := builtinInts["int"]
			return value{k: kInt, i: big.NewInt(int64(len(v.s))), typeName: "int", it: &it}, nil
		}
		return value{}, fmt.Errorf("call of function `%s` (not a constant expression)", typeText(x.Fun))
	}
	return value{}, fmt.Errorf("expression `%s` of syntactic form %T", typeText(e), e)
}

func binary(op token.Token, a, b value) (value, error) {
	isShift := op == token.SHL || op == token.SHR
	if a.k != b.k {
		return value{}, fmt.Errorf("operator %s between a %s and a %s constant", op, a.k, b.k)
	}
	// result type of a non-shift operation: the typed operand's; both typed => they must agree
	tn, it := a.typeName, a.it
	if !isShift {
		if a.typeName != "" && b.typeName != "" && a.typeName != b.typeName {
			return value{}, fmt.Errorf("operator %s between constants of types %s and %s", op, a.typeName, b.typeName)
		}
		if tn == "" {
			tn, it = b.typeName, b.it
		}
	}
	cmp := func(c int) (value, error) {
		var r bool
		switch op {
		case token.EQL:
			r = c == 0
		case token.NEQ:
			r = c != 0
		case token.LSS:
			r = c < 0
		case token.LEQ:
			r = c <= 0
		case token.GTR:
			r = c > 0
		case token.GEQ:
			r = c >= 0
		}
		return value{k: kBool, b: r}, nil
	}
	isCmp := op == token.EQL || op == token.NEQ || op == token.LSS || op == token.LEQ || op == token.GTR || op == token.GEQ
	switch a.k {
	case kBool:
		switch op {
		case token.LAND:
			return value{k: kBool, b: a.b && b.b, typeName: tn}, nil
		case token.LOR:
			return value{k: kBool, b: a.b || b.b, typeName: tn}, nil
		case token.EQL:
			return value{k: kBool, b: a.b == b.b}, nil
		case token.NEQ:
			return value{k: kBool, b: a.b != b.b}, nil
		}
		return value{}, fmt.Errorf("operator %s on boolean constants", op)
	case kString:
		if op == token.ADD {
			return value{k: kString, s: a.s + b.s, typeName: tn}, nil
		}
		if isCmp {
			return cmp(strings.Compare(a.s, b.s))
		}
		return value{}, fmt.Errorf("operator %s on string constants", op)
	}
	if isCmp {
		return cmp(a.i.Cmp(b.i))
	}
	r := new(big.Int)
	switch op {
	case token.ADD:
		r.Add(a.i, b.i)
	case token.SUB:
		r.Sub(a.i, b.i)
	case token.MUL:
		r.Mul(a.i, b.i)
	case token.QUO, token.REM:
		if b.i.Sign() == 0 {
			return value{}, fmt.Errorf("division by zero")
		}
		if op == token.QUO {
			r.Quo(a.i, b.i) // truncated, as in Go
		} else {
			r.Rem(a.i, b.i)
		}
	case token.AND:
		r.And(a.i, b.i)
	case token.OR:
		r.Or(a.i, b.i)
	case token.XOR:
		r.Xor(a.i, b.i)
	case token.AND_NOT:
		r.AndNot(a.i, b.i)
	case token.SHL, token.SHR:
		if b.i.Sign() < 0 || !b.i.IsInt64() || b.i.Int64() > 4096 {
			return value{}, fmt.Errorf("shift count %s", b.i)
		}
		if op == token.SHL {
			r.Lsh(a.i, uint(b.i.Int64()))
		} else {
			r.Rsh(a.i, uint(b.i.Int64())) // arithmetic shift on negative values, as in Go
		}
	default:
		return value{}, fmt.Errorf("operator %s on integer constants", op)
	}
	if it != nil {
		r = wrap(r, it)
	}
	return value{k: kInt, i: r, typeName: tn, it: it}, nil
}
