package main

import (
	"bytes"
	"encoding/json"
	"strings"
)

// jv is a JSON value that keeps object keys in order and allows duplicates, so that mutated schemas
// can be printed exactly as intended.
type jv struct {
	k byte // 'n' null, 't' true, 'f' false, '#' number (literal text in s), 's' string, 'a' array, 'o' object
	s string
	a []*jv
	o []kv
}
type kv struct {
	k string
	v *jv
}

func jnull() *jv           { return &jv{k: 'n'} }
func jbool(b bool) *jv     { return &jv{k: map[bool]byte{true: 't', false: 'f'}[b]} }
func jnum(lit string) *jv  { return &jv{k: '#', s: lit} }
func jstr(s string) *jv    { return &jv{k: 's', s: s} }
func jarr(a ...*jv) *jv    { return &jv{k: 'a', a: a} }
func jobj(o ...kv) *jv     { return &jv{k: 'o', o: o} }
func (v *jv) isObj() bool  { return v != nil && v.k == 'o' }
func (v *jv) get(k string) *jv {
	if !v.isObj() {
		return nil
	}
	for i := range v.o {
		if v.o[i].k == k {
			return v.o[i].v
		}
	}
	return nil
}
func (v *jv) set(k string, x *jv) {
	for i := range v.o {
		if v.o[i].k == k {
			v.o[i].v = x
			return
		}
	}
	v.o = append(v.o, kv{k, x})
}
func (v *jv) del(k string) bool {
	for i := range v.o {
		if v.o[i].k == k {
			v.o = append(v.o[:i:i], v.o[i+1:]...)
			return true
		}
	}
	return false
}
func (v *jv) clone() *jv {
	if v == nil {
		return nil
	}
	c := &jv{k: v.k, s: v.s}
	for _, x := range v.a {
		c.a = append(c.a, x.clone())
	}
	for _, e := range v.o {
		c.o = append(c.o, kv{e.k, e.v.clone()})
	}
	return c
}

func (v *jv) write(sb *strings.Builder) {
	switch v.k {
	case 'n':
		sb.WriteString("null")
	case 't':
		sb.WriteString("true")
	case 'f':
		sb.WriteString("false")
	case '#':
		sb.WriteString(v.s)
	case 's':
		b, _ := json.Marshal(v.s)
		sb.Write(b)
	case 'a':
		sb.WriteByte('[')
		for i, x := range v.a {
			if i > 0 {
				sb.WriteByte(',')
			}
			x.write(sb)
		}
		sb.WriteByte(']')
	case 'o':
		sb.WriteByte('{')
		for i, e := range v.o {
			if i > 0 {
				sb.WriteByte(',')
			}
			b, _ := json.Marshal(e.k)
			sb.Write(b)
			sb.WriteByte(':')
			e.v.write(sb)
		}
		sb.WriteByte('}')
	}
}
func (v *jv) text() string {
	var sb strings.Builder
	v.write(&sb)
	return sb.String()
}

// parseJV parses JSON text keeping key order.
func parseJV(text string) (*jv, error) {
	dec := json.NewDecoder(bytes.NewReader([]byte(text)))
	dec.UseNumber()
	return parseValue(dec)
}
func parseValue(dec *json.Decoder) (*jv, error) {
	tok, err := dec.Token()
	if err != nil {
		return nil, err
	}
	switch t := tok.(type) {
	case nil:
		return jnull(), nil
	case bool:
		return jbool(t), nil
	case json.Number:
		return jnum(t.String()), nil
	case string:
		return jstr(t), nil
	case json.Delim:
		switch t {
		case '[':
			out := jarr()
			for dec.More() {
				x, err := parseValue(dec)
				if err != nil {
					return nil, err
				}
				out.a = append(out.a, x)
			}
			_, err := dec.Token()
			return out, err
		case '{':
			out := jobj()
			for dec.More() {
				kt, err := dec.Token()
				if err != nil {
					return nil, err
				}
				x, err := parseValue(dec)
				if err != nil {
					return nil, err
				}
				out.o = append(out.o, kv{kt.(string), x})
			}
			_, err := dec.Token()
			return out, err
		}
	}
	return jnull(), nil
}

// schemaNodes lists the nodes of a schema document that are parameter schemas themselves: the root,
// every value under "properties" and every "items", recursively.
func schemaNodes(v *jv, out *[]*jv) {
	if !v.isObj() {
		return
	}
	*out = append(*out, v)
	if p := v.get("properties"); p.isObj() {
		for _, e := range p.o {
			schemaNodes(e.v, out)
		}
	}
	if it := v.get("items"); it != nil {
		schemaNodes(it, out)
	}
}
