// Harness for C20 (ABI <-> FFI conversion, pkg/ffi2abi).  Generates ABIs over the C02 type trees
// (tuples in tuples, tuple arrays of any dimension), converts them to the FireFly interface format
// and back with the implementation, mutates the generated parameter schemas, adds arbitrary JSON, and
// writes Coq case files that Ffi/Run.v evaluates against the model and the spec oracles.
//
// Oracle values handed to the model (never computed by firefly-signer code): the verdict of the
// jsonschema compile (library called directly with the meta-schema object) and the struct value
// encoding/json decodes the schema text into.
package main

import (
	"context"
	"encoding/json"
	"flag"
	"fmt"
	"os"
	"path/filepath"
	"sort"
	"strings"

	"github.com/hyperledger/firefly-common/pkg/fftypes"
	"github.com/hyperledger/firefly-signer/pkg/abi"
	"github.com/hyperledger/firefly-signer/pkg/ffi2abi"
	"verifharness/abigen"
	"verifharness/cv"
)

var ctx = context.Background()

// ---------- Coq printers ----------

func cb(s string) string {
	if len(s) == 0 {
		return "[]"
	}
	return "(bx " + cv.CoqBytes([]byte(s)) + ")"
}
func cbool(b bool) string {
	if b {
		return "true"
	}
	return "false"
}
func clist(parts []string) string { return "[" + strings.Join(parts, "; ") + "]" }

func coqParam(p *abi.Parameter) (string, bool) {
	if p == nil {
		return "", false
	}
	cs := make([]string, len(p.Components))
	for i, c := range p.Components {
		s, ok := coqParam(c)
		if !ok {
			return "", false
		}
		cs[i] = s
	}
	return fmt.Sprintf("(FParam %s %s %s %s %s)", cb(p.Name), cb(p.Type), cb(p.InternalType), cbool(p.Indexed), clist(cs)), true
}
func coqParams(pa abi.ParameterArray) (string, bool) {
	ps := make([]string, len(pa))
	for i, p := range pa {
		s, ok := coqParam(p)
		if !ok {
			return "", false
		}
		ps[i] = s
	}
	return clist(ps), true
}

func coqSchema(s *ffi2abi.Schema) string {
	oneof := "None"
	if s.OneOf != nil {
		ts := make([]string, len(s.OneOf))
		for i, t := range s.OneOf {
			ts[i] = cb(t.Type)
		}
		oneof = "(Some " + clist(ts) + ")"
	}
	det := "None"
	if s.Details != nil {
		idx := "None"
		if s.Details.Index != nil {
			idx = fmt.Sprintf("(Some (%d)%%Z)", *s.Details.Index)
		}
		det = fmt.Sprintf("(Some (mkDetails %s %s %s %s))", cb(s.Details.Type), cb(s.Details.InternalType), cbool(s.Details.Indexed), idx)
	}
	keys := make([]string, 0, len(s.Properties))
	for k := range s.Properties {
		keys = append(keys, k)
	}
	sort.Strings(keys)
	props := make([]string, len(keys))
	for i, k := range keys {
		props[i] = "(" + cb(k) + ", " + coqSchemaPtr(s.Properties[k]) + ")"
	}
	return fmt.Sprintf("(Schema %s %s %s %s %s)", cb(s.Type), oneof, det, clist(props), coqSchemaPtr(s.Items))
}
func coqSchemaPtr(s *ffi2abi.Schema) string {
	if s == nil {
		return "None"
	}
	return "(Some " + coqSchema(s) + ")"
}

func coqEntryType(t abi.EntryType) string {
	switch t {
	case abi.Function:
		return "EFunction"
	case abi.Constructor:
		return "EConstructor"
	case abi.Receive:
		return "EReceive"
	case abi.Fallback:
		return "EFallback"
	case abi.Event:
		return "EEvent"
	case abi.Error:
		return "EError"
	}
	return "EOther"
}
func coqEntry(e *abi.Entry) (string, bool) {
	i, ok1 := coqParams(e.Inputs)
	o, ok2 := coqParams(e.Outputs)
	return fmt.Sprintf("(mkEntry %s %s %s %s)", coqEntryType(e.Type), cb(e.Name), i, o), ok1 && ok2
}

// ---------- oracles from the libraries ----------

// verdict: does the parameter schema pass the jsonschema compile (draft 2020-12 meta-schema, the
// FireFly base validator, the "details" meta-schema)?  Registered under a fixed resource name.
func verdict(text string) (ok bool) {
	defer func() {
		if recover() != nil {
			ok = false
		}
	}()
	c := fftypes.NewFFISchemaCompiler()
	v := &ffi2abi.ParamValidator{}
	c.RegisterExtension(v.GetExtensionName(), v.GetMetaSchema(), v)
	if err := c.AddResource("p", strings.NewReader(text)); err != nil {
		return false
	}
	_, err := c.Compile("p")
	return err == nil
}

// unmarshal: what encoding/json makes of the text as a *ffi2abi.Schema.
func unmarshal(text string) (s *ffi2abi.Schema, err error) {
	err = json.Unmarshal([]byte(text), &s)
	return
}

func coqPin(name, text string) (coq string, v bool, uerr bool) {
	v = verdict(text)
	s, err := unmarshal(text)
	if v && err == nil && memberAtOdds(s) {
		sawNestedAtOdds = true
	}
	if v && err == nil && anyElementsAtOdds(s) {
		sawElementsAtOdds = true
	}
	unm := "None"
	if err == nil {
		unm = "(Some " + coqSchemaPtr(s) + ")"
	}
	return fmt.Sprintf("(mkPin %s %s %s)", cb(name), cbool(v), unm), v, err != nil
}

// ---------- classifier for the known finding (mirrors Spec.v member_at_odds / type_at_odds) ----------

func ethClass(t string) string {
	switch {
	case strings.HasSuffix(t, "]"):
		return "array"
	case t == "tuple":
		return "tuple"
	case strings.HasPrefix(t, "uint") || strings.HasPrefix(t, "int"):
		return "integer"
	case strings.HasPrefix(t, "ufixed") || strings.HasPrefix(t, "fixed"):
		return "number"
	case t == "bool":
		return "boolean"
	}
	return "other"
}
func jsonCompatible(jt, k string) bool {
	switch jt {
	case "string":
		return k != "array" && k != "tuple"
	case "boolean", "integer", "number":
		return k == jt
	case "array":
		return k == "array"
	case "object":
		return k == "tuple"
	}
	return false
}
func declaredType(s *ffi2abi.Schema) (string, bool) {
	jt := s.Type
	if s.OneOf != nil {
		var non []string
		for _, t := range s.OneOf {
			if t.Type != "string" {
				non = append(non, t.Type)
			}
		}
		if len(non) != 1 {
			return "", false
		}
		jt = non[0]
	}
	return jt, true
}
func typeAtOdds(s *ffi2abi.Schema) bool {
	if s == nil || s.Details == nil {
		return false
	}
	jt, ok := declaredType(s)
	return ok && !jsonCompatible(jt, ethClass(s.Details.Type))
}

// the element descriptions of an array type (mirrors Spec.v elem_at_odds / elements_at_odds): one items level
// per dimension of the Ethereum type, each of a JSON type that suits the type with that many dimensions stripped
func stripDim(t string) string {
	if t == "" {
		return ""
	}
	i := strings.LastIndex(t[:len(t)-1], "[")
	if i < 0 {
		return ""
	}
	return t[:i]
}
func elemAtOdds(it *ffi2abi.Schema, t string) bool {
	if jt, ok := declaredType(it); ok && !jsonCompatible(jt, ethClass(t)) {
		return true
	}
	if strings.HasSuffix(t, "]") {
		return it.Items == nil || elemAtOdds(it.Items, stripDim(t))
	}
	return false
}
func elementsAtOdds(s *ffi2abi.Schema) bool {
	if s == nil || s.Details == nil || !strings.HasSuffix(s.Details.Type, "]") {
		return false
	}
	return s.Items == nil || elemAtOdds(s.Items, stripDim(s.Details.Type))
}

// the members a schema describes (mirrors SpecExact.v members_of)
func membersOf(s *ffi2abi.Schema) map[string]*ffi2abi.Schema {
	switch s.Type {
	case "object":
		return s.Properties
	case "array":
		it := s.Items
		for it != nil && it.Type == "array" {
			it = it.Items
		}
		if it != nil {
			return it.Properties
		}
	}
	return nil
}

// the parameter schema, or a member at some depth, has an items chain (present at the first level) at odds
func anyElementsAtOdds(s *ffi2abi.Schema) bool {
	if s == nil {
		return false
	}
	if s.Items != nil && elementsAtOdds(s) {
		return true
	}
	for _, m := range membersOf(s) {
		if anyElementsAtOdds(m) {
			return true
		}
	}
	return false
}

func memberAtOdds(s *ffi2abi.Schema) bool {
	if s == nil {
		return false
	}
	for _, m := range s.Properties {
		if m != nil && (typeAtOdds(m) || memberAtOdds(m)) {
			return true
		}
	}
	return memberAtOdds(s.Items)
}

// ---------- running the implementation ----------

type pdesc struct {
	Name   string `json:"name"`
	Schema string `json:"schema"`
}
type backDesc struct {
	Kind    string  `json:"kind"`
	Key     string  `json:"key,omitempty"`
	Origin  string  `json:"origin"`
	Name    string  `json:"name"`
	Params  []pdesc `json:"params"`
	Returns []pdesc `json:"returns,omitempty"`
	Details string  `json:"details,omitempty"` // entry-level details (JSON text), carried along only
	Impl    string  `json:"impl"`
}

func ffiParams(ps []pdesc) fftypes.FFIParams {
	out := make(fftypes.FFIParams, len(ps))
	for i, p := range ps {
		out[i] = &fftypes.FFIParam{Name: p.Name, Schema: fftypes.JSONAnyPtr(p.Schema)}
	}
	return out
}

func safeBack(kind int, name string, params, returns []pdesc) (e *abi.Entry, err error, panicked string) {
	defer func() {
		if x := recover(); x != nil {
			panicked = fmt.Sprint(x)
		}
	}()
	switch kind {
	case 0:
		e, err = ffi2abi.ConvertFFIMethodToABI(ctx, &fftypes.FFIMethod{Name: name, Params: ffiParams(params), Returns: ffiParams(returns)})
	case 1:
		e, err = ffi2abi.ConvertFFIEventDefinitionToABI(ctx, &fftypes.FFIEventDefinition{Name: name, Params: ffiParams(params)})
	default:
		e, err = ffi2abi.ConvertFFIErrorDefinitionToABI(ctx, &fftypes.FFIErrorDefinition{Name: name, Params: ffiParams(params)})
	}
	return
}

func safeSig(e *abi.Entry) (s string, err error, panicked bool) {
	defer func() {
		if recover() != nil {
			panicked = true
		}
	}()
	s, err = e.SignatureCtx(ctx)
	return
}
func safeHelper(e *abi.Entry) (s string, panicked bool) {
	defer func() {
		if recover() != nil {
			panicked = true
		}
	}()
	return ffi2abi.ABIMethodToSignature(e), false
}

type H struct {
	w           *cv.Writer
	st          *cv.Stats
	seen        map[string]bool
	nSampleBack int
	nSampleFwd  int
	rt          *retained
}

var kindNames = []string{"method", "event", "error"}

// set by coqPin when a parameter of the current case has a nested member at odds
var sawNestedAtOdds bool
var sawElementsAtOdds bool

// addBack runs one FFI -> ABI conversion and records it.  nestedTypeMut marks inputs produced by
// retyping the JSON type of a nested member (statistics only).
func (h *H) addBack(kind int, name string, params, returns []pdesc, origin string, nestedTypeMut bool) (*abi.Entry, int) {
	return h.addBackD(kind, name, params, returns, "", origin, nestedTypeMut)
}

// addBackD: as addBack, with entry-level details (JSON text) on the definition.  The entry handed back
// is a deep copy: the one the implementation returned is overwritten afterwards (see scribbleEntry), and
// the conversion is retained to be repeated later (state kept across calls).
func (h *H) addBackD(kind int, name string, params, returns []pdesc, details string, origin string, nestedTypeMut bool) (*abi.Entry, int) {
	e, err, pan, touched := runBack(kind, name, params, returns, details)
	kb := keptBack{kind: kind, name: name, params: params, returns: returns, details: details, proj: backProj(e, err, pan)}
	if touched {
		h.st.ImplFailures = append(h.st.ImplFailures, kb.desc("the FFI -> ABI conversion modified the parameter list it was given", nil))
	}
	cls := h.recordBack(kind, name, params, returns, details, origin, e, err, pan)
	var ret *abi.Entry
	if cls == 0 && e != nil {
		if c := freshABI(abi.ABI{e}); len(c) == 1 {
			ret = c[0]
		}
		scribbleEntry(e)
	}
	h.keepBack(kb)
	return ret, cls
}

func (h *H) recordBack(kind int, name string, params, returns []pdesc, details string, origin string, e *abi.Entry, err error, pan string) int {
	cls := 0
	impl := ""
	switch {
	case pan != "":
		cls, impl = 2, "PANIC "+pan
	case err != nil:
		cls, impl = 1, "error: "+err.Error()
	}
	sig, helper, ins, outs := "", "", "[]", "[]"
	if cls == 0 {
		s, serr, sp := safeSig(e)
		hs, hp := safeHelper(e)
		i, ok1 := coqParams(e.Inputs)
		o, ok2 := coqParams(e.Outputs)
		if serr != nil || sp || hp || !ok1 || !ok2 {
			h.st.ImplFailures = append(h.st.ImplFailures, map[string]interface{}{"what": "entry returned by the FFI -> ABI conversion has no signature / holds a nil component", "kind": kindNames[kind], "name": name, "params": params, "returns": returns})
			return cls
		}
		sig, helper, ins, outs = s, hs, i, o
		impl = "ok " + s
	}
	var pins, rins []string
	anyReject, anyUErr := false, false
	sawNestedAtOdds = false
	sawElementsAtOdds = false
	for _, p := range params {
		c, v, ue := coqPin(p.Name, p.Schema)
		pins = append(pins, c)
		anyReject = anyReject || !v
		anyUErr = anyUErr || ue
	}
	for _, p := range returns {
		c, v, ue := coqPin(p.Name, p.Schema)
		rins = append(rins, c)
		anyReject = anyReject || !v
		anyUErr = anyUErr || ue
	}
	h.st.Hit(fmt.Sprintf("back:%s:class=%d", origin, cls))
	switch {
	case anyReject:
		h.st.Hit("back:verdict=reject")
	case anyUErr:
		h.st.Hit("back:verdict=accept,unmarshal=error")
	default:
		h.st.Hit("back:verdict=accept,unmarshal=ok")
	}
	key := ""
	if sawNestedAtOdds {
		h.st.Hit(fmt.Sprintf("back:nested-member-json-type-at-odds:class=%d", cls))
	}
	if sawElementsAtOdds {
		h.st.Hit(fmt.Sprintf("back:array-elements-at-odds:%s:class=%d", strings.SplitN(origin, ":", 2)[0], cls))
	}
	term := fmt.Sprintf("CBack %d %s %s %s %d %s %s %s %s", kind, cb(name), clist(pins), clist(rins), cls, cb(sig), ins, outs, cb(helper))
	dk := fmt.Sprintf("b|%d|%s|%v|%v", kind, name, params, returns)
	if !h.seen[dk] {
		h.seen[dk] = true
		if len(params)+len(returns) > 0 {
			h.st.Distinct++
		}
	}
	d := backDesc{Kind: "back/" + kindNames[kind], Key: key, Origin: origin, Name: name, Params: params, Returns: returns, Details: details, Impl: impl}
	if strings.HasPrefix(origin, "mutated") && h.nSampleBack < 4 && len(params) == 1 && len(params[0].Schema) < 700 {
		h.nSampleBack++
		h.st.Samples = append(h.st.Samples, d)
	}
	h.w.Add(term, d)
	return cls
}

type fwdDesc struct {
	Kind   string          `json:"kind"`
	Origin string          `json:"origin"`
	ABI    json.RawMessage `json:"abi"`
	Impl   string          `json:"impl"`
}

func safeFwd(a abi.ABI) (f *fftypes.FFI, err error, panicked string) {
	defer func() {
		if x := recover(); x != nil {
			panicked = fmt.Sprint(x)
		}
	}()
	f, err = ffi2abi.ConvertABIToFFI(ctx, "ns", "name", "v1", "desc", &a)
	return
}

func coqFFIParams(ps fftypes.FFIParams) (string, []pdesc, bool) {
	out := make([]string, len(ps))
	ds := make([]pdesc, len(ps))
	for i, p := range ps {
		if p == nil || p.Schema == nil {
			return "", nil, false
		}
		text := p.Schema.String()
		s, err := unmarshal(text)
		if err != nil || s == nil {
			return "", nil, false
		}
		out[i] = "(" + cb(p.Name) + ", " + coqSchema(s) + ")"
		ds[i] = pdesc{Name: p.Name, Schema: text}
	}
	return clist(out), ds, true
}

// freshABI deep-copies an ABI through JSON so that cached parses never leak between calls.
func freshABI(a abi.ABI) abi.ABI {
	b, _ := json.Marshal(a)
	var out abi.ABI
	_ = json.Unmarshal(b, &out)
	return out
}

type nameTree struct {
	Name    string
	Indexed bool
	Kids    []nameTree
}

func isTupleType(t string) bool { return strings.HasPrefix(t, "tuple") }
func shapeOf(p *abi.Parameter) nameTree {
	n := nameTree{Name: p.Name, Indexed: p.Indexed}
	if isTupleType(p.Type) {
		for _, c := range p.Components {
			if c == nil {
				n.Kids = append(n.Kids, nameTree{Name: "<nil>"})
				continue
			}
			n.Kids = append(n.Kids, shapeOf(c))
		}
	}
	return n
}
func shapesOf(pa abi.ParameterArray) []nameTree {
	out := []nameTree{}
	for _, p := range pa {
		out = append(out, shapeOf(p))
	}
	return out
}
func sameShapes(a, b []nameTree) bool {
	x, _ := json.Marshal(a)
	y, _ := json.Marshal(b)
	return string(x) == string(y)
}

func allExplicit(pa abi.ParameterArray) bool {
	for _, p := range pa {
		base := p.Type
		if i := strings.IndexByte(base, '['); i >= 0 {
			base = base[:i]
		}
		if base == "int" || base == "uint" || base == "fixed" || base == "ufixed" {
			return false
		}
		if !allExplicit(p.Components) {
			return false
		}
	}
	return true
}

// addFwd converts an ABI to the interface format, records the observation, and (inQuant: distinct
// entry names, distinct member names, valid types) runs the round-trip oracle on the implementation.
// Returns the schemas produced, for the mutation stream.
func (h *H) addFwd(a abi.ABI, origin string, inQuant bool) []pdesc {
	raw, _ := json.Marshal(a)
	work := freshABI(a)
	before, _ := json.Marshal(work)
	f, err, pan := safeFwd(work)
	h.checkFwdState(raw, work, before, fwdProj(f, err, pan))
	cls, impl := 0, "ok"
	switch {
	case pan != "":
		cls, impl = 2, "PANIC "+pan
	case err != nil:
		cls, impl = 1, "error: "+err.Error()
	}
	h.st.Hit(fmt.Sprintf("fwd:%s:class=%d", origin, cls))
	es := make([]string, len(a))
	for i, e := range a {
		s, ok := coqEntry(e)
		if !ok {
			return nil
		}
		es[i] = s
	}
	var schemas []pdesc
	ms, evs, ers := []string{}, []string{}, []string{}
	type conv struct {
		kind    int
		name    string
		params  []pdesc
		returns []pdesc
		details string
	}
	dtext := func(d fftypes.JSONObject) string {
		if d == nil {
			return ""
		}
		b, _ := json.Marshal(d)
		return string(b)
	}
	var convs []conv
	if cls == 0 {
		ok := true
		for _, m := range f.Methods {
			p, pd, ok1 := coqFFIParams(m.Params)
			r, rd, ok2 := coqFFIParams(m.Returns)
			ok = ok && ok1 && ok2
			ms = append(ms, fmt.Sprintf("(mkMethod %s %s %s)", cb(m.Name), p, r))
			convs = append(convs, conv{0, m.Name, pd, rd, dtext(m.Details)})
		}
		for _, m := range f.Events {
			p, pd, ok1 := coqFFIParams(m.Params)
			ok = ok && ok1
			evs = append(evs, fmt.Sprintf("(mkMethod %s %s [])", cb(m.Name), p))
			convs = append(convs, conv{1, m.Name, pd, nil, dtext(m.Details)})
		}
		for _, m := range f.Errors {
			p, pd, ok1 := coqFFIParams(m.Params)
			ok = ok && ok1
			ers = append(ers, fmt.Sprintf("(mkMethod %s %s [])", cb(m.Name), p))
			convs = append(convs, conv{2, m.Name, pd, nil, ""})
		}
		if !ok {
			h.st.ImplFailures = append(h.st.ImplFailures, map[string]interface{}{"what": "ConvertABIToFFI produced a parameter schema that is not a JSON object decodable as a Schema", "abi": json.RawMessage(raw)})
			return nil
		}
	}
	sort.Strings(ms)
	sort.Strings(evs)
	sort.Strings(ers)
	fd := fwdDesc{Kind: "fwd", Origin: origin, ABI: raw, Impl: impl}
	if origin == "valid-abi" && h.nSampleFwd < 2 && len(raw) < 900 {
		h.nSampleFwd++
		h.st.Samples = append(h.st.Samples, fd)
	}
	h.w.Add(fmt.Sprintf("CFwd %s %d %s %s %s", clist(es), cls, clist(ms), clist(evs), clist(ers)), fd)
	dk := "f|" + string(raw)
	if !h.seen[dk] {
		h.seen[dk] = true
		h.st.Distinct++
	}
	if inQuant && cls != 0 {
		h.st.ImplFailures = append(h.st.ImplFailures, map[string]interface{}{"what": "ConvertABIToFFI failed on a valid ABI: " + impl, "abi": json.RawMessage(raw)})
	}
	// back conversion of everything produced, and the round-trip oracle
	sort.Slice(convs, func(i, j int) bool {
		return convs[i].kind < convs[j].kind || (convs[i].kind == convs[j].kind && convs[i].name < convs[j].name)
	})
	for _, c := range convs {
		schemas = append(schemas, c.params...)
		schemas = append(schemas, c.returns...)
		back, bcls := h.addBackD(c.kind, c.name, c.params, c.returns, c.details, "roundtrip", false)
		// the same schemas under other parameter names / in another parameter order: the model says what
		// must come back (a result remembered by schema text alone would carry the first name)
		if n := len(c.params); n > 0 && h.rt.r.Intn(5) == 0 {
			ren := make([]pdesc, n)
			for i, p := range c.params {
				ren[n-1-i] = pdesc{Name: p.Name + "_r", Schema: p.Schema}
			}
			h.addBackD(c.kind, c.name, ren, c.returns, c.details, "roundtrip-renamed", false)
		}
		if !inQuant {
			continue
		}
		var orig *abi.Entry
		for _, e := range a {
			k := map[abi.EntryType]int{abi.Event: 1, abi.Error: 2}[e.Type]
			if e.Name == c.name && k == c.kind && (k != 0 || e.IsFunction()) {
				orig = e
			}
		}
		fail := func(what string, extra map[string]interface{}) {
			m := map[string]interface{}{"what": what, "abi": json.RawMessage(raw), "entry": c.name}
			for k, v := range extra {
				m[k] = v
			}
			h.st.ImplFailures = append(h.st.ImplFailures, m)
		}
		if orig == nil {
			fail("round trip: converted entry has no original", nil)
			continue
		}
		if bcls != 0 {
			fail("round trip: the generated interface entry does not convert back to ABI", map[string]interface{}{"class": bcls})
			continue
		}
		o2 := freshABI(abi.ABI{orig})[0]
		s1, e1, _ := safeSig(o2)
		s2, e2, _ := safeSig(back)
		if e1 != nil || e2 != nil || s1 != s2 {
			fail("round trip: signature not preserved", map[string]interface{}{"original": s1, "back": s2})
		}
		if !sameShapes(shapesOf(orig.Inputs), shapesOf(back.Inputs)) || (c.kind == 0 && !sameShapes(shapesOf(orig.Outputs), shapesOf(back.Outputs))) {
			fail("round trip: parameter names / nesting / indexed flags not preserved", map[string]interface{}{"original": shapesOf(orig.Inputs), "back": shapesOf(back.Inputs)})
		}
	}
	// signature helper on every entry
	for _, e := range a {
		o2 := freshABI(abi.ABI{e})[0]
		s, serr, sp := safeSig(o2)
		hs, hp := safeHelper(o2)
		scls := 0
		if sp || hp {
			scls = 2
		} else if serr != nil {
			scls = 1
		}
		et, _ := coqEntry(e)
		eraw, _ := json.Marshal(e)
		h.st.Hit(fmt.Sprintf("sig:class=%d", scls))
		if scls == 0 {
			// every entry with a signature, aliases (uint, int, fixed, ufixed) included since the helper writes them in full
			if allExplicit(e.Inputs) {
				h.st.Hit("sig:explicit-widths")
			} else {
				h.st.Hit("sig:with-aliases")
			}
			if s != hs {
				h.st.ImplFailures = append(h.st.ImplFailures, map[string]interface{}{"what": "ABIMethodToSignature differs from the entry's signature", "entry": json.RawMessage(eraw), "signature": s, "helper": hs})
			}
		}
		h.w.Add(fmt.Sprintf("CSig %s %d %s %s", et, scls, cb(s), cb(hs)), fwdDesc{Kind: "sig", Origin: origin, ABI: eraw, Impl: fmt.Sprintf("signature=%q helper=%q", s, hs)})
	}
	return schemas
}

// ---------- ABI generation ----------

var identNames = []string{"a", "b", "value", "to", "from", "_x", "amount", "data", "id", "owner", "x1", "Y", "tokenId", "s", "k9"}
var oddNames = []string{"", "a#b", "%zz", "a b", "é", "details", "type", "properties", "a/b", "0", "\"q\"",
	// the name is used as a URL by the schema compiler: scheme-like prefixes, a colon in the first segment, dot segments,
	// the names of the meta-schema resources themselves (D20j: ':')
	" a", "a ", " ", "\ta", "A", "a\n",
	"A:b", ":", "1:b", "C:\\x", "Http://x/y", ".", "..", "ffi.json", "ffiParamDetails.json", "a?b", "a\x00b"}

func distinctNames(r *cv.Rand, n int, odd bool) []string {
	used := map[string]bool{}
	out := make([]string, 0, n)
	for len(out) < n {
		var nm string
		if odd && r.Intn(4) == 0 {
			nm = oddNames[r.Intn(len(oddNames))]
		} else {
			nm = identNames[r.Intn(len(identNames))]
			if r.Intn(3) == 0 {
				nm += fmt.Sprint(r.Intn(100))
			}
		}
		if used[nm] {
			continue
		}
		used[nm] = true
		out = append(out, nm)
	}
	return out
}

// nameTree assigns distinct member names throughout a type tree.
func nameAll(r *cv.Rand, t *abigen.Type, odd bool) {
	if t.Elem != nil {
		nameAll(r, t.Elem, odd)
	}
	if len(t.Fields) > 0 {
		ns := distinctNames(r, len(t.Fields), odd)
		for i, f := range t.Fields {
			f.Name = ns[i]
			nameAll(r, f, odd)
		}
	}
}

func decorate(r *cv.Rand, p *abi.Parameter, event bool) {
	if r.Intn(3) == 0 {
		p.InternalType = []string{"struct Widget.Thing", "contract IERC20", "uint256", "enum E", p.Type, " struct A.B ", "tuple", "x\ty", "\"q\"", "é"}[r.Intn(10)]
	}
	if event && r.Intn(2) == 0 || !event && r.Intn(12) == 0 {
		p.Indexed = true
	}
	for _, c := range p.Components {
		decorate(r, c, event)
	}
}

var forcedShapes = []func() *abigen.Type{
	func() *abigen.Type { return abigen.Dyn(abigen.Dyn(abigen.Tup(abigen.U(256), abigen.Tup(abigen.Boolean())))) },
	func() *abigen.Type { return abigen.Dyn(abigen.Arr(abigen.Tup(abigen.U(256)), 2)) },
	func() *abigen.Type { return abigen.Dyn(abigen.Arr(abigen.Dyn(abigen.Tup(abigen.Addr(), abigen.Str())), 3)) },
	func() *abigen.Type {
		return abigen.Tup(abigen.U(8), abigen.Tup(abigen.I(16), abigen.Tup(abigen.Byts(), abigen.Dyn(abigen.Tup(abigen.BN(32))))))
	},
	func() *abigen.Type { return abigen.Arr(abigen.Arr(abigen.Arr(abigen.Tup(abigen.Func(), abigen.Fx(128, 18)), 1), 2), 3) },
	func() *abigen.Type { return abigen.Tup() },
	func() *abigen.Type { return abigen.Dyn(abigen.Tup()) },
	func() *abigen.Type { return abigen.Dyn(abigen.Dyn(abigen.U(256))) },
	func() *abigen.Type {
		return abigen.Tup(abigen.Dyn(abigen.Dyn(abigen.Tup(abigen.Dyn(abigen.Arr(abigen.Tup(abigen.UFx(8, 80)), 4))))))
	},
}

func shapeTag(t *abigen.Type) string {
	dims := 0
	x := t
	for x.Elem != nil {
		dims++
		x = x.Elem
	}
	base := "elem"
	if x.Kind == abigen.Tuple {
		base = "tuple"
		for _, f := range x.Fields {
			y := f
			for y.Elem != nil {
				y = y.Elem
			}
			if y.Kind == abigen.Tuple {
				base = "tuple-in-tuple"
			}
		}
	}
	if dims > 3 {
		dims = 3
	}
	return fmt.Sprintf("%s/dims=%d", base, dims)
}

func genParams(r *cv.Rand, st *cv.Stats, n int, event, explicit, odd bool) abi.ParameterArray {
	names := distinctNames(r, n, odd)
	pa := make(abi.ParameterArray, n)
	for i := range pa {
		var t *abigen.Type
		if r.Intn(4) == 0 {
			t = forcedShapes[r.Intn(len(forcedShapes))]()
		} else {
			t = abigen.GenType(r, 1+r.Intn(4), abigen.Opts{Fixed: true, Names: true, EmptyTuples: true, ZeroLen: r.Intn(6) == 0})
		}
		if explicit {
			clearAlias(t)
		}
		nameAll(r, t, odd)
		t.Name = names[i]
		st.Hit("param:" + shapeTag(t))
		pa[i] = t.Param()
		decorate(r, pa[i], event)
	}
	return pa
}
func clearAlias(t *abigen.Type) {
	t.Alias = false
	if t.Elem != nil {
		clearAlias(t.Elem)
	}
	for _, f := range t.Fields {
		clearAlias(f)
	}
}

func genABI(r *cv.Rand, st *cv.Stats, explicit, odd bool) abi.ABI {
	n := 1 + r.Intn(4)
	names := distinctNames(r, n, false)
	var a abi.ABI
	for i := 0; i < n; i++ {
		e := &abi.Entry{Name: names[i]}
		switch c := r.Intn(10); {
		case c < 5:
			e.Type = abi.Function
			e.Inputs = genParams(r, st, r.Intn(4), false, explicit, odd)
			e.Outputs = genParams(r, st, r.Intn(3), false, explicit, odd)
		case c < 8:
			e.Type = abi.Event
			e.Inputs = genParams(r, st, r.Intn(4), true, explicit, odd)
		default:
			e.Type = abi.Error
			e.Inputs = genParams(r, st, r.Intn(3), false, explicit, odd)
		}
		decorateEntry(r, e)
		st.Hit("entry:" + string(e.Type))
		a = append(a, e)
	}
	return a
}

var badTypes = []string{"", "uint7", "uint264", "uint08", "int", "tuple7", "tuplex", "tuple[", "uint256[", "uint256[01]", "bytes33", "bytes0", "fixed128", "fixed128x", "ufixed128x81", "Uint256", "uint256 ", "address payable", "string[-1]", "bool[4294967296]", "bool[4294967295]", "function[]", "wibble", "tuple[2][]x", "uint256[]]", "fixed", "ufixed", "uint"}

// ---------- schema mutations ----------

var jsonTypes = []string{"boolean", "integer", "number", "string", "array", "object", "null", "wibble", "",
	// near misses: other case, surrounding blanks (refused by the draft meta-schema where the compiler looks - not in a subtree it does not see)
	"String", "Object", "ARRAY", "Integer", "Boolean", "Number", " string", "object ", "array\t"}
var ethTypes = []string{"uint256", "int8", "bool", "string", "bytes", "bytes32", "address", "fixed128x18", "function", "tuple", "tuple[]", "uint256[]", "uint256[2][]", "tuple[][]", "uint", "uint7", "", "tuple7", "wibble[]",
	"Uint256", " uint256", "uint256 ", "\tbool", "TUPLE", "tuple ", " tuple[]", "uint256[] ", "uint256 []", "String"}

func otherKind(r *cv.Rand) *jv {
	switch r.Intn(8) {
	case 0:
		return jnull()
	case 1:
		return jbool(r.Bool())
	case 2:
		return jnum([]string{"0", "1", "-1", "1.5", "1e2"}[r.Intn(5)])
	case 3:
		return jstr([]string{"", "x", "object", "array", "0"}[r.Intn(5)])
	case 4:
		return jarr()
	case 5:
		return jarr(jstr("string"), jstr("integer"))
	case 6:
		return jobj()
	default:
		return jobj(kv{"type", jstr("string")})
	}
}

// mutate applies one mutation to a copy of the schema; returns the kind (and whether it retypes the
// JSON type of a nested member).
func mutate(r *cv.Rand, root *jv) (string, bool) {
	var nodes []*jv
	schemaNodes(root, &nodes)
	if len(nodes) == 0 {
		return "none", false
	}
	n := nodes[r.Intn(len(nodes))]
	nested := n != root
	det := n.get("details")
	switch c := r.Intn(30); {
	case c == 0:
		k := []string{"type", "details", "items", "properties", "oneOf"}[r.Intn(5)]
		if n.del(k) {
			return "remove-" + k, false
		}
		return "none", false
	case c == 1:
		if det.isObj() {
			k := []string{"type", "index", "internalType", "indexed"}[r.Intn(4)]
			if det.del(k) {
				return "remove-details." + k, false
			}
		}
		return "none", false
	case c == 2:
		k := []string{"type", "details", "items", "properties", "oneOf"}[r.Intn(5)]
		if n.get(k) != nil {
			n.set(k, otherKind(r))
			return "retype-" + k, false
		}
		return "none", false
	case c == 3:
		if det.isObj() {
			k := []string{"type", "index", "internalType", "indexed"}[r.Intn(4)]
			if det.get(k) != nil {
				det.set(k, otherKind(r))
				return "retype-details." + k, false
			}
		}
		return "none", false
	case c <= 8: // index mutations on a member of some object schema
		var objs []*jv
		for _, x := range nodes {
			if p := x.get("properties"); p.isObj() && len(p.o) > 0 {
				objs = append(objs, p)
			}
		}
		if len(objs) == 0 {
			return "none", false
		}
		p := objs[r.Intn(len(objs))]
		m := p.o[r.Intn(len(p.o))].v
		md := m.get("details")
		if !md.isObj() {
			return "none", false
		}
		nmem := len(p.o)
		switch r.Intn(9) {
		case 0:
			md.set("index", jnum("-1"))
			return "index=-1", false
		case 1:
			md.set("index", jnum(fmt.Sprint(nmem)))
			return "index=n", false
		case 2:
			md.set("index", jnum(fmt.Sprint(nmem+1+r.Intn(5))))
			return "index>n", false
		case 3:
			md.set("index", jnum([]string{"2147483648", "9223372036854775807", "9223372036854775808", "-9223372036854775808", "-9223372036854775809", "1e400", "18446744073709551616"}[r.Intn(7)]))
			return "index=huge", false
		case 4:
			md.set("index", jnum([]string{"1.5", "0.5", "0.0", "1e0", "-0", "1E1"}[r.Intn(6)]))
			return "index=fractional", false
		case 5:
			other := p.o[r.Intn(len(p.o))].v.get("details")
			if other.isObj() && other.get("index") != nil {
				md.set("index", other.get("index").clone())
				return "index=duplicate", false
			}
			return "none", false
		case 6:
			other := p.o[r.Intn(len(p.o))].v.get("details")
			if other.isObj() && other.get("index") != nil && md.get("index") != nil {
				a, b := md.get("index").clone(), other.get("index").clone()
				md.set("index", b)
				other.set("index", a)
				return "index=swapped", false
			}
			return "none", false
		case 7:
			md.del("index")
			return "remove-details.index", false
		default:
			if nmem > 0 {
				md.set("index", jnum(fmt.Sprint(nmem-1)))
				return "index=n-1", false
			}
			return "none", false
		}
	case c <= 11: // JSON type at odds with the Ethereum type
		t := jsonTypes[r.Intn(len(jsonTypes))]
		if n.get("oneOf") != nil && r.Bool() {
			alts := []*jv{jobj(kv{"type", jstr("string")}), jobj(kv{"type", jstr(t)})}
			switch r.Intn(4) {
			case 0: // non-string alternative first
				alts[0], alts[1] = alts[1], alts[0]
			case 1: // three alternatives: the last non-string one counts
				alts = append(alts, jobj(kv{"type", jstr(jsonTypes[r.Intn(len(jsonTypes))])}))
			}
			n.set("oneOf", jarr(alts...))
		} else {
			n.del("oneOf")
			n.set("type", jstr(t))
		}
		if nested {
			return "json-type-nested", true
		}
		return "json-type-top", false
	case c <= 13:
		if det.isObj() {
			det.set("type", jstr(ethTypes[r.Intn(len(ethTypes))]))
			return "eth-type", nested
		}
		return "none", false
	case c == 14: // a second spelling of a key, which encoding/json matches case-insensitively
		k := []string{"Details", "DETAILS", "Items", "Properties", "Type", "OneOf", "details", "items"}[r.Intn(8)]
		var v *jv
		switch r.Intn(6) {
		case 0: // a nil member, invisible to the jsonschema compile under this spelling
			v = jobj(kv{"a", jnull()})
		case 1: // a member map of its own
			v = jobj(kv{"zz", jobj(kv{"type", jstr("string")}, kv{"details", jobj(kv{"type", jstr("string")}, kv{"index", jnum(fmt.Sprint(r.Intn(3)))})})})
		case 2:
			v = jobj(kv{"type", jstr(ethTypes[r.Intn(len(ethTypes))])}, kv{"index", jnum(fmt.Sprint(r.Intn(3) - 1))})
		default:
			v = otherKind(r)
		}
		n.o = append(n.o, kv{k, v})
		return "duplicate-key", false
	case c == 15:
		if p := n.get("properties"); p.isObj() && len(p.o) > 0 {
			p.o[r.Intn(len(p.o))].v = otherKind(r)
			return "member-replaced", false
		}
		return "none", false
	case c == 16:
		if p := n.get("properties"); p.isObj() && len(p.o) > 0 {
			i := r.Intn(len(p.o))
			p.o = append(p.o[:i:i], p.o[i+1:]...)
			return "member-removed", false
		}
		return "none", false
	case c == 17:
		if p := n.get("properties"); p.isObj() {
			p.o = append(p.o, kv{"extra", jobj(kv{"type", jstr("string")}, kv{"details", jobj(kv{"type", jstr("string")}, kv{"index", jnum(fmt.Sprint(len(p.o)))})})})
			return "member-added", false
		}
		return "none", false
	case c == 18: // strip one array level / add one
		if it := n.get("items"); it.isObj() {
			if r.Bool() {
				if inner := it.get("items"); inner != nil {
					n.set("items", inner)
					return "items-level-removed", false
				}
			}
			n.set("items", jobj(kv{"type", jstr("array")}, kv{"items", it}))
			return "items-level-added", false
		}
		return "none", false
	case c == 19: // innermost items of an array chain removed
		x := n
		for x.get("items").isObj() && x.get("items").get("items") != nil {
			x = x.get("items")
		}
		if x.get("items") != nil && x != n {
			x.del("items")
			return "remove-inner-items", false
		}
		return "none", false
	case c == 20:
		if it := n.get("items"); it != nil {
			n.set("items", otherKind(r))
			return "retype-items", false
		}
		return "none", false
	case c == 22 || c == 23: // both "type" and "oneOf" on one node (the meta-schema refuses that at the levels it looks at, not under "items")
		t := jsonTypes[r.Intn(len(jsonTypes))]
		if n.get("oneOf") != nil {
			n.set("type", jstr(t))
			return "type-beside-oneOf", false
		}
		if n.get("type") != nil {
			alts := []*jv{jobj(kv{"type", jstr("string")}), jobj(kv{"type", jstr(jsonTypes[r.Intn(len(jsonTypes))])})}
			if r.Intn(4) == 0 {
				alts[0], alts[1] = alts[1], alts[0]
			}
			n.set("oneOf", jarr(alts...))
			return "oneOf-beside-type", false
		}
		return "none", false
	case c == 25 || c == 26: // a subtree moved under a spelling of its key that only encoding/json recognises: the
		// jsonschema compile (draft meta-schema, FFI meta-schemas) no longer sees it, processField is alone - with one
		// more fault planted inside it first
		var ks []string
		for _, k := range []string{"properties", "items"} {
			if n.get(k).isObj() {
				ks = append(ks, k)
			}
		}
		if len(ks) == 0 {
			return "none", false
		}
		k := ks[r.Intn(len(ks))]
		sub := n.get(k)
		inner := "intact"
		var kids []*jv
		if k == "items" {
			kids = []*jv{sub}
		} else {
			for _, e := range sub.o {
				if e.v.isObj() {
					kids = append(kids, e.v)
				}
			}
		}
		if len(kids) > 0 && r.Intn(6) != 0 {
			for try := 0; try < 8 && inner == "intact"; try++ {
				if kd, _ := mutate(r, kids[r.Intn(len(kids))]); kd != "none" {
					inner = kd
				}
			}
		}
		nk := map[string][]string{"properties": {"Properties", "PROPERTIES", "propertie\u017f"}, "items": {"Items", "ITEMS", "item\u017f"}}[k][r.Intn(3)]
		for i := range n.o {
			if n.o[i].k == k {
				n.o[i].k = nk
			}
		}
		return "hidden-subtree:" + inner, false
	case c == 27: // details of its own on an inner level of an array chain / on the element schema
		var its []*jv
		for _, x := range nodes {
			if it := x.get("items"); it.isObj() && it.get("details") == nil {
				its = append(its, it)
			}
		}
		if len(its) == 0 {
			return "none", false
		}
		it := its[r.Intn(len(its))]
		d := jobj(kv{"type", jstr(ethTypes[r.Intn(len(ethTypes))])})
		if r.Bool() {
			d.o = append(d.o, kv{"index", jnum(fmt.Sprint(r.Intn(3)))})
		}
		it.set("details", d)
		return "inner-details-added", false
	case c == 24: // a key encoding/json folds onto a field name (U+017F), unknown to the jsonschema compile
		k := []string{"item\u017f", "detail\u017f", "propertie\u017f"}[r.Intn(3)]
		var v *jv
		switch r.Intn(4) {
		case 0:
			v = jnull()
		case 1:
			v = jobj(kv{"a", jnull()})
		case 2:
			v = jobj(kv{"type", jstr(ethTypes[r.Intn(len(ethTypes))])}, kv{"index", jnum(fmt.Sprint(r.Intn(3) - 1))})
		default:
			v = otherKind(r)
		}
		n.o = append(n.o, kv{k, v})
		return "folded-key", false
	default:
		if p := n.get("properties"); p.isObj() {
			n.set("properties", otherKind(r))
			return "retype-properties", false
		}
		return "none", false
	}
}

// randomJSON draws an arbitrary JSON value, biased to the vocabulary of parameter schemas.
var vocab = []string{"type", "details", "items", "properties", "oneOf", "index", "indexed", "internalType", "description", "object", "array", "string", "integer", "tuple", "uint256", "$ref", "$id", "x"}

func randomJSON(r *cv.Rand, depth int) *jv {
	if depth <= 0 || r.Intn(3) == 0 {
		switch r.Intn(6) {
		case 0:
			return jnull()
		case 1:
			return jbool(r.Bool())
		case 2:
			return jnum([]string{"0", "1", "-1", "2", "1.5", "1e9", "123456789012345678901234567890"}[r.Intn(7)])
		default:
			return jstr(vocab[r.Intn(len(vocab))])
		}
	}
	if r.Intn(4) == 0 {
		n := r.Intn(4)
		a := jarr()
		for i := 0; i < n; i++ {
			a.a = append(a.a, randomJSON(r, depth-1))
		}
		return a
	}
	n := r.Intn(5)
	o := jobj()
	for i := 0; i < n; i++ {
		o.o = append(o.o, kv{vocab[r.Intn(len(vocab))], randomJSON(r, depth-1)})
	}
	return o
}

func main() {
	out := flag.String("out", "", "output directory")
	tier := flag.String("tier", "quick", "quick|thorough")
	replay := flag.String("replay", "", "replay file")
	flag.Parse()
	if *out == "" {
		fmt.Fprintln(os.Stderr, "need -out")
		os.Exit(2)
	}
	os.MkdirAll(*out, 0o755)
	header := "From Coq Require Import String List NArith ZArith Uint63.\nFrom FFS Require Import Base.Bytes Base.Lit Gen.AbiConsts Ffi.Model Ffi.Run.\nImport ListNotations.\nOpen Scope string_scope. Open Scope N_scope."
	st := cv.NewStats()
	shards := 16
	if *replay != "" {
		shards = 1
	}
	h := &H{w: cv.NewWriter(*out, "C20", header, "case", "mismatches", shards), st: st, seen: map[string]bool{}, rt: newRetained(400)}

	if *replay != "" {
		raw, err := os.ReadFile(*replay)
		if err != nil {
			fmt.Fprintln(os.Stderr, "replay:", err)
			os.Exit(2)
		}
		var rp struct {
			Case json.RawMessage `json:"case"`
		}
		json.Unmarshal(raw, &rp)
		var k struct {
			Kind string `json:"kind"`
		}
		json.Unmarshal(rp.Case, &k)
		isOracleBack := (k.Kind == "method" || k.Kind == "event" || k.Kind == "error") && strings.Contains(string(rp.Case), `"params"`)
		switch {
		case strings.HasPrefix(k.Kind, "backnull/"):
			var d nullDesc
			json.Unmarshal(rp.Case, &d)
			kind := map[string]int{"backnull/method": 0, "backnull/event": 1, "backnull/error": 2}[d.Kind]
			cls := h.addBackNull(kind, d.Name, d.Params, d.Returns, "replay")
			fmt.Println("implementation class (0 ok, 1 error, 2 panic):", cls)
		case strings.HasPrefix(k.Kind, "back/") || isOracleBack:
			// a case of the correspondence run, or the object of a Go-side oracle failure about one FFI -> ABI conversion
			var d backDesc
			json.Unmarshal(rp.Case, &d)
			if isOracleBack {
				var o struct {
					Details json.RawMessage `json:"details"`
				}
				json.Unmarshal(rp.Case, &o)
				d.Details = string(o.Details)
				d.Kind = "back/" + d.Kind
			}
			kind := map[string]int{"back/method": 0, "back/event": 1, "back/error": 2}[d.Kind]
			_, cls := h.addBackD(kind, d.Name, d.Params, d.Returns, d.Details, "replay", false)
			for i := 0; i < 3; i++ { // state kept across calls: the same definition again
				h.reverifyBack(&h.rt.backs[0], "repeated")
			}
			h.concurrent(4)
			fmt.Println("implementation class (0 ok, 1 error, 2 panic):", cls)
		default:
			var d struct {
				ABI   json.RawMessage `json:"abi"`
				Entry json.RawMessage `json:"entry"`
			}
			json.Unmarshal(rp.Case, &d)
			var a abi.ABI
			if err := json.Unmarshal(d.ABI, &a); err != nil {
				var e abi.Entry
				src := d.ABI
				if len(d.Entry) > 0 && d.Entry[0] == '{' {
					src = d.Entry
				}
				if err2 := json.Unmarshal(src, &e); err2 != nil {
					fmt.Println("replay: case holds no ABI:", err, err2)
					os.Exit(0)
				}
				a = abi.ABI{&e}
			}
			h.addFwd(a, "replay", true)
		}
		h.w.Flush()
		for _, f := range st.ImplFailures {
			b, _ := json.Marshal(f)
			fmt.Println("implementation oracle failure:", string(b))
		}
		fmt.Println("implementation:", st.Distribution)
		st.Evaluations = h.w.Count()
		st.Write(filepath.Join(*out, "stats_C20.json"))
		return
	}

	thorough := *tier == "thorough"
	// cv.NewRand(stream) starts at seed*gamma + stream*K: the streams of VERIF_SEED=k and k+1 are the same
	// sequence shifted by one draw.  The stream number is made to depend on the seed as well.
	r := cv.NewRand(20 + uint64(cv.Seed())*1000003)
	var pool []pdesc

	// --- fixed corpus: the witnesses of the repaired defects (D20a..h) and boundary schemas ---
	corpus := []struct{ name, schema string }{
		{"x", `{"type":"array","details":{"type":"uint256[]"}}`},                                                                                  // D20a
		{"x", `{"type":"array","details":{"type":"uint256[][]"},"items":{"type":"array"}}`},                                                       // D20a, inner level
		{"x", `{"type":"object","details":{"type":"tuple"},"properties":{"a":{"type":"string","details":{"type":"string","index":-1}}}}`},       // D20b
		{"x", `{"type":"object","details":{"type":"tuple"},"properties":{"a":{"type":"string","details":{"type":"string","index":1}}}}`},        // D20b (== n)
		{"x", `{"type":"object","details":{"type":"tuple"},"properties":{"a":{"type":"string","details":{"type":"string","index":0}}}}`},        // n-1: fine
		{"x", `{"type":"object","details":{"type":"tuple"},"properties":{"a":{"type":"string","details":{"type":"string","index":0}},"b":{"type":"string","details":{"type":"string","index":0}}}}`}, // D20b duplicate
		{"x", `{"type":"object","details":{"type":"tuple"},"properties":{"a":{"type":"string","details":{"type":"string","index":1}},"b":{"type":"string","details":{"type":"string","index":0}}}}`}, // reversed: fine
		{"x", `{"type":"object","details":{"type":"tuple"},"properties":{"a":{"type":"string","details":{"type":"string"}}}}`},                   // no index
		{"x", `{"type":"string","details":{"type":"uint256[]"}}`},                                                                                 // D20c
		{"x", `{"type":"boolean","details":{"type":"tuple"}}`},                                                                                    // D20c
		{"x", `{"type":"integer","details":{"type":"tuple[]"}}`},                                                                                  // D20c
		{"x", `{"type":"string","details":{"type":"string"},"Details":null}`},                                                                     // D20f
		{"x", `{"type":"array","details":{"type":"tuple[]"},"items":{"type":"object","properties":{"a":{"type":"string"}}}}`},                   // D20f nested
		{"x", `{"type":"array","details":{"type":"tuple[]"},"items":{"type":"object","properties":{"a":true}}}`},
		{"x", `{"type":"object","details":{"type":"tuple"},"properties":{"a":{"type":"string","details":{"type":"string","index":99999999999999999999}}}}`}, // D20g
		{"x", `{"type":"object","details":{"type":"tuple"},"properties":{"a":{"type":"string","details":{"type":"string","index":1e400}}}}`},   // D20g
		{"a#b", `{"type":"string","details":{"type":"string"}}`},                                                                                   // D20h
		{"%zz", `{"type":"string","details":{"type":"string"}}`},                                                                                   // D20h
		{"A:b", `{"type":"string","details":{"type":"string"}}`}, // D20j
		{":a", `{"type":"string","details":{"type":"string"}}`},  // D20j
		{"1:b", `{"type":"object","details":{"type":"tuple"},"properties":{"C:\\x":{"type":"string","details":{"type":"string","index":0}}}}`}, // D20j
		{"ffi.json", `{"type":"string","details":{"type":"string"}}`},
		{"..", `{"type":"string","details":{"type":"string","indexed":"yes"}}`},
		{"x", `{"type":"object","details":{"type":"tuple"},"properties":{"a":{"type":"boolean","details":{"type":"uint256","index":0}}}}`},      // D20i: nested JSON type at odds
		{"x", `{"type":"array","details":{"type":"tuple[][]"},"items":{"type":"array","items":{"type":"object","properties":{"a":{"type":"object","details":{"type":"string","index":0}}}}}}`}, // D20i under array levels
		{"x", `{"type":"object","details":{"type":"tuple"},"properties":{"a":{"type":"string","details":{"type":"tuple","index":0}}}}`},          // D20i: string against a nested tuple
		// D20l (fix 805ac6f): the element descriptions of an array against the element type, one items level per dimension
		{"x", `{"type":"array","details":{"type":"uint256[]"},"items":{"type":"boolean"}}`},
		{"x", `{"type":"array","details":{"type":"uint256[][]"},"items":{"oneOf":[{"type":"string"},{"type":"integer"}]}}`}, // one level for two dimensions
		{"x", `{"type":"array","details":{"type":"tuple[]"},"items":{"type":"string","properties":{"a":{"type":"string","details":{"type":"string","index":0}}}}}`},
		{"x", `{"type":"array","details":{"type":"uint256[]"},"items":{"type":"array","items":{"type":"string"}}}`}, // two levels for one dimension
		{"x", `{"type":"array","details":{"type":"uint256[2][]"},"items":{"type":"array","items":{"oneOf":[{"type":"string"},{"type":"integer"}]}}}`},
		{"x", `{"type":"array","details":{"type":"uint256[2][]"},"items":{"type":"array","items":{"type":"array","items":{"type":"string"}}}}`},
		{"x", `{"type":"array","details":{"type":"uint256[2][]"},"items":{"type":"array","items":{"type":"boolean"}}}`},
		{"x", `{"type":"array","details":{"type":"bool[3]"},"items":{"oneOf":[{"type":"string"},{"type":"boolean"}]}}`},
		{"x", `{"type":"array","details":{"type":"bool[3]"},"items":{"oneOf":[{"type":"string"},{"type":"integer"}]}}`},
		{"x", `{"type":"array","details":{"type":"bool[3]"},"items":{"type":"string"}}`},
		{"x", `{"type":"array","details":{"type":"ufixed128x18[]"},"items":{"type":"integer"}}`},
		{"x", `{"type":"array","details":{"type":"address[]"},"items":{"type":"object"}}`},
		{"x", `{"type":"array","details":{"type":"string[]"},"items":{"type":"string","items":{"type":"boolean"}}}`}, // items below the element level are not read
		{"x", `{"type":"array","details":{"type":"tuple[][]"},"items":{"type":"array","items":{"type":"array","properties":{}}}}`},
		{"x", `{"type":"array","details":{"type":"tuple[]"},"items":{"type":"object","properties":{"a":{"type":"array","details":{"type":"uint8[]","index":0},"items":{"type":"boolean"}}}}}`}, // a member's elements
		{"x", `{"type":"object","details":{"type":"tuple"},"properties":{"a":{"type":"array","details":{"type":"int8[][1]","index":0},"items":{"type":"array","items":{"type":"object"}}}}}`},
		{"x", `{"type":"array","details":{"type":"uint8[]"},"items":{"type":"array","oneOf":[{"type":"string"},{"type":"integer"}],"items":{}}}`}, // oneOf decides, "type" drives the descent
		{"x", `{"oneOf":[{"type":"string"},{"type":"integer"}],"details":{"type":"uint256"}}`},
		{"x", `{"oneOf":[{"type":"string"},{"type":"integer"}],"details":{"type":"bool"}}`},
		{"x", `{"oneOf":[{"type":"string"},{"type":"string"}],"details":{"type":"string"}}`},
		{"x", `{"oneOf":[{"type":"string"},{"type":"number"}],"details":{"type":"ufixed128x18"}}`},
		{"x", `{"type":"number","details":{"type":"uint256"}}`},
		{"x", `{"type":"integer","details":{"type":"fixed128x18"}}`},
		{"x", `{"type":"boolean","details":{"type":"bool"}}`},
		{"x", `{"type":"array","details":{"type":"uint256"},"items":{"type":"string"}}`},
		{"x", `{"type":"object","details":{"type":"uint256"}}`},
		{"x", `{"type":"array","details":{"type":"tuple"},"items":{"type":"object"}}`},
		{"x", `{"type":"object","details":{"type":"tuple[]"}}`},
		{"x", `{"type":"object","details":{"type":"tuple"},"Properties":{"a":null}}`}, // nil member under a spelling the jsonschema compile does not look at
		{"x", `{"type":"array","details":{"type":"tuple[]"},"items":{"type":"object","Properties":{"a":null}}}`},
		{"x", `{"type":"array","details":{"type":"uint8[]"},"Items":null,"items":{"type":"string"}}`},
		{"x", `{"oneOf":[{"type":"string"},{"type":"integer"},{"type":"boolean"}],"details":{"type":"uint256"}}`},
		{"x", `{"oneOf":[{"type":"string"},{"type":"boolean"},{"type":"integer"}],"details":{"type":"uint256"}}`},
		{"x", `{"oneOf":[{"type":"integer"},{"type":"string"}],"details":{"type":"uint256"}}`},
		{"x", `{"type":"object","details":{"type":"tuple"},"properties":{"a":{"oneOf":[{"type":"string"},{"type":"integer"},{"type":"boolean"}],"details":{"type":"uint256","index":0}}}}`}, // nested oneOf: the last non-string alternative counts
		{"x", `{"type":"object","details":{"type":"tuple"},"properties":{"a":{"oneOf":[{"type":"string"},{"type":"boolean"},{"type":"integer"}],"details":{"type":"uint256","index":0}}}}`},
		{"x", `{"type":"object","details":{"type":"tuple"},"properties":{"a":{"oneOf":[{"type":"integer"},{"type":"string"}],"details":{"type":"uint256","index":0}}}}`},
		{"x", `{"type":"object","details":{"type":"tuple"},"properties":{"a":{"oneOf":[],"details":{"type":"uint256","index":0}}}}`},
		{"x", `null`}, {"x", `true`}, {"x", `{}`}, {"x", `[]`}, {"x", `5`}, {"x", `{"type":"string"}`}, {"x", `not json`}, {"x", ``},
		{"x", `{"type":"string","details":{"type":"uint256"}}`},
		{"x", `{"type":"string","details":{"type":"uint7"}}`},
		{"x", `{"type":"array","details":{"type":"tuple[][]"},"items":{"type":"array","items":{"type":"object","properties":{"a":{"type":"string","details":{"type":"string","index":0}}}}}}`}, // D20d
		{"x", `{"type":"array","details":{"type":"tuple[][]"},"items":{"type":"array","items":{"type":"object","properties":{"a":{"type":"string","details":{"type":"string","index":1}}}}}}`},
	}
	for i, c := range corpus {
		h.addBack(i%3, "f", []pdesc{{c.name, c.schema}}, nil, "corpus", strings.Contains(c.schema, `"boolean","details":{"type":"uint256","index"`))
	}
	// two parameters, the second one bad; a bad return
	h.addBack(0, "g", []pdesc{{"a", `{"type":"string","details":{"type":"string"}}`}, {"b", `{"type":"array","details":{"type":"bool[]"}}`}}, nil, "corpus", false)
	h.addBack(0, "g", []pdesc{{"a", `{"type":"string","details":{"type":"string"}}`}}, []pdesc{{"r", `{"type":"string","details":{"type":"tuple"}}`}}, "corpus", false)
	h.addBack(0, "", nil, nil, "corpus", false)
	// a later parameter / a return that only the meta-schema refuses (decodes, and processField alone would accept it)
	good := pdesc{"a", `{"type":"string","details":{"type":"string"}}`}
	for i, bad := range []string{
		`{"oneOf":[{"type":"string"},{"type":"boolean"},{"type":"integer"}],"details":{"type":"uint256"}}`,
		`{"type":"string","oneOf":[{"type":"string"},{"type":"integer"}],"details":{"type":"uint256"}}`,
		`{"type":"string","details":{"type":"string"},"$ref":"#/nowhere"}`,
		`{"type":"string","details":{"type":"string"},"properties":5}`,
		`{"type":"wibble","details":{"type":"string"}}`,
	} {
		h.addBack(i%3, "g", []pdesc{{"b", bad}}, nil, "corpus-later-param", false)
		h.addBack(i%3, "g", []pdesc{good, {"b", bad}}, nil, "corpus-later-param", false)
		h.addBack(i%3, "g", []pdesc{good, good, {"b", bad}, good}, nil, "corpus-later-param", false)
		h.addBack(0, "g", []pdesc{good}, []pdesc{{"r", bad}}, "corpus-later-param", false)
		h.addBack(0, "g", nil, []pdesc{good, {"r", bad}}, "corpus-later-param", false)
	}
	// both "type" and "oneOf" on a member the meta-schema does not look at (under "items"): oneOf decides
	for _, m := range []string{
		`{"type":"string","oneOf":[{"type":"string"},{"type":"boolean"}],"details":{"type":"uint256","index":0}}`,
		`{"type":"boolean","oneOf":[{"type":"string"},{"type":"integer"}],"details":{"type":"uint256","index":0}}`,
		`{"type":"object","oneOf":[{"type":"string"},{"type":"integer"}],"details":{"type":"uint256","index":0}}`,
		`{"type":"array","oneOf":[{"type":"string"},{"type":"integer"}],"details":{"type":"uint256","index":0}}`,
		`{"type":"integer","oneOf":[],"details":{"type":"uint256","index":0}}`,
		`{"type":"integer","oneOf":null,"details":{"type":"uint256","index":0}}`,
	} {
		h.addBack(0, "f", []pdesc{{"x", `{"type":"array","details":{"type":"tuple[]"},"items":{"type":"object","properties":{"a":` + m + `}}}`}}, nil, "corpus", false)
		h.addBack(1, "f", []pdesc{{"x", `{"type":"object","details":{"type":"tuple"},"properties":{"a":` + m + `}}`}}, nil, "corpus", false)
	}
	// entry-level details of every shape beside a good and a bad parameter (carried along only)
	for i, d := range oddDetails {
		h.addBackD(i%2, "d", []pdesc{{"a", `{"oneOf":[{"type":"string"},{"type":"integer"}],"details":{"type":"uint256","indexed":true}}`}}, nil, d, "corpus-details", false)
		h.addBackD(i%2, "d", []pdesc{{"a", `{"type":"array","details":{"type":"bool[]"}}`}}, nil, d, "corpus-details", false)
	}
	// a parameter without a schema (what {"name":"x"} decodes to): an error, not a panic
	for kind := 0; kind < 3; kind++ {
		func() {
			defer func() {
				if x := recover(); x != nil {
					st.ImplFailures = append(st.ImplFailures, map[string]interface{}{"what": "the FFI -> ABI conversion panicked on a parameter without a schema: " + fmt.Sprint(x), "kind": kindNames[kind]})
				}
			}()
			ps := fftypes.FFIParams{{Name: "x"}}
			var e *abi.Entry
			var err error
			switch kind {
			case 0:
				e, err = ffi2abi.ConvertFFIMethodToABI(ctx, &fftypes.FFIMethod{Name: "f", Params: ps})
			case 1:
				e, err = ffi2abi.ConvertFFIEventDefinitionToABI(ctx, &fftypes.FFIEventDefinition{Name: "f", Params: ps})
			default:
				e, err = ffi2abi.ConvertFFIErrorDefinitionToABI(ctx, &fftypes.FFIErrorDefinition{Name: "f", Params: ps})
			}
			st.Hit("corpus:parameter-without-schema")
			if err == nil || e != nil {
				st.ImplFailures = append(st.ImplFailures, map[string]interface{}{"what": "the FFI -> ABI conversion accepted a parameter without a schema", "kind": kindNames[kind]})
			}
		}()
	}
	h.directedMembers()
	h.nullCorpus()
	// near-miss spellings (other case, surrounding blanks) of JSON type names and Ethereum types: at the levels the
	// jsonschema compile sees, and in a subtree it does not see (key spelled as only encoding/json reads it)
	for i, nm := range [][2]string{{"String", "string"}, {" string", "string"}, {"string ", "bytes"}, {"Integer", "uint256"}, {"Boolean", "bool"}, {"Number", "fixed128x18"},
		{"string", " string"}, {"string", "string "}, {"string", "String"}, {"string", "\tbytes32"}, {"string", "Address"}, {"string", "uint256 "}, {"string", "UINT8"}} {
		leaf := func(idx string) string {
			return `{"type":"` + nm[0] + `","details":{"type":"` + nm[1] + `"` + idx + `}}`
		}
		h.addBack(i%3, "nm", []pdesc{{"x", leaf("")}}, nil, "corpus-near-miss", false)
		h.addBack(i%3, "nm", []pdesc{{"x", `{"type":"object","details":{"type":"tuple"},"properties":{"a":` + leaf(`,"index":0`) + `}}`}}, nil, "corpus-near-miss", false)
		h.addBack(i%3, "nm", []pdesc{{"x", `{"type":"object","details":{"type":"tuple"},"Properties":{"a":` + leaf(`,"index":0`) + `}}`}}, nil, "corpus-near-miss", false)
		h.addBack(i%3, "nm", []pdesc{{"x", `{"type":"array","details":{"type":"tuple[]"},"Items":{"type":"object","properties":{"a":` + leaf(`,"index":0`) + `}}}`}}, nil, "corpus-near-miss", false)
	}
	for i, nm := range [][3]string{{"Object", "tuple", `"properties":{}`}, {"OBJECT", "tuple", `"properties":{"b":{"type":"string","details":{"type":"string","index":0}}}`}, {"Array", "uint8[]", `"items":{"type":"string"}`},
		{"object", "Tuple", `"properties":{}`}, {"object", "tuple ", `"properties":{}`}, {"array", "uint8[] ", `"items":{"type":"string"}`}, {"array", "uint8 []", `"items":{"type":"string"}`}, {"array", " tuple[]", `"items":{"type":"object"}`}} {
		node := func(idx string) string {
			return `{"type":"` + nm[0] + `","details":{"type":"` + nm[1] + `"` + idx + `},` + nm[2] + `}`
		}
		h.addBack(i%3, "nm", []pdesc{{"x", node("")}}, nil, "corpus-near-miss", false)
		h.addBack(i%3, "nm", []pdesc{{"x", `{"type":"object","details":{"type":"tuple"},"Properties":{"a":` + node(`,"index":0`) + `}}`}}, nil, "corpus-near-miss", false)
	}
	// details of its own on an inner level of an array chain: the descent goes on to the element schema
	h.addBack(0, "f", []pdesc{{"x", `{"type":"array","details":{"type":"tuple[][]"},"items":{"type":"array","details":{"type":"tuple[]"},"items":{"type":"object","properties":{"a":{"type":"string","details":{"type":"string","index":0}}}}}}`}}, nil, "corpus", false)
	h.addBack(1, "f", []pdesc{{"x", `{"type":"array","details":{"type":"tuple[][][]"},"items":{"type":"array","items":{"type":"array","details":{"type":"uint8[]","index":0},"items":{"type":"object","details":{"type":"tuple"},"properties":{"a":{"type":"string","details":{"type":"string","index":0}}}}}}}`}}, nil, "corpus", false)

	// --- forward corpus: names that differ only by blanks / case, as parameters and as tuple members ---
	{
		nmNames := []string{" a", "a ", "a", "A", " ", "", "\ta", "a\n", " a "}
		var ps, ms abi.ParameterArray
		for _, n := range nmNames {
			ms = append(ms, &abi.Parameter{Name: n, Type: "uint8"})
		}
		for _, n := range nmNames {
			ps = append(ps, &abi.Parameter{Name: n, Type: "tuple[]", Components: ms})
		}
		h.addFwd(abi.ABI{{Type: abi.Function, Name: "nm", Inputs: ps, Outputs: ps}, {Type: abi.Event, Name: "Nm", Inputs: ps[:3]}}, "near-miss-names", true)
	}
	// --- forward corpus: degenerate ABIs ---
	h.addFwd(abi.ABI{}, "degenerate-abi", true)
	h.addFwd(abi.ABI{{Type: abi.Constructor, Inputs: abi.ParameterArray{{Name: "a", Type: "uint256"}}}, {Type: abi.Fallback}, {Type: abi.Receive}}, "degenerate-abi", true)
	h.addFwd(abi.ABI{{Type: abi.Function, Name: "noargs"}, {Type: abi.Event, Name: "NoArgs"}, {Type: abi.Error, Name: "NoArgsErr"}}, "degenerate-abi", true)
	h.addFwd(abi.ABI{{Type: abi.Function, Name: "onlyout", Outputs: abi.ParameterArray{{Name: "r", Type: "tuple[]", Components: abi.ParameterArray{{Name: "m", Type: "bool"}}}}}}, "degenerate-abi", true)
	for _, bt := range []string{"uint7", "tuple7", "wibble", "uint256[", ""} {
		// valid inputs, an invalid type among the outputs / nested in an output
		h.addFwd(abi.ABI{{Type: abi.Function, Name: "badout", Inputs: abi.ParameterArray{{Name: "a", Type: "uint256"}}, Outputs: abi.ParameterArray{{Name: "ok", Type: "bool"}, {Name: "r", Type: bt}}}}, "bad-output-type", false)
		h.addFwd(abi.ABI{{Type: abi.Function, Name: "badout", Outputs: abi.ParameterArray{{Name: "r", Type: "tuple", Components: abi.ParameterArray{{Name: "m", Type: bt}}}}}}, "bad-output-type", false)
	}

	// --- forced shapes, one ABI each, every entry kind ---
	for i, mk := range forcedShapes {
		t := mk()
		nameAll(r, t, false)
		t.Name = "p"
		p := t.Param()
		a := abi.ABI{
			{Type: abi.Function, Name: "f", Inputs: abi.ParameterArray{p}, Outputs: abi.ParameterArray{t.Param()}},
			{Type: abi.Event, Name: "E", Inputs: abi.ParameterArray{t.Param()}},
			{Type: abi.Error, Name: "R", Inputs: abi.ParameterArray{t.Param()}},
			{Type: abi.Constructor, Inputs: abi.ParameterArray{t.Param()}},
		}
		a[1].Inputs[0].Indexed = i%2 == 0
		st.Hit("param:" + shapeTag(t))
		pool = append(pool, h.addFwd(a, "forced-shape", true)...)
	}

	pool = append(pool, h.directedFwd()...)

	// --- random valid ABIs within the quantifier ---
	nABI := 110
	if thorough {
		nABI = 2500
	}
	for i := 0; i < nABI; i++ {
		a := genABI(r, st, i%3 != 0, i%5 == 0)
		pool = append(pool, h.addFwd(a, "valid-abi", true)...)
	}
	// --- ABIs outside the quantifier: overloaded names, duplicate member names, invalid types,
	//     unnamed / non-function entries, components under a non-tuple type ---
	nOdd := 40
	if thorough {
		nOdd = 600
	}
	for i := 0; i < nOdd; i++ {
		a := genABI(r, st, false, true)
		kind := ""
		switch r.Intn(6) {
		case 0:
			kind = "overloaded-name"
			a = append(a, &abi.Entry{Type: a[0].Type, Name: a[0].Name, Inputs: genParams(r, st, 1, false, false, false)})
		case 1:
			kind = "invalid-type"
			e := a[r.Intn(len(a))]
			e.Inputs = append(e.Inputs, &abi.Parameter{Name: "bad", Type: badTypes[r.Intn(len(badTypes))]})
		case 2:
			kind = "duplicate-member"
			a = append(a, &abi.Entry{Type: abi.Function, Name: "dupm", Inputs: abi.ParameterArray{{Name: "t", Type: "tuple", Components: abi.ParameterArray{{Name: "m", Type: "uint8"}, {Name: "m", Type: "bool"}}}}})
		case 3:
			kind = "other-entry-types"
			a = append(a, &abi.Entry{Type: abi.Constructor, Inputs: genParams(r, st, 1, false, false, false)},
				&abi.Entry{Type: abi.Fallback}, &abi.Entry{Type: abi.Receive, Name: "rcv"}, &abi.Entry{Type: "wibble", Name: "w"},
				&abi.Entry{Type: abi.Constructor, Name: "namedctor", Inputs: genParams(r, st, 1, false, false, false)})
		case 4:
			kind = "components-under-elementary"
			a = append(a, &abi.Entry{Type: abi.Function, Name: "cue", Inputs: abi.ParameterArray{{Name: "u", Type: "uint256[]", Components: abi.ParameterArray{{Name: "m", Type: "bool"}}}}})
		default:
			kind = "invalid-nested-type"
			a = append(a, &abi.Entry{Type: abi.Event, Name: "bn", Inputs: abi.ParameterArray{{Name: "t", Type: "tuple[]", Components: abi.ParameterArray{{Name: "m", Type: badTypes[r.Intn(len(badTypes))]}}}}})
		}
		st.Hit("odd-abi:" + kind)
		h.addFwd(a, "odd-abi:"+kind, false)
	}
	for _, bt := range badTypes {
		h.addFwd(abi.ABI{{Type: abi.Function, Name: "f", Inputs: abi.ParameterArray{{Name: "p", Type: bt}}}}, "bad-type", false)
	}

	// --- mutated schemas ---
	nMut := 900
	if thorough {
		nMut = 30000
	}
	for i := 0; i < nMut && len(pool) > 0; i++ {
		src := pool[r.Intn(len(pool))]
		root, err := parseJV(src.Schema)
		if err != nil {
			continue
		}
		kinds := []string{}
		nestedType := false
		rounds := 1
		if r.Intn(5) == 0 {
			rounds = 2 + r.Intn(2)
		}
		for k := 0; k < rounds; k++ {
			kd, nt := mutate(r, root)
			if kd != "none" {
				kinds = append(kinds, kd)
			}
			nestedType = nestedType || nt
		}
		if len(kinds) == 0 {
			continue
		}
		for _, k := range kinds {
			st.Hit("mutation:" + k)
		}
		text := root.text()
		if len(text) > 16384 {
			continue
		}
		name := src.Name
		if r.Intn(10) == 0 {
			name = oddNames[r.Intn(len(oddNames))]
		}
		// only a lone nested JSON-type mutation is attributed to the known finding
		known := nestedType && len(kinds) == 1
		kind := r.Intn(3)
		var rets []pdesc
		if kind == 0 && r.Intn(6) == 0 {
			rets = []pdesc{{Name: "ret", Schema: text}}
			h.addBack(0, "m", []pdesc{pool[r.Intn(len(pool))]}, rets, "mutated:"+kinds[0], known)
		} else {
			det := ""
			if r.Intn(6) == 0 {
				det = oddDetails[r.Intn(len(oddDetails))]
			}
			h.addBackD(kind, "m", []pdesc{{Name: name, Schema: text}}, nil, det, "mutated:"+kinds[0], known)
		}
		if r.Intn(25) == 0 { // the same definition with a null entry at a random position of a longer list
			n := 1 + r.Intn(4)
			l := make([]*pdesc, n)
			for j := range l {
				switch r.Intn(3) {
				case 0:
					l[j] = &pdesc{Name: name, Schema: text}
				case 1:
					p := pool[r.Intn(len(pool))]
					l[j] = &p
				}
			}
			l[r.Intn(n)] = nil
			if kind == 0 && r.Bool() {
				p := pool[r.Intn(len(pool))]
				h.addBackNull(0, "m", []*pdesc{&p}, l, "mutated-with-null")
			} else {
				h.addBackNull(kind, "m", l, nil, "mutated-with-null")
			}
		}
	}

	// --- arbitrary JSON and arbitrary text ---
	nArb := 250
	if thorough {
		nArb = 6000
	}
	for i := 0; i < nArb; i++ {
		var text string
		switch r.Intn(10) {
		case 0:
			b := r.Bytes(r.Intn(40))
			text = string(b)
		case 1: // truncated valid schema
			if len(pool) > 0 {
				s := pool[r.Intn(len(pool))].Schema
				text = s[:r.Intn(len(s)+1)]
			}
		case 2: // large: up to 16 KiB
			o := jobj(kv{"type", jstr("object")}, kv{"details", jobj(kv{"type", jstr("tuple")})})
			props := jobj()
			n := 20 + r.Intn(60)
			for k := 0; k < n; k++ {
				props.o = append(props.o, kv{fmt.Sprintf("m%d", k), jobj(kv{"type", jstr("string")}, kv{"description", jstr(strings.Repeat("d", r.Intn(120)))}, kv{"details", jobj(kv{"type", jstr("string")}, kv{"index", jnum(fmt.Sprint((k + r.Intn(2)*r.Intn(3)) % n))})})})
			}
			o.o = append(o.o, kv{"properties", props})
			text = o.text()
			if len(text) > 16384 {
				text = text[:16384]
			}
		default:
			v := randomJSON(r, 1+r.Intn(5))
			if v.isObj() && r.Bool() {
				v.set("details", jobj(kv{"type", jstr(ethTypes[r.Intn(len(ethTypes))])}))
				if r.Bool() {
					v.set("type", jstr(jsonTypes[r.Intn(len(jsonTypes))]))
				}
			}
			text = v.text()
		}
		st.Hit(fmt.Sprintf("arbitrary:len<%d", 1<<uint(bitlen(len(text)))))
		h.addBack(r.Intn(3), "arb", []pdesc{{Name: "p", Schema: text}}, nil, "arbitrary", false)
	}

	if err := h.w.Flush(); err != nil {
		panic(err)
	}
	st.Evaluations = h.w.Count()
	// the concurrent section comes last and the case files are complete before it: an unrecoverable
	// fault there (concurrent map writes) kills the process, which ./check reports with this note
	cur := filepath.Join(*out, "current_case.json")
	os.WriteFile(cur, []byte(`{"section":"every retained FFI -> ABI and ABI -> FFI conversion again from 8 goroutines at once"}`), 0o644)
	h.concurrent(8)
	os.Remove(cur)
	st.Extra["state_reverified_conversions"] = h.rt.nRe
	st.Rule = "ABIs with distinct entry names and distinct member names over abigen type trees (depth<=4; forced tuple[][], tuple[2][], tuple[][3][], tuples in tuples, empty tuples, T[k][k][k]) with random internalType/indexed and odd names -> ConvertABIToFFI, every produced method/event/error converted back (round-trip oracle), Signature vs ABIMethodToSignature per entry; ABIs outside the quantifier (overloads, invalid types, duplicate members, unnamed/other entry types); generated schemas mutated (remove/retype type, details, items, properties, oneOf, index; index -1, n, >n, huge, fractional, duplicate, swapped; JSON type at odds at top and nested; Ethereum type replaced; duplicate keys in other case; members replaced/removed/added; array levels added/removed); arbitrary JSON, truncated and random text, objects up to 16 KiB. distinct = distinct ABI / (kind, name, schemas); non-trivial = at least one parameter"
	st.Samples = append(st.Samples,
		`CBack 0 "f" [x: {"type":"array","details":{"type":"uint256[]"}}] -> error (array schema without items)`,
		`CFwd [f(p tuple[][] {a uint256, b tuple {c bool}})] -> methods/events/errors with schemas; back: f((uint256,(bool))[][])`)
	if err := st.Write(filepath.Join(*out, "stats_C20.json")); err != nil {
		panic(err)
	}
}

func bitlen(n int) int {
	b := 0
	for n > 0 {
		b++
		n >>= 1
	}
	return b
}
