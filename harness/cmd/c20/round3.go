// Round 3 additions to the C20 harness: state kept across calls (retained results re-verified later,
// returned entries overwritten, repeated and concurrent conversions), inputs left untouched, wide / deep
// directed shapes, entry-level details carried along.
package main

import (
	"encoding/json"
	"fmt"
	"sort"
	"strings"
	"sync"

	"github.com/hyperledger/firefly-common/pkg/fftypes"
	"github.com/hyperledger/firefly-signer/pkg/abi"
	"github.com/hyperledger/firefly-signer/pkg/ffi2abi"
	"verifharness/abigen"
	"verifharness/cv"
)

// ---------- retained results ----------

type keptBack struct {
	kind    int
	name    string
	params  []pdesc
	returns []pdesc
	details string // JSON text of the entry-level details, "" = none
	proj    string // projection of the first result
}
type keptFwd struct {
	raw  []byte // JSON of the ABI
	proj string
}

type retained struct {
	r     *cv.Rand
	backs []keptBack
	fwds  []keptFwd
	max   int
	nRe   int
}

func newRetained(max int) *retained {
	return &retained{r: cv.NewRand(2020 + uint64(cv.Seed())*7000003), max: max}
}

func parseDetails(text string) fftypes.JSONObject {
	if text == "" {
		return nil
	}
	var d fftypes.JSONObject
	if json.Unmarshal([]byte(text), &d) != nil {
		return nil
	}
	return d
}

// backProj: class and, for a returned entry, the full parameter trees, signature and helper text
func backProj(e *abi.Entry, err error, pan string) string {
	switch {
	case pan != "":
		return "panic"
	case err != nil:
		return "error"
	}
	s, serr, sp := safeSig(e)
	hs, hp := safeHelper(e)
	i, ok1 := coqParams(e.Inputs)
	o, ok2 := coqParams(e.Outputs)
	return fmt.Sprintf("ok|%s|%s|%v|%v|%v|%v|%v|%s|%s|%s|%s", e.Type, e.Name, serr != nil, sp, hp, ok1, ok2, s, hs, i, o)
}

// scribble overwrites everything reachable from a returned entry: a later call that hands out the
// same objects again (a cache, a pool) then returns garbage, which the re-verification sees.
func scribbleParams(pa abi.ParameterArray) {
	for i, p := range pa {
		if p == nil {
			continue
		}
		scribbleParams(p.Components)
		p.Name, p.Type, p.InternalType, p.Indexed = "~scribbled~", "bool", "~", !p.Indexed
		p.Components = nil
		pa[i] = nil
	}
}
func scribbleEntry(e *abi.Entry) {
	if e == nil {
		return
	}
	scribbleParams(e.Inputs)
	scribbleParams(e.Outputs)
	e.Name, e.Type = "~scribbled~", "~"
	e.Inputs, e.Outputs = nil, nil
}

func runBack(kind int, name string, params, returns []pdesc, details string) (e *abi.Entry, err error, pan string, inputTouched bool) {
	fp, fr := ffiParams(params), ffiParams(returns)
	d := parseDetails(details)
	snapP, snapR := snapParams(fp), snapParams(fr)
	func() {
		defer func() {
			if x := recover(); x != nil {
				pan = fmt.Sprint(x)
			}
		}()
		switch kind {
		case 0:
			e, err = ffi2abi.ConvertFFIMethodToABI(ctx, &fftypes.FFIMethod{Name: name, Params: fp, Returns: fr, Details: d})
		case 1:
			e, err = ffi2abi.ConvertFFIEventDefinitionToABI(ctx, &fftypes.FFIEventDefinition{Name: name, Params: fp, Details: d})
		default:
			e, err = ffi2abi.ConvertFFIErrorDefinitionToABI(ctx, &fftypes.FFIErrorDefinition{Name: name, Params: fp})
		}
	}()
	inputTouched = !sameSnap(fp, snapP) || !sameSnap(fr, snapR)
	return
}

// snapParams / sameSnap: the parameter list as the caller holds it, before and after the call
func snapParams(ps fftypes.FFIParams) []string {
	out := make([]string, 0, 2*len(ps))
	for _, p := range ps {
		out = append(out, p.Name, p.Schema.String())
	}
	return out
}
func sameSnap(ps fftypes.FFIParams, snap []string) bool {
	if 2*len(ps) != len(snap) {
		return false
	}
	for i, p := range ps {
		if p == nil || p.Name != snap[2*i] || p.Schema.String() != snap[2*i+1] {
			return false
		}
	}
	return true
}

func (k *keptBack) desc(what string, extra map[string]interface{}) map[string]interface{} {
	m := map[string]interface{}{"what": what, "kind": kindNames[k.kind], "name": k.name, "params": k.params, "returns": k.returns}
	if k.details != "" {
		m["details"] = json.RawMessage(k.details)
	}
	for a, b := range extra {
		m[a] = b
	}
	return m
}

// keepBack retains one conversion (reservoir of bounded size) and re-verifies an earlier one.
func (h *H) keepBack(k keptBack) {
	rt := h.rt
	if len(rt.backs) < rt.max {
		rt.backs = append(rt.backs, k)
	} else if rt.r.Intn(3) == 0 {
		rt.backs[rt.r.Intn(len(rt.backs))] = k
	}
	// re-verify: the most recent one (immediate repeat) every fourth call, an older one otherwise
	var old keptBack
	if rt.r.Intn(4) == 0 {
		old = k
	} else {
		old = rt.backs[rt.r.Intn(len(rt.backs))]
	}
	h.reverifyBack(&old, "repeated")
}

func (h *H) reverifyBack(old *keptBack, how string) {
	e, err, pan, touched := runBack(old.kind, old.name, old.params, old.returns, old.details)
	p := backProj(e, err, pan)
	scribbleEntry(e)
	h.rt.nRe++
	h.st.Hit("state:back-" + how)
	if p != old.proj {
		h.st.ImplFailures = append(h.st.ImplFailures, old.desc("state kept across calls: a "+how+" FFI -> ABI conversion of the same definition returns a different result", map[string]interface{}{"first": clip(old.proj), "later": clip(p)}))
	}
	if touched {
		h.st.ImplFailures = append(h.st.ImplFailures, old.desc("the FFI -> ABI conversion modified the parameter list it was given", nil))
	}
}

func clip(s string) string {
	if len(s) > 600 {
		return s[:600] + "..."
	}
	return s
}

// fwdProj: canonical text of the interface produced (methods / events / errors sorted by name)
func fwdProj(f *fftypes.FFI, err error, pan string) string {
	switch {
	case pan != "":
		return "panic"
	case err != nil:
		return "error"
	case f == nil:
		return "nil"
	}
	type ent struct {
		Name    string
		Params  []pdesc
		Returns []pdesc
		Details string
	}
	pl := func(ps fftypes.FFIParams) []pdesc {
		out := []pdesc{}
		for _, p := range ps {
			if p == nil || p.Schema == nil {
				out = append(out, pdesc{Name: "<nil>"})
				continue
			}
			out = append(out, pdesc{Name: p.Name, Schema: canonJSON(p.Schema.String())})
		}
		return out
	}
	dj := func(d fftypes.JSONObject) string { b, _ := json.Marshal(d); return string(b) }
	var ms, es, rs []ent
	for _, m := range f.Methods {
		if m == nil {
			ms = append(ms, ent{Name: "<nil>"})
			continue
		}
		ms = append(ms, ent{m.Name, pl(m.Params), pl(m.Returns), dj(m.Details)})
	}
	for _, m := range f.Events {
		if m == nil {
			es = append(es, ent{Name: "<nil>"})
			continue
		}
		es = append(es, ent{m.Name, pl(m.Params), nil, dj(m.Details)})
	}
	for _, m := range f.Errors {
		if m == nil {
			rs = append(rs, ent{Name: "<nil>"})
			continue
		}
		rs = append(rs, ent{m.Name, pl(m.Params), nil, ""})
	}
	for _, l := range [][]ent{ms, es, rs} {
		l := l
		sort.SliceStable(l, func(i, j int) bool { return l[i].Name < l[j].Name })
	}
	b, _ := json.Marshal([]interface{}{f.Namespace, f.Name, f.Version, f.Description, ms, es, rs})
	return string(b)
}

// canonJSON re-marshals a JSON text through interface{} (object keys sorted): Properties are a Go map
// on the implementation's side, their order in the text is not an observable.
func canonJSON(text string) string {
	var v interface{}
	if json.Unmarshal([]byte(text), &v) != nil {
		return "!" + text
	}
	b, _ := json.Marshal(v)
	return string(b)
}

func runFwd(raw []byte) string {
	var a abi.ABI
	if json.Unmarshal(raw, &a) != nil {
		return "unparsable"
	}
	f, err, pan := safeFwd(a)
	return fwdProj(f, err, pan)
}

// checkFwdState: the same ABI object converted a second time, its JSON before and after, and the
// result retained for later.
func (h *H) checkFwdState(raw []byte, work abi.ABI, before []byte, first string) {
	after, _ := json.Marshal(work)
	if string(before) != string(after) {
		h.st.ImplFailures = append(h.st.ImplFailures, map[string]interface{}{"what": "ConvertABIToFFI modified the ABI it was given", "abi": json.RawMessage(raw), "after": json.RawMessage(after)})
	}
	f2, err2, pan2 := safeFwd(work)
	second := fwdProj(f2, err2, pan2)
	h.st.Hit("state:fwd-same-object-twice")
	if second != first {
		h.st.ImplFailures = append(h.st.ImplFailures, map[string]interface{}{"what": "state kept across calls: the second ConvertABIToFFI of the same ABI object returns a different interface", "abi": json.RawMessage(raw), "first": clip(first), "second": clip(second)})
	}
	rt := h.rt
	k := keptFwd{raw: raw, proj: first}
	if len(rt.fwds) < rt.max/4 {
		rt.fwds = append(rt.fwds, k)
	} else if rt.r.Intn(3) == 0 {
		rt.fwds[rt.r.Intn(len(rt.fwds))] = k
	}
	old := rt.fwds[rt.r.Intn(len(rt.fwds))]
	h.st.Hit("state:fwd-repeated")
	if p := runFwd(old.raw); p != old.proj {
		h.st.ImplFailures = append(h.st.ImplFailures, map[string]interface{}{"what": "state kept across calls: a repeated ConvertABIToFFI of the same ABI returns a different interface", "abi": json.RawMessage(old.raw), "first": clip(old.proj), "later": clip(p)})
	}
}

// concurrent: every retained conversion again, from several goroutines at once, each in its own order.
func (h *H) concurrent(workers int) {
	rt := h.rt
	type bad struct {
		back *keptBack
		fwd  *keptFwd
		got  string
	}
	var mu sync.Mutex
	var bads []bad
	var wg sync.WaitGroup
	for w := 0; w < workers; w++ {
		wg.Add(1)
		go func(w int) {
			defer wg.Done()
			nb, nf := len(rt.backs), len(rt.fwds)
			for i := 0; i < nb+nf; i++ {
				j := (i*7 + w*13) % (nb + nf)
				if j < nb {
					k := &rt.backs[(j+w*(nb/workers+1))%nb]
					e, err, pan, _ := runBack(k.kind, k.name, k.params, k.returns, k.details)
					p := backProj(e, err, pan)
					scribbleEntry(e)
					if p != k.proj {
						mu.Lock()
						bads = append(bads, bad{back: k, got: p})
						mu.Unlock()
					}
				} else {
					k := &rt.fwds[(j-nb+w)%nf]
					if p := runFwd(k.raw); p != k.proj {
						mu.Lock()
						bads = append(bads, bad{fwd: k, got: p})
						mu.Unlock()
					}
				}
			}
		}(w)
	}
	wg.Wait()
	h.st.Distribution["state:concurrent-conversions"] += workers * (len(rt.backs) + len(rt.fwds))
	sort.SliceStable(bads, func(i, j int) bool { return bads[i].got < bads[j].got })
	for i, b := range bads {
		if i >= 5 {
			break
		}
		if b.back != nil {
			h.st.ImplFailures = append(h.st.ImplFailures, b.back.desc("concurrent FFI -> ABI conversions interfere: a conversion run beside others returns a different result", map[string]interface{}{"first": clip(b.back.proj), "concurrent": clip(b.got)}))
		} else {
			h.st.ImplFailures = append(h.st.ImplFailures, map[string]interface{}{"what": "concurrent ConvertABIToFFI calls interfere: a conversion run beside others returns a different interface", "abi": json.RawMessage(b.fwd.raw), "first": clip(b.fwd.proj), "concurrent": clip(b.got)})
		}
	}
}

// ---------- entry-level details (not part of the property; carried along so that the statements
//            handling them are exercised and cannot disturb the parameters unseen) ----------

func decorateEntry(r *cv.Rand, e *abi.Entry) {
	switch e.Type {
	case abi.Function:
		if r.Intn(2) == 0 {
			e.StateMutability = []abi.StateMutability{abi.Pure, abi.View, abi.Payable, abi.NonPayable}[r.Intn(4)]
		}
		e.Payable = r.Intn(3) == 0
		e.Constant = r.Intn(3) == 0
	case abi.Event:
		e.Anonymous = r.Intn(3) == 0
	}
}

var oddDetails = []string{
	`{}`,
	`{"stateMutability":"payable","payable":true,"constant":true,"anonymous":true}`,
	`{"stateMutability":5,"payable":"true","constant":null,"anonymous":[]}`,
	`{"stateMutability":"","payable":false,"constant":"yes","anonymous":"true"}`,
	`{"stateMutability":{"a":1},"payable":1,"constant":{},"anonymous":0}`,
	`{"payable":true}`,
	`{"constant":true}`,
	`{"anonymous":true}`,
}

// ---------- directed shapes ----------

// wideTuple: n members of mixed kinds (every seventh a nested tuple, every fifth an array of tuples),
// names chosen so that neither their text order nor the order of their positions as text is the
// position order.
func wideTuple(n int) *abigen.Type {
	fs := make([]*abigen.Type, n)
	for i := range fs {
		var t *abigen.Type
		switch {
		case i%7 == 3:
			t = abigen.Tup(abigen.U(8).Named("u"), abigen.Boolean().Named("v"))
		case i%5 == 4:
			t = abigen.Dyn(abigen.Tup(abigen.Addr().Named("w")))
		case i%3 == 0:
			t = abigen.U(8 * (1 + i%32))
		case i%3 == 1:
			t = abigen.Boolean()
		default:
			t = abigen.Str()
		}
		t.Name = fmt.Sprintf("m%d", (n-i)*3+1)
		fs[i] = t
	}
	return abigen.Tup(fs...)
}

func nestTuple(depth int, leaf *abigen.Type) *abigen.Type {
	t := leaf
	for i := 0; i < depth; i++ {
		t = abigen.Tup(abigen.U(8*(i+1)).Named(fmt.Sprintf("n%d", i)), t.Named(fmt.Sprintf("t%d", i)))
	}
	return t
}
func dims(k int, base *abigen.Type, fixedEvery int) *abigen.Type {
	t := base
	for i := 0; i < k; i++ {
		if fixedEvery > 0 && i%fixedEvery == 1 {
			t = abigen.Arr(t, i+1)
		} else {
			t = abigen.Dyn(t)
		}
	}
	return t
}

// directedFwd: ABIs around the sizes and depths where an implementation detail could change
// (word-sized sets of positions, one-byte positions, a bounded descent).
func (h *H) directedFwd() []pdesc {
	var pool []pdesc
	one := func(tag string, t *abigen.Type) {
		t.Name = "p"
		a := abi.ABI{
			{Type: abi.Function, Name: "f", Inputs: abi.ParameterArray{t.Param()}, Outputs: abi.ParameterArray{t.Param()}},
			{Type: abi.Event, Name: "E", Inputs: abi.ParameterArray{t.Param()}},
		}
		h.st.Hit("directed:" + tag)
		pool = append(pool, h.addFwd(a, "directed-shape", true)...)
	}
	for _, n := range []int{9, 10, 11, 16, 17, 32, 33, 64, 65, 128, 129} {
		one(fmt.Sprintf("wide-tuple/members=%d", n), wideTuple(n))
	}
	for _, k := range []int{4, 5, 6, 9} {
		one(fmt.Sprintf("tuple-array/dims=%d", k), dims(k, abigen.Tup(abigen.U(256).Named("a"), abigen.Dyn(abigen.Tup(abigen.Boolean().Named("c"))).Named("b")), 0))
		one(fmt.Sprintf("tuple-array-mixed/dims=%d", k), dims(k, abigen.Tup(abigen.Str().Named("s")), 2))
		one(fmt.Sprintf("elementary-array/dims=%d", k), dims(k, abigen.I(64), 3))
	}
	for _, d := range []int{5, 6, 7, 10} {
		one(fmt.Sprintf("nested-tuples/depth=%d", d), nestTuple(d, abigen.Tup(abigen.Byts().Named("leaf"))))
		one(fmt.Sprintf("nested-tuple-arrays/depth=%d", d), dims(2, nestTuple(d, abigen.Dyn(abigen.Tup(abigen.Fx(128, 18).Named("leaf")))), 0))
	}
	return pool
}

// directedMembers: object schemas with n members, exact positions except for one directed fault at a
// boundary (position n, a duplicate at / across a word boundary).  At most 16 KiB.
func (h *H) directedMembers() {
	mk := func(n int, idx func(i int) string, order func(i int) int) string {
		var sb strings.Builder
		sb.WriteString(`{"type":"object","details":{"type":"tuple"},"properties":{`)
		for k := 0; k < n; k++ {
			i := order(k)
			if k > 0 {
				sb.WriteByte(',')
			}
			fmt.Fprintf(&sb, `"a%d":{"type":"string","details":{"type":"string","index":%s}}`, i, idx(i))
		}
		sb.WriteString(`}}`)
		return sb.String()
	}
	add := func(tag, text string) {
		if len(text) > 16384 {
			return
		}
		h.st.Hit("directed-members:" + tag)
		h.addBack(h.rt.r.Intn(3), "w", []pdesc{{Name: "p", Schema: text}}, nil, "directed-members", false)
	}
	for _, n := range []int{16, 17, 32, 33, 64, 65, 66, 128, 129, 250} {
		rev := func(i int) int { return n - 1 - i }
		exact := func(i int) string { return fmt.Sprint(i) }
		add("exact", mk(n, exact, rev))
		// position n for the last / the first member
		add("index=n", mk(n, func(i int) string {
			if i == n-1 {
				return fmt.Sprint(n)
			}
			return fmt.Sprint(i)
		}, rev))
		// one duplicate: member p carries the position of member q (so q's position is used twice, p's never)
		for _, pq := range [][2]int{{n - 1, n - 2}, {0, n - 1}, {n - 1, n / 2}, {n/2 + 1, n / 2}} {
			p, q := pq[0], pq[1]
			if p < 0 || q < 0 || p == q {
				continue
			}
			add("one-duplicate", mk(n, func(i int) string {
				if i == p {
					return fmt.Sprint(q)
				}
				return fmt.Sprint(i)
			}, func(i int) int { return i }))
		}
	}
}

// ---------- parameter lists with null entries ("params":[null] -> a nil *fftypes.FFIParam) ----------

type nullDesc struct {
	Kind    string   `json:"kind"` // backnull/method|event|error
	Origin  string   `json:"origin"`
	Name    string   `json:"name"`
	Params  []*pdesc `json:"params"` // null = a null entry
	Returns []*pdesc `json:"returns,omitempty"`
	Impl    string   `json:"impl"`
}

func ffiParamsN(ps []*pdesc) fftypes.FFIParams {
	out := make(fftypes.FFIParams, len(ps))
	for i, p := range ps {
		if p != nil {
			out[i] = &fftypes.FFIParam{Name: p.Name, Schema: fftypes.JSONAnyPtr(p.Schema)}
		}
	}
	return out
}

// addBackNull: one FFI -> ABI conversion of a definition decoded from JSON text (so the nil entries are
// the ones encoding/json makes), class only; the model is ConvertFFI*ToABI_opt.
func (h *H) addBackNull(kind int, name string, params, returns []*pdesc, origin string) int {
	// (json.Unmarshal of {"name":"f","params":[null]} into fftypes.FFIMethod gives exactly this: a nil *FFIParam in
	// the slice - checked once in nullCorpus)
	text := fmt.Sprintf("%v|%v", params, returns)
	var e *abi.Entry
	var err error
	pan := ""
	func() {
		defer func() {
			if x := recover(); x != nil {
				pan = fmt.Sprint(x)
			}
		}()
		switch kind {
		case 0:
			e, err = ffi2abi.ConvertFFIMethodToABI(ctx, &fftypes.FFIMethod{Name: name, Params: ffiParamsN(params), Returns: ffiParamsN(returns)})
		case 1:
			e, err = ffi2abi.ConvertFFIEventDefinitionToABI(ctx, &fftypes.FFIEventDefinition{Name: name, Params: ffiParamsN(params)})
		default:
			e, err = ffi2abi.ConvertFFIErrorDefinitionToABI(ctx, &fftypes.FFIErrorDefinition{Name: name, Params: ffiParamsN(params)})
		}
	}()
	cls, impl := 0, "ok"
	switch {
	case pan != "":
		cls, impl = 2, "PANIC "+pan
	case err != nil:
		cls, impl = 1, "error: "+err.Error()
	case e == nil:
		cls, impl = 2, "nil entry and nil error"
	}
	pl := func(ps []*pdesc) string {
		out := make([]string, len(ps))
		for i, p := range ps {
			if p == nil {
				out[i] = "None"
				continue
			}
			c, _, _ := coqPin(p.Name, p.Schema)
			out[i] = "(Some " + c + ")"
		}
		return clist(out)
	}
	if kind != 0 {
		returns = nil
	}
	h.st.Hit(fmt.Sprintf("backnull:%s:class=%d", origin, cls))
	h.w.Add(fmt.Sprintf("CBackN %d %s %s %s %d", kind, cb(name), pl(params), pl(returns), cls),
		nullDesc{Kind: "backnull/" + kindNames[kind], Origin: origin, Name: name, Params: params, Returns: returns, Impl: impl})
	for _, p := range append(append([]*pdesc{}, params...), returns...) {
		if p != nil {
			text += "|" + p.Name + "|" + p.Schema
		}
	}
	dk := fmt.Sprintf("n|%d|%s|%s", kind, name, text)
	if !h.seen[dk] {
		h.seen[dk] = true
		h.st.Distinct++
	}
	return cls
}

// nullCorpus: a null entry first / in the middle / last / alone / twice, among the inputs and the outputs, beside good
// and bad parameters, for the three conversions.
func (h *H) nullCorpus() {
	g := func(n string) *pdesc { return &pdesc{Name: n, Schema: `{"type":"string","details":{"type":"string"}}`} }
	t := &pdesc{Name: "t", Schema: `{"type":"object","details":{"type":"tuple"},"properties":{"a":{"type":"string","details":{"type":"string","index":0}}}}`}
	bad := &pdesc{Name: "b", Schema: `{"type":"array","details":{"type":"bool[]"}}`}
	lists := [][]*pdesc{
		{nil}, {nil, nil}, {nil, g("a")}, {g("a"), nil}, {g("a"), nil, t}, {g("a"), t, nil}, {nil, g("a"), t, nil},
		{bad, nil}, {nil, bad}, {g("a"), t}, {},
	}
	for kind := 0; kind < 3; kind++ {
		for _, l := range lists {
			h.addBackNull(kind, "f", l, nil, "corpus")
		}
	}
	for _, l := range lists {
		h.addBackNull(0, "f", []*pdesc{g("a")}, l, "corpus-returns")
		h.addBackNull(0, "f", nil, l, "corpus-returns")
	}
	h.addBackNull(0, "f", []*pdesc{nil}, []*pdesc{nil}, "corpus-returns")
	// what encoding/json makes of a null entry
	var m fftypes.FFIMethod
	if err := json.Unmarshal([]byte(`{"name":"f","params":[null,{"name":"a","schema":{"type":"string","details":{"type":"string"}}}],"returns":[null]}`), &m); err != nil || len(m.Params) != 2 || m.Params[0] != nil || m.Params[1] == nil || len(m.Returns) != 1 || m.Returns[0] != nil {
		h.st.ImplFailures = append(h.st.ImplFailures, map[string]interface{}{"what": "harness assumption broken: a null entry of a parameter list does not decode to a nil *FFIParam", "key": "harness-assumption"})
	} else {
		func() {
			defer func() {
				if x := recover(); x != nil {
					h.st.ImplFailures = append(h.st.ImplFailures, map[string]interface{}{"what": "the FFI -> ABI conversion panicked on the decoded definition {\"name\":\"f\",\"params\":[null,...],\"returns\":[null]}: " + fmt.Sprint(x)})
				}
			}()
			if e, err := ffi2abi.ConvertFFIMethodToABI(ctx, &m); err == nil || e != nil {
				h.st.ImplFailures = append(h.st.ImplFailures, map[string]interface{}{"what": "the FFI -> ABI conversion accepted a decoded definition with null entries in its parameter lists"})
			}
		}()
	}
}
