package main

// Generator of property C15's input space: valid scrypt / PBKDF2 key files written by the harness's own
// V3 writer (direct library calls), every single-member mutation of them (missing / null / wrong JSON
// kind / negative / zero / huge), the parameter sweeps the quantifier lists, with the MAC recomputed so
// that it stays valid wherever a derived key exists, plus byte-level damage and arbitrary bytes.

import (
	"bytes"
	"crypto/hmac"
	"crypto/sha256"
	"encoding/hex"
	"fmt"
	"sort"
	"strings"

	"golang.org/x/crypto/sha3"

	"verifharness/cv"
)

type tcase struct {
	Family string
	Name   string
	Doc    []byte
	Pw     []byte
	GoOnly bool // JSON shapes the Coq model does not claim (duplicate members, case variants of member names)
}

type base struct {
	kdf        string
	n, r, p, c int64
	salt, ivb  []byte
	key, pw    []byte
	id         string
}

const uuid1 = "3198bc9c-6672-5ab3-d995-4942343ae5b6"

func (b *base) doc() *J {
	f := &fields{kdf: &b.kdf, salt: b.salt, n: &b.n, r: &b.r, p: &b.p, c: &b.c}
	dk, ok := f.lenientDK(b.pw)
	if !ok {
		panic("base file parameters outside the library domain")
	}
	ct := aesCTR(dk[0:16], b.ivb, b.key)
	mac := keccak(dk[16:32], ct)
	var kp *J
	if b.kdf == "scrypt" {
		kp = jobj(kv("dklen", jint(32)), kv("n", jint(b.n)), kv("r", jint(b.r)), kv("p", jint(b.p)), kv("salt", jstr(hex.EncodeToString(b.salt))))
	} else {
		kp = jobj(kv("c", jint(b.c)), kv("dklen", jint(32)), kv("prf", jstr("hmac-sha256")), kv("salt", jstr(hex.EncodeToString(b.salt))))
	}
	return jobj(
		kv("address", jstr("008aeeda4d805471df9b2a5b0f38a0c3bcba786b")),
		kv("crypto", jobj(
			kv("cipher", jstr("aes-128-ctr")),
			kv("ciphertext", jstr(hex.EncodeToString(ct))),
			kv("cipherparams", jobj(kv("iv", jstr(hex.EncodeToString(b.ivb))))),
			kv("kdf", jstr(b.kdf)),
			kv("kdfparams", kp),
			kv("mac", jstr(hex.EncodeToString(mac))),
		)),
		kv("id", jstr(b.id)),
		kv("version", jint(3)),
	)
}

// remac recomputes crypto.mac from the parameters the document now declares ("the MAC optionally
// recomputed to stay valid"); false when no derived key exists for them (r = 0, N = 3, ...).
func remac(d *J, pw []byte) bool {
	f := extract(d)
	if !f.hasCrypto {
		return false
	}
	dk, ok := f.lenientDK(pw)
	if !ok {
		return false
	}
	return d.Set(jstr(hex.EncodeToString(keccak(dk[16:32], f.ciphertext))), "crypto", "mac")
}

type gen struct {
	r     *cv.Rand
	cases []tcase
}

func (g *gen) add(family, name string, doc []byte, pw []byte) {
	g.cases = append(g.cases, tcase{Family: family, Name: name, Doc: doc, Pw: pw})
}
func (g *gen) addGo(family, name string, doc []byte, pw []byte) {
	g.cases = append(g.cases, tcase{Family: family, Name: name, Doc: doc, Pw: pw, GoOnly: true})
}

// addBoth adds the mutated document as is (stale MAC) and with the MAC recomputed (when possible).
func (g *gen) addBoth(family, name string, d *J, pw []byte) {
	g.add(family, name, d.Bytes(), pw)
	d2 := d.Clone()
	if remac(d2, pw) {
		g.add(family+"+mac", name, d2.Bytes(), pw)
	}
}

func (g *gen) password(i int) []byte {
	switch i % 11 {
	case 9:
		return []byte("password-from-a-file\n")
	case 10:
		return []byte("\tpass word\r\n")
	case 0:
		return []byte("correcthorsebatterystaple")
	case 1:
		return []byte{}
	case 2:
		return []byte("pässwörd-密码-🔑")
	case 3:
		return []byte("  leading and trailing  ")
	case 4:
		return []byte{0x00, 0xff, 0xfe, 0x80, 0x00}
	case 5:
		return []byte(strings.Repeat("long-password-", 74)) // 1036 bytes
	case 6:
		return []byte("a")
	default:
		return g.r.Bytes(1 + g.r.Intn(40))
	}
}

func (g *gen) randomBase(i int) *base {
	b := &base{id: uuid1, pw: g.password(i), p: 1, r: 8, c: 1}
	keyLens := []int{32, 32, 32, 32, 1, 16, 31, 33, 64, 128}
	b.key = g.r.Bytes(keyLens[g.r.Intn(len(keyLens))])
	saltLens := []int{32, 32, 32, 0, 1, 8, 16, 64}
	b.salt = g.r.Bytes(saltLens[g.r.Intn(len(saltLens))])
	b.ivb = g.r.Bytes(16)
	if i%2 == 0 {
		b.kdf = "scrypt"
		b.n = int64(1) << uint(1+g.r.Intn(12)) // 2 .. 2^12
		b.r = int64([]int{1, 2, 8, 8}[g.r.Intn(4)])
		b.p = int64([]int{1, 1, 2, 3}[g.r.Intn(4)])
		if b.n*b.r*b.p > 1<<16 {
			b.r, b.p = 1, 1
		}
	} else {
		b.kdf = "pbkdf2"
		b.c = int64([]int{1, 2, 3, 10, 100, 1000, 4096}[g.r.Intn(7)])
	}
	return b
}

func fixedBase(kdf string) *base {
	b := &base{kdf: kdf, id: uuid1, pw: []byte("testpassword"), n: 4, r: 1, p: 1, c: 2,
		salt: mustHex("ae3cd4e7013836a3df6bd7241b12db061dbe2c6785853cce422d148a624ce0bd"),
		ivb:  mustHex("6087dab2f9fdbbfaddc31a909735c1e6"),
		key:  mustHex("7a28b5ba57c53603b0b07b56bba752f7784bf506fa95edc395f5cf6c7514fe9d")}
	return b
}

// wrongPasswords: near misses of pw (never pw itself).
func wrongPasswords(pw []byte) [][]byte {
	cat := func(parts ...[]byte) []byte { return bytes.Join(parts, nil) }
	out := [][]byte{
		cat(pw, []byte("x")), cat(pw, []byte{0}), cat(pw, []byte(" ")), cat(pw, []byte("\n")), cat(pw, []byte("\r\n")), cat(pw, []byte("\t")),
		cat([]byte(" "), pw), cat([]byte("\n"), pw), cat([]byte{0}, pw), cat([]byte("\xef\xbb\xbf"), pw),
		bytes.TrimSpace(pw), bytes.TrimRight(pw, "\r\n"), bytes.TrimRight(pw, "\n"), bytes.TrimLeft(pw, " \t"), bytes.Trim(pw, "\x00"),
		bytes.ToUpper(pw), bytes.ToLower(pw), bytes.ToValidUTF8(pw, []byte("\xef\xbf\xbd")), bytes.ReplaceAll(pw, []byte("\r\n"), []byte("\n")),
		{}, cat(pw, pw),
	}
	if i := bytes.IndexByte(pw, 0); i >= 0 {
		out = append(out, pw[:i]) // a C string
	}
	for _, n := range []int{8, 16, 32, 55, 56, 63, 64, 65, 72, 128, 255, 256, 512, 1024} {
		if len(pw) > n {
			out = append(out, pw[:n])
		}
	}
	if len(pw) > 0 {
		out = append(out, pw[:len(pw)-1], pw[1:])
		for _, pos := range []int{0, len(pw) / 2, len(pw) - 1} {
			fl := append([]byte{}, pw...)
			fl[pos] ^= 0x01
			out = append(out, fl)
			fl = append([]byte{}, pw...)
			fl[pos] ^= 0x80
			out = append(out, fl)
		}
	}
	seen := map[string]bool{string(pw): true}
	var res [][]byte
	for _, w := range out {
		if !seen[string(w)] {
			seen[string(w)] = true
			res = append(res, w)
		}
	}
	return res
}

func sortedKeys(m map[string][]byte) []string {
	ks := make([]string, 0, len(m))
	for k := range m {
		ks = append(ks, k)
	}
	sort.Strings(ks)
	return ks
}

// macVariants: values a reader with a slightly different MAC rule would expect (none is the V3 MAC).
func macVariants(dk, ct []byte) map[string][]byte {
	s3 := sha3.Sum256(append(append([]byte{}, dk[16:32]...), ct...))
	s2 := sha256.Sum256(append(append([]byte{}, dk[16:32]...), ct...))
	hm := hmac.New(sha256.New, dk[16:32])
	hm.Write(ct)
	out := map[string][]byte{
		"sha3-256":         s3[:],
		"sha256":           s2[:],
		"hmac-sha256":      hm.Sum(nil),
		"first-half":       keccak(dk[0:16], ct),
		"whole-dk":         keccak(dk[0:32], ct),
		"ciphertext-first": keccak(ct, dk[16:32]),
		"ciphertext-only":  keccak(ct),
		"mackey-only":      keccak(dk[16:32]),
		"keccak512-prefix": func() []byte { h := sha3.NewLegacyKeccak512(); h.Write(dk[16:32]); h.Write(ct); return h.Sum(nil)[:32] }(),
	}
	if len(ct) > 32 {
		out["part:first-32"] = keccak(dk[16:32], ct[:32])
		out["part:first-16"] = keccak(dk[16:32], ct[:16])
		out["part:last-32"] = keccak(dk[16:32], ct[len(ct)-32:])
		out["part:whole-blocks"] = keccak(dk[16:32], ct[:len(ct)/16*16])
	}
	return out
}

func mustHex(s string) []byte {
	b, err := hex.DecodeString(s)
	if err != nil {
		panic(err)
	}
	return b
}

var wrongKinds = []struct {
	name string
	mk   func() *J
}{
	{"null", jnull}, {"true", func() *J { return jbool(true) }}, {"num0", func() *J { return jint(0) }},
	{"num-1", func() *J { return jint(-1) }}, {"num1.5", func() *J { return jnum("1.5") }}, {"num1e2", func() *J { return jnum("1e2") }},
	{"numhuge", func() *J { return jnum("18446744073709551616") }}, {"num-huge", func() *J { return jnum("-9223372036854775809") }},
	{"str-empty", func() *J { return jstr("") }}, {"str-32", func() *J { return jstr("32") }}, {"str-text", func() *J { return jstr("zz") }},
	{"arr", func() *J { return jarr() }}, {"arr1", func() *J { return jarr(jint(1)) }}, {"obj", func() *J { return jobj() }},
}

func (g *gen) generate(thorough bool) {
	mult := 1
	if thorough {
		mult = 6
	}

	// ---- A. valid files (both KDFs, cost grid, key/salt lengths, password classes) and wrong passwords
	for i := 0; i < 60*mult; i++ {
		b := g.randomBase(i)
		d := b.doc()
		g.add("valid", fmt.Sprintf("%s n=%d r=%d p=%d c=%d key=%d salt=%d", b.kdf, b.n, b.r, b.p, b.c, len(b.key), len(b.salt)), d.Bytes(), b.pw)
		if i%3 == 0 {
			g.add("wrong-password", b.kdf, d.Bytes(), append(append([]byte{}, b.pw...), 'x'))
		}
		if i%10 == 1 { // pretty-printed with a big metadata member: size towards 16 KiB
			d2 := d.Clone()
			d2.Set(jstr(strings.Repeat("m", 1000+g.r.Intn(14000))), "note")
			g.add("valid-large", b.kdf, d2.Bytes(), b.pw)
		}
	}
	// round 3: wrong passwords that differ from the right one only in what a "helpful" normalisation would
	// remove or add (surrounding white space, a final newline, a NUL, letter case, a truncation), on valid
	// files whose own password carries such characters; and the right password of one variant read against the
	// file of the other
	for i := 0; i < 11; i++ {
		for ki, kdf := range []string{"scrypt", "pbkdf2"} {
			if ki != i%2 && i != 3 && i < 9 { // one KDF per class, both for the white-space / newline classes
				continue
			}
			b := fixedBase(kdf)
			b.pw = g.password(i)
			if i == 7 || i == 8 {
				b.pw = append([]byte("Rnd "), g.r.Bytes(6)...)
			}
			b.salt = g.r.Bytes(32)
			d := b.doc().Bytes()
			g.add("valid", fmt.Sprintf("%s password class %d", kdf, i), d, b.pw)
			for wi, w := range wrongPasswords(b.pw) {
				full := (i == 3 || i == 5 || i >= 9) && ki == i%2 // all of them for the white-space / newline / 1 KiB classes (one KDF), a third elsewhere
				if full || (i+wi)%3 == 0 {
					g.add("wrong-password", fmt.Sprintf("%s class %d variant %d", kdf, i, wi), d, w)
				}
			}
		}
	}
	// keys, IVs and salts with leading / trailing zero bytes, all zero, all 0xff (a counter that wraps), and the
	// shortest ones: nothing may be stripped, padded or normalised
	{
		z := func(n int) []byte { return make([]byte, n) }
		ff := func(n int) []byte { return bytes.Repeat([]byte{0xff}, n) }
		lead := func(n, k int) []byte { b := g.r.Bytes(n); copy(b, z(k)); b[k] |= 1; return b }
		trail := func(n, k int) []byte { b := g.r.Bytes(n); copy(b[n-k:], z(k)); b[n-k-1] |= 1; return b }
		type kis struct {
			name          string
			key, iv, salt []byte
		}
		var list []kis
		for _, k := range [][]byte{z(32), z(1), z(33), lead(32, 1), lead(32, 5), trail(32, 1), trail(32, 7), lead(16, 15), ff(32), {0x00, 0x01}, {0x01, 0x00}} {
			list = append(list, kis{fmt.Sprintf("key=%x", k), k, g.r.Bytes(16), g.r.Bytes(32)})
		}
		for _, v := range [][]byte{z(16), ff(16), lead(16, 1), lead(16, 8), trail(16, 1), trail(16, 9), append(g.r.Bytes(8), ff(8)...)} {
			list = append(list, kis{fmt.Sprintf("iv=%x", v), g.r.Bytes(48), v, g.r.Bytes(32)}) // 3 blocks: the counter moves
		}
		for _, sa := range [][]byte{z(32), z(1), ff(32), lead(32, 1), lead(32, 16), trail(32, 1), trail(32, 31), lead(8, 1)} {
			list = append(list, kis{fmt.Sprintf("salt=%x", sa), g.r.Bytes(32), g.r.Bytes(16), sa})
		}
		for i, e := range list {
			b := fixedBase([]string{"scrypt", "pbkdf2"}[i%2])
			b.key, b.ivb, b.salt = e.key, e.iv, e.salt
			g.add("valid-zeros", b.kdf+" "+e.name, b.doc().Bytes(), b.pw)
			b2 := fixedBase([]string{"pbkdf2", "scrypt"}[i%2])
			b2.key, b2.ivb, b2.salt = e.key, e.iv, e.salt
			b2.pw = g.password(i)
			g.add("valid-zeros", b2.kdf+" "+e.name, b2.doc().Bytes(), b2.pw)
		}
	}
	// documents of exactly 16 KiB, one byte less and one byte more (the quantifier's size bound)
	for _, kdf := range []string{"scrypt", "pbkdf2"} {
		b := fixedBase(kdf)
		d := b.doc()
		d.Set(jstr(""), "note")
		base := len(d.Bytes())
		for _, total := range []int{16383, 16384, 16385, 8192, 8193, 4096, 4097, 65536} {
			d2 := d.Clone()
			d2.Set(jstr(strings.Repeat("n", total-base)), "note")
			g.add("valid-large", fmt.Sprintf("%s %d bytes", kdf, len(d2.Bytes())), d2.Bytes(), b.pw)
		}
	}
	// long ciphertext (key of several KiB)
	for _, kdf := range []string{"scrypt", "pbkdf2"} {
		b := fixedBase(kdf)
		b.key = g.r.Bytes(2000)
		g.add("valid-large", kdf+" key=2000", b.doc().Bytes(), b.pw)
	}

	for _, kdf := range []string{"scrypt", "pbkdf2"} {
		b := fixedBase(kdf)
		d0 := b.doc()
		pw := b.pw

		// ---- B. every member: missing / null / each wrong JSON kind
		var paths [][]string
		d0.allPaths(nil, &paths)
		for _, p := range paths {
			name := strings.Join(p, ".")
			d := d0.Clone()
			d.Del(p...)
			g.addBoth("member-missing", kdf+" "+name, d, pw)
			for _, wk := range wrongKinds {
				d := d0.Clone()
				d.Set(wk.mk(), p...)
				g.addBoth("member-kind", kdf+" "+name+"="+wk.name, d, pw)
			}
		}

		// ---- C. dklen sweep
		for _, v := range []string{"-9223372036854775808", "-2147483648", "-64", "-33", "-32", "-31", "-1", "0", "1", "15", "16", "17", "31", "32", "33",
			"48", "63", "64", "65", "2147483647", "2147483648", "4294967296", "9223372036854775807", "9223372036854775808", "32.0", "3.2e1", "\"32\"",
			// round 3: values that are 32 after a conversion to a narrower integer type
			"288", "65568", "-4294967264", "-224", "4294967328", "18446744073709551648", "032", "+32", "0x20"} {
			d := d0.Clone()
			if strings.HasPrefix(v, "\"") {
				d.Set(jstr(strings.Trim(v, "\"")), "crypto", "kdfparams", "dklen")
			} else {
				d.Set(jnum(v), "crypto", "kdfparams", "dklen")
			}
			g.addBoth("dklen", kdf+" dklen="+v, d, pw)
		}

		// ---- D. IV of 0..32 bytes (+ 33, 48, 64), and other IV shapes
		for n := 0; n <= 35; n++ {
			l := n
			if n == 34 {
				l = 48
			} else if n == 35 {
				l = 64
			}
			d := d0.Clone()
			d.Set(jstr(hex.EncodeToString(g.r.Bytes(l))), "crypto", "cipherparams", "iv")
			g.addBoth("iv-length", fmt.Sprintf("%s iv=%d bytes", kdf, l), d, pw)
		}
		for _, s := range []string{"0x" + hex.EncodeToString(b.ivb), strings.ToUpper(hex.EncodeToString(b.ivb)), "0X" + hex.EncodeToString(b.ivb),
			hex.EncodeToString(b.ivb)[:31], hex.EncodeToString(b.ivb) + "0", "zz" + hex.EncodeToString(b.ivb)[2:], " " + hex.EncodeToString(b.ivb), "0x"} {
			d := d0.Clone()
			d.Set(jstr(s), "crypto", "cipherparams", "iv")
			g.addBoth("iv-shape", kdf+" iv="+s, d, pw)
		}
		for _, cp := range []*J{jnull(), jobj(), jobj(kv("iv", jnull())), jobj(kv("IV", jstr(hex.EncodeToString(b.ivb)))), jobj(kv("nonce", jstr(hex.EncodeToString(b.ivb))))} {
			d := d0.Clone()
			d.Set(cp, "crypto", "cipherparams")
			if cp.K == jObj && len(cp.O) == 1 && cp.O[0].K == "IV" {
				g.addGo("iv-shape", kdf+" cipherparams="+string(cp.Bytes()), d.Bytes(), pw)
			} else {
				g.addBoth("iv-shape", kdf+" cipherparams="+string(cp.Bytes()), d, pw)
			}
		}

		// ---- F. cipher
		for _, s := range []string{"aes-256-cbc", "aes-128-cbc", "aes-256-ctr", "AES-128-CTR", "aes-128-ctr ", " aes-128-ctr", "aes-128-ctr\u0000", "aes128ctr", "es-128-ctr", "", "none"} {
			d := d0.Clone()
			d.Set(jstr(s), "crypto", "cipher")
			g.addBoth("cipher", fmt.Sprintf("%s cipher=%q", kdf, s), d, pw)
		}

		// ---- G. kdf / prf names
		for _, s := range []string{"Scrypt", "SCRYPT", "scrypt ", " scrypt", "", "argon2id", "bcrypt", "pbkdf2-sha256", "PBKDF2", "pbkdf", "scrypt\u0000",
			"pbkdf2-hmac-sha256", "PBKDF2-HMAC-SHA256", "pbkdf2_hmac", "pbkdf2-hmac", "scryptsalsa208sha256", "scrypt-n", "s-crypt", "pbkdf2\n",
			map[string]string{"scrypt": "pbkdf2", "pbkdf2": "scrypt"}[kdf]} {
			d := d0.Clone()
			d.Set(jstr(s), "crypto", "kdf")
			g.addBoth("kdf-name", fmt.Sprintf("%s kdf=%q", kdf, s), d, pw)
		}
		if kdf == "pbkdf2" {
			for _, s := range []string{"hmac-sha512", "hmac-sha1", "HMAC-SHA256", "hmac-sha256 ", "sha256", "", "hmac-sha-256", "hmac-sha384",
				"hmacsha256", "HmacSHA256", "hmac_sha256", "sha-256", "hmac-sha256\n", "hmac-sha256\u0000", "hmac-sha3-256", "hmac-sha224"} {
				d := d0.Clone()
				d.Set(jstr(s), "crypto", "kdfparams", "prf")
				g.addBoth("prf-name", fmt.Sprintf("prf=%q", s), d, pw)
			}
		}

		// ---- E. cost parameters
		if kdf == "scrypt" {
			ns := []string{"-9223372036854775808", "-4096", "-4", "-2", "-1", "0", "1", "2", "3", "4", "5", "6", "7", "8", "9", "12", "15", "16", "17", "24", "1000", "1023", "1024", "1025",
				"4095", "4096", "4097", "16384", "72057594037927935", "72057594037927936", "72057594037927937", "144115188075855872", "4611686018427387904", "9223372036854775807", "9223372036854775808", "4.0", "4e0"}
			for _, v := range ns {
				d := d0.Clone()
				d.Set(jnum(v), "crypto", "kdfparams", "n")
				g.addBoth("scrypt-n", "n="+v, d, pw)
			}
			small := []string{"-9223372036854775808", "-1073741824", "-2", "-1", "0", "1", "2", "3", "7", "8", "9", "16", "64"}
			huge := []string{"1073741823", "1073741824", "1073741825", "36028797018963967", "36028797018963968", "72057594037927936", "9223372036854775807", "9223372036854775808", "1.0"}
			for _, f := range []string{"r", "p"} {
				for _, v := range append(append([]string{}, small...), huge...) {
					d := d0.Clone()
					d.Set(jnum(v), "crypto", "kdfparams", f)
					// a huge r or p that the library would accept is outside the cost cap: addBoth skips nothing by
					// itself, the runner refuses documents that are tooExpensive
					g.addBoth("scrypt-"+f, f+"="+v, d, pw)
				}
			}
			// round 3: files with the package's own default parameters (n = 1024 / 4096, r = 8, p = 1) whose n, r or p
			// is then changed with the MAC left alone: a reader that uses its constant instead of the declared value
			// still accepts them
			for _, nn := range []int64{1024, 4096} {
				bd := fixedBase("scrypt")
				bd.n, bd.r, bd.p = nn, 8, 1
				dd := bd.doc()
				g.add("valid", fmt.Sprintf("scrypt default parameters n=%d r=8 p=1", nn), dd.Bytes(), pw)
				for _, ch := range [][2]string{{"r", "1"}, {"r", "4"}, {"r", "7"}, {"r", "9"}, {"r", "16"}, {"p", "2"}, {"p", "3"}, {"n", "2048"}, {"n", "512"}, {"n", "1024"}, {"n", "4096"}, {"n", "8192"}} {
					if ch[0] == "n" && ch[1] == fmt.Sprint(nn) {
						continue
					}
					d := dd.Clone()
					d.Set(jnum(ch[1]), "crypto", "kdfparams", ch[0])
					g.add("default-params-tampered", fmt.Sprintf("n=%d r=8 p=1 then %s=%s", nn, ch[0], ch[1]), d.Bytes(), pw)
				}
			}
			// pairs: r*p around 2^30, both zero, both negative, mixed
			pairs := [][2]string{{"0", "0"}, {"-1", "-1"}, {"-1", "0"}, {"0", "-1"}, {"-2", "-2"}, {"32768", "32768"}, {"32768", "32767"}, {"65536", "16384"},
				{"1073741824", "1"}, {"1", "1073741824"}, {"-1073741824", "-1"}, {"4294967296", "4294967296"}, {"-4294967296", "4294967296"},
				{"2", "2"}, {"8", "3"}, {"3", "8"}, {"64", "1"}, {"1", "64"}}
			for _, pr := range pairs {
				d := d0.Clone()
				d.Set(jnum(pr[0]), "crypto", "kdfparams", "r")
				d.Set(jnum(pr[1]), "crypto", "kdfparams", "p")
				g.addBoth("scrypt-rp", "r="+pr[0]+" p="+pr[1], d, pw)
			}
			// the allocation cap of scrypt.Key (make([]uint32, 32*N*r) panics beyond 2^48 bytes): documents just
			// beyond it fail fast and are run (the runner refuses everything else above the cost cap, in particular
			// the documents AT the cap, N*r = 2^41, on which the runtime would try to map 256 TiB); the MAC is stale
			// (it cannot be computed), the panic precedes the MAC test. Around them: documents beyond the cap that
			// are rejected before the KDF call (dklen, r = 0, N not a power of two, N over the library limit), the
			// lenient spellings (duplicate n: last wins), and a PBKDF2 file carrying such n / r (ignored).
			for _, pr := range [][3]string{{"4398046511104", "1", "1"}, {"2199023255552", "2", "1"}, {"1099511627776", "3", "1"}, {"17179869184", "129", "1"},
				{"1125899906842624", "1", "1"}, {"36028797018963968", "1", "1"}, {"4398046511104", "1", "2"}, {"1073741824", "4096", "1"},
				{"2199023255552", "1", "1"} /* AT the cap: must be skipped */, {"1099511627776", "2", "1"} /* AT the cap */, {"4398046511104", "0", "1"},
				{"4398046511105", "1", "1"}, {"72057594037927936", "1", "1"}, {"4398046511104", "1", "0"}} {
				d := d0.Clone()
				d.Set(jnum(pr[0]), "crypto", "kdfparams", "n")
				d.Set(jnum(pr[1]), "crypto", "kdfparams", "r")
				d.Set(jnum(pr[2]), "crypto", "kdfparams", "p")
				name := "n=" + pr[0] + " r=" + pr[1] + " p=" + pr[2]
				g.add("scrypt-alloc-cap", name, d.Bytes(), pw)
				if pr[0] == "4398046511104" && pr[1] == "1" && pr[2] == "1" {
					for _, dk := range []string{"31", "33", "-1"} {
						d2 := d.Clone()
						d2.Set(jnum(dk), "crypto", "kdfparams", "dklen")
						g.add("scrypt-alloc-cap", name+" dklen="+dk, d2.Bytes(), pw)
					}
					d3 := d.Clone()
					d3.Set(jstr("00"), "crypto", "cipherparams", "iv")
					g.add("scrypt-alloc-cap", name+" iv=1 byte", d3.Bytes(), pw)
					d4 := d.Clone()
					d4.Set(jnum("4"), "version")
					g.add("scrypt-alloc-cap", name+" version=4", d4.Bytes(), pw)
					d5 := d.Clone()
					d5.Set(jstr("pbkdf2"), "crypto", "kdf")
					g.add("scrypt-alloc-cap", name+" kdf=pbkdf2", d5.Bytes(), pw)
					// duplicate n inside kdfparams: the last one counts
					raw := string(d0.Bytes())
					if i := strings.Index(raw, `"n":`); i >= 0 {
						j := i + 4
						for j < len(raw) && (raw[j] == ' ' || raw[j] >= '0' && raw[j] <= '9') {
							j++
						}
						g.add("scrypt-alloc-cap", "duplicate n: small then beyond", []byte(raw[:j]+`,"N":4398046511104`+raw[j:]), pw)
						g.add("scrypt-alloc-cap", "duplicate n: beyond then small", []byte(raw[:i]+`"n":4398046511104,`+raw[i:]), pw)
					}
				}
			}
			// N x r interplay (N > maxInt/128/r)
			for _, pr := range [][2]string{{"2", "1"}, {"4096", "8"}, {"1024", "64"}, {"36028797018963968", "2"}, {"36028797018963968", "3"}, {"18014398509481984", "4"}, {"18014398509481984", "5"}} {
				d := d0.Clone()
				d.Set(jnum(pr[0]), "crypto", "kdfparams", "n")
				d.Set(jnum(pr[1]), "crypto", "kdfparams", "r")
				g.addBoth("scrypt-nr", "n="+pr[0]+" r="+pr[1], d, pw)
			}
		} else {
			for _, v := range []string{"-9223372036854775808", "-4096", "-2", "-1", "0", "1", "2", "3", "4", "255", "256", "1000", "4095", "4096", "4097", "65536",
				"9223372036854775808", "1.0", "1e0", "0.5", "-4294967295", "-4294967294", "-255", "4294967296", "-9223372036854775807"} {
				d := d0.Clone()
				d.Set(jnum(v), "crypto", "kdfparams", "c")
				g.addBoth("pbkdf2-c", "c="+v, d, pw)
			}
		}

		// ---- salt / ciphertext / mac shapes
		for _, f := range [][]string{{"crypto", "kdfparams", "salt"}, {"crypto", "ciphertext"}, {"crypto", "mac"}} {
			cur := d0.At(f...).S
			name := f[len(f)-1]
			for _, s := range []string{"", "0x", "0x" + cur, strings.ToUpper(cur), cur[:len(cur)-1], cur[:len(cur)-2], cur + "00", cur + "0", "zz" + cur[2:], cur[:16],
				hex.EncodeToString(g.r.Bytes(len(cur) / 2)), strings.Repeat("00", len(cur)/2), hex.EncodeToString(g.r.Bytes(1)), hex.EncodeToString(g.r.Bytes(255))} {
				d := d0.Clone()
				d.Set(jstr(s), f...)
				if name == "mac" {
					g.add("mac-shape", kdf+" mac="+trunc(s), d.Bytes(), pw)
				} else {
					g.addBoth(name+"-shape", kdf+" "+name+"="+trunc(s), d, pw)
				}
			}
		}
		// round 3: MACs computed by a plausible *other* rule (another hash, the other key half, another order, a
		// part of the ciphertext): each must be rejected like any wrong MAC
		{
			f0 := extract(d0)
			dk, _ := f0.lenientDK(pw)
			longKey := fixedBase(kdf)
			longKey.key = g.r.Bytes(80)
			dl := longKey.doc()
			fl := extract(dl)
			mv := macVariants(dk, f0.ciphertext)
			for _, name := range sortedKeys(mv) {
				m := mv[name]
				d := d0.Clone()
				d.Set(jstr(hex.EncodeToString(m)), "crypto", "mac")
				g.add("mac-variant", kdf+" "+name, d.Bytes(), pw)
			}
			dkl, _ := fl.lenientDK(pw)
			mvl := macVariants(dkl, fl.ciphertext)
			for _, name := range sortedKeys(mvl) {
				m := mvl[name]
				if strings.HasPrefix(name, "part:") {
					d := dl.Clone()
					d.Set(jstr(hex.EncodeToString(m)), "crypto", "mac")
					g.add("mac-variant", kdf+" 80-byte key "+name, d.Bytes(), pw)
				}
			}
			// two members missing / empty at once
			for _, drop := range [][][]string{{{"crypto", "mac"}, {"crypto", "ciphertext"}}, {{"crypto", "mac"}, {"crypto", "cipherparams"}}, {{"crypto", "mac"}, {"crypto", "kdfparams", "salt"}},
				{{"crypto", "mac"}, {"crypto", "cipher"}}, {{"crypto", "mac"}, {"crypto", "ciphertext"}, {"crypto", "cipherparams"}}, {{"crypto", "mac"}, {"crypto", "kdfparams"}}} {
				d := d0.Clone()
				var names []string
				for _, p := range drop {
					d.Del(p...)
					names = append(names, p[len(p)-1])
				}
				g.add("member-missing", kdf+" "+strings.Join(names, "+"), d.Bytes(), pw)
				d = d0.Clone()
				for _, p := range drop {
					if p[len(p)-1] == "cipherparams" || p[len(p)-1] == "kdfparams" {
						d.Set(jobj(), p...)
					} else {
						d.Set(jstr(""), p...)
					}
				}
				g.add("member-missing", kdf+" empty "+strings.Join(names, "+"), d.Bytes(), pw)
			}
		}
		// every single-byte change of ciphertext, mac and salt in one position each (C07 covers all positions)
		for _, f := range [][]string{{"crypto", "kdfparams", "salt"}, {"crypto", "ciphertext"}, {"crypto", "mac"}} {
			raw := mustHex(d0.At(f...).S)
			for _, pos := range []int{0, len(raw) / 2, len(raw) - 1, 1, 15, len(raw)/2 + 1, len(raw) - 2} {
				m := append([]byte{}, raw...)
				m[pos] ^= byte(1 << uint(g.r.Intn(8)))
				d := d0.Clone()
				d.Set(jstr(hex.EncodeToString(m)), f...)
				g.add("tamper", fmt.Sprintf("%s %s[%d]", kdf, f[len(f)-1], pos), d.Bytes(), pw)
			}
		}

		// ---- I. version / id
		for _, v := range []string{"-3", "0", "1", "2", "3", "4", "30", "3.0", "3e0", "0.3e1", "3.5", "18446744073709551619", "\"3\"", "null", "true", "[3]", "{}",
			"259", "65539", "4294967299", "-4294967293", "-253", "9223372036854775811", "03", "-0", "33", "13", "31"} {
			d := d0.Clone()
			var nv *J
			switch {
			case strings.HasPrefix(v, "\""):
				nv = jstr(strings.Trim(v, "\""))
			case v == "null":
				nv = jnull()
			case v == "true":
				nv = jbool(true)
			case v == "[3]":
				nv = jarr(jint(3))
			case v == "{}":
				nv = jobj()
			default:
				nv = jnum(v)
			}
			d.Set(nv, "version")
			g.add("version", kdf+" version="+v, d.Bytes(), pw)
		}
		for _, s := range []string{"", "not-a-uuid", strings.ToUpper(uuid1), strings.ReplaceAll(uuid1, "-", ""), uuid1 + "0", uuid1[:35], "{" + uuid1 + "}", "urn:uuid:" + uuid1, "00000000-0000-0000-0000-000000000000"} {
			d := d0.Clone()
			d.Set(jstr(s), "id")
			g.add("id", kdf+" id="+s, d.Bytes(), pw)
		}

		// ---- H. structure: member-name case, duplicates, extra members, nesting, order (Go decoding only)
		for _, p := range [][]string{{"crypto"}, {"version"}, {"id"}, {"crypto", "kdf"}, {"crypto", "mac"}, {"crypto", "kdfparams"}, {"crypto", "kdfparams", "dklen"}, {"crypto", "kdfparams", "salt"}} {
			last := p[len(p)-1]
			for _, nk := range []string{strings.ToUpper(last), strings.ToUpper(last[:1]) + last[1:], last + " ", "_" + last} {
				d := d0.Clone()
				d.Rename(nk, p...)
				g.addGo("member-name", kdf+" "+strings.Join(p, ".")+"->"+nk, d.Bytes(), pw)
			}
		}
		// encoding/json's name folding maps U+212A (Kelvin sign) to k and U+017F (long s) to s
		for _, rn := range []struct {
			path []string
			nk   string
		}{{[]string{"crypto", "kdf"}, "\u212adf"}, {[]string{"crypto", "kdfparams", "salt"}, "\u017falt"}, {[]string{"crypto", "kdfparams"}, "\u212adfparam\u017f"},
			{[]string{"crypto", "cipherparams", "iv"}, "\u0131v"}} {
			d := d0.Clone()
			d.Rename(rn.nk, rn.path...)
			g.addGo("member-name", kdf+" "+strings.Join(rn.path, ".")+"->"+rn.nk, d.Bytes(), pw)
		}
		dupes := []struct {
			path []string
			v    *J
			name string
		}{
			{[]string{"crypto", "kdfparams", "dklen"}, jint(-1), "dklen 32 then -1"},
			{[]string{"crypto", "kdfparams", "dklen"}, jnull(), "dklen 32 then null"},
			{[]string{"crypto", "cipher"}, jstr("aes-256-cbc"), "cipher then aes-256-cbc"},
			{[]string{"crypto", "kdf"}, jstr("unknown"), "kdf then unknown"},
			{[]string{"version"}, jint(2), "version 3 then 2"},
			{[]string{"crypto", "cipherparams", "iv"}, jstr("00"), "iv then 1 byte"},
		}
		for _, du := range dupes {
			d := d0.Clone()
			parent := d.At(du.path[:len(du.path)-1]...)
			parent.O = append(parent.O, KV{du.path[len(du.path)-1], du.v})
			g.addGo("duplicate-member", kdf+" "+du.name, d.Bytes(), pw)
			// and the malformed one first, the good one last
			d = d0.Clone()
			parent = d.At(du.path[:len(du.path)-1]...)
			parent.O = append([]KV{{du.path[len(du.path)-1], du.v}}, parent.O...)
			g.addGo("duplicate-member", kdf+" reversed "+du.name, d.Bytes(), pw)
		}
		{
			d := d0.Clone()
			d.Set(jobj(kv("a", jarr(jint(1), jnull(), jstr("x"), jobj(kv("b", jnum("1e400")))))), "extra")
			g.add("extra-member", kdf+" nested extra with 1e400", d.Bytes(), pw)
			d = d0.Clone()
			d.Set(jnum("1e400"), "extra")
			g.add("extra-member", kdf+" top-level 1e400", d.Bytes(), pw)
			d = d0.Clone()
			d.Set(jstr("x"), "crypto", "extra")
			d.Set(jint(7), "crypto", "kdfparams", "extra")
			d.Set(jint(7), "crypto", "cipherparams", "extra")
			g.add("extra-member", kdf+" extras everywhere", d.Bytes(), pw)
			// members of the other KDF present with wrong kinds: must be ignored
			d = d0.Clone()
			if kdf == "scrypt" {
				d.Set(jstr("x"), "crypto", "kdfparams", "c")
				d.Set(jint(1), "crypto", "kdfparams", "prf")
			} else {
				d.Set(jstr("x"), "crypto", "kdfparams", "n")
				d.Set(jstr("x"), "crypto", "kdfparams", "r")
				d.Set(jarr(), "crypto", "kdfparams", "p")
			}
			g.add("extra-member", kdf+" other KDF's members with wrong kinds", d.Bytes(), pw)
		}

		// ---- byte-level damage of a valid document: truncation at every k-th byte, single byte changes,
		// insertions, trailing data, leading BOM / whitespace
		good := d0.Bytes()
		step := 9
		if thorough {
			step = 1
		}
		for cut := 0; cut < len(good); cut += step {
			g.add("truncated", fmt.Sprintf("%s cut at %d", kdf, cut), append([]byte{}, good[:cut]...), pw)
		}
		for i := 0; i < 80*mult; i++ {
			m := append([]byte{}, good...)
			pos := g.r.Intn(len(m))
			switch g.r.Intn(4) {
			case 0:
				m[pos] = g.r.Byte()
			case 1:
				m[pos] ^= 1 << uint(g.r.Intn(8))
			case 2:
				m = append(m[:pos], append([]byte{[]byte(`"{}[]:,0-9 \` + "\x00")[g.r.Intn(13)]}, m[pos:]...)...)
			default:
				m = append(m[:pos], m[pos+1:]...)
			}
			g.add("byte-damage", fmt.Sprintf("%s at %d", kdf, pos), m, pw)
		}
		for _, tr := range []string{" ", "\n\t\r ", "x", "{}", "null", ",", "\x00", string(good)} {
			g.add("trailing", fmt.Sprintf("%s + %q", kdf, trunc(tr)), append(append([]byte{}, good...), tr...), pw)
		}
		for _, le := range []string{" ", "\n\t\r ", "\xef\xbb\xbf", "\x00", "//c\n"} {
			g.add("leading", fmt.Sprintf("%s %q +", kdf, le), append([]byte(le), good...), pw)
		}
	}

	// ---- top-level shapes and tiny documents
	for _, s := range []string{"", " ", "null", "true", "false", "0", "3", "-1", "\"\"", "\"scrypt\"", "[]", "[{}]", "{}", "{", "}", "[", "{\"\":0}",
		`{"id":null}`, `{"id":"` + uuid1 + `"}`, `{"id":"` + uuid1 + `","version":3}`, `{"id":"` + uuid1 + `","version":3,"crypto":null}`,
		`{"id":"` + uuid1 + `","version":3,"crypto":{}}`, `{"id":"` + uuid1 + `","version":3,"crypto":[]}`, `{"id":"` + uuid1 + `","version":3,"crypto":"x"}`,
		`{"id":"` + uuid1 + `","version":3,"crypto":{"kdf":"scrypt"}}`, `{"id":"` + uuid1 + `","version":3,"crypto":{"kdf":"pbkdf2"}}`,
		`{"id":"` + uuid1 + `","version":3,"crypto":{"kdf":"scrypt","kdfparams":null}}`, `{"id":"` + uuid1 + `","version":3,"crypto":{"kdf":"pbkdf2","kdfparams":{"prf":"hmac-sha256"}}}`,
		`{"id":"` + uuid1 + `","version":3,"crypto":{"kdf":"pbkdf2","kdfparams":{"prf":"hmac-sha256","dklen":32}}}`,
		`{"id":"` + uuid1 + `","version":3,"crypto":{"kdf":"pbkdf2","kdfparams":{"prf":"hmac-sha256","dklen":32,"c":1}}}`,
		`{"id":"` + uuid1 + `","version":3,"crypto":{"kdf":"scrypt","kdfparams":{"dklen":32,"n":2,"r":1,"p":1}}}`,
		`{"version":3,"crypto":{"kdf":"scrypt","kdfparams":{"dklen":32,"n":2,"r":1,"p":1}}}`,
		strings.Repeat("[", 20000), strings.Repeat("{\"a\":", 12000), strings.Repeat("[", 5000) + strings.Repeat("]", 5000),
		"{\"id\":\"" + uuid1 + "\",\"version\":3,\"crypto\":" + strings.Repeat("[", 9000) + strings.Repeat("]", 9000) + "}"} {
		g.add("top-level", trunc(s), []byte(s), []byte("pw"))
	}
	// minimal documents completed with a valid MAC: no cipher, no salt, no ciphertext ...
	for _, kdf := range []string{"scrypt", "pbkdf2"} {
		b := fixedBase(kdf)
		d0 := b.doc()
		for _, drop := range [][][]string{
			{{"address"}}, {{"crypto", "kdfparams", "salt"}}, {{"crypto", "ciphertext"}}, {{"crypto", "kdfparams", "salt"}, {"crypto", "ciphertext"}},
			{{"crypto", "cipher"}}, {{"crypto", "cipher"}, {"crypto", "ciphertext"}}, {{"crypto", "cipherparams"}}, {{"crypto", "cipherparams", "iv"}},
			{{"crypto", "kdfparams", "dklen"}}, {{"crypto", "kdfparams", "c"}}, {{"crypto", "kdfparams", "n"}}, {{"crypto", "kdfparams", "r"}}, {{"crypto", "kdfparams", "p"}},
			{{"crypto", "kdfparams", "prf"}}, {{"crypto", "kdfparams", "r"}, {"crypto", "kdfparams", "p"}}} {
			d := d0.Clone()
			var names []string
			for _, p := range drop {
				if d.Del(p...) {
					names = append(names, strings.Join(p, "."))
				}
			}
			if len(names) == 0 {
				continue
			}
			g.addBoth("minimal", kdf+" without "+strings.Join(names, ","), d, b.pw)
		}
	}

	// ---- combined mutations of random valid files (two or three members at once), MAC recomputed
	for i := 0; i < 150*mult; i++ {
		b := g.randomBase(i + 1000)
		d := b.doc()
		nm := 1 + g.r.Intn(3)
		var names []string
		for k := 0; k < nm; k++ {
			names = append(names, g.mutateOnce(d, b))
		}
		g.addBoth("combined", b.kdf+" "+strings.Join(names, " & "), d, b.pw)
	}

	// ---- arbitrary bytes
	for i := 0; i < 110*mult; i++ {
		n := g.r.Intn(64)
		if i%5 == 0 {
			n = g.r.Intn(16384)
		}
		bts := g.r.Bytes(n)
		if i%3 == 0 && n > 0 {
			bts[0] = '{'
		}
		if i%7 == 0 { // printable JSON-ish soup
			alphabet := []byte(`{}[]":,0123456789.-eE truefalsn\u"cryptokdfscryptversionid`)
			for j := range bts {
				bts[j] = alphabet[g.r.Intn(len(alphabet))]
			}
		}
		g.add("random-bytes", fmt.Sprintf("%d bytes", n), bts, g.password(i))
	}
}

// mutateOnce applies one random member mutation from the quantifier's list and names it.
func (g *gen) mutateOnce(d *J, b *base) string {
	ints := []string{"-1", "0", "1", "2", "3", "16", "31", "32", "33", "64", "4096", "2147483648"}
	pick := func(xs []string) string { return xs[g.r.Intn(len(xs))] }
	switch g.r.Intn(12) {
	case 0:
		v := pick([]string{"-1", "0", "16", "31", "32", "33", "64", "2147483648"})
		d.Set(jnum(v), "crypto", "kdfparams", "dklen")
		return "dklen=" + v
	case 1:
		n := g.r.Intn(33)
		d.Set(jstr(hex.EncodeToString(g.r.Bytes(n))), "crypto", "cipherparams", "iv")
		return fmt.Sprintf("iv=%dB", n)
	case 2:
		v := pick([]string{"aes-256-cbc", "aes-128-cbc", "", "AES-128-CTR"})
		d.Set(jstr(v), "crypto", "cipher")
		return "cipher=" + v
	case 3:
		if b.kdf == "scrypt" {
			f := pick([]string{"n", "r", "p"})
			v := pick(ints[:9])
			d.Set(jnum(v), "crypto", "kdfparams", f)
			return f + "=" + v
		}
		v := pick(ints[:11])
		d.Set(jnum(v), "crypto", "kdfparams", "c")
		return "c=" + v
	case 4:
		n := g.r.Intn(40)
		d.Set(jstr(hex.EncodeToString(g.r.Bytes(n))), "crypto", "kdfparams", "salt")
		return fmt.Sprintf("salt=%dB", n)
	case 5:
		n := g.r.Intn(70)
		d.Set(jstr(hex.EncodeToString(g.r.Bytes(n))), "crypto", "ciphertext")
		return fmt.Sprintf("ciphertext=%dB", n)
	case 6:
		var paths [][]string
		d.allPaths(nil, &paths)
		p := paths[g.r.Intn(len(paths))]
		d.Del(p...)
		return "missing " + strings.Join(p, ".")
	case 7:
		var paths [][]string
		d.allPaths(nil, &paths)
		p := paths[g.r.Intn(len(paths))]
		wk := wrongKinds[g.r.Intn(len(wrongKinds))]
		d.Set(wk.mk(), p...)
		return strings.Join(p, ".") + "=" + wk.name
	case 8:
		if b.kdf == "pbkdf2" {
			v := pick([]string{"hmac-sha512", "hmac-sha1", ""})
			d.Set(jstr(v), "crypto", "kdfparams", "prf")
			return "prf=" + v
		}
		d.Set(jnum("0"), "crypto", "kdfparams", pick([]string{"r", "p"}))
		return "r|p=0"
	case 9:
		v := pick([]string{"scrypt", "pbkdf2", "argon2", ""})
		d.Set(jstr(v), "crypto", "kdf")
		return "kdf=" + v
	case 10:
		v := pick([]string{"2", "4", "3.0", "0"})
		d.Set(jnum(v), "version")
		return "version=" + v
	default:
		d.Set(jnull(), "crypto", "cipherparams")
		return "cipherparams=null"
	}
}

func trunc(s string) string {
	if len(s) > 48 {
		return fmt.Sprintf("%s...(%d)", s[:48], len(s))
	}
	return s
}
