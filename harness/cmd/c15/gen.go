package main

// Generator of property C15's input space: valid scrypt / PBKDF2 key files written by the harness's own
// V3 writer (direct library calls), every single-member mutation of them (missing / null / wrong JSON
// kind / negative / zero / huge), the parameter sweeps the quantifier lists, with the MAC recomputed so
// that it stays valid wherever a derived key exists, plus byte-level damage and arbitrary bytes.

import (
	"encoding/hex"
	"fmt"
	"strings"

	"verifharness/cv"
)

type tcase struct {
	Family string
	Name   string
	Doc    []byte
	Pw     []byte
	GoOnly bool // JSON shapes the Coq model does not claim (duplicate members, case variants of member names)
}

type base struct {
	kdf        string
	n, r, p, c int64
	salt, ivb  []byte
	key, pw    []byte
	id         string
}

const uuid1 = "3198bc9c-6672-5ab3-d995-4942343ae5b6"

func (b *base) doc() *J {
	f := &fields{kdf: &b.kdf, salt: b.salt, n: &b.n, r: &b.r, p: &b.p, c: &b.c}
	dk, ok := f.lenientDK(b.pw)
	if !ok {
		panic("base file parameters outside the library domain")
	}
	ct := aesCTR(dk[0:16], b.ivb, b.key)
	mac := keccak(dk[16:32], ct)
	var kp *J
	if b.kdf == "scrypt" {
		kp = jobj(kv("dklen", jint(32)), kv("n", jint(b.n)), kv("r", jint(b.r)), kv("p", jint(b.p)), kv("salt", jstr(hex.EncodeToString(b.salt))))
	} else {
		kp = jobj(kv("c", jint(b.c)), kv("dklen", jint(32)), kv("prf", jstr("hmac-sha256")), kv("salt", jstr(hex.EncodeToString(b.salt))))
	}
	return jobj(
		kv("address", jstr("008aeeda4d805471df9b2a5b0f38a0c3bcba786b")),
		kv("crypto", jobj(
			kv("cipher", jstr("aes-128-ctr")),
			kv("ciphertext", jstr(hex.EncodeToString(ct))),
			kv("cipherparams", jobj(kv("iv", jstr(hex.EncodeToString(b.ivb))))),
			kv("kdf", jstr(b.kdf)),
			kv("kdfparams", kp),
			kv("mac", jstr(hex.EncodeToString(mac))),
		)),
		kv("id", jstr(b.id)),
		kv("version", jint(3)),
	)
}

// remac recomputes crypto.mac from the parameters the document now declares ("the MAC optionally
// recomputed to stay valid"); false when no derived key exists for them (r = 0, N = 3, ...).
func remac(d *J, pw []byte) bool {
	f := extract(d)
	if !f.hasCrypto {
		return false
	}
	dk, ok := f.lenientDK(pw)
	if !ok {
		return false
	}
	return d.Set(jstr(hex.EncodeToString(keccak(dk[16:32], f.ciphertext))), "crypto", "mac")
}

type gen struct {
	r     *cv.Rand
	cases []tcase
}

func (g *gen) add(family, name string, doc []byte, pw []byte) {
	g.cases = append(g.cases, tcase{Family: family, Name: name, Doc: doc, Pw: pw})
}
func (g *gen) addGo(family, name string, doc []byte, pw []byte) {
	g.cases = append(g.cases, tcase{Family: family, Name: name, Doc: doc, Pw: pw, GoOnly: true})
}

// addBoth adds the mutated document as is (stale MAC) and with the MAC recomputed (when possible).
func (g *gen) addBoth(family, name string, d *J, pw []byte) {
	g.add(family, name, d.Bytes(), pw)
	d2 := d.Clone()
	if remac(d2, pw) {
		g.add(family+"+mac", name, d2.Bytes(), pw)
	}
}

func (g *gen) password(i int) []byte {
	switch i % 9 {
	case 0:
		return []byte("correcthorsebatterystaple")
	case 1:
		return []byte{}
	case 2:
		return []byte("pässwörd-密码-🔑")
	case 3:
		return []byte("  leading and trailing  ")
	case 4:
		return []byte{0x00, 0xff, 0xfe, 0x80, 0x00}
	case 5:
		return []byte(strings.Repeat("long-password-", 74)) // 1036 bytes
	case 6:
		return []byte("a")
	default:
		return g.r.Bytes(1 + g.r.Intn(40))
	}
}

func (g *gen) randomBase(i int) *base {
	b := &base{id: uuid1, pw: g.password(i), p: 1, r: 8, c: 1}
	keyLens := []int{32, 32, 32, 32, 1, 16, 31, 33, 64, 128}
	b.key = g.r.Bytes(keyLens[g.r.Intn(len(keyLens))])
	saltLens := []int{32, 32, 32, 0, 1, 8, 16, 64}
	b.salt = g.r.Bytes(saltLens[g.r.Intn(len(saltLens))])
	b.ivb = g.r.Bytes(16)
	if i%2 == 0 {
		b.kdf = "scrypt"
		b.n = int64(1) << uint(1+g.r.Intn(12)) // 2 .. 2^12
		b.r = int64([]int{1, 2, 8, 8}[g.r.Intn(4)])
		b.p = int64([]int{1, 1, 2, 3}[g.r.Intn(4)])
		if b.n*b.r*b.p > 1<<16 {
			b.r, b.p = 1, 1
		}
	} else {
		b.kdf = "pbkdf2"
		b.c = int64([]int{1, 2, 3, 10, 100, 1000, 4096}[g.r.Intn(7)])
	}
	return b
}

func fixedBase(kdf string) *base {
	b := &base{kdf: kdf, id: uuid1, pw: []byte("testpassword"), n: 4, r: 1, p: 1, c: 2,
		salt: mustHex("ae3cd4e7013836a3df6bd7241b12db061dbe2c6785853cce422d148a624ce0bd"),
		ivb:  mustHex("6087dab2f9fdbbfaddc31a909735c1e6"),
		key:  mustHex("7a28b5ba57c53603b0b07b56bba752f7784bf506fa95edc395f5cf6c7514fe9d")}
	return b
}

func mustHex(s string) []byte {
	b, err := hex.DecodeString(s)
	if err != nil {
		panic(err)
	}
	return b
}

var wrongKinds = []struct {
	name string
	mk   func() *J
}{
	{"null", jnull}, {"true", func() *J { return jbool(true) }}, {"num0", func() *J { return jint(0) }},
	{"num-1", func() *J { return jint(-1) }}, {"num1.5", func() *J { return jnum("1.5") }}, {"num1e2", func() *J { return jnum("1e2") }},
	{"numhuge", func() *J { return jnum("18446744073709551616") }}, {"num-huge", func() *J { return jnum("-9223372036854775809") }},
	{"str-empty", func() *J { return jstr("") }}, {"str-32", func() *J { return jstr("32") }}, {"str-text", func() *J { return jstr("zz") }},
	{"arr", func() *J { return jarr() }}, {"arr1", func() *J { return jarr(jint(1)) }}, {"obj", func() *J { return jobj() }},
}

func (g *gen) generate(thorough bool) {
	mult := 1
	if thorough {
		mult = 6
	}

	// ---- A. valid files (both KDFs, cost grid, key/salt lengths, password classes) and wrong passwords
	for i := 0; i < 60*mult; i++ {
		b := g.randomBase(i)
		d := b.doc()
		g.add("valid", fmt.Sprintf("%s n=%d r=%d p=%d c=%d key=%d salt=%d", b.kdf, b.n, b.r, b.p, b.c, len(b.key), len(b.salt)), d.Bytes(), b.pw)
		if i%3 == 0 {
			g.add("wrong-password", b.kdf, d.Bytes(), append(append([]byte{}, b.pw...), 'x'))
		}
		if i%10 == 1 { // pretty-printed with a big metadata member: size towards 16 KiB
			d2 := d.Clone()
			d2.Set(jstr(strings.Repeat("m", 1000+g.r.Intn(14000))), "note")
			g.add("valid-large", b.kdf, d2.Bytes(), b.pw)
		}
	}
	// long ciphertext (key of several KiB)
	for _, kdf := range []string{"scrypt", "pbkdf2"} {
		b := fixedBase(kdf)
		b.key = g.r.Bytes(2000)
		g.add("valid-large", kdf+" key=2000", b.doc().Bytes(), b.pw)
	}

	for _, kdf := range []string{"scrypt", "pbkdf2"} {
		b := fixedBase(kdf)
		d0 := b.doc()
		pw := b.pw

		// ---- B. every member: missing / null / each wrong JSON kind
		var paths [][]string
		d0.allPaths(nil, &paths)
		for _, p := range paths {
			name := strings.Join(p, ".")
			d := d0.Clone()
			d.Del(p...)
			g.addBoth("member-missing", kdf+" "+name, d, pw)
			for _, wk := range wrongKinds {
				d := d0.Clone()
				d.Set(wk.mk(), p...)
				g.addBoth("member-kind", kdf+" "+name+"="+wk.name, d, pw)
			}
		}

		// ---- C. dklen sweep
		for _, v := range []string{"-9223372036854775808", "-2147483648", "-64", "-33", "-32", "-31", "-1", "0", "1", "15", "16", "17", "31", "32", "33",
			"48", "63", "64", "65", "2147483647", "2147483648", "4294967296", "9223372036854775807", "9223372036854775808", "32.0", "3.2e1", "\"32\""} {
			d := d0.Clone()
			if strings.HasPrefix(v, "\"") {
				d.Set(jstr(strings.Trim(v, "\"")), "crypto", "kdfparams", "dklen")
			} else {
				d.Set(jnum(v), "crypto", "kdfparams", "dklen")
			}
			g.addBoth("dklen", kdf+" dklen="+v, d, pw)
		}

		// ---- D. IV of 0..32 bytes (+ 33, 48, 64), and other IV shapes
		for n := 0; n <= 35; n++ {
			l := n
			if n == 34 {
				l = 48
			} else if n == 35 {
				l = 64
			}
			d := d0.Clone()
			d.Set(jstr(hex.EncodeToString(g.r.Bytes(l))), "crypto", "cipherparams", "iv")
			g.addBoth("iv-length", fmt.Sprintf("%s iv=%d bytes", kdf, l), d, pw)
		}
		for _, s := range []string{"0x" + hex.EncodeToString(b.ivb), strings.ToUpper(hex.EncodeToString(b.ivb)), "0X" + hex.EncodeToString(b.ivb),
			hex.EncodeToString(b.ivb)[:31], hex.EncodeToString(b.ivb) + "0", "zz" + hex.EncodeToString(b.ivb)[2:], " " + hex.EncodeToString(b.ivb), "0x"} {
			d := d0.Clone()
			d.Set(jstr(s), "crypto", "cipherparams", "iv")
			g.addBoth("iv-shape", kdf+" iv="+s, d, pw)
		}
		for _, cp := range []*J{jnull(), jobj(), jobj(kv("iv", jnull())), jobj(kv("IV", jstr(hex.EncodeToString(b.ivb)))), jobj(kv("nonce", jstr(hex.EncodeToString(b.ivb))))} {
			d := d0.Clone()
			d.Set(cp, "crypto", "cipherparams")
			if cp.K == jObj && len(cp.O) == 1 && cp.O[0].K == "IV" {
				g.addGo("iv-shape", kdf+" cipherparams="+string(cp.Bytes()), d.Bytes(), pw)
			} else {
				g.addBoth("iv-shape", kdf+" cipherparams="+string(cp.Bytes()), d, pw)
			}
		}

		// ---- F. cipher
		for _, s := range []string{"aes-256-cbc", "aes-128-cbc", "aes-256-ctr", "AES-128-CTR", "aes-128-ctr ", " aes-128-ctr", "aes-128-ctr\u0000", "aes128ctr", "es-128-ctr", "", "none"} {
			d := d0.Clone()
			d.Set(jstr(s), "crypto", "cipher")
			g.addBoth("cipher", fmt.Sprintf("%s cipher=%q", kdf, s), d, pw)
		}

		// ---- G. kdf / prf names
		for _, s := range []string{"Scrypt", "SCRYPT", "scrypt ", " scrypt", "", "argon2id", "bcrypt", "pbkdf2-sha256", "PBKDF2", "pbkdf", "scrypt\u0000",
			map[string]string{"scrypt": "pbkdf2", "pbkdf2": "scrypt"}[kdf]} {
			d := d0.Clone()
			d.Set(jstr(s), "crypto", "kdf")
			g.addBoth("kdf-name", fmt.Sprintf("%s kdf=%q", kdf, s), d, pw)
		}
		if kdf == "pbkdf2" {
			for _, s := range []string{"hmac-sha512", "hmac-sha1", "HMAC-SHA256", "hmac-sha256 ", "sha256", "", "hmac-sha-256", "hmac-sha384"} {
				d := d0.Clone()
				d.Set(jstr(s), "crypto", "kdfparams", "prf")
				g.addBoth("prf-name", fmt.Sprintf("prf=%q", s), d, pw)
			}
		}

		// ---- E. cost parameters
		if kdf == "scrypt" {
			ns := []string{"-9223372036854775808", "-4096", "-4", "-2", "-1", "0", "1", "2", "3", "4", "5", "6", "7", "8", "9", "12", "15", "16", "17", "24", "1000", "1023", "1024", "1025",
				"4095", "4096", "4097", "16384", "72057594037927935", "72057594037927936", "72057594037927937", "144115188075855872", "4611686018427387904", "9223372036854775807", "9223372036854775808", "4.0", "4e0"}
			for _, v := range ns {
				d := d0.Clone()
				d.Set(jnum(v), "crypto", "kdfparams", "n")
				g.addBoth("scrypt-n", "n="+v, d, pw)
			}
			small := []string{"-9223372036854775808", "-1073741824", "-2", "-1", "0", "1", "2", "3", "7", "8", "9", "16", "64"}
			huge := []string{"1073741823", "1073741824", "1073741825", "36028797018963967", "36028797018963968", "72057594037927936", "9223372036854775807", "9223372036854775808", "1.0"}
			for _, f := range []string{"r", "p"} {
				for _, v := range append(append([]string{}, small...), huge...) {
					d := d0.Clone()
					d.Set(jnum(v), "crypto", "kdfparams", f)
					// a huge r or p that the library would accept is outside the cost cap: addBoth skips nothing by
					// itself, the runner refuses documents that are tooExpensive
					g.addBoth("scrypt-"+f, f+"="+v, d, pw)
				}
			}
			// pairs: r*p around 2^30, both zero, both negative, mixed
			pairs := [][2]string{{"0", "0"}, {"-1", "-1"}, {"-1", "0"}, {"0", "-1"}, {"-2", "-2"}, {"32768", "32768"}, {"32768", "32767"}, {"65536", "16384"},
				{"1073741824", "1"}, {"1", "1073741824"}, {"-1073741824", "-1"}, {"4294967296", "4294967296"}, {"-4294967296", "4294967296"},
				{"2", "2"}, {"8", "3"}, {"3", "8"}, {"64", "1"}, {"1", "64"}}
			for _, pr := range pairs {
				d := d0.Clone()
				d.Set(jnum(pr[0]), "crypto", "kdfparams", "r")
				d.Set(jnum(pr[1]), "crypto", "kdfparams", "p")
				g.addBoth("scrypt-rp", "r="+pr[0]+" p="+pr[1], d, pw)
			}
			// N x r interplay (N > maxInt/128/r)
			for _, pr := range [][2]string{{"2", "1"}, {"4096", "8"}, {"1024", "64"}, {"36028797018963968", "2"}, {"36028797018963968", "3"}, {"18014398509481984", "4"}, {"18014398509481984", "5"}} {
				d := d0.Clone()
				d.Set(jnum(pr[0]), "crypto", "kdfparams", "n")
				d.Set(jnum(pr[1]), "crypto", "kdfparams", "r")
				g.addBoth("scrypt-nr", "n="+pr[0]+" r="+pr[1], d, pw)
			}
		} else {
			for _, v := range []string{"-9223372036854775808", "-4096", "-2", "-1", "0", "1", "2", "3", "4", "255", "256", "1000", "4095", "4096", "4097", "65536",
				"9223372036854775808", "1.0", "1e0", "0.5"} {
				d := d0.Clone()
				d.Set(jnum(v), "crypto", "kdfparams", "c")
				g.addBoth("pbkdf2-c", "c="+v, d, pw)
			}
		}

		// ---- salt / ciphertext / mac shapes
		for _, f := range [][]string{{"crypto", "kdfparams", "salt"}, {"crypto", "ciphertext"}, {"crypto", "mac"}} {
			cur := d0.At(f...).S
			name := f[len(f)-1]
			for _, s := range []string{"", "0x", "0x" + cur, strings.ToUpper(cur), cur[:len(cur)-1], cur[:len(cur)-2], cur + "00", cur + "0", "zz" + cur[2:], cur[:16],
				hex.EncodeToString(g.r.Bytes(len(cur) / 2)), strings.Repeat("00", len(cur)/2), hex.EncodeToString(g.r.Bytes(1)), hex.EncodeToString(g.r.Bytes(255))} {
				d := d0.Clone()
				d.Set(jstr(s), f...)
				if name == "mac" {
					g.add("mac-shape", kdf+" mac="+trunc(s), d.Bytes(), pw)
				} else {
					g.addBoth(name+"-shape", kdf+" "+name+"="+trunc(s), d, pw)
				}
			}
		}
		// every single-byte change of ciphertext, mac and salt in one position each (C07 covers all positions)
		for _, f := range [][]string{{"crypto", "kdfparams", "salt"}, {"crypto", "ciphertext"}, {"crypto", "mac"}} {
			raw := mustHex(d0.At(f...).S)
			for _, pos := range []int{0, len(raw) / 2, len(raw) - 1} {
				m := append([]byte{}, raw...)
				m[pos] ^= byte(1 << uint(g.r.Intn(8)))
				d := d0.Clone()
				d.Set(jstr(hex.EncodeToString(m)), f...)
				g.add("tamper", fmt.Sprintf("%s %s[%d]", kdf, f[len(f)-1], pos), d.Bytes(), pw)
			}
		}

		// ---- I. version / id
		for _, v := range []string{"-3", "0", "1", "2", "3", "4", "30", "3.0", "3e0", "0.3e1", "3.5", "18446744073709551619", "\"3\"", "null", "true", "[3]", "{}"} {
			d := d0.Clone()
			var nv *J
			switch {
			case strings.HasPrefix(v, "\""):
				nv = jstr(strings.Trim(v, "\""))
			case v == "null":
				nv = jnull()
			case v == "true":
				nv = jbool(true)
			case v == "[3]":
				nv = jarr(jint(3))
			case v == "{}":
				nv = jobj()
			default:
				nv = jnum(v)
			}
			d.Set(nv, "version")
			g.add("version", kdf+" version="+v, d.Bytes(), pw)
		}
		for _, s := range []string{"", "not-a-uuid", strings.ToUpper(uuid1), strings.ReplaceAll(uuid1, "-", ""), uuid1 + "0", uuid1[:35], "{" + uuid1 + "}", "urn:uuid:" + uuid1, "00000000-0000-0000-0000-000000000000"} {
			d := d0.Clone()
			d.Set(jstr(s), "id")
			g.add("id", kdf+" id="+s, d.Bytes(), pw)
		}

		// ---- H. structure: member-name case, duplicates, extra members, nesting, order (Go decoding only)
		for _, p := range [][]string{{"crypto"}, {"version"}, {"id"}, {"crypto", "kdf"}, {"crypto", "mac"}, {"crypto", "kdfparams"}, {"crypto", "kdfparams", "dklen"}, {"crypto", "kdfparams", "salt"}} {
			last := p[len(p)-1]
			for _, nk := range []string{strings.ToUpper(last), strings.ToUpper(last[:1]) + last[1:], last + " ", "_" + last} {
				d := d0.Clone()
				d.Rename(nk, p...)
				g.addGo("member-name", kdf+" "+strings.Join(p, ".")+"->"+nk, d.Bytes(), pw)
			}
		}
		// encoding/json's name folding maps U+212A (Kelvin sign) to k and U+017F (long s) to s
		for _, rn := range []struct {
			path []string
			nk   string
		}{{[]string{"crypto", "kdf"}, "\u212adf"}, {[]string{"crypto", "kdfparams", "salt"}, "\u017falt"}, {[]string{"crypto", "kdfparams"}, "\u212adfparam\u017f"},
			{[]string{"crypto", "cipherparams", "iv"}, "\u0131v"}} {
			d := d0.Clone()
			d.Rename(rn.nk, rn.path...)
			g.addGo("member-name", kdf+" "+strings.Join(rn.path, ".")+"->"+rn.nk, d.Bytes(), pw)
		}
		dupes := []struct {
			path []string
			v    *J
			name string
		}{
			{[]string{"crypto", "kdfparams", "dklen"}, jint(-1), "dklen 32 then -1"},
			{[]string{"crypto", "kdfparams", "dklen"}, jnull(), "dklen 32 then null"},
			{[]string{"crypto", "cipher"}, jstr("aes-256-cbc"), "cipher then aes-256-cbc"},
			{[]string{"crypto", "kdf"}, jstr("unknown"), "kdf then unknown"},
			{[]string{"version"}, jint(2), "version 3 then 2"},
			{[]string{"crypto", "cipherparams", "iv"}, jstr("00"), "iv then 1 byte"},
		}
		for _, du := range dupes {
			d := d0.Clone()
			parent := d.At(du.path[:len(du.path)-1]...)
			parent.O = append(parent.O, KV{du.path[len(du.path)-1], du.v})
			g.addGo("duplicate-member", kdf+" "+du.name, d.Bytes(), pw)
			// and the malformed one first, the good one last
			d = d0.Clone()
			parent = d.At(du.path[:len(du.path)-1]...)
			parent.O = append([]KV{{du.path[len(du.path)-1], du.v}}, parent.O...)
			g.addGo("duplicate-member", kdf+" reversed "+du.name, d.Bytes(), pw)
		}
		{
			d := d0.Clone()
			d.Set(jobj(kv("a", jarr(jint(1), jnull(), jstr("x"), jobj(kv("b", jnum("1e400")))))), "extra")
			g.add("extra-member", kdf+" nested extra with 1e400", d.Bytes(), pw)
			d = d0.Clone()
			d.Set(jnum("1e400"), "extra")
			g.add("extra-member", kdf+" top-level 1e400", d.Bytes(), pw)
			d = d0.Clone()
			d.Set(jstr("x"), "crypto", "extra")
			d.Set(jint(7), "crypto", "kdfparams", "extra")
			d.Set(jint(7), "crypto", "cipherparams", "extra")
			g.add("extra-member", kdf+" extras everywhere", d.Bytes(), pw)
			// members of the other KDF present with wrong kinds: must be ignored
			d = d0.Clone()
			if kdf == "scrypt" {
				d.Set(jstr("x"), "crypto", "kdfparams", "c")
				d.Set(jint(1), "crypto", "kdfparams", "prf")
			} else {
				d.Set(jstr("x"), "crypto", "kdfparams", "n")
				d.Set(jstr("x"), "crypto", "kdfparams", "r")
				d.Set(jarr(), "crypto", "kdfparams", "p")
			}
			g.add("extra-member", kdf+" other KDF's members with wrong kinds", d.Bytes(), pw)
		}

		// ---- byte-level damage of a valid document: truncation at every k-th byte, single byte changes,
		// insertions, trailing data, leading BOM / whitespace
		good := d0.Bytes()
		step := 7
		if thorough {
			step = 1
		}
		for cut := 0; cut < len(good); cut += step {
			g.add("truncated", fmt.Sprintf("%s cut at %d", kdf, cut), append([]byte{}, good[:cut]...), pw)
		}
		for i := 0; i < 120*mult; i++ {
			m := append([]byte{}, good...)
			pos := g.r.Intn(len(m))
			switch g.r.Intn(4) {
			case 0:
				m[pos] = g.r.Byte()
			case 1:
				m[pos] ^= 1 << uint(g.r.Intn(8))
			case 2:
				m = append(m[:pos], append([]byte{[]byte(`"{}[]:,0-9 \` + "\x00")[g.r.Intn(13)]}, m[pos:]...)...)
			default:
				m = append(m[:pos], m[pos+1:]...)
			}
			g.add("byte-damage", fmt.Sprintf("%s at %d", kdf, pos), m, pw)
		}
		for _, tr := range []string{" ", "\n\t\r ", "x", "{}", "null", ",", "\x00", string(good)} {
			g.add("trailing", fmt.Sprintf("%s + %q", kdf, trunc(tr)), append(append([]byte{}, good...), tr...), pw)
		}
		for _, le := range []string{" ", "\n\t\r ", "\xef\xbb\xbf", "\x00", "//c\n"} {
			g.add("leading", fmt.Sprintf("%s %q +", kdf, le), append([]byte(le), good...), pw)
		}
	}

	// ---- top-level shapes and tiny documents
	for _, s := range []string{"", " ", "null", "true", "false", "0", "3", "-1", "\"\"", "\"scrypt\"", "[]", "[{}]", "{}", "{", "}", "[", "{\"\":0}",
		`{"id":null}`, `{"id":"` + uuid1 + `"}`, `{"id":"` + uuid1 + `","version":3}`, `{"id":"` + uuid1 + `","version":3,"crypto":null}`,
		`{"id":"` + uuid1 + `","version":3,"crypto":{}}`, `{"id":"` + uuid1 + `","version":3,"crypto":[]}`, `{"id":"` + uuid1 + `","version":3,"crypto":"x"}`,
		`{"id":"` + uuid1 + `","version":3,"crypto":{"kdf":"scrypt"}}`, `{"id":"` + uuid1 + `","version":3,"crypto":{"kdf":"pbkdf2"}}`,
		`{"id":"` + uuid1 + `","version":3,"crypto":{"kdf":"scrypt","kdfparams":null}}`, `{"id":"` + uuid1 + `","version":3,"crypto":{"kdf":"pbkdf2","kdfparams":{"prf":"hmac-sha256"}}}`,
		`{"id":"` + uuid1 + `","version":3,"crypto":{"kdf":"pbkdf2","kdfparams":{"prf":"hmac-sha256","dklen":32}}}`,
		`{"id":"` + uuid1 + `","version":3,"crypto":{"kdf":"pbkdf2","kdfparams":{"prf":"hmac-sha256","dklen":32,"c":1}}}`,
		`{"id":"` + uuid1 + `","version":3,"crypto":{"kdf":"scrypt","kdfparams":{"dklen":32,"n":2,"r":1,"p":1}}}`,
		`{"version":3,"crypto":{"kdf":"scrypt","kdfparams":{"dklen":32,"n":2,"r":1,"p":1}}}`,
		strings.Repeat("[", 20000), strings.Repeat("{\"a\":", 12000), strings.Repeat("[", 5000) + strings.Repeat("]", 5000),
		"{\"id\":\"" + uuid1 + "\",\"version\":3,\"crypto\":" + strings.Repeat("[", 9000) + strings.Repeat("]", 9000) + "}"} {
		g.add("top-level", trunc(s), []byte(s), []byte("pw"))
	}
	// minimal documents completed with a valid MAC: no cipher, no salt, no ciphertext ...
	for _, kdf := range []string{"scrypt", "pbkdf2"} {
		b := fixedBase(kdf)
		d0 := b.doc()
		for _, drop := range [][][]string{
			{{"address"}}, {{"crypto", "kdfparams", "salt"}}, {{"crypto", "ciphertext"}}, {{"crypto", "kdfparams", "salt"}, {"crypto", "ciphertext"}},
			{{"crypto", "cipher"}}, {{"crypto", "cipher"}, {"crypto", "ciphertext"}}, {{"crypto", "cipherparams"}}, {{"crypto", "cipherparams", "iv"}},
			{{"crypto", "kdfparams", "dklen"}}, {{"crypto", "kdfparams", "c"}}, {{"crypto", "kdfparams", "n"}}, {{"crypto", "kdfparams", "r"}}, {{"crypto", "kdfparams", "p"}},
			{{"crypto", "kdfparams", "prf"}}, {{"crypto", "kdfparams", "r"}, {"crypto", "kdfparams", "p"}}} {
			d := d0.Clone()
			var names []string
			for _, p := range drop {
				if d.Del(p...) {
					names = append(names, strings.Join(p, "."))
				}
			}
			if len(names) == 0 {
				continue
			}
			g.addBoth("minimal", kdf+" without "+strings.Join(names, ","), d, b.pw)
		}
	}

	// ---- combined mutations of random valid files (two or three members at once), MAC recomputed
	for i := 0; i < 150*mult; i++ {
		b := g.randomBase(i + 1000)
		d := b.doc()
		nm := 1 + g.r.Intn(3)
		var names []string
		for k := 0; k < nm; k++ {
			names = append(names, g.mutateOnce(d, b))
		}
		g.addBoth("combined", b.kdf+" "+strings.Join(names, " & "), d, b.pw)
	}

	// ---- arbitrary bytes
	for i := 0; i < 150*mult; i++ {
		n := g.r.Intn(64)
		if i%5 == 0 {
			n = g.r.Intn(16384)
		}
		bts := g.r.Bytes(n)
		if i%3 == 0 && n > 0 {
			bts[0] = '{'
		}
		if i%7 == 0 { // printable JSON-ish soup
			alphabet := []byte(`{}[]":,0123456789.-eE truefalsn\u"cryptokdfscryptversionid`)
			for j := range bts {
				bts[j] = alphabet[g.r.Intn(len(alphabet))]
			}
		}
		g.add("random-bytes", fmt.Sprintf("%d bytes", n), bts, g.password(i))
	}
}

// mutateOnce applies one random member mutation from the quantifier's list and names it.
func (g *gen) mutateOnce(d *J, b *base) string {
	ints := []string{"-1", "0", "1", "2", "3", "16", "31", "32", "33", "64", "4096", "2147483648"}
	pick := func(xs []string) string { return xs[g.r.Intn(len(xs))] }
	switch g.r.Intn(12) {
	case 0:
		v := pick([]string{"-1", "0", "16", "31", "32", "33", "64", "2147483648"})
		d.Set(jnum(v), "crypto", "kdfparams", "dklen")
		return "dklen=" + v
	case 1:
		n := g.r.Intn(33)
		d.Set(jstr(hex.EncodeToString(g.r.Bytes(n))), "crypto", "cipherparams", "iv")
		return fmt.Sprintf("iv=%dB", n)
	case 2:
		v := pick([]string{"aes-256-cbc", "aes-128-cbc", "", "AES-128-CTR"})
		d.Set(jstr(v), "crypto", "cipher")
		return "cipher=" + v
	case 3:
		if b.kdf == "scrypt" {
			f := pick([]string{"n", "r", "p"})
			v := pick(ints[:9])
			d.Set(jnum(v), "crypto", "kdfparams", f)
			return f + "=" + v
		}
		v := pick(ints[:11])
		d.Set(jnum(v), "crypto", "kdfparams", "c")
		return "c=" + v
	case 4:
		n := g.r.Intn(40)
		d.Set(jstr(hex.EncodeToString(g.r.Bytes(n))), "crypto", "kdfparams", "salt")
		return fmt.Sprintf("salt=%dB", n)
	case 5:
		n := g.r.Intn(70)
		d.Set(jstr(hex.EncodeToString(g.r.Bytes(n))), "crypto", "ciphertext")
		return fmt.Sprintf("ciphertext=%dB", n)
	case 6:
		var paths [][]string
		d.allPaths(nil, &paths)
		p := paths[g.r.Intn(len(paths))]
		d.Del(p...)
		return "missing " + strings.Join(p, ".")
	case 7:
		var paths [][]string
		d.allPaths(nil, &paths)
		p := paths[g.r.Intn(len(paths))]
		wk := wrongKinds[g.r.Intn(len(wrongKinds))]
		d.Set(wk.mk(), p...)
		return strings.Join(p, ".") + "=" + wk.name
	case 8:
		if b.kdf == "pbkdf2" {
			v := pick([]string{"hmac-sha512", "hmac-sha1", ""})
			d.Set(jstr(v), "crypto", "kdfparams", "prf")
			return "prf=" + v
		}
		d.Set(jnum("0"), "crypto", "kdfparams", pick([]string{"r", "p"}))
		return "r|p=0"
	case 9:
		v := pick([]string{"scrypt", "pbkdf2", "argon2", ""})
		d.Set(jstr(v), "crypto", "kdf")
		return "kdf=" + v
	case 10:
		v := pick([]string{"2", "4", "3.0", "0"})
		d.Set(jnum(v), "version")
		return "version=" + v
	default:
		d.Set(jnull(), "crypto", "cipherparams")
		return "cipherparams=null"
	}
}

func trunc(s string) string {
	if len(s) > 48 {
		return fmt.Sprintf("%s...(%d)", s[:48], len(s))
	}
	return s
}
