// Command c15 is the harness of property C15: reading a keystore file is total.
//
// It runs keystorev3.ReadWalletFile from /repo on the generated documents (each call in its own
// goroutine under recover() and a deadline, the process under an address-space limit), judges every
// outcome against the harness's own V3 reader (ref.go) and writes the cases for the Coq evaluator
// (Keystore/RunC15.v) that runs the Gallina model on the same inputs.
package main

import (
	"bytes"
	"crypto/sha256"
	"encoding/hex"
	"encoding/json"
	"flag"
	"fmt"
	"os"
	"path/filepath"
	"runtime/debug"
	"sort"
	"strings"
	"sync"
	"syscall"
	"time"

	"github.com/hyperledger/firefly-signer/pkg/keystorev3"

	"verifharness/cv"
)

const (
	clsOk    = 0
	clsErr   = 1
	clsPanic = 2
	clsHang  = 3
)

type implOut struct {
	Cls   int
	Key   []byte
	Msg   string
	Nanos int64
	// round 3: state kept across calls
	W          keystorev3.WalletFile // the returned wallet, retained and asked for its key again later
	ErrWithKey []byte                // a key held by the wallet that was returned together with an error
	Aliased    bool                  // the wallet's key changed when the caller overwrote its own input buffers
}

// keyOf asks a wallet for its key; a nil pointer inside the interface (or any other panic) gives nil, false.
func keyOf(w keystorev3.WalletFile) (k []byte, ok bool) {
	defer func() {
		if r := recover(); r != nil {
			k, ok = nil, false
		}
	}()
	if w == nil {
		return nil, false
	}
	return append([]byte{}, w.PrivateKey()...), true
}

func scribble(b []byte) {
	for i := range b {
		b[i] ^= 0xa5
	}
}

func runImpl(doc, pw []byte, deadline time.Duration) implOut {
	ch := make(chan implOut, 1)
	d := append([]byte{}, doc...)
	p := append([]byte{}, pw...)
	t0 := time.Now()
	go func() {
		defer func() {
			if r := recover(); r != nil {
				ch <- implOut{Cls: clsPanic, Msg: fmt.Sprint(r)}
			}
		}()
		w, err := keystorev3.ReadWalletFile(d, p)
		if err != nil {
			o := implOut{Cls: clsErr, Msg: err.Error()}
			if k, ok := keyOf(w); ok && len(k) > 0 {
				o.ErrWithKey = k
			}
			ch <- o
			return
		}
		// a nil wallet without an error would panic here, which is what a caller would experience
		o := implOut{Cls: clsOk, Key: append([]byte{}, w.PrivateKey()...), W: w}
		// the caller reuses its buffers: the key it was handed must not move with them
		scribble(d)
		scribble(p)
		if !bytes.Equal(o.Key, w.PrivateKey()) {
			o.Aliased = true
		}
		ch <- o
	}()
	select {
	case o := <-ch:
		o.Nanos = time.Since(t0).Nanoseconds()
		return o
	case <-time.After(deadline):
		return implOut{Cls: clsHang, Msg: fmt.Sprintf("no return within %s", deadline), Nanos: time.Since(t0).Nanoseconds()}
	}
}

// runDirect: ReadWalletFile under recover() on the calling goroutine (no deadline; used on files that
// have already returned quickly twice).
func runDirect(doc, pw []byte) (o implOut) {
	defer func() {
		if r := recover(); r != nil {
			o = implOut{Cls: clsPanic, Msg: fmt.Sprint(r)}
		}
	}()
	w, err := keystorev3.ReadWalletFile(append([]byte{}, doc...), append([]byte{}, pw...))
	if err != nil {
		return implOut{Cls: clsErr, Msg: err.Error()}
	}
	return implOut{Cls: clsOk, Key: append([]byte{}, w.PrivateKey()...)}
}

type desc struct {
	Family   string   `json:"family"`
	Name     string   `json:"name"`
	Doc      string   `json:"doc"`     // the document if printable, else ""
	DocHex   string   `json:"doc_hex"` // always
	PwHex    string   `json:"pw_hex"`
	Impl     string   `json:"impl"`
	ImplKey  string   `json:"impl_key,omitempty"`
	ImplMsg  string   `json:"impl_msg,omitempty"`
	Ref      string   `json:"ref"`
	RefKey   string   `json:"ref_key,omitempty"`
	Aspects  []string `json:"malformed,omitempty"`
	MacValid bool     `json:"mac_valid"`
	Key      string   `json:"key,omitempty"` // known-findings classifier
	What     string   `json:"what,omitempty"`
}

func clsName(c int) string { return [...]string{"ok", "err", "panic", "no-return"}[c] }

func printable(b []byte) bool {
	for _, c := range b {
		if c < 0x20 && c != '\n' && c != '\t' && c != '\r' || c >= 0x7f {
			return false
		}
	}
	return len(b) <= 6000
}

// judge applies the property's oracles to one outcome; "" = holds.
func judge(o implOut, ref refOut) (key, what string) {
	switch o.Cls {
	case clsPanic:
		return "C15/panic", "ReadWalletFile panicked (" + o.Msg + ")"
	case clsHang:
		return "C15/no-return", "ReadWalletFile did not return (" + o.Msg + ")"
	case clsErr:
		if len(o.ErrWithKey) > 0 {
			return "C15/key-with-error", "ReadWalletFile reported an error and still handed out a wallet holding a key (" + hex.EncodeToString(o.ErrWithKey) + ")"
		}
	case clsOk:
		if o.Aliased {
			return "C15/key-aliases-input", "the key of the returned wallet changed when the caller overwrote the document / password buffers it had passed in"
		}
		if ref.Ok && string(ref.Key) == string(o.Key) {
			return "", ""
		}
		if ref.Ok {
			return "C15/foreign-key", "ReadWalletFile returned a key that differs from the one the independent V3 reader derives from the same file and password"
		}
		if len(ref.Aspects) == 1 && ref.Aspects[0] == "cipher" && ref.MacValid && string(ref.Key) == string(o.Key) {
			return "C15/cipher-ignored", "a MAC-valid file whose cipher is not aes-128-ctr is decrypted with AES-128-CTR and a key returned instead of an error"
		}
		if ref.MacValid {
			return "C15/malformed-accepted", "a MAC-valid but malformed/unsupported file (" + strings.Join(ref.Aspects, ",") + ") is accepted and a key returned instead of an error"
		}
		return "C15/foreign-key", "ReadWalletFile returned a key for a file from which the independent V3 reader derives none (" + strings.Join(ref.Aspects, ",") + "; MAC not valid)"
	}
	return "", ""
}

type ranCase struct {
	c tcase
	d desc
	o implOut
}

func descMap(d desc, key, what string) map[string]interface{} {
	d.Key, d.What = key, what
	m := map[string]interface{}{}
	b, _ := json.Marshal(d)
	json.Unmarshal(b, &m)
	return m
}

// secondPass re-runs every case (shuffled, 8 goroutines), compares class and key with the first run, and
// finally compares the key of every retained wallet (both passes) with the copy taken when it was returned.
func secondPass(ran []ranCase, r *cv.Rand, deadline time.Duration, st *cv.Stats, cur string) []map[string]interface{} {
	order := make([]int, len(ran))
	for i := range order {
		order[i] = i
	}
	for i := len(order) - 1; i > 0; i-- {
		j := r.Intn(i + 1)
		order[i], order[j] = order[j], order[i]
	}
	second := make([]implOut, len(ran))
	os.WriteFile(cur, []byte(`{"phase":"second pass (concurrent re-run of all cases)"}`), 0o644)
	var wg sync.WaitGroup
	jobs := make(chan int, len(order))
	for _, i := range order {
		jobs <- i
	}
	close(jobs)
	for w := 0; w < 8; w++ {
		wg.Add(1)
		go func() {
			defer wg.Done()
			for i := range jobs {
				second[i] = runImpl(ran[i].c.Doc, ran[i].c.Pw, deadline)
			}
		}()
	}
	wg.Wait()
	var out []map[string]interface{}
	for i, rc := range ran {
		o2 := second[i]
		st.Hit("second-pass:" + clsName(o2.Cls))
		if o2.Cls != rc.o.Cls || !bytes.Equal(o2.Key, rc.o.Key) {
			key := "C15/unstable-outcome"
			what := fmt.Sprintf("the same document and password gave %s key=%x on the first call and %s key=%x (%s) when read again after other files had been read (concurrently, other order)",
				clsName(rc.o.Cls), rc.o.Key, clsName(o2.Cls), o2.Key, o2.Msg)
			if o2.Cls == clsPanic {
				key = "C15/panic"
			} else if o2.Cls == clsHang {
				key = "C15/no-return"
			}
			out = append(out, descMap(rc.d, key, what))
			continue
		}
		if o2.Aliased || len(o2.ErrWithKey) > 0 {
			k, w := judge(o2, refOut{Ok: true, Key: o2.Key})
			if k != "" {
				out = append(out, descMap(rc.d, k, w+" (second pass)"))
			}
		}
	}
	// hammer: the cheapest accepted and MAC-rejected files, read back to back from 8 goroutines (a window of
	// a few instructions in shared state needs many overlapping calls to show)
	{
		idx := make([]int, 0, len(ran))
		for i, rc := range ran {
			if rc.o.Cls == clsOk || (rc.o.Cls == clsErr && (rc.c.Family == "wrong-password" || rc.c.Family == "tamper")) {
				idx = append(idx, i)
			}
		}
		sort.SliceStable(idx, func(a, b int) bool { return ran[idx[a]].o.Nanos < ran[idx[b]].o.Nanos })
		var pick []int
		nOk, nErr := 0, 0
		for _, i := range idx {
			if ran[i].o.Cls == clsOk && nOk < 16 {
				pick = append(pick, i)
				nOk++
			} else if ran[i].o.Cls == clsErr && nErr < 8 {
				pick = append(pick, i)
				nErr++
			}
		}
		const perG = 2500
		seeds := make([]uint64, 8)
		for k := range seeds {
			seeds[k] = r.U64() | 1
		}
		bad := make([]int, 8) // first case index that differed, per goroutine (-1 none)
		badOut := make([]implOut, 8)
		os.WriteFile(cur, []byte(`{"phase":"hammer (8 goroutines re-reading the cheapest files)"}`), 0o644)
		var wg2 sync.WaitGroup
		for k := 0; k < 8 && len(pick) > 0; k++ {
			bad[k] = -1
			wg2.Add(1)
			go func(k int) {
				defer wg2.Done()
				x := seeds[k]
				for n := 0; n < perG && bad[k] < 0; n++ {
					x ^= x << 13
					x ^= x >> 7
					x ^= x << 17
					i := pick[int(x%uint64(len(pick)))]
					o := runDirect(ran[i].c.Doc, ran[i].c.Pw)
					if o.Cls != ran[i].o.Cls || !bytes.Equal(o.Key, ran[i].o.Key) {
						bad[k], badOut[k] = i, o
					}
				}
			}(k)
		}
		wg2.Wait()
		st.Hit(fmt.Sprintf("hammer:%d files x 8 goroutines x %d reads", len(pick), perG))
		for k := range bad {
			if len(pick) > 0 && bad[k] >= 0 {
				rc, o2 := ran[bad[k]], badOut[k]
				key := "C15/unstable-outcome"
				if o2.Cls == clsPanic {
					key = "C15/panic"
				}
				out = append(out, descMap(rc.d, key, fmt.Sprintf("read concurrently from 8 goroutines, the same document and password gave %s key=%x (%s) instead of %s key=%x",
					clsName(o2.Cls), o2.Key, o2.Msg, clsName(rc.o.Cls), rc.o.Key)))
			}
		}
	}
	// retained wallets: the key handed out must still be the key
	for i, rc := range ran {
		for pass, o := range []implOut{rc.o, second[i]} {
			if o.Cls != clsOk || o.W == nil {
				continue
			}
			st.Hit("retained-wallet-rechecked")
			k, ok := keyOf(o.W)
			if !ok || !bytes.Equal(k, o.Key) {
				out = append(out, descMap(rc.d, "C15/retained-key-changed",
					fmt.Sprintf("the wallet returned for this file (pass %d) held key %x when it was returned and holds %x after %d further reads", pass+1, o.Key, k, 2*len(ran))))
			}
		}
	}
	return out
}

func limitAddressSpace() {
	// a hostile allocation must end this process (rc != 0, current_case.json names the input) rather than
	// take the machine down
	lim := uint64(12) << 30
	_ = syscall.Setrlimit(syscall.RLIMIT_AS, &syscall.Rlimit{Cur: lim, Max: lim})
	debug.SetMemoryLimit(6 << 30)
}

func main() {
	out := flag.String("out", "", "output directory")
	tier := flag.String("tier", "quick", "quick|thorough")
	replay := flag.String("replay", "", "replay file")
	flag.Parse()
	if *out == "" {
		fmt.Fprintln(os.Stderr, "need -out")
		os.Exit(2)
	}
	os.MkdirAll(*out, 0o755)
	limitAddressSpace()
	thorough := *tier == "thorough"
	deadline := 20 * time.Second

	st := cv.NewStats()
	g := &gen{r: cv.NewRand(15)}
	if *replay != "" {
		raw, err := os.ReadFile(*replay)
		if err != nil {
			panic(err)
		}
		var rp struct {
			Case desc `json:"case"`
		}
		if err := json.Unmarshal(raw, &rp); err != nil || rp.Case.DocHex == "" && rp.Case.PwHex == "" && rp.Case.Family == "" {
			// also accept a bare case description
			json.Unmarshal(raw, &rp.Case)
		}
		doc, _ := hex.DecodeString(rp.Case.DocHex)
		pw, _ := hex.DecodeString(rp.Case.PwHex)
		g.cases = []tcase{{Family: "replay", Name: rp.Case.Name, Doc: doc, Pw: pw}}
	} else {
		g.generate(thorough)
	}

	em := newEmitter(*out, map[bool]int{false: 16, true: 16}[true])
	if *replay != "" {
		em = newEmitter(*out, 1)
	}
	seen := map[[32]byte]bool{}
	var ran []ranCase
	var failures []interface{}
	failKeys := map[string]int{}
	var slowest int64
	stopped := ""
	for i, c := range g.cases {
		h := sha256.Sum256(append(append(append([]byte{}, c.Doc...), 0xff, 0x00, 0xff), c.Pw...))
		if seen[h] {
			st.Hit("duplicate-skipped")
			continue
		}
		seen[h] = true
		tree, perr := parseJSON(c.Doc)
		f, ref := reference(tree, perr, c.Pw)
		beyond := false
		if f.tooExpensive() {
			if !f.runsBeyondCap() {
				st.Hit("skipped:cost-above-cap")
				continue
			}
			// outside the property's quantifier, but it fails fast: scrypt.Key panics in makeslice before it
			// allocates anything. Run to tie the model's allocation cap (Keystore/Prims.v scrypt_alloc_ok) to the
			// runtime: the Coq evaluator requires model = Panic exactly when the call panicked.
			beyond = true
			st.Hit("beyond-alloc-cap:run")
		}
		d := desc{Family: c.Family, Name: c.Name, DocHex: hex.EncodeToString(c.Doc), PwHex: hex.EncodeToString(c.Pw),
			Aspects: ref.Aspects, MacValid: ref.MacValid, RefKey: hex.EncodeToString(ref.Key)}
		if printable(c.Doc) {
			d.Doc = string(c.Doc)
		}
		d.Ref = "err"
		if ref.Ok {
			d.Ref = "ok"
		}
		cur, _ := json.Marshal(map[string]interface{}{"index": i, "case": d})
		os.WriteFile(filepath.Join(*out, "current_case.json"), cur, 0o644)

		o := runImpl(c.Doc, c.Pw, deadline)
		if o.Nanos > slowest {
			slowest = o.Nanos
		}
		d.Impl, d.ImplKey, d.ImplMsg = clsName(o.Cls), hex.EncodeToString(o.Key), o.Msg
		key, what := judge(o, ref)
		if beyond && o.Cls == clsPanic && strings.Contains(o.Msg, "makeslice: len out of range") {
			// the expected outcome beyond the allocation cap (not a finding: the quantifier caps the cost
			// parameters); whether the model panics on exactly these documents is decided in Coq
			key, what = "", ""
			st.Hit("beyond-alloc-cap:makeslice-panic")
		} else if beyond {
			st.Hit("beyond-alloc-cap:" + clsName(o.Cls))
		}
		d.Key, d.What = key, what

		st.Evaluations++
		st.Hit("family:" + c.Family)
		st.Hit("impl:" + d.Impl)
		st.Hit("ref:" + d.Ref)
		if perr == nil && tree.K == jObj && f.hasCrypto {
			st.Distinct++
		}
		if ref.MacValid {
			st.Hit("mac-valid")
			if len(ref.Aspects) > 0 {
				st.Hit("mac-valid-but-malformed")
				for _, a := range ref.Aspects {
					st.Hit("mac-valid-but-malformed:" + strings.SplitN(a, ":", 2)[0])
				}
			}
		}
		for _, a := range ref.Aspects {
			st.Hit("malformed:" + strings.SplitN(a, ":", 2)[0])
		}
		if os.Getenv("C15_DEBUG") != "" && ref.Ok && o.Cls == clsErr {
			fmt.Println("ref ok, impl err:", c.Family, c.Name, o.Msg)
		}
		if key != "" {
			failKeys[key]++
			if failKeys[key] <= 4 {
				m := map[string]interface{}{}
				b, _ := json.Marshal(d)
				json.Unmarshal(b, &m)
				failures = append(failures, m)
			}
		}
		if *replay != "" {
			fmt.Printf("implementation: %s key=%s %s\nreference V3 reader: %s key=%s malformed=%v mac_valid=%v\nverdict: %s %s\n",
				d.Impl, d.ImplKey, d.ImplMsg, d.Ref, d.RefKey, ref.Aspects, ref.MacValid, key, what)
		}
		if !em.add(c, tree, perr, f, o, d) {
			st.Hit("go-only (nesting deeper than 64: not evaluated in Coq)")
		}
		if len(st.Samples) < 12 && (i%97 == 0 || key != "") {
			st.Samples = append(st.Samples, map[string]interface{}{"family": d.Family, "name": d.Name, "doc": trunc(string(c.Doc)), "impl": d.Impl, "ref": d.Ref, "malformed": d.Aspects, "mac_valid": d.MacValid})
		}
		ran = append(ran, ranCase{c: c, d: d, o: o})
		if o.Cls == clsHang {
			// the stuck call keeps a core and possibly gigabytes busy: stop here, the finding is recorded
			stopped = fmt.Sprintf("stopped after case %d (%s: %s) did not return within %s", i, c.Family, c.Name, deadline)
			break
		}
	}
	// ---- round 3: the outcome is a function of (document, password) alone -------------------------------
	// Every case is run again, in another order and from several goroutines at once, after all the other
	// documents (valid ones, wrong passwords, damaged files) have gone through the package; then every
	// wallet handed out so far is asked for its key once more.
	if stopped == "" && *replay == "" {
		for _, f := range secondPass(ran, g.r, deadline, st, filepath.Join(*out, "current_case.json")) {
			k := f["key"].(string)
			failKeys[k]++
			if failKeys[k] <= 4 {
				failures = append(failures, f)
			}
		}
	}
	os.Remove(filepath.Join(*out, "current_case.json"))
	if err := em.flush(); err != nil {
		panic(err)
	}
	st.ImplFailures = failures
	keys := []string{}
	for k, n := range failKeys {
		keys = append(keys, fmt.Sprintf("%s x%d", k, n))
	}
	sort.Strings(keys)
	st.Extra["oracle_failures_by_key"] = keys
	st.Extra["slowest_call_ms"] = slowest / 1e6
	st.Extra["coq_cases"] = em.count()
	if stopped != "" {
		st.Extra["stopped"] = stopped
	}
	st.Rule = "valid scrypt/PBKDF2 V3 files written by the harness's own writer (N 2..2^12, r in {1,2,8}, p in {1,2,3}, c in {1..4096}; key 1..2000 bytes; salt 0..64 bytes; 9 password classes) and, from them: every member missing / null / 14 wrong JSON kinds; dklen over {-2^63..2^63} incl. -1,0,16,31,32,33,64,2^31; IV of 0..35,48,64 bytes and malformed hex; cipher / kdf / prf names; scrypt N (non powers of two, 0, 1, negative, at the library limits), r, p (0, negative, r*p at 2^30), PBKDF2 c (<= 0, huge); salt / ciphertext / MAC shapes and single-byte tampering; version / id values; member-name case and duplicate members; extra members; truncation, byte damage, leading/trailing data; top-level shapes; combined mutations of random valid files; arbitrary bytes. Each mutated document is run with the stale MAC and again with the MAC recomputed by the harness (direct x/crypto + sha3 calls) whenever a derived key exists. Cost capped: N <= 2^14, r, p <= 64, c <= 2^16 (documents above the cap inside the library domain are not run, except family scrypt-alloc-cap: 128*N*r > 2^48 with small r, where scrypt.Key panics in makeslice at once -- outside the quantifier, run only to tie the model's allocation cap to the runtime). distinct_nontrivial = distinct (document, password) pairs that parse to a JSON object with a crypto object"
	if err := st.Write(filepath.Join(*out, "stats_C15.json")); err != nil {
		panic(err)
	}
	fmt.Printf("c15: %d cases run, %d to Coq, oracle failures: %v %s\n", st.Evaluations, em.count(), keys, stopped)
}
