package main

// Ordered JSON tree: keeps key order, duplicate keys and the literal text of numbers, so that the
// generator can produce every malformed shape and the reference reader / the Coq model see exactly
// what encoding/json sees.

import (
	"bytes"
	"encoding/json"
	"fmt"
	"io"
	"strings"
)

type jkind int

const (
	jNull jkind = iota
	jBool
	jNum
	jStr
	jArr
	jObj
)

type KV struct {
	K string
	V *J
}

type J struct {
	K jkind
	B bool
	S string // string value, or number literal text
	A []*J
	O []KV
}

func jnull() *J           { return &J{K: jNull} }
func jbool(b bool) *J     { return &J{K: jBool, B: b} }
func jnum(s string) *J    { return &J{K: jNum, S: s} }
func jint(n int64) *J     { return &J{K: jNum, S: fmt.Sprintf("%d", n)} }
func jstr(s string) *J    { return &J{K: jStr, S: s} }
func jarr(a ...*J) *J     { return &J{K: jArr, A: a} }
func jobj(kv ...KV) *J    { return &J{K: jObj, O: kv} }
func kv(k string, v *J) KV { return KV{k, v} }

func (j *J) Clone() *J {
	if j == nil {
		return nil
	}
	c := &J{K: j.K, B: j.B, S: j.S}
	for _, a := range j.A {
		c.A = append(c.A, a.Clone())
	}
	for _, o := range j.O {
		c.O = append(c.O, KV{o.K, o.V.Clone()})
	}
	return c
}

func (j *J) render(sb *bytes.Buffer) {
	switch j.K {
	case jNull:
		sb.WriteString("null")
	case jBool:
		if j.B {
			sb.WriteString("true")
		} else {
			sb.WriteString("false")
		}
	case jNum:
		sb.WriteString(j.S)
	case jStr:
		b, _ := json.Marshal(j.S)
		sb.Write(b)
	case jArr:
		sb.WriteByte('[')
		for i, a := range j.A {
			if i > 0 {
				sb.WriteByte(',')
			}
			a.render(sb)
		}
		sb.WriteByte(']')
	case jObj:
		sb.WriteByte('{')
		for i, o := range j.O {
			if i > 0 {
				sb.WriteByte(',')
			}
			b, _ := json.Marshal(o.K)
			sb.Write(b)
			sb.WriteByte(':')
			o.V.render(sb)
		}
		sb.WriteByte('}')
	}
}

func (j *J) Bytes() []byte {
	var sb bytes.Buffer
	j.render(&sb)
	return sb.Bytes()
}

// exact-key access used by the generator (the documents it builds have unique lower-case keys)
func (j *J) idx(k string) int {
	if j == nil || j.K != jObj {
		return -1
	}
	for i := len(j.O) - 1; i >= 0; i-- {
		if j.O[i].K == k {
			return i
		}
	}
	return -1
}

func (j *J) At(path ...string) *J {
	cur := j
	for _, p := range path {
		i := cur.idx(p)
		if i < 0 {
			return nil
		}
		cur = cur.O[i].V
	}
	return cur
}

// Set replaces (or appends) the member at path; intermediate objects must exist.
func (j *J) Set(v *J, path ...string) bool {
	cur := j
	for _, p := range path[:len(path)-1] {
		i := cur.idx(p)
		if i < 0 {
			return false
		}
		cur = cur.O[i].V
	}
	if cur.K != jObj {
		return false
	}
	last := path[len(path)-1]
	if i := cur.idx(last); i >= 0 {
		cur.O[i].V = v
	} else {
		cur.O = append(cur.O, KV{last, v})
	}
	return true
}

func (j *J) Del(path ...string) bool {
	cur := j
	for _, p := range path[:len(path)-1] {
		i := cur.idx(p)
		if i < 0 {
			return false
		}
		cur = cur.O[i].V
	}
	i := cur.idx(path[len(path)-1])
	if i < 0 {
		return false
	}
	cur.O = append(cur.O[:i:i], cur.O[i+1:]...)
	return true
}

func (j *J) Rename(newKey string, path ...string) bool {
	cur := j
	for _, p := range path[:len(path)-1] {
		i := cur.idx(p)
		if i < 0 {
			return false
		}
		cur = cur.O[i].V
	}
	i := cur.idx(path[len(path)-1])
	if i < 0 {
		return false
	}
	cur.O[i].K = newKey
	return true
}

// leafPaths lists the paths of all members (objects included) of a document.
func (j *J) allPaths(prefix []string, out *[][]string) {
	if j.K != jObj {
		return
	}
	for _, o := range j.O {
		p := append(append([]string{}, prefix...), o.K)
		*out = append(*out, p)
		o.V.allPaths(p, out)
	}
}

// parseJSON reads a document exactly as encoding/json accepts it (json.Valid is the scanner
// json.Unmarshal runs first) into an ordered tree. Strings are unescaped the way Unmarshal does.
func parseJSON(data []byte) (*J, error) {
	if !json.Valid(data) {
		return nil, fmt.Errorf("invalid JSON")
	}
	dec := json.NewDecoder(bytes.NewReader(data))
	dec.UseNumber()
	v, err := parseValue(dec)
	if err != nil {
		return nil, err
	}
	return v, nil
}

func parseValue(dec *json.Decoder) (*J, error) {
	tok, err := dec.Token()
	if err != nil {
		return nil, err
	}
	return parseFrom(dec, tok)
}

func parseFrom(dec *json.Decoder, tok json.Token) (*J, error) {
	switch t := tok.(type) {
	case nil:
		return jnull(), nil
	case bool:
		return jbool(t), nil
	case json.Number:
		return jnum(string(t)), nil
	case string:
		return jstr(t), nil
	case json.Delim:
		switch t {
		case '[':
			out := &J{K: jArr}
			for dec.More() {
				v, err := parseValue(dec)
				if err != nil {
					return nil, err
				}
				out.A = append(out.A, v)
			}
			if _, err := dec.Token(); err != nil {
				return nil, err
			}
			return out, nil
		case '{':
			out := &J{K: jObj}
			for dec.More() {
				kt, err := dec.Token()
				if err != nil {
					return nil, err
				}
				ks, ok := kt.(string)
				if !ok {
					return nil, fmt.Errorf("non-string key")
				}
				v, err := parseValue(dec)
				if err != nil {
					return nil, err
				}
				out.O = append(out.O, KV{ks, v})
			}
			if _, err := dec.Token(); err != nil {
				return nil, err
			}
			return out, nil
		}
	}
	return nil, io.ErrUnexpectedEOF
}

// lookupFold: the member encoding/json would leave in a struct field tagged `name`: every member whose
// key equals the name ignoring case is decoded into the field in document order, so the last one wins.
// (Object-valued duplicates merge in encoding/json; the generator never duplicates object members.)
func (j *J) lookupFold(name string) *J {
	if j == nil || j.K != jObj {
		return nil
	}
	for i := len(j.O) - 1; i >= 0; i-- {
		if strings.EqualFold(j.O[i].K, name) && j.O[i].V.K != jNull {
			return j.O[i].V // a JSON null leaves a non-pointer field untouched: null == absent
		}
	}
	return nil
}
