package main

// The harness's own Web3 Secret Storage V3 reader ("independent V3 implementation" of property C15).
// It shares no code with pkg/keystorev3: generic JSON tree, direct calls to x/crypto scrypt / pbkdf2 /
// sha3 and crypto/aes. It is as strict as the V3 definition allows (everything the property lists as
// malformed is an error) and as lenient as the typed decoding of the implementation in matters of
// *representation* only (case-insensitive member names, last duplicate wins, null == absent == zero
// value, optional "0x" on hex strings, unknown members ignored).

import (
	"bytes"
	"crypto/aes"
	"crypto/cipher"
	"crypto/sha256"
	"encoding/hex"
	"math"
	"regexp"
	"sort"
	"strconv"
	"strings"

	"golang.org/x/crypto/pbkdf2"
	"golang.org/x/crypto/scrypt"
	"golang.org/x/crypto/sha3"
)

func keccak(parts ...[]byte) []byte {
	h := sha3.NewLegacyKeccak256()
	for _, p := range parts {
		h.Write(p)
	}
	return h.Sum(nil)
}

func aesCTR(key, iv, in []byte) []byte {
	blk, err := aes.NewCipher(key)
	if err != nil {
		panic(err)
	}
	out := make([]byte, len(in))
	cipher.NewCTR(blk, iv).XORKeyStream(out, in)
	return out
}

// cost cap of the property's quantifier ("cost parameters capped so the KDF itself stays affordable")
const (
	capN  = 1 << 14
	capRP = 64
	capC  = 1 << 16
)

var intLit = regexp.MustCompile(`^-?(0|[1-9][0-9]*)$`)

// fields is the lenient extraction: what a typed reader gets out of the document.
type fields struct {
	structureBad []string // members of the wrong JSON kind / undecodable hex / non-integer numbers
	topObject    bool
	version      string // literal text, "" if absent
	versionKind  jkind
	hasCrypto    bool
	cipher       *string
	kdf          *string
	ciphertext   []byte
	mac          []byte
	iv           []byte
	dklen, n, r, p, c *int64
	prf          *string
	salt         []byte
}

func (f *fields) bad(what string) { f.structureBad = append(f.structureBad, what) }

func (f *fields) getStr(o *J, name, what string) *string {
	v := o.lookupFold(name)
	if v == nil {
		return nil
	}
	if v.K != jStr {
		f.bad(what + ":kind")
		return nil
	}
	s := v.S
	return &s
}

func (f *fields) getHex(o *J, name, what string) []byte {
	s := f.getStr(o, name, what)
	if s == nil {
		return []byte{}
	}
	b, err := hex.DecodeString(strings.TrimPrefix(*s, "0x"))
	if err != nil {
		f.bad(what + ":hex")
		return []byte{}
	}
	return b
}

func (f *fields) getInt(o *J, name, what string) *int64 {
	v := o.lookupFold(name)
	if v == nil {
		return nil
	}
	if v.K != jNum || !intLit.MatchString(v.S) {
		f.bad(what + ":kind")
		return nil
	}
	n, err := strconv.ParseInt(v.S, 10, 64)
	if err != nil {
		f.bad(what + ":range")
		return nil
	}
	return &n
}

func (f *fields) getObj(o *J, name, what string) *J {
	v := o.lookupFold(name)
	if v == nil {
		return nil
	}
	if v.K != jObj {
		f.bad(what + ":kind")
		return nil
	}
	return v
}

func extract(doc *J) *fields {
	f := &fields{}
	if doc == nil || doc.K != jObj {
		return f
	}
	f.topObject = true
	if v := doc.lookupFold("version"); v != nil {
		f.version, f.versionKind = v.S, v.K
	}
	cr := f.getObj(doc, "crypto", "crypto")
	if cr == nil {
		return f
	}
	f.hasCrypto = true
	f.cipher = f.getStr(cr, "cipher", "cipher")
	f.kdf = f.getStr(cr, "kdf", "kdf")
	f.ciphertext = f.getHex(cr, "ciphertext", "ciphertext")
	f.mac = f.getHex(cr, "mac", "mac")
	f.iv = []byte{}
	if cp := f.getObj(cr, "cipherparams", "cipherparams"); cp != nil {
		f.iv = f.getHex(cp, "iv", "iv")
	}
	f.salt = []byte{}
	if kp := f.getObj(cr, "kdfparams", "kdfparams"); kp != nil && f.kdf != nil {
		switch *f.kdf {
		case "scrypt":
			f.dklen = f.getInt(kp, "dklen", "dklen")
			f.n = f.getInt(kp, "n", "n")
			f.r = f.getInt(kp, "r", "r")
			f.p = f.getInt(kp, "p", "p")
			f.salt = f.getHex(kp, "salt", "salt")
		case "pbkdf2":
			f.dklen = f.getInt(kp, "dklen", "dklen")
			f.c = f.getInt(kp, "c", "c")
			f.prf = f.getStr(kp, "prf", "prf")
			f.salt = f.getHex(kp, "salt", "salt")
		}
	}
	return f
}

func iv(p *int64) int64 {
	if p == nil {
		return 0
	}
	return *p
}
func sv(p *string) string {
	if p == nil {
		return ""
	}
	return *p
}

// scryptParamsOK is RFC 7914's domain (N > 1 a power of two, r, p >= 1, r*p < 2^30) together with the
// memory-size limits golang.org/x/crypto/scrypt documents for a 64-bit int.
func scryptParamsOK(n, r, p int64) bool {
	if n <= 1 || n&(n-1) != 0 || r <= 0 || p <= 0 {
		return false
	}
	const maxInt = math.MaxInt64
	if uint64(r)*uint64(p) >= 1<<30 || r > maxInt/128/p || r > maxInt/256 || n > maxInt/128/r {
		return false
	}
	return true
}

// tooExpensive: inside the library's domain but outside the cost cap of the quantifier; such a
// document is not run at all.
func (f *fields) tooExpensive() bool {
	switch sv(f.kdf) {
	case "scrypt":
		n, r, p := iv(f.n), iv(f.r), iv(f.p)
		return scryptParamsOK(n, r, p) && (n > capN || r > capRP || p > capRP || n*r*p > 1<<18)
	case "pbkdf2":
		return iv(f.c) > capC
	}
	return false
}

// allocCap is the Go runtime's maxAlloc on 64-bit platforms (48 heap address bits). After its parameter
// test scrypt.Key executes make([]uint32, 32*N*r); runtime.makeslice panics ("makeslice: len out of range")
// when those 128*N*r bytes exceed it. Keystore/Prims.v: scrypt_alloc_ok.
const allocCap = int64(1) << 48

// beyondAllocCap: inside the library's parameter limits but the work area of scrypt.Key is larger than the
// runtime can ever allocate, so the call panics at once without allocating anything (it is "just beyond
// the cap" of the property's quantifier in the one direction that can be executed: at or just below the cap
// the runtime would try to map up to 256 TiB and the process would die).
func (f *fields) beyondAllocCap() bool {
	if sv(f.kdf) != "scrypt" {
		return false
	}
	n, r, p := iv(f.n), iv(f.r), iv(f.p)
	// scryptParamsOK guarantees n <= maxInt/128/r: the product does not overflow
	return scryptParamsOK(n, r, p) && 128*n*r > allocCap
}

// runsBeyondCap: a beyond-the-cap document the runner may execute: the first allocation of scrypt.Key
// (xy, 256*r bytes) must be small, or the process would die in it before the panic of the second is reached.
func (f *fields) runsBeyondCap() bool {
	return f.beyondAllocCap() && iv(f.r) <= 1<<12
}

// lenientDK derives the 32-byte key from whatever parameters the file declares, ignoring dklen, prf and
// every other field: the basis of "the MAC is valid for this password". c <= 0 follows the library
// (treated like 1), so that a file can be MAC-valid and still declare a malformed iteration count.
func (f *fields) lenientDK(pw []byte) ([]byte, bool) {
	if f.tooExpensive() {
		return nil, false
	}
	switch sv(f.kdf) {
	case "scrypt":
		if !scryptParamsOK(iv(f.n), iv(f.r), iv(f.p)) {
			return nil, false
		}
		dk, err := scrypt.Key(pw, f.salt, int(iv(f.n)), int(iv(f.r)), int(iv(f.p)), 32)
		if err != nil {
			return nil, false
		}
		return dk, true
	case "pbkdf2":
		return pbkdf2.Key(pw, f.salt, int(iv(f.c)), 32, sha256.New), true
	}
	return nil, false
}

type refOut struct {
	Aspects  []string // why the document is malformed/unsupported ([] = a conforming V3 file)
	MacValid bool     // keccak(lenientDK[16:32] ++ ciphertext) == mac
	Key      []byte   // AES-128-CTR(lenientDK[0:16], iv, ciphertext) when MacValid and |iv| = 16
	Ok       bool     // Aspects == [] && MacValid : the reference returns Key
}

func reference(doc *J, perr error, pw []byte) (*fields, refOut) {
	var out refOut
	if perr != nil {
		out.Aspects = []string{"structure:json"}
		return &fields{}, out
	}
	f := extract(doc)
	asp := map[string]bool{}
	if !f.topObject {
		asp["structure:top"] = true
	} else {
		if !(f.versionKind == jNum && f.version == "3") {
			asp["structure:version"] = true
		}
		if !f.hasCrypto {
			asp["structure:crypto"] = true
		}
	}
	for _, b := range f.structureBad {
		asp["structure:"+b] = true
	}
	if f.hasCrypto {
		if sv(f.cipher) != "aes-128-ctr" {
			asp["cipher"] = true
		}
		switch sv(f.kdf) {
		case "scrypt":
			if !scryptParamsOK(iv(f.n), iv(f.r), iv(f.p)) {
				asp["cost"] = true
			}
		case "pbkdf2":
			if sv(f.prf) != "hmac-sha256" {
				asp["prf"] = true
			}
			if iv(f.c) < 1 {
				asp["cost"] = true
			}
		default:
			asp["kdf"] = true
		}
		if sv(f.kdf) == "scrypt" || sv(f.kdf) == "pbkdf2" {
			if iv(f.dklen) != 32 {
				asp["dklen"] = true
			}
		}
		if len(f.iv) != 16 {
			asp["iv"] = true
		}
		if dk, ok := f.lenientDK(pw); ok {
			if bytes.Equal(keccak(dk[16:32], f.ciphertext), f.mac) {
				out.MacValid = true
				if len(f.iv) == 16 {
					out.Key = aesCTR(dk[0:16], f.iv, f.ciphertext)
				}
			}
		}
	}
	for a := range asp {
		out.Aspects = append(out.Aspects, a)
	}
	sort.Strings(out.Aspects)
	out.Ok = len(out.Aspects) == 0 && out.MacValid
	return f, out
}
