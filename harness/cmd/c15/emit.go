package main

// Case files for the Coq evaluator (Keystore/RunC15.v): the document as the encoding/json lexer delivers
// it, the password, the oracle tables (filled by direct calls to x/crypto, crypto/aes, strconv and
// google/uuid — never firefly-signer) and what ReadWalletFile did.

import (
	"crypto/sha256"
	"fmt"
	"sort"
	"strconv"
	"strings"

	"github.com/google/uuid"
	"golang.org/x/crypto/pbkdf2"
	"golang.org/x/crypto/scrypt"

	"verifharness/cv"
)

const coqHeader = "From Coq Require Import String List NArith ZArith Uint63.\nFrom FFS Require Import Base.Bytes Base.Lit Keystore.RunC15.\nImport ListNotations.\nOpen Scope string_scope. Open Scope N_scope."

type emitter struct {
	w *cv.Writer
}

func newEmitter(dir string, shards int) *emitter {
	return &emitter{w: cv.NewWriter(dir, "C15", coqHeader, "case", "mismatches", shards)}
}

func (j *J) coq() string {
	switch j.K {
	case jNull:
		return "DNull"
	case jBool:
		if j.B {
			return "(DBool true)"
		}
		return "(DBool false)"
	case jNum:
		return "(DNum " + cv.CoqBytes([]byte(j.S)) + ")"
	case jStr:
		return "(DStr " + cv.CoqBytes([]byte(j.S)) + ")"
	case jArr:
		parts := make([]string, len(j.A))
		for i, v := range j.A {
			parts[i] = v.coq()
		}
		return "(DArr [" + strings.Join(parts, "; ") + "])"
	default:
		parts := make([]string, len(j.O))
		for i, o := range j.O {
			parts[i] = "(" + cv.CoqBytes([]byte(o.K)) + ", " + o.V.coq() + ")"
		}
		return "(DObj [" + strings.Join(parts, "; ") + "])"
	}
}

func (j *J) depth() int {
	d := 0
	for _, a := range j.A {
		if x := a.depth(); x > d {
			d = x
		}
	}
	for _, o := range j.O {
		if x := o.V.depth(); x > d {
			d = x
		}
	}
	return d + 1
}

func (j *J) numbers(out map[string]bool) {
	if j.K == jNum {
		out[j.S] = true
	}
	for _, a := range j.A {
		a.numbers(out)
	}
	for _, o := range j.O {
		o.V.numbers(out)
	}
}

func zlit(n int64) string {
	if n < 0 {
		return fmt.Sprintf("(%d)%%Z", n)
	}
	return fmt.Sprintf("%d%%Z", n)
}

func (e *emitter) add(c tcase, tree *J, perr error, f *fields, o implOut, d desc) bool {
	doc := "None"
	var tScrypt, tPbkdf2, tAes, tNum, tUUID []string
	if perr == nil {
		if tree.depth() > 64 {
			return false // very deep nesting: left to the Go-side oracles
		}
		doc = "(Some " + tree.coq() + ")"
		nums := map[string]bool{}
		tree.numbers(nums)
		lits := make([]string, 0, len(nums))
		for l := range nums {
			lits = append(lits, l)
		}
		sort.Strings(lits)
		for _, l := range lits {
			_, err := strconv.ParseFloat(l, 64)
			tNum = append(tNum, fmt.Sprintf("(%s, %v)", cv.CoqBytes([]byte(l)), err == nil))
		}
		if tree.K == jObj {
			seen := map[string]bool{}
			for _, m := range tree.O {
				if strings.EqualFold(m.K, "id") && m.V.K == jStr && m.V.S != "" && !seen[m.V.S] {
					seen[m.V.S] = true
					var u uuid.UUID
					if err := u.UnmarshalText([]byte(m.V.S)); err != nil {
						tUUID = append(tUUID, fmt.Sprintf("(%s, None)", cv.CoqBytes([]byte(m.V.S))))
					} else {
						tUUID = append(tUUID, fmt.Sprintf("(%s, Some %s)", cv.CoqBytes([]byte(m.V.S)), cv.CoqBytes(u[:])))
					}
				}
			}
		}
		// KDF / AES tables: the library called directly on what the file declares, at the only derived-key
		// length the repaired code and the specification ever ask for (32)
		var dk []byte
		if !f.tooExpensive() {
			switch sv(f.kdf) {
			case "scrypt":
				if scryptParamsOK(iv(f.n), iv(f.r), iv(f.p)) {
					k, err := scrypt.Key(c.Pw, f.salt, int(iv(f.n)), int(iv(f.r)), int(iv(f.p)), 32)
					if err == nil {
						dk = k
						tScrypt = append(tScrypt, fmt.Sprintf("(%s, %s, %s, %s, %s, 32%%Z, %s)", cv.CoqBytes(c.Pw), cv.CoqBytes(f.salt),
							zlit(iv(f.n)), zlit(iv(f.r)), zlit(iv(f.p)), cv.CoqBytes(k)))
					}
				}
			case "pbkdf2":
				if iv(f.c) >= 1 {
					dk = pbkdf2.Key(c.Pw, f.salt, int(iv(f.c)), 32, sha256.New)
					tPbkdf2 = append(tPbkdf2, fmt.Sprintf("(%s, %s, %s, 32%%Z, %s)", cv.CoqBytes(c.Pw), cv.CoqBytes(f.salt), zlit(iv(f.c)), cv.CoqBytes(dk)))
				}
			}
		}
		if dk != nil && len(f.iv) == 16 {
			tAes = append(tAes, fmt.Sprintf("(%s, %s, %s, %s)", cv.CoqBytes(dk[:16]), cv.CoqBytes(f.iv), cv.CoqBytes(f.ciphertext),
				cv.CoqBytes(aesCTR(dk[:16], f.iv, f.ciphertext))))
		}
	}
	j := func(l []string) string { return "[" + strings.Join(l, "; ") + "]" }
	tables := "{| t_scrypt := " + j(tScrypt) + "; t_pbkdf2 := " + j(tPbkdf2) + "; t_aes := " + j(tAes) + "; t_num := " + j(tNum) + "; t_uuid := " + j(tUUID) + " |}"
	term := fmt.Sprintf("CRead %s %s %s %d%%nat %s", tables, doc, cv.CoqBytes(c.Pw), o.Cls, cv.CoqBytes(o.Key))
	e.w.Add(term, d)
	return true
}

func (e *emitter) count() int { return e.w.Count() }

func (e *emitter) flush() error { return e.w.Flush() }
