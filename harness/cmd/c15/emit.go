package main

// Case files for the Coq evaluator (Keystore/RunC15.v).

type emitter struct {
	dir    string
	shards int
	n      int
}

func newEmitter(dir string, shards int) *emitter { return &emitter{dir: dir, shards: shards} }

func (e *emitter) add(c tcase, tree *J, perr error, f *fields, o implOut, d desc) {}

func (e *emitter) count() int { return e.n }

func (e *emitter) flush() error { return nil }
