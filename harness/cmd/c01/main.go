// Harness for C01 (signed transactions are valid wire format and recover to the signer).
// Generates transactions / keys / chain ids / modes, runs pkg/ethsigner's signing functions (with the
// real secp256k1.KeyPair as the Signer, wrapped only to record what it is asked and what it answers)
// under recover(), feeds the output back into ethsigner.RecoverRawTransaction, and writes Coq case
// files that Tx/RunC01.v judges against the specification and the model.  The oracle row of each case
// (digest, signature, address of the key) is filled by calling x/crypto sha3 and the decred secp256k1
// library directly — never through firefly-signer.
package main

import (
	"bytes"
	"context"
	"encoding/hex"
	"encoding/json"
	"errors"
	"flag"
	"fmt"
	"math/big"
	"os"
	"path/filepath"
	"sort"
	"strings"

	dsecp "github.com/decred/dcrd/dcrec/secp256k1/v4"
	decdsa "github.com/decred/dcrd/dcrec/secp256k1/v4/ecdsa"
	"github.com/hyperledger/firefly-signer/pkg/ethsigner"
	"github.com/hyperledger/firefly-signer/pkg/ethtypes"
	"github.com/hyperledger/firefly-signer/pkg/secp256k1"
	"golang.org/x/crypto/sha3"
	"verifharness/cv"
)

// ---------- inputs ----------

const (
	modeOriginal = 0
	modeEIP155   = 1
	modeEIP1559  = 2
	modeAuto     = 3
)

var modeNames = []string{"LegacyOriginal", "LegacyEIP155", "EIP1559", "Auto"}

const (
	kindKeyPair = "SKeyPair"
	kindNil     = "SNil"
	kindFails   = "SFails"
	kindCustom  = "SCustom"
)

// jsonDSL is the serialisable form of a byte-DSL value (for replay files)
type jsonDSL struct {
	Hex  string `json:"hex,omitempty"`
	RepB int    `json:"rep_byte,omitempty"`
	RepN int    `json:"rep_n,omitempty"`
}

func (j *jsonDSL) dsl() cv.DSL {
	if j.RepN > 0 {
		return cv.Rep(byte(j.RepB), j.RepN)
	}
	b, _ := hex.DecodeString(j.Hex)
	return cv.Lit(b)
}

// input is everything that determines a case
type input struct {
	Mode     int      `json:"mode"`
	Nonce    *string  `json:"nonce"` // decimal; nil = nil pointer
	GasPrice *string  `json:"gasPrice"`
	MaxPrio  *string  `json:"maxPriorityFeePerGas"`
	MaxFee   *string  `json:"maxFeePerGas"`
	GasLimit *string  `json:"gas"`
	To       *string  `json:"to"` // hex, 20 bytes; nil = nil pointer
	Value    *string  `json:"value"`
	Data     *jsonDSL `json:"data"` // nil = nil slice
	Chain    int64    `json:"chain"`
	Key      string   `json:"key"` // 32 bytes hex
	Kind     string   `json:"kind"`
	CustomV  string   `json:"customV,omitempty"` // decimal, for kind SCustom
	CustomR  string   `json:"customR,omitempty"`
	CustomS  string   `json:"customS,omitempty"`
	Why      string   `json:"why"`
	Judge    bool     `json:"judge,omitempty"` // judge the signature with the executable secp256k1 inside Coq
}

func bigp(s *string) *big.Int {
	if s == nil {
		return nil
	}
	b, ok := new(big.Int).SetString(*s, 10)
	if !ok {
		panic("bad integer " + *s)
	}
	return b
}
func strp(b *big.Int) *string {
	if b == nil {
		return nil
	}
	s := b.String()
	return &s
}
func hexInt(b *big.Int) *ethtypes.HexInteger {
	if b == nil {
		return nil
	}
	return (*ethtypes.HexInteger)(new(big.Int).Set(b))
}

func (in *input) build() *ethsigner.Transaction {
	t := &ethsigner.Transaction{
		Nonce:                hexInt(bigp(in.Nonce)),
		GasPrice:             hexInt(bigp(in.GasPrice)),
		MaxPriorityFeePerGas: hexInt(bigp(in.MaxPrio)),
		MaxFeePerGas:         hexInt(bigp(in.MaxFee)),
		GasLimit:             hexInt(bigp(in.GasLimit)),
		Value:                hexInt(bigp(in.Value)),
		From:                 json.RawMessage(`"0x0102030405060708090a0b0c0d0e0f1011121314"`),
	}
	if in.To != nil {
		b, _ := hex.DecodeString(*in.To)
		a := new(ethtypes.Address0xHex)
		copy(a[:], b)
		t.To = a
	}
	if in.Data != nil {
		t.Data = ethtypes.HexBytes0xPrefix(in.Data.dsl().Expand())
		if t.Data == nil {
			t.Data = ethtypes.HexBytes0xPrefix{}
		}
	}
	return t
}

// snapshot / deep comparison of the caller's struct
type snap struct {
	ints [6]*big.Int
	to   *[20]byte
	data []byte
	dnil bool
	from []byte
}

func cp(h *ethtypes.HexInteger) *big.Int {
	if h == nil {
		return nil
	}
	return new(big.Int).Set((*big.Int)(h))
}
func snapshot(t *ethsigner.Transaction) snap {
	s := snap{ints: [6]*big.Int{cp(t.Nonce), cp(t.GasPrice), cp(t.MaxPriorityFeePerGas), cp(t.MaxFeePerGas), cp(t.GasLimit), cp(t.Value)},
		dnil: t.Data == nil, data: append([]byte{}, t.Data...), from: append([]byte{}, t.From...)}
	if t.To != nil {
		a := [20]byte(*t.To)
		s.to = &a
	}
	return s
}
func sameBig(a, b *big.Int) bool {
	if a == nil || b == nil {
		return a == nil && b == nil
	}
	return a.Cmp(b) == 0
}
func (s snap) equal(o snap) bool {
	for i := range s.ints {
		if !sameBig(s.ints[i], o.ints[i]) {
			return false
		}
	}
	if (s.to == nil) != (o.to == nil) || (s.to != nil && *s.to != *o.to) {
		return false
	}
	return s.dnil == o.dnil && bytes.Equal(s.data, o.data) && bytes.Equal(s.from, o.from)
}

// ---------- signers ----------

type recSigner struct {
	kp   *secp256k1.KeyPair
	msgs [][]byte
	sigs [][3]*big.Int
}

func (s *recSigner) Sign(msg []byte) (*secp256k1.SignatureData, error) {
	s.msgs = append(s.msgs, append([]byte{}, msg...))
	sig, err := s.kp.Sign(msg)
	if sig != nil && sig.V != nil && sig.R != nil && sig.S != nil {
		s.sigs = append(s.sigs, [3]*big.Int{new(big.Int).Set(sig.V), new(big.Int).Set(sig.R), new(big.Int).Set(sig.S)})
	}
	return sig, err
}

type failSigner struct{}

func (failSigner) Sign(msg []byte) (*secp256k1.SignatureData, error) {
	return nil, errors.New("pop")
}

type customSigner struct {
	v, r, s *big.Int
	msgs    [][]byte
}

func (c *customSigner) Sign(msg []byte) (*secp256k1.SignatureData, error) {
	c.msgs = append(c.msgs, append([]byte{}, msg...))
	return &secp256k1.SignatureData{V: new(big.Int).Set(c.v), R: new(big.Int).Set(c.r), S: new(big.Int).Set(c.s)}, nil
}

// ---------- libraries, called directly (oracle) ----------

func keccak(b []byte) []byte {
	h := sha3.NewLegacyKeccak256()
	h.Write(b)
	return h.Sum(nil)
}

// libSign: decred SignCompact(key, digest) as (V, R, S)
func libSign(key, digest []byte) (v, r, s *big.Int) {
	priv := dsecp.PrivKeyFromBytes(key)
	sig := decdsa.SignCompact(priv, digest, false)
	return big.NewInt(int64(sig[0])), new(big.Int).SetBytes(sig[1:33]), new(big.Int).SetBytes(sig[33:65])
}

func libAddress(key []byte) []byte {
	priv := dsecp.PrivKeyFromBytes(key)
	return keccak(priv.PubKey().SerializeUncompressed()[1:])[12:]
}

// ---------- running one case ----------

func callSign(t *ethsigner.Transaction, mode int, s secp256k1.Signer, chain int64) (out []byte, cls int) {
	defer func() {
		if r := recover(); r != nil {
			out, cls = nil, 2
		}
	}()
	var err error
	switch mode {
	case modeOriginal:
		out, err = t.SignLegacyOriginal(s)
	case modeEIP155:
		out, err = t.SignLegacyEIP155(s, chain)
	case modeEIP1559:
		out, err = t.SignEIP1559(s, chain)
	default:
		out, err = t.Sign(s, chain)
	}
	if err != nil {
		return nil, 1
	}
	return out, 0
}

func callPayload(t *ethsigner.Transaction, mode int, chain int64) (sp *ethsigner.TransactionSignaturePayload, pl, hash []byte, ok bool) {
	defer func() {
		if r := recover(); r != nil {
			sp, pl, hash, ok = nil, nil, nil, false
		}
	}()
	switch mode {
	case modeOriginal:
		sp = t.SignaturePayloadLegacyOriginal()
	case modeEIP155:
		sp = t.SignaturePayloadLegacyEIP155(chain)
	case modeEIP1559:
		sp = t.SignaturePayloadEIP1559(chain)
	default:
		sp = t.SignaturePayload(chain)
	}
	return sp, sp.Bytes(), sp.Hash(), true
}

// by hand: payload, sign, Finalize...WithSignature
func callFinalize(t *ethsigner.Transaction, mode int, s secp256k1.Signer, chain int64) (out []byte, ok bool) {
	defer func() {
		if r := recover(); r != nil {
			out, ok = nil, false
		}
	}()
	sp, pl, _, ok := callPayload(t, mode, chain)
	if !ok {
		return nil, false
	}
	sig, err := s.Sign(pl)
	if err != nil {
		return nil, false
	}
	m := mode
	if m == modeAuto {
		if len(pl) > 0 && pl[0] == ethsigner.TransactionType1559 {
			m = modeEIP1559
		} else {
			m = modeEIP155
		}
	}
	switch m {
	case modeOriginal:
		out, err = t.FinalizeLegacyOriginalWithSignature(sp, sig)
	case modeEIP155:
		out, err = t.FinalizeLegacyEIP155WithSignature(sp, sig, chain)
	default:
		out, err = t.FinalizeEIP1559WithSignature(sp, sig)
	}
	return out, err == nil
}

type recovered struct {
	cls     int
	addr    []byte
	tx      *ethsigner.Transaction
	payload []byte
}

func callRecover(raw []byte, chain int64) (r recovered) {
	defer func() {
		if p := recover(); p != nil {
			r = recovered{cls: 2}
		}
	}()
	a, tx, err := ethsigner.RecoverRawTransaction(context.Background(), raw, chain)
	if err != nil || a == nil || tx == nil || tx.Transaction == nil {
		return recovered{cls: 1}
	}
	return recovered{cls: 0, addr: append([]byte{}, a[:]...), tx: tx.Transaction, payload: tx.Payload}
}

// ---------- Coq printing ----------

func coqZ(b *big.Int) string {
	if b.Sign() < 0 {
		return "(" + b.String() + ")%Z"
	}
	return b.String() + "%Z"
}
func coqOptZ(b *big.Int) string {
	if b == nil {
		return "None"
	}
	return "(Some " + coqZ(b) + ")"
}
func coqOptDSL(d *cv.DSL) string {
	if d == nil {
		return "None"
	}
	return "(Some " + d.Coq() + ")"
}
func coqOut(b []byte) string {
	d := cv.Compress(b)
	if len(d.Coq()) <= 6000 {
		return "(OLit " + d.Coq() + ")"
	}
	n, a, c := cv.Cks(b)
	return fmt.Sprintf("(OCks %d %d %d)", n, a, c)
}
func hexIntBig(h *ethtypes.HexInteger) *big.Int {
	if h == nil {
		return nil
	}
	return (*big.Int)(h)
}
func coqTx(n, gp, mp, mf, gl *big.Int, to *cv.DSL, val *big.Int, data *cv.DSL) string {
	return fmt.Sprintf("(mkD %s %s %s %s %s %s %s %s)", coqOptZ(n), coqOptZ(gp), coqOptZ(mp), coqOptZ(mf), coqOptZ(gl),
		coqOptDSL(to), coqOptZ(val), coqOptDSL(data))
}

type runner struct {
	w    *cv.Writer
	st   *cv.Stats
	seen map[string]bool
	cur  string

	judgeEvery int
	judgedKeys map[string]bool
	pending    []pendingCase
}

// cases are buffered with an estimate of their evaluation cost inside Coq and handed to the sharded
// writer heaviest first, so that round-robin sharding spreads the expensive ones (64 KiB Keccak,
// secp256k1 recovery) over all shards
type pendingCase struct {
	term string
	desc interface{}
	cost float64
}

func (rn *runner) add(term string, desc interface{}, cost float64) {
	rn.pending = append(rn.pending, pendingCase{term, desc, cost})
}

func (rn *runner) flush() error {
	sort.SliceStable(rn.pending, func(i, j int) bool { return rn.pending[i].cost > rn.pending[j].cost })
	for _, p := range rn.pending {
		rn.w.Add(p.term, p.desc)
	}
	return rn.w.Flush()
}

func bucketLen(n int) string {
	switch {
	case n == 0:
		return "0"
	case n == 1:
		return "1"
	case n < 55:
		return "2..54"
	case n <= 57:
		return fmt.Sprint(n)
	case n < 255:
		return "58..254"
	case n <= 257:
		return fmt.Sprint(n)
	case n < 65535:
		return "258..65534"
	case n <= 65537:
		return fmt.Sprint(n)
	default:
		return ">65537"
	}
}

// outputs kept to be compared again at the end of the run (a returned slice sharing a buffer with later
// calls would change), and transactions signed again from several goroutines at once
type keptOut struct {
	in      *input
	out     []byte
	outCopy []byte
	pl      []byte
	plCopy  []byte
}

var keptOuts []keptOut

func verifyKept(st *cv.Stats) {
	bad := 0
	for _, k := range keptOuts {
		if !bytes.Equal(k.out, k.outCopy) || !bytes.Equal(k.pl, k.plCopy) {
			bad++
			if bad <= 3 {
				st.ImplFailures = append(st.ImplFailures, map[string]interface{}{"what": "signed bytes / signature payload returned earlier changed after later calls", "key": "", "input": k.in})
			}
		}
	}
	st.Extra["retained_outputs_reverified"] = len(keptOuts)
	// the same transactions, each signed by 8 goroutines at once with one shared KeyPair and one shared struct
	n := 0
	for i, k := range keptOuts {
		if k.in.Kind != kindKeyPair || len(k.outCopy) == 0 || i%7 != 0 || n >= 40 {
			continue
		}
		n++
		key, _ := hex.DecodeString(k.in.Key)
		kp := secp256k1.KeyPairFromBytes(key)
		t := k.in.build()
		res := make(chan bool, 8)
		for g := 0; g < 8; g++ {
			go func() {
				o, c := callSign(t, k.in.Mode, kp, k.in.Chain)
				res <- c == 0 && bytes.Equal(o, k.outCopy)
			}()
		}
		ok := true
		for g := 0; g < 8; g++ {
			ok = <-res && ok
		}
		if !ok {
			st.ImplFailures = append(st.ImplFailures, map[string]interface{}{"what": "signing the same transaction from concurrent goroutines gave different bytes", "key": "", "input": k.in})
		}
	}
	st.Extra["concurrently_signed"] = n
	keptOuts = nil
}

func (rn *runner) run(in *input) {
	st := rn.st
	if b, err := json.Marshal(in); err == nil {
		os.WriteFile(rn.cur, b, 0o644)
	}
	key, _ := hex.DecodeString(in.Key)
	t := in.build()
	before := snapshot(t)

	var (
		out           []byte
		cls           int
		msgs          [][]byte
		iv, ir, is    = big.NewInt(0), big.NewInt(0), big.NewInt(0)
		same2, finsam = true, true
	)
	switch in.Kind {
	case kindKeyPair:
		rs := &recSigner{kp: secp256k1.KeyPairFromBytes(key)}
		out, cls = callSign(t, in.Mode, rs, in.Chain)
		msgs = rs.msgs
		if len(rs.sigs) > 0 {
			iv, ir, is = rs.sigs[0][0], rs.sigs[0][1], rs.sigs[0][2]
		}
		// determinism: a second call on the same struct with a fresh key pair object
		out2, cls2 := callSign(t, in.Mode, secp256k1.KeyPairFromBytes(key), in.Chain)
		same2 = cls == cls2 && bytes.Equal(out, out2)
		// the pieces by hand
		out3, ok3 := callFinalize(t, in.Mode, secp256k1.KeyPairFromBytes(key), in.Chain)
		finsam = ok3 == (cls == 0) && bytes.Equal(out, out3)
	case kindNil:
		out, cls = callSign(t, in.Mode, nil, in.Chain)
	case kindFails:
		out, cls = callSign(t, in.Mode, failSigner{}, in.Chain)
	case kindCustom:
		v, _ := new(big.Int).SetString(in.CustomV, 10)
		r, _ := new(big.Int).SetString(in.CustomR, 10)
		s, _ := new(big.Int).SetString(in.CustomS, 10)
		c := &customSigner{v: v, r: r, s: s}
		out, cls = callSign(t, in.Mode, c, in.Chain)
		msgs = c.msgs
	}
	_, pl, hash, plok := callPayload(t, in.Mode, in.Chain)
	if !plok {
		st.ImplFailures = append(st.ImplFailures, map[string]interface{}{"what": "SignaturePayload panicked", "input": in})
	}
	if len(out) <= 2048 && len(keptOuts) < 2000 {
		keptOuts = append(keptOuts, keptOut{in, out, append([]byte{}, out...), pl, append([]byte{}, pl...)})
	}
	// every message the signer was asked to sign is the signature payload (normally exactly one)
	msgSame := len(msgs) >= 1
	for _, m := range msgs {
		msgSame = msgSame && bytes.Equal(m, pl)
	}
	if in.Kind == kindNil || in.Kind == kindFails {
		msgSame = true
	}

	// oracle row from the libraries
	odig := make([]byte, 32)
	ov, or, os_ := big.NewInt(0), big.NewInt(0), big.NewInt(0)
	if len(msgs) > 0 {
		odig = keccak(msgs[0])
	}
	kaddr := libAddress(key)
	switch in.Kind {
	case kindKeyPair:
		if len(msgs) > 0 {
			ov, or, os_ = libSign(key, odig)
		}
	case kindCustom:
		ov, _ = new(big.Int).SetString(in.CustomV, 10)
		or, _ = new(big.Int).SetString(in.CustomR, 10)
		os_, _ = new(big.Int).SetString(in.CustomS, 10)
	}

	// recovery of the output with the same chain id
	rec := recovered{cls: 1}
	if cls == 0 && in.Kind == kindKeyPair {
		rec = callRecover(out, in.Chain)
	}
	unmod := before.equal(snapshot(t))

	// Referee issue 1 (the "caller's transaction is not modified" clause is carried by the run, not
	// by a theorem): the deep snapshot above sees t.Data[:len] only.  Sign the same transaction again
	// with Data as a sub-slice of ONE larger buffer (cap > len, sentinel bytes behind it): a write
	// through the aliased rlp.Data(t.Data) / an append onto it lands in the sentinel.  The bytes must
	// be the same as with a separately allocated Data and the buffer must be unchanged.
	if in.Kind == kindKeyPair && in.Data != nil && len(t.Data) <= 4096 {
		ar := cv.NewArena(len(t.Data) + 64)
		t2 := in.build()
		t2.Data = ethtypes.HexBytes0xPrefix(ar.Put(t2.Data))
		ar.Put(bytes.Repeat([]byte{0xa5}, 40))
		asnap := ar.Snapshot()
		before2 := snapshot(t2)
		outA, clsA := callSign(t2, in.Mode, secp256k1.KeyPairFromBytes(key), in.Chain)
		_, plA, _, _ := callPayload(t2, in.Mode, in.Chain)
		if clsA != cls || !bytes.Equal(outA, out) || !bytes.Equal(plA, pl) || !ar.Unchanged(asnap) || !before2.equal(snapshot(t2)) {
			st.ImplFailures = append(st.ImplFailures, map[string]interface{}{
				"what": "signing a transaction whose Data is a sub-slice of a larger buffer (cap > len) wrote behind the caller's slice, modified it, or gave different bytes",
				"key":  "", "input": in})
		}
		if n, ok := st.Extra["arena_data_signed"].(int); ok {
			st.Extra["arena_data_signed"] = n + 1
		} else {
			st.Extra["arena_data_signed"] = 1
		}
	}

	// ---- statistics ----
	st.Hit("mode:" + modeNames[in.Mode])
	st.Hit("kind:" + in.Kind)
	st.Hit(fmt.Sprintf("class:%d", cls))
	if in.Data == nil {
		st.Hit("data:nil")
	} else {
		st.Hit("datalen:" + bucketLen(len(t.Data)))
	}
	if in.To == nil {
		st.Hit("to:nil")
	} else {
		st.Hit("to:set")
	}
	st.Hit("outlen:" + bucketLen(len(out)))
	st.Hit("payloadlen:" + bucketLen(len(pl)))
	switch {
	case in.Chain == 0, in.Chain == 1, in.Chain == 1337, in.Chain == 1<<31, in.Chain == 1<<53:
		st.Hit(fmt.Sprintf("chain:%d", in.Chain))
	case in.Chain < 0:
		st.Hit("chain:negative")
	case in.Chain < 1<<31:
		st.Hit("chain:<2^31")
	case in.Chain <= 1<<53:
		st.Hit("chain:2^31..2^53")
	default:
		st.Hit("chain:>2^53")
	}
	if in.Kind == kindKeyPair {
		st.Hit(fmt.Sprintf("R-bytes:%d", len(ir.Bytes())))
		st.Hit(fmt.Sprintf("S-bytes:%d", len(is.Bytes())))
		st.Hit(fmt.Sprintf("V:%s", iv))
		if key[0] == 0 {
			st.Hit("key:leading-zero")
		}
	}
	if len(out) > 0 {
		if out[0] == 0x02 {
			st.Hit("format:0x02")
		} else {
			st.Hit("format:legacy")
		}
	}

	// ---- the case ----
	var toD, dataD *cv.DSL
	if in.To != nil {
		b, _ := hex.DecodeString(*in.To)
		d := cv.Lit(b)
		toD = &d
	}
	if in.Data != nil {
		d := in.Data.dsl()
		dataD = &d
	}
	txTerm := coqTx(bigp(in.Nonce), bigp(in.GasPrice), bigp(in.MaxPrio), bigp(in.MaxFee), bigp(in.GasLimit), toD, bigp(in.Value), dataD)
	recTerm := fmt.Sprintf("(mkRecov %d (BLit \"\") (mkD None None None None None None None None) (OLit (BLit \"\")))", rec.cls)
	if rec.cls == 0 {
		var rto *cv.DSL
		if rec.tx.To != nil {
			d := cv.Lit(rec.tx.To[:])
			rto = &d
		}
		rd := cv.Compress([]byte(rec.tx.Data))
		recTerm = fmt.Sprintf("(mkRecov 0 %s %s %s)", cv.CoqBytes(rec.addr),
			coqTx(hexIntBig(rec.tx.Nonce), hexIntBig(rec.tx.GasPrice), hexIntBig(rec.tx.MaxPriorityFeePerGas), hexIntBig(rec.tx.MaxFeePerGas),
				hexIntBig(rec.tx.GasLimit), rto, hexIntBig(rec.tx.Value), &rd),
			coqOut(rec.payload))
	}
	b2 := func(b bool) string {
		if b {
			return "true"
		}
		return "false"
	}
	judge := in.Judge || (in.Kind == kindKeyPair && len(rn.pending)%rn.judgeEvery == 0)
	if judge && in.Kind == kindKeyPair {
		st.Hit("signature judged by Secp256k1Exec")
		rn.judgedKeys[in.Key] = true
	}
	term := fmt.Sprintf("CSign %d %s %s %s %s %s %s %s %s %s %s %d %s %s %s %s %s %s %s %s %s %s %s",
		in.Mode, txTerm, coqZ(big.NewInt(in.Chain)), in.Kind, coqZ(new(big.Int).SetBytes(key)), b2(judge),
		cv.CoqBytes(odig), coqZ(ov), coqZ(or), coqZ(os_), cv.CoqBytes(kaddr),
		cls, coqOut(out), coqZ(iv), coqZ(ir), coqZ(is),
		coqOut(pl), cv.CoqBytes(hash), b2(msgSame), b2(same2), b2(unmod), b2(finsam), recTerm)
	inKey := fmt.Sprintf("%d|%s|%d|%s|%s|%s%s%s", in.Mode, txTerm, in.Chain, in.Key, in.Kind, in.CustomV, in.CustomR, in.CustomS)
	if !rn.seen[inKey] {
		rn.seen[inKey] = true
		if in.Kind == kindKeyPair || in.Kind == kindCustom {
			st.Distinct++
		}
	}
	desc := map[string]interface{}{"input": in, "impl_class": cls, "impl_out": trunc(out), "impl_payload": trunc(pl),
		"impl_hash": hex.EncodeToString(hash), "recover_class": rec.cls, "recover_addr": hex.EncodeToString(rec.addr),
		"key_addr_lib": hex.EncodeToString(kaddr), "second_run_same": same2, "unmodified": unmod, "finalize_same": finsam}
	cost := 0.15 + 0.05*float64(len(pl)+len(out))/136
	if judge && in.Kind == kindKeyPair {
		cost += 0.65
	}
	rn.add(term, desc, cost)
	if len(st.Samples) < 6 && (len(rn.pending)%37 == 1) {
		st.Samples = append(st.Samples, desc)
	}
}

func trunc(b []byte) string {
	if len(b) > 300 {
		return hex.EncodeToString(b[:300]) + fmt.Sprintf("...(%d bytes)", len(b))
	}
	return hex.EncodeToString(b)
}

// ---------- generators ----------

var secpN, _ = new(big.Int).SetString("FFFFFFFFFFFFFFFFFFFFFFFFFFFFFFFEBAAEDCE6AF48A03BBFD25E8CD0364141", 16)

func pow2(k int) *big.Int { return new(big.Int).Lsh(big.NewInt(1), uint(k)) }

// boundary magnitudes of the property's quantifier: 0, 1, 0x7f, 0x80, 2^8k-1, 2^8k, 2^256-1
func boundaryInts() []*big.Int {
	l := []*big.Int{big.NewInt(0), big.NewInt(1), big.NewInt(0x7f), big.NewInt(0x80)}
	for k := 1; k <= 32; k++ {
		l = append(l, new(big.Int).Sub(pow2(8*k), big.NewInt(1)))
		if k < 32 {
			l = append(l, pow2(8*k))
		}
	}
	return l
}

func key32(b *big.Int) string { return hex.EncodeToString(b.FillBytes(make([]byte, 32))) }

func fixedKeys() []string {
	return []string{
		key32(big.NewInt(1)),
		key32(big.NewInt(2)),
		key32(new(big.Int).Sub(secpN, big.NewInt(1))),
		key32(new(big.Int).Sub(secpN, big.NewInt(2))),
		"00000000000000000000000000000000000000000000000000000000000001ff", // 30 leading zero bytes
		"0000a1b2c3d4e5f60718293a4b5c6d7e8f90a1b2c3d4e5f60718293a4b5c6d7e", // two leading zero bytes
		"00ffffffffffffffffffffffffffffffffffffffffffffffffffffffffffffff", // one leading zero byte
		"4c0883a69102937d6231471b5dbb6204fe5129617082792ae468d01a3f362318",
	}
}

func randKey(r *cv.Rand) string {
	for {
		b := new(big.Int).SetBytes(r.Bytes(32))
		if b.Sign() > 0 && b.Cmp(secpN) < 0 {
			return key32(b)
		}
	}
}

func randInt(r *cv.Rand, bounds []*big.Int) *big.Int {
	switch c := r.Intn(10); {
	case c == 0:
		return nil
	case c < 6:
		return new(big.Int).Set(bounds[r.Intn(len(bounds))])
	case c < 9:
		return new(big.Int).SetBytes(r.Bytes(1 + r.Intn(32)))
	default:
		return big.NewInt(int64(r.Intn(1000)))
	}
}

var chains = []int64{0, 1, 1337, 1 << 31, 1 << 53}
var moreChains = []int64{2, 127, 128, 255, 256, 1<<31 - 1, 1 << 32, 1<<53 - 1, 46, 47, 110, 111} // 2c+35 crossing 0x7f/0x80 and one byte

func randChain(r *cv.Rand) int64 {
	switch c := r.Intn(10); {
	case c < 5:
		return chains[r.Intn(len(chains))]
	case c < 8:
		return moreChains[r.Intn(len(moreChains))]
	default:
		return int64(r.U64() % (1<<53 + 1))
	}
}

var dataLens = []int{0, 1, 1, 2, 31, 32, 54, 55, 56, 57, 100, 255, 256, 257, 1000}

func randData(r *cv.Rand, allowBig bool) *jsonDSL {
	switch c := r.Intn(12); {
	case c == 0:
		return nil
	case c == 1 && allowBig:
		return &jsonDSL{RepB: int(r.Byte()), RepN: []int{65535, 65536, 65537}[r.Intn(3)]}
	}
	n := dataLens[r.Intn(len(dataLens))]
	if r.Intn(4) == 0 {
		n = r.Intn(300)
	}
	if n == 1 {
		return &jsonDSL{Hex: hex.EncodeToString([]byte{[]byte{0x00, 0x01, 0x7f, 0x80, 0x81, 0xff}[r.Intn(6)]})}
	}
	if n > 64 && r.Bool() {
		return &jsonDSL{RepB: int(r.Byte()), RepN: n}
	}
	return &jsonDSL{Hex: hex.EncodeToString(r.Bytes(n))}
}

func randTo(r *cv.Rand) *string {
	var b []byte
	switch r.Intn(6) {
	case 0:
		return nil
	case 1:
		b = make([]byte, 20)
	case 2:
		b = bytes.Repeat([]byte{0xff}, 20)
	case 3:
		b = append([]byte{0x00, 0x00}, r.Bytes(18)...)
	default:
		b = r.Bytes(20)
	}
	s := hex.EncodeToString(b)
	return &s
}

func baseInput(mode int, chain int64, key string, why string) *input {
	to := "3535353535353535353535353535353535353535"
	return &input{Mode: mode, Nonce: strp(big.NewInt(9)), GasPrice: strp(big.NewInt(20000000000)), MaxPrio: strp(big.NewInt(1500000000)),
		MaxFee: strp(big.NewInt(30000000000)), GasLimit: strp(big.NewInt(21000)), To: &to, Value: strp(pow2(60)),
		Data: &jsonDSL{Hex: "a9059cbb"}, Chain: chain, Key: key, Kind: kindKeyPair, Why: why}
}

func (in *input) setField(i int, v *big.Int) {
	switch i {
	case 0:
		in.Nonce = strp(v)
	case 1:
		in.GasPrice = strp(v)
	case 2:
		in.MaxPrio = strp(v)
	case 3:
		in.MaxFee = strp(v)
	case 4:
		in.GasLimit = strp(v)
	default:
		in.Value = strp(v)
	}
}

// dataLenFor searches the data length for which the signed bytes (or the signature payload) of the
// case reach exactly [target] bytes — so that the *list* header crosses its thresholds too.
func dataLenFor(in *input, target int, ofPayload bool) (int, bool) {
	measure := func(n int) int {
		c := *in
		c.Data = &jsonDSL{RepB: 0x5a, RepN: n}
		if n == 0 {
			c.Data = &jsonDSL{}
		}
		t := c.build()
		if ofPayload {
			_, pl, _, ok := callPayload(t, c.Mode, c.Chain)
			if !ok {
				return -1
			}
			return len(pl)
		}
		key, _ := hex.DecodeString(c.Key)
		out, cls := callSign(t, c.Mode, secp256k1.KeyPairFromBytes(key), c.Chain)
		if cls != 0 {
			return -1
		}
		return len(out)
	}
	lo := target - 140
	if lo < 0 {
		lo = 0
	}
	for n := lo; n <= target; n++ {
		if measure(n) == target {
			return n, true
		}
	}
	return 0, false
}

func main() {
	out := flag.String("out", "", "output directory")
	tier := flag.String("tier", "quick", "quick|thorough")
	replay := flag.String("replay", "", "replay file")
	flag.Parse()
	if *out == "" {
		fmt.Fprintln(os.Stderr, "need -out")
		os.Exit(2)
	}
	os.MkdirAll(*out, 0o755)
	header := "From Coq Require Import String List NArith ZArith Uint63.\nFrom FFS Require Import Base.Bytes Base.Lit Rlp.Run Tx.RunC01.\nImport ListNotations.\nOpen Scope string_scope. Open Scope N_scope."
	st := cv.NewStats()
	shards := 16
	if *replay != "" {
		shards = 1
	}
	rn := &runner{w: cv.NewWriter(*out, "C01", header, "case", "mismatches", shards), st: st, seen: map[string]bool{},
		cur: filepath.Join(*out, "current_case.json"), judgeEvery: 40, judgedKeys: map[string]bool{}}
	if *tier == "thorough" {
		rn.judgeEvery = 5
	}

	if *replay != "" {
		raw, err := os.ReadFile(*replay)
		if err != nil {
			panic(err)
		}
		var rp struct {
			Case struct {
				Input *input `json:"input"`
			} `json:"case"`
		}
		json.Unmarshal(raw, &rp)
		if rp.Case.Input == nil {
			var f struct {
				Case struct {
					Input *input `json:"input"`
				} `json:"case"`
			}
			json.Unmarshal(raw, &f)
			fmt.Println("replay: no input recorded in", *replay)
			os.Exit(0)
		}
		rn.run(rp.Case.Input)
		rn.flush()
		fmt.Println("implementation:", st.Distribution)
		st.Evaluations = 1
		st.Write(filepath.Join(*out, "stats_C01.json"))
		return
	}

	thorough := *tier == "thorough"
	r := cv.NewRand(1)
	keys := fixedKeys()
	bounds := boundaryInts()
	stdKey := keys[7]

	// --- 1. every mode x every listed chain id x a few keys, plain transaction ---
	for mode := 0; mode < 4; mode++ {
		for _, c := range chains {
			rn.run(baseInput(mode, c, stdKey, "mode x chain"))
		}
		for _, c := range moreChains {
			if thorough || mode == modeEIP155 || mode == modeAuto {
				in := baseInput(mode, c, stdKey, "mode x chain (V width)")
				if mode == modeAuto {
					in.MaxPrio, in.MaxFee = nil, nil
				}
				rn.run(in)
			}
		}
		for _, k := range keys {
			in := baseInput(mode, 1337, k, "mode x key")
			in.Judge = thorough || mode == modeEIP155 || mode == modeEIP1559
			rn.run(in)
		}
	}

	// --- 2. every integer field x every boundary magnitude (one at a time), modes cycling ---
	n := 0
	for fi := 0; fi < 6; fi++ {
		for bi, b := range bounds {
			// quick: each boundary value in two of the six fields; thorough: the full cross product
			if !thorough && bi%3 != fi%3 {
				continue
			}
			modes := []int{n % 4}
			if thorough {
				modes = []int{0, 1, 2, 3}
			}
			for _, mode := range modes {
				in := baseInput(mode, chains[n%len(chains)], stdKey, fmt.Sprintf("field %d at boundary", fi))
				in.setField(fi, b)
				rn.run(in)
			}
			n++
		}
		for mode := 0; mode < 4; mode++ { // nil pointer in that field
			in := baseInput(mode, 1, stdKey, fmt.Sprintf("field %d nil", fi))
			in.setField(fi, nil)
			rn.run(in)
		}
	}
	// all fields at the extremes together
	for mode := 0; mode < 4; mode++ {
		for _, v := range []*big.Int{big.NewInt(0), new(big.Int).Sub(pow2(256), big.NewInt(1)), nil} {
			in := baseInput(mode, 1<<53, stdKey, "all fields at one extreme")
			for fi := 0; fi < 6; fi++ {
				in.setField(fi, v)
			}
			rn.run(in)
		}
	}

	// --- 3. destination ---
	for mode := 0; mode < 4; mode++ {
		for _, to := range []*string{nil, sp("0000000000000000000000000000000000000000"), sp("ffffffffffffffffffffffffffffffffffffffff"),
			sp("00000000000000000000000000000000000000ff"), sp("7f00000000000000000000000000000000000000")} {
			in := baseInput(mode, 1, stdKey, "destination")
			in.To = to
			rn.run(in)
		}
	}

	// --- 4. data lengths at every threshold of the property's quantifier ---
	for mode := 0; mode < 4; mode++ {
		in := baseInput(mode, 1, stdKey, "data nil")
		in.Data = nil
		rn.run(in)
		in = baseInput(mode, 1, stdKey, "data empty non-nil")
		in.Data = &jsonDSL{}
		rn.run(in)
		for _, b := range []byte{0x00, 0x7f, 0x80, 0xff} {
			in = baseInput(mode, 1, stdKey, "data one byte")
			in.Data = &jsonDSL{Hex: hex.EncodeToString([]byte{b})}
			rn.run(in)
		}
		for _, l := range []int{2, 54, 55, 56, 57, 255, 256, 257} {
			in = baseInput(mode, 1337, stdKey, "data length threshold")
			in.Data = &jsonDSL{RepB: 0x61, RepN: l}
			if l <= 57 {
				in.Data = &jsonDSL{Hex: hex.EncodeToString(r.Bytes(l))}
			}
			rn.run(in)
		}
		for _, l := range []int{65535, 65536} {
			if thorough || (mode == modeEIP155 && l == 65535) || (mode == modeEIP1559 && l == 65536) {
				in = baseInput(mode, 1, stdKey, "data length 64KiB threshold")
				in.Data = &jsonDSL{RepB: 0x62, RepN: l}
				rn.run(in)
			}
		}
	}
	// whole signed bytes / whole signature payload at the list-header thresholds
	targets := []int{55, 56, 57, 255, 256, 257, 258, 259}
	if thorough {
		targets = append(targets, 65535, 65536, 65537, 65538, 65539, 65540)
	}
	for mode := 0; mode < 3; mode++ {
		for _, target := range targets {
			for _, ofPayload := range []bool{false, true} {
				in := baseInput(mode, 1, stdKey, fmt.Sprintf("total length %d (payload=%v)", target, ofPayload))
				in.To = nil
				in.Value = strp(big.NewInt(0))
				in.GasPrice = strp(big.NewInt(1))
				in.MaxFee, in.MaxPrio = strp(big.NewInt(1)), strp(big.NewInt(0))
				in.GasLimit = strp(big.NewInt(1))
				if l, ok := dataLenFor(in, target, ofPayload); ok {
					in.Data = &jsonDSL{RepB: 0x5a, RepN: l}
					if l == 0 {
						in.Data = &jsonDSL{}
					}
					rn.run(in)
				} else {
					st.Hit("total-length-target-not-reachable")
				}
			}
		}
	}

	// --- 5. automatic mode: which fields decide ---
	for _, mp := range []*big.Int{nil, big.NewInt(0), big.NewInt(1), pow2(64)} {
		for _, mf := range []*big.Int{nil, big.NewInt(0), big.NewInt(1), pow2(64)} {
			for _, gp := range []*big.Int{nil, big.NewInt(0), big.NewInt(7)} {
				in := baseInput(modeAuto, 1337, stdKey, "auto mode selection")
				in.MaxPrio, in.MaxFee, in.GasPrice = strp(mp), strp(mf), strp(gp)
				rn.run(in)
			}
		}
	}

	// --- 6. signatures whose R or S has leading zero bytes (searched with the library) ---
	zeroHits := map[string]int{}
	wantPer := 2
	budget := 4000
	if thorough {
		wantPer = 4
		budget = 400000
	}
	for mode := 0; mode < 3; mode++ {
		for _, what := range []string{"R", "S"} {
			found := 0
			for i := 0; i < budget && found < wantPer; i++ {
				in := baseInput(mode, 1, keys[(i/500)%len(keys)], what+" with leading zero byte")
				in.Nonce = strp(big.NewInt(int64(i)))
				in.MaxFee, in.MaxPrio = strp(big.NewInt(2)), strp(big.NewInt(1))
				t := in.build()
				_, pl, _, ok := callPayload(t, mode, in.Chain)
				if !ok {
					break
				}
				key, _ := hex.DecodeString(in.Key)
				_, lr, ls := libSign(key, keccak(pl))
				x := lr
				if what == "S" {
					x = ls
				}
				if len(x.Bytes()) < 32 {
					// in the thorough tier insist on two zero bytes for half of them
					if thorough && found%2 == 1 && len(x.Bytes()) > 30 {
						continue
					}
					found++
					zeroHits[fmt.Sprintf("%s:%d-bytes", what, len(x.Bytes()))]++
					in.Judge = true
					rn.run(in)
				}
			}
		}
	}
	st.Extra["leading_zero_signatures"] = zeroHits

	// --- 7. other signers: nil, failing, arbitrary answers (model correspondence only) ---
	for mode := 0; mode < 4; mode++ {
		in := baseInput(mode, 1, stdKey, "nil signer")
		in.Kind = kindNil
		rn.run(in)
		in = baseInput(mode, 1, stdKey, "failing signer")
		in.Kind = kindFails
		rn.run(in)
		two64 := pow2(64)
		for _, v := range []*big.Int{big.NewInt(0), big.NewInt(1), big.NewInt(26), big.NewInt(27), big.NewInt(28), big.NewInt(29), big.NewInt(30),
			new(big.Int).Add(two64, big.NewInt(27)), new(big.Int).Add(two64, big.NewInt(28)), big.NewInt(-27), big.NewInt(-28), new(big.Int).Sub(big.NewInt(27), two64),
			new(big.Int).Sub(pow2(63), big.NewInt(1)), pow2(63), big.NewInt(255), big.NewInt(256)} {
			in = baseInput(mode, []int64{0, 1, 1337, 1 << 53}[r.Intn(4)], stdKey, "custom signer answer")
			in.Kind = kindCustom
			in.CustomV = v.String()
			rs := []*big.Int{big.NewInt(0), big.NewInt(1), big.NewInt(0x7f), big.NewInt(0x80), pow2(248), new(big.Int).Sub(pow2(256), big.NewInt(1)), pow2(256), pow2(300), big.NewInt(-5), new(big.Int).SetBytes(r.Bytes(32))}
			in.CustomR = rs[r.Intn(len(rs))].String()
			in.CustomS = rs[r.Intn(len(rs))].String()
			rn.run(in)
		}
		// negative / out-of-quantifier inputs: the model must still agree with the code
		in = baseInput(mode, -1, stdKey, "negative chain id (outside the quantifier)")
		in.Kind = kindCustom
		in.CustomV, in.CustomR, in.CustomS = "27", "5", "6"
		rn.run(in)
		in = baseInput(mode, -(1 << 40), stdKey, "negative chain id (outside the quantifier)")
		in.Kind = kindCustom
		in.CustomV, in.CustomR, in.CustomS = "28", "5", "6"
		rn.run(in)
		// wave 6: chain ids above 2^53 up to the largest int64 (theorem C01_wire_format_no_size_guard is for
		// 0 <= chain < 2^63): a 27/28 answer with 32-byte R, S; judged in Coq against the specification
		// (codes 10/11 of the SCustom branch) and against the model; V' = V + 2*chain + 8 is a 9-byte scalar
		// from 2^64 on (2*chain+35 = 2^63-1 at chain 2^62-18: where an int64 V would overflow)
		for ci, c := range []int64{1<<53 + 1, 1 << 61, 1<<62 - 18, 1<<62 - 17, 1 << 62, 1<<63 - 1} {
			in = baseInput(mode, c, stdKey, "chain id above 2^53 (arbitrary signer, judged against the specification)")
			in.Kind = kindCustom
			in.CustomV = []string{"27", "28"}[(ci+mode)%2]
			in.CustomR = new(big.Int).SetBytes(r.Bytes(32)).String()
			in.CustomS = new(big.Int).SetBytes(r.Bytes(32)).String()
			if ci%3 == 2 {
				in.To = nil
				in.Data = &jsonDSL{RepB: 0x80, RepN: 60}
			}
			rn.run(in)
		}
		in = baseInput(mode, 5, stdKey, "negative fields (outside the quantifier)")
		in.Kind = kindCustom
		in.CustomV, in.CustomR, in.CustomS = "28", "5", "6"
		for fi := 0; fi < 6; fi++ {
			in.setField(fi, big.NewInt(int64(-1-fi*300)))
		}
		rn.run(in)
		in = baseInput(mode, 5, stdKey, "fields above 2^256 (outside the quantifier)")
		for fi := 0; fi < 6; fi++ {
			in.setField(fi, new(big.Int).Add(pow2(256+8*fi), big.NewInt(int64(fi))))
		}
		rn.run(in)
	}

	// --- 8. random transactions ---
	nRand := 150
	if thorough {
		nRand = 5000
	}
	for i := 0; i < nRand; i++ {
		mode := r.Intn(4)
		key := keys[r.Intn(len(keys))]
		if r.Bool() {
			key = randKey(r)
		}
		in := &input{Mode: mode, Nonce: strp(randInt(r, bounds)), GasPrice: strp(randInt(r, bounds)), MaxPrio: strp(randInt(r, bounds)),
			MaxFee: strp(randInt(r, bounds)), GasLimit: strp(randInt(r, bounds)), To: randTo(r), Value: strp(randInt(r, bounds)),
			Data: randData(r, thorough && i%40 == 0), Chain: randChain(r), Key: key, Kind: kindKeyPair, Why: "random"}
		rn.run(in)
	}

	verifyKept(st)

	// --- 9. data of 2^24 bytes and more (4-byte RLP lengths): Go-side oracle, see bigdata.go ---
	nBig := bigDataCases(st, r, stdKey, thorough)
	st.Extra["big_data_cases_judged_in_go"] = nBig

	// the address of every key whose signatures were judged inside Coq: library vs Secp256k1Exec
	var jk []string
	for k := range rn.judgedKeys {
		jk = append(jk, k)
	}
	sort.Strings(jk)
	for _, k := range jk {
		kb, _ := hex.DecodeString(k)
		rn.add(fmt.Sprintf("CKey %s %s", coqZ(new(big.Int).SetBytes(kb)), cv.CoqBytes(libAddress(kb))),
			map[string]interface{}{"key": k, "lib_address": hex.EncodeToString(libAddress(kb)), "why": "address of the key: library vs Secp256k1Exec"}, 0.45)
		st.Hit("key address judged by Secp256k1Exec")
	}
	if err := rn.flush(); err != nil {
		panic(err)
	}
	os.Remove(rn.cur)
	st.Evaluations = rn.w.Count() + nBig
	st.Rule = "transactions built field by field: every integer field at 0, 1, 0x7f, 0x80, 2^8k-1, 2^8k (k=1..32), 2^256-1 and nil, one at a time and all together; destination nil / zero / 0xff.. / leading-zero / random; data nil, empty, 1 byte (<0x80, >=0x80), 2, 54..57, 255..257, 65535, 65536 bytes; data length solved so that the whole signed bytes and the whole signature payload are exactly 55..57, 255..259 (65535..65540 thorough) bytes; chain ids 0, 1, 1337, 2^31, 2^53 and the values where 2c+35 changes width; keys 1, 2, n-1, n-2, keys with 1/2/30 leading zero bytes, random; signatures searched until R or S is shorter than 32 bytes; every case in each of the four modes or cycling through them; plus nil / failing / arbitrary-answer signers and random transactions. Each case: Sign*, SignaturePayload*.Bytes()/Hash(), a second Sign*, the Finalize* path by hand, RecoverRawTransaction of the output, deep comparison of the caller's struct. distinct = distinct (mode, transaction, chain id, key, signer); trivial (nil / failing signer) cases are not counted"
	if err := st.Write(filepath.Join(*out, "stats_C01.json")); err != nil {
		panic(err)
	}
	_ = strings.Join
}

func sp(s string) *string { return &s }
