// Go-side property oracle of C01 for transactions whose data (and hence the enclosing RLP list) needs a
// 4-byte RLP length (2^24 bytes and more).  The Gallina model cannot hash 16 MiB inside vm_compute, so
// these cases are judged here against an independent transcription of the Yellow-Paper RLP and of the
// original / EIP-155 / EIP-2718+1559 layouts (no code of pkg/rlp or pkg/ethsigner is used to build the
// expectation), the signature is verified with the decred library directly, and
// RecoverRawTransaction must return the address of the key, the data and the signing preimage.
// A failure is reported through stats.impl_oracle_failures (a concrete failing input).  This is a
// search for a failing input; the theorems stay about the model.
package main

import (
	"bytes"
	"encoding/hex"
	"fmt"
	"math/big"
	"runtime/debug"
	"sync"

	dsecp "github.com/decred/dcrd/dcrec/secp256k1/v4"
	decdsa "github.com/decred/dcrd/dcrec/secp256k1/v4/ecdsa"
	"github.com/hyperledger/firefly-signer/pkg/ethsigner"
	"github.com/hyperledger/firefly-signer/pkg/ethtypes"
	"github.com/hyperledger/firefly-signer/pkg/secp256k1"
	"verifharness/cv"
)

// ---- Yellow Paper appendix B, written from the text ----

// BE(x): big-endian, no leading zero, BE(0) = ()
func ypBE(x uint64) []byte {
	var out []byte
	for x > 0 {
		out = append([]byte{byte(x % 256)}, out...)
		x /= 256
	}
	return out
}

// (180) R_b
func ypBytes(x []byte) []byte {
	n := uint64(len(x))
	switch {
	case n == 1 && x[0] < 128:
		return []byte{x[0]}
	case n < 56:
		return append([]byte{byte(128 + n)}, x...)
	default:
		be := ypBE(n)
		out := make([]byte, 0, 1+len(be)+len(x))
		out = append(out, byte(183+len(be)))
		out = append(out, be...)
		return append(out, x...)
	}
}

// (183) R_l over already serialised items
func ypList(items ...[]byte) []byte { return ypTypedList(nil, items...) }

// optional EIP-2718 type byte in front of the list
func ypTypedList(prefix []byte, items ...[]byte) []byte {
	var n uint64
	for _, it := range items {
		n += uint64(len(it))
	}
	var out []byte
	if n < 56 {
		out = append(append(make([]byte, 0, 2+n), prefix...), byte(192+n))
	} else {
		be := ypBE(n)
		out = append(append(make([]byte, 0, 2+uint64(len(be))+n), prefix...), byte(247+len(be)))
		out = append(out, be...)
	}
	for _, it := range items {
		out = append(out, it...)
	}
	return out
}

// a scalar is the byte string BE(value); nil field = 0
func ypScalar(v *big.Int) []byte {
	if v == nil {
		return ypBytes(nil)
	}
	return ypBytes(new(big.Int).Abs(v).Bytes())
}

type bigTx struct {
	mode                                     int
	nonce, gasPrice, maxPrio, maxFee, gasLim *big.Int
	value                                    *big.Int
	to                                       []byte // nil = contract creation
	data                                     []byte
	chain                                    int64
}

func (b *bigTx) build() *ethsigner.Transaction {
	t := &ethsigner.Transaction{Nonce: hexInt(b.nonce), GasPrice: hexInt(b.gasPrice), MaxPriorityFeePerGas: hexInt(b.maxPrio),
		MaxFeePerGas: hexInt(b.maxFee), GasLimit: hexInt(b.gasLim), Value: hexInt(b.value), Data: ethtypes.HexBytes0xPrefix(b.data)}
	if b.to != nil {
		a := new(ethtypes.Address0xHex)
		copy(a[:], b.to)
		t.To = a
	}
	return t
}

// format actually prescribed: 0 original, 1 EIP-155, 2 EIP-1559
func (b *bigTx) format() int {
	if b.mode != modeAuto {
		return b.mode
	}
	if (b.maxPrio != nil && b.maxPrio.Sign() > 0) || (b.maxFee != nil && b.maxFee.Sign() > 0) {
		return modeEIP1559
	}
	return modeEIP155
}

func (b *bigTx) toItem() []byte {
	if b.to == nil {
		return ypBytes(nil)
	}
	return ypBytes(b.to)
}

// the message to be signed
func (b *bigTx) preimage() []byte {
	ch := big.NewInt(b.chain)
	switch b.format() {
	case modeOriginal:
		return ypList(ypScalar(b.nonce), ypScalar(b.gasPrice), ypScalar(b.gasLim), b.toItem(), ypScalar(b.value), ypBytes(b.data))
	case modeEIP155:
		return ypList(ypScalar(b.nonce), ypScalar(b.gasPrice), ypScalar(b.gasLim), b.toItem(), ypScalar(b.value), ypBytes(b.data),
			ypScalar(ch), ypScalar(big.NewInt(0)), ypScalar(big.NewInt(0)))
	default:
		return ypTypedList([]byte{0x02}, ypScalar(ch), ypScalar(b.nonce), ypScalar(b.maxPrio), ypScalar(b.maxFee), ypScalar(b.gasLim),
			b.toItem(), ypScalar(b.value), ypBytes(b.data), ypList())
	}
}

// the signed wire bytes for recovery id y (0/1) and (r, s)
func (b *bigTx) signed(y int64, r, s *big.Int) []byte {
	ch := big.NewInt(b.chain)
	switch b.format() {
	case modeOriginal:
		return ypList(ypScalar(b.nonce), ypScalar(b.gasPrice), ypScalar(b.gasLim), b.toItem(), ypScalar(b.value), ypBytes(b.data),
			ypScalar(big.NewInt(27+y)), ypScalar(r), ypScalar(s))
	case modeEIP155:
		v := new(big.Int).Add(new(big.Int).Mul(ch, big.NewInt(2)), big.NewInt(35+y))
		return ypList(ypScalar(b.nonce), ypScalar(b.gasPrice), ypScalar(b.gasLim), b.toItem(), ypScalar(b.value), ypBytes(b.data),
			ypScalar(v), ypScalar(r), ypScalar(s))
	default:
		return ypTypedList([]byte{0x02}, ypScalar(ch), ypScalar(b.nonce), ypScalar(b.maxPrio), ypScalar(b.maxFee), ypScalar(b.gasLim),
			b.toItem(), ypScalar(b.value), ypBytes(b.data), ypList(), ypScalar(big.NewInt(y)), ypScalar(r), ypScalar(s))
	}
}

func firstDiff(a, b []byte) int {
	n := len(a)
	if len(b) < n {
		n = len(b)
	}
	for i := 0; i < n; i++ {
		if a[i] != b[i] {
			return i
		}
	}
	if len(a) != len(b) {
		return n
	}
	return -1
}

func head(b []byte) string {
	if len(b) > 24 {
		return hex.EncodeToString(b[:24]) + fmt.Sprintf("...(%d bytes)", len(b))
	}
	return hex.EncodeToString(b)
}

func runBigCase(b *bigTx, keyHex string, why string) (failures []interface{}) {
	key, _ := hex.DecodeString(keyHex)
	in := map[string]interface{}{"mode": modeNames[b.mode], "data_len": len(b.data), "chain": b.chain, "key": keyHex, "why": why,
		"to_nil": b.to == nil, "maxFeePerGas_nil": b.maxFee == nil}
	fail := func(what string, extra map[string]interface{}) {
		f := map[string]interface{}{"what": what, "key": "", "input": in}
		for k, v := range extra {
			f[k] = v
		}
		failures = append(failures, f)
	}

	t := b.build()
	before := snapshot(t)
	rs := &recSigner{kp: secp256k1.KeyPairFromBytes(key)}
	out, cls := callSign(t, b.mode, rs, b.chain)
	if cls != 0 || len(rs.msgs) != 1 || len(rs.sigs) != 1 {
		fail("signing panicked or failed although the signer answered", map[string]interface{}{"class": cls, "signer_calls": len(rs.msgs)})
		return
	}
	pre := b.preimage()
	if d := firstDiff(rs.msgs[0], pre); d >= 0 {
		fail("signature payload (bytes handed to the signer) is not the prescribed preimage",
			map[string]interface{}{"first_difference_at": d, "impl_head": head(rs.msgs[0]), "spec_head": head(pre)})
	}
	digest := keccak(pre)
	if _, pl, hash, ok := callPayload(t, b.mode, b.chain); !ok || !bytes.Equal(pl, pre) || !bytes.Equal(hash, digest) {
		fail("SignaturePayload*.Bytes()/Hash() is not the prescribed preimage / its Keccak-256", map[string]interface{}{"impl_head": head(pl), "spec_head": head(pre)})
	}
	v, r, s := rs.sigs[0][0], rs.sigs[0][1], rs.sigs[0][2]
	y := new(big.Int).Sub(v, big.NewInt(27)).Int64()
	if !v.IsInt64() || (y != 0 && y != 1) {
		fail("signature not canonical (V not 27/28)", map[string]interface{}{"v": v.String()})
		return
	}
	want := b.signed(y, r, s)
	if d := firstDiff(out, want); d >= 0 {
		fail("signed bytes are not the wire format the specifications prescribe for these fields and this signature",
			map[string]interface{}{"first_difference_at": d, "impl_head": head(out), "spec_head": head(want)})
	}
	// the signature, judged by the library: it must recover the key over the Keccak of the prescribed preimage
	compact := make([]byte, 65)
	compact[0] = byte(27 + y)
	r.FillBytes(compact[1:33])
	s.FillBytes(compact[33:65])
	pub, _, err := decdsa.RecoverCompact(compact, digest)
	kaddr := libAddress(key)
	if err != nil || !bytes.Equal(keccak(pub.SerializeUncompressed()[1:])[12:], kaddr) {
		fail("the signature in the output is not a valid signature by the key over the prescribed signing hash", nil)
	}
	var rr, ss dsecp.ModNScalar
	rr.SetByteSlice(compact[1:33])
	ss.SetByteSlice(compact[33:65])
	if !decdsa.NewSignature(&rr, &ss).Verify(digest, dsecp.PrivKeyFromBytes(key).PubKey()) || ss.IsOverHalfOrder() {
		fail("the signature in the output does not verify against the key (or high S)", nil)
	}
	// determinism and purity
	if len(b.data) == 1<<24 {
		out2, cls2 := callSign(t, b.mode, secp256k1.KeyPairFromBytes(key), b.chain)
		if cls2 != 0 || !bytes.Equal(out, out2) {
			fail("signing the same transaction twice gave different bytes", nil)
		}
	}
	if !before.equal(snapshot(t)) {
		fail("the caller's transaction was modified by signing", nil)
	}
	// recovery of the output
	rec := callRecover(out, b.chain)
	switch {
	case rec.cls != 0 || !bytes.Equal(rec.addr, kaddr):
		fail("RecoverRawTransaction of the signed bytes failed or did not return the signer's address",
			map[string]interface{}{"recover_class": rec.cls, "recover_addr": hex.EncodeToString(rec.addr), "key_addr": hex.EncodeToString(kaddr)})
	case !bytes.Equal([]byte(rec.tx.Data), b.data) || !sameMag(hexIntBig(rec.tx.Nonce), b.nonce) || !sameMag(hexIntBig(rec.tx.GasLimit), b.gasLim) ||
		!sameMag(hexIntBig(rec.tx.Value), b.value) || (rec.tx.To == nil) != (b.to == nil) || (b.to != nil && !bytes.Equal(rec.tx.To[:], b.to)):
		fail("RecoverRawTransaction of the signed bytes returned different field values", nil)
	case !bytes.Equal(rec.payload, pre):
		fail("RecoverRawTransaction of the signed bytes returned a payload that is not the prescribed preimage", map[string]interface{}{"first_difference_at": firstDiff(rec.payload, pre)})
	}
	return failures
}

// payload length declared by the list header of a (possibly 0x02-typed) transaction
func ypListPayloadLen(enc []byte) int {
	if len(enc) > 0 && enc[0] == 0x02 {
		enc = enc[1:]
	}
	if len(enc) == 0 || enc[0] < 0xc0 {
		return -1
	}
	if enc[0] <= 0xf7 {
		return int(enc[0] - 0xc0)
	}
	l := int(enc[0] - 0xf7)
	v := 0
	for i := 1; i <= l && i < len(enc); i++ {
		v = v*256 + int(enc[i])
	}
	return v
}

func sameMag(a, b *big.Int) bool {
	if a == nil {
		a = big.NewInt(0)
	}
	if b == nil {
		b = big.NewInt(0)
	}
	return a.CmpAbs(b) == 0
}

func bigBucket(n int) string {
	switch {
	case n < 1<<24:
		return "<2^24"
	case n == 1<<24:
		return "2^24"
	default:
		return ">2^24"
	}
}

// bigDataCases: every signing mode x data lengths around the 3-byte/4-byte RLP length step, plus the
// lengths where only the enclosing list (not the data string) crosses the step.
type bigJob struct {
	b        *bigTx
	dl       int
	seed     byte
	target   int // 0 = none: list payload to be solved to exactly this value
	ofSigned bool
	why      string
	hit      string
	failures []interface{}
}

func bigDataCases(st *cv.Stats, r *cv.Rand, stdKey string, thorough bool) int {
	var jobs []*bigJob
	mk := func(mode, dl int, chain int64, why string) *bigJob {
		b := &bigTx{mode: mode, nonce: big.NewInt(int64(3 + r.Intn(1000))), gasPrice: new(big.Int).Add(pow2(40), big.NewInt(int64(r.Intn(255)))),
			gasLim: big.NewInt(int64(21000 + r.Intn(1<<20))), value: new(big.Int).Mul(big.NewInt(int64(1+r.Intn(1000))), pow2(60)),
			to: r.Bytes(20), chain: chain}
		if mode == modeEIP1559 || (mode == modeAuto && r.Intn(3) != 0) {
			b.maxPrio, b.maxFee = big.NewInt(int64(1+r.Intn(100))), new(big.Int).Add(pow2(33), big.NewInt(int64(r.Intn(100))))
		}
		j := &bigJob{b: b, dl: dl, seed: r.Byte(), why: why}
		jobs = append(jobs, j)
		return j
	}
	lens := []int{1<<24 - 1, 1 << 24, 1<<24 + 1}
	if thorough {
		lens = append(lens, 1<<24+12345, 1<<25, 1<<26+3)
	}
	for mode := 0; mode < 4; mode++ {
		for _, dl := range lens {
			mk(mode, dl, []int64{1337, 1, 1 << 31, 1 << 53}[r.Intn(4)], "data length at the 2^24 RLP length step")
		}
		// exact fit: data length solved (with the transcription above and the library's signature, never
		// the implementation) so that the list payload of the preimage / of the signed bytes is exactly
		// 2^24-1 or 2^24 while the data itself stays below 2^24
		k := 0
		for _, ofSigned := range []bool{false, true} {
			for _, target := range []int{1<<24 - 1, 1 << 24} {
				k++
				if !thorough && (mode+k)%2 == 1 {
					continue
				}
				what := "preimage"
				if ofSigned {
					what = "signed bytes"
				}
				j := mk(mode, 1<<24-120, 1337, fmt.Sprintf("list payload of the %s solved to exactly %d", what, target))
				j.target, j.ofSigned = target, ofSigned
			}
		}
	}
	// contract creation / automatic mode without fee caps
	j := mk(modeAuto, 1<<24, 1, "auto mode without fee caps, contract creation")
	j.b.maxPrio, j.b.maxFee, j.b.to = nil, nil, nil

	// the cases are independent of each other: run them on a few goroutines (16 MiB Keccak each)
	key, _ := hex.DecodeString(stdKey)
	fillData := func(n int, seed byte) []byte {
		d := make([]byte, n)
		for i := range d {
			d[i] = seed + byte(i>>2)
		}
		return d
	}
	sem := make(chan struct{}, 6)
	var wg sync.WaitGroup
	for _, j := range jobs {
		wg.Add(1)
		sem <- struct{}{}
		go func(j *bigJob) {
			defer func() { <-sem; wg.Done() }()
			b := j.b
			b.data = fillData(j.dl, j.seed)
			for it := 0; j.target > 0 && it < 5; it++ {
				enc := b.preimage()
				if j.ofSigned {
					v, rr, ss := libSign(key, keccak(enc))
					enc = b.signed(v.Int64()-27, rr, ss)
				}
				p := ypListPayloadLen(enc)
				if p == j.target {
					break
				}
				b.data = fillData(len(b.data)+j.target-p, j.seed+byte(it)+1)
			}
			j.hit = "big:" + modeNames[b.mode] + ":datalen=" + bigBucket(len(b.data))
			j.failures = runBigCase(b, stdKey, j.why)
			b.data = nil
		}(j)
	}
	wg.Wait()
	for _, j := range jobs {
		st.Hit(j.hit)
		st.Distinct++
		st.ImplFailures = append(st.ImplFailures, j.failures...)
	}
	debug.FreeOSMemory()
	return len(jobs)
}
