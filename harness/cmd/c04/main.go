// Harness for C04 (EIP-712 typed-data digest).  Generates type graphs, messages and domains, renders
// them as JSON under random key orders, runs pkg/eip712 / pkg/ethsigner on them under recover() and
// writes Coq case files that Eip712/RunC04.v evaluates against the model and the EIP-712 spec.
// Property oracles evaluated here on the implementation alone (stats.impl_oracle_failures): digest
// invariance under key order / unreferenced types / extra message fields, the signature clause
// (checked with btcec directly), ABI-derived type set hashes like the hand-written one.
package main

import (
	"bytes"
	"context"
	"encoding/hex"
	"encoding/json"
	"flag"
	"fmt"
	"math/big"
	"os"
	"path/filepath"
	"reflect"
	"regexp"
	"runtime/pprof"
	"sort"
	"strconv"
	"strings"

	btcecdsa "github.com/btcsuite/btcd/btcec/v2/ecdsa"
	"github.com/hyperledger/firefly-signer/pkg/abi"
	"github.com/hyperledger/firefly-signer/pkg/eip712"
	"github.com/hyperledger/firefly-signer/pkg/ethsigner"
	"github.com/hyperledger/firefly-signer/pkg/secp256k1"
	"golang.org/x/crypto/sha3"
	"verifharness/cv"
)

// ---------------------------------------------------------------------------------------------
// ordered JSON
// ---------------------------------------------------------------------------------------------

type jn struct {
	kind byte // 'n' null, 'b' bool, '#' number (text), 's' string, 'a' array, 'o' object
	b    bool
	s    string
	arr  []*jn
	keys []string
	vals []*jn
	sem  interface{} // the value meant (leaves of generated documents): *big.Int, bool, []byte, string; read by the reference transcription in round3.go
}

func jnull() *jn        { return &jn{kind: 'n'} }
func jbool(b bool) *jn  { return &jn{kind: 'b', b: b} }
func jnum(t string) *jn { return &jn{kind: '#', s: t} }
func jstr(s string) *jn { return &jn{kind: 's', s: s} }
func jarr(l ...*jn) *jn { return &jn{kind: 'a', arr: l} }
func jobj() *jn         { return &jn{kind: 'o'} }
func (j *jn) set(k string, v *jn) *jn {
	for i, kk := range j.keys {
		if kk == k {
			j.vals[i] = v
			return j
		}
	}
	j.keys = append(j.keys, k)
	j.vals = append(j.vals, v)
	return j
}
func (j *jn) get(k string) *jn {
	for i, kk := range j.keys {
		if kk == k {
			return j.vals[i]
		}
	}
	return nil
}
func (j *jn) clone() *jn {
	c := *j
	c.arr = nil
	for _, a := range j.arr {
		c.arr = append(c.arr, a.clone())
	}
	c.keys = append([]string{}, j.keys...)
	c.vals = nil
	for _, v := range j.vals {
		c.vals = append(c.vals, v.clone())
	}
	return &c
}

// write serialises; with r != nil object keys are written in a random order at every level
func (j *jn) write(sb *bytes.Buffer, r *cv.Rand) {
	switch j.kind {
	case 'n':
		sb.WriteString("null")
	case 'b':
		if j.b {
			sb.WriteString("true")
		} else {
			sb.WriteString("false")
		}
	case '#':
		sb.WriteString(j.s)
	case 's':
		b, _ := json.Marshal(j.s)
		sb.Write(b)
	case 'a':
		sb.WriteByte('[')
		for i, a := range j.arr {
			if i > 0 {
				sb.WriteByte(',')
			}
			a.write(sb, r)
		}
		sb.WriteByte(']')
	case 'o':
		idx := make([]int, len(j.keys))
		for i := range idx {
			idx[i] = i
		}
		if r != nil {
			for i := len(idx) - 1; i > 0; i-- {
				k := r.Intn(i + 1)
				idx[i], idx[k] = idx[k], idx[i]
			}
		}
		sb.WriteByte('{')
		for n, i := range idx {
			if n > 0 {
				sb.WriteByte(',')
			}
			b, _ := json.Marshal(j.keys[i])
			sb.Write(b)
			sb.WriteByte(':')
			j.vals[i].write(sb, r)
		}
		sb.WriteByte('}')
	}
}
func (j *jn) text(r *cv.Rand) []byte {
	var sb bytes.Buffer
	j.write(&sb, r)
	return sb.Bytes()
}

// ---------------------------------------------------------------------------------------------
// type graphs
// ---------------------------------------------------------------------------------------------

type mty struct {
	kind  string // uint int bool address bytesN bytes string | ref | arr
	bits  int    // uint/int width, bytesN length
	ref   string
	elem  *mty
	fixed int // arr: -1 dynamic, else length
}

func (t *mty) name() string {
	switch t.kind {
	case "uint", "int":
		return fmt.Sprintf("%s%d", t.kind, t.bits)
	case "bytesN":
		return fmt.Sprintf("bytes%d", t.bits)
	case "ref":
		return t.ref
	case "arr":
		if t.fixed < 0 {
			return t.elem.name() + "[]"
		}
		return fmt.Sprintf("%s[%d]", t.elem.name(), t.fixed)
	default:
		return t.kind
	}
}
func (t *mty) base() *mty {
	for t.kind == "arr" {
		t = t.elem
	}
	return t
}
func (t *mty) depth() int {
	d := 0
	for t.kind == "arr" {
		t = t.elem
		d++
	}
	return d
}

type member struct {
	name string
	t    *mty
}
type sdef struct {
	name    string
	members []member
}
type graph struct {
	structs []*sdef
}

func (g *graph) find(n string) *sdef {
	for _, s := range g.structs {
		if s.name == n {
			return s
		}
	}
	return nil
}

// names chosen so that byte-lexicographic sorting is exercised: upper/lower case, digits, '_', prefixes
var namePool = []string{"Mail", "Mailbox", "Person", "Asset", "Order", "order", "A", "AB", "Ab", "A_", "A1", "A10", "A2", "B", "Z",
	"a", "b", "_x", "Group", "Item", "Leaf", "Node", "Tx", "Transfer", "TransferBatch", "Permit", "$d"}
var memberPool = []string{"from", "to", "contents", "value", "amount", "id", "owner", "data", "items", "next", "left", "right",
	"a", "b", "c", "name", "wallet", "flag", "nonce", "deadline", "tags", "x", "y", "Z", "_m"}

func genAtomic(r *cv.Rand, st *cv.Stats) *mty {
	var t *mty
	switch r.Intn(10) {
	case 0, 1:
		t = &mty{kind: "uint", bits: 8 * (1 + r.Intn(32))}
	case 2, 3:
		t = &mty{kind: "int", bits: 8 * (1 + r.Intn(32))}
	case 4:
		t = &mty{kind: "bool"}
	case 5:
		t = &mty{kind: "address"}
	case 6, 7:
		t = &mty{kind: "bytesN", bits: 1 + r.Intn(32)}
	case 8:
		t = &mty{kind: "bytes"}
	default:
		t = &mty{kind: "string"}
	}
	st.Hit("atomic:" + t.kind)
	return t
}

// fixed array dimensions drawn by genMemberType (the Go-only bulk sections of round3.go widen it to
// dimensions of two and three digits)
var dimPool = []int{0, 1, 2, 3}

func genMemberType(r *cv.Rand, st *cv.Stats, names []string, self string) *mty {
	var t *mty
	switch c := r.Intn(10); {
	case c < 5 || len(names) == 0:
		t = genAtomic(r, st)
	default:
		n := names[r.Intn(len(names))]
		if c == 9 {
			n = self
		}
		t = &mty{kind: "ref", ref: n}
		if n == self {
			st.Hit("ref:self")
		} else {
			st.Hit("ref:other")
		}
	}
	// arrays nested to depth 3
	d := []int{0, 0, 0, 1, 1, 2, 3}[r.Intn(7)]
	prod := 1
	for i := 0; i < d; i++ {
		f := -1
		if r.Intn(2) == 0 {
			f = dimPool[r.Intn(len(dimPool))]
			if f > 3 && prod*f > 33 {
				f = 1 + r.Intn(2) // keep the number of elements of one member small (never taken with the default pool)
			}
			if f > 0 {
				prod *= f
			}
		} else {
			prod *= 3 // a dynamic dimension is given up to 3 elements
		}
		t = &mty{kind: "arr", elem: t, fixed: f}
	}
	st.Hit(fmt.Sprintf("arraydepth:%d", d))
	return t
}

func genGraph(r *cv.Rand, st *cv.Stats, n int) *graph {
	g := &graph{}
	perm := make([]int, len(namePool))
	for i := range perm {
		perm[i] = i
	}
	for i := len(perm) - 1; i > 0; i-- {
		k := r.Intn(i + 1)
		perm[i], perm[k] = perm[k], perm[i]
	}
	var names []string
	for i := 0; i < n; i++ {
		names = append(names, namePool[perm[i]])
	}
	for _, nm := range names {
		s := &sdef{name: nm}
		nm_ := []int{0, 1, 2, 2, 3, 3, 4, 5}[r.Intn(8)]
		used := map[string]bool{}
		for k := 0; k < nm_; k++ {
			mn := memberPool[r.Intn(len(memberPool))]
			if used[mn] {
				continue
			}
			used[mn] = true
			s.members = append(s.members, member{mn, genMemberType(r, st, names, nm)})
		}
		g.structs = append(g.structs, s)
	}
	// chain: most structs also refer to the next one, so that the primary type reaches a good part of
	// the graph (dependency collection and sorting are exercised on several names)
	for i := 0; i+1 < len(g.structs); i++ {
		if r.Intn(4) != 0 {
			t := &mty{kind: "ref", ref: names[i+1]}
			switch r.Intn(4) {
			case 0:
				t = &mty{kind: "arr", elem: t, fixed: -1}
			case 1:
				t = &mty{kind: "arr", elem: &mty{kind: "arr", elem: t, fixed: 1 + r.Intn(2)}, fixed: -1}
			}
			mn := fmt.Sprintf("link%d", i)
			pos := r.Intn(len(g.structs[i].members) + 1)
			ms := append([]member{}, g.structs[i].members[:pos]...)
			ms = append(ms, member{mn, t})
			g.structs[i].members = append(ms, g.structs[i].members[pos:]...)
		}
	}
	st.Hit(fmt.Sprintf("structs:%d", n))
	return g
}

// reachable struct names from a root
func (g *graph) reach(root string) map[string]bool {
	seen := map[string]bool{}
	var rec func(n string)
	rec = func(n string) {
		s := g.find(n)
		if s == nil || seen[n] {
			return
		}
		seen[n] = true
		for _, m := range s.members {
			if b := m.t.base(); b.kind == "ref" {
				rec(b.ref)
			}
		}
	}
	rec(root)
	return seen
}
func (g *graph) cyclic(root string) bool {
	// is there a cycle reachable from root
	state := map[string]int{}
	var rec func(n string) bool
	rec = func(n string) bool {
		s := g.find(n)
		if s == nil {
			return false
		}
		if state[n] == 1 {
			return true
		}
		if state[n] == 2 {
			return false
		}
		state[n] = 1
		for _, m := range s.members {
			if b := m.t.base(); b.kind == "ref" && rec(b.ref) {
				return true
			}
		}
		state[n] = 2
		return false
	}
	return rec(root)
}

func (g *graph) typesJSON() *jn {
	o := jobj()
	for _, s := range g.structs {
		l := jarr()
		for _, m := range s.members {
			l.arr = append(l.arr, jobj().set("name", jstr(m.name)).set("type", jstr(m.t.name())))
		}
		o.set(s.name, l)
	}
	return o
}

// ---------------------------------------------------------------------------------------------
// values
// ---------------------------------------------------------------------------------------------

var two = big.NewInt(2)

// per-document bound on the estimated number of Keccak blocks (set in main per tier)
var maxBlocks = 28

func pow2(n int) *big.Int { return new(big.Int).Exp(two, big.NewInt(int64(n)), nil) }

func randBig(r *cv.Rand, bits int) *big.Int {
	if bits <= 0 {
		return big.NewInt(0)
	}
	b := r.Bytes((bits + 7) / 8)
	x := new(big.Int).SetBytes(b)
	return x.Mod(x, pow2(bits))
}

func spellInt(r *cv.Rand, st *cv.Stats, z *big.Int) *jn {
	j := spellInt0(r, st, z)
	j.sem = new(big.Int).Set(z)
	return j
}

func spellInt0(r *cv.Rand, st *cv.Stats, z *big.Int) *jn {
	switch r.Intn(4) {
	case 0:
		st.Hit("intspelling:number")
		return jnum(z.String())
	case 1:
		st.Hit("intspelling:hex")
		if z.Sign() < 0 {
			return jstr("-0x" + new(big.Int).Neg(z).Text(16))
		}
		if r.Bool() {
			return jstr("0x" + strings.ToUpper(z.Text(16)))
		}
		return jstr("0x" + z.Text(16))
	default:
		st.Hit("intspelling:decimal-string")
		return jstr(z.String())
	}
}

func genInt(r *cv.Rand, st *cv.Stats, signed bool, bits int) *big.Int {
	var lo, hi *big.Int
	if signed {
		lo = new(big.Int).Neg(pow2(bits - 1))
		hi = new(big.Int).Sub(pow2(bits-1), big.NewInt(1))
	} else {
		lo = big.NewInt(0)
		hi = new(big.Int).Sub(pow2(bits), big.NewInt(1))
	}
	switch r.Intn(8) {
	case 0:
		st.Hit("int:min")
		return lo
	case 1:
		st.Hit("int:max")
		return hi
	case 2:
		st.Hit("int:zero")
		return big.NewInt(0)
	case 3:
		if signed {
			st.Hit("int:-1")
			return big.NewInt(-1)
		}
		return big.NewInt(1)
	case 4:
		st.Hit("int:small")
		v := big.NewInt(int64(r.Intn(100)))
		if v.Cmp(hi) > 0 {
			return hi
		}
		return v
	default:
		st.Hit("int:random")
		v := randBig(r, bits)
		if signed {
			v.Add(v, lo)
		}
		return v
	}
}

var byteLens = []int{0, 1, 2, 31, 32, 33, 55, 64, 100, 135, 136, 137, 200}

func genString(r *cv.Rand) string {
	switch r.Intn(6) {
	case 0:
		return ""
	case 1:
		return "Hello, Bob!"
	case 2:
		return "héllo wörld ✓ 日本"
	case 3:
		return strings.Repeat("x", byteLens[r.Intn(len(byteLens))])
	default:
		n := r.Intn(40)
		b := make([]byte, n)
		for i := range b {
			b[i] = byte(32 + r.Intn(95))
		}
		return string(b)
	}
}

func hexSpell(r *cv.Rand, b []byte) string {
	h := hex.EncodeToString(b)
	switch r.Intn(4) {
	case 0:
		return h
	case 1:
		return "0x" + strings.ToUpper(h)
	default:
		return "0x" + h
	}
}

// nodeLimit > 0 bounds the number of values generated for one message (bulk sections only; with 0,
// the default, the generator's draws are exactly those of the earlier rounds)
var nodeLimit, nodeCount = 0, 0

// genValue returns the JSON for a value of type t; budget bounds the struct nesting
func genValue(r *cv.Rand, st *cv.Stats, g *graph, t *mty, budget int) *jn {
	nodeCount++
	if nodeLimit > 0 && nodeCount > nodeLimit {
		switch {
		case t.kind == "ref":
			return jnull()
		case t.kind == "arr" && t.fixed < 0:
			return jarr()
		}
	}
	switch t.kind {
	case "uint":
		return spellInt(r, st, genInt(r, st, false, t.bits))
	case "int":
		return spellInt(r, st, genInt(r, st, true, t.bits))
	case "bool":
		switch r.Intn(6) {
		case 0:
			return withSem(jbool(true), true)
		case 1:
			return withSem(jbool(false), false)
		case 2:
			return withSem(jstr("true"), true)
		case 3:
			return withSem(jstr("TrUe"), true)
		case 4:
			return withSem(jstr("false"), false)
		default:
			return withSem(jstr("no"), false)
		}
	case "address":
		b := r.Bytes(20)
		if r.Intn(6) == 0 {
			b = make([]byte, 20)
		}
		return withSem(jstr(hexSpell(r, b)), b)
	case "bytesN":
		b := r.Bytes(t.bits)
		return withSem(jstr(hexSpell(r, b)), b)
	case "bytes":
		b := r.Bytes(byteLens[r.Intn(len(byteLens))])
		return withSem(jstr(hexSpell(r, b)), b)
	case "string":
		s := genString(r)
		return withSem(jstr(s), s)
	case "ref":
		if budget <= 0 || r.Intn(5) == 0 {
			st.Hit("struct:absent")
			return jnull()
		}
		return genStruct(r, st, g, t.ref, budget-1)
	case "arr":
		n := t.fixed
		if n < 0 {
			n = []int{0, 0, 1, 2, 3}[r.Intn(5)]
			if budget <= 0 && t.base().kind == "ref" {
				n = 0
			}
		}
		if n == 0 {
			st.Hit("array:empty")
		}
		l := jarr()
		for i := 0; i < n; i++ {
			l.arr = append(l.arr, genValue(r, st, g, t.elem, budget))
		}
		return l
	}
	return jnull()
}

func withSem(j *jn, sem interface{}) *jn { j.sem = sem; return j }

func genStruct(r *cv.Rand, st *cv.Stats, g *graph, name string, budget int) *jn {
	s := g.find(name)
	o := jobj()
	for _, m := range s.members {
		v := genValue(r, st, g, m.t, budget)
		if v.kind == 'n' && r.Bool() {
			st.Hit("struct:absent-by-missing-key")
			continue // absent by omission rather than null
		}
		o.set(m.name, v)
	}
	return o
}

// ---- cost estimate: Keccak blocks (136 bytes) the model will hash for a value; used to keep the quick
// tier's vm_compute time bounded (each block costs ~25 ms in the evaluator, model and spec each) ----
func blocks(n int) int { return n/136 + 1 }

func (g *graph) typeStringLen(root string) int {
	n := 0
	for nm := range g.reach(root) {
		s := g.find(nm)
		n += len(nm) + 2
		for _, m := range s.members {
			n += len(m.t.name()) + len(m.name) + 2
		}
	}
	return n
}

func (g *graph) cost(t *mty, v *jn, tl map[string]int) int {
	switch {
	case v == nil || v.kind == 'n':
		return 0
	case t.kind == "arr" && v.kind == 'a':
		c := blocks(32 * len(v.arr))
		for _, e := range v.arr {
			c += g.cost(t.elem, e, tl)
		}
		return c
	case t.kind == "ref" && v.kind == 'o':
		s := g.find(t.ref)
		if _, ok := tl[t.ref]; !ok {
			tl[t.ref] = g.typeStringLen(t.ref)
		}
		c := blocks(tl[t.ref]) + blocks(32*(len(s.members)+1))
		for _, m := range s.members {
			c += g.cost(m.t, v.get(m.name), tl)
		}
		return c
	case (t.kind == "bytes" || t.kind == "string") && v.kind == 's':
		return blocks(len(v.s) / 2)
	}
	return 0
}

// the five standard domain fields
var domainFields = []member{
	{"name", &mty{kind: "string"}},
	{"version", &mty{kind: "string"}},
	{"chainId", &mty{kind: "uint", bits: 256}},
	{"verifyingContract", &mty{kind: "address"}},
	{"salt", &mty{kind: "bytesN", bits: 32}},
}

// ---------------------------------------------------------------------------------------------
// Coq terms
// ---------------------------------------------------------------------------------------------

func coqStr(s string) string { return cv.CoqBytes([]byte(s)) }

func shuffled(r *cv.Rand, keys []string) []string {
	sort.Strings(keys)
	for i := len(keys) - 1; i > 0; i-- {
		k := r.Intn(i + 1)
		keys[i], keys[k] = keys[k], keys[i]
	}
	return keys
}

func coqVal(r *cv.Rand, v interface{}) string {
	switch vt := v.(type) {
	case nil:
		return "DNil"
	case bool:
		if vt {
			return "(DBool true)"
		}
		return "(DBool false)"
	case json.Number:
		return "(DNumber " + coqStr(string(vt)) + ")"
	case float64:
		// not produced by the pinned decoder (UseNumber); kept so that a decoder change shows up as a
		// digest difference, not as a harness crash
		return "(DNumber " + coqStr(strconv.FormatFloat(vt, 'f', -1, 64)) + ")"
	case string:
		return "(DString " + coqStr(vt) + ")"
	case []interface{}:
		parts := make([]string, len(vt))
		for i, e := range vt {
			parts[i] = coqVal(r, e)
		}
		return "(DSlice [" + strings.Join(parts, "; ") + "])"
	case map[string]interface{}:
		return "(DMap " + coqMap(r, vt) + ")"
	default:
		panic(fmt.Sprintf("unexpected decoded value %T", v))
	}
}
func coqMap(r *cv.Rand, m map[string]interface{}) string {
	keys := make([]string, 0, len(m))
	for k := range m {
		keys = append(keys, k)
	}
	keys = shuffled(r, keys)
	parts := make([]string, len(keys))
	for i, k := range keys {
		parts[i] = "(" + coqStr(k) + ", " + coqVal(r, m[k]) + ")"
	}
	return "[" + strings.Join(parts, "; ") + "]"
}
func coqOptMap(r *cv.Rand, m map[string]interface{}) string {
	if m == nil {
		return "None"
	}
	return "(Some " + coqMap(r, m) + ")"
}
func coqTypeSet(r *cv.Rand, ts eip712.TypeSet) string {
	keys := make([]string, 0, len(ts))
	for k := range ts {
		keys = append(keys, k)
	}
	keys = shuffled(r, keys)
	parts := make([]string, len(keys))
	for i, k := range keys {
		t := ts[k]
		if t == nil {
			parts[i] = "(" + coqStr(k) + ", None)"
			continue
		}
		ms := make([]string, len(t))
		for j, m := range t {
			if m == nil {
				ms[j] = "None"
			} else {
				ms[j] = "(Some (" + coqStr(m.Name) + ", " + coqStr(m.Type) + "))"
			}
		}
		parts[i] = "(" + coqStr(k) + ", Some [" + strings.Join(ms, "; ") + "])"
	}
	return "[" + strings.Join(parts, "; ") + "]"
}
func coqDoc(r *cv.Rand, p *eip712.TypedData) string {
	if p == nil {
		return "None"
	}
	ts := "None"
	if p.Types != nil {
		ts = "(Some " + coqTypeSet(r, p.Types) + ")"
	}
	return fmt.Sprintf("(Some (DDoc %s %s %s %s))", ts, coqStr(p.PrimaryType), coqOptMap(r, p.Domain), coqOptMap(r, p.Message))
}

// ---------------------------------------------------------------------------------------------
// running the implementation
// ---------------------------------------------------------------------------------------------

type outcome struct {
	cls    int
	digest []byte
	err    string
}

func runEncode(p *eip712.TypedData) (o outcome) {
	defer func() {
		if x := recover(); x != nil {
			o = outcome{cls: 2, err: fmt.Sprint("PANIC: ", x)}
		}
	}()
	d, err := eip712.EncodeTypedDataV4(context.Background(), p)
	if err != nil {
		return outcome{cls: 1, err: err.Error()}
	}
	return outcome{cls: 0, digest: d}
}

func decode(text []byte) (*eip712.TypedData, error) {
	var p eip712.TypedData
	if err := json.Unmarshal(text, &p); err != nil {
		return nil, err
	}
	return &p, nil
}

type desc struct {
	Kind      string `json:"kind"`
	Doc       string `json:"doc,omitempty"`
	Impl      string `json:"impl"`
	Published string `json:"published,omitempty"`
	Note      string `json:"note,omitempty"`
	Key       string `json:"key,omitempty"`
}

type ctxT struct {
	w    *cv.Writer
	st   *cv.Stats
	r    *cv.Rand
	seen map[string]bool
	// goOnly: abiCase evaluates its Go-side oracles only (no Coq case written); used by the bulk section
	goOnly bool
}

func (c *ctxT) fail(what string, extra map[string]interface{}) {
	m := map[string]interface{}{"what": what, "key": ""}
	for k, v := range extra {
		m[k] = v
	}
	c.st.ImplFailures = append(c.st.ImplFailures, m)
}

// addDoc decodes the JSON text, writes the case, returns the outcome
func (c *ctxT) addDoc(kind string, text []byte, published string, note string) (outcome, bool) {
	return c.addDocSpec(kind, text, published, note, true)
}

func (c *ctxT) addDocSpec(kind string, text []byte, published string, note string, withSpec bool) (outcome, bool) {
	p, err := decode(text)
	if err != nil {
		c.st.Hit("skipped:json-decode-error")
		return outcome{}, false
	}
	term := coqDoc(c.r, p) // before EncodeTypedDataV4 fills in defaults
	o := runEncode(p)
	c.st.Evaluations++
	c.st.Hit(fmt.Sprintf("%s:class=%d", kind, o.cls))
	pub := "None"
	if published != "" {
		b, _ := hex.DecodeString(strings.TrimPrefix(published, "0x"))
		pub = "(Some " + cv.CoqBytes(b) + ")"
	}
	c.w.Add(fmt.Sprintf("CDoc %s [] %d %s %s %v", term, o.cls, cv.CoqBytes(o.digest), pub, withSpec),
		desc{Kind: kind, Doc: string(text), Impl: implDesc(o), Published: published, Note: note})
	if !c.seen[string(text)] {
		c.seen[string(text)] = true
		c.st.Distinct++
	}
	if o.cls == 2 {
		c.fail("EncodeTypedDataV4 panicked", map[string]interface{}{"doc": string(text), "panic": o.err})
	}
	if len(c.st.Samples) < 12 && (kind == "generated" || kind == "anchor") {
		c.st.Samples = append(c.st.Samples, map[string]string{"doc": string(text), "impl": implDesc(o)})
	}
	return o, true
}

func implDesc(o outcome) string {
	switch o.cls {
	case 0:
		return "0x" + hex.EncodeToString(o.digest)
	case 1:
		return "error: " + o.err
	default:
		return o.err
	}
}

func keccak(b []byte) []byte {
	h := sha3.NewLegacyKeccak256()
	h.Write(b)
	return h.Sum(nil)
}

// ---------------------------------------------------------------------------------------------
// generated documents with metamorphic variants
// ---------------------------------------------------------------------------------------------

type genDoc struct {
	g       *graph
	primary string
	doc     *jn
	domain  *sdef // the declared EIP712Domain type; nil when the document declares none
	cost    int   // estimated Keccak blocks of the message
}

// domainMode: 0..31 = that subset of the five standard fields; 32 = no domain type; 33 = domain-only
// document (random subset); < 0 = random
func buildDoc(r *cv.Rand, st *cv.Stats, nStructs int, domainMode int) *genDoc {
	return buildDocG(r, st, genGraph(r, st, nStructs), domainMode)
}

func buildDocG(r *cv.Rand, st *cv.Stats, g *graph, domainMode int) *genDoc {
	primary := g.structs[0].name
	doc := jobj()
	types := g.typesJSON()
	// domain: every subset of the five standard fields, or no domain type at all
	if domainMode < 0 {
		domainMode = r.Intn(36)
	}
	var domain *jn
	var domainDef *sdef
	switch {
	case domainMode == 32:
		st.Hit("domain:no-type")
		if r.Bool() {
			domain = jobj()
		}
	default:
		mask := domainMode
		if mask > 32 {
			mask = r.Intn(32)
		}
		st.Hit(fmt.Sprintf("domain:mask=%02d", mask))
		l := jarr()
		domain = jobj()
		ds := &sdef{name: "EIP712Domain"}
		domainDef = ds
		for i, f := range domainFields {
			if mask&(1<<i) != 0 {
				l.arr = append(l.arr, jobj().set("name", jstr(f.name)).set("type", jstr(f.t.name())))
				domain.set(f.name, genValue(r, st, g, f.t, 0))
				ds.members = append(ds.members, f)
			}
		}
		types.set("EIP712Domain", l)
	}
	doc.set("types", types)
	if (domainMode == 33 || r.Intn(20) == 0) && types.get("EIP712Domain") != nil {
		st.Hit("primary:domain-only")
		primary = "EIP712Domain"
	}
	doc.set("primaryType", jstr(primary))
	if domain != nil {
		doc.set("domain", domain)
	}
	docCost := 0
	if primary != "EIP712Domain" {
		// keep the hashing work of one document bounded
		var msg *jn
		for try, budget := 0, 1+r.Intn(3); ; try++ {
			nodeCount = 0
			msg = genStruct(r, st, g, primary, budget)
			c := g.cost(&mty{kind: "ref", ref: primary}, msg, map[string]int{})
			docCost = c
			if c <= maxBlocks || try >= 6 {
				st.Hit(fmt.Sprintf("cost:blocks<=%d", (c/10+1)*10))
				break
			}
			if budget > 0 {
				budget--
			}
		}
		doc.set("message", msg)
		if g.cyclic(primary) {
			st.Hit("graph:cyclic-from-primary")
		} else {
			st.Hit("graph:acyclic-from-primary")
		}
		st.Hit(fmt.Sprintf("graph:reachable=%d", len(g.reach(primary))))
	} else if r.Bool() {
		doc.set("message", jobj())
	}
	return &genDoc{g: g, primary: primary, doc: doc, domain: domainDef, cost: docCost}
}

// add types that nothing reachable refers to
func withExtraTypes(r *cv.Rand, gd *genDoc) *jn {
	d := gd.doc.clone()
	types := d.get("types")
	existing := append([]string{}, types.keys...)
	n := 1 + r.Intn(3)
	var added []string
	for i := 0; i < n; i++ {
		nm := fmt.Sprintf("%s%d", []string{"Extra", "A0", "Zz", "Mai", "m"}[r.Intn(5)], i)
		if types.get(nm) != nil {
			continue
		}
		l := jarr()
		for k := 0; k < r.Intn(4); k++ {
			var tn string
			switch r.Intn(4) {
			case 0:
				tn = existing[r.Intn(len(existing))] // may refer to reachable types
			case 1:
				if len(added) > 0 {
					tn = added[r.Intn(len(added))] + "[]"
				} else {
					tn = "uint256"
				}
			case 2:
				tn = nm + "[2]" // self reference
			default:
				tn = []string{"uint8", "bytes", "address[]", "string"}[r.Intn(4)]
			}
			l.arr = append(l.arr, jobj().set("name", jstr(fmt.Sprintf("f%d", k))).set("type", jstr(tn)))
		}
		types.set(nm, l)
		added = append(added, nm)
	}
	return d
}

// add keys that are no members of the struct at that position (walks objects only through the message)
func withExtraFields(r *cv.Rand, gd *genDoc) *jn {
	d := gd.doc.clone()
	var walk func(v *jn, t *mty)
	addTo := func(o *jn, s *sdef) {
		names := map[string]bool{}
		if s != nil {
			for _, m := range s.members {
				names[m.name] = true
			}
		}
		for i := 0; i < 1+r.Intn(2); i++ {
			k := []string{"extra", "zzz", "Name", "from ", "", "0"}[r.Intn(6)]
			if names[k] {
				continue
			}
			var v *jn
			switch r.Intn(4) {
			case 0:
				v = jnum("12345")
			case 1:
				v = jobj().set("x", jarr(jnull()))
			case 2:
				v = jnull()
			default:
				v = jstr("ignored")
			}
			o.set(k, v)
		}
	}
	walk = func(v *jn, t *mty) {
		switch {
		case t.kind == "arr" && v.kind == 'a':
			for _, e := range v.arr {
				walk(e, t.elem)
			}
		case t.kind == "ref" && v.kind == 'o':
			s := gd.g.find(t.ref)
			for _, m := range s.members {
				if c := v.get(m.name); c != nil {
					walk(c, m.t)
				}
			}
			if r.Intn(2) == 0 {
				addTo(v, s)
			}
		}
	}
	if msg := d.get("message"); msg != nil && gd.primary != "EIP712Domain" {
		walk(msg, &mty{kind: "ref", ref: gd.primary})
		addTo(msg, gd.g.find(gd.primary))
	}
	if dom := d.get("domain"); dom != nil {
		names := map[string]bool{}
		if tl := d.get("types").get("EIP712Domain"); tl != nil {
			for _, m := range tl.arr {
				names[m.get("name").s] = true
			}
		}
		for _, k := range []string{"salt", "extraDomain", "chainId"} {
			if !names[k] && r.Bool() {
				dom.set(k, jstr("0x01"))
			}
		}
	}
	return d
}

func (c *ctxT) generated(nStructs int, domainMode int) {
	gd := buildDoc(c.r, c.st, nStructs, domainMode)
	base := gd.doc.text(nil)
	o, ok := c.addDoc("generated", base, "", "")
	if !ok {
		return
	}
	same := func(what string, text []byte, o2 outcome) {
		if o2.cls != o.cls || !bytes.Equal(o2.digest, o.digest) {
			c.fail("digest changes under "+what, map[string]interface{}{"doc": string(base), "variant": string(text),
				"base": implDesc(o), "got": implDesc(o2)})
		}
	}
	// key orders: Go-side only (the decoded value is the same map)
	for i := 0; i < 3; i++ {
		t := gd.doc.text(c.r)
		p, err := decode(t)
		if err != nil {
			continue
		}
		c.st.Evaluations++
		c.st.Hit("variant:key-order")
		same("a different JSON key order", t, runEncode(p))
	}
	// every JSON number re-spelled as a decimal string: same integer, same digest
	{
		d := gd.doc.clone()
		var walk func(v *jn)
		n := 0
		walk = func(v *jn) {
			if v.kind == '#' {
				v.kind = 's'
				n++
			}
			for _, a := range v.arr {
				walk(a)
			}
			for _, a := range v.vals {
				walk(a)
			}
		}
		if m := d.get("message"); m != nil {
			walk(m)
		}
		if m := d.get("domain"); m != nil {
			walk(m)
		}
		if n > 0 {
			t := d.text(c.r)
			if p, err := decode(t); err == nil {
				c.st.Evaluations++
				c.st.Hit("variant:numbers-as-strings")
				same("JSON numbers re-spelled as decimal strings", t, runEncode(p))
			}
		}
	}
	if o.cls != 0 {
		return
	}
	// unreferenced extra types, extra message fields: also evaluated by the model and the spec
	t1 := withExtraTypes(c.r, gd).text(c.r)
	if o1, ok := c.addDocSpec("variant:extra-types", t1, "", "", c.r.Intn(4) == 0); ok {
		same("unreferenced extra type definitions", t1, o1)
	}
	t2 := withExtraFields(c.r, gd).text(c.r)
	if o2, ok := c.addDocSpec("variant:extra-fields", t2, "", "", c.r.Intn(4) == 0); ok {
		same("extra message/domain fields", t2, o2)
	}
}

// ---------------------------------------------------------------------------------------------
// fixed corpus: published anchors, boundaries, malformed stream
// ---------------------------------------------------------------------------------------------

const mailTypes = `"Person": [{"name": "name","type": "string"},{"name": "wallet","type": "address"}],
 "Mail": [{"name": "from","type": "Person"},{"name": "to","type": "Person"},{"name": "contents","type": "string"}]`
const mailDomainType = `"EIP712Domain": [{"name": "name","type": "string"},{"name": "version","type": "string"},{"name": "chainId","type": "uint256"},{"name": "verifyingContract","type": "address"}],`
const mailMsg = `{"from": {"name": "Cow","wallet": "0xCD2a3d9F938E13CD947Ec05AbC7FE734Df8DD826"},"to": {"name": "Bob","wallet": "0xbBbBBBBbbBBBbbbBbbBbbbbBBbBbbbbBbBbbBBbB"},"contents": "Hello, Bob!"}`

type anchor struct{ doc, digest, note string }

var anchors = []anchor{
	{`{"types": {` + mailDomainType + mailTypes + `},"primaryType": "Mail","domain": {"name": "Ether Mail","version": "1","chainId": 1,"verifyingContract": "0xCcCCccccCCCCcCCCCCCcCcCccCcCCCcCcccccccC"},"message": ` + mailMsg + `}`,
		"0xbe609aee343fb3c4b28e1df9e632fca64fcfaede20f02e86244efddf30957bd2", "the Mail example of EIP-712 (Example.js / Example.sol)"},
	{`{"types": {` + mailDomainType + mailTypes + `},"primaryType": "Mail","domain": {"name": "Ether Mail","version": "V4","chainId": 1,"verifyingContract": "0xCcCCccccCCCCcCCCCCCcCcCccCcCCCcCcccccccC"},"message": ` + mailMsg + `}`,
		"0xde26f53b35dd5ffdc13f8297e5cc7bbcb1a04bf33803bd2bf4a45eb251360cb8", "pkg/eip712 TestMessage_ExampleFromEIP712Spec"},
	{`{"types": {},"primaryType": "EIP712Domain"}`,
		"0x8d4a3f4082945b7879e2b55f181c31a77c8c0a464b70669458abbaaf99de4c38", "TestMessage_EmptyMessage"},
	{`{"types": {` + mailTypes + `},"primaryType": "Mail","message": ` + mailMsg + `}`,
		"0x25c3d40a39e639a4d0b6e4d2ace5e1281e039c88494d97d8d08f99a6ea75d775", "TestMessage_EmptyDomain"},
	{`{"types": {` + mailTypes + `},"primaryType": "Mail","message": {"from": null,"to": null,"contents": "Hello, Bob!"}}`,
		"0x326faa52849c078e0e04abe863b29fc28d9d2885d2c4b515fcfb7ba1fac30534", "TestMessage_NilReference"},
	{`{"types": {"Person": [{"name": "name","type": "string"},{"name": "wallet","type": "address"}],"Mail": [{"name": "from","type": "Person"},{"name": "to","type": "Person"},{"name": "contents","type": "bytes"}]},"primaryType": "Mail","message": {"from": null,"to": null,"contents": "0x48656C6C6F2C20426F6221"}}`,
		"0x3e4282c3bc7b7d6df14ef1c1c90f7bef0516134f4ca08d56eb38b061e5632a6b", "TestMessage_BytesString"},
	{`{"types": {"Person": [{"name": "name","type": "string"},{"name": "wallet","type": "address"}],"Mail": [{"name": "from","type": "Person"},{"name": "to","type": "Person"},{"name": "contents","type": "bytes11"}]},"primaryType": "Mail","message": {"from": null,"to": null,"contents": "0x48656C6C6F2C20426F6221"}}`,
		"0xb13b01acae69dbd0fef3568f1b060a692247aa207609d008f344c8cd7f664220", "TestMessage_Bytes11"},
	{`{"types": {"Person": [{"name": "name","type": "string"},{"name": "wallet","type": "address"}],"Mail": [{"name": "from","type": "Person"},{"name": "to","type": "Person"},{"name": "contents","type": "string[]"}]},"primaryType": "Mail","message": {"from": null,"to": null,"contents": ["Hello,", "Bob!"]}}`,
		"0xd0ac411802ea14e4e64eeed229227be1bf2909f0a30bda74c79447dfbf2f5431", "TestMessage_StringArray"},
	{`{"types": {"Person": [{"name": "name","type": "string"},{"name": "wallet","type": "address"}],"Mail": [{"name": "from","type": "Person"},{"name": "to","type": "Person"},{"name": "contents","type": "string[][]"}]},"primaryType": "Mail","message": {"from": null,"to": null,"contents": [["Hello,", "Bob!"],["How,", "do"]]}}`,
		"0x88454de00616bf6b3697b55281de2e8fb542b3997c397ad70e0c8f8f72d164f0", "TestMessage_StringArrayArray"},
	{`{"types": {"Person": [{"name": "name","type": "string"},{"name": "wallet","type": "address"}],"Mail": [{"name": "from","type": "Person"},{"name": "to","type": "Person"},{"name": "contents","type": "string[2]"}]},"primaryType": "Mail","message": {"from": null,"to": null,"contents": ["Hello,", "Bob!"]}}`,
		"0xb1bf2c8635345d6fc3e86e493180f96043548ac761683a4d069725f08a6ea2bf", "TestMessage_FixedStringArray"},
	{`{"types": {"AllTheTypes": [{"name": "i32","type": "int32"},{"name": "i256","type": "int256"},{"name": "ui32","type": "uint32"},{"name": "ui256","type": "uint256"},{"name": "t","type": "bool"},{"name": "b16","type": "bytes16"},{"name": "b32","type": "bytes32"},{"name": "b","type": "bytes"},{"name": "s","type": "string"}]},"primaryType": "AllTheTypes","message": {"i32": -12345,"i256": "-12345","ui32": "0x3039","ui256": "0xffffffffffffffffffffffffffffffffffffffffffffffffffffffffffffffff","t": true,"b16": "0x000102030405060708090a0b0c0f0e0f","b32": "0x000102030405060708090a0b0c0f0e0f000102030405060708090a0b0c0f0e0f","b": "0xfeedbeef","s": "Hello World!"}}`,
		"0x651579f58b3a8c79ba668e0f5d83e1c9f6e2715586dc11c62696ec376b595a00", "TestMessage_StructArray"},
}

// hand-written documents: one boundary or one malformed shape each (class Err expected for most);
// the model must agree on Ok/Err and on the digest
func fixedDocs() []string {
	one := func(ty, val string) string {
		return `{"types":{"T":[{"name":"x","type":"` + ty + `"}]},"primaryType":"T","message":{"x":` + val + `}}`
	}
	docs := []string{
		// integer range boundaries, every comparison in encode_unsigned / check_signed_fits
		one("uint8", "255"), one("uint8", "256"), one("uint8", "-1"), one("uint8", `"0xff"`), one("uint8", `"0x100"`),
		one("int8", "127"), one("int8", "128"), one("int8", "-128"), one("int8", "-129"), one("int8", "0"),
		one("uint256", `"115792089237316195423570985008687907853269984665640564039457584007913129639935"`),
		one("uint256", `"115792089237316195423570985008687907853269984665640564039457584007913129639936"`),
		one("int256", `"57896044618658097711785492504343953926634992332820282019728792003956564819967"`),
		one("int256", `"57896044618658097711785492504343953926634992332820282019728792003956564819968"`),
		one("int256", `"-57896044618658097711785492504343953926634992332820282019728792003956564819968"`),
		one("int256", `"-57896044618658097711785492504343953926634992332820282019728792003956564819969"`),
		one("int16", `"-0x8000"`), one("int16", `"-0x8001"`), one("uint64", "18446744073709551615"), one("uint64", "18446744073709551616"),
		one("int64", "9223372036854775808"), one("int64", "-9223372036854775808"),
		// widths: every bound of parse_m_suffix
		one("uint0", "0"), one("uint7", "0"), one("uint264", "0"), one("uint256", "1"), one("uint08", "0"), one("uint", "7"), one("int", "-7"),
		one("uint65536", "0"), one("uint+8", "0"), one("uint8 ", "0"), one("Uint8", "0"),
		one("bytes0", `"0x"`), one("bytes1", `"0xab"`), one("bytes32", `"0x`+strings.Repeat("ab", 32)+`"`), one("bytes33", `"0x`+strings.Repeat("ab", 33)+`"`),
		one("bytes01", `"0xab"`),
		// bytes<M>: too short / exact / too long (the implementation truncates), odd digits, bad digit, no prefix, 0X prefix
		one("bytes4", `"0xaabbcc"`), one("bytes4", `"0xaabbccdd"`), one("bytes4", `"0xaabbccddee"`), one("bytes4", `"aabbccdd"`),
		one("bytes4", `"0xaabbccd"`), one("bytes4", `"0xaabbccdg"`), one("bytes4", `"0Xaabbccdd"`), one("bytes4", "1"), one("bytes4", "null"),
		one("bytes", `""`), one("bytes", `"0x"`), one("bytes", `"0x0"`), one("bytes", "true"), one("bytes", `["0x00"]`),
		one("string", `""`), one("string", "5"), one("string", "null"), one("string", `{"a":1}`),
		// address: 20 bytes, shorter, 21 bytes with leading zero, 21 bytes over 160 bits, empty
		one("address", `"0x`+strings.Repeat("ff", 20)+`"`), one("address", `"0x01"`), one("address", `"0x00`+strings.Repeat("ff", 20)+`"`),
		one("address", `"0x01`+strings.Repeat("00", 20)+`"`), one("address", `""`), one("address", "0"), one("address1", `"0x01"`),
		// bool
		one("bool", "true"), one("bool", "false"), one("bool", `"TRUE"`), one("bool", `"true "`), one("bool", "1"), one("bool", "null"), one("bool8", "true"),
		// unsupported / non-elementary
		one("fixed128x18", "1"), one("ufixed", "1"), one("function", `"0x00"`), one("tuple", "{}"), one("tuple[]", "[]"), one("", "1"), one("Missing", "{}"),
		one("uint256[", "[]"), one("uint256[]x", "[]"),
		// arrays: suffix parsing and length check
		one("uint8[]", "[]"), one("uint8[]", "[1,2,3]"), one("uint8[2]", "[1,2]"), one("uint8[2]", "[1]"), one("uint8[2]", "[1,2,3]"), one("uint8[0]", "[]"),
		one("uint8[0]", "[1]"), one("uint8[02]", "[1,2]"), one("uint8[+2]", "[1,2]"), one("uint8[-0]", "[]"), one("uint8[-1]", "[]"), one("uint8[x]", "[]"),
		one("uint8[2][]", "[[1,2],[3,4]]"), one("uint8[][2]", "[[1],[]]"), one("uint8[][2]", "[[1]]"), one("uint8[2][3][]", "[]"),
		one("uint8[]", "null"), one("uint8[]", "{}"), one("uint8[]", `"x"`), one("uint8[]", "[256]"), one("[]", "[]"), one("[2]", "[1,2]"), one("]", "[]"),
		one("uint8[9223372036854775807]", "[]"), one("uint8[9223372036854775808]", "[]"), one("uint8[1]]", "[1]"), one("uint8[[1]", "[1]"),
		one("T[]", "[]"), one("T[]", `[{"x":[]}]`), one("T[1]", "[null]"),
		// a dimension that needs more than 8 bits, met exactly and missed by one
		one("bool[256]", "["+strings.Repeat("true,", 255)+"false]"), one("bool[257]", "["+strings.Repeat("true,", 255)+"false]"),
		// missing atomic member / wrong kinds for a struct value
		`{"types":{"T":[{"name":"x","type":"uint8"}]},"primaryType":"T","message":{}}`,
		`{"types":{"T":[{"name":"x","type":"uint8"}]},"primaryType":"T"}`,
		`{"types":{"T":[{"name":"x","type":"uint8"}]},"primaryType":"T","message":null}`,
		`{"types":{"T":[{"name":"x","type":"S"}],"S":[{"name":"y","type":"uint8"}]},"primaryType":"T","message":{"x":5}}`,
		`{"types":{"T":[{"name":"x","type":"S"}],"S":[{"name":"y","type":"uint8"}]},"primaryType":"T","message":{"x":[]}}`,
		`{"types":{"T":[{"name":"x","type":"S"}],"S":[{"name":"y","type":"uint8"}]},"primaryType":"T","message":{"x":{}}}`,
		`{"types":{"T":[{"name":"x","type":"S"}],"S":[]},"primaryType":"T","message":{"x":{}}}`,
		`{"types":{"T":[{"name":"x","type":"S"}],"S":null},"primaryType":"T","message":{"x":null}}`,
		`{"types":{"T":[{"name":"x","type":"S[]"}],"S":null},"primaryType":"T","message":{"x":[]}}`,
		`{"types":{"T":[{"name":"x","type":"S"},null]},"primaryType":"T","message":{}}`,
		`{"types":{"T":[]},"primaryType":"T","message":{}}`,
		`{"types":{"T":[]},"primaryType":"","message":{}}`,
		`{"types":{"T":[]},"message":{}}`,
		`{"types":null,"primaryType":"T","message":{}}`,
		`{"primaryType":"EIP712Domain"}`,
		`{"types":{"EIP712Domain":null},"primaryType":"EIP712Domain"}`,
		`{"types":{"EIP712Domain":[{"name":"name","type":"string"}]},"primaryType":"EIP712Domain"}`,
		`{"types":{"EIP712Domain":[{"name":"name","type":"string"}]},"primaryType":"EIP712Domain","domain":{"name":"x"},"message":{"ignored":1}}`,
		`{"types":{"EIP712Domain":[{"name":"name","type":"string"}],"T":[]},"primaryType":"T","domain":null,"message":{}}`,
		`{"types":{"EIP712Domain":[{"name":"d","type":"EIP712Domain"}],"T":[{"name":"d","type":"EIP712Domain"}]},"primaryType":"T","domain":{"d":{"d":null}},"message":{"d":{}}}`,
		// struct name shadows / brackets in names
		`{"types":{"uint8":[{"name":"y","type":"bool"}],"T":[{"name":"x","type":"uint8"}]},"primaryType":"T","message":{"x":{"y":true}}}`,
		`{"types":{"A[x":[{"name":"y","type":"bool"}]},"primaryType":"A[x","message":{"y":true}}`,
		`{"types":{"A[x":[null]},"primaryType":"A[x","message":{}}`,
		`{"types":{"A":[{"name":"y","type":"bool"}],"A[1]":[{"name":"z","type":"A"}],"T":[{"name":"x","type":"A[1]"}]},"primaryType":"T","message":{"x":[{"y":true}]}}`,
		// self / mutual recursion with arrays, shared references, sort order of dependencies
		`{"types":{"T":[{"name":"next","type":"T"},{"name":"kids","type":"T[]"},{"name":"v","type":"uint8"}]},"primaryType":"T","message":{"next":{"next":null,"kids":[],"v":1},"kids":[{"kids":[],"v":2},{"kids":[{"kids":[],"v":4}],"v":3}],"v":"0x5"}}`,
		`{"types":{"a":[{"name":"b","type":"B"}],"B":[{"name":"a","type":"a[2][]"},{"name":"c","type":"C_"}],"C_":[{"name":"u","type":"uint256"}],"C":[{"name":"never","type":"a"}]},"primaryType":"a","message":{"b":{"a":[[null,{"b":null}]],"c":{"u":1}}}}`,
		`{"types":{"Z":[{"name":"a","type":"A1"},{"name":"b","type":"A10"},{"name":"c","type":"A2"},{"name":"d","type":"a"},{"name":"e","type":"_"}],"A1":[],"A10":[],"A2":[],"a":[],"_":[]},"primaryType":"Z","message":{"a":{},"b":{},"c":{},"d":{},"e":{}}}`,
	}
	return docs
}

// ---------------------------------------------------------------------------------------------
// signing
// ---------------------------------------------------------------------------------------------

func (c *ctxT) signCase(text []byte, kp *secp256k1.KeyPair) {
	p, err := decode(text)
	if err != nil {
		return
	}
	term := coqDoc(c.r, p)
	p2, _ := decode(text)
	want := runEncode(p2)
	var res *ethsigner.EIP712Result
	cls := 0
	func() {
		defer func() {
			if x := recover(); x != nil {
				cls = 2
			}
		}()
		var e error
		res, e = ethsigner.SignTypedDataV4(context.Background(), kp, p)
		if e != nil {
			cls = 1
		}
	}()
	c.st.Evaluations++
	c.st.Hit(fmt.Sprintf("sign:class=%d", cls))
	if cls != want.cls {
		c.fail("SignTypedDataV4 result class differs from EncodeTypedDataV4", map[string]interface{}{"doc": string(text)})
	}
	if cls != 0 {
		c.w.Add(fmt.Sprintf("CSign %s [] None %d %s %s 0%%Z %s %s", term, cls, cv.CoqBytes(nil), cv.CoqBytes(nil), cv.CoqBytes(nil), cv.CoqBytes(nil)),
			desc{Kind: "sign", Doc: string(text), Impl: fmt.Sprintf("class=%d", cls)})
		return
	}
	// the signature clause, judged with btcec directly
	bad := func(what string) {
		c.fail("signature clause: "+what, map[string]interface{}{"doc": string(text), "rsv": hex.EncodeToString(res.SignatureRSV), "hash": hex.EncodeToString(res.Hash)})
	}
	rsv := []byte(res.SignatureRSV)
	if !bytes.Equal(res.Hash, want.digest) {
		bad("hash is not the EIP-712 digest of the document")
	}
	if len(rsv) != 65 {
		bad("signatureRSV is not 65 bytes")
	} else {
		v := rsv[64]
		if v != 27 && v != 28 {
			bad("V not in {27,28}")
		}
		if !bytes.Equal(rsv[0:32], res.R) || !bytes.Equal(rsv[32:64], res.S) || res.V.BigInt().Int64() != int64(v) {
			bad("R/S/V fields differ from signatureRSV")
		}
		compact := append([]byte{v}, rsv[0:64]...)
		pub, _, err := btcecdsa.RecoverCompact(compact, want.digest)
		if err != nil {
			bad("does not recover: " + err.Error())
		} else {
			addr := keccak(pub.SerializeUncompressed()[1:])[12:]
			if !bytes.Equal(addr, kp.Address[:]) {
				bad("recovers to a different address (signed something other than the digest?)")
			}
			// and it must not verify for the hash of the digest (double hashing)
			if pub2, _, err := btcecdsa.RecoverCompact(compact, keccak(want.digest)); err == nil {
				if bytes.Equal(keccak(pub2.SerializeUncompressed()[1:])[12:], kp.Address[:]) {
					bad("verifies for keccak(digest)")
				}
			}
		}
	}
	// what the signer returns for the digest, asked directly (RFC 6979: deterministic)
	sig, err := kp.SignDirect(want.digest)
	sigTerm := "None"
	if err == nil {
		sigTerm = fmt.Sprintf("(Some (%s, %s, %s)%%Z)", sig.R.String(), sig.S.String(), sig.V.String())
	}
	c.w.Add(fmt.Sprintf("CSign %s [] %s %d %s %s %s%%Z %s %s", term, sigTerm, cls, cv.CoqBytes(res.Hash), cv.CoqBytes(rsv),
		res.V.BigInt().String(), cv.CoqBytes(res.R), cv.CoqBytes(res.S)),
		desc{Kind: "sign", Doc: string(text), Impl: "rsv=" + hex.EncodeToString(rsv)})
}

// ---------------------------------------------------------------------------------------------
// ABI -> typed data
// ---------------------------------------------------------------------------------------------

var structRe = regexp.MustCompile(`^struct (.*\.)?([^.\[\]]+)(\[\d*\])*$`)

// ABI parameter JSON for a member type of an acyclic graph
func abiParam(r *cv.Rand, g *graph, name string, t *mty, contract string) *jn {
	p := jobj().set("name", jstr(name))
	b := t.base()
	// the dimensions are written innermost first, outermost last
	var dims []string
	for x := t; x.kind == "arr"; x = x.elem {
		if x.fixed < 0 {
			dims = append([]string{"[]"}, dims...)
		} else {
			dims = append([]string{fmt.Sprintf("[%d]", x.fixed)}, dims...)
		}
	}
	suffix := strings.Join(dims, "")
	if b.kind == "ref" {
		s := g.find(b.ref)
		comps := jarr()
		for _, m := range s.members {
			comps.arr = append(comps.arr, abiParam(r, g, m.name, m.t, contract))
		}
		p.set("type", jstr("tuple"+suffix)).set("internalType", jstr("struct "+contract+b.ref+suffix)).set("components", comps)
	} else {
		tn := b.name()
		if (b.kind == "uint" || b.kind == "int") && b.bits == 256 && r.Intn(3) == 0 {
			tn = b.kind // alias
		}
		p.set("type", jstr(tn+suffix)).set("internalType", jstr(b.name()+suffix))
	}
	return p
}

func genAcyclicGraph(r *cv.Rand, st *cv.Stats, n int) *graph {
	g := genGraph(r, st, n)
	// keep only references to later structs
	idx := map[string]int{}
	for i, s := range g.structs {
		idx[s.name] = i
	}
	for i, s := range g.structs {
		for k := range s.members {
			b := s.members[k].t.base()
			if b.kind == "ref" && idx[b.ref] <= i {
				if i+1 < len(g.structs) {
					b.ref = g.structs[i+1+r.Intn(len(g.structs)-i-1)].name
				} else {
					*b = *genAtomic(r, st)
				}
			}
		}
	}
	return g
}

func coqAtc(tc abi.TypeComponent, re map[string]bool) string {
	switch tc.ComponentType() {
	case abi.ElementaryComponent:
		base := map[abi.BaseTypeName]string{abi.BaseTypeInt: "EInt", abi.BaseTypeUInt: "EUInt", abi.BaseTypeAddress: "EAddress", abi.BaseTypeBool: "EBool",
			abi.BaseTypeFixed: "EFixed", abi.BaseTypeUFixed: "EUFixed", abi.BaseTypeBytes: "EBytes", abi.BaseTypeFunction: "EFunction", abi.BaseTypeString: "EString"}[tc.ElementaryType().BaseType()]
		return fmt.Sprintf("(DElem %s %s)", base, coqStr(tc.ElementarySuffix()))
	case abi.FixedArrayComponent:
		return fmt.Sprintf("(DFixedArr %s %d)", coqAtc(tc.ArrayChild(), re), tc.FixedArrayLen())
	case abi.DynamicArrayComponent:
		return fmt.Sprintf("(DDynArr %s)", coqAtc(tc.ArrayChild(), re))
	default:
		it := tc.Parameter().InternalType
		re[it] = true
		var parts []string
		for _, ch := range tc.TupleChildren() {
			parts = append(parts, "("+coqStr(ch.KeyName())+", "+coqAtc(ch, re)+")")
		}
		return fmt.Sprintf("(DTuple %s [%s])", coqStr(it), strings.Join(parts, "; "))
	}
}

func (c *ctxT) abiCase(paramJSON []byte, g *graph, root string) {
	var p abi.Parameter
	if err := json.Unmarshal(paramJSON, &p); err != nil {
		c.st.Hit("abi:skipped-json")
		return
	}
	tc, err := p.TypeComponentTree()
	if err != nil {
		c.st.Hit("abi:skipped-parse")
		return
	}
	var primary string
	var ts eip712.TypeSet
	cls := 0
	func() {
		defer func() {
			if x := recover(); x != nil {
				cls = 2
			}
		}()
		var e error
		primary, ts, e = eip712.ABItoTypedDataV4(context.Background(), tc)
		if e != nil {
			cls = 1
		}
	}()
	c.st.Evaluations++
	c.st.Hit(fmt.Sprintf("abi:class=%d", cls))
	re := map[string]bool{}
	atc := coqAtc(tc, re)
	var reParts []string
	var its []string
	for it := range re {
		its = append(its, it)
	}
	sort.Strings(its)
	for _, it := range its {
		m := structRe.FindStringSubmatch(it)
		if m == nil {
			reParts = append(reParts, "("+coqStr(it)+", None)")
		} else {
			reParts = append(reParts, "("+coqStr(it)+", Some "+coqStr(m[2])+")")
		}
	}
	tsTerm := "[]"
	if cls == 0 {
		tsTerm = coqTypeSet(c.r, ts)
	}
	if !c.goOnly {
		c.w.Add(fmt.Sprintf("CAbi %s [%s] %d %s %s", atc, strings.Join(reParts, "; "), cls, coqStr(primary), tsTerm),
			desc{Kind: "abi", Doc: string(paramJSON), Impl: fmt.Sprintf("class=%d primary=%s", cls, primary)})
	}
	if cls == 2 {
		c.fail("ABItoTypedDataV4 panicked", map[string]interface{}{"abi": string(paramJSON)})
	}
	if g == nil || cls != 0 {
		if g != nil {
			c.fail("ABItoTypedDataV4 refused a struct definition with struct internalTypes", map[string]interface{}{"abi": string(paramJSON)})
		}
		return
	}
	// the same component tree converted once more gives the same answer (nothing kept between calls)
	if p2, ts2, e2 := eip712.ABItoTypedDataV4(context.Background(), tc); e2 != nil || p2 != primary || !reflect.DeepEqual(ts, ts2) {
		c.fail("ABItoTypedDataV4 gives another answer when called again on the same component tree", map[string]interface{}{"abi": string(paramJSON)})
	}
	// the derived type set must hash like the hand-written one (restricted to what root reaches)
	if primary != root {
		c.fail("ABItoTypedDataV4 primary type is not the struct name", map[string]interface{}{"abi": string(paramJSON), "primary": primary})
	}
	var hand eip712.TypeSet
	json.Unmarshal(g.typesJSON().text(nil), &hand)
	for i := 0; i < 3; i++ {
		nodeCount = 0
		msgText := genStruct(c.r, c.st, g, root, 3).text(nil)
		var m1, m2 map[string]interface{}
		d1 := json.NewDecoder(bytes.NewReader(msgText))
		d1.UseNumber()
		d1.Decode(&m1)
		d2 := json.NewDecoder(bytes.NewReader(msgText))
		d2.UseNumber()
		d2.Decode(&m2)
		h1, e1 := safeHashStruct(primary, m1, ts)
		h2, e2 := safeHashStruct(root, m2, hand)
		c.st.Evaluations++
		if e1 != e2 || !bytes.Equal(h1, h2) {
			c.fail("hashStruct under the ABI-derived type set differs from the hand-written type set",
				map[string]interface{}{"abi": string(paramJSON), "types": string(g.typesJSON().text(nil)), "message": string(msgText),
					"derived": hex.EncodeToString(h1) + e1, "hand": hex.EncodeToString(h2) + e2})
		}
		// theorem C04_abi_document_digest on the implementation: the WHOLE document (EncodeTypedDataV4; the
		// derived type set has no EIP712Domain entry, the call fills it in on a copy) has the same digest
		// with the derived and with the hand-written type set, with no domain and with a domain object
		// holding undeclared keys.  Draws nothing from the PRNG (the Coq case stream stays as it was).
		for _, dom := range []map[string]interface{}{nil, {"name": "x", "chainId": "1"}} {
			var m3, m4 map[string]interface{}
			d3 := json.NewDecoder(bytes.NewReader(msgText))
			d3.UseNumber()
			d3.Decode(&m3)
			d4 := json.NewDecoder(bytes.NewReader(msgText))
			d4.UseNumber()
			d4.Decode(&m4)
			g1, f1 := safeDocDigest(copyTypeSet(ts), primary, dom, m3)
			g2, f2 := safeDocDigest(copyTypeSet(hand), root, dom, m4)
			c.st.Evaluations++
			if f1 != f2 || !bytes.Equal(g1, g2) || (e1 == "" && f1 != "") {
				c.fail("EIP-712 digest of the document under the ABI-derived type set differs from the hand-written type set (or is refused)",
					map[string]interface{}{"abi": string(paramJSON), "types": string(g.typesJSON().text(nil)), "message": string(msgText),
						"derived": hex.EncodeToString(g1) + f1, "hand": hex.EncodeToString(g2) + f2})
			}
		}
	}
}

func copyTypeSet(ts eip712.TypeSet) eip712.TypeSet {
	out := eip712.TypeSet{}
	for k, v := range ts {
		out[k] = v
	}
	return out
}

func safeDocDigest(ts eip712.TypeSet, primary string, dom, msg map[string]interface{}) (h []byte, e string) {
	defer func() {
		if x := recover(); x != nil {
			e = "PANIC"
		}
	}()
	var d map[string]interface{}
	if dom != nil {
		d = map[string]interface{}{}
		for k, v := range dom {
			d[k] = v
		}
	}
	b, err := eip712.EncodeTypedDataV4(context.Background(), &eip712.TypedData{Types: ts, PrimaryType: primary, Domain: d, Message: msg})
	if err != nil {
		return nil, "error"
	}
	return b, ""
}

func safeHashStruct(name string, v interface{}, ts eip712.TypeSet) (h []byte, e string) {
	defer func() {
		if x := recover(); x != nil {
			e = "PANIC"
		}
	}()
	b, err := eip712.HashStruct(context.Background(), name, v, ts)
	if err != nil {
		return nil, "error"
	}
	return b, ""
}

// ---------------------------------------------------------------------------------------------

func main() {
	out := flag.String("out", "", "output directory")
	tier := flag.String("tier", "quick", "quick|thorough")
	replay := flag.String("replay", "", "replay file")
	flag.Parse()
	if pf := os.Getenv("C04_PROFILE"); pf != "" {
		f, _ := os.Create(pf)
		pprof.StartCPUProfile(f)
		defer pprof.StopCPUProfile()
	}
	if *out == "" {
		fmt.Fprintln(os.Stderr, "need -out")
		os.Exit(2)
	}
	os.MkdirAll(*out, 0o755)
	header := "From Coq Require Import String List NArith ZArith Uint63.\nFrom FFS Require Import Base.Bytes Base.Lit Eip712.Input Eip712.Coerce Eip712.RunC04.\nImport ListNotations.\nOpen Scope string_scope. Open Scope N_scope."
	st := cv.NewStats()
	st.Rule = "a document counts once per distinct JSON text; the fixed corpus, every generated base document and its extra-types / extra-fields variants are each evaluated by the implementation, the model and (when well formed) the spec; key-order variants by the implementation only"
	c := &ctxT{w: cv.NewWriter(*out, "C04", header, "case", "mismatches", 16), st: st, r: cv.NewRand(4), seen: map[string]bool{}}

	if *replay != "" {
		raw, err := os.ReadFile(*replay)
		if err != nil {
			panic(err)
		}
		var rp struct {
			Case map[string]interface{} `json:"case"`
		}
		json.Unmarshal(raw, &rp)
		c.w = cv.NewWriter(*out, "C04", header, "case", "mismatches", 1)
		doc, _ := rp.Case["doc"].(string)
		if a, ok := rp.Case["abi"].(string); ok && a != "" {
			c.abiCase([]byte(a), nil, "")
			fmt.Println("implementation: ABItoTypedDataV4 re-run on", a, st.Distribution)
		} else if kind, _ := rp.Case["kind"].(string); kind == "sign" || rp.Case["rsv"] != nil {
			kp, _ := secp256k1.NewSecp256k1KeyPair(keccak([]byte("verif-c04-replay-key")))
			c.signCase([]byte(doc), kp)
			fmt.Println("implementation: SignTypedDataV4 re-run,", len(st.ImplFailures), "signature oracle failures", st.Distribution)
		} else {
			if v, ok := rp.Case["variant"].(string); ok && v != "" {
				base, _ := c.addDoc("replay-base", []byte(doc), "", "")
				o, _ := c.addDoc("replay", []byte(v), "", "")
				fmt.Println("implementation: base", implDesc(base), "variant", implDesc(o))
				if base.cls != o.cls || !bytes.Equal(base.digest, o.digest) {
					c.fail("digest of the variant differs from the base document", map[string]interface{}{"doc": doc, "variant": v})
				}
			} else if doc == "" {
				fmt.Println("replay: the case carries no document:", string(raw))
			} else {
				pub, _ := rp.Case["published"].(string)
				o, _ := c.addDoc("replay", []byte(doc), pub, "")
				fmt.Println("implementation:", implDesc(o))
			}
		}
		c.w.Flush()
		st.Write(filepath.Join(*out, "stats_C04.json"))
		return
	}
	thorough := *tier == "thorough"

	// Keccak of the evaluator against x/crypto
	for _, n := range []int{0, 1, 135, 136, 137, 272, 300} {
		in := c.r.Bytes(n)
		c.w.Add(fmt.Sprintf("CKeccak %s %s", cv.CoqBytes(in), cv.CoqBytes(keccak(in))), desc{Kind: "keccak", Impl: hex.EncodeToString(keccak(in))})
	}
	// anchors
	for _, a := range anchors {
		o, _ := c.addDoc("anchor", []byte(a.doc), a.digest, a.note)
		if "0x"+hex.EncodeToString(o.digest) != a.digest {
			c.fail("digest differs from the published digest ("+a.note+")", map[string]interface{}{"doc": a.doc, "published": a.digest, "got": implDesc(o)})
		}
	}
	for _, d := range fixedDocs() {
		c.addDoc("fixed", []byte(d), "", "")
	}
	// generated
	nDocs := 40
	if thorough {
		nDocs = 700
		maxBlocks = 60
	}
	for i := 0; i < nDocs; i++ {
		n := 1 + i%8
		c.generated(n, (i*7)%36) // 7 is coprime to 36: every domain mode within 36 documents
	}
	// signing
	kp, _ := secp256k1.NewSecp256k1KeyPair(keccak([]byte(fmt.Sprintf("verif-c04-key-%d", cv.Seed()))))
	nSign := 12
	if thorough {
		nSign = 100
	}
	c.signCase([]byte(anchors[0].doc), kp)
	c.signCase([]byte(`{"types":{"T":[{"name":"x","type":"uint8"}]},"primaryType":"T","message":{"x":256}}`), kp)
	for i := 0; i < nSign; i++ {
		k2, _ := secp256k1.NewSecp256k1KeyPair(keccak(c.r.Bytes(32)))
		c.signCase(buildDoc(c.r, st, 1+c.r.Intn(4), -1).doc.text(c.r), k2)
	}
	// ABI
	nAbi := 40
	if thorough {
		nAbi = 600
	}
	for i := 0; i < nAbi; i++ {
		g := genAcyclicGraph(c.r, st, 1+i%6)
		root := g.structs[0].name
		contract := []string{"", "C.", "My.Deep.Contract.", "a b."}[c.r.Intn(4)]
		pj := abiParam(c.r, g, "arg", &mty{kind: "ref", ref: root}, contract)
		// restrict the hand-written graph to what root reaches (the derived set has nothing else)
		c.abiCase(pj.text(nil), g, root)
	}
	for _, bad := range []string{
		`{"name":"a","type":"uint256","internalType":"uint256"}`,
		`{"name":"a","type":"tuple","internalType":"tuple","components":[]}`,
		`{"name":"a","type":"tuple","components":[]}`,
		`{"name":"a","type":"tuple","internalType":"struct ","components":[]}`,
		`{"name":"a","type":"tuple","internalType":"struct A.","components":[]}`,
		`{"name":"a","type":"tuple","internalType":"struct A[","components":[]}`,
		`{"name":"a","type":"tuple","internalType":"struct A[x]","components":[]}`,
		`{"name":"a","type":"tuple","internalType":"struct A\nB.C","components":[]}`,
		`{"name":"a","type":"tuple","internalType":"struct A[][3]","components":[]}`,
		`{"name":"a","type":"tuple[]","internalType":"struct A[]","components":[]}`,
		`{"name":"a","type":"tuple","internalType":"struct A","components":[{"name":"f","type":"fixed128x18"}]}`,
		`{"name":"a","type":"tuple","internalType":"struct A","components":[{"name":"f","type":"function"}]}`,
		`{"name":"a","type":"tuple","internalType":"struct A","components":[{"name":"f","type":"tuple","internalType":"B","components":[]}]}`,
		`{"name":"a","type":"tuple","internalType":"struct A","components":[{"name":"f","type":"tuple[2]","internalType":"struct X.B[2]","components":[{"name":"u","type":"uint"}]},{"name":"g","type":"tuple","internalType":"struct Y.B","components":[{"name":"different","type":"bool"}]}]}`,
		`{"name":"a","type":"tuple","internalType":"struct A","components":[{"name":"","type":"bytes"},{"name":"b","type":"bytes7[][1]"},{"name":"s","type":"string"},{"name":"i","type":"int8"}]}`,
	} {
		c.abiCase([]byte(bad), nil, "")
	}

	// ---- round 3 (kept after everything else so that the earlier case stream is unchanged) ----
	c.addNilDoc()
	for _, d := range round3FixedDocs() {
		c.addDoc("fixed", []byte(d), "", "")
	}
	for _, bad := range round3BadABI {
		c.abiCase([]byte(bad), nil, "")
	}
	c.round3Sign()
	c.round3ABI(thorough)
	c.round3Wallet()
	nBulk := 2000
	if thorough {
		nBulk = 20000
	}
	c.bulk(nBulk)

	if err := c.w.Flush(); err != nil {
		panic(err)
	}
	st.Extra["cases_written"] = c.w.Count()
	if err := st.Write(filepath.Join(*out, "stats_C04.json")); err != nil {
		panic(err)
	}
	fmt.Printf("C04 harness: %d cases, %d evaluations, %d impl-oracle failures\n", c.w.Count(), st.Evaluations, len(st.ImplFailures))
}
