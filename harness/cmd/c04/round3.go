// Round 3 additions to the C04 harness.
//
//  1. refDigest: an independent Go transcription of EIP-712 (written from the EIP text over the
//     generator's own typed representation — graph + meant leaf values — not over the JSON the
//     implementation reads).  It is a *search for a failing input*, not part of any theorem: a
//     difference is reported as an impl_oracle_failure carrying the document, and `./check C04 --replay`
//     then evaluates that document with the Coq model and the Coq spec.
//  2. bulk: many more generated documents than the Coq budget allows (Go side only), including
//     single-point derivations of the previous document (same names, one definition / value changed:
//     state kept across calls shows as a stale result), a sweep of every integer width and bytes<M>,
//     deep chains, second call on the same *TypedData object, HashStruct on the same TypeSet object,
//     retained digests re-verified at the end, and a concurrent section.
//  3. signing with scripted signers: R / S with leading zero bytes, the signer's error; a real key
//     ground until R (and S) start with a zero byte.
//  4. directed cases for the statements the generator did not reach (nil payload, nil member met in a
//     nested dependency, ABI errors below the top level).
package main

import (
	"bytes"
	"context"
	"encoding/hex"
	"encoding/json"
	"errors"
	"fmt"
	"io"
	"math/big"
	"os"
	"path/filepath"
	"sort"
	"strings"
	"sync"

	btcecdsa "github.com/btcsuite/btcd/btcec/v2/ecdsa"
	"github.com/hyperledger/firefly-signer/pkg/eip712"
	"github.com/hyperledger/firefly-signer/pkg/ethsigner"
	"github.com/hyperledger/firefly-signer/pkg/fswallet"
	"github.com/hyperledger/firefly-signer/pkg/keystorev3"
	"github.com/hyperledger/firefly-signer/pkg/secp256k1"
	"github.com/sirupsen/logrus"
	"verifharness/cv"
)

// ---------------------------------------------------------------------------------------------
// reference transcription of EIP-712 (v4 conventions)
// ---------------------------------------------------------------------------------------------

type refCtx struct {
	g      *graph
	domain *sdef
}

func (rc *refCtx) def(name string) *sdef {
	if name == "EIP712Domain" {
		if rc.domain != nil {
			return rc.domain
		}
		return &sdef{name: "EIP712Domain"}
	}
	return rc.g.find(name)
}

// name ‖ "(" ‖ member₁ ‖ "," ‖ … ‖ memberₙ ")" , member = type ‖ " " ‖ name
func refStructString(s *sdef) string {
	var parts []string
	for _, m := range s.members {
		parts = append(parts, m.t.name()+" "+m.name)
	}
	return s.name + "(" + strings.Join(parts, ",") + ")"
}

// the set of struct types referenced (transitively), sorted by name, appended to the primary's own
func (rc *refCtx) encodeType(root string) string {
	in := map[string]bool{root: true}
	work := []string{root}
	for len(work) > 0 {
		n := work[len(work)-1]
		work = work[:len(work)-1]
		for _, m := range rc.def(n).members {
			b := m.t
			for b.kind == "arr" {
				b = b.elem
			}
			if b.kind == "ref" && !in[b.ref] {
				in[b.ref] = true
				work = append(work, b.ref)
			}
		}
	}
	var deps []string
	for n := range in {
		if n != root {
			deps = append(deps, n)
		}
	}
	sort.Slice(deps, func(i, j int) bool { return bytes.Compare([]byte(deps[i]), []byte(deps[j])) < 0 })
	out := refStructString(rc.def(root))
	for _, n := range deps {
		out += refStructString(rc.def(n))
	}
	return out
}

func word(z *big.Int) []byte {
	m := new(big.Int).Mod(z, pow2(256)) // two's complement for negative values
	return m.FillBytes(make([]byte, 32))
}

func (rc *refCtx) hashStruct(name string, v *jn) []byte {
	if v == nil || v.kind == 'n' {
		return make([]byte, 32) // v4: an absent struct is 32 zero bytes
	}
	buf := keccak([]byte(rc.encodeType(name)))
	for _, m := range rc.def(name).members {
		buf = append(buf, rc.enc(m.t, v.get(m.name))...)
	}
	return keccak(buf)
}

func (rc *refCtx) enc(t *mty, v *jn) []byte {
	switch t.kind {
	case "arr":
		var buf []byte
		for _, e := range v.arr {
			buf = append(buf, rc.enc(t.elem, e)...)
		}
		return keccak(buf)
	case "ref":
		return rc.hashStruct(t.ref, v)
	case "uint", "int":
		return word(v.sem.(*big.Int))
	case "bool":
		if v.sem.(bool) {
			return word(big.NewInt(1))
		}
		return word(big.NewInt(0))
	case "address":
		return append(make([]byte, 12), v.sem.([]byte)...)
	case "bytesN":
		b := v.sem.([]byte)
		return append(append([]byte{}, b...), make([]byte, 32-len(b))...)
	case "bytes":
		return keccak(v.sem.([]byte))
	case "string":
		return keccak([]byte(v.sem.(string)))
	}
	panic("refDigest: unknown type kind " + t.kind)
}

func refDigest(gd *genDoc) []byte {
	rc := &refCtx{g: gd.g, domain: gd.domain}
	dom := gd.doc.get("domain")
	if dom == nil {
		dom = jobj()
	}
	buf := []byte{0x19, 0x01}
	buf = append(buf, rc.hashStruct("EIP712Domain", dom)...)
	if gd.primary != "EIP712Domain" {
		buf = append(buf, rc.hashStruct(gd.primary, gd.doc.get("message"))...)
	}
	return keccak(buf)
}

func refHashMessage(gd *genDoc) []byte {
	rc := &refCtx{g: gd.g, domain: gd.domain}
	return rc.hashStruct(gd.primary, gd.doc.get("message"))
}

// ---------------------------------------------------------------------------------------------
// bulk documents (implementation against the reference)
// ---------------------------------------------------------------------------------------------

type retained struct {
	text   []byte
	want   []byte
	p      *eip712.TypedData // the object EncodeTypedDataV4 was called on
	got    []byte            // the slice it returned (kept, compared again at the end)
	gd     *genDoc
	wantHS []byte
	cost   int
}

func copyGraph(g *graph) *graph {
	var cp func(t *mty) *mty
	cp = func(t *mty) *mty {
		if t == nil {
			return nil
		}
		c := *t
		c.elem = cp(t.elem)
		return &c
	}
	out := &graph{}
	for _, s := range g.structs {
		ns := &sdef{name: s.name}
		for _, m := range s.members {
			ns.members = append(ns.members, member{m.name, cp(m.t)})
		}
		out.structs = append(out.structs, ns)
	}
	return out
}

// one definition of the previous graph changed (names kept): a member's atomic type, a member's array
// suffix, a member renamed, a member dropped or two members swapped — in a struct the primary type
// reaches, preferably a nested one
func derive(r *cv.Rand, st *cv.Stats, g0 *graph) *graph {
	g := copyGraph(g0)
	primary := g.structs[0].name
	var cand []*sdef
	for n := range g.reach(primary) {
		if s := g.find(n); len(s.members) > 0 {
			cand = append(cand, s)
		}
	}
	if len(cand) == 0 {
		return g
	}
	sort.Slice(cand, func(i, j int) bool { return cand[i].name < cand[j].name })
	s := cand[r.Intn(len(cand))]
	if len(cand) > 1 && s.name == primary {
		s = cand[r.Intn(len(cand))] // second draw: favour nested structs
	}
	i := r.Intn(len(s.members))
	switch r.Intn(5) {
	case 0:
		b := s.members[i].t.base()
		if b.kind != "ref" {
			*b = *genAtomic(r, st)
		} else {
			s.members[i].name += "_"
		}
		st.Hit("derive:atomic-type")
	case 1:
		t := s.members[i].t
		if t.kind == "arr" {
			if t.fixed < 0 {
				t.fixed = 1 + r.Intn(2)
			} else {
				t.fixed = -1
			}
		} else {
			s.members[i].t = &mty{kind: "arr", elem: t, fixed: -1}
		}
		st.Hit("derive:array-suffix")
	case 2:
		s.members[i].name += "2"
		for k := range s.members {
			if k != i && s.members[k].name == s.members[i].name {
				s.members[i].name += "x"
			}
		}
		st.Hit("derive:member-renamed")
	case 3:
		s.members = append(s.members[:i:i], s.members[i+1:]...)
		st.Hit("derive:member-dropped")
	default:
		k := r.Intn(len(s.members))
		s.members[i], s.members[k] = s.members[k], s.members[i]
		st.Hit("derive:members-swapped")
	}
	return g
}

// the previous document with one declared domain field given another value
func deriveDomain(r *cv.Rand, st *cv.Stats, prev *genDoc) *genDoc {
	if prev.domain == nil || len(prev.domain.members) == 0 || prev.doc.get("domain") == nil {
		return buildDocG(r, st, prev.g, -1)
	}
	d := prev.doc.clone()
	f := prev.domain.members[r.Intn(len(prev.domain.members))]
	old := d.get("domain").get(f.name)
	for try := 0; try < 4; try++ {
		v := genValue(r, st, prev.g, f.t, 0)
		d.get("domain").set(f.name, v)
		if old == nil || string(v.text(nil)) != string(old.text(nil)) {
			break
		}
	}
	st.Hit("derive:one-domain-field:" + f.name)
	return &genDoc{g: prev.g, primary: prev.primary, domain: prev.domain, cost: prev.cost, doc: d}
}

// every uint<M> / int<M> width and every bytes<M>, values at the ends of the range
func sweepDoc(r *cv.Rand, st *cv.Stats, mode int) *genDoc {
	s := &sdef{name: "Widths"}
	for b := 8; b <= 256; b += 8 {
		s.members = append(s.members, member{fmt.Sprintf("u%d", b), &mty{kind: "uint", bits: b}})
		s.members = append(s.members, member{fmt.Sprintf("i%d", b), &mty{kind: "int", bits: b}})
	}
	for b := 1; b <= 32; b++ {
		s.members = append(s.members, member{fmt.Sprintf("b%d", b), &mty{kind: "bytesN", bits: b}})
	}
	g := &graph{structs: []*sdef{s}}
	msg := jobj()
	for _, m := range s.members {
		var v *jn
		switch m.t.kind {
		case "uint":
			z := []*big.Int{big.NewInt(0), new(big.Int).Sub(pow2(m.t.bits), big.NewInt(1)), pow2(m.t.bits - 1), big.NewInt(1)}[mode%4]
			v = spellInt(r, st, z)
		case "int":
			z := []*big.Int{new(big.Int).Neg(pow2(m.t.bits - 1)), new(big.Int).Sub(pow2(m.t.bits-1), big.NewInt(1)), big.NewInt(-1),
				new(big.Int).Neg(new(big.Int).Sub(pow2(m.t.bits-1), big.NewInt(1)))}[mode%4]
			v = spellInt(r, st, z)
		default:
			b := r.Bytes(m.t.bits)
			switch mode % 4 {
			case 0:
				b = make([]byte, m.t.bits)
			case 1:
				b = bytes.Repeat([]byte{0xff}, m.t.bits)
			case 2:
				b[0] = 0 // leading zero byte kept
			default:
				b[len(b)-1] = 0 // trailing zero byte kept
			}
			v = withSem(jstr(hexSpell(r, b)), b)
		}
		msg.set(m.name, v)
	}
	doc := jobj().set("types", g.typesJSON()).set("primaryType", jstr("Widths")).set("message", msg)
	st.Hit("bulk:width-sweep")
	return &genDoc{g: g, primary: "Widths", doc: doc}
}

// a chain of n structs, each reaching the next only through an array of d dimensions, names in
// descending order so that the sorted dependency list is the reverse of the discovery order
func chainDoc(r *cv.Rand, st *cv.Stats, n int) *genDoc {
	g := &graph{}
	for i := 0; i < n; i++ {
		s := &sdef{name: fmt.Sprintf("N%c", 'z'-i)}
		if i+1 < n {
			t := &mty{kind: "ref", ref: fmt.Sprintf("N%c", 'z'-i-1)}
			for d := 0; d < i%4; d++ {
				f := -1
				if r.Bool() {
					f = 1
				}
				t = &mty{kind: "arr", elem: t, fixed: f}
			}
			s.members = append(s.members, member{"next", t})
		}
		s.members = append(s.members, member{"v", genAtomic(r, st)})
		g.structs = append(g.structs, s)
	}
	st.Hit("bulk:chain")
	return buildDocG(r, st, g, -1)
}

func (c *ctxT) bulkOne(r *cv.Rand, gd *genDoc, keep *[]*retained) {
	if gd.cost > maxBlocks {
		c.st.Hit("bulk:skipped-too-large")
		return
	}
	text := gd.doc.text(r)
	p, err := decode(text)
	if err != nil {
		c.st.Hit("bulk:skipped-json")
		return
	}
	want := refDigest(gd)
	o := runEncode(p)
	c.st.Evaluations++
	c.st.Hit(fmt.Sprintf("bulk:class=%d", o.cls))
	if o.cls != 0 || !bytes.Equal(o.digest, want) {
		c.fail("digest differs from the EIP-712 reference transcription", map[string]interface{}{"doc": string(text),
			"reference": "0x" + hex.EncodeToString(want), "got": implDesc(o)})
		return
	}
	rt := &retained{text: text, want: want, p: p, got: o.digest, gd: gd, cost: gd.cost}
	// the same object once more, at once (defaults filled in place by the first call, anything left on the payload)
	if o2 := runEncode(p); o2.cls != 0 || !bytes.Equal(o2.digest, want) {
		c.fail("a second call on the same TypedData object gives another digest", map[string]interface{}{"doc": string(text),
			"first": "0x" + hex.EncodeToString(want), "got": implDesc(o2)})
	}
	c.st.Evaluations++
	// HashStruct (the exported entry point) on the same type set object
	if gd.primary != "EIP712Domain" {
		rt.wantHS = refHashMessage(gd)
		h, e := safeHashStruct(gd.primary, interface{}(p.Message), p.Types)
		if p.Message == nil {
			h, e = safeHashStruct(gd.primary, nil, p.Types)
		}
		c.st.Evaluations++
		if e != "" || !bytes.Equal(h, rt.wantHS) {
			c.fail("HashStruct differs from the EIP-712 reference transcription", map[string]interface{}{"doc": string(text),
				"reference": "0x" + hex.EncodeToString(rt.wantHS), "got": hex.EncodeToString(h) + e})
		}
	}
	*keep = append(*keep, rt)
}

func (c *ctxT) bulk(n int) {
	r := cv.NewRand(43)
	saved, savedDims := maxBlocks, dimPool
	maxBlocks = 120
	nodeLimit = 600
	dimPool = []int{0, 1, 2, 3, 1, 2, 3, 1, 2, 9, 10, 11, 16, 33}
	defer func() { maxBlocks, dimPool, nodeLimit = saved, savedDims, 0 }()
	var keep []*retained
	for m := 0; m < 8; m++ {
		c.bulkOne(r, sweepDoc(r, c.st, m), &keep)
	}
	for _, k := range []int{2, 5, 8, 8} {
		c.bulkOne(r, chainDoc(r, c.st, k), &keep)
	}
	var prev *genDoc
	for i := 0; i < n; i++ {
		var gd *genDoc
		if prev != nil && r.Intn(2) == 0 {
			// same names as the previous document, one thing changed
			switch r.Intn(5) {
			case 0:
				gd = buildDocG(r, c.st, prev.g, -1) // same types, new message and domain
				c.st.Hit("derive:new-message")
			case 1, 2:
				gd = deriveDomain(r, c.st, prev) // same document, one domain value changed
			default:
				gd = buildDocG(r, c.st, derive(r, c.st, prev.g), -1)
			}
		} else {
			gd = buildDoc(r, c.st, 1+r.Intn(8), -1)
		}
		prev = gd
		// the invariance clauses against the reference as well: unreferenced types / undeclared fields added
		switch r.Intn(6) {
		case 0:
			gd = &genDoc{g: gd.g, primary: gd.primary, domain: gd.domain, cost: gd.cost, doc: withExtraTypes(r, gd)}
			c.st.Hit("bulk:with-extra-types")
		case 1:
			gd = &genDoc{g: gd.g, primary: gd.primary, domain: gd.domain, cost: gd.cost, doc: withExtraFields(r, gd)}
			c.st.Hit("bulk:with-extra-fields")
		}
		c.bulkOne(r, gd, &keep)
		// a second call on an object already used (in place defaults, anything cached on the payload)
		if len(keep) > 0 && i%3 == 0 {
			rt := keep[r.Intn(len(keep))]
			o2 := runEncode(rt.p)
			c.st.Evaluations++
			c.st.Hit("bulk:second-call-same-object")
			if o2.cls != 0 || !bytes.Equal(o2.digest, rt.want) {
				c.fail("a later call on the same TypedData object gives another digest", map[string]interface{}{"doc": string(rt.text),
					"first": "0x" + hex.EncodeToString(rt.want), "got": implDesc(o2)})
			}
		}
	}
	c.concurrent(r, keep)
	// retained results, looked at again after everything else has run
	for _, rt := range keep {
		if !bytes.Equal(rt.got, rt.want) {
			c.fail("a digest returned earlier changed afterwards (result shares memory with later calls)", map[string]interface{}{"doc": string(rt.text),
				"first": "0x" + hex.EncodeToString(rt.want), "now": "0x" + hex.EncodeToString(rt.got)})
			break
		}
	}
}

// several goroutines encode (freshly decoded copies of) the same documents at the same time, hash
// messages against one shared read-only TypeSet and sign; every result must be the serial one
func (c *ctxT) concurrent(r *cv.Rand, keep []*retained) {
	if len(keep) == 0 {
		return
	}
	var docs []*retained
	for i := 0; i < 2000 && len(docs) < 64; i++ {
		if rt := keep[r.Intn(len(keep))]; rt.cost <= 40 {
			docs = append(docs, rt)
		}
	}
	if len(docs) == 0 {
		return
	}
	kp, _ := secp256k1.NewSecp256k1KeyPair(keccak([]byte("verif-c04-concurrent")))
	type bad struct {
		what, doc, got string
	}
	var mu sync.Mutex
	var bads []bad
	var evals int
	var wg sync.WaitGroup
	const workers = 8
	for w := 0; w < workers; w++ {
		wg.Add(1)
		go func(w int) {
			defer wg.Done()
			n := 0
			for round := 0; round < 6; round++ {
				for k := range docs {
					rt := docs[(k*(2*w+1)+w)%len(docs)]
					p, err := decode(rt.text)
					if err != nil {
						continue
					}
					var got []byte
					var desc string
					switch (k + round + w) % 3 {
					case 0:
						o := runEncode(p)
						got, desc = o.digest, implDesc(o)
					case 1:
						if rt.wantHS == nil {
							continue
						}
						// the type set object is shared by all goroutines (HashStruct only reads it)
						var m interface{}
						if p.Message != nil {
							m = p.Message
						}
						h, e := safeHashStruct(rt.gd.primary, m, rt.p.Types)
						n++
						if e != "" || !bytes.Equal(h, rt.wantHS) {
							mu.Lock()
							bads = append(bads, bad{"HashStruct on a shared type set", string(rt.text), hex.EncodeToString(h) + e})
							mu.Unlock()
						}
						continue
					default:
						func() {
							defer func() {
								if x := recover(); x != nil {
									desc = fmt.Sprint("PANIC: ", x)
								}
							}()
							res, e := ethsigner.SignTypedDataV4(context.Background(), kp, p)
							if e != nil {
								desc = "error: " + e.Error()
								return
							}
							got, desc = res.Hash, "0x"+hex.EncodeToString(res.Hash)
							rsv := []byte(res.SignatureRSV)
							if sig, e2 := kp.SignDirect(rt.want); e2 == nil && !bytes.Equal(rsv, sig.CompactRSV()) {
								got, desc = nil, "signatureRSV differs from the signer's signature of the digest"
							}
						}()
					}
					n++
					if !bytes.Equal(got, rt.want) {
						mu.Lock()
						bads = append(bads, bad{"EncodeTypedDataV4 / SignTypedDataV4", string(rt.text), desc})
						mu.Unlock()
					}
				}
			}
			mu.Lock()
			evals += n
			mu.Unlock()
		}(w)
	}
	wg.Wait()
	c.st.Evaluations += evals
	c.st.Distribution["bulk:concurrent-evaluations"] += evals
	for i, b := range bads {
		if i >= 3 {
			break
		}
		c.fail("result differs when other calls run at the same time: "+b.what, map[string]interface{}{"doc": b.doc, "got": b.got,
			"differing_results_in_this_run": len(bads), "concurrent_evaluations": evals})
	}
}

// ---------------------------------------------------------------------------------------------
// signing with scripted signers
// ---------------------------------------------------------------------------------------------

type scriptedSigner struct {
	r, s, v *big.Int
	err     error
	asked   [][]byte
}

func (f *scriptedSigner) Sign(msg []byte) (*secp256k1.SignatureData, error) {
	return nil, errors.New("scripted signer: Sign (hashing) must not be used for typed data")
}
func (f *scriptedSigner) SignDirect(msg []byte) (*secp256k1.SignatureData, error) {
	f.asked = append(f.asked, append([]byte{}, msg...))
	if f.err != nil {
		return nil, f.err
	}
	return &secp256k1.SignatureData{R: new(big.Int).Set(f.r), S: new(big.Int).Set(f.s), V: new(big.Int).Set(f.v)}, nil
}

func (c *ctxT) scriptedSignCase(text []byte, f *scriptedSigner) {
	p, err := decode(text)
	if err != nil {
		return
	}
	term := coqDoc(c.r, p)
	p2, _ := decode(text)
	want := runEncode(p2)
	var res *ethsigner.EIP712Result
	cls := 0
	func() {
		defer func() {
			if x := recover(); x != nil {
				cls = 2
			}
		}()
		var e error
		res, e = ethsigner.SignTypedDataV4(context.Background(), f, p)
		if e != nil {
			cls = 1
		}
	}()
	c.st.Evaluations++
	c.st.Hit(fmt.Sprintf("sign-scripted:class=%d", cls))
	bad := func(what string) {
		c.fail("signature clause (scripted signer): "+what, map[string]interface{}{"doc": string(text), "kind": "sign"})
	}
	sigTerm := "None"
	if f.err == nil {
		sigTerm = fmt.Sprintf("(Some (%s, %s, %s)%%Z)", f.r.String(), f.s.String(), f.v.String())
	}
	if want.cls == 0 {
		if len(f.asked) != 1 || !bytes.Equal(f.asked[0], want.digest) {
			bad("the signer was not asked (once) for exactly the digest")
		}
		if (f.err != nil) != (cls == 1) {
			bad("the signer's error is not what SignTypedDataV4 returns")
		}
	}
	if cls != 0 {
		c.w.Add(fmt.Sprintf("CSign %s [] %s %d %s %s 0%%Z %s %s", term, sigTerm, cls, cv.CoqBytes(nil), cv.CoqBytes(nil), cv.CoqBytes(nil), cv.CoqBytes(nil)),
			desc{Kind: "sign", Doc: string(text), Impl: fmt.Sprintf("class=%d", cls)})
		return
	}
	// R||S||V: 32-byte big-endian R, 32-byte big-endian S, one byte V — written out here independently
	exp := append(f.r.FillBytes(make([]byte, 32)), f.s.FillBytes(make([]byte, 32))...)
	exp = append(exp, byte(f.v.Int64()))
	rsv := []byte(res.SignatureRSV)
	if !bytes.Equal(rsv, exp) {
		bad("signatureRSV is not R(32) || S(32) || V(1) of the signer's signature: " + hex.EncodeToString(rsv))
	}
	if !bytes.Equal(res.R, exp[0:32]) || !bytes.Equal(res.S, exp[32:64]) || res.V.BigInt().Cmp(f.v) != 0 {
		bad("R/S/V fields are not the signer's values as 32-byte words")
	}
	if !bytes.Equal(res.Hash, want.digest) {
		bad("hash is not the EIP-712 digest of the document")
	}
	c.w.Add(fmt.Sprintf("CSign %s [] %s %d %s %s %s%%Z %s %s", term, sigTerm, cls, cv.CoqBytes(res.Hash), cv.CoqBytes(rsv),
		res.V.BigInt().String(), cv.CoqBytes(res.R), cv.CoqBytes(res.S)),
		desc{Kind: "sign", Doc: string(text), Impl: "rsv=" + hex.EncodeToString(rsv)})
}

const smallDoc = `{"types":{"EIP712Domain":[{"name":"name","type":"string"}],"T":[{"name":"x","type":"uint8"}]},"primaryType":"T","domain":{"name":"r3"},"message":{"x":7}}`

func (c *ctxT) round3Sign() {
	one := big.NewInt(1)
	max := new(big.Int).Sub(pow2(256), one)
	vals := []struct{ r, s *big.Int }{
		{one, one},
		{new(big.Int).Sub(pow2(248), one), max}, // R needs 31 bytes
		{pow2(248), big.NewInt(255)},            // R needs 32 bytes exactly, S one byte
		{max, pow2(247)},
		{pow2(8), new(big.Int).Sub(pow2(128), one)},
		{randBig(c.r, 200), randBig(c.r, 256)},
	}
	for i, rs := range vals {
		c.scriptedSignCase([]byte(smallDoc), &scriptedSigner{r: rs.r, s: rs.s, v: big.NewInt(int64(27 + i%2))})
	}
	c.scriptedSignCase([]byte(smallDoc), &scriptedSigner{err: errors.New("pop")})
	c.scriptedSignCase([]byte(`{"types":{"T":[{"name":"x","type":"uint8"}]},"primaryType":"T","message":{"x":256}}`), &scriptedSigner{r: one, s: one, v: big.NewInt(27)})
	// a nil key pair: the signer's own error
	{
		p, _ := decode([]byte(smallDoc))
		term := coqDoc(c.r, p)
		cls := 0
		func() {
			defer func() {
				if x := recover(); x != nil {
					cls = 2
				}
			}()
			if _, e := ethsigner.SignTypedDataV4(context.Background(), (*secp256k1.KeyPair)(nil), p); e != nil {
				cls = 1
			}
		}()
		c.st.Evaluations++
		c.st.Hit(fmt.Sprintf("sign-nil-key:class=%d", cls))
		c.w.Add(fmt.Sprintf("CSign %s [] None %d %s %s 0%%Z %s %s", term, cls, cv.CoqBytes(nil), cv.CoqBytes(nil), cv.CoqBytes(nil), cv.CoqBytes(nil)),
			desc{Kind: "sign", Doc: smallDoc, Impl: fmt.Sprintf("class=%d (nil key pair)", cls)})
	}
	// a digest with a leading zero byte: as a document, and signed
	if lz := c.leadingZeroDigestDoc(); lz != "" {
		c.st.Hit("digest:leading-zero-byte")
		c.addDoc("fixed", []byte(lz), "", "digest starts with 0x00")
		kp, _ := secp256k1.NewSecp256k1KeyPair(keccak([]byte("verif-c04-lz")))
		c.signCase([]byte(lz), kp)
		c.scriptedSignCase([]byte(lz), &scriptedSigner{r: one, s: max, v: big.NewInt(28)})
	}
	// real keys, ground until the signature of the document's digest has R (then S) with a leading zero byte
	p, _ := decode([]byte(smallDoc))
	d := runEncode(p)
	if d.cls != 0 {
		return
	}
	foundR, foundS := false, false
	for i := 0; i < 20000 && !(foundR && foundS); i++ {
		kp, _ := secp256k1.NewSecp256k1KeyPair(keccak([]byte(fmt.Sprintf("verif-c04-grind-%d-%d", cv.Seed(), i))))
		sig, err := kp.SignDirect(d.digest)
		if err != nil {
			continue
		}
		if !foundR && sig.R.BitLen() <= 248 {
			foundR = true
			c.st.Hit("sign:real-key-R-leading-zero")
			c.signCase([]byte(smallDoc), kp)
		} else if !foundS && sig.S.BitLen() <= 248 {
			foundS = true
			c.st.Hit("sign:real-key-S-leading-zero")
			c.signCase([]byte(smallDoc), kp)
		}
	}
}

// ---------------------------------------------------------------------------------------------
// directed cases for statements the generator did not reach
// ---------------------------------------------------------------------------------------------

func (c *ctxT) addNilDoc() {
	o := runEncode(nil)
	c.st.Evaluations++
	c.st.Hit(fmt.Sprintf("nil-payload:class=%d", o.cls))
	c.w.Add(fmt.Sprintf("CDoc None [] %d %s None true", o.cls, cv.CoqBytes(o.digest)), desc{Kind: "nil-payload", Impl: implDesc(o)})
}

func round3FixedDocs() []string {
	dom := func(d string) string {
		return `{"types":{"EIP712Domain":[{"name":"name","type":"string"},{"name":"version","type":"string"},{"name":"chainId","type":"uint256"},{"name":"verifyingContract","type":"address"},{"name":"salt","type":"bytes32"}],"T":[{"name":"x","type":"S"}],"S":[{"name":"y","type":"uint8"}]},"primaryType":"T","domain":` + d + `,"message":{"x":{"y":1}}}`
	}
	s1 := `"0x` + strings.Repeat("00", 31) + `01"`
	s2 := `"0x` + strings.Repeat("00", 31) + `02"`
	return []string{
		// nil member met while walking a nested dependency (directly, through arrays, behind a visited type)
		`{"types":{"T":[{"name":"x","type":"S"}],"S":[null]},"primaryType":"T","message":{}}`,
		`{"types":{"T":[{"name":"x","type":"S[][2]"}],"S":[{"name":"y","type":"U"}],"U":[{"name":"ok","type":"bool"},null]},"primaryType":"T","message":{"x":[[],[]]}}`,
		`{"types":{"T":[{"name":"t","type":"T"},{"name":"x","type":"S"}],"S":[null]},"primaryType":"T","message":{"t":null,"x":null}}`,
		// documents that differ in one domain field only, one after the other and back (anything kept
		// between calls under a partial key shows as a stale digest)
		dom(`{"name":"n","version":"1","chainId":1,"verifyingContract":"0x0000000000000000000000000000000000000001","salt":` + s1 + `}`),
		dom(`{"name":"n","version":"1","chainId":1,"verifyingContract":"0x0000000000000000000000000000000000000001","salt":` + s2 + `}`),
		dom(`{"name":"n","version":"1","chainId":1,"verifyingContract":"0x0000000000000000000000000000000000000002","salt":` + s1 + `}`),
		dom(`{"name":"n","version":"1","chainId":2,"verifyingContract":"0x0000000000000000000000000000000000000001","salt":` + s1 + `}`),
		dom(`{"name":"n","version":"1","chainId":1,"verifyingContract":"0x0000000000000000000000000000000000000001","salt":` + s1 + `}`),
		// the same primary definition over two different definitions of what it refers to, and back
		`{"types":{"T":[{"name":"x","type":"S[]"}],"S":[{"name":"y","type":"uint8"}]},"primaryType":"T","message":{"x":[]}}`,
		`{"types":{"T":[{"name":"x","type":"S[]"}],"S":[{"name":"y","type":"uint16"}]},"primaryType":"T","message":{"x":[]}}`,
		`{"types":{"T":[{"name":"x","type":"S[]"}],"S":[{"name":"y","type":"uint8"}]},"primaryType":"T","message":{"x":[]}}`,
	}
}

var round3BadABI = []string{
	// an error met below the top level: in the recursion over the children of a nested tuple …
	`{"name":"a","type":"tuple","internalType":"struct A","components":[{"name":"f","type":"tuple","internalType":"struct B","components":[{"name":"g","type":"tuple","internalType":"bad","components":[]}]}]}`,
	`{"name":"a","type":"tuple","internalType":"struct A","components":[{"name":"f","type":"tuple[2][]","internalType":"struct B[2][]","components":[{"name":"g","type":"fixed128x18"}]}]}`,
	// … and in the child of an array
	`{"name":"a","type":"tuple","internalType":"struct A","components":[{"name":"f","type":"tuple[]","internalType":"B[]","components":[]}]}`,
	`{"name":"a","type":"tuple","internalType":"struct A","components":[{"name":"f","type":"ufixed[3][]"}]}`,
	// the same struct met twice (second occurrence skipped), once through a two-dimensional array
	`{"name":"a","type":"tuple","internalType":"struct A","components":[{"name":"f","type":"tuple[][1]","internalType":"struct X.B[][1]","components":[{"name":"u","type":"uint8"}]},{"name":"g","type":"tuple","internalType":"struct X.B","components":[{"name":"u","type":"uint8"}]}]}`,
}

// struct reached only through an array of the given dimensions (every fixed/dynamic combination of two
// dimensions, three dimensions, a dimension of two digits), then many more random graphs Go side only
func (c *ctxT) round3ABI(thorough bool) {
	dims := [][]int{{-1, -1}, {2, -1}, {-1, 2}, {2, 3}, {1, 1}, {-1, 2, -1}, {2, 2, 2}, {10}, {16, -1}, {0, 2}}
	for _, ds := range dims {
		t := &mty{kind: "ref", ref: "Inner"}
		for _, d := range ds {
			t = &mty{kind: "arr", elem: t, fixed: d}
		}
		g := &graph{structs: []*sdef{
			{name: "Outer", members: []member{{"a", &mty{kind: "uint", bits: 256}}, {"f", t}, {"z", &mty{kind: "bytesN", bits: 32}}}},
			{name: "Inner", members: []member{{"u", &mty{kind: "uint", bits: 8}}, {"deep", &mty{kind: "ref", ref: "Leaf_"}}}},
			{name: "Leaf_", members: []member{{"s", &mty{kind: "string"}}, {"b", &mty{kind: "bytes"}}}},
		}}
		c.st.Hit("abi:directed-dims")
		c.abiCase(abiParam(c.r, g, "arg", &mty{kind: "ref", ref: "Outer"}, "Lib.").text(nil), g, "Outer")
	}
	n := 500
	if thorough {
		n = 5000
	}
	r := cv.NewRand(44)
	savedDims, savedR := dimPool, c.r
	dimPool = []int{0, 1, 2, 3, 1, 2, 9, 10, 11, 16}
	c.goOnly, c.r, nodeLimit = true, r, 400
	defer func() { dimPool, c.goOnly, c.r, nodeLimit = savedDims, false, savedR, 0 }()
	for i := 0; i < n; i++ {
		g := genAcyclicGraph(r, c.st, 1+i%8)
		root := g.structs[0].name
		contract := []string{"", "C.", "My.Deep.Contract.", "a b."}[r.Intn(4)]
		c.st.Hit("abi:bulk")
		c.abiCase(abiParam(r, g, "arg", &mty{kind: "ref", ref: root}, contract).text(nil), g, root)
	}
}

// a document whose digest starts with a zero byte (a result passed through an integer, or trimmed,
// loses it), found by search over one message value
func (c *ctxT) leadingZeroDigestDoc() string {
	for i := 0; i < 5000; i++ {
		doc := fmt.Sprintf(`{"types":{"T":[{"name":"x","type":"uint32"}]},"primaryType":"T","message":{"x":%d}}`, i+int(cv.Seed()%1000)*5000)
		rc := &refCtx{g: &graph{structs: []*sdef{{name: "T", members: []member{{"x", &mty{kind: "uint", bits: 32}}}}}}}
		v := jobj().set("x", withSem(jnum("0"), big.NewInt(int64(i)+int64(cv.Seed()%1000)*5000)))
		buf := append([]byte{0x19, 0x01}, rc.hashStruct("EIP712Domain", jobj())...)
		buf = append(buf, rc.hashStruct("T", v)...)
		if keccak(buf)[0] == 0 {
			return doc
		}
	}
	return ""
}

// Wallet.SignTypedDataV4 of pkg/fswallet (the other entry the property names): four key files, each
// address asked to sign; the signature must recover (btcec) to the address asked for, for the
// reference digest of the document, in both orders of asking and again after the others were used
func (c *ctxT) round3Wallet() {
	logrus.SetOutput(io.Discard)
	logrus.SetLevel(logrus.PanicLevel)
	dir, err := os.MkdirTemp("", "c04w")
	if err != nil {
		c.st.Hit("wallet:skipped-tempdir")
		return
	}
	defer os.RemoveAll(dir)
	var kps []*secp256k1.KeyPair
	// four keys: the second shares the first byte of its address with the first, the third the last
	// byte (found by search), so that a lookup under a shortened address meets a collision
	for i, n := 0, 0; i < 4 && n < 20000; n++ {
		kp, _ := secp256k1.NewSecp256k1KeyPair(keccak([]byte(fmt.Sprintf("verif-c04-wallet-%d-%d", cv.Seed(), n))))
		if (i == 1 && kp.Address[0] != kps[0].Address[0]) || (i == 2 && kp.Address[19] != kps[0].Address[19]) {
			continue
		}
		i++
		kps = append(kps, kp)
		pw := fmt.Sprintf("pw-%d", i)
		wf := keystorev3.NewWalletFileLight(pw, kp)
		b, _ := json.Marshal(wf)
		name := hex.EncodeToString(kp.Address[:])
		os.WriteFile(filepath.Join(dir, name+".key.json"), b, 0o600)
		os.WriteFile(filepath.Join(dir, name+".pwd"), []byte(pw), 0o600)
	}
	ctx := context.Background()
	w, err := fswallet.NewFilesystemWallet(ctx, &fswallet.Config{
		Path: dir, SignerCacheSize: "250", SignerCacheTTL: "24h", DisableListener: true,
		Filenames: fswallet.FilenamesConfig{PrimaryExt: ".key.json", PasswordExt: ".pwd", PasswordTrimSpace: true},
		Metadata:  fswallet.MetadataConfig{Format: "none"},
	})
	if err == nil {
		err = w.Initialize(ctx)
	}
	if err != nil {
		c.st.Hit("wallet:skipped-init-error")
		return
	}
	defer w.Close()
	r := cv.NewRand(45)
	var docs []*genDoc
	for i := 0; i < 4; i++ {
		docs = append(docs, buildDoc(r, c.st, 1+r.Intn(3), -1))
	}
	for round := 0; round < 3; round++ {
		for k := range kps {
			kp := kps[(k+round)%len(kps)]
			gd := docs[(k+2*round)%len(docs)]
			text := gd.doc.text(r)
			p, err := decode(text)
			if err != nil {
				continue
			}
			want := refDigest(gd)
			var res *ethsigner.EIP712Result
			func() {
				defer func() {
					if x := recover(); x != nil {
						err = fmt.Errorf("PANIC: %v", x)
					}
				}()
				res, err = w.SignTypedDataV4(ctx, kp.Address, p)
			}()
			c.st.Evaluations++
			c.st.Hit("wallet:sign")
			bad := func(what string) {
				c.fail("wallet signature clause: "+what, map[string]interface{}{"doc": string(text), "kind": "sign", "address": kp.Address.String()})
			}
			if err != nil {
				bad("Wallet.SignTypedDataV4 failed for an address of the wallet: " + err.Error())
				continue
			}
			rsv := []byte(res.SignatureRSV)
			if !bytes.Equal(res.Hash, want) {
				bad("hash is not the EIP-712 digest of the document")
			}
			if len(rsv) != 65 || (rsv[64] != 27 && rsv[64] != 28) {
				bad("signatureRSV is not 65 bytes with V in {27,28}")
				continue
			}
			pub, _, e := btcecdsa.RecoverCompact(append([]byte{rsv[64]}, rsv[0:64]...), want)
			if e != nil {
				bad("does not recover: " + e.Error())
			} else if !bytes.Equal(keccak(pub.SerializeUncompressed()[1:])[12:], kp.Address[:]) {
				bad("recovers to another address than the one asked to sign")
			}
		}
	}
}

var _ = json.Marshal
