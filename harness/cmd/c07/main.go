// Harness for C07 (Keystore V3 files).  Creates wallet files with pkg/keystorev3 under a scripted
// crypto/rand (and uuid) stream, reads files produced by the harness's own V3 writer (direct x/crypto
// and crypto/aes calls), the published Web3 test vectors and systematic mutations of them, and writes
// Coq case files that Keystore/RunC07.v evaluates against the model and the V3 specification.  The
// primitive tables of every case are filled by calling the libraries directly, never firefly-signer.
package main

import (
	"bytes"
	"crypto/aes"
	"crypto/cipher"
	"crypto/rand"
	"crypto/sha256"
	"encoding/hex"
	"encoding/json"
	"flag"
	"fmt"
	"io"
	"os"
	"path/filepath"
	"sort"
	"strconv"
	"strings"
	"sync"
	"time"

	btcec "github.com/btcsuite/btcd/btcec/v2"
	"github.com/google/uuid"
	"github.com/hyperledger/firefly-signer/pkg/keystorev3"
	"github.com/hyperledger/firefly-signer/pkg/secp256k1"
	"golang.org/x/crypto/pbkdf2"
	"golang.org/x/crypto/scrypt"
	"golang.org/x/crypto/sha3"
	"verifharness/cv"
)

// ---------------------------------------------------------------------------------------------
// JSON trees exactly as the encoding/json lexer delivers them (numbers as text, members in order)
// ---------------------------------------------------------------------------------------------

type jnode struct {
	kind byte // 'n' null, 'b' bool, '#' number, 's' string, 'a' array, 'o' object
	b    bool
	s    string
	arr  []*jnode
	keys []string
	vals []*jnode
}

func parseJSON(data []byte) (*jnode, bool) {
	if !json.Valid(data) {
		return nil, false
	}
	dec := json.NewDecoder(bytes.NewReader(data))
	dec.UseNumber()
	n, err := parseValue(dec)
	if err != nil {
		return nil, false
	}
	return n, true
}

func parseValue(dec *json.Decoder) (*jnode, error) {
	tok, err := dec.Token()
	if err != nil {
		return nil, err
	}
	switch t := tok.(type) {
	case nil:
		return &jnode{kind: 'n'}, nil
	case bool:
		return &jnode{kind: 'b', b: t}, nil
	case json.Number:
		return &jnode{kind: '#', s: string(t)}, nil
	case string:
		return &jnode{kind: 's', s: t}, nil
	case json.Delim:
		if t == '[' {
			n := &jnode{kind: 'a'}
			for dec.More() {
				v, err := parseValue(dec)
				if err != nil {
					return nil, err
				}
				n.arr = append(n.arr, v)
			}
			_, err := dec.Token()
			return n, err
		}
		n := &jnode{kind: 'o'}
		for dec.More() {
			kt, err := dec.Token()
			if err != nil {
				return nil, err
			}
			v, err := parseValue(dec)
			if err != nil {
				return nil, err
			}
			n.keys = append(n.keys, kt.(string))
			n.vals = append(n.vals, v)
		}
		_, err := dec.Token()
		return n, err
	}
	return nil, fmt.Errorf("unexpected token")
}

func (n *jnode) coq() string {
	switch n.kind {
	case 'n':
		return "DNull"
	case 'b':
		if n.b {
			return "(DBool true)"
		}
		return "(DBool false)"
	case '#':
		return "(DNum " + cv.CoqBytes([]byte(n.s)) + ")"
	case 's':
		return "(DStr " + cv.CoqBytes([]byte(n.s)) + ")"
	case 'a':
		parts := make([]string, len(n.arr))
		for i, v := range n.arr {
			parts[i] = v.coq()
		}
		return "(DArr [" + strings.Join(parts, "; ") + "])"
	default:
		parts := make([]string, len(n.keys))
		for i := range n.keys {
			parts[i] = "(" + cv.CoqBytes([]byte(n.keys[i])) + ", " + n.vals[i].coq() + ")"
		}
		return "(DObj [" + strings.Join(parts, "; ") + "])"
	}
}

// get returns the value of the only member with exactly this name.
func (n *jnode) get(name string) *jnode {
	if n == nil || n.kind != 'o' {
		return nil
	}
	var found *jnode
	for i, k := range n.keys {
		if k == name {
			if found != nil {
				return nil
			}
			found = n.vals[i]
		}
	}
	return found
}

func (n *jnode) numbers(out map[string]bool) {
	switch n.kind {
	case '#':
		out[n.s] = true
	case 'a':
		for _, v := range n.arr {
			v.numbers(out)
		}
	case 'o':
		for _, v := range n.vals {
			v.numbers(out)
		}
	}
}

// valueNode renders a Go value the way json.Marshal prints it, as a tree.
func valueNode(v interface{}) *jnode {
	b, err := json.Marshal(v)
	if err != nil {
		panic(err)
	}
	n, ok := parseJSON(b)
	if !ok {
		panic("marshal output does not parse")
	}
	return n
}

// ---------------------------------------------------------------------------------------------
// primitive tables (direct library calls)
// ---------------------------------------------------------------------------------------------

type tables struct {
	scrypt, scryptCap, pbkdf2, aes, pubkey, num, uuid []string
	seen                                              map[string]bool
}

func newTables() *tables { return &tables{seen: map[string]bool{}} }

func (t *tables) add(list *[]string, entry string) {
	if !t.seen[entry] {
		t.seen[entry] = true
		*list = append(*list, entry)
	}
}

func z(n int) string {
	if n < 0 {
		return fmt.Sprintf("(%d)%%Z", n)
	}
	return fmt.Sprintf("%d%%Z", n)
}

// scryptAffordable bounds the memory (128*N*r bytes) and work of a direct scrypt call.
func scryptAffordable(n, r, p int) bool {
	if n <= 1 || r <= 0 || p <= 0 || n > 1<<20 || r > 64 || p > 64 {
		return false
	}
	return n*r <= 1<<21 && n*r*p <= 1<<22
}

// addScrypt records scrypt.Key(pw, salt, n, r, p, dklen) and, for creation, the backing array.
func (t *tables) addScrypt(pw, salt []byte, n, r, p, dklen int, withCap bool) []byte {
	if !scryptAffordable(n, r, p) || dklen < 0 || dklen > 1024 {
		return nil
	}
	out, err := scrypt.Key(pw, salt, n, r, p, dklen)
	if err != nil {
		return nil
	}
	t.add(&t.scrypt, fmt.Sprintf("(%s, %s, %s, %s, %s, %s, %s)", cv.CoqBytes(pw), cv.CoqBytes(salt), z(n), z(r), z(p), z(dklen), cv.CoqBytes(out)))
	if withCap {
		whole := out[:cap(out)]
		t.add(&t.scryptCap, fmt.Sprintf("(%s, %s, %s, %s, %s, %s, %s)", cv.CoqBytes(pw), cv.CoqBytes(salt), z(n), z(r), z(p), z(dklen), cv.CoqBytes(whole)))
	}
	return out
}

func (t *tables) addPbkdf2(pw, salt []byte, c, dklen int) []byte {
	if c <= 0 || c > 1<<20 || dklen < 0 || dklen > 1024 {
		return nil
	}
	out := pbkdf2.Key(pw, salt, c, dklen, sha256.New)
	t.add(&t.pbkdf2, fmt.Sprintf("(%s, %s, %s, %s, %s)", cv.CoqBytes(pw), cv.CoqBytes(salt), z(c), z(dklen), cv.CoqBytes(out)))
	return out
}

func aesCtr(key, iv, data []byte) []byte {
	block, err := aes.NewCipher(key)
	if err != nil || len(iv) != block.BlockSize() {
		return nil
	}
	out := make([]byte, len(data))
	cipher.NewCTR(block, iv).XORKeyStream(out, data)
	return out
}

func (t *tables) addAes(key, iv, data []byte) []byte {
	out := aesCtr(key, iv, data)
	if out == nil {
		return nil
	}
	t.add(&t.aes, fmt.Sprintf("(%s, %s, %s, %s)", cv.CoqBytes(key), cv.CoqBytes(iv), cv.CoqBytes(data), cv.CoqBytes(out)))
	return out
}

func pubkeyOf(key []byte) (pub []byte) {
	defer func() {
		if recover() != nil {
			pub = nil
		}
	}()
	_, pk := btcec.PrivKeyFromBytes(key)
	return pk.SerializeUncompressed()[1:]
}

func addressOf(key []byte) []byte {
	pub := pubkeyOf(key)
	if pub == nil {
		return nil
	}
	h := sha3.NewLegacyKeccak256()
	h.Write(pub)
	return h.Sum(nil)[12:32]
}

func (t *tables) addPubkey(key []byte) {
	if pub := pubkeyOf(key); pub != nil {
		t.add(&t.pubkey, fmt.Sprintf("(%s, %s)", cv.CoqBytes(key), cv.CoqBytes(pub)))
	}
}

// addDoc records the float64 conversion of every number literal and the UUID parse of the id.
func (t *tables) addDoc(doc *jnode) {
	if doc == nil {
		return
	}
	nums := map[string]bool{}
	doc.numbers(nums)
	lits := make([]string, 0, len(nums))
	for l := range nums {
		lits = append(lits, l)
	}
	sort.Strings(lits)
	for _, l := range lits {
		f, err := strconv.ParseFloat(l, 64)
		if err != nil {
			t.add(&t.num, fmt.Sprintf("(%s, None)", cv.CoqBytes([]byte(l))))
			continue
		}
		b, err := json.Marshal(f)
		if err != nil {
			t.add(&t.num, fmt.Sprintf("(%s, None)", cv.CoqBytes([]byte(l))))
			continue
		}
		t.add(&t.num, fmt.Sprintf("(%s, Some %s)", cv.CoqBytes([]byte(l)), cv.CoqBytes(b)))
	}
	if doc.kind == 'o' {
		for i, k := range doc.keys {
			if strings.EqualFold(k, "id") && doc.vals[i].kind == 's' && doc.vals[i].s != "" {
				var u uuid.UUID
				if err := u.UnmarshalText([]byte(doc.vals[i].s)); err != nil {
					t.add(&t.uuid, fmt.Sprintf("(%s, None)", cv.CoqBytes([]byte(doc.vals[i].s))))
				} else {
					t.add(&t.uuid, fmt.Sprintf("(%s, Some %s)", cv.CoqBytes([]byte(doc.vals[i].s)), cv.CoqBytes(u[:])))
				}
			}
		}
	}
}

func (t *tables) coq() string {
	j := func(l []string) string { return "[" + strings.Join(l, "; ") + "]" }
	return "{| t_scrypt := " + j(t.scrypt) + "; t_scrypt_cap := " + j(t.scryptCap) + "; t_pbkdf2 := " + j(t.pbkdf2) +
		"; t_aes := " + j(t.aes) + "; t_pubkey := " + j(t.pubkey) + "; t_num := " + j(t.num) + "; t_uuid := " + j(t.uuid) + " |}"
}

// ---------------------------------------------------------------------------------------------
// the harness's own Web3 Secret Storage V3 reader / writer (the independent implementation)
// ---------------------------------------------------------------------------------------------

type v3params struct {
	kdf        string // "scrypt" | "pbkdf2"
	n, r, p, c int
	dklen      int
	prf        string
}

func keccak(parts ...[]byte) []byte {
	h := sha3.NewLegacyKeccak256()
	for _, p := range parts {
		h.Write(p)
	}
	return h.Sum(nil)
}

func deriveOwn(kp v3params, pw, salt []byte) []byte {
	if kp.kdf == "scrypt" {
		dk, err := scrypt.Key(pw, salt, kp.n, kp.r, kp.p, 32)
		if err != nil {
			panic(err)
		}
		return dk
	}
	return pbkdf2.Key(pw, salt, kp.c, 32, sha256.New)
}

type fileOpts struct {
	upperHex bool
	shuffle  bool
	indent   bool
	extra    bool
}

// v3write produces a standard V3 document for key under pw (salt, iv, id given).
func v3write(r *cv.Rand, kp v3params, key, pw, salt, iv []byte, id string, o fileOpts) string {
	dk := deriveOwn(kp, pw, salt)
	ct := aesCtr(dk[:16], iv, key)
	mac := keccak(dk[16:32], ct)
	hx := func(b []byte) string {
		s := hex.EncodeToString(b)
		if o.upperHex {
			s = strings.ToUpper(s)
		}
		return `"` + s + `"`
	}
	var kdfparams []string
	if kp.kdf == "scrypt" {
		kdfparams = []string{`"dklen":32`, fmt.Sprintf(`"n":%d`, kp.n), fmt.Sprintf(`"r":%d`, kp.r), fmt.Sprintf(`"p":%d`, kp.p), `"salt":` + hx(salt)}
	} else {
		kdfparams = []string{`"dklen":32`, fmt.Sprintf(`"c":%d`, kp.c), `"prf":"hmac-sha256"`, `"salt":` + hx(salt)}
	}
	crypto := []string{`"cipher":"aes-128-ctr"`, `"ciphertext":` + hx(ct), `"cipherparams":{"iv":` + hx(iv) + `}`, `"kdf":"` + kp.kdf + `"`, `"mac":` + hx(mac)}
	top := []string{`"version":3`, `"id":"` + id + `"`}
	if o.extra {
		top = append(top, `"address":"`+hex.EncodeToString(addressOf(key))+`"`, `"meta":{"name":"kéy","num":1.5e3,"tags":["a",null,true]}`)
		kdfparams = append(kdfparams, `"comment":"x"`)
	}
	shuffle := func(l []string) {
		if o.shuffle {
			for i := len(l) - 1; i > 0; i-- {
				j := r.Intn(i + 1)
				l[i], l[j] = l[j], l[i]
			}
		}
	}
	shuffle(kdfparams)
	crypto = append(crypto, `"kdfparams":{`+strings.Join(kdfparams, ",")+`}`)
	shuffle(crypto)
	top = append(top, `"crypto":{`+strings.Join(crypto, ",")+`}`)
	shuffle(top)
	doc := `{` + strings.Join(top, ",") + `}`
	if o.indent {
		var buf bytes.Buffer
		json.Indent(&buf, []byte(doc), "", "\t")
		doc = buf.String()
	}
	return doc
}

type v3doc struct {
	ok                bool // structurally readable by this reader
	cipher, kdf, prf  string
	n, r, p, c, dklen int
	haveInts          bool
	salt, iv, ct, mac []byte
	id                string
}

func hexField(n *jnode) ([]byte, bool) {
	if n == nil || n.kind != 's' {
		return nil, false
	}
	b, err := hex.DecodeString(strings.TrimPrefix(n.s, "0x"))
	return b, err == nil
}

func intField(n *jnode) (int, bool) {
	if n == nil || n.kind != '#' {
		return 0, false
	}
	v, err := strconv.ParseInt(n.s, 10, 64)
	return int(v), err == nil
}

// v3parse reads the fields of a V3 document (strict member names).
func v3parse(doc *jnode) *v3doc {
	d := &v3doc{}
	c := doc.get("crypto")
	if doc.get("version") == nil || doc.get("version").kind != '#' || doc.get("version").s != "3" || c == nil || c.kind != 'o' {
		return d
	}
	if id := doc.get("id"); id == nil || id.kind != 's' {
		return d
	} else {
		d.id = id.s
	}
	var ok1, ok2, ok3, ok4 bool
	d.ct, ok1 = hexField(c.get("ciphertext"))
	d.mac, ok2 = hexField(c.get("mac"))
	d.iv, ok3 = hexField(c.get("cipherparams").get("iv"))
	kp := c.get("kdfparams")
	d.salt, ok4 = hexField(kp.get("salt"))
	if !ok1 || !ok2 || !ok3 || !ok4 || c.get("kdf") == nil || c.get("kdf").kind != 's' || c.get("cipher") == nil || c.get("cipher").kind != 's' {
		return d
	}
	d.kdf = c.get("kdf").s
	d.cipher = c.get("cipher").s
	var okd bool
	d.dklen, okd = intField(kp.get("dklen"))
	if !okd {
		return d
	}
	switch d.kdf {
	case "scrypt":
		var a, b, e bool
		d.n, a = intField(kp.get("n"))
		d.r, b = intField(kp.get("r"))
		d.p, e = intField(kp.get("p"))
		if !a || !b || !e {
			return d
		}
	case "pbkdf2":
		var a bool
		d.c, a = intField(kp.get("c"))
		if !a || kp.get("prf") == nil || kp.get("prf").kind != 's' {
			return d
		}
		d.prf = kp.get("prf").s
	default:
		return d
	}
	d.ok = true
	return d
}

// v3decrypt is the independent decryption: (key, "ok") | (nil, "mac") | (nil, "invalid") | (nil, "skip" = too costly
// to decide here).  It records the primitive calls in t.
func v3decrypt(t *tables, doc *jnode, pw []byte) ([]byte, string) {
	if doc == nil {
		return nil, "invalid"
	}
	t.addDoc(doc)
	d := v3parse(doc)
	if !d.ok || d.cipher != "aes-128-ctr" || d.dklen != 32 || len(d.iv) != 16 {
		// still record what a laxer reader would ask the KDF for, when that is cheap
		if d.ok && d.dklen == 32 {
			var dk []byte
			if d.kdf == "scrypt" {
				dk = t.addScrypt(pw, d.salt, d.n, d.r, d.p, 32, false)
			} else if d.prf == "hmac-sha256" {
				dk = t.addPbkdf2(pw, d.salt, d.c, 32)
			}
			if dk != nil {
				t.addAes(dk[:16], d.iv, d.ct)
			}
		}
		return nil, "invalid"
	}
	var dk []byte
	if d.kdf == "scrypt" {
		if d.n <= 1 || d.n&(d.n-1) != 0 || d.r <= 0 || d.p <= 0 || d.r*d.p >= 1<<30 {
			return nil, "invalid"
		}
		dk = t.addScrypt(pw, d.salt, d.n, d.r, d.p, 32, false)
	} else {
		if d.prf != "hmac-sha256" || d.c < 1 {
			return nil, "invalid"
		}
		dk = t.addPbkdf2(pw, d.salt, d.c, 32)
	}
	if dk == nil {
		return nil, "skip"
	}
	key := t.addAes(dk[:16], d.iv, d.ct)
	if !bytes.Equal(keccak(dk[16:32], d.ct), d.mac) {
		return nil, "mac"
	}
	t.addPubkey(key)
	return key, "ok"
}

// ---------------------------------------------------------------------------------------------
// scripted randomness
// ---------------------------------------------------------------------------------------------

type scripted struct {
	buf []byte
	pos int
}

func (s *scripted) Read(p []byte) (int, error) {
	if s.pos >= len(s.buf) {
		return 0, io.ErrUnexpectedEOF
	}
	n := copy(p, s.buf[s.pos:])
	s.pos += n
	return n, nil
}

func withScriptedRand(stream []byte, f func()) (consumed int) {
	s := &scripted{buf: stream}
	old := rand.Reader
	rand.Reader = s
	uuid.SetRand(s)
	defer func() {
		rand.Reader = old
		uuid.SetRand(nil)
		consumed = s.pos
	}()
	f()
	return
}

// ---------------------------------------------------------------------------------------------
// running the implementation
// ---------------------------------------------------------------------------------------------

type readObs struct {
	cls        int
	key, addr  []byte
	id         []byte
	meta       *jnode
	errWithKey bool
	errText    string
	// round 3
	w       keystorev3.WalletFile // retained; asked again at the end of the run
	aliased bool                  // key/id moved when the caller overwrote the buffers it had passed in
	version int
}

// sameObs: the observables of two reads of the same (document, password) agree.
func sameObs(a, b readObs) bool {
	return a.cls == b.cls && bytes.Equal(a.key, b.key) && bytes.Equal(a.addr, b.addr) && bytes.Equal(a.id, b.id) &&
		(a.cls != 0 || (a.meta != nil && b.meta != nil && a.meta.coq() == b.meta.coq()))
}

// observe asks a (possibly long retained) wallet for everything the property mentions.
func observe(w keystorev3.WalletFile) (o readObs) {
	defer func() {
		if r := recover(); r != nil {
			o = readObs{cls: 2, errText: fmt.Sprint(r)}
		}
	}()
	o.key = append([]byte{}, w.PrivateKey()...)
	kp := w.KeyPair()
	o.addr = append([]byte{}, kp.Address[:]...)
	if id := w.GetID(); id != nil {
		o.id = append([]byte{}, id[:]...)
	}
	o.meta = valueNode(w.Metadata())
	o.version = w.GetVersion()
	return
}

func implRead(docIn, pwIn []byte) (o readObs) {
	defer func() {
		if r := recover(); r != nil {
			o = readObs{cls: 2, errText: fmt.Sprint(r)}
		}
	}()
	doc, pw := append([]byte{}, docIn...), append([]byte{}, pwIn...)
	defer func() {
		if o.cls == 0 && o.w != nil {
			// the caller reuses its buffers: what it was handed must not move with them
			for i := range doc {
				doc[i] ^= 0xa5
			}
			for i := range pw {
				pw[i] ^= 0xa5
			}
			if o2 := observe(o.w); !sameObs(o, o2) {
				o.aliased = true
			}
		}
	}()
	w, err := keystorev3.ReadWalletFile(doc, pw)
	if err != nil {
		o.cls = 1
		o.errText = err.Error()
		if w != nil && len(w.PrivateKey()) > 0 {
			o.errWithKey = true
		}
		return
	}
	o.key = append([]byte{}, w.PrivateKey()...)
	kp := w.KeyPair()
	o.addr = append([]byte{}, kp.Address[:]...)
	if id := w.GetID(); id != nil {
		o.id = append([]byte{}, id[:]...)
	}
	o.meta = valueNode(w.Metadata())
	o.version = w.GetVersion()
	o.w = w
	return
}

func emptyObj() *jnode { return &jnode{kind: 'o'} }

type desc struct {
	Kind     string `json:"kind"`
	Key      string `json:"key,omitempty"` // known-finding classifier
	Variant  string `json:"variant,omitempty"`
	Password string `json:"password_hex"`
	Secret   string `json:"secret_hex,omitempty"`
	Rnd      string `json:"rnd_hex,omitempty"`
	Extras   string `json:"extras_json,omitempty"`
	Doc      string `json:"doc,omitempty"`
	Note     string `json:"note,omitempty"`
	Impl     string `json:"impl,omitempty"`
}

type ctx struct {
	sampled   map[string]bool
	w         *cv.Writer
	st        *cv.Stats
	seen      map[string]bool
	salts     map[string]bool
	reads     []readRec
	news      []newRec
	failKinds map[string]int
}

type readRec struct {
	doc string
	pw  []byte
	o   readObs
	d   desc
	ns  int64
}

type newRec struct {
	wf     keystorev3.WalletFile
	first  []byte
	secret []byte
	addr   []byte
	d      desc
}

// sample keeps one real case per kind for the evidence file.
func (c *ctx) sample(kind string, d desc) {
	if c.sampled == nil {
		c.sampled = map[string]bool{}
	}
	if c.sampled[kind] || len(c.st.Samples) >= 12 {
		return
	}
	c.sampled[kind] = true
	if len(d.Password) > 80 {
		d.Password = d.Password[:80] + "..."
	}
	if len(d.Doc) > 700 {
		d.Doc = d.Doc[:700] + "..."
	}
	c.st.Samples = append(c.st.Samples, d)
}

func (c *ctx) fail(what string, d desc) {
	// at most 4 reports per kind of failure (the text up to the first value)
	if c.failKinds == nil {
		c.failKinds = map[string]int{}
	}
	kind := what
	if len(kind) > 48 {
		kind = kind[:48]
	}
	c.failKinds[kind]++
	c.st.Hit("oracle-failure:" + kind)
	if c.failKinds[kind] > 4 {
		return
	}
	c.st.ImplFailures = append(c.st.ImplFailures, map[string]interface{}{"what": what, "key": d.Key, "case": d})
}

// addRead runs ReadWalletFile on doc/pw and emits a CRead case.
func (c *ctx) addRead(doc string, pw []byte, kind, note string) {
	c.st.Hit("read:" + kind)
	sig := "R" + doc + "\x00" + string(pw)
	if !c.seen[sig] {
		c.seen[sig] = true
		c.st.Distinct++
	}
	d := desc{Kind: "read", Password: hex.EncodeToString(pw), Doc: doc, Note: kind + " " + note}
	os.WriteFile(filepath.Join(c.w.Dir, "current_case.json"), mustJSON(d), 0o644)
	t := newTables()
	tree, ok := parseJSON([]byte(doc))
	var own string
	var ownKey []byte
	if ok {
		ownKey, own = v3decrypt(t, tree, pw)
	} else {
		own = "invalid"
	}
	t0 := time.Now()
	o := implRead([]byte(doc), pw)
	c.reads = append(c.reads, readRec{doc: doc, pw: append([]byte{}, pw...), o: o, ns: time.Since(t0).Nanoseconds()})
	d.Impl = fmt.Sprintf("class=%d key=%x err=%q own=%s", o.cls, o.key, o.errText, own)
	c.reads[len(c.reads)-1].d = d
	c.st.Hit(fmt.Sprintf("read-outcome:impl=%d,own=%s", o.cls, own))
	if o.cls == 0 {
		t.addPubkey(o.key)
	}
	// Go-side oracles on the implementation alone
	switch {
	case o.cls == 2:
		c.fail("ReadWalletFile panicked", d)
	case o.errWithKey:
		c.fail("ReadWalletFile returned an error together with a key", d)
	case o.aliased:
		c.fail("the key / address / id / metadata of the returned wallet changed when the caller overwrote the document and password buffers it had passed in", d)
	case o.cls == 0 && o.version != 3:
		c.fail(fmt.Sprintf("GetVersion() of a wallet read from a version 3 file is %d", o.version), d)
	case own == "ok" && (o.cls != 0 || !bytes.Equal(o.key, ownKey)):
		c.fail("a standard V3 file was not read to the key an independent implementation derives", d)
	case (own == "mac" || own == "invalid") && o.cls == 0:
		c.fail("ReadWalletFile returned a key for a file/password an independent implementation rejects", d)
	}
	if own == "skip" {
		return // too costly to build the tables: Go-side verdicts only
	}
	docTerm := "None"
	if ok {
		docTerm = "(Some " + tree.coq() + ")"
	}
	meta := o.meta
	if meta == nil {
		meta = emptyObj()
	}
	c.sample(kind, d)
	c.w.Add(fmt.Sprintf("CRead %s %s %s %d%%nat %s %s %s %s", t.coq(), docTerm, cv.CoqBytes(pw), o.cls,
		cv.CoqBytes(o.key), cv.CoqBytes(o.addr), cv.CoqBytes(o.id), meta.coq()), d)
}

func mustJSON(v interface{}) []byte {
	b, err := json.Marshal(v)
	if err != nil {
		panic(err)
	}
	return b
}

type extra struct {
	k string
	v interface{}
}

var variants = []string{"VLight", "VStandard", "VCustomLight", "VCustomStandard"}

// addNew creates a wallet file with the implementation under a scripted random stream.
func (c *ctx) addNew(variant int, pw, secret, stream []byte, extras []extra, key string) {
	c.st.Hit("new:" + variants[variant])
	c.st.Hit(fmt.Sprintf("new-secret-len:%d", len(secret)))
	sig := fmt.Sprintf("N%d\x00%x\x00%x\x00%x\x00%v", variant, pw, secret, stream, extras)
	if !c.seen[sig] {
		c.seen[sig] = true
		c.st.Distinct++
	}
	exj := map[string]interface{}{}
	for _, e := range extras {
		exj[e.k] = e.v
	}
	d := desc{Kind: "new", Key: key, Variant: variants[variant], Password: hex.EncodeToString(pw), Secret: hex.EncodeToString(secret),
		Rnd: hex.EncodeToString(stream), Extras: string(mustJSON(exj))}
	os.WriteFile(filepath.Join(c.w.Dir, "current_case.json"), mustJSON(d), 0o644)

	var kp *secp256k1.KeyPair
	addr := []byte{}
	if variant < 2 {
		kp = secp256k1.KeyPairFromBytes(secret)
		secret = kp.PrivateKeyBytes()
		addr = append([]byte{}, kp.Address[:]...)
		d.Secret = hex.EncodeToString(secret)
	}
	var out []byte
	var kept keystorev3.WalletFile
	cls := 0
	var panicText string
	consumed := withScriptedRand(stream, func() {
		defer func() {
			if r := recover(); r != nil {
				cls = 2
				panicText = fmt.Sprint(r)
			}
		}()
		var wf keystorev3.WalletFile
		switch variant {
		case 0:
			wf = keystorev3.NewWalletFileLight(string(pw), kp)
		case 1:
			wf = keystorev3.NewWalletFileStandard(string(pw), kp)
		case 2:
			wf = keystorev3.NewWalletFileCustomBytesLight(string(pw), secret)
		default:
			wf = keystorev3.NewWalletFileCustomBytesStandard(string(pw), secret)
		}
		for _, e := range extras {
			wf.Metadata()[e.k] = e.v
		}
		out = wf.JSON()
		kept = wf
	})
	if cls != 0 {
		d.Impl = "panic: " + panicText
		c.fail("creating a wallet file panicked", d)
		return
	}
	d.Doc = string(out)
	tree, ok := parseJSON(out)
	if !ok {
		c.fail("JSON() of a new wallet file is not valid JSON", d)
		return
	}
	c.news = append(c.news, newRec{wf: kept, first: append([]byte{}, out...), secret: append([]byte{}, secret...), addr: addr, d: d})
	t := newTables()
	// what the model will ask: salt = stream[0:32], iv = stream[32:48], scrypt for 16 bytes with r = 8
	n := 1024
	if variant == 0 {
		n = 4096
	}
	if len(stream) >= 64 {
		salt, iv := stream[0:32], stream[32:48]
		if dk := t.addScrypt(pw, salt, n, 8, 1, 16, true); dk != nil {
			t.addAes(dk[:cap(dk)][:16], iv, secret)
		}
	}
	// what the specification will ask about the document the implementation produced
	ownKey, own := v3decrypt(t, tree, pw)
	t.addPubkey(secret)
	// read it back with the implementation
	o := implRead(out, pw)
	if o.cls == 0 {
		t.addPubkey(o.key)
	}
	d.Impl = fmt.Sprintf("own=%s read-class=%d read-key=%x err=%q consumed=%d", own, o.cls, o.key, o.errText, consumed)
	// Go-side oracles: independent decryption, fresh salt / IV from disjoint parts of the stream
	if own != "ok" || !bytes.Equal(ownKey, secret) {
		c.fail("a new wallet file is not decrypted to the key by an independent V3 implementation ("+own+")", d)
	}
	if dd := v3parse(tree); dd.ok {
		used := stream[:consumed]
		si, ii := bytes.Index(used, dd.salt), bytes.Index(used, dd.iv)
		if len(dd.salt) != 32 || len(dd.iv) != 16 || si < 0 || ii < 0 || (si < ii+16 && ii < si+32) {
			c.fail("salt and IV of a new wallet file are not disjoint parts of the random stream", d)
		}
		if c.salts[string(dd.salt)] || c.salts[string(dd.iv)] || bytes.Equal(dd.salt[:16], dd.iv) {
			c.fail("two creations share a salt or IV", d)
		}
		c.salts[string(dd.salt)] = true
		c.salts[string(dd.iv)] = true
	}
	exTerms := make([]string, len(extras))
	for i, e := range extras {
		var vn *jnode
		if e.v == nil {
			vn = &jnode{kind: 'n'}
		} else {
			vn = valueNode(e.v)
		}
		exTerms[i] = "(" + cv.CoqBytes([]byte(e.k)) + ", " + vn.coq() + ")"
		t.addDoc(vn)
	}
	meta := o.meta
	if meta == nil {
		meta = emptyObj()
	}
	c.sample("new:"+variants[variant], d)
	c.w.Add(fmt.Sprintf("CNew %s %s %s %s %s %s [%s] %d%%nat %s %d %d%%nat %s %s %s %s", t.coq(), variants[variant], cv.CoqBytes(pw),
		cv.CoqBytes(secret), cv.CoqBytes(addr), cv.CoqBytes(stream), strings.Join(exTerms, "; "), cls, tree.coq(), consumed,
		o.cls, cv.CoqBytes(o.key), cv.CoqBytes(o.addr), cv.CoqBytes(o.id), meta.coq()), d)
}

// ---------------------------------------------------------------------------------------------
// generators
// ---------------------------------------------------------------------------------------------

var curveN, _ = hex.DecodeString("fffffffffffffffffffffffffffffffebaaedce6af48a03bbfd25e8cd0364141")

func be32(last byte) []byte {
	b := make([]byte, 32)
	b[31] = last
	return b
}

func boundaryKeys() [][]byte {
	nm1 := append([]byte{}, curveN...)
	nm1[31]--
	half := append([]byte{}, curveN...) // (n-1)/2 region: just a high-bit-clear value
	half[0] = 0x7f
	top := bytes.Repeat([]byte{0xff}, 32)
	top[0] = 0x80 // > 2^255, below n
	return [][]byte{be32(1), be32(2), nm1, half, top}
}

func passwords(r *cv.Rand) [][]byte {
	kib := make([]byte, 1024)
	for i := range kib {
		kib[i] = byte(0x21 + r.Intn(94))
	}
	return [][]byte{
		[]byte(""),
		[]byte("correcthorsebatterystaple"),
		[]byte("pässwörd 漢字 \U0001F511"),
		[]byte("  leading and trailing \t\n"),
		kib,
		[]byte("nul\x00inside"),
		{0xff, 0xfe, 0x80}, // not UTF-8
	}
}

func pwKind(i int) string {
	return []string{"empty", "ascii", "utf8-multibyte", "whitespace", "1KiB", "nul", "non-utf8"}[i%7]
}

func wrongPasswords(pw []byte) [][]byte {
	out := [][]byte{
		append(append([]byte{}, pw...), 'x'),
		append(append([]byte{}, pw...), 0),
		append([]byte{' '}, pw...),
		bytes.TrimSpace(pw),
		bytes.ToUpper(pw),
		{},
		// round 3: what a "helpful" normalisation of the password would add or remove
		append(append([]byte{}, pw...), ' '),
		append(append([]byte{}, pw...), '\n'),
		append(append([]byte{}, pw...), '\r', '\n'),
		append([]byte{'\n'}, pw...),
		bytes.TrimRight(pw, "\r\n"),
		bytes.TrimRight(pw, " \t\r\n"),
		bytes.TrimLeft(pw, " \t"),
		bytes.ToLower(pw),
		bytes.ToValidUTF8(pw, []byte("\xef\xbf\xbd")),
	}
	if i := bytes.IndexByte(pw, 0); i >= 0 {
		out = append(out, pw[:i])
	}
	for _, n := range []int{64, 72, 1023} {
		if len(pw) > n {
			out = append(out, pw[:n])
		}
	}
	if len(pw) > 0 {
		out = append(out, pw[:len(pw)-1], pw[1:])
		fl := append([]byte{}, pw...)
		fl[len(fl)/2] ^= 0x01
		out = append(out, fl)
	}
	var res [][]byte
	seen := map[string]bool{string(pw): true}
	for _, w := range out {
		if !seen[string(w)] {
			seen[string(w)] = true
			res = append(res, w)
		}
	}
	return res
}

// randValue builds a JSON-representable Go value (strings incl. multi-byte UTF-8 and characters json.Marshal escapes,
// integers, fractions, large floats, booleans, nested arrays and maps; nil only inside containers).
func randValue(r *cv.Rand, depth int) interface{} {
	words := []string{"", "a", "héllo", "<tag>&\"q\"", "漢字", "line\nbreak", "back\\slash", "\u2028sep", "0x1f", "plain text"}
	switch c := r.Intn(10); {
	case c < 3:
		return words[r.Intn(len(words))]
	case c < 5:
		return r.Intn(2000001) - 1000000
	case c == 5:
		return []float64{0.5, -1.25, 1e21, 1e-7, 123456789.125, 3.0}[r.Intn(6)]
	case c == 6:
		return r.Bool()
	case c == 7 && depth > 0:
		n := r.Intn(4)
		a := make([]interface{}, n)
		for i := range a {
			if r.Intn(5) == 0 {
				a[i] = nil
			} else {
				a[i] = randValue(r, depth-1)
			}
		}
		return a
	case c == 8 && depth > 0:
		m := map[string]interface{}{}
		for i, n := 0, r.Intn(4); i < n; i++ {
			m[words[1+r.Intn(len(words)-1)]] = randValue(r, depth-1)
		}
		return m
	default:
		return words[r.Intn(len(words))]
	}
}

func randExtras(r *cv.Rand) []extra {
	keys := []string{"address", "bjj", "label", "Address", "idx", "vers", "cryptoX", "ключ", "k<1>", "a b"}
	var out []extra
	for i, n := 0, 1+r.Intn(5); i < n; i++ {
		k := keys[r.Intn(len(keys))]
		if r.Intn(6) == 0 {
			out = append(out, extra{k, nil})
		} else {
			out = append(out, extra{k, randValue(r, 2)})
		}
	}
	return out
}

func newID(r *cv.Rand) string {
	u, _ := uuid.FromBytes(r.Bytes(16))
	u[6] = (u[6] & 0x0f) | 0x40
	u[8] = (u[8] & 0x3f) | 0x80
	return u.String()
}

// mutateHexMember rewrites the hex string value of "name":"<hex>" in doc, flipping one bit of byte i.
func mutateHexMember(doc, name string, i int, bit uint) (string, bool) {
	marker := `"` + name + `":"`
	p := strings.Index(doc, marker)
	if p < 0 {
		return "", false
	}
	start := p + len(marker)
	end := start + strings.Index(doc[start:], `"`)
	raw, err := hex.DecodeString(doc[start:end])
	if err != nil || i >= len(raw) {
		return "", false
	}
	raw[i] ^= 1 << bit
	return doc[:start] + hex.EncodeToString(raw) + doc[end:], true
}

// setNumber replaces the value of "name":<number> by text.
func setNumber(doc, name, text string) (string, bool) {
	marker := `"` + name + `":`
	p := strings.Index(doc, marker)
	if p < 0 {
		return "", false
	}
	start := p + len(marker)
	end := start
	for end < len(doc) && (doc[end] == '-' || (doc[end] >= '0' && doc[end] <= '9')) {
		end++
	}
	if end == start {
		return "", false
	}
	return doc[:start] + text + doc[end:], true
}

func main() {
	out := flag.String("out", "", "output directory")
	tier := flag.String("tier", "quick", "quick|thorough")
	replay := flag.String("replay", "", "replay file")
	flag.Parse()
	if *out == "" {
		fmt.Fprintln(os.Stderr, "need -out")
		os.Exit(2)
	}
	os.MkdirAll(*out, 0o755)
	header := "From Coq Require Import String List NArith ZArith Uint63.\nFrom FFS Require Import Base.Bytes Base.Lit Keystore.Json Keystore.RunC07.\nImport ListNotations.\nOpen Scope string_scope. Open Scope N_scope."
	st := cv.NewStats()
	shards := 16
	if *tier == "thorough" {
		shards = 64 // smaller files: the evaluator's memory grows with the size of a case file
	}
	if *replay != "" {
		shards = 1
	}
	c := &ctx{w: cv.NewWriter(*out, "C07", header, "case", "mismatches", shards), st: st, seen: map[string]bool{}, salts: map[string]bool{}}

	if *replay != "" {
		raw, err := os.ReadFile(*replay)
		if err != nil {
			panic(err)
		}
		var rp struct {
			Case json.RawMessage `json:"case"`
		}
		json.Unmarshal(raw, &rp)
		var d desc
		json.Unmarshal(rp.Case, &d)
		if d.Kind == "" { // Go-side oracle failures wrap the description once more
			var wrap struct {
				Case desc `json:"case"`
			}
			json.Unmarshal(rp.Case, &wrap)
			d = wrap.Case
		}
		pw, _ := hex.DecodeString(d.Password)
		switch d.Kind {
		case "read":
			c.addRead(d.Doc, pw, "replay", "")
		case "new":
			secret, _ := hex.DecodeString(d.Secret)
			rnd, _ := hex.DecodeString(d.Rnd)
			var exj map[string]interface{}
			json.Unmarshal([]byte(d.Extras), &exj)
			var extras []extra
			keys := make([]string, 0, len(exj))
			for k := range exj {
				keys = append(keys, k)
			}
			sort.Strings(keys)
			for _, k := range keys {
				extras = append(extras, extra{k, exj[k]})
			}
			v := 0
			for i, n := range variants {
				if n == d.Variant {
					v = i
				}
			}
			c.addNew(v, pw, secret, rnd, extras, d.Key)
		default:
			fmt.Println("replay: unknown case kind")
		}
		c.w.Flush()
		fmt.Println("implementation:", st.Distribution, "oracle failures:", len(st.ImplFailures))
		for _, f := range st.ImplFailures {
			fmt.Println("  ", string(mustJSON(f)))
		}
		st.Evaluations = c.w.Count()
		st.Write(filepath.Join(*out, "stats_C07.json"))
		return
	}

	thorough := *tier == "thorough"
	r := cv.NewRand(7)
	pws := passwords(r)

	// ---------- A. creation ----------
	extraSets := [][]extra{
		nil,
		{{"address", nil}}, // removes the address
		{{"address", "0xCustom-Address"}, {"bjj", "0x1234"}}, // overrides it, adds a field
		{{"count", 5}, {"ratio", 1.5}, {"big", 1e21}, {"neg", -7}, {"flag", true}, {"nested", map[string]interface{}{"a": []interface{}{1, "two", nil, false}, "b": map[string]interface{}{}}}},
		{{"id", "not-the-id"}, {"version", 99}, {"crypto", "overridden?"}}, // protected core fields
		{{"note", "héllo <&> 漢 \"quoted\" \\ back"}, {"empty", ""}, {"ümläut key", "v"}},
	}
	secretLens := []int{1, 15, 16, 17, 31, 32, 33, 128}
	nNew := 0
	// every variant x boundary keys / secret lengths, passwords and extras rotating
	for i, k := range boundaryKeys() {
		c.addNew(i%2, pws[i%len(pws)], k, r.Bytes(64), extraSets[i%len(extraSets)], "")
		st.Hit("new-password:" + pwKind(i))
		nNew++
	}
	for i, n := range secretLens {
		sec := r.Bytes(n)
		if i == 2 {
			sec = make([]byte, n) // all zero
		}
		c.addNew(2+i%2, pws[(i+2)%len(pws)], sec, r.Bytes(64+r.Intn(8)), extraSets[(i+1)%len(extraSets)], "")
		st.Hit("new-password:" + pwKind(i+2))
		nNew++
	}
	nRandNew := 10
	if thorough {
		nRandNew = 80
	}
	for i := 0; i < nRandNew; i++ {
		v := r.Intn(4)
		var sec []byte
		if v < 2 {
			sec = r.Bytes(32)
		} else {
			sec = r.Bytes(1 + r.Intn(128))
		}
		pi := r.Intn(len(pws))
		st.Hit("new-password:" + pwKind(pi))
		ex := extraSets[r.Intn(len(extraSets))]
		if i%2 == 1 {
			ex = randExtras(r)
			st.Hit("new-extras:random")
		}
		c.addNew(v, pws[pi], sec, r.Bytes(64), ex, "")
		nNew++
	}
	// a random stream with repeated bytes (salt/IV equal content is legal when the stream says so) is not generated:
	// the disjointness oracle needs the positions to be identifiable.
	// known finding: a metadata key that differs from a core field only by case makes the file unreadable
	c.addNew(2, []byte("pw"), r.Bytes(32), r.Bytes(64), []extra{{"Version", "x"}}, "C07/metadata-casefold-core-field")

	// ---------- B. files produced elsewhere (the harness's own writer) ----------
	type base struct {
		doc string
		pw  []byte
		key []byte
		kp  v3params
	}
	var bases []base
	ns := []int{2, 4, 8, 16, 32, 64, 128, 256, 512, 1024, 2048, 4096, 8192, 16384}
	if !thorough {
		ns = []int{2, 4, 16, 256, 1024, 16384}
	}
	i := 0
	for _, n := range ns {
		for _, rr := range []int{1, 8} {
			for _, p := range []int{1, 2} {
				if !thorough && n >= 1024 && !(rr == 8 && p == 1) && !(n == 16384 && rr == 1 && p == 2) {
					continue
				}
				kp := v3params{kdf: "scrypt", n: n, r: rr, p: p}
				key := r.Bytes([]int{32, 32, 1, 16, 33, 128}[i%6])
				pw := pws[i%len(pws)]
				o := fileOpts{upperHex: i%5 == 1, shuffle: i%2 == 1, indent: i%3 == 2, extra: i%4 == 3}
				doc := v3write(r, kp, key, pw, r.Bytes([]int{32, 32, 16, 8, 0, 64}[i%6]), r.Bytes(16), newID(r), o)
				c.addRead(doc, pw, "external-scrypt", fmt.Sprintf("n=%d r=%d p=%d", n, rr, p))
				st.Hit(fmt.Sprintf("external-scrypt:r=%d,p=%d", rr, p))
				bases = append(bases, base{doc, pw, key, kp})
				i++
			}
		}
	}
	for _, cc := range []int{1, 2, 1000, 4096} {
		for j := 0; j < 2; j++ {
			kp := v3params{kdf: "pbkdf2", c: cc}
			key := r.Bytes([]int{32, 17}[j])
			pw := pws[i%len(pws)]
			o := fileOpts{upperHex: j == 1, shuffle: j == 1, indent: j == 1 && i%3 == 0, extra: i%2 == 0}
			doc := v3write(r, kp, key, pw, r.Bytes(32), r.Bytes(16), newID(r), o)
			c.addRead(doc, pw, "external-pbkdf2", fmt.Sprintf("c=%d", cc))
			bases = append(bases, base{doc, pw, key, kp})
			i++
		}
	}
	// round 3: PBKDF2 files with salts and keys of other lengths (nothing may be cut or padded to 32)
	for j, v := range []struct{ c, salt, key int }{{1, 0, 1}, {3, 64, 128}, {10, 16, 33}, {2, 8, 16}, {5, 33, 31}} {
		kp := v3params{kdf: "pbkdf2", c: v.c}
		key := r.Bytes(v.key)
		pw := pws[(i+j)%len(pws)]
		doc := v3write(r, kp, key, pw, r.Bytes(v.salt), r.Bytes(16), newID(r), fileOpts{shuffle: j%2 == 0})
		c.addRead(doc, pw, "external-pbkdf2", fmt.Sprintf("c=%d salt=%d key=%d", v.c, v.salt, v.key))
		bases = append(bases, base{doc, pw, key, kp})
	}
	// keys / IVs with leading and trailing zero bytes, all zero, all ones (nothing may be stripped; the counter wraps)
	for j, v := range []struct{ key, iv []byte }{
		{make([]byte, 32), r.Bytes(16)}, {append([]byte{0, 0, 1}, r.Bytes(29)...), r.Bytes(16)}, {append(r.Bytes(30), 1, 0), make([]byte, 16)},
		{r.Bytes(48), bytes.Repeat([]byte{0xff}, 16)}, {[]byte{0}, append([]byte{0}, r.Bytes(15)...)}, {append([]byte{0}, r.Bytes(31)...), append(r.Bytes(15), 0)}} {
		kp := v3params{kdf: []string{"scrypt", "pbkdf2"}[j%2], n: 4, r: 1, p: 1, c: 2}
		pw := pws[j%len(pws)]
		doc := v3write(r, kp, v.key, pw, r.Bytes(32), v.iv, newID(r), fileOpts{})
		c.addRead(doc, pw, "external-zeros", fmt.Sprintf("key=%x iv=%x", v.key, v.iv))
	}
	// published vectors (Web3 Secret Storage definition) and the repository's samples
	c.addRead(`{"crypto":{"cipher":"aes-128-ctr","cipherparams":{"iv":"6087dab2f9fdbbfaddc31a909735c1e6"},"ciphertext":"5318b4d5bcd28de64ee5559e671353e16f075ecae9f99c7a79a38af5f869aa46","kdf":"pbkdf2","kdfparams":{"c":262144,"dklen":32,"prf":"hmac-sha256","salt":"ae3cd4e7013836a3df6bd7241b12db061dbe2c6785853cce422d148a624ce0bd"},"mac":"517ead924a9d0dc3124507e3393d175ce3ff7c1e96529c6c555ce9e51205e9b2"},"id":"3198bc9c-6672-5ab3-d995-4942343ae5b6","version":3}`,
		[]byte("testpassword"), "web3-vector-pbkdf2", "")
	c.addRead(`{"crypto":{"cipher":"aes-128-ctr","cipherparams":{"iv":"83dbcc02d8ccb40e466191a123791e0e"},"ciphertext":"d172bf743a674da9cdad04534d56926ef8358534d458fffccd4e6ad2fbde479c","kdf":"scrypt","kdfparams":{"dklen":32,"n":262144,"p":8,"r":1,"salt":"ab0c7876052600dd703518d6fc3fe8984592145b591fc8fb5c6d43190334ba19"},"mac":"2103ac29920d71da29f15d75b4a16dbe95cfd7ff8faea1056c33131d846e3097"},"id":"3198bc9c-6672-5ab3-d995-4942343ae5b6","version":3}`,
		[]byte("testpassword"), "web3-vector-scrypt", "")

	// ---------- C. wrong passwords, tampering ----------
	// small-cost bases for the systematic sweeps
	// (interleaved so that every prefix holds both KDFs; the pbkdf2 base with c = 1 comes first: c = 0 next to it is
	// the case where x/crypto's behaviour for c <= 0 would keep the MAC valid)
	var cheapS, cheapP, cheap []base
	for _, b := range bases {
		if !strings.Contains(b.doc, "\n") && strings.ToLower(b.doc) == b.doc {
			if b.kp.kdf == "scrypt" && b.kp.n*b.kp.r*b.kp.p <= 2048 {
				cheapS = append(cheapS, b)
			} else if b.kp.kdf == "pbkdf2" && b.kp.c <= 1000 {
				cheapP = append(cheapP, b)
			}
		}
	}
	for i := 0; i < len(cheapS) || i < len(cheapP); i++ {
		if i < len(cheapP) {
			cheap = append(cheap, cheapP[i])
		}
		if i < len(cheapS) {
			cheap = append(cheap, cheapS[i])
		}
	}
	st.Extra["cheap_bases"] = fmt.Sprintf("%d scrypt, %d pbkdf2", len(cheapS), len(cheapP))
	for bi, b := range bases {
		cheapBase := (b.kp.kdf == "scrypt" && b.kp.n*b.kp.r*b.kp.p <= 64) || (b.kp.kdf == "pbkdf2" && b.kp.c <= 10)
		for wi, w := range wrongPasswords(b.pw) {
			if !thorough && (bi+wi)%8 != 0 && !(cheapBase && ((bi+wi)%5 == 0 || bytes.HasSuffix(b.pw, []byte("\n")))) {
				continue
			}
			c.addRead(b.doc, w, "wrong-password", "")
		}
	}
	nSweep := 3
	if thorough {
		nSweep = 5
	}
	for bi, b := range cheap {
		if bi >= nSweep {
			break
		}
		for _, name := range []string{"ciphertext", "mac", "salt"} {
			for pos := 0; pos < 128; pos++ {
				if !thorough && bi == 2 && pos%4 != 1 { // round 3: the third base samples every 4th byte (pays for the new families)
					continue
				}
				bits := []uint{uint(pos % 8)}
				if thorough {
					bits = []uint{0, 1, 2, 3, 4, 5, 6, 7}
				}
				for _, bit := range bits {
					if m, ok := mutateHexMember(b.doc, name, pos, bit); ok {
						c.addRead(m, b.pw, "flip-"+name, fmt.Sprintf("byte %d bit %d", pos, bit))
					}
				}
			}
		}
		// the IV is not covered by the MAC in V3: a changed IV decrypts to a different key, by the standard too
		if m, ok := mutateHexMember(b.doc, "iv", bi%16, 3); ok {
			c.addRead(m, b.pw, "flip-iv", "")
		}
	}
	for bi, b := range cheap {
		if !thorough && bi >= 8 {
			break
		}
		mut := func(name string, vals ...int) {
			for _, v := range vals {
				if m, ok := setNumber(b.doc, name, strconv.Itoa(v)); ok && m != b.doc {
					c.addRead(m, b.pw, "param-"+name, strconv.Itoa(v))
				}
			}
		}
		mut("dklen", 31, 33, 16, 64, 0, -1, 1<<31)
		if b.kp.kdf == "scrypt" {
			n, rr, p := b.kp.n, b.kp.r, b.kp.p
			mut("n", n/2, n*2, n+1, n-1, 0, 1, -n, 3)
			mut("r", rr+1, rr-1, 0, -1, rr*2)
			mut("p", p+1, p-1, 0, -1, p*2)
		} else {
			cc := b.kp.c
			mut("c", cc+1, cc-1, 0, -1, cc*2)
		}
		if m, ok := setNumber(b.doc, "version", "4"); ok {
			c.addRead(m, b.pw, "version", "4")
		}
		if m, ok := setNumber(b.doc, "version", "2"); ok {
			c.addRead(m, b.pw, "version", "2")
		}
	}
	// truncated / extended ciphertext and MAC, swapped kdf, foreign prf
	for bi, b := range cheap {
		if bi >= 4 {
			break
		}
		d := v3parse(mustTree(b.doc))
		rep := func(old, new, kind string) {
			if m := strings.Replace(b.doc, old, new, 1); m != b.doc {
				c.addRead(m, b.pw, kind, "")
			}
		}
		ct, mac := hex.EncodeToString(d.ct), hex.EncodeToString(d.mac)
		rep(`"`+ct+`"`, `"`+ct[:len(ct)-2]+`"`, "ct-truncated")
		rep(`"`+ct+`"`, `"`+ct+`00"`, "ct-extended")
		rep(`"`+ct+`"`, `""`, "ct-empty")
		rep(`"`+mac+`"`, `"`+mac[:62]+`"`, "mac-truncated")
		rep(`"`+mac+`"`, `"`+mac+`00"`, "mac-extended")
		rep(`"`+mac+`"`, `""`, "mac-empty")
		ivh := hex.EncodeToString(d.iv)
		rep(`"iv":"`+ivh+`"`, `"iv":"`+ivh[:30]+`"`, "iv-truncated")
		rep(`"iv":"`+ivh+`"`, `"iv":"`+ivh+`00"`, "iv-extended")
		rep(`"iv":"`+ivh+`"`, `"iv":""`, "iv-empty")
		rep(`"hmac-sha256"`, `"hmac-sha512"`, "prf-foreign")
		rep(`"kdf":"scrypt"`, `"kdf":"pbkdf2"`, "kdf-swapped")
		rep(`"kdf":"pbkdf2"`, `"kdf":"scrypt"`, "kdf-swapped")
		rep(`"kdf":"`+b.kp.kdf+`"`, `"kdf":"argon2"`, "kdf-unknown")
		rep(`"id":"`+d.id+`"`, `"id":null`, "id-null")
		rep(`"id":"`+d.id+`",`, ``, "id-missing")
		rep(`"id":"`+d.id+`"`, `"id":"`+strings.ToUpper(d.id)+`"`, "id-uppercase")
	}
	// round 3: MACs computed by a plausible other rule (another hash, the other half of the derived key, another
	// order, a part of the ciphertext) must be rejected like any other changed MAC
	{
		nv := 0
		longDone := false
		for _, b := range cheap {
			d := v3parse(mustTree(b.doc))
			if !d.ok || (nv >= 2 && (longDone || len(d.ct) <= 32)) {
				continue
			}
			dk := deriveOwn(b.kp, b.pw, d.salt)
			mk, ct := dk[16:32], d.ct
			s3 := sha3.Sum256(append(append([]byte{}, mk...), ct...))
			s2 := sha256.Sum256(append(append([]byte{}, mk...), ct...))
			vars := []struct {
				name string
				mac  []byte
			}{{"sha3-256", s3[:]}, {"sha256", s2[:]}, {"first-half", keccak(dk[:16], ct)}, {"whole-dk", keccak(dk, ct)}, {"ciphertext-first", keccak(ct, mk)},
				{"ciphertext-only", keccak(ct)}, {"mackey-only", keccak(mk)}}
			if len(ct) > 32 {
				vars = append(vars, struct {
					name string
					mac  []byte
				}{"first-32-bytes", keccak(mk, ct[:32])}, struct {
					name string
					mac  []byte
				}{"whole-blocks", keccak(mk, ct[:len(ct)/16*16])})
				longDone = true
			}
			for _, v := range vars {
				if m := strings.Replace(b.doc, `"`+hex.EncodeToString(d.mac)+`"`, `"`+hex.EncodeToString(v.mac)+`"`, 1); m != b.doc {
					c.addRead(m, b.pw, "mac-variant", v.name)
				}
			}
			nv++
		}
	}
	// ---------- D. malformed stream ----------
	for _, s := range []string{``, `!!not json`, `{}`, `null`, `[]`, `3`, `{"id":"6A2175E5-E553-4E25-AD1B-569A3BB0C3FD","version":1}`,
		`{"id":"6A2175E5-E553-4E25-AD1B-569A3BB0C3FD","version":3,"crypto":{"kdf":"unknown"}}`,
		`{"id":"6A2175E5-E553-4E25-AD1B-569A3BB0C3FD","version":3,"crypto":{"kdf":"scrypt"}}`,
		`{"id":"6A2175E5-E553-4E25-AD1B-569A3BB0C3FD","version":3,"crypto":{"kdf":"pbkdf2"}}`,
		`{"id":"6A2175E5-E553-4E25-AD1B-569A3BB0C3FD","version":3,"crypto":{"kdf":"pbkdf2","kdfparams":{"prf":"hmac-sha256","dklen":32,"c":1,"salt":"zz"}}}`,
		`{"id":"6A2175E5-E553-4E25-AD1B-569A3BB0C3FD","version":3.0,"crypto":{"kdf":"scrypt"}}`,
		`{"id":5,"version":3}`, `{"id":"","version":3,"crypto":{"kdf":"x"}}`, `{"id":"zz","version":3}`,
		`{"id":"6A2175E5-E553-4E25-AD1B-569A3BB0C3FD","version":3,"x":1e999,"crypto":{"kdf":"unknown"}}`,
	} {
		c.addRead(s, []byte("pw"), "malformed", "")
	}

	// ---------- E. state kept across calls (round 3) ----------
	c.stateChecks(r)

	if err := c.w.Flush(); err != nil {
		panic(err)
	}
	// Keccak-256 of the model against x/crypto/sha3
	{
		var pairs []string
		for _, n := range []int{0, 1, 31, 32, 48, 135, 136, 137, 200, 272} {
			x := r.Bytes(n)
			pairs = append(pairs, "("+cv.CoqBytes(x)+", "+cv.CoqBytes(keccak(x))+")")
		}
		f, _ := os.Create(filepath.Join(*out, "keccak_C07.v"))
		fmt.Fprintln(f, header)
		fmt.Fprintf(f, "Definition pairs : list (bdsl * bdsl) := [\n  %s\n].\n", strings.Join(pairs, ";\n  "))
		fmt.Fprintln(f, "Definition M := Eval vm_compute in (keccak_mismatches pairs).\nPrint M.")
		f.Close()
	}
	os.Remove(filepath.Join(*out, "current_case.json"))
	st.Evaluations = c.w.Count()
	st.Extra["creations"] = nNew + 1
	st.Rule = "creations: 4 constructors x (secp256k1 keys incl. 1, 2, n-1, >2^255; custom secrets of 1,15,16,17,31,32,33,128 and random 1..128 bytes) x passwords (empty, ASCII, multi-byte UTF-8, surrounding whitespace, 1 KiB, NUL, non-UTF-8) x metadata sets (none, nil address, overrides, nested values, protected core fields, non-ASCII) under a scripted crypto/rand+uuid stream; reads: files written by the harness's own V3 writer over scrypt N in 2..2^14, r in {1,8}, p in {1,2} and PBKDF2 c in {1,2,1000,4096} (hex case, member order, indentation, extra members varied), the two published Web3 vectors, wrong passwords, every byte of ciphertext/MAC/salt flipped, every change of n/r/p/c/dklen/version, truncations, foreign kdf/prf, malformed documents. distinct = distinct (constructor, password, secret, stream, extras) or (document, password); all are non-trivial (each runs a KDF or is rejected by a specific guard)"
	if err := st.Write(filepath.Join(*out, "stats_C07.json")); err != nil {
		panic(err)
	}
}

// stateChecks: the outcome of a read is a function of (document, password) alone, and what was handed out
// stays what it was.  (a) every read of the run is repeated from 8 goroutines in another order, after all
// the other files, wrong passwords and creations have gone through the package; (b) the cheapest files are
// read back to back from 8 goroutines; (c) wallets are created concurrently under the real random source;
// (d) every wallet retained from the run (read or created) is asked for its observables again.
func (c *ctx) stateChecks(r *cv.Rand) {
	cur := filepath.Join(c.w.Dir, "current_case.json")
	note := func(d desc, n string) desc { d.Note += " | " + n; return d }
	// (a)
	order := make([]int, len(c.reads))
	for i := range order {
		order[i] = i
	}
	for i := len(order) - 1; i > 0; i-- {
		j := r.Intn(i + 1)
		order[i], order[j] = order[j], order[i]
	}
	os.WriteFile(cur, []byte(`{"phase":"second pass: all reads again, concurrently"}`), 0o644)
	second := make([]readObs, len(c.reads))
	jobs := make(chan int, len(order))
	for _, i := range order {
		jobs <- i
	}
	close(jobs)
	var wg sync.WaitGroup
	for k := 0; k < 8; k++ {
		wg.Add(1)
		go func() {
			defer wg.Done()
			for i := range jobs {
				second[i] = implRead([]byte(c.reads[i].doc), c.reads[i].pw)
			}
		}()
	}
	wg.Wait()
	nUnstable := 0
	for i, rr := range c.reads {
		c.st.Hit("second-pass-read")
		if !sameObs(rr.o, second[i]) || second[i].aliased {
			nUnstable++
			if nUnstable <= 4 {
				c.fail(fmt.Sprintf("the same document and password were read to class=%d key=%x id=%x the first time and to class=%d key=%x id=%x err=%q when read again later (concurrently with other reads)",
					rr.o.cls, rr.o.key, rr.o.id, second[i].cls, second[i].key, second[i].id, second[i].errText), note(rr.d, "second pass"))
			}
		}
	}
	// (b)
	{
		idx := make([]int, len(c.reads))
		for i := range idx {
			idx[i] = i
		}
		sort.SliceStable(idx, func(a, b int) bool { return c.reads[idx[a]].ns < c.reads[idx[b]].ns })
		var pick []int
		nOk, nErr := 0, 0
		for _, i := range idx {
			o := c.reads[i].o
			if o.cls == 0 && nOk < 16 {
				pick = append(pick, i)
				nOk++
			} else if o.cls == 1 && strings.Contains(o.errText, "password") && nErr < 8 {
				pick = append(pick, i)
				nErr++
			}
		}
		const perG = 1500
		bad := make([]int, 8)
		badObs := make([]readObs, 8)
		seeds := make([]uint64, 8)
		for k := range seeds {
			seeds[k] = r.U64() | 1
			bad[k] = -1
		}
		os.WriteFile(cur, []byte(`{"phase":"hammer: cheapest files read from 8 goroutines"}`), 0o644)
		var wg2 sync.WaitGroup
		for k := 0; k < 8 && len(pick) > 0; k++ {
			wg2.Add(1)
			go func(k int) {
				defer wg2.Done()
				x := seeds[k]
				for n := 0; n < perG && bad[k] < 0; n++ {
					x ^= x << 13
					x ^= x >> 7
					x ^= x << 17
					i := pick[int(x%uint64(len(pick)))]
					o := implRead([]byte(c.reads[i].doc), c.reads[i].pw)
					if !sameObs(c.reads[i].o, o) {
						bad[k], badObs[k] = i, o
					}
				}
			}(k)
		}
		wg2.Wait()
		c.st.Hit(fmt.Sprintf("hammer:%d files x 8 goroutines x %d reads", len(pick), perG))
		for k := range bad {
			if bad[k] >= 0 {
				rr := c.reads[bad[k]]
				c.fail(fmt.Sprintf("read concurrently from 8 goroutines, the same document and password gave class=%d key=%x err=%q instead of class=%d key=%x",
					badObs[k].cls, badObs[k].key, badObs[k].errText, rr.o.cls, rr.o.key), note(rr.d, "hammer"))
				break
			}
		}
	}
	// (c)
	{
		type made struct {
			doc      []byte
			secret   []byte
			pw       []byte
			variant  int
			panicked string
			wf       keystorev3.WalletFile
		}
		out := make([]made, 16)
		for i := range out {
			out[i].variant = i % 4
			out[i].secret = r.Bytes(32)
			if i%4 >= 2 && i%8 >= 4 {
				out[i].secret = r.Bytes(1 + r.Intn(100))
			}
			out[i].pw = []byte(fmt.Sprintf("concurrent pässword %d", i%3)) // passwords repeat
		}
		os.WriteFile(cur, []byte(`{"phase":"concurrent creations under the real random source"}`), 0o644)
		var wg3 sync.WaitGroup
		for k := 0; k < 8; k++ {
			wg3.Add(1)
			go func(k int) {
				defer wg3.Done()
				for _, i := range []int{k, k + 8} {
					func() {
						m := &out[i]
						defer func() {
							if rec := recover(); rec != nil {
								m.panicked = fmt.Sprint(rec)
							}
						}()
						switch m.variant {
						case 0:
							m.wf = keystorev3.NewWalletFileLight(string(m.pw), secp256k1.KeyPairFromBytes(m.secret))
						case 1:
							m.wf = keystorev3.NewWalletFileStandard(string(m.pw), secp256k1.KeyPairFromBytes(m.secret))
						case 2:
							m.wf = keystorev3.NewWalletFileCustomBytesLight(string(m.pw), m.secret)
						default:
							m.wf = keystorev3.NewWalletFileCustomBytesStandard(string(m.pw), m.secret)
						}
						m.doc = m.wf.JSON()
					}()
				}
			}(k)
		}
		wg3.Wait()
		for i := range out {
			m := &out[i]
			c.st.Hit("concurrent-creation")
			d := desc{Kind: "new", Variant: variants[m.variant], Password: hex.EncodeToString(m.pw), Secret: hex.EncodeToString(m.secret), Doc: string(m.doc),
				Note: "created concurrently with 7 other creations under the real crypto/rand (not replayable bit for bit)"}
			if m.panicked != "" {
				c.fail("creating a wallet file panicked ("+m.panicked+")", d)
				continue
			}
			if m.variant < 2 {
				m.secret = secp256k1.KeyPairFromBytes(m.secret).PrivateKeyBytes()
			}
			tree, ok := parseJSON(m.doc)
			if !ok {
				c.fail("JSON() of a new wallet file is not valid JSON", d)
				continue
			}
			ownKey, own := v3decrypt(newTables(), tree, m.pw)
			if own != "ok" || !bytes.Equal(ownKey, m.secret) {
				c.fail("a new wallet file (created concurrently with others) is not decrypted to the key by an independent V3 implementation ("+own+")", d)
			}
			if o := implRead(m.doc, m.pw); o.cls != 0 || !bytes.Equal(o.key, m.secret) {
				c.fail("a new wallet file (created concurrently with others) is not read back to the key", d)
			}
			if dd := v3parse(tree); dd.ok {
				if len(dd.salt) != 32 || len(dd.iv) != 16 || c.salts[string(dd.salt)] || c.salts[string(dd.iv)] || bytes.Equal(dd.salt[:16], dd.iv) {
					c.fail("two creations share a salt or IV", d)
				}
				c.salts[string(dd.salt)] = true
				c.salts[string(dd.iv)] = true
			}
			c.news = append(c.news, newRec{wf: m.wf, first: m.doc, secret: m.secret, d: d})
		}
	}
	// (d)
	for i, rr := range c.reads {
		for pass, o := range []readObs{rr.o, second[i]} {
			if o.cls != 0 || o.w == nil {
				continue
			}
			c.st.Hit("retained-read-wallet-rechecked")
			if o2 := observe(o.w); !sameObs(o, o2) {
				c.fail(fmt.Sprintf("the wallet returned for this file held key=%x address=%x id=%x when it was returned and key=%x address=%x id=%x at the end of the run",
					o.key, o.addr, o.id, o2.key, o2.addr, o2.id), note(rr.d, fmt.Sprintf("retained wallet of pass %d", pass+1)))
				break
			}
		}
	}
	for _, nr := range c.news {
		if nr.wf == nil {
			continue
		}
		c.st.Hit("retained-new-wallet-rechecked")
		var again, key []byte
		ver := 0
		var addr2 []byte
		func() {
			defer func() { recover() }()
			again = nr.wf.JSON()
			key = append([]byte{}, nr.wf.PrivateKey()...)
			ver = nr.wf.GetVersion()
			if len(nr.addr) > 0 {
				kp := nr.wf.KeyPair()
				addr2 = append([]byte{}, kp.Address[:]...)
			}
		}()
		switch {
		case !bytes.Equal(again, nr.first):
			c.fail("JSON() of a new wallet at the end of the run differs from its JSON() right after creation (other wallets were created in between)", note(nr.d, "retained new wallet; JSON() now: "+string(again)))
		case !bytes.Equal(key, nr.secret) || ver != 3 || !bytes.Equal(addr2, nr.addr):
			c.fail(fmt.Sprintf("a new wallet holds key=%x version=%d address=%x at the end of the run (created for key=%x address=%x)", key, ver, addr2, nr.secret, nr.addr), note(nr.d, "retained new wallet"))
		}
	}
}

func mustTree(doc string) *jnode {
	t, ok := parseJSON([]byte(doc))
	if !ok {
		panic("base document does not parse")
	}
	return t
}
