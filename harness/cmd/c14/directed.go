// Round 3 additions for C14 (strengthening builder): Go-side searches that cost no Coq time, and a few
// directed document families that are also handed to the model.
//
//   - specDigest*: an independent transcription of EIP-712 hashStruct for the few shapes used here
//     (x/crypto/sha3 directly; shares no code with firefly-signer or with the Gallina model)
//   - numSweep: every integer type (64 widths x signedness, plus the aliases int/uint) x every
//     boundary value x every spelling, judged against the digest of the integer the text denotes by
//     construction; anything suspicious that the property does not decide (an exact exotic spelling
//     refused) is emitted as a CNum case so that the model decides
//   - stateOracle: one decoded payload hashed repeatedly (Encode, Encode, Sign, Encode) with the
//     document buffer overwritten after decoding — the result must not depend on the call number
//   - concurrent: the same documents decoded and hashed from several goroutines must give the
//     results of the sequential run (package-level scratch state)
//   - shapes: integer members inside arrays, nested arrays, nested structs, the domain, and a
//     document whose primary type is the domain; fixed dimensions with one element too few / many;
//     multi-dimensional struct arrays; reference types whose order depends on the case of the name
package main

import (
	"bytes"
	"context"
	"encoding/json"
	"fmt"
	"math/big"
	"strings"
	"sync"

	"github.com/hyperledger/firefly-signer/pkg/eip712"
	"github.com/hyperledger/firefly-signer/pkg/ethsigner"
	"golang.org/x/crypto/sha3"
	"verifharness/cv"
)

// ---------------------------------------------------------------------------------------------
// independent EIP-712 transcription (only what the directed shapes need)
// ---------------------------------------------------------------------------------------------

func kk(parts ...[]byte) []byte {
	h := sha3.NewLegacyKeccak256()
	for _, p := range parts {
		h.Write(p)
	}
	return h.Sum(nil)
}

var two256 = new(big.Int).Lsh(big.NewInt(1), 256)

// word: the 32-byte big-endian two's complement of z (z in [-2^255, 2^256-1])
func word(z *big.Int) []byte {
	v := new(big.Int).Set(z)
	if v.Sign() < 0 {
		v.Add(v, two256)
	}
	out := make([]byte, 32)
	b := v.Bytes()
	copy(out[32-len(b):], b)
	return out
}

var emptyDomainHash = kk(kk([]byte("EIP712Domain()")))

func specFinal(domainHash []byte, structHash []byte) []byte {
	if structHash == nil {
		return kk([]byte{0x19, 0x01}, domainHash)
	}
	return kk([]byte{0x19, 0x01}, domainHash, structHash)
}

// the single-member document of numDoc
func specNumDigest(typeName string, z *big.Int) []byte {
	return specFinal(emptyDomainHash, kk(kk([]byte("A("+typeName+" x)")), word(z)))
}

// ---------------------------------------------------------------------------------------------
// repeated use of one decoded payload
// ---------------------------------------------------------------------------------------------

// stateOracle decodes the document into a pointer from a private buffer, overwrites the buffer, and
// hashes / signs the same payload several times: every call must give the class and digest of the
// first (fresh) evaluation.  withSign adds SignTypedDataV4 between the hashes.
func (h *harness) stateOracle(doc []byte, gen string, cls0 int, dig0 []byte, withSign bool) {
	buf := append([]byte{}, doc...)
	var p *eip712.TypedData
	var results []string
	bad := false
	func() {
		defer func() {
			if x := recover(); x != nil {
				bad = true
				results = append(results, fmt.Sprintf("PANIC %v", x))
			}
		}()
		if err := json.Unmarshal(buf, &p); err != nil || p == nil {
			p = nil
			return
		}
		for i := range buf {
			buf[i] = 'x'
		}
		steps := []string{"encode", "encode", "sign", "encode"}
		if !withSign {
			steps = []string{"encode", "encode"}
		}
		for _, s := range steps {
			var c int
			var d []byte
			if s == "encode" {
				hh, err := eip712.EncodeTypedDataV4(context.Background(), p)
				c, d = cls(err, false), []byte(hh)
			} else {
				r, err := ethsigner.SignTypedDataV4(context.Background(), signer, p)
				c = cls(err, false)
				if err == nil {
					d = []byte(r.Hash)
				}
			}
			if c != 0 {
				d = nil
			}
			results = append(results, fmt.Sprintf("%s:%d:%x", s, c, d))
			if c != cls0 || !bytes.Equal(d, dig0) {
				bad = true
			}
		}
		// the exported HashStruct on the parts of the (now completed) payload composes to the same digest
		if cls0 == 0 && withSign {
			dh, err1 := eip712.HashStruct(context.Background(), eip712.EIP712Domain, p.Domain, p.Types)
			var mh []byte
			var err2 error
			if p.PrimaryType != eip712.EIP712Domain {
				var x []byte
				x, err2 = eip712.HashStruct(context.Background(), p.PrimaryType, p.Message, p.Types)
				mh = x
			}
			if err1 != nil || err2 != nil || !bytes.Equal(kk([]byte{0x19, 0x01}, dh, mh), dig0) {
				bad = true
				results = append(results, fmt.Sprintf("HashStruct parts: domain=%x (%v) message=%x (%v)", []byte(dh), err1, mh, err2))
			}
		}
	}()
	h.st.Hit("state:repeat")
	if bad {
		h.fail("hashing the same decoded document again (Encode, Encode, Sign, Encode on one payload, document buffer overwritten after decoding) does not give the result of the first evaluation", "",
			doc, gen+"/repeat", implResult{HCls: cls0, HDig: dig0, Msg: fmt.Sprintf("first=%d:%x later=%s", cls0, dig0, strings.Join(results, ","))})
	}
}

// ---------------------------------------------------------------------------------------------
// concurrent evaluation
// ---------------------------------------------------------------------------------------------

type poolEntry struct {
	doc []byte
	cls int
	dig []byte
}

func (h *harness) pool(doc []byte, c int, dig []byte) {
	if len(h.cpool) < 600 && len(doc) < 2000 {
		h.cpool = append(h.cpool, poolEntry{append([]byte{}, doc...), c, append([]byte{}, dig...)})
	}
}

// wideDocs: structs with many members and arrays of many structs (long buffers being hashed while
// other goroutines build theirs), different values in each
func wideDocs() [][]byte {
	var out [][]byte
	for v := 0; v < 12; v++ {
		k := 120 + 40*v
		var ms, vs, es strings.Builder
		for i := 0; i < k; i++ {
			if i > 0 {
				ms.WriteString(",")
				vs.WriteString(",")
			}
			fmt.Fprintf(&ms, `{"name":"m%d","type":"uint64"}`, i)
			fmt.Fprintf(&vs, `"m%d":%d`, i, i*7919+v)
		}
		out = append(out, []byte(`{"types":{"A":[`+ms.String()+`]},"primaryType":"A","message":{`+vs.String()+`}}`))
		for i := 0; i < k/2; i++ {
			if i > 0 {
				es.WriteString(",")
			}
			fmt.Fprintf(&es, `{"a":"%d","b":{"c":"0x%x","d":[%d,%d.0]}}`, i+v, i*31+v, i, v)
		}
		out = append(out, []byte(`{"types":{"A":[{"name":"l","type":"B[]"}],"B":[{"name":"a","type":"uint32"},{"name":"b","type":"C"}],"C":[{"name":"c","type":"int64"},{"name":"d","type":"uint16[2]"}]},"primaryType":"A","message":{"l":[`+es.String()+`]}}`))
	}
	return out
}

func (h *harness) concurrent(workers, rounds int) {
	var wide []poolEntry
	for _, d := range wideDocs() {
		_, _, hcls, dig, _ := runValue(d)
		wide = append(wide, poolEntry{d, hcls, dig})
		if hcls != 0 {
			h.fail("a valid wide document was rejected", "", d, "concurrent/wide", implResult{HCls: hcls})
		}
	}
	h.concurrentOn(append(append([]poolEntry{}, h.cpool...), wide...), workers, rounds)
	// long buffers only, more rounds: the window between building a buffer and hashing it is widest here
	h.concurrentOn(wide, workers, 4*rounds)
}

func (h *harness) concurrentOn(pool []poolEntry, workers, rounds int) {
	if len(pool) == 0 {
		return
	}
	type bad struct {
		e   poolEntry
		msg string
	}
	var mu sync.Mutex
	var bads []bad
	var wg sync.WaitGroup
	n := len(pool)
	for w := 0; w < workers; w++ {
		wg.Add(1)
		go func(w int) {
			defer wg.Done()
			for round := 0; round < rounds; round++ {
				for k := 0; k < n; k++ {
					// different strides per worker so that different documents meet
					e := pool[(k*(2*w+1)+w*37+round)%n]
					c, d, msg := func() (c int, d []byte, msg string) {
						defer func() {
							if x := recover(); x != nil {
								c, d, msg = 2, nil, fmt.Sprintf("PANIC %v", x)
							}
						}()
						var td eip712.TypedData
						if err := json.Unmarshal(e.doc, &td); err != nil {
							return 1, nil, ""
						}
						hh, err := eip712.EncodeTypedDataV4(context.Background(), &td)
						if err != nil {
							return 1, nil, ""
						}
						return 0, []byte(hh), ""
					}()
					if c != e.cls || !bytes.Equal(d, e.dig) {
						mu.Lock()
						if len(bads) < 5 {
							bads = append(bads, bad{e, fmt.Sprintf("sequential=%d:%x concurrent=%d:%x %s", e.cls, e.dig, c, d, msg)})
						}
						mu.Unlock()
					}
				}
			}
		}(w)
	}
	wg.Wait()
	h.st.Distribution["state:concurrent-evaluations"] += workers * rounds * n
	for _, b := range bads {
		h.fail("a document hashed while other goroutines hash other documents gives a different result than when hashed alone", "",
			b.e.doc, "concurrent", implResult{HCls: b.e.cls, HDig: b.e.dig, Msg: b.msg})
	}
}

// ---------------------------------------------------------------------------------------------
// numeric sweep on the implementation alone
// ---------------------------------------------------------------------------------------------

type spell struct {
	isNum   bool
	text    string
	denotes *big.Int // nil: no integer
	canon   bool
	gen     string
}

func pow10(k int) *big.Int { return new(big.Int).Exp(big.NewInt(10), big.NewInt(int64(k)), nil) }

// spellings of z: the canonical three, every exact exotic form, and inexact neighbours
func spellings(z *big.Int) []spell {
	dec := z.String()
	out := []spell{
		{true, dec, z, true, "canonical"}, {false, dec, z, true, "canonical"}, {false, hexOf(z, false), z, true, "canonical"},
		{false, hexOf(z, true), z, false, "hex-upper"},
		{false, strings.Replace(hexOf(z, true), "0x", "0X", 1), z, false, "hex-upperX"},
		{true, dec + ".0", z, false, "dot-zero"}, {false, dec + ".000", z, false, "dot-zero"},
		{true, dec + "." + strings.Repeat("0", 90), z, false, "dot-zero-long"},
		{true, dec + "e0", z, false, "exp"}, {false, dec + "E+0", z, false, "exp"}, {true, dec + "0e-1", z, false, "exp"},
		{true, dec + "E-0", z, false, "exp"}, {false, dec + "00000e-5", z, false, "exp"},
		{true, dec + strings.Repeat("0", 40) + "e-40", z, false, "exp-long"},
		{true, dec + ".5", nil, false, "fraction"}, {false, dec + ".5", nil, false, "fraction"},
		{true, dec + "e-1", fracDen(z), false, "exp-neg"}, {false, dec + "e-1", fracDen(z), false, "exp-neg"},
		{true, dec + "." + strings.Repeat("0", 82) + "1", nil, false, "fraction-tiny"},
		{false, dec + "." + strings.Repeat("0", 82) + "1", nil, false, "fraction-tiny"},
		// a fraction far below float64 / 256-bit float resolution, written with an exponent
		{true, dec + strings.Repeat("0", 19) + "1e-20", nil, false, "fraction-tiny-exp"},
		{false, dec + strings.Repeat("0", 19) + "1E-20", nil, false, "fraction-tiny-exp"},
		{true, dec + strings.Repeat("0", 89) + "1e-90", nil, false, "fraction-tiny-exp"},
		{true, dec + ".0" + strings.Repeat("0", 30) + "1e10", nil, false, "fraction-tiny-exp"},
		{true, dec + "e1", new(big.Int).Mul(z, big.NewInt(10)), false, "exp-pos"},
		{false, dec + ".0e+1", new(big.Int).Mul(z, big.NewInt(10)), false, "exp-pos"},
	}
	if z.Sign() >= 0 {
		out = append(out, spell{false, "+" + dec, z, false, "plus"}, spell{false, "+" + hexOf(z, false), z, false, "plus"},
			spell{false, "+" + dec + ".0", z, false, "plus"}, spell{false, "+" + dec + "e0", z, false, "plus"})
	}
	if z.Sign() == 0 {
		out = append(out, spell{true, "-0", z, false, "neg-zero"}, spell{false, "-0x0", z, false, "neg-zero"}, spell{true, "-0.0e-7", z, false, "neg-zero"})
	}
	if z.Sign() != 0 {
		s := strings.TrimRight(dec, "0")
		k := len(dec) - len(s)
		if k > 0 {
			out = append(out, spell{true, fmt.Sprintf("%se%d", s, k), z, false, "exp"}, spell{false, fmt.Sprintf("%sE+%d", s, k), z, false, "exp"})
		}
		digits := strings.TrimPrefix(dec, "-")
		sgn := ""
		if z.Sign() < 0 {
			sgn = "-"
		}
		if len(digits) > 1 {
			out = append(out,
				spell{true, fmt.Sprintf("%s%s.%se%d", sgn, digits[:1], digits[1:], len(digits)-1), z, false, "sci"},
				spell{false, fmt.Sprintf("%s%s.%se+%d", sgn, digits[:1], digits[1:], len(digits)-1), z, false, "sci"},
				spell{true, fmt.Sprintf("%s%s.%s000E%d", sgn, digits[:1], digits[1:], len(digits)-1), z, false, "sci"},
				// one digit short of the exponent: a fraction of one tenth remains unless the last digit is 0
				spell{true, fmt.Sprintf("%s%s.%se%d", sgn, digits[:1], digits[1:], len(digits)-2), fracDen(z), false, "sci-short"},
				// 0.ddd e n
				spell{true, fmt.Sprintf("%s0.%se%d", sgn, digits, len(digits)), z, false, "sci0"},
				spell{false, fmt.Sprintf("%s0.%sE+%d", sgn, digits, len(digits)), z, false, "sci0"},
			)
		}
	}
	return out
}

// texts that are not integers in any reading, and texts in Go's other integer syntaxes
func specialSpellings() []spell {
	var out []spell
	for _, s := range []string{
		"", "0x", "0X", "one", "Inf", "-Inf", "+Inf", "inf", "infinity", "NaN", "nan", "1e", "--1", "-", "+", "- 1", "+-1", "1e+-1", "1ee1", "e1", "1e1.0",
		"0x-1", "0x+1", "-0x-1", "0x 1", "0xg", "0x1.0", "0x.8p1", " 1", "1 ", "1\n", "\t1", "1,000", "1.000,5", "１２", "٣", "1/1", "4/2", "3/1", ".5", "1.5.0", "1..0",
		"ff", "1f", "DEADBEEF", "abc", "a", "0xx1", "00x1", "1__0", "_1", "1_", "0_x1", "0x1_", "0b", "0b2", "0o8", "1e1_0", "1_0e1",
		"1e-400", "1e1000001", "1e-1000001", "1E99999999999999999999", "1e-99999999999999999999", "true", "null", "[1]", "{}", "0x1p-1",
	} {
		out = append(out, spell{false, s, nil, false, "special"})
	}
	for _, c := range []struct {
		s string
		z int64
	}{
		{"0X1F", 31}, {"0b101", 5}, {"0B11", 3}, {"0o17", 15}, {"0O7", 7}, {"010", 8}, {"-010", -8}, {"1_0", 10}, {"0x_1f", 31}, {"0_7", 7}, {"0b1_0", 2},
		{"5.", 5}, {"1.e1", 10}, {"-7.", -7}, {"00", 0}, {"-00", 0}, {"0e0", 0}, {"0.0", 0}, {"0x1p4", 16}, {"0x10p0", 16}, {"1e+1", 10}, {"1E1", 10}, {"01e1", 10}, {"00.5e1", 5}, {"08", 8}, {"09", 9}, {"-08.0", -8},
	} {
		out = append(out, spell{false, c.s, big.NewInt(c.z), false, "special-go-syntax"})
	}
	for _, c := range []struct {
		s string
		z *big.Int
	}{
		{"1e400", pow10(400)}, {"-1e400", neg(pow10(400))}, {"1e-400", nil}, {"0e400", big.NewInt(0)}, {"0e-400", big.NewInt(0)}, {"0.000", big.NewInt(0)},
		{"-0.0e+5", big.NewInt(0)}, {"1e1000001", nil}, {"1e-1000001", nil}, {"1E99999999999999999999", nil}, {"0E99999999999999999999", big.NewInt(0)},
		{"1e-99999999999999999999", nil},
	} {
		out = append(out, spell{true, c.s, c.z, false, "special"})
	}
	return out
}

type sweepType struct {
	name string
	it   intType
}

func sweepTypes() []sweepType {
	var out []sweepType
	for b := 8; b <= 256; b += 8 {
		out = append(out, sweepType{fmt.Sprintf("uint%d", b), intType{false, b}}, sweepType{fmt.Sprintf("int%d", b), intType{true, b}})
	}
	// the aliases read by the ABI type parser
	out = append(out, sweepType{"uint", intType{false, 256}}, sweepType{"int", intType{true, 256}})
	return out
}

// typeValues: values chosen from the type's own width (range checks act on the parsed integer, whatever its spelling)
func typeValues(t intType) []*big.Int {
	var vals []*big.Int
	for _, base := range []*big.Int{t.min(), t.max(), big.NewInt(0)} {
		for d := int64(-2); d <= 2; d++ {
			vals = append(vals, add(base, d))
		}
	}
	other := intType{!t.signed, t.bits}
	vals = append(vals, other.max(), add(other.max(), 1), other.min(), add(other.min(), -1))
	// neighbouring widths: a check that uses the wrong width by 8 bits (or one bit) shows here
	for _, k := range []int{t.bits - 9, t.bits - 8, t.bits - 7, t.bits - 2, t.bits + 1, t.bits + 7, t.bits + 8} {
		if k >= 1 {
			vals = append(vals, pow2(k), add(pow2(k), -1), neg(pow2(k)), add(neg(pow2(k)), -1))
		}
	}
	return vals
}

// magnitudeValues: values chosen from the machine representations a parser may pass through (the parsing of a text does
// not know the member's width)
func magnitudeValues(t intType, r *cv.Rand) []*big.Int {
	var vals []*big.Int
	for _, k := range []int{24, 31, 32, 52, 53, 54, 62, 63, 64, 65, 127, 128, 255, 256} {
		for d := int64(-1); d <= 1; d++ {
			vals = append(vals, add(pow2(k), d), neg(add(pow2(k), d)))
		}
	}
	// decimal round numbers: many trailing zeros, and the 15..20 digit region where float64 and int64 stop being exact
	for _, k := range []int{1, 2, 15, 16, 17, 18, 19, 20, 22, 23, 30, 76, 77, 78} {
		vals = append(vals, pow10(k), add(pow10(k), 1), neg(pow10(k)), new(big.Int).Mul(big.NewInt(int64(1+r.Intn(9))), pow10(k)))
	}
	for i := 0; i < 4; i++ {
		z := new(big.Int).SetBytes(r.Bytes(1 + r.Intn(t.bits/8)))
		if t.signed && r.Bool() {
			z.Neg(z)
		}
		vals = append(vals, z)
	}
	return vals
}

func dedup(vals []*big.Int) []*big.Int {
	seen := map[string]bool{}
	var out []*big.Int
	for _, z := range vals {
		if !seen[z.String()] {
			seen[z.String()] = true
			out = append(out, z)
		}
	}
	return out
}

// goNum judges one numeric document on the implementation alone.  Returns class and digest.
func (h *harness) goNum(t sweepType, sp spell, emitted *int, widthKnown bool, repeat bool) {
	val := sp.text
	if !sp.isNum {
		val = quote(sp.text)
	}
	doc := numDoc(t.name, val)
	ucls, _, hcls, dig, msg := runValue(doc)
	h.st.Evaluations++
	c := hcls
	if ucls != 0 {
		c = ucls
	}
	h.st.Hit("sweep:" + sp.gen)
	h.st.Hit(fmt.Sprintf("sweep:class=%d", c))
	inr := sp.denotes != nil && t.it.inRange(sp.denotes)
	r := implResult{UCls: ucls, HCls: hcls, HDig: dig, Msg: fmt.Sprintf("type=%s text=%q denotes=%v %s", t.name, sp.text, sp.denotes, msg)}
	gen := "sweep/" + sp.gen
	suspicious := false
	switch {
	case c == 2:
		h.fail("hashing a numeric typed-data document panicked", "", doc, gen, r)
	case c == 0 && !inr:
		h.fail("a numeric input that is not exactly an in-range integer of the member type was hashed instead of rejected", "", doc, gen, r)
		suspicious = true
	case c == 0 && !bytes.Equal(dig, specNumDigest(t.name, sp.denotes)):
		h.fail("an integer member was hashed as a different value than the integer its text denotes", "", doc, gen, r)
		suspicious = true
	case c != 0 && inr && sp.canon:
		h.fail("a canonical spelling (JSON number, decimal string, 0x-hex string) of an in-range integer was rejected", "", doc, gen, r)
		suspicious = true
	case c != 0 && inr && modelled(sp.text):
		// exact but not canonical: the property does not demand acceptance; the model decides
		suspicious = true
		h.st.Hit("sweep:exact-exotic-refused")
	}
	if repeat && ucls == 0 {
		h.stateOracle(doc, gen, c, dig, false)
	}
	if h.nsweep%7 == 0 || (strings.ContainsAny(sp.text, "eE.") && h.nsweep%3 == 0) {
		h.pool(doc, c, dig)
	}
	h.nsweep++
	if suspicious && widthKnown && *emitted < 24 {
		*emitted++
		h.addNum(t.it, sp.isNum, sp.text, sp.denotes, sp.canon, "sweep-suspicious")
	}
}

// numSweep.  Quick tier: every type x the values of its own width x (3 canonical + 3 rotating other spellings); four
// types (uint256, int256 and two chosen by the seed) x the width-independent magnitudes x every spelling, with the
// repeat oracle; the special texts for those four.  Thorough tier: everything for every type.
func (h *harness) numSweep(r *cv.Rand, thorough bool) {
	emitted := 0
	specials := specialSpellings()
	types := sweepTypes()
	full := map[string]bool{"uint256": true, "int256": true}
	full[types[r.Intn(len(types)-2)].name] = true
	full[types[r.Intn(len(types)-2)].name] = true
	rot := 0
	for _, t := range types {
		widthKnown := t.name != "int" && t.name != "uint"
		all := thorough || full[t.name]
		for _, z := range dedup(typeValues(t.it)) {
			sps := spellings(z)
			for i, sp := range sps {
				if all || sp.canon || (i+rot)%9 == 0 {
					h.goNum(t, sp, &emitted, widthKnown, all)
				}
			}
			rot++
		}
		if !all {
			continue
		}
		for _, z := range dedup(magnitudeValues(t.it, r)) {
			for _, sp := range spellings(z) {
				h.goNum(t, sp, &emitted, widthKnown, true)
			}
		}
		for _, sp := range specials {
			h.goNum(t, sp, &emitted, widthKnown, true)
		}
	}
	// the model sees the special texts for two types (they cost no Keccak when refused)
	for _, t := range []intType{{false, 256}, {true, 64}} {
		for _, sp := range specials {
			h.addNum(t, sp.isNum, sp.text, sp.denotes, false, sp.gen)
		}
	}
}

// ---------------------------------------------------------------------------------------------
// integer members in other positions than a direct member of the primary type
// ---------------------------------------------------------------------------------------------

// render z in spelling number k (all exact)
func spellK(z *big.Int, k int) string {
	dec := z.String()
	switch k % 6 {
	case 0:
		return dec
	case 1:
		return quote(dec)
	case 2:
		return quote(hexOf(z, false))
	case 3:
		return dec + ".0"
	case 4:
		digits := strings.TrimPrefix(dec, "-")
		if len(digits) > 1 {
			sgn := ""
			if z.Sign() < 0 {
				sgn = "-"
			}
			return fmt.Sprintf("%s%s.%se%d", sgn, digits[:1], digits[1:], len(digits)-1)
		}
		return dec + "e0"
	default:
		return quote(hexOf(z, true))
	}
}

type shapeDoc struct {
	doc    string
	digest []byte // nil: must be rejected
	shape  string
}

func words(zs []*big.Int) []byte {
	var b []byte
	for _, z := range zs {
		b = append(b, word(z)...)
	}
	return b
}

func allIn(t intType, zs ...*big.Int) bool {
	for _, z := range zs {
		if !t.inRange(z) {
			return false
		}
	}
	return true
}

// shapesFor builds the documents for member type T with the values z1..z3 (spelling rotation k)
func shapesFor(T string, t intType, z1, z2, z3 *big.Int, k int) []shapeDoc {
	s1, s2, s3 := spellK(z1, k), spellK(z2, k+1), spellK(z3, k+2)
	var out []shapeDoc
	ok := func(zs ...*big.Int) bool { return allIn(t, zs...) }
	dg := func(cond bool, f func() []byte) []byte {
		if !cond {
			return nil
		}
		return f()
	}
	// T[] with three elements
	out = append(out, shapeDoc{
		`{"types":{"A":[{"name":"x","type":"` + T + `[]"}]},"primaryType":"A","domain":{},"message":{"x":[` + s1 + `,` + s2 + `,` + s3 + `]}}`,
		dg(ok(z1, z2, z3), func() []byte {
			return specFinal(emptyDomainHash, kk(kk([]byte("A("+T+"[] x)")), kk(words([]*big.Int{z1, z2, z3}))))
		}), "array"})
	// T[2][1]
	out = append(out, shapeDoc{
		`{"types":{"A":[{"name":"x","type":"` + T + `[2][1]"}]},"primaryType":"A","domain":{},"message":{"x":[[` + s1 + `,` + s2 + `]]}}`,
		dg(ok(z1, z2), func() []byte {
			return specFinal(emptyDomainHash, kk(kk([]byte("A("+T+"[2][1] x)")), kk(kk(words([]*big.Int{z1, z2})))))
		}), "array-2-1"})
	// T[][2] = [[z1],[]] then a second member of the plain type
	out = append(out, shapeDoc{
		`{"types":{"A":[{"name":"x","type":"` + T + `[][2]"},{"name":"y","type":"` + T + `"}]},"primaryType":"A","domain":{},"message":{"y":` + s2 + `,"x":[[` + s1 + `],[]]}}`,
		dg(ok(z1, z2), func() []byte {
			return specFinal(emptyDomainHash, kk(kk([]byte("A("+T+"[][2] x,"+T+" y)")), kk(kk(word(z1)), kk()), word(z2)))
		}), "array-dyn-2"})
	// nested struct
	out = append(out, shapeDoc{
		`{"types":{"A":[{"name":"b","type":"B"},{"name":"c","type":"B[]"}],"B":[{"name":"x","type":"` + T + `"},{"name":"y","type":"` + T + `"}]},"primaryType":"A","domain":{},"message":{"b":{"x":` + s1 + `,"y":` + s2 + `},"c":[{"y":` + s3 + `,"x":` + s2 + `}]}}`,
		dg(ok(z1, z2, z3), func() []byte {
			tb := "B(" + T + " x," + T + " y)"
			hb := func(x, y *big.Int) []byte { return kk(kk([]byte(tb)), word(x), word(y)) }
			return specFinal(emptyDomainHash, kk(kk([]byte("A(B b,B[] c)"+tb)), hb(z1, z2), kk(hb(z2, z3))))
		}), "nested"})
	// the domain carries the number
	out = append(out, shapeDoc{
		`{"types":{"EIP712Domain":[{"name":"chainId","type":"` + T + `"}],"A":[{"name":"x","type":"` + T + `"}]},"primaryType":"A","domain":{"chainId":` + s1 + `},"message":{"x":` + s2 + `}}`,
		dg(ok(z1, z2), func() []byte {
			return specFinal(kk(kk([]byte("EIP712Domain("+T+" chainId)")), word(z1)), kk(kk([]byte("A("+T+" x)")), word(z2)))
		}), "domain"})
	// the domain is the primary type; standard field names
	out = append(out, shapeDoc{
		`{"types":{"EIP712Domain":[{"name":"name","type":"string"},{"name":"chainId","type":"` + T + `"}]},"primaryType":"EIP712Domain","domain":{"name":"n","chainId":` + s3 + `}}`,
		dg(ok(z3), func() []byte {
			return specFinal(kk(kk([]byte("EIP712Domain(string name,"+T+" chainId)")), kk([]byte("n")), word(z3)), nil)
		}), "domain-primary"})
	return out
}

func (h *harness) goShape(sd shapeDoc, toModel bool) {
	doc := []byte(sd.doc)
	ucls, _, hcls, dig, msg := runValue(doc)
	h.st.Evaluations++
	c := hcls
	if ucls != 0 {
		c = ucls
	}
	h.st.Hit("shape:" + sd.shape)
	r := implResult{UCls: ucls, HCls: hcls, HDig: dig, Msg: msg}
	gen := "shape/" + sd.shape
	switch {
	case c == 2:
		h.fail("hashing or signing a JSON document panicked", "", doc, gen, r)
	case c == 0 && sd.digest == nil:
		h.fail("a numeric input that is not exactly an in-range integer of the member type was hashed instead of rejected", "", doc, gen, r)
	case c == 0 && !bytes.Equal(dig, sd.digest):
		h.fail("an integer member was hashed as a different value than the integer its text denotes", "", doc, gen, r)
	case c != 0 && sd.digest != nil:
		// exact spellings of in-range integers (number, decimal, hex, z.0, d.ddde+k): the three canonical ones are
		// required, the others are accepted by the unchanged code; the model decides when it sees the document
		toModel = true
		h.st.Hit("shape:exact-refused")
	}
	if ucls == 0 {
		h.stateOracle(doc, gen, c, dig, false)
	}
	if h.nsweep%5 == 0 {
		h.pool(doc, c, dig)
	}
	h.nsweep++
	if toModel && h.nshapeModel < h.shapeCap {
		h.nshapeModel++
		h.addDoc(doc, gen)
	}
}

func (h *harness) shapes(r *cv.Rand, thorough bool) {
	n := 0
	h.shapeCap = 90
	if thorough {
		h.shapeCap = 600
	}
	for _, t := range sweepTypes() {
		it := t.it
		big1 := []*big.Int{it.max(), it.min(), add(pow2(53), 1), add(pow2(63), 1), add(pow2(64), 1), neg(add(pow2(63), 1)), add(it.max(), 1), add(it.min(), -1),
			new(big.Int).SetBytes(r.Bytes(it.bits / 8))}
		for i := range big1 {
			z1, z2, z3 := big1[i], big1[(i+1)%len(big1)], big1[(i+3)%len(big1)]
			for _, sd := range shapesFor(t.name, it, z1, z2, z3, n) {
				// one in 41 goes to the model as well (thorough tier: one in 7); the modulus is coprime to the six shapes
				m := 41
				if thorough {
					m = 7
				}
				h.goShape(sd, n%m == 0)
				n++
			}
		}
	}
}

// documents decided by the model alone: element counts around a fixed dimension, dimension order,
// multi-dimensional arrays of structs, reference types whose sort order depends on letter case
func (h *harness) dimDocs() {
	for k := 0; k <= 3; k++ {
		for n := k - 1; n <= k+1; n++ {
			if n < 0 {
				continue
			}
			el := make([]string, n)
			for i := range el {
				el[i] = fmt.Sprintf("%d", i+1)
			}
			h.addDoc([]byte(fmt.Sprintf(`{"types":{"A":[{"name":"x","type":"uint8[%d]"}]},"primaryType":"A","message":{"x":[%s]}}`, k, strings.Join(el, ","))), "dims/count")
			sl := make([]string, n)
			for i := range sl {
				sl[i] = fmt.Sprintf(`{"v":%d}`, i+1)
			}
			h.addDoc([]byte(fmt.Sprintf(`{"types":{"A":[{"name":"x","type":"B[%d]"}],"B":[{"name":"v","type":"uint8"}]},"primaryType":"A","message":{"x":[%s]}}`, k, strings.Join(sl, ","))), "dims/count")
		}
	}
	for _, d := range []string{
		// uint8[2][3]: three arrays of two
		`{"types":{"A":[{"name":"x","type":"uint8[2][3]"}]},"primaryType":"A","message":{"x":[[1,2],[3,4],[5,6]]}}`,
		`{"types":{"A":[{"name":"x","type":"uint8[2][3]"}]},"primaryType":"A","message":{"x":[[1,2,3],[4,5,6]]}}`,
		`{"types":{"A":[{"name":"x","type":"uint8[2][3]"}]},"primaryType":"A","message":{"x":[[1,2],[3,4],[5,6,7]]}}`,
		`{"types":{"A":[{"name":"x","type":"uint8[2][3]"}]},"primaryType":"A","message":{"x":[[1,2],[3,4],[5]]}}`,
		`{"types":{"A":[{"name":"x","type":"uint8[][2]"}]},"primaryType":"A","message":{"x":[[1,2,3],[]]}}`,
		`{"types":{"A":[{"name":"x","type":"uint8[][2]"}]},"primaryType":"A","message":{"x":[[1],[2],[3]]}}`,
		`{"types":{"A":[{"name":"x","type":"uint8[2][]"}]},"primaryType":"A","message":{"x":[[1,2],[3,4],[5,6]]}}`,
		`{"types":{"A":[{"name":"x","type":"uint8[2][]"}]},"primaryType":"A","message":{"x":[[1,2,3]]}}`,
		// arrays of structs in more than one dimension (the dependency walk has to strip every suffix)
		`{"types":{"A":[{"name":"x","type":"B[2][1]"}],"B":[{"name":"v","type":"uint8"}]},"primaryType":"A","message":{"x":[[{"v":1},{"v":2}]]}}`,
		`{"types":{"A":[{"name":"x","type":"B[][]"}],"B":[{"name":"v","type":"uint8"}]},"primaryType":"A","message":{"x":[[{"v":1}],[]]}}`,
		`{"types":{"A":[{"name":"x","type":"B[][2][1]"}],"B":[{"name":"v","type":"C[1][1]"}],"C":[{"name":"w","type":"int16"}]},"primaryType":"A","message":{"x":[[[{"v":[[{"w":-1}]]}],[]]]}}`,
		`{"types":{"A":[{"name":"x","type":"B[1][1]"},{"name":"y","type":"B"}],"B":[{"name":"v","type":"uint8"}]},"primaryType":"A","message":{"x":[[null]],"y":null}}`,
		// reference types: byte order of the names, not alphabetical order
		`{"types":{"P":[{"name":"a","type":"a"},{"name":"b","type":"B"},{"name":"c","type":"_c"},{"name":"d","type":"Ab"},{"name":"e","type":"aB"},{"name":"f","type":"Z"},{"name":"g","type":"b"}],` +
			`"a":[{"name":"v","type":"uint8"}],"B":[{"name":"v","type":"uint8"}],"_c":[{"name":"v","type":"uint8"}],"Ab":[{"name":"v","type":"uint8"}],"aB":[{"name":"v","type":"uint8"}],"Z":[{"name":"v","type":"uint8"}],"b":[{"name":"v","type":"uint8"}]},` +
			`"primaryType":"P","message":{"a":{"v":1},"b":{"v":2},"c":{"v":3},"d":{"v":4},"e":{"v":5},"f":{"v":6},"g":{"v":7}}}`,
		`{"types":{"P":[{"name":"a","type":"T10"},{"name":"b","type":"T9"},{"name":"c","type":"T1"},{"name":"d","type":"t2"},{"name":"e","type":"É"},{"name":"f","type":"E"}],` +
			`"T10":[],"T9":[],"T1":[],"t2":[],"É":[],"E":[]},"primaryType":"P","message":{"a":{},"b":{},"c":null,"d":{},"e":{},"f":{}}}`,
	} {
		h.addDoc([]byte(d), "dims/shape")
	}
	// a value that is not an array (absent, null, map, string, number) where the member type is an array
	for _, tn := range []string{"uint8[]", "uint8[0]", "B[]", "B[1][]", "string[]", "B[0]"} {
		for _, v := range []string{``, `null`, `{}`, `""`, `0`, `[null]`, `[[]]`, `[]`, `false`} {
			msg := `{"x":` + v + `}`
			if v == "" {
				msg = `{}`
			}
			h.addDoc([]byte(`{"types":{"A":[{"name":"x","type":"`+tn+`"}],"B":[{"name":"v","type":"uint8"}]},"primaryType":"A","message":`+msg+`}`), "dims/not-array")
		}
	}
	// explicit null / empty entries for the domain type and the primary type
	for _, d := range []string{
		`{"types":{"EIP712Domain":null},"primaryType":"EIP712Domain"}`,
		`{"types":{"EIP712Domain":null},"primaryType":"EIP712Domain","domain":{}}`,
		`{"types":{"EIP712Domain":null,"A":[]},"primaryType":"A","message":{}}`,
		`{"types":{"EIP712Domain":null,"A":[]},"primaryType":"A","domain":{"name":"x"},"message":{}}`,
		`{"types":{"EIP712Domain":[],"A":[]},"primaryType":"A","domain":{"name":"x"},"message":{}}`,
		`{"types":{"EIP712Domain":[],"A":[]},"primaryType":"A","domain":null,"message":{}}`,
		`{"types":{"A":[]},"primaryType":"A","domain":null,"message":{}}`,
		`{"types":{"A":[]},"primaryType":"A","domain":{"chainId":1},"message":{}}`,
		`{"types":{"A":null,"EIP712Domain":[]},"primaryType":"A","message":null}`,
		`{"types":{"A":[{"name":"d","type":"EIP712Domain"}],"EIP712Domain":null},"primaryType":"A","message":{"d":null}}`,
		`{"types":{"A":[{"name":"d","type":"B"}],"B":null},"primaryType":"A","message":{"d":null}}`,
		`{"types":{"A":[{"name":"d","type":"B[]"}],"B":null},"primaryType":"A","message":{"d":[]}}`,
		`{"types":{"A":[{"name":"d","type":"B[]"}],"B":null},"primaryType":"A","message":{"d":[null]}}`,
		`{"types":{"A":[{"name":"x","type":"uint8"}]},"primaryType":"A","message":{}}`,
		`{"types":{"A":[{"name":"x","type":"uint8"},{"name":"y","type":"int8"}]},"primaryType":"A","message":{"y":-1}}`,
		`{"types":{"A":[{"name":"","type":"uint8"}]},"primaryType":"A","message":{"":7}}`,
		`{"types":{"A":[{"type":"uint8"}]},"primaryType":"A","message":{"":"0x7"}}`,
		`{"types":{"A":[{"name":"x"}]},"primaryType":"A","message":{"x":1}}`,
	} {
		h.addDoc([]byte(d), "dims/null-types")
	}
}
