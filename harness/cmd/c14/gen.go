package main

import (
	"encoding/hex"
	"encoding/json"
	"flag"
	"fmt"
	"io"
	"math/big"
	"os"
	"path/filepath"
	"strings"

	"github.com/sirupsen/logrus"
	"verifharness/cv"
)

// ---------------------------------------------------------------------------------------------
// valid documents
// ---------------------------------------------------------------------------------------------

func member(name, typ string) *jnode { return jobj("name", jstr(name), "type", jstr(typ)) }

func mailDoc() *jnode {
	return jobj(
		"types", jobj(
			"EIP712Domain", jarr(member("name", "string"), member("version", "string"), member("chainId", "uint256"), member("verifyingContract", "address")),
			"Person", jarr(member("name", "string"), member("wallet", "address")),
			"Mail", jarr(member("from", "Person"), member("to", "Person"), member("contents", "string")),
		),
		"primaryType", jstr("Mail"),
		"domain", jobj("name", jstr("Ether Mail"), "version", jstr("1"), "chainId", jnum("1"), "verifyingContract", jstr("0xCcCCccccCCCCcCCCCCCcCcCccCcCCCcCcccccccC")),
		"message", jobj(
			"from", jobj("name", jstr("Cow"), "wallet", jstr("0xCD2a3d9F938E13CD947Ec05AbC7FE734Df8DD826")),
			"to", jobj("name", jstr("Bob"), "wallet", jstr("0xbBbBBBBbbBBBbbbBbbBbbbbBBbBbbbbBbBbbBBbB")),
			"contents", jstr("Hello, Bob!"),
		),
	)
}

// every atomic kind, arrays (fixed, dynamic, nested), nested / absent / recursive structs
func kitchenDoc() *jnode {
	return jobj(
		"types", jobj(
			"EIP712Domain", jarr(member("name", "string"), member("chainId", "uint64"), member("salt", "bytes32")),
			"Leaf", jarr(member("a", "address"), member("b", "bool"), member("i8", "int8"), member("u", "uint256"), member("bs", "bytes"), member("b4", "bytes4"), member("s", "string")),
			"Node", jarr(member("leaf", "Leaf"), member("kids", "Node[]"), member("pair", "Leaf[2]"), member("grid", "int16[2][]"), member("none", "Leaf")),
		),
		"primaryType", jstr("Node"),
		"domain", jobj("name", jstr("k"), "chainId", jstr("0x7fffffffffffffff"), "salt", jstr("0x"+strings.Repeat("ab", 32))),
		"message", jobj(
			"leaf", leafVal(1),
			"kids", jarr(jobj("leaf", leafVal(2), "kids", jarr(), "pair", jarr(leafVal(3), leafVal(4)), "grid", jarr(), "none", jnull())),
			"pair", jarr(leafVal(5), jnull()),
			"grid", jarr(jarr(jnum("-32768"), jstr("32767")), jarr(jstr("-0x1"), jnum("0"))),
		),
	)
}
func leafVal(i int) *jnode {
	return jobj("a", jstr(fmt.Sprintf("0x%040x", i*7919)), "b", jbool(i%2 == 0), "i8", jnum(fmt.Sprintf("%d", -i)), "u", jstr(fmt.Sprintf("%d", i*1000003)),
		"bs", jstr("0x"+strings.Repeat("0f", i)), "b4", jstr("0xdeadbeef"), "s", jstr(fmt.Sprintf("leaf %d é", i)))
}

var atomPool = []string{"address", "bool", "string", "bytes", "bytes1", "bytes8", "bytes32", "uint8", "int8", "uint16", "uint64", "int64", "uint128", "int256", "uint256", "int24", "uint"}

type gen struct {
	r     *cv.Rand
	names []string
	types map[string][][2]string
}

func randHex(r *cv.Rand, n int) string { return hex.EncodeToString(r.Bytes(n)) }

func (g *gen) atomValue(t string) *jnode {
	r := g.r
	switch {
	case t == "address":
		return jstr("0x" + randHex(r, 20))
	case t == "bool":
		if r.Intn(4) == 0 {
			return jstr([]string{"true", "false", "TRUE"}[r.Intn(3)])
		}
		return jbool(r.Bool())
	case t == "string":
		return jstr([]string{"", "hello", "héllo wörld ☃", strings.Repeat("x", 1+r.Intn(200)), "0x00"}[r.Intn(5)])
	case t == "bytes":
		return jstr("0x" + randHex(r, r.Intn(70)))
	case strings.HasPrefix(t, "bytes"):
		var n int
		fmt.Sscanf(t, "bytes%d", &n)
		return jstr("0x" + randHex(r, n))
	}
	signed := strings.HasPrefix(t, "int")
	bits := 256
	fmt.Sscanf(strings.TrimPrefix(strings.TrimPrefix(t, "u"), "int"), "%d", &bits)
	it := intType{signed, bits}
	var z *big.Int
	switch r.Intn(6) {
	case 0:
		z = it.max()
	case 1:
		z = it.min()
	case 2:
		z = big.NewInt(int64(r.Intn(100)))
	default:
		z = new(big.Int).SetBytes(r.Bytes(1 + r.Intn(bits/8)))
		if signed {
			z.Rsh(z, 1)
			if r.Bool() {
				z.Neg(z)
			}
		}
		if !it.inRange(z) {
			z = big.NewInt(0)
		}
	}
	switch r.Intn(3) {
	case 0:
		return jnum(z.String())
	case 1:
		return jstr(z.String())
	default:
		return jstr(hexOf(z, r.Intn(4) == 0))
	}
}

func (g *gen) memberType(allowStruct bool) string {
	r := g.r
	var base string
	if allowStruct && r.Intn(3) == 0 {
		base = g.names[r.Intn(len(g.names))]
	} else {
		base = atomPool[r.Intn(len(atomPool))]
	}
	for d := 0; d < 3 && r.Intn(4) == 0; d++ {
		if r.Bool() {
			base += "[]"
		} else {
			base += fmt.Sprintf("[%d]", r.Intn(4))
		}
	}
	return base
}

func (g *gen) value(t string, depth int) *jnode {
	r := g.r
	if strings.HasSuffix(t, "]") {
		open := strings.LastIndex(t, "[")
		dim := t[open+1 : len(t)-1]
		elem := t[:open]
		n := r.Intn(3)
		if depth <= 0 {
			n = 0
		}
		if dim != "" {
			fmt.Sscanf(dim, "%d", &n)
		}
		a := &jnode{kind: kArr}
		for i := 0; i < n; i++ {
			a.arr = append(a.arr, g.value(elem, depth-1))
		}
		return a
	}
	if ms, ok := g.types[t]; ok {
		if depth <= 0 || r.Intn(8) == 0 {
			return jnull()
		}
		o := &jnode{kind: kObj}
		for _, m := range ms {
			o.keys = append(o.keys, m[0])
			o.vals = append(o.vals, g.value(m[1], depth-1))
		}
		if r.Intn(5) == 0 {
			o.keys = append(o.keys, "extra_"+randHex(r, 2))
			o.vals = append(o.vals, jnum("7"))
		}
		return o
	}
	return g.atomValue(t)
}

var namePool = []string{"Mail", "Person", "Order", "Asset", "Group", "S0", "S1", "_x", "T$", "Äb", "Z9"}

func randomDoc(r *cv.Rand) *jnode {
	g := &gen{r: r, types: map[string][][2]string{}}
	n := 1 + r.Intn(5)
	perm := append([]string{}, namePool...)
	for i := len(perm) - 1; i > 0; i-- {
		j := r.Intn(i + 1)
		perm[i], perm[j] = perm[j], perm[i]
	}
	g.names = perm[:n]
	types := &jnode{kind: kObj}
	for _, nm := range g.names {
		k := r.Intn(5)
		arr := &jnode{kind: kArr}
		var ms [][2]string
		for i := 0; i < k; i++ {
			mt := g.memberType(true)
			mn := fmt.Sprintf("m%d", i)
			ms = append(ms, [2]string{mn, mt})
			arr.arr = append(arr.arr, member(mn, mt))
		}
		g.types[nm] = ms
		types.keys = append(types.keys, nm)
		types.vals = append(types.vals, arr)
	}
	doc := &jnode{kind: kObj}
	// domain: a subset of the standard fields, or none
	dom := &jnode{kind: kObj}
	if r.Intn(4) != 0 {
		darr := &jnode{kind: kArr}
		std := [][3]string{{"name", "string", ""}, {"version", "string", ""}, {"chainId", "uint256", ""}, {"verifyingContract", "address", ""}, {"salt", "bytes32", ""}}
		for _, f := range std {
			if r.Bool() {
				darr.arr = append(darr.arr, member(f[0], f[1]))
				dom.keys = append(dom.keys, f[0])
				dom.vals = append(dom.vals, g.atomValue(f[1]))
			}
		}
		types.keys = append(types.keys, "EIP712Domain")
		types.vals = append(types.vals, darr)
	}
	doc.set("types", types)
	primary := g.names[0]
	if r.Intn(10) == 0 {
		primary = "EIP712Domain"
	}
	doc.set("primaryType", jstr(primary))
	if r.Intn(6) != 0 {
		doc.set("domain", dom)
	}
	if primary != "EIP712Domain" {
		doc.set("message", g.value(primary, 4))
	}
	// random member order of the document
	if r.Bool() {
		for i := len(doc.keys) - 1; i > 0; i-- {
			j := r.Intn(i + 1)
			doc.keys[i], doc.keys[j] = doc.keys[j], doc.keys[i]
			doc.vals[i], doc.vals[j] = doc.vals[j], doc.vals[i]
		}
	}
	return doc
}

// ---------------------------------------------------------------------------------------------
// mutations
// ---------------------------------------------------------------------------------------------

type slot struct {
	parent *jnode
	idx    int
	path   string
	isType bool // the "type" string of a type member
}

func (s slot) get() *jnode {
	if s.parent.kind == kArr {
		return s.parent.arr[s.idx]
	}
	return s.parent.vals[s.idx]
}
func (s slot) put(n *jnode) {
	if s.parent.kind == kArr {
		s.parent.arr[s.idx] = n
	} else {
		s.parent.vals[s.idx] = n
	}
}
func (s slot) remove() {
	if s.parent.kind == kArr {
		s.parent.arr = append(s.parent.arr[:s.idx:s.idx], s.parent.arr[s.idx+1:]...)
	} else {
		s.parent.keys = append(s.parent.keys[:s.idx:s.idx], s.parent.keys[s.idx+1:]...)
		s.parent.vals = append(s.parent.vals[:s.idx:s.idx], s.parent.vals[s.idx+1:]...)
	}
}

func slots(n *jnode, path string, inTypes bool, out *[]slot) {
	switch n.kind {
	case kArr:
		for i, c := range n.arr {
			p := fmt.Sprintf("%s[%d]", path, i)
			*out = append(*out, slot{parent: n, idx: i, path: p})
			slots(c, p, inTypes, out)
		}
	case kObj:
		for i, c := range n.vals {
			p := path + "." + n.keys[i]
			*out = append(*out, slot{parent: n, idx: i, path: p, isType: inTypes && n.keys[i] == "type" && c.kind == kStr})
			slots(c, p, inTypes || (path == "" && n.keys[i] == "types"), out)
		}
	}
}

func replacements() []*jnode {
	return []*jnode{
		jnull(), jbool(true), jnum("0"), jnum("-1"), jnum("1.5"), jnum("1e30"), jnum("18446744073709551616"),
		jstr(""), jstr("x"), jstr("0x"), jarr(), jarr(jnull()), jarr(jarr()), jobj(), jobj("a", jnull()), jobj("name", jnull(), "type", jnull()),
	}
}

func typeMutations(t string, names []string) []string {
	base := t
	if i := strings.Index(t, "["); i >= 0 {
		base = t[:i]
	}
	out := []string{
		t + "[", t + "[]]", t + "[-1]", t + "[+1]", t + "[x]", t + "]", t + "[]", t + "[1]", t + "[0]", t + "[2][", t + "[][]", t + "[ 1]", t + "[1 ]",
		t + "[01]", t + "[9999999999999999999]", "[]", "[1]", "[", "]", "", " ", base + " ", " " + base, "Undefined", "Undefined[]", base + "[][",
		"tuple", "tuple[]", "function", "fixed128x18", "ufixed", "uint7", "uint0", "uint264", "int", "int008", "bytes0", "bytes33", "byte", "uint256 ", "(uint256)", "uint256,uint256",
		"address payable", "string[]", "bool[2]", "bytes[]",
	}
	for _, n := range names {
		out = append(out, n, n+"[]", n+"[1]")
	}
	return out
}

func keyVariants(k string) []string {
	out := []string{strings.ToUpper(k), strings.Title(k), k + " ", "", "x" + k}
	if strings.Contains(k, "s") {
		out = append(out, strings.Replace(k, "s", "ſ", 1)) // U+017F folds to S
	}
	if strings.Contains(k, "k") {
		out = append(out, strings.Replace(k, "k", "K", 1)) // U+212A folds to K
	}
	return out
}

func typeNames(doc *jnode) []string {
	t := doc.get("types")
	if t == nil || t.kind != kObj {
		return nil
	}
	return append([]string{}, t.keys...)
}

// mutateAll enumerates every position of the document with every replacement kind; sample > 0 keeps
// each mutation with probability 1/sample.
func (h *harness) mutateAll(doc *jnode, tag string, r *cv.Rand, sample int) {
	var base []slot
	slots(doc, "", false, &base)
	names := typeNames(doc)
	keep := func() bool { return sample <= 1 || r.Intn(sample) == 0 }
	for si := range base {
		// replacement by every JSON kind
		for ri, rep := range replacements() {
			if !keep() {
				continue
			}
			c := doc.clone()
			var ss []slot
			slots(c, "", false, &ss)
			ss[si].put(rep.clone())
			h.st.Hit(fmt.Sprintf("mut:replace/%d", ri))
			h.addDoc([]byte(c.text()), "mutate/"+tag+"/replace")
		}
		if keep() { // delete
			c := doc.clone()
			var ss []slot
			slots(c, "", false, &ss)
			ss[si].remove()
			h.st.Hit("mut:delete")
			h.addDoc([]byte(c.text()), "mutate/"+tag+"/delete")
		}
		if keep() { // duplicate the member / element, second copy replaced
			c := doc.clone()
			var ss []slot
			slots(c, "", false, &ss)
			s := ss[si]
			if s.parent.kind == kObj {
				s.parent.keys = append(s.parent.keys, s.parent.keys[s.idx])
				s.parent.vals = append(s.parent.vals, replacements()[r.Intn(len(replacements()))].clone())
			} else {
				s.parent.arr = append(s.parent.arr, s.get().clone())
			}
			h.st.Hit("mut:duplicate")
			h.addDoc([]byte(c.text()), "mutate/"+tag+"/duplicate")
		}
		if base[si].parent.kind == kObj { // key spelled differently
			for _, kv := range keyVariants(base[si].parent.keys[base[si].idx]) {
				if !keep() {
					continue
				}
				c := doc.clone()
				var ss []slot
				slots(c, "", false, &ss)
				ss[si].parent.keys[ss[si].idx] = kv
				h.st.Hit("mut:key")
				h.addDoc([]byte(c.text()), "mutate/"+tag+"/key")
			}
		}
		if base[si].isType {
			for _, tm := range typeMutations(base[si].get().s, names) {
				if !keep() {
					continue
				}
				c := doc.clone()
				var ss []slot
				slots(c, "", false, &ss)
				ss[si].put(jstr(tm))
				h.st.Hit("mut:type-string")
				h.addDoc([]byte(c.text()), "mutate/"+tag+"/type")
			}
		}
	}
}

// ---------------------------------------------------------------------------------------------
// arbitrary JSON and raw bytes
// ---------------------------------------------------------------------------------------------

var wordPool = []string{"types", "primaryType", "domain", "message", "name", "type", "EIP712Domain", "Mail", "uint256", "string", "x", "", "chainId", "Types", "TYPE", "A", "A[]"}

func randomJSON(r *cv.Rand, depth int) *jnode {
	k := r.Intn(8)
	if depth <= 0 && k >= 5 {
		k = r.Intn(5)
	}
	switch k {
	case 0:
		return jnull()
	case 1:
		return jbool(r.Bool())
	case 2:
		return jnum([]string{"0", "-1", "1.5", "1e5", "123456789012345678901234567890", "-0", "1E-2", "9007199254740993"}[r.Intn(8)])
	case 3, 4:
		return jstr(wordPool[r.Intn(len(wordPool))])
	case 5:
		a := &jnode{kind: kArr}
		for i := r.Intn(4); i > 0; i-- {
			a.arr = append(a.arr, randomJSON(r, depth-1))
		}
		return a
	default:
		o := &jnode{kind: kObj}
		for i := r.Intn(5); i > 0; i-- {
			o.keys = append(o.keys, wordPool[r.Intn(len(wordPool))])
			o.vals = append(o.vals, randomJSON(r, depth-1))
		}
		return o
	}
}

// typed-data shaped but with arbitrary content in every place
func looseDoc(r *cv.Rand) *jnode {
	o := &jnode{kind: kObj}
	for _, k := range []string{"types", "primaryType", "domain", "message"} {
		if r.Intn(6) == 0 {
			continue
		}
		var v *jnode
		switch k {
		case "types":
			t := &jnode{kind: kObj}
			for i := r.Intn(4); i > 0; i-- {
				nm := wordPool[r.Intn(len(wordPool))]
				var tv *jnode
				if r.Intn(4) == 0 {
					tv = randomJSON(r, 2)
				} else {
					a := &jnode{kind: kArr}
					for j := r.Intn(4); j > 0; j-- {
						if r.Intn(5) == 0 {
							a.arr = append(a.arr, randomJSON(r, 1))
						} else {
							a.arr = append(a.arr, member(wordPool[r.Intn(len(wordPool))], wordPool[r.Intn(len(wordPool))]))
						}
					}
					tv = a
				}
				t.keys = append(t.keys, nm)
				t.vals = append(t.vals, tv)
			}
			v = t
		case "primaryType":
			v = jstr(wordPool[r.Intn(len(wordPool))])
			if r.Intn(6) == 0 {
				v = randomJSON(r, 1)
			}
		default:
			v = randomJSON(r, 3)
		}
		o.keys = append(o.keys, k)
		o.vals = append(o.vals, v)
	}
	return o
}

func (h *harness) fixedCorpus() {
	// witnesses of the repaired defects (D14a, D14c, D14b) and hand-made malformed documents: always run
	for _, d := range []string{
		`null`, `true`, `0`, `"x"`, `[]`, `[null]`, `{}`, `{"types":null}`, `{"types":{}}`, `{"types":[]}`, `{"primaryType":null}`, `{"primaryType":1}`,
		`{"types":{"A":[null]},"primaryType":"A","message":{}}`,
		`{"types":{"A":[null]},"primaryType":"A"}`,
		`{"types":{"A":[{"name":"b","type":"B"}],"B":[null]},"primaryType":"A","message":{"b":{}}}`,
		`{"types":{"A":[{"name":"b","type":"B[]"}],"B":[{"name":"x","type":"uint8"},null]},"primaryType":"A","message":{"b":[]}}`,
		`{"types":{"EIP712Domain":[null]},"primaryType":"EIP712Domain"}`,
		`{"types":{"A[x":[null]},"primaryType":"A[x","message":{}}`,
		`{"types":{"A[x":[null]},"primaryType":"A[x","message":null}`,
		`{"types":{"B":[{"name":"a","type":"A[x"}],"A[x":[null]},"primaryType":"B","message":{"a":{}}}`,
		`{"types":{"B":[{"name":"a","type":"A[x"}],"A[x":[{"name":"x","type":"uint8"}],"A":[null]},"primaryType":"B","message":{"a":{"x":1}}}`,
		`{"types":{"A":null},"primaryType":"A","message":{}}`,
		`{"types":{"A":[]},"primaryType":"A","message":null}`,
		`{"types":{"A":[]},"primaryType":"A"}`,
		`{"types":{"A":[{}]},"primaryType":"A","message":{}}`,
		`{"types":{"A":[{"name":null,"type":null}]},"primaryType":"A","message":{}}`,
		`{"types":{"A":[{"name":"a","type":"A"}]},"primaryType":"A","message":{"a":{"a":{"a":null}}}}`,
		`{"types":{"A":[{"name":"a","type":"B"}],"B":[{"name":"b","type":"A"}]},"primaryType":"A","message":{"a":{"b":{"a":null}}}}`,
		`{"types":{"A":[{"name":"a","type":"A[]"}]},"primaryType":"A","message":{"a":[{"a":[]},{"a":[{"a":[]}]}]}}`,
		`{"types":{"A":[{"name":"a","type":"C"}]},"primaryType":"A","message":{"a":{}}}`,
		`{"types":{"A":[{"name":"x","type":"uint256["}]},"primaryType":"A","message":{"x":[1]}}`,
		`{"types":{"A":[{"name":"x","type":"uint256[]]"}]},"primaryType":"A","message":{"x":[1]}}`,
		`{"types":{"A":[{"name":"x","type":"uint256[-1]"}]},"primaryType":"A","message":{"x":[1]}}`,
		`{"types":{"A":[{"name":"x","type":"uint256[+1]"}]},"primaryType":"A","message":{"x":[1]}}`,
		`{"types":{"A":[{"name":"x","type":"uint256[x]"}]},"primaryType":"A","message":{"x":[1]}}`,
		`{"types":{"A":[{"name":"x","type":"[]"}]},"primaryType":"A","message":{"x":[]}}`,
		`{"types":{"A":[{"name":"x","type":"[][]"}]},"primaryType":"A","message":{"x":[]}}`,
		`{"types":{"A":[{"name":"x","type":"[][]"}]},"primaryType":"A","message":{"x":[[]]}}`,
		`{"types":{"A":[{"name":"x","type":"]"}]},"primaryType":"A","message":{"x":[]}}`,
		`{"types":{"A":[{"name":"x","type":"A[0]"}]},"primaryType":"A","message":{"x":[]}}`,
		`{"types":{"A[]":[{"name":"x","type":"uint8"}],"B":[{"name":"a","type":"A[]"}]},"primaryType":"B","message":{"a":[]}}`,
		`{"types":{"A[]":[{"name":"x","type":"uint8"}]},"primaryType":"A[]","message":{"x":1}}`,
		`{"types":{"":[{"name":"x","type":""}]},"primaryType":"","message":{"x":{}}}`,
		`{"types":{"uint8":[{"name":"x","type":"uint8"}]},"primaryType":"uint8","message":{"x":{"x":null}}}`,
		`{"types":{"A":[{"name":"x","type":"int256"}]},"primaryType":"A","domain":{},"message":{"x":9223372036854775808}}`,
		`{"types":{"A":[{"name":"x","type":"int256"}]},"primaryType":"A","domain":{},"message":{"x":9007199254740993}}`,
		`{"types":{"A":[{"name":"x","type":"uint8"}]},"primaryType":"A","domain":{},"message":{"x":1.5}}`,
		`{"types":{"A":[{"name":"x","type":"uint256"}]},"primaryType":"A","domain":{},"message":{"x":1e30}}`,
		`{"types":{"A":[{"name":"x","type":"bool"}]},"primaryType":"A","message":{"x":1}}`,
		`{"types":{"A":[{"name":"x","type":"bool"}]},"primaryType":"A","message":{"x":"maybe"}}`,
		`{"types":{"A":[{"name":"x","type":"string"}]},"primaryType":"A","message":{"x":5}}`,
		`{"types":{"A":[{"name":"x","type":"bytes"}]},"primaryType":"A","message":{"x":12}}`,
		`{"types":{"A":[{"name":"x","type":"address"}]},"primaryType":"A","message":{"x":12}}`,
		`{"types":{"A":[{"name":"x","type":"bytes2"}]},"primaryType":"A","message":{"x":1234}}`,
		`{"types":{"A":[{"name":"x","type":"uint8[]"}]},"primaryType":"A","message":{"x":[1,"2","0x3",null]}}`,
		`{"types":{"A":[{"name":"x","type":"uint8"}]},"primaryType":"A","message":{"x":null}}`,
		`{"types":{"A":[{"name":"x","type":"uint8"}]},"primaryType":"A","message":{"x":true}}`,
		`{"types":{"A":[{"name":"x","type":"uint8"}]},"primaryType":"A","message":{"x":[1]}}`,
		`{"types":{"A":[{"name":"x","type":"uint8"}]},"primaryType":"A","message":{"x":{"y":1}}}`,
		`{"types":{"A":[{"name":"x","type":"uint8"}]},"primaryType":"A","message":{"x":"010"}}`,
		`{"types":{"A":[{"name":"x","type":"uint8"}]},"primaryType":"A","message":{"x":"0b11"}}`,
		`{"types":{"A":[{"name":"x","type":"uint16"}]},"primaryType":"A","message":{"x":"1_000"}}`,
		`{"types":{"A":[{"name":"x","type":"uint8"}]},"primaryType":"A","message":{"x":"0o17"}}`,
		`{"types":{"A":[{"name":"x","type":"uint8"}]},"primaryType":"A","message":{"x":" 1"}}`,
		`{"types":{"A":[{"name":"x","type":"uint8"}]},"primaryType":"A","message":{"x":"0x1.8p1"}}`,
		`{"types":{"A":[{"name":"x","type":"uint8"}]},"primaryType":"A","message":{"x":"3/1"}}`,
		`{"types":{"A":[{"name":"x","type":"uint8"},{"name":"x","type":"uint8"}]},"primaryType":"A","message":{"x":1}}`,
		`{"Types":{"A":[{"Name":"x","TYPE":"uint8"}]},"PRIMARYTYPE":"A","Message":{"x":1},"DOMAIN":{}}`,
		`{"typeſ":{"A":[{"name":"x","type":"uint8"}]},"primaryType":"A","meſſage":{"x":1}}`,
		`{"types":{"A":[{"name":"x","type":"uint8"}]},"types":{"B":[]},"primaryType":"A","message":{"x":1},"message":{"y":2}}`,
		`{"types":{"A":[{"name":"x","type":"uint8"}]},"types":null,"primaryType":"A","message":{"x":1}}`,
		`{"types":{"A":[{"name":"x","type":"uint8"}],"A":[]},"primaryType":"A","message":{"x":1,"x":2}}`,
		`{"types":{"A":[{"name":"x","type":"uint8"}]},"primaryType":"A","primaryType":null,"message":{"x":1}}`,
		`{"types":{"EIP712Domain":[{"name":"chainId","type":"uint256"}]},"primaryType":"EIP712Domain","domain":{"chainId":1}}`,
		`{"types":{"EIP712Domain":[{"name":"chainId","type":"uint256"}]},"primaryType":"EIP712Domain","domain":null}`,
		`{"types":{"EIP712Domain":[{"name":"chainId","type":"uint256"}]},"primaryType":"EIP712Domain"}`,
		`{"primaryType":"EIP712Domain"}`,
		`{"primaryType":"EIP712Domain","domain":{"chainId":1}}`,
		`{"types":{"A":[{"name":"d","type":"EIP712Domain"}]},"primaryType":"A","message":{"d":{}}}`,
	} {
		h.addDoc([]byte(d), "corpus")
	}
	// strings the lexer has to repair or unescape: invalid UTF-8, NUL, lone and paired surrogates, escaped keys
	for _, d := range [][]byte{
		[]byte("{\"types\":{\"A\":[{\"name\":\"x\",\"type\":\"string\"}]},\"primaryType\":\"A\",\"message\":{\"x\":\"a\xff\xfeb \\u0000 \\ud800 \\ud83d\\ude00\"}}"),
		[]byte("{\"types\":{\"A\":[{\"name\":\"x\xff\",\"type\":\"uint8\"}]},\"primaryType\":\"A\",\"message\":{\"x\xfe\":7}}"),
		[]byte("{\"\\u0074ypes\":{\"A\":[{\"n\\u0061me\":\"x\",\"type\":\"uint8\"}]},\"primaryType\":\"A\",\"mess\\u0061ge\":{\"\\u0078\":\"\\u0031\"}}"),
		[]byte("{\"types\":{\"A\":[{\"name\":\"x\",\"type\":\"uint8\"}]},\"primaryType\":\"A\",\"message\":{\"x\":\"\\u0030x1\"}}"),
	} {
		h.addDoc(d, "corpus/lexer")
	}
}

func (h *harness) bigDocs(r *cv.Rand, thorough bool) {
	// documents near the 64 KiB bound of the quantifier
	nl, nd := 20000, 5000
	if thorough {
		nl, nd = 60000, 20000
	}
	long := strings.Repeat("a", nl)
	h.addDoc([]byte(`{"types":{"A":[{"name":"x","type":"string"}]},"primaryType":"A","message":{"x":"`+long+`"}}`), "big/string")
	h.addDoc([]byte(`{"types":{"A":[{"name":"x","type":"uint256"}]},"primaryType":"A","message":{"x":"`+strings.Repeat("9", nd)+`"}}`), "big/digits")
	h.addDoc([]byte(`{"types":{"A":[{"name":"x","type":"uint256"}]},"primaryType":"A","message":{"x":`+strings.Repeat("9", nd)+`}}`), "big/digits")
	h.addDoc([]byte(`{"types":{"A":[{"name":"x","type":"uint256"}]},"primaryType":"A","message":{"x":0.`+strings.Repeat("0", 60000)+`}}`), "big/digits")
	h.addDoc([]byte(`{"types":{"A":[{"name":"x","type":"`+strings.Repeat("[]", 20000)+`"}]},"primaryType":"A","message":{"x":[]}}`), "big/type")
	deep := 300
	if thorough {
		deep = 1200
	}
	h.addDoc([]byte(`{"types":{"A":[{"name":"x","type":"uint8`+strings.Repeat("[]", deep)+`"}]},"primaryType":"A","message":{"x":`+strings.Repeat("[", deep)+strings.Repeat("]", deep)+`}}`), "big/nesting")
	// implementation only (the model's string handling is quadratic in the type name): 3000 levels, 60000 digits
	h.goOnly([]byte(`{"types":{"A":[{"name":"x","type":"uint8`+strings.Repeat("[]", 3000)+`"}]},"primaryType":"A","message":{"x":`+strings.Repeat("[", 3000)+strings.Repeat("]", 3000)+`}}`), "big/go-only")
	h.goOnly([]byte(`{"types":{"A":[{"name":"x","type":"uint256"}]},"primaryType":"A","message":{"x":`+strings.Repeat("9", 60000)+`}}`), "big/go-only")
	h.goOnly([]byte(`{"types":{"A":[{"name":"x","type":"uint256"}]},"primaryType":"A","message":{"x":"0x`+strings.Repeat("f", 60000)+`"}}`), "big/go-only")
	h.goOnly([]byte(`{"types":{"A":[{"name":"x","type":"uint256"}]},"primaryType":"A","message":{"x":1`+strings.Repeat("0", 60000)+`e-60000}}`), "big/go-only")
	h.addDoc([]byte(`{"types":{"A":[{"name":"x","type":"uint8`+strings.Repeat("[1]", 300)+`"}]},"primaryType":"A","message":{"x":`+strings.Repeat("[", 300)+"7"+strings.Repeat("]", 300)+`}}`), "big/nesting")
	h.addDoc([]byte(strings.Repeat("[", 20000)+strings.Repeat("]", 20000)), "big/nesting")
	h.addDoc([]byte(`{"message":`+strings.Repeat(`{"a":`, 9000)+"1"+strings.Repeat("}", 9000)+`}`), "big/nesting")
	// a long chain of struct types, each nested in the previous
	n := 25
	if thorough {
		n = 100
	}
	var ts, open strings.Builder
	for i := 0; i < n; i++ {
		if i > 0 {
			ts.WriteString(",")
		}
		next := "uint8"
		if i+1 < n {
			next = fmt.Sprintf("T%d", i+1)
		}
		fmt.Fprintf(&ts, `"T%d":[{"name":"n","type":"%s"}]`, i, next)
		if i+1 < n {
			open.WriteString(`{"n":`)
		}
	}
	h.addDoc([]byte(`{"types":{`+ts.String()+`},"primaryType":"T0","message":`+open.String()+`{"n":1}`+strings.Repeat("}", n-1)+`}`), "big/chain")
	// many members / many array elements
	k := 300
	if thorough {
		k = 1500
	}
	var ms, vs strings.Builder
	for i := 0; i < k; i++ {
		if i > 0 {
			ms.WriteString(",")
			vs.WriteString(",")
		}
		fmt.Fprintf(&ms, `{"name":"m%d","type":"uint16"}`, i)
		fmt.Fprintf(&vs, `"m%d":%d`, i, i)
	}
	h.addDoc([]byte(`{"types":{"A":[`+ms.String()+`]},"primaryType":"A","message":{`+vs.String()+`}}`), "big/members")
	var es strings.Builder
	for i := 0; i < k; i++ {
		if i > 0 {
			es.WriteString(",")
		}
		fmt.Fprintf(&es, "%d", i*i)
	}
	h.addDoc([]byte(`{"types":{"A":[{"name":"x","type":"uint32[]"}]},"primaryType":"A","message":{"x":[`+es.String()+`]}}`), "big/array")
	// raw bytes
	for i := 0; i < 6; i++ {
		h.addDoc(r.Bytes(65536), "raw/random")
	}
}

func (h *harness) rawDocs(r *cv.Rand, n int) {
	base := []byte(mailDoc().text())
	for i := 0; i < n; i++ {
		b := append([]byte{}, base...)
		switch r.Intn(5) {
		case 0: // truncate
			b = b[:r.Intn(len(b))]
		case 1: // flip a byte
			b[r.Intn(len(b))] = r.Byte()
		case 2: // delete a byte
			k := r.Intn(len(b))
			b = append(b[:k], b[k+1:]...)
		case 3: // insert a structural byte
			k := r.Intn(len(b))
			c := []byte(`{}[]",:0-enull\`)[r.Intn(15)]
			b = append(b[:k], append([]byte{c}, b[k:]...)...)
		default:
			b = r.Bytes(r.Intn(40))
		}
		h.addDoc(b, "raw/mutated-text")
	}
}

func main() {
	out := flag.String("out", "", "output directory")
	tier := flag.String("tier", "quick", "quick|thorough")
	replay := flag.String("replay", "", "replay file")
	flag.Parse()
	if *out == "" {
		fmt.Fprintln(os.Stderr, "need -out")
		os.Exit(2)
	}
	os.MkdirAll(*out, 0o755)
	logrus.SetOutput(io.Discard)
	header := "From Coq Require Import String List NArith ZArith Uint63.\nFrom FFS Require Import Base.Bytes Base.Lit Eip712.RunC14.\nImport ListNotations.\nOpen Scope string_scope. Open Scope N_scope."
	st := cv.NewStats()
	st.Rule = "distinct documents (by SHA-256 of the bytes) that the JSON lexer accepts and whose top level is a non-empty object, plus distinct numeric single-member documents"
	shards := 16
	if *replay != "" {
		shards = 1
	}
	h := &harness{w: cv.NewWriter(*out, "C14", header, "case", "mismatches", shards), st: st, seen: map[[32]byte]bool{}, current: filepath.Join(*out, "current_case.json")}

	if *replay != "" {
		raw, err := os.ReadFile(*replay)
		if err != nil {
			panic(err)
		}
		var rp struct {
			Case map[string]interface{} `json:"case"`
		}
		json.Unmarshal(raw, &rp)
		hx, _ := rp.Case["doc_hex"].(string)
		if hx == "" {
			fmt.Println("replay: the case carries no complete document (doc_hex); description:", rp.Case["doc"])
			os.Exit(0)
		}
		doc, _ := hex.DecodeString(hx)
		if k, _ := rp.Case["kind"].(string); k == "num" {
			// a numeric case: re-run it with its oracle (type, text, the integer the text denotes)
			var t intType
			tn, _ := rp.Case["type"].(string)
			t.signed = strings.HasPrefix(tn, "int")
			fmt.Sscanf(strings.TrimPrefix(strings.TrimPrefix(tn, "u"), "int"), "%d", &t.bits)
			text, _ := rp.Case["text"].(string)
			isNum, _ := rp.Case["is_json_number"].(bool)
			canon, _ := rp.Case["canonical"].(bool)
			var den *big.Int
			if ds, _ := rp.Case["denotes"].(string); ds != "" {
				den, _ = new(big.Int).SetString(ds, 10)
			}
			c, dig := h.addNum(t, isNum, text, den, canon, "replay")
			h.w.Flush()
			fmt.Println("document:", short(doc))
			fmt.Printf("implementation: class=%d digest=%x (text denotes %v, type %s)\n", c, dig, den, tn)
			st.Write(filepath.Join(*out, "stats_C14.json"))
			return
		}
		r := h.addDoc(doc, "replay")
		h.w.Flush()
		fmt.Println("document:", short(doc))
		fmt.Println("implementation:", implSummary(r))
		st.Write(filepath.Join(*out, "stats_C14.json"))
		return
	}

	thorough := *tier == "thorough"
	r := cv.NewRand(14)

	h.fixedCorpus()
	h.numerics(r, thorough)
	// round 3: searches on the implementation alone + directed families (own PRNG streams, so the
	// sequences above and below are what they were)
	h.numSweep(cv.NewRand(1401), thorough)
	h.shapes(cv.NewRand(1402), thorough)
	h.dimDocs()

	// every position of the two hand-written documents, every replacement
	h.addDoc([]byte(mailDoc().text()), "valid/mail")
	h.addDoc([]byte(kitchenDoc().text()), "valid/kitchen")
	ms, ks := 6, 30
	if thorough {
		ms, ks = 1, 3
	}
	h.mutateAll(mailDoc(), "mail", r, ms)
	h.mutateAll(kitchenDoc(), "kitchen", r, ks)

	// random type graphs, each mutated at sampled positions
	nRandom := 60
	if thorough {
		nRandom = 900
	}
	for i := 0; i < nRandom; i++ {
		d := randomDoc(r)
		h.addDoc([]byte(d.text()), "valid/random")
		var ss []slot
		slots(d, "", false, &ss)
		smp := 6 * (1 + len(ss)/3)
		h.mutateAll(d, "random", r, smp)
	}
	// arbitrary JSON
	nLoose := 200
	if thorough {
		nLoose = 3000
	}
	for i := 0; i < nLoose; i++ {
		h.addDoc([]byte(looseDoc(r).text()), "arbitrary/typed-data-shaped")
		if i%2 == 0 {
			h.addDoc([]byte(randomJSON(r, 4).text()), "arbitrary/json")
		}
	}
	h.rawDocs(r, nLoose/2)
	h.bigDocs(r, thorough)

	h.concurrent(8, 3)

	if err := h.w.Flush(); err != nil {
		panic(err)
	}
	os.Remove(h.current)
	if err := st.Write(filepath.Join(*out, "stats_C14.json")); err != nil {
		panic(err)
	}
	fmt.Printf("C14 harness: %d evaluations, %d cases, %d implementation oracle failures\n", st.Evaluations, h.w.Count(), len(st.ImplFailures))
}
