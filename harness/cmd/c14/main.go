// Harness for C14 (typed-data hashing is total on arbitrary documents and never misreads a number).
//
// Generates JSON documents (valid typed data, the same mutated at every position, arbitrary JSON, raw
// bytes) and single-member numeric documents (every integer type, boundary values, three canonical
// spellings plus exotic ones), runs
//
//	json.Unmarshal(doc, &eip712.TypedData{})  -> eip712.EncodeTypedDataV4
//	json.Unmarshal(doc, &(*eip712.TypedData)) -> ethsigner.SignTypedDataV4
//
// under recover(), and writes Coq case files evaluated by Eip712/RunC14.v, plus Go-side property
// oracles (no panic; spellings agree; inexact or out-of-range numbers rejected).
package main

import (
	"bytes"
	"context"
	"crypto/sha256"
	"encoding/hex"
	"encoding/json"
	"fmt"
	"io"
	"math/big"
	"os"
	"sort"
	"strings"

	"github.com/hyperledger/firefly-signer/pkg/eip712"
	"github.com/hyperledger/firefly-signer/pkg/ethsigner"
	"github.com/hyperledger/firefly-signer/pkg/secp256k1"
	"verifharness/cv"
)

// ---------------------------------------------------------------------------------------------
// JSON trees with ordered members (generator side) and their rendering
// ---------------------------------------------------------------------------------------------

const (
	kNull = iota
	kBool
	kNum
	kStr
	kArr
	kObj
)

type jnode struct {
	kind int
	b    bool
	s    string // number text or string value
	arr  []*jnode
	keys []string
	vals []*jnode
}

func jnull() *jnode          { return &jnode{kind: kNull} }
func jbool(b bool) *jnode    { return &jnode{kind: kBool, b: b} }
func jnum(t string) *jnode   { return &jnode{kind: kNum, s: t} }
func jstr(s string) *jnode   { return &jnode{kind: kStr, s: s} }
func jarr(l ...*jnode) *jnode { return &jnode{kind: kArr, arr: l} }
func jobj(kv ...interface{}) *jnode {
	n := &jnode{kind: kObj}
	for i := 0; i+1 < len(kv); i += 2 {
		n.keys = append(n.keys, kv[i].(string))
		n.vals = append(n.vals, kv[i+1].(*jnode))
	}
	return n
}
func (n *jnode) set(k string, v *jnode) *jnode {
	for i, kk := range n.keys {
		if kk == k {
			n.vals[i] = v
			return n
		}
	}
	n.keys = append(n.keys, k)
	n.vals = append(n.vals, v)
	return n
}
func (n *jnode) get(k string) *jnode {
	for i, kk := range n.keys {
		if kk == k {
			return n.vals[i]
		}
	}
	return nil
}
func (n *jnode) clone() *jnode {
	c := &jnode{kind: n.kind, b: n.b, s: n.s}
	for _, a := range n.arr {
		c.arr = append(c.arr, a.clone())
	}
	c.keys = append(c.keys, n.keys...)
	for _, v := range n.vals {
		c.vals = append(c.vals, v.clone())
	}
	return c
}

func quote(s string) string {
	var sb bytes.Buffer
	enc := json.NewEncoder(&sb)
	enc.SetEscapeHTML(false)
	enc.Encode(s)
	return strings.TrimRight(sb.String(), "\n")
}

func (n *jnode) render(sb *strings.Builder) {
	switch n.kind {
	case kNull:
		sb.WriteString("null")
	case kBool:
		if n.b {
			sb.WriteString("true")
		} else {
			sb.WriteString("false")
		}
	case kNum:
		sb.WriteString(n.s)
	case kStr:
		sb.WriteString(quote(n.s))
	case kArr:
		sb.WriteByte('[')
		for i, a := range n.arr {
			if i > 0 {
				sb.WriteByte(',')
			}
			a.render(sb)
		}
		sb.WriteByte(']')
	case kObj:
		sb.WriteByte('{')
		for i, k := range n.keys {
			if i > 0 {
				sb.WriteByte(',')
			}
			sb.WriteString(quote(k))
			sb.WriteByte(':')
			n.vals[i].render(sb)
		}
		sb.WriteByte('}')
	}
}
func (n *jnode) text() string {
	var sb strings.Builder
	n.render(&sb)
	return sb.String()
}

// parseTree runs the encoding/json lexer (Decoder tokens, UseNumber) over a document: this is the
// "lexer as oracle" that hands the Coq side its tree (duplicate keys and member order preserved).
func parseTree(doc []byte) (*jnode, bool) {
	if !json.Valid(doc) {
		return nil, false
	}
	dec := json.NewDecoder(bytes.NewReader(doc))
	dec.UseNumber()
	n, err := parseValue(dec)
	if err != nil {
		return nil, false
	}
	if _, err := dec.Token(); err != io.EOF {
		return nil, false
	}
	return n, true
}
func parseValue(dec *json.Decoder) (*jnode, error) {
	tok, err := dec.Token()
	if err != nil {
		return nil, err
	}
	return parseFrom(dec, tok)
}
func parseFrom(dec *json.Decoder, tok json.Token) (*jnode, error) {
	switch t := tok.(type) {
	case nil:
		return jnull(), nil
	case bool:
		return jbool(t), nil
	case json.Number:
		return jnum(string(t)), nil
	case string:
		return jstr(t), nil
	case json.Delim:
		switch t {
		case '[':
			n := &jnode{kind: kArr}
			for dec.More() {
				v, err := parseValue(dec)
				if err != nil {
					return nil, err
				}
				n.arr = append(n.arr, v)
			}
			if _, err := dec.Token(); err != nil {
				return nil, err
			}
			return n, nil
		case '{':
			n := &jnode{kind: kObj}
			for dec.More() {
				kt, err := dec.Token()
				if err != nil {
					return nil, err
				}
				k, ok := kt.(string)
				if !ok {
					return nil, fmt.Errorf("key")
				}
				v, err := parseValue(dec)
				if err != nil {
					return nil, err
				}
				n.keys = append(n.keys, k)
				n.vals = append(n.vals, v)
			}
			if _, err := dec.Token(); err != nil {
				return nil, err
			}
			return n, nil
		}
	}
	return nil, fmt.Errorf("token")
}

func (n *jnode) coq(sb *strings.Builder) {
	switch n.kind {
	case kNull:
		sb.WriteString("DNull")
	case kBool:
		if n.b {
			sb.WriteString("(DBool true)")
		} else {
			sb.WriteString("(DBool false)")
		}
	case kNum:
		sb.WriteString("(DNum " + cv.CoqBytes([]byte(n.s)) + ")")
	case kStr:
		sb.WriteString("(DStr " + cv.Compress([]byte(n.s)).Coq() + ")")
	case kArr:
		sb.WriteString("(DArr [")
		for i, a := range n.arr {
			if i > 0 {
				sb.WriteString("; ")
			}
			a.coq(sb)
		}
		sb.WriteString("])")
	case kObj:
		sb.WriteString("(DObj [")
		for i, k := range n.keys {
			if i > 0 {
				sb.WriteString("; ")
			}
			sb.WriteString("(" + cv.Compress([]byte(k)).Coq() + ", ")
			n.vals[i].coq(sb)
			sb.WriteString(")")
		}
		sb.WriteString("])")
	}
}

func (n *jnode) strings(out *[]string) {
	switch n.kind {
	case kStr:
		*out = append(*out, n.s)
	case kArr:
		for _, a := range n.arr {
			a.strings(out)
		}
	case kObj:
		for _, v := range n.vals {
			v.strings(out)
		}
	}
}

// ---------------------------------------------------------------------------------------------
// math/big oracle for numeric texts outside the grammars modelled in Eip712/Numeric.v
// (calls math/big directly, never firefly-signer)
// ---------------------------------------------------------------------------------------------

func isDigits(s string) bool {
	if s == "" {
		return false
	}
	for i := 0; i < len(s); i++ {
		if s[i] < '0' || s[i] > '9' {
			return false
		}
	}
	return true
}
func isHexDigits(s string) bool {
	if s == "" {
		return false
	}
	for i := 0; i < len(s); i++ {
		c := s[i]
		if !(c >= '0' && c <= '9' || c >= 'a' && c <= 'f' || c >= 'A' && c <= 'F') {
			return false
		}
	}
	return true
}

// modelled mirrors Numeric.classify <> COther.
func modelled(s string) bool {
	if s == "" {
		return false
	}
	if s[0] == '-' || s[0] == '+' {
		s = s[1:]
	}
	if len(s) >= 2 && s[0] == '0' && (s[1] == 'x' || s[1] == 'X') {
		return isHexDigits(s[2:])
	}
	i := 0
	for i < len(s) && s[i] >= '0' && s[i] <= '9' {
		i++
	}
	ip := s[:i]
	if ip == "" || (len(ip) > 1 && ip[0] == '0') {
		return false
	}
	r := s[i:]
	if r == "" {
		return true
	}
	if r[0] == '.' {
		j := 1
		for j < len(r) && r[j] >= '0' && r[j] <= '9' {
			j++
		}
		if j == 1 {
			return false
		}
		r = r[j:]
		if r == "" {
			return true
		}
	}
	if r[0] != 'e' && r[0] != 'E' {
		return false
	}
	r = r[1:]
	if r != "" && (r[0] == '+' || r[0] == '-') {
		r = r[1:]
	}
	return isDigits(r)
}

func bigOther(s string) (z *big.Int) {
	defer func() {
		if x := recover(); x != nil {
			z = nil
		}
	}()
	if i, ok := new(big.Int).SetString(s, 0); ok {
		return i
	}
	if _, _, err := big.ParseFloat(s, 10, 256, big.ToNearestEven); err != nil {
		return nil
	}
	r, ok := new(big.Rat).SetString(s)
	if !ok || !r.IsInt() {
		return nil
	}
	return new(big.Int).Set(r.Num())
}

func coqZ(z *big.Int) string {
	if z.Sign() < 0 {
		return "(" + z.String() + ")%Z"
	}
	return z.String() + "%Z"
}

func oracleTable(strs []string) string {
	seen := map[string]bool{}
	var parts []string
	for _, s := range strs {
		if seen[s] || modelled(s) || len(s) > 4096 {
			continue
		}
		seen[s] = true
		z := bigOther(s)
		if z == nil {
			continue // absent = None: the model treats a missing entry as "math/big refuses"
		}
		parts = append(parts, "("+cv.Compress([]byte(s)).Coq()+", "+coqZ(z)+")")
	}
	return "[" + strings.Join(parts, "; ") + "]"
}

// ---------------------------------------------------------------------------------------------
// running the implementation
// ---------------------------------------------------------------------------------------------

var signer = secp256k1.KeyPairFromBytes(bytes.Repeat([]byte{0x42}, 32))

type implResult struct {
	UCls  int    // Unmarshal into a value: 0 ok, 1 error, 2 panic
	Proj  []byte // canonical serialisation of the decoded value (before hashing mutates it)
	HCls  int    // EncodeTypedDataV4(&value)
	HDig  []byte
	PCls  int // Unmarshal into a *TypedData
	SCls  int // SignTypedDataV4(ctx, signer, ptr)
	SDig  []byte
	SigOK bool
	Msg   string
}

func n4(n int) []byte { return []byte{byte(n >> 24), byte(n >> 16), byte(n >> 8), byte(n)} }
func serBytes(b []byte) []byte {
	return append(n4(len(b)), b...)
}
func serGval(v interface{}) []byte {
	switch t := v.(type) {
	case nil:
		return []byte{0}
	case bool:
		if t {
			return []byte{1, 1}
		}
		return []byte{1, 0}
	case json.Number:
		return append([]byte{2}, serBytes([]byte(t))...)
	case string:
		return append([]byte{3}, serBytes([]byte(t))...)
	case []interface{}:
		out := append([]byte{4}, n4(len(t))...)
		for _, e := range t {
			out = append(out, serGval(e)...)
		}
		return out
	case map[string]interface{}:
		return append([]byte{5}, serMapBody(t)...)
	case float64:
		// not produced by a decoder that uses UseNumber; serialised distinctly so that a float64 shows up
		return append([]byte{6}, []byte(fmt.Sprintf("%v", t))...)
	default:
		return append([]byte{7}, []byte(fmt.Sprintf("%T", v))...)
	}
}
func serMapBody(m map[string]interface{}) []byte {
	keys := make([]string, 0, len(m))
	for k := range m {
		keys = append(keys, k)
	}
	sort.Strings(keys)
	out := n4(len(keys))
	for _, k := range keys {
		out = append(out, serBytes([]byte(k))...)
		out = append(out, serGval(m[k])...)
	}
	return out
}
func serTD(td *eip712.TypedData) []byte {
	var out []byte
	if td.Types == nil {
		out = append(out, 0)
	} else {
		keys := make([]string, 0, len(td.Types))
		for k := range td.Types {
			keys = append(keys, k)
		}
		sort.Strings(keys)
		out = append(out, 1)
		out = append(out, n4(len(keys))...)
		for _, k := range keys {
			out = append(out, serBytes([]byte(k))...)
			t := td.Types[k]
			if t == nil {
				out = append(out, 0)
				continue
			}
			out = append(out, 1)
			out = append(out, n4(len(t))...)
			for _, tm := range t {
				if tm == nil {
					out = append(out, 0)
				} else {
					out = append(out, 1)
					out = append(out, serBytes([]byte(tm.Name))...)
					out = append(out, serBytes([]byte(tm.Type))...)
				}
			}
		}
	}
	out = append(out, serBytes([]byte(td.PrimaryType))...)
	for _, m := range []map[string]interface{}{td.Domain, td.Message} {
		if m == nil {
			out = append(out, 0)
		} else {
			out = append(out, 1)
			out = append(out, serMapBody(m)...)
		}
	}
	return out
}

func cls(err error, panicked bool) int {
	if panicked {
		return 2
	}
	if err != nil {
		return 1
	}
	return 0
}

func runValue(doc []byte) (ucls int, proj []byte, hcls int, dig []byte, msg string) {
	var td eip712.TypedData
	func() {
		defer func() {
			if x := recover(); x != nil {
				ucls = 2
				msg = fmt.Sprintf("PANIC in json.Unmarshal: %v", x)
			}
		}()
		err := json.Unmarshal(doc, &td)
		ucls = cls(err, false)
		if err != nil {
			msg = "unmarshal: " + err.Error()
		}
	}()
	if ucls != 0 {
		return ucls, nil, 1, nil, msg
	}
	proj = serTD(&td)
	func() {
		defer func() {
			if x := recover(); x != nil {
				hcls = 2
				msg = fmt.Sprintf("PANIC in EncodeTypedDataV4: %v", x)
			}
		}()
		h, err := eip712.EncodeTypedDataV4(context.Background(), &td)
		hcls = cls(err, false)
		if err != nil {
			msg = "hash: " + err.Error()
		} else {
			dig = []byte(h)
		}
	}()
	return
}

func runPointer(doc []byte) (pcls int, scls int, dig []byte, sigOK bool, msg string) {
	var p *eip712.TypedData
	func() {
		defer func() {
			if x := recover(); x != nil {
				pcls = 2
				msg = fmt.Sprintf("PANIC in json.Unmarshal(*TypedData): %v", x)
			}
		}()
		err := json.Unmarshal(doc, &p)
		pcls = cls(err, false)
	}()
	if pcls != 0 {
		return pcls, 1, nil, false, msg
	}
	func() {
		defer func() {
			if x := recover(); x != nil {
				scls = 2
				msg = fmt.Sprintf("PANIC in SignTypedDataV4: %v", x)
			}
		}()
		r, err := ethsigner.SignTypedDataV4(context.Background(), signer, p)
		scls = cls(err, false)
		if err == nil {
			dig = []byte(r.Hash)
			// the signature must recover to the signer over the returned hash (library check)
			sd, derr := secp256k1.DecodeCompactRSV(context.Background(), r.SignatureRSV)
			if derr == nil {
				a, rerr := sd.RecoverDirect(dig, -1)
				sigOK = rerr == nil && a != nil && *a == signer.Address
			}
		}
	}()
	return
}

func runImpl(doc []byte) implResult {
	var r implResult
	r.UCls, r.Proj, r.HCls, r.HDig, r.Msg = runValue(doc)
	var m2 string
	r.PCls, r.SCls, r.SDig, r.SigOK, m2 = runPointer(doc)
	if r.Msg == "" || strings.HasPrefix(m2, "PANIC") {
		if m2 != "" {
			r.Msg = m2
		}
	}
	return r
}

// ---------------------------------------------------------------------------------------------
// case emission
// ---------------------------------------------------------------------------------------------

type docDesc struct {
	Kind string `json:"kind"`
	Gen  string `json:"generator"`
	Doc  string `json:"doc,omitempty"`
	Hex  string `json:"doc_hex,omitempty"`
	Len  int    `json:"len"`
	Impl string `json:"impl"`
	Key  string `json:"key,omitempty"`
	// numeric cases
	Type    string `json:"type,omitempty"`
	Text    string `json:"text,omitempty"`
	Denotes string `json:"denotes,omitempty"`
	IsNum   bool   `json:"is_json_number,omitempty"`
	Canon   bool   `json:"canonical,omitempty"`
}

type harness struct {
	w       *cv.Writer
	st      *cv.Stats
	seen    map[[32]byte]bool
	current string
	nsample int
	ncanon  int
	// round 3 (directed.go)
	cpool       []poolEntry
	nsweep      int
	nshapeModel int
	shapeCap    int
}

func (h *harness) noteCurrent(doc []byte) {
	// so that a fatal (unrecoverable) fault leaves the input behind for ./check
	if h.current != "" {
		d := doc
		if len(d) > 3000 {
			d = d[:3000]
		}
		os.WriteFile(h.current, []byte(fmt.Sprintf(`{"doc_hex_prefix":%q,"len":%d}`, hex.EncodeToString(d), len(doc))), 0o644)
	}
}

func short(doc []byte) string {
	if len(doc) > 600 {
		return string(doc[:600]) + fmt.Sprintf("...(%d bytes)", len(doc))
	}
	return string(doc)
}

func digCoq(b []byte) string { return cv.CoqBytes(b) }

func implSummary(r implResult) string {
	return fmt.Sprintf("unmarshal=%d hash=%d digest=%s ptr_unmarshal=%d sign=%d sign_hash=%s %s", r.UCls, r.HCls,
		hex.EncodeToString(r.HDig), r.PCls, r.SCls, hex.EncodeToString(r.SDig), r.Msg)
}

func (h *harness) fail(what, key string, doc []byte, gen string, r implResult) {
	if len(h.st.ImplFailures) > 40 {
		return
	}
	m := map[string]interface{}{"what": what, "generator": gen, "doc": short(doc), "len": len(doc), "impl": implSummary(r)}
	if key != "" {
		m["key"] = key
	}
	if len(doc) <= 8192 {
		m["doc_hex"] = hex.EncodeToString(doc)
	}
	h.st.ImplFailures = append(h.st.ImplFailures, m)
}

// goOnly runs a document through the implementation and the Go-side oracles without emitting a Coq case.
func (h *harness) goOnly(doc []byte, gen string) {
	h.noteCurrent(doc)
	r := runImpl(doc)
	h.st.Evaluations++
	h.st.Hit("gen:" + gen)
	if r.UCls == 2 || r.HCls == 2 || r.PCls == 2 || r.SCls == 2 {
		h.fail("hashing or signing a JSON document panicked", "", doc, gen, r)
	}
}

// addDoc runs one document through both decode paths and emits a CDoc case when the lexer accepts it.
func (h *harness) addDoc(doc []byte, gen string) implResult {
	h.noteCurrent(doc)
	r := runImpl(doc)
	st := h.st
	st.Evaluations++
	sum := sha256.Sum256(doc)
	first := !h.seen[sum]
	h.seen[sum] = true
	st.Hit("gen:" + gen)
	st.Hit(fmt.Sprintf("doc:unmarshal=%d,hash=%d", r.UCls, r.HCls))
	switch {
	case len(doc) < 256:
		st.Hit("size:<256")
	case len(doc) < 4096:
		st.Hit("size:256..4095")
	case len(doc) < 32768:
		st.Hit("size:4096..32767")
	default:
		st.Hit("size:>=32768")
	}
	// Go-side property oracles on the implementation alone
	if r.UCls == 2 || r.HCls == 2 || r.PCls == 2 || r.SCls == 2 {
		h.fail("hashing or signing a JSON document panicked", "", doc, gen, r)
	}
	if r.UCls == 0 {
		h.stateOracle(doc, gen, r.HCls, r.HDig, true)
		if len(h.seen)%9 == 0 {
			h.pool(doc, r.HCls, r.HDig)
		}
	}
	if r.SCls == 0 && !r.SigOK {
		h.fail("SignTypedDataV4 returned a signature that does not recover to the signer over the returned hash", "", doc, gen, r)
	}
	tree, ok := parseTree(doc)
	if !ok {
		st.Hit("doc:not-json")
		if r.UCls == 0 || r.PCls == 0 {
			h.fail("json.Unmarshal accepted a document the JSON lexer refuses", "", doc, gen, r)
		}
		return r
	}
	if first && tree.kind == kObj && len(tree.keys) > 0 {
		st.Distinct++
	}
	var strs []string
	tree.strings(&strs)
	var sb strings.Builder
	sb.WriteString("CDoc ")
	tree.coq(&sb)
	l, a, b := cv.Cks(r.Proj)
	fmt.Fprintf(&sb, " %s %d (%d, %d, %d) %d %s %d %d %s", oracleTable(numberTexts(tree, strs)), r.UCls, l, a, b, r.HCls, digCoq(r.HDig), r.PCls, r.SCls, digCoq(r.SDig))
	d := docDesc{Kind: "doc", Gen: gen, Doc: short(doc), Len: len(doc), Impl: implSummary(r)}
	if len(doc) <= 8192 {
		d.Hex = hex.EncodeToString(doc)
	}
	h.w.Add(sb.String(), d)
	if h.nsample < 12 && (h.nsample < 4 || r.HCls == 0) && len(doc) < 700 && first {
		h.nsample++
		st.Samples = append(st.Samples, map[string]interface{}{"doc": string(doc), "impl": implSummary(r)})
	}
	return r
}

// numberTexts: all string leaves plus all number literals (numbers are always inside the modelled
// grammar, strings may not be)
func numberTexts(tree *jnode, strs []string) []string { return strs }

// ---------------------------------------------------------------------------------------------
// numeric cases
// ---------------------------------------------------------------------------------------------

type intType struct {
	signed bool
	bits   int
}

func (t intType) name() string {
	if t.signed {
		return fmt.Sprintf("int%d", t.bits)
	}
	return fmt.Sprintf("uint%d", t.bits)
}
func (t intType) min() *big.Int {
	if !t.signed {
		return big.NewInt(0)
	}
	return new(big.Int).Neg(new(big.Int).Lsh(big.NewInt(1), uint(t.bits-1)))
}
func (t intType) max() *big.Int {
	if !t.signed {
		return new(big.Int).Sub(new(big.Int).Lsh(big.NewInt(1), uint(t.bits)), big.NewInt(1))
	}
	return new(big.Int).Sub(new(big.Int).Lsh(big.NewInt(1), uint(t.bits-1)), big.NewInt(1))
}
func (t intType) inRange(z *big.Int) bool { return z.Cmp(t.min()) >= 0 && z.Cmp(t.max()) <= 0 }

func numDoc(typeName string, valueJSON string) []byte {
	return []byte(`{"types":{"A":[{"name":"x","type":"` + typeName + `"}]},"primaryType":"A","domain":{},"message":{"x":` + valueJSON + `}}`)
}

func hexOf(z *big.Int, upper bool) string {
	s := new(big.Int).Abs(z).Text(16)
	if upper {
		s = strings.ToUpper(s)
	}
	if z.Sign() < 0 {
		return "-0x" + s
	}
	return "0x" + s
}

// addNum emits one numeric case: text is the literal (isNum) or the content of a JSON string;
// denotes is the integer the text denotes exactly (nil: not an integer / nothing), by construction of
// the generator (never by parsing); canonical marks the three spellings the property requires to agree.
func (h *harness) addNum(t intType, isNum bool, text string, denotes *big.Int, canonical bool, gen string) (int, []byte) {
	val := text
	if !isNum {
		val = quote(text)
	}
	doc := numDoc(t.name(), val)
	h.noteCurrent(doc)
	ucls, _, hcls, dig, msg := runValue(doc)
	st := h.st
	st.Evaluations++
	c := hcls
	if ucls != 0 {
		c = ucls
	}
	sum := sha256.Sum256(doc)
	if !h.seen[sum] {
		h.seen[sum] = true
		st.Distinct++
	}
	st.Hit("gen:num/" + gen)
	st.Hit(fmt.Sprintf("num:class=%d", c))
	inr := denotes != nil && t.inRange(denotes)
	r := implResult{UCls: ucls, HCls: hcls, HDig: dig, Msg: msg}
	switch {
	case c == 2:
		h.fail("hashing a numeric typed-data document panicked", "", doc, "num/"+gen, r)
	case c == 0 && !inr:
		h.fail("a numeric input that is not exactly an in-range integer of the member type was hashed instead of rejected", "", doc, "num/"+gen, r)
	case c != 0 && inr && canonical:
		h.fail("a canonical spelling of an in-range integer was rejected", "", doc, "num/"+gen, r)
	}
	den := "None"
	dens := ""
	if denotes != nil {
		den = "(Some " + coqZ(denotes) + ")"
		dens = denotes.String()
	}
	var strs []string
	if !isNum {
		strs = []string{text}
	}
	term := fmt.Sprintf("CNum %v %d %v %s %s %v %s %d %s", t.signed, t.bits, isNum, cv.CoqBytes([]byte(text)), den, canonical, oracleTable(strs), c, digCoq(dig))
	h.w.Add(term, docDesc{Kind: "num", Gen: gen, Doc: short(doc), Hex: hex.EncodeToString(doc), Len: len(doc), Type: t.name(), Text: text, Denotes: dens, IsNum: isNum, Canon: canonical,
		Impl: fmt.Sprintf("class=%d digest=%s %s", c, hex.EncodeToString(dig), msg)})
	_ = dens
	if h.nsample < 24 && gen == "canonical" && denotes != nil && denotes.BitLen() > 52 && h.nsample%2 == 0 {
		st.Samples = append(st.Samples, map[string]interface{}{"doc": string(doc), "impl": fmt.Sprintf("class=%d digest=%s", c, hex.EncodeToString(dig))})
	}
	if gen == "canonical" {
		h.nsample++
		h.ncanon++
		if h.ncanon%12 == 0 {
			// the same document through the full model as well
			h.addDoc(doc, "num-as-doc")
		}
	}
	return c, dig
}

func pow2(k int) *big.Int { return new(big.Int).Lsh(big.NewInt(1), uint(k)) }
func add(z *big.Int, d int64) *big.Int { return new(big.Int).Add(z, big.NewInt(d)) }
func neg(z *big.Int) *big.Int          { return new(big.Int).Neg(z) }

// numValue runs every spelling of z for type t, with the Go-side agreement oracle.
func (h *harness) numValue(t intType, z *big.Int, r *cv.Rand, exotic bool) {
	inr := t.inRange(z)
	if inr {
		h.st.Hit("num:in-range")
	} else {
		h.st.Hit("num:out-of-range")
	}
	dec := z.String()
	c1, d1 := h.addNum(t, true, dec, z, true, "canonical")
	c2, d2 := h.addNum(t, false, dec, z, true, "canonical")
	c3, d3 := h.addNum(t, false, hexOf(z, false), z, true, "canonical")
	if inr && (c1 != 0 || c2 != 0 || c3 != 0 || !bytes.Equal(d1, d2) || !bytes.Equal(d1, d3)) {
		h.fail("the three spellings (JSON number, decimal string, 0x-hex string) of an in-range integer do not give the same digest", "",
			numDoc(t.name(), dec), "num/canonical", implResult{HDig: d1, Msg: fmt.Sprintf("type=%s z=%s classes=%d,%d,%d digests=%x,%x,%x", t.name(), dec, c1, c2, c3, d1, d2, d3)})
	}
	if !exotic {
		return
	}
	// spellings that denote exactly z without being canonical: acceptance is not required, misreading is forbidden
	h.addNum(t, false, hexOf(z, true), z, false, "hex-upper")
	h.addNum(t, true, dec+".0", z, false, "dot-zero")
	h.addNum(t, false, dec+".000", z, false, "dot-zero")
	h.addNum(t, true, dec+"e0", z, false, "exp")
	h.addNum(t, false, dec+"E+0", z, false, "exp")
	h.addNum(t, true, dec+"0e-1", z, false, "exp")
	if z.Sign() >= 0 {
		h.addNum(t, false, "+"+dec, z, false, "plus")
	}
	// trailing zeros moved into an exponent
	if z.Sign() != 0 {
		s := strings.TrimRight(dec, "0")
		k := len(dec) - len(s)
		if k > 0 {
			h.addNum(t, true, fmt.Sprintf("%se%d", s, k), z, false, "exp")
			h.addNum(t, false, fmt.Sprintf("%sE+%d", s, k), z, false, "exp")
		}
		// d.ddd e(n-1) form: exact
		digits := strings.TrimPrefix(dec, "-")
		if len(digits) > 1 {
			sgn := ""
			if z.Sign() < 0 {
				sgn = "-"
			}
			h.addNum(t, true, fmt.Sprintf("%s%s.%se%d", sgn, digits[:1], digits[1:], len(digits)-1), z, false, "sci")
			h.addNum(t, false, fmt.Sprintf("%s%s.%se+%d", sgn, digits[:1], digits[1:], len(digits)-1), z, false, "sci")
		}
	}
	// not integers: must be rejected
	h.addNum(t, true, dec+".5", nil, false, "fraction")
	h.addNum(t, false, dec+".5", nil, false, "fraction")
	h.addNum(t, true, dec+"e-1"+"", fracDen(z), false, "exp-neg")
	h.addNum(t, true, dec+".00000000000000000000000000000000000000000000000000000000000000000000000000000000001", nil, false, "fraction-tiny")
	h.addNum(t, false, dec+".00000000000000000000000000000000000000000000000000000000000000000000000000000000001", nil, false, "fraction-tiny")
}

// fracDen: z/10 when that is an integer, else nil
func fracDen(z *big.Int) *big.Int {
	q, m := new(big.Int).QuoRem(z, big.NewInt(10), new(big.Int))
	if m.Sign() == 0 {
		return q
	}
	return nil
}

func (h *harness) numerics(r *cv.Rand, thorough bool) {
	var types []intType
	widths := []int{8, 16, 24, 32, 48, 56, 64, 72, 128, 160, 248, 256}
	if thorough {
		widths = nil
		for b := 8; b <= 256; b += 8 {
			widths = append(widths, b)
		}
	}
	for _, b := range widths {
		types = append(types, intType{false, b}, intType{true, b})
	}
	for ti, t := range types {
		var vals []*big.Int
		// type-range boundaries +-1 (both signs for signed), zero and the small values
		for _, base := range []*big.Int{t.min(), t.max(), big.NewInt(0)} {
			for d := int64(-1); d <= 1; d++ {
				vals = append(vals, add(base, d))
			}
		}
		// the other type's boundary (uint max for a signed type and vice versa)
		other := intType{!t.signed, t.bits}
		vals = append(vals, other.max(), add(other.max(), 1), other.min(), add(other.min(), -1))
		// float64 / int64 / uint64 boundaries
		for _, k := range []int{53, 63, 64} {
			for d := int64(-1); d <= 1; d++ {
				vals = append(vals, add(pow2(k), d), neg(add(pow2(k), d)))
			}
		}
		// whole-range extremes of the property's quantifier
		vals = append(vals, neg(pow2(255)), add(neg(pow2(255)), -1), add(pow2(256), -1), pow2(256))
		// random in range and just outside
		for i := 0; i < 3; i++ {
			z := new(big.Int).SetBytes(r.Bytes(1 + r.Intn(t.bits/8)))
			if t.signed && r.Bool() {
				z.Neg(z)
			}
			vals = append(vals, z)
		}
		vals = append(vals, new(big.Int).Mul(big.NewInt(int64(1+r.Intn(9))), new(big.Int).Exp(big.NewInt(10), big.NewInt(int64(r.Intn(78))), nil)))
		seenV := map[string]bool{}
		n := 0
		for _, z := range vals {
			if seenV[z.String()] {
				continue
			}
			seenV[z.String()] = true
			// exotic spellings for a rotating subset (all of them in the thorough tier)
			exotic := thorough || (n+ti)%8 == 0 || ((z.BitLen() == 54 || z.BitLen() == 64) && t.bits >= 56 && (n+ti)%2 == 0)
			h.numValue(t, z, r, exotic)
			n++
		}
		// texts with no integer denotation at all / extreme exponents
		for _, c := range []struct {
			num  bool
			text string
			den  *big.Int
		}{
			{true, "1e400", new(big.Int).Exp(big.NewInt(10), big.NewInt(400), nil)}, {true, "-1e400", neg(new(big.Int).Exp(big.NewInt(10), big.NewInt(400), nil))},
			{true, "1e-400", nil}, {true, "0e400", big.NewInt(0)}, {true, "0e-400", big.NewInt(0)}, {true, "0.000", big.NewInt(0)}, {true, "-0", big.NewInt(0)},
			{true, "-0.0e+5", big.NewInt(0)}, {true, "1e1000001", nil}, {true, "1e-1000001", nil}, {true, "1E99999999999999999999", nil},
			{false, "1e400", new(big.Int).Exp(big.NewInt(10), big.NewInt(400), nil)}, {false, "", nil}, {false, "0x", nil},
			{false, "one", nil}, {false, "Inf", nil}, {false, "NaN", nil}, {false, "1e", nil}, {false, "--1", nil},
		} {
			if ti%3 == 0 || thorough {
				h.addNum(t, c.num, c.text, c.den, false, "special")
			}
		}
	}
}
