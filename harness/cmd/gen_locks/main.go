// gen_locks — translator for property C17.
//
// Walks $REPO/pkg/fswallet/*.go (non-test) with go/parser + go/ast only (no type checking, receiver
// name based) and emits the synchronisation structure of the wallet as a Coq value for
// Conc/Lockset.v: per method (and per closure) the sequence of Lock / Unlock / defer Unlock,
// receiver-field Read / Write, go statements, channel operations and calls, with branches and loops
// kept.  It FAILS CLOSED (exit 1, nothing written) on any construct it cannot classify inside a
// function that has access to the wallet struct.
//
//	gen_locks -repo /repo -out coq/theories/Gen/FsWalletSync.v
package main

import (
	"bytes"
	"flag"
	"fmt"
	"go/ast"
	"go/parser"
	"go/printer"
	"go/token"
	"os"
	"path/filepath"
	"sort"
	"strings"
)

type instr struct {
	op   string   // Lock Unlock DeferUnlock DeferCall Read Write Go Chan Wait Call Ext If Loop Return
	arg  string   // mutex / callee / channel / description
	path []string // Read / Write
	chop string   // ChSend ChRecv ChClose ChSelect
	a, b []instr  // Go body / If branches / Loop body
}

type failure struct{ msg string }

func failf(pos token.Position, f string, a ...interface{}) {
	panic(failure{fmt.Sprintf("%s: cannot classify: %s", pos, fmt.Sprintf(f, a...))})
}

type gen struct {
	fset      *token.FileSet
	structNm  string
	fields    map[string]ast.Expr // field name -> type expr
	mutexes   map[string]bool
	methods   map[string]*ast.FuncDecl
	bodies    map[string][]instr
	order     []string
	inProg    map[string]bool
	closureNo int
}

// per-function translation context
type ctx struct {
	g      *gen
	fname  string
	recv   string              // receiver variable name
	funcs  map[string]*closure // local identifiers bound to function literals (params or locals)
	alias  map[string][]string // local identifiers aliasing a map-typed receiver field
	fparam map[string]bool     // func-typed parameters that are not bound
	brk    []string            // enclosing breakable constructs, innermost last: "loop" / "switch"
	items  map[string]string   // local identifiers bound to an object handed out by a library object in a field (name -> field)
}

type closure struct {
	lit *ast.FuncLit
	cx  *ctx // context in which the literal was written (its receiver name, its bindings)
}

func (g *gen) render(n ast.Node) string {
	var b bytes.Buffer
	_ = printer.Fprint(&b, g.fset, n)
	s := b.String()
	s = strings.Join(strings.Fields(s), " ")
	if len(s) > 60 {
		s = s[:60] + "..."
	}
	return strings.ReplaceAll(s, "\"", "'")
}

func (g *gen) pos(n ast.Node) token.Position {
	p := g.fset.Position(n.Pos())
	p.Filename = filepath.Base(p.Filename)
	return p
}

// chanName: channels stored in wallet fields are named w.<path> whatever the receiver is called
func (c *ctx) chanName(e ast.Expr) string {
	if p, ok := c.recvPath(e); ok && len(p) > 0 {
		return "w." + strings.Join(p, ".")
	}
	return c.g.render(e)
}

// recvPath: if e is a selector chain rooted at the receiver (w.a.b.c) return [a b c]
func (c *ctx) recvPath(e ast.Expr) ([]string, bool) {
	switch x := e.(type) {
	case *ast.Ident:
		if x.Name == c.recv && c.recv != "" {
			return []string{}, true
		}
		if p, ok := c.alias[x.Name]; ok {
			return append([]string{}, p...), true
		}
	case *ast.SelectorExpr:
		if p, ok := c.recvPath(x.X); ok {
			return append(p, x.Sel.Name), true
		}
	case *ast.ParenExpr:
		return c.recvPath(x.X)
	case *ast.StarExpr:
		// (*w).f
		if p, ok := c.recvPath(x.X); ok && len(p) == 0 {
			return p, true
		}
	}
	return nil, false
}

// ---------------------------------------------------------------------------------------------
// Library effect table.  A library object stored in a wallet field (w.signerCache) is memory too:
// what its methods read and write WITHOUT synchronising internally is given a pseudo-location
// rooted at "*<field>" (the object the field points to; never a prefix of a field path, so that the
// unlocked reads of the pointer itself do not conflict).  The lockset checker then needs a common
// mutex around conflicting calls exactly as for a field.  Entries are written from the library's
// source; a method that is not in the table of its type, and any method of a type that has no
// table, counts as a WRITE of the whole object (conservative: only acceptable when every other use
// of that object shares a mutex with it, or in the constructor).
type libEffect struct {
	op  string   // "Read" / "Write"
	sub []string // path below "*<field>"
}

type libType struct {
	methods map[string][]libEffect // effects of a method called on the object in the field
	handout map[string]bool        // methods that return an object owned by the library (an *Item)
	item    map[string][]libEffect // effects of the methods of such a handed-out object
}

var libTypes = map[string]*libType{
	// github.com/karlseguin/ccache v2: Cache.Get reads Item.expires with a plain load (cache.go:57),
	// Item.Extend stores it with atomic.StoreInt64 (item.go:102): a data race between them unless the
	// caller serialises (defect D17d).  Set / Delete go through the bucket's RWMutex and the worker
	// goroutine's channels and publish a fresh item: internally synchronised.  Item.Value reads a field
	// that is never written after construction; Expired / TTL / Expires use atomic loads.
	"*ccache.Cache": {
		methods: map[string][]libEffect{
			"Get":       {{"Read", []string{"item.expires"}}},
			"Set":       {},
			"Delete":    {},
			"ItemCount": {},
			"Stop":      {},
		},
		handout: map[string]bool{"Get": true},
		item: map[string][]libEffect{
			"Extend":  {{"Write", []string{"item.expires"}}},
			"Value":   {},
			"Expired": {},
			"TTL":     {},
			"Expires": {},
		},
	},
	// documented as safe for concurrent use by multiple goroutines
	"*regexp.Regexp":     {methods: nil},
	"*template.Template": {methods: nil},
	"context.CancelFunc": {methods: nil},
}

func (c *ctx) libEffects(field, method string) []instr {
	g := c.g
	root := "*" + field
	ft, ok := g.fields[field]
	if !ok {
		return []instr{{op: "Write", path: []string{root}}}
	}
	lt, ok := libTypes[g.renderFull(ft)]
	if !ok {
		return []instr{{op: "Write", path: []string{root}}}
	}
	if lt.methods == nil { // whole type internally synchronised
		return nil
	}
	effs, ok := lt.methods[method]
	if !ok {
		return []instr{{op: "Write", path: []string{root}}}
	}
	var out []instr
	for _, e := range effs {
		out = append(out, instr{op: e.op, path: append([]string{root}, e.sub...)})
	}
	return out
}

func (c *ctx) itemEffects(field, method string) []instr {
	g := c.g
	root := "*" + field
	unknown := []instr{{op: "Write", path: []string{root, "item"}}}
	ft, ok := g.fields[field]
	if !ok {
		return unknown
	}
	lt, ok := libTypes[g.renderFull(ft)]
	if !ok || lt.item == nil {
		return unknown
	}
	effs, ok := lt.item[method]
	if !ok {
		return unknown
	}
	var out []instr
	for _, e := range effs {
		out = append(out, instr{op: e.op, path: append([]string{root}, e.sub...)})
	}
	return out
}

// handoutField: e is a call w.<field>.<M>(...) whose result is an object owned by the library
func (c *ctx) handoutField(e ast.Expr) (string, bool) {
	if pe, ok := e.(*ast.ParenExpr); ok {
		return c.handoutField(pe.X)
	}
	call, ok := e.(*ast.CallExpr)
	if !ok {
		return "", false
	}
	se, ok := call.Fun.(*ast.SelectorExpr)
	if !ok {
		return "", false
	}
	p, ok := c.recvPath(se.X)
	if !ok || len(p) != 1 {
		return "", false
	}
	ft, ok := c.g.fields[p[0]]
	if !ok {
		return "", false
	}
	lt, ok := libTypes[c.g.renderFull(ft)]
	if !ok || lt.handout == nil || !lt.handout[se.Sel.Name] {
		return "", false
	}
	return p[0], true
}

// itemOf: e denotes an object handed out by the library object in a field: a local bound to it, or the call itself
func (c *ctx) itemOf(e ast.Expr) (string, bool) {
	switch x := e.(type) {
	case *ast.ParenExpr:
		return c.itemOf(x.X)
	case *ast.Ident:
		if f, ok := c.items[x.Name]; ok {
			return f, true
		}
	case *ast.CallExpr:
		return c.handoutField(x)
	}
	return "", false
}

// an item that leaves the function's view (argument of a call, returned): unknown effect on it
func (c *ctx) itemEscapes(e ast.Expr) []instr {
	if id, ok := e.(*ast.Ident); ok {
		if f, ok := c.items[id.Name]; ok {
			return []instr{{op: "Write", path: []string{"*" + f, "item"}}}
		}
	}
	return nil
}

func (g *gen) renderFull(n ast.Node) string {
	var b bytes.Buffer
	_ = printer.Fprint(&b, g.fset, n)
	return strings.Join(strings.Fields(b.String()), "")
}

func isFuncType(e ast.Expr) bool {
	_, ok := e.(*ast.FuncType)
	return ok
}

func isMapType(e ast.Expr) bool {
	_, ok := e.(*ast.MapType)
	return ok
}

// ---------------------------------------------------------------------------------------------
// expressions: emit the accesses / calls made while evaluating e (read context)

func (c *ctx) expr(e ast.Expr) []instr {
	if e == nil {
		return nil
	}
	g := c.g
	if p, ok := c.recvPath(e); ok {
		if len(p) == 0 {
			return nil // the receiver pointer itself
		}
		if g.mutexes[p[0]] {
			failf(g.pos(e), "mutex %s used as a value", strings.Join(p, "."))
		}
		if _, isField := g.fields[p[0]]; !isField {
			if _, isMeth := g.methods[p[0]]; isMeth {
				failf(g.pos(e), "method value %s", g.render(e))
			}
			failf(g.pos(e), "unknown member %s of the wallet struct", p[0])
		}
		return []instr{{op: "Read", path: p}}
	}
	switch x := e.(type) {
	case *ast.Ident, *ast.BasicLit:
		return nil
	case *ast.ParenExpr:
		return c.expr(x.X)
	case *ast.SelectorExpr:
		return c.expr(x.X)
	case *ast.StarExpr:
		return c.expr(x.X)
	case *ast.UnaryExpr:
		if x.Op == token.ARROW {
			out := c.expr(x.X)
			return append(out, instr{op: "Chan", chop: "ChRecv", arg: c.chanName(x.X)})
		}
		if x.Op == token.AND {
			if p, ok := c.recvPath(x.X); ok && len(p) > 0 {
				failf(g.pos(e), "address of wallet field %s taken", strings.Join(p, "."))
			}
			if cl, ok := x.X.(*ast.CompositeLit); ok {
				return c.composite(cl)
			}
		}
		return c.expr(x.X)
	case *ast.BinaryExpr:
		return append(c.expr(x.X), c.expr(x.Y)...)
	case *ast.IndexExpr:
		return append(c.expr(x.X), c.expr(x.Index)...)
	case *ast.SliceExpr:
		out := c.expr(x.X)
		out = append(out, c.expr(x.Low)...)
		out = append(out, c.expr(x.High)...)
		return append(out, c.expr(x.Max)...)
	case *ast.TypeAssertExpr:
		return c.expr(x.X)
	case *ast.KeyValueExpr:
		return append(c.expr(x.Key), c.expr(x.Value)...)
	case *ast.CompositeLit:
		return c.composite(x)
	case *ast.CallExpr:
		return c.call(x, "")
	case *ast.FuncLit:
		// a closure used as a value in an unknown way: only harmless if it does not touch the wallet
		body := c.closureBody(&closure{lit: x, cx: c})
		if touches(body) {
			failf(g.pos(e), "function literal touching wallet state escapes")
		}
		return nil
	case *ast.ArrayType, *ast.MapType, *ast.ChanType, *ast.FuncType, *ast.InterfaceType, *ast.StructType, *ast.Ellipsis:
		return nil
	}
	failf(g.pos(e), "expression %T %s", e, g.render(e))
	return nil
}

func (c *ctx) composite(cl *ast.CompositeLit) []instr {
	var out []instr
	isWallet := false
	if id, ok := cl.Type.(*ast.Ident); ok && id.Name == c.g.structNm {
		isWallet = true
	}
	for _, el := range cl.Elts {
		if kv, ok := el.(*ast.KeyValueExpr); ok {
			out = append(out, c.expr(kv.Value)...)
			if isWallet {
				if k, ok := kv.Key.(*ast.Ident); ok {
					out = append(out, instr{op: "Write", path: []string{k.Name}})
				}
			} else {
				if _, isId := kv.Key.(*ast.Ident); !isId {
					out = append(out, c.expr(kv.Key)...)
				}
			}
		} else {
			if isWallet {
				failf(c.g.pos(cl), "positional composite literal of the wallet struct")
			}
			out = append(out, c.expr(el)...)
		}
	}
	return out
}

func touches(body []instr) bool {
	for _, i := range body {
		switch i.op {
		case "Read", "Write", "Lock", "Unlock", "DeferUnlock", "Call", "DeferCall":
			return true
		}
		if touches(i.a) || touches(i.b) {
			return true
		}
	}
	return false
}

var builtins = map[string]bool{"len": true, "cap": true, "make": true, "new": true, "append": true, "copy": true,
	"delete": true, "panic": true, "print": true, "println": true, "min": true, "max": true, "clear": true,
	"string": true, "byte": true, "int": true, "int64": true, "uint64": true, "error": true, "recover": true}

// call translates a call expression; mode "" = plain, "go", "defer"
func (c *ctx) call(x *ast.CallExpr, mode string) []instr {
	g := c.g
	var out []instr
	// arguments (function literals are handled per callee below)
	evalArgs := func() {
		for _, a := range x.Args {
			if _, ok := a.(*ast.FuncLit); ok {
				continue
			}
			if id, ok := a.(*ast.Ident); ok {
				if _, bound := c.funcs[id.Name]; bound {
					continue
				}
			}
			out = append(out, c.expr(a)...)
			out = append(out, c.itemEscapes(a)...)
		}
	}
	closureArgs := func() []*closure {
		var cs []*closure
		for _, a := range x.Args {
			if fl, ok := a.(*ast.FuncLit); ok {
				cs = append(cs, &closure{lit: fl, cx: c})
			} else if id, ok := a.(*ast.Ident); ok && c.funcs[id.Name] != nil {
				cs = append(cs, c.funcs[id.Name])
			}
		}
		return cs
	}
	failEscaping := func(what string) {
		for _, cl := range closureArgs() {
			if touches(cl.cx.closureBody(cl)) {
				failf(g.pos(x), "closure touching wallet state passed to %s", what)
			}
		}
	}
	wrap := func(name string) []instr {
		switch mode {
		case "go":
			return append(out, instr{op: "Go", a: []instr{{op: "Call", arg: name}}})
		case "defer":
			return append(out, instr{op: "DeferCall", arg: name})
		}
		return append(out, instr{op: "Call", arg: name})
	}

	fun := x.Fun
	if pe, ok := fun.(*ast.ParenExpr); ok {
		fun = pe.X
	}
	switch f := fun.(type) {
	case *ast.FuncLit:
		evalArgs()
		cl := &closure{lit: f, cx: c}
		switch mode {
		case "go":
			return append(out, instr{op: "Go", a: c.closureBody(cl)})
		case "defer":
			// defer func() { w.mux.Unlock() }()  is the same as  defer w.mux.Unlock()
			if body := c.closureBody(cl); len(body) > 0 {
				only := true
				for _, i := range body {
					if i.op != "Unlock" && i.op != "Ext" {
						only = false
					}
				}
				if only {
					for k := len(body) - 1; k >= 0; k-- {
						if body[k].op == "Unlock" {
							out = append(out, instr{op: "DeferUnlock", arg: body[k].arg})
						}
					}
					return out
				}
			}
			name := c.emitClosure(cl, "defer")
			return append(out, instr{op: "DeferCall", arg: name})
		}
		name := c.emitClosure(cl, "lit")
		return append(out, instr{op: "Call", arg: name})
	case *ast.Ident:
		if cl, ok := c.funcs[f.Name]; ok { // call of a bound closure (parameter or local)
			evalArgs()
			name := cl.cx.emitClosure(cl, f.Name)
			return wrap(name)
		}
		if c.fparam[f.Name] {
			failf(g.pos(x), "call of function-typed parameter %s whose argument is not a literal at a unique call site", f.Name)
		}
		if f.Name == "close" && len(x.Args) == 1 {
			out = append(out, c.expr(x.Args[0])...)
			return append(out, instr{op: "Chan", chop: "ChClose", arg: c.chanName(x.Args[0])})
		}
		if (f.Name == "delete" || f.Name == "copy" || f.Name == "clear") && len(x.Args) >= 1 {
			if p, ok := c.recvPath(x.Args[0]); ok && len(p) > 0 {
				for _, a := range x.Args[1:] {
					out = append(out, c.expr(a)...)
				}
				return append(out, instr{op: "Write", path: p})
			}
		}
		evalArgs()
		failEscaping(f.Name)
		if builtins[f.Name] {
			return out
		}
		if mode == "go" {
			// go plainFunction(...): a goroutine that cannot reach the wallet except through its arguments
			for _, a := range x.Args {
				if p, ok := c.recvPath(a); ok {
					failf(g.pos(x), "wallet (field %v) handed to goroutine %s", p, f.Name)
				}
			}
			return append(out, instr{op: "Go", a: []instr{{op: "Ext", arg: f.Name}}})
		}
		for _, a := range x.Args {
			if p, ok := c.recvPath(a); ok && len(p) == 0 {
				failf(g.pos(x), "wallet pointer passed to function %s", f.Name)
			}
		}
		if mode == "defer" {
			return out
		}
		return append(out, instr{op: "Ext", arg: f.Name})
	case *ast.SelectorExpr:
		if p, ok := c.recvPath(f.X); ok {
			sel := f.Sel.Name
			if len(p) == 0 {
				// w.method(...) or w.funcField(...)
				if md, isMeth := g.methods[sel]; isMeth {
					evalArgs()
					name := c.callee(md, x)
					return wrap(name)
				}
				if ft, isField := g.fields[sel]; isField {
					evalArgs()
					failEscaping("w." + sel)
					out = append(out, instr{op: "Read", path: []string{sel}})
					_ = ft
					if mode == "go" {
						return append(out, instr{op: "Go", a: []instr{{op: "Ext", arg: "w." + sel}}})
					}
					return append(out, instr{op: "Ext", arg: "w." + sel})
				}
				failf(g.pos(x), "call of unknown member %s", sel)
			}
			if len(p) == 1 && g.mutexes[p[0]] {
				if len(x.Args) != 0 {
					failf(g.pos(x), "mutex call with arguments")
				}
				switch sel {
				case "Lock":
					if mode != "" {
						failf(g.pos(x), "%s of Lock", mode)
					}
					return []instr{{op: "Lock", arg: p[0]}}
				case "Unlock":
					if mode == "defer" {
						return []instr{{op: "DeferUnlock", arg: p[0]}}
					}
					if mode == "go" {
						failf(g.pos(x), "go Unlock")
					}
					return []instr{{op: "Unlock", arg: p[0]}}
				}
				failf(g.pos(x), "mutex operation %s.%s (only Lock/Unlock are modelled)", p[0], sel)
			}
			if g.mutexes[p[0]] {
				failf(g.pos(x), "mutex path %v", p)
			}
			// method of a library object stored in a field: w.signerCache.Get(..)
			evalArgs()
			failEscaping(strings.Join(p, ".") + "." + sel)
			out = append(out, instr{op: "Read", path: p})
			if len(p) == 1 {
				out = append(out, c.libEffects(p[0], sel)...)
			} else {
				out = append(out, instr{op: "Write", path: []string{"*" + strings.Join(p, ".")}})
			}
			name := "w." + strings.Join(p, ".") + "." + sel
			if sel == "Wait" {
				return append(out, instr{op: "Wait", arg: name})
			}
			if mode == "go" {
				return append(out, instr{op: "Go", a: []instr{{op: "Ext", arg: name}}})
			}
			return append(out, instr{op: "Ext", arg: name})
		}
		// pkg.Func(...) or local.Method(...)
		out = append(out, c.expr(f.X)...)
		evalArgs()
		if fld, ok := c.itemOf(f.X); ok {
			// method of an object handed out by a library object in a field: cached.Extend(..)
			out = append(out, c.itemEffects(fld, f.Sel.Name)...)
		}
		name := g.render(f)
		failEscaping(name)
		for _, a := range x.Args {
			if p, ok := c.recvPath(a); ok && len(p) == 0 {
				failf(g.pos(x), "wallet pointer passed to %s", name)
			}
		}
		if f.Sel.Name == "Wait" || name == "time.Sleep" {
			return append(out, instr{op: "Wait", arg: name})
		}
		if f.Sel.Name == "Lock" || f.Sel.Name == "RLock" || f.Sel.Name == "Unlock" || f.Sel.Name == "RUnlock" || f.Sel.Name == "TryLock" {
			// a lock that is not a mutex field of the wallet: not modelled as protection
			if mode == "defer" {
				return out
			}
			return append(out, instr{op: "Ext", arg: name})
		}
		if mode == "go" {
			return append(out, instr{op: "Go", a: []instr{{op: "Ext", arg: name}}})
		}
		if mode == "defer" {
			return out
		}
		return append(out, instr{op: "Ext", arg: name})
	case *ast.ArrayType, *ast.MapType, *ast.ChanType, *ast.InterfaceType, *ast.StarExpr, *ast.IndexExpr:
		// conversion / generic instantiation
		evalArgs()
		return out
	case *ast.CallExpr:
		out = append(out, c.call(f, "")...)
		evalArgs()
		return append(out, instr{op: "Ext", arg: g.render(f)})
	}
	failf(g.pos(x), "call %s", g.render(x))
	return nil
}

// callee: make sure a body for method md exists (specialised when closures are passed) and return its name
func (c *ctx) callee(md *ast.FuncDecl, call *ast.CallExpr) string {
	g := c.g
	name := md.Name.Name
	// function-typed parameters
	type fp struct {
		name string
		idx  int
	}
	var fps []fp
	idx := 0
	if md.Type.Params != nil {
		for _, fld := range md.Type.Params.List {
			n := len(fld.Names)
			if n == 0 {
				n = 1
			}
			for k := 0; k < n; k++ {
				if isFuncType(fld.Type) && len(fld.Names) > 0 {
					fps = append(fps, fp{fld.Names[k].Name, idx})
				}
				idx++
			}
		}
	}
	bind := map[string]*closure{}
	for _, p := range fps {
		if call == nil || p.idx >= len(call.Args) {
			continue
		}
		switch a := call.Args[p.idx].(type) {
		case *ast.FuncLit:
			bind[p.name] = &closure{lit: a, cx: c}
		case *ast.Ident:
			if cl, ok := c.funcs[a.Name]; ok {
				bind[p.name] = cl
			}
		}
	}
	if len(bind) > 0 {
		g.closureNo++
		name = fmt.Sprintf("%s$%d", md.Name.Name, g.closureNo)
	}
	if g.inProg[name] {
		return name
	}
	g.inProg[name] = true
	g.order = append(g.order, name)
	cx := &ctx{g: g, fname: name, funcs: bind, alias: map[string][]string{}, fparam: map[string]bool{}}
	if md.Recv != nil && len(md.Recv.List) == 1 && len(md.Recv.List[0].Names) == 1 {
		cx.recv = md.Recv.List[0].Names[0].Name
	}
	for _, p := range fps {
		if bind[p.name] == nil {
			cx.fparam[p.name] = true
		}
	}
	g.bodies[name] = stripFinalReturn(cx.block(md.Body.List))
	return name
}

func stripFinalReturn(b []instr) []instr {
	if n := len(b); n > 0 && b[n-1].op == "Return" {
		return b[:n-1]
	}
	return b
}

func (c *ctx) closureBody(cl *closure) []instr {
	if cl.lit.Type.Params != nil && len(cl.lit.Type.Params.List) > 0 {
		for _, f := range cl.lit.Type.Params.List {
			if isFuncType(f.Type) {
				failf(c.g.pos(cl.lit), "closure with function-typed parameter")
			}
		}
	}
	saved := cl.cx.brk
	cl.cx.brk = nil
	defer func() { cl.cx.brk = saved }()
	return stripFinalReturn(cl.cx.block(cl.lit.Body.List))
}

func (c *ctx) emitClosure(cl *closure, hint string) string {
	g := c.g
	g.closureNo++
	name := fmt.Sprintf("%s$%s%d", c.fname, hint, g.closureNo)
	g.inProg[name] = true
	g.order = append(g.order, name)
	g.bodies[name] = c.closureBody(cl)
	return name
}

// ---------------------------------------------------------------------------------------------
// statements

func (c *ctx) block(stmts []ast.Stmt) []instr {
	var out []instr
	for i, s := range stmts {
		is := c.stmt(s)
		if hasSkip(is) {
			// a path through this statement ends in continue / break: the statements that follow
			// belong to the other paths only
			rest := c.block(stmts[i+1:])
			return append(out, absorb(is, rest)...)
		}
		out = append(out, is...)
	}
	return out
}

// continue / break (of the innermost for loop) are translated as "skip to the end of the loop
// body": exact for continue; for break an over-approximation (the loop may also go on), which is
// sound for the lockset analysis.  A Skip marker ends its path; absorb pushes the code that follows
// an if-statement into the branches that do not skip.
func hasSkip(is []instr) bool {
	for _, i := range is {
		if i.op == "Skip" {
			return true
		}
		if i.op == "If" && (hasSkip(i.a) || hasSkip(i.b)) {
			return true
		}
	}
	return false
}

func absorb(is []instr, k []instr) []instr {
	for n, i := range is {
		if i.op == "Skip" {
			return append(append([]instr{}, is[:n]...), i)
		}
		if i.op == "If" && (hasSkip(i.a) || hasSkip(i.b)) {
			tail := append(append([]instr{}, is[n+1:]...), k...)
			out := append([]instr{}, is[:n]...)
			return append(out, instr{op: "If", a: absorb(i.a, tail), b: absorb(i.b, tail)})
		}
	}
	return append(append([]instr{}, is...), k...)
}

func stripSkips(is []instr) []instr {
	var out []instr
	for _, i := range is {
		switch i.op {
		case "Skip":
			continue
		case "If":
			i.a, i.b = stripSkips(i.a), stripSkips(i.b)
		}
		out = append(out, i)
	}
	return out
}

func (c *ctx) loopBody(stmts []ast.Stmt) []instr {
	c.brk = append(c.brk, "loop")
	defer func() { c.brk = c.brk[:len(c.brk)-1] }()
	return stripSkips(c.block(stmts))
}

func (c *ctx) inSwitch(f func() []instr) []instr {
	c.brk = append(c.brk, "switch")
	defer func() { c.brk = c.brk[:len(c.brk)-1] }()
	return f()
}

func (c *ctx) lhs(e ast.Expr) []instr {
	g := c.g
	switch x := e.(type) {
	case *ast.Ident:
		if p, ok := c.alias[x.Name]; ok {
			_ = p
			delete(c.alias, x.Name) // re-assigned
		}
		delete(c.items, x.Name)
		return nil
	case *ast.IndexExpr:
		if p, ok := c.recvPath(x.X); ok && len(p) > 0 {
			return append(c.expr(x.Index), instr{op: "Write", path: p})
		}
		return append(c.expr(x.X), c.expr(x.Index)...)
	case *ast.StarExpr:
		return c.expr(x.X)
	case *ast.ParenExpr:
		return c.lhs(x.X)
	}
	if p, ok := c.recvPath(e); ok {
		if len(p) == 0 {
			failf(g.pos(e), "assignment to the receiver")
		}
		if g.mutexes[p[0]] {
			failf(g.pos(e), "assignment to mutex")
		}
		return []instr{{op: "Write", path: p}}
	}
	if se, ok := e.(*ast.SelectorExpr); ok {
		return c.expr(se.X)
	}
	failf(g.pos(e), "assignment target %s", g.render(e))
	return nil
}

func (c *ctx) stmt(s ast.Stmt) []instr {
	g := c.g
	switch x := s.(type) {
	case nil:
		return nil
	case *ast.EmptyStmt:
		return nil
	case *ast.ExprStmt:
		return c.expr(x.X)
	case *ast.DeclStmt:
		var out []instr
		if gd, ok := x.Decl.(*ast.GenDecl); ok {
			for _, sp := range gd.Specs {
				if vs, ok := sp.(*ast.ValueSpec); ok {
					for _, v := range vs.Values {
						out = append(out, c.expr(v)...)
					}
				}
			}
		}
		return out
	case *ast.AssignStmt:
		var out []instr
		// closures bound to local names
		if len(x.Lhs) == 1 && len(x.Rhs) == 1 {
			if id, ok := x.Lhs[0].(*ast.Ident); ok {
				if fl, ok := x.Rhs[0].(*ast.FuncLit); ok {
					c.funcs[id.Name] = &closure{lit: fl, cx: c}
					return nil
				}
				// the wallet being constructed:  w := &fsWallet{...}
				if c.recv == "" {
					if isWalletLit(x.Rhs[0], g.structNm) {
						out = append(out, c.expr(x.Rhs[0])...)
						c.recv = id.Name
						return out
					}
				}
				// alias of a map-typed field
				if p, ok := c.recvPath(x.Rhs[0]); ok && len(p) == 1 {
					if ft, ok := g.fields[p[0]]; ok && isMapType(ft) {
						out = append(out, instr{op: "Read", path: p})
						c.alias[id.Name] = p
						return out
					}
				}
			}
		}
		for _, r := range x.Rhs {
			out = append(out, c.expr(r)...)
			if len(x.Rhs) != 1 || len(x.Lhs) < 1 {
				out = append(out, c.itemEscapes(r)...)
			}
		}
		// a local bound to an object handed out by a library object in a field:  cached := w.signerCache.Get(k)
		bindName, bindField := "", ""
		if len(x.Rhs) == 1 && len(x.Lhs) >= 1 {
			if fld, ok := c.itemOf(x.Rhs[0]); ok {
				if id, isId := x.Lhs[0].(*ast.Ident); isId {
					bindName, bindField = id.Name, fld
				} else {
					out = append(out, instr{op: "Write", path: []string{"*" + fld, "item"}}) // stored somewhere else
				}
			}
		}
		defer func() {
			if bindName != "" && bindName != "_" {
				if c.items == nil {
					c.items = map[string]string{}
				}
				c.items[bindName] = bindField
			}
		}()
		if x.Tok != token.ASSIGN && x.Tok != token.DEFINE { // += etc: read then write
			for _, l := range x.Lhs {
				out = append(out, c.expr(l)...)
			}
		}
		for _, l := range x.Lhs {
			out = append(out, c.lhs(l)...)
		}
		return out
	case *ast.IncDecStmt:
		return append(c.expr(x.X), c.lhs(x.X)...)
	case *ast.SendStmt:
		out := append(c.expr(x.Chan), c.expr(x.Value)...)
		return append(out, instr{op: "Chan", chop: "ChSend", arg: c.chanName(x.Chan)})
	case *ast.GoStmt:
		return c.call(x.Call, "go")
	case *ast.DeferStmt:
		return c.call(x.Call, "defer")
	case *ast.ReturnStmt:
		var out []instr
		for _, r := range x.Results {
			out = append(out, c.expr(r)...)
			out = append(out, c.itemEscapes(r)...)
		}
		return append(out, instr{op: "Return"})
	case *ast.BlockStmt:
		return c.block(x.List)
	case *ast.IfStmt:
		out := c.stmt(x.Init)
		out = append(out, c.expr(x.Cond)...)
		var els []instr
		if x.Else != nil {
			els = c.stmt(x.Else)
		}
		return append(out, instr{op: "If", a: c.block(x.Body.List), b: els})
	case *ast.ForStmt:
		out := c.stmt(x.Init)
		body := c.expr(x.Cond)
		body = append(body, c.loopBody(x.Body.List)...)
		body = append(body, c.stmt(x.Post)...)
		out = append(out, instr{op: "Loop", a: body})
		return append(out, c.expr(x.Cond)...)
	case *ast.RangeStmt:
		out := c.expr(x.X)
		if _, isChan := x.X.(*ast.UnaryExpr); isChan {
			failf(g.pos(s), "range over a received value")
		}
		var body []instr
		if x.Tok == token.ASSIGN {
			if x.Key != nil {
				body = append(body, c.lhs(x.Key)...)
			}
			if x.Value != nil {
				body = append(body, c.lhs(x.Value)...)
			}
		}
		body = append(body, c.loopBody(x.Body.List)...)
		return append(out, instr{op: "Loop", a: body})
	case *ast.SwitchStmt:
		out := c.stmt(x.Init)
		out = append(out, c.expr(x.Tag)...)
		return append(out, c.inSwitch(func() []instr { return c.cases(x.Body.List) })...)
	case *ast.TypeSwitchStmt:
		out := c.stmt(x.Init)
		out = append(out, c.stmt(x.Assign)...)
		return append(out, c.inSwitch(func() []instr { return c.cases(x.Body.List) })...)
	case *ast.SelectStmt:
		var out []instr
		var bodies [][]instr
		for _, cc := range x.Body.List {
			cl := cc.(*ast.CommClause)
			var pre []instr
			switch cm := cl.Comm.(type) {
			case nil:
			case *ast.SendStmt:
				pre = append(c.expr(cm.Chan), c.expr(cm.Value)...)
			case *ast.ExprStmt:
				pre = c.commRecv(cm.X)
			case *ast.AssignStmt:
				if len(cm.Rhs) == 1 {
					pre = c.commRecv(cm.Rhs[0])
				}
				for _, l := range cm.Lhs {
					pre = append(pre, c.lhs(l)...)
				}
			}
			out = append(out, pre...)
			bodies = append(bodies, c.inSwitch(func() []instr { return c.block(cl.Body) }))
		}
		out = append(out, instr{op: "Chan", chop: "ChSelect", arg: "select"})
		return append(out, choice(bodies)...)
	case *ast.BranchStmt:
		if (x.Tok == token.CONTINUE || x.Tok == token.BREAK) && x.Label == nil && len(c.brk) > 0 && c.brk[len(c.brk)-1] == "loop" {
			return []instr{{op: "Skip"}}
		}
		// an unlabelled continue inside a switch / select still belongs to the innermost enclosing for
		// loop of this function: skip to the end of that loop's body (the Skip marker travels up through
		// the If structure the switch / select is translated to)
		if x.Tok == token.CONTINUE && x.Label == nil {
			for _, b := range c.brk {
				if b == "loop" {
					return []instr{{op: "Skip"}}
				}
			}
		}
		failf(g.pos(s), "%s statement (only unlabelled continue inside a for loop, and unlabelled break directly inside a for loop, are modelled)", x.Tok)
	case *ast.LabeledStmt:
		failf(g.pos(s), "labelled statement")
	}
	failf(g.pos(s), "statement %T", s)
	return nil
}

// the channel expression of a receive in a select case (the receive itself is part of the select)
func (c *ctx) commRecv(e ast.Expr) []instr {
	if u, ok := e.(*ast.UnaryExpr); ok && u.Op == token.ARROW {
		return c.expr(u.X)
	}
	return c.expr(e)
}

func (c *ctx) cases(list []ast.Stmt) []instr {
	var out []instr
	var bodies [][]instr
	hasDefault := false
	for _, s := range list {
		cc := s.(*ast.CaseClause)
		if cc.List == nil {
			hasDefault = true
		}
		for _, e := range cc.List {
			out = append(out, c.expr(e)...)
		}
		bodies = append(bodies, c.block(cc.Body))
	}
	if !hasDefault {
		bodies = append(bodies, nil)
	}
	return append(out, choice(bodies)...)
}

func choice(bodies [][]instr) []instr {
	switch len(bodies) {
	case 0:
		return nil
	case 1:
		return []instr{{op: "If", a: bodies[0], b: nil}}
	case 2:
		return []instr{{op: "If", a: bodies[0], b: bodies[1]}}
	}
	return []instr{{op: "If", a: bodies[0], b: choice(bodies[1:])}}
}

func isWalletLit(e ast.Expr, nm string) bool {
	if u, ok := e.(*ast.UnaryExpr); ok && u.Op == token.AND {
		e = u.X
	}
	if cl, ok := e.(*ast.CompositeLit); ok {
		if id, ok := cl.Type.(*ast.Ident); ok && id.Name == nm {
			return true
		}
	}
	return false
}

// ---------------------------------------------------------------------------------------------
// output

func q(s string) string { return "\"" + strings.ReplaceAll(s, "\"", "'") + "\"" }

func coqList(xs []string) string { return "[" + strings.Join(xs, "; ") + "]" }

func coqPath(p []string) string {
	qs := make([]string, len(p))
	for i, s := range p {
		qs[i] = q(s)
	}
	return coqList(qs)
}

func coqInstrs(is []instr, ind string) string {
	if len(is) == 0 {
		return "[]"
	}
	parts := make([]string, len(is))
	for k, i := range is {
		parts[k] = ind + "  " + coqInstr(i, ind+"  ")
	}
	return "[\n" + strings.Join(parts, ";\n") + "\n" + ind + "]"
}

func coqInstr(i instr, ind string) string {
	switch i.op {
	case "Lock":
		return "ILock " + q(i.arg)
	case "Unlock":
		return "IUnlock " + q(i.arg)
	case "DeferUnlock":
		return "IDeferUnlock " + q(i.arg)
	case "DeferCall":
		return "IDeferCall " + q(i.arg)
	case "Read":
		return "IRead " + coqPath(i.path)
	case "Write":
		return "IWrite " + coqPath(i.path)
	case "Go":
		return "IGo " + coqInstrs(i.a, ind)
	case "Chan":
		return "IChan " + i.chop + " " + q(i.arg)
	case "Wait":
		return "IWait " + q(i.arg)
	case "Call":
		return "ICall " + q(i.arg)
	case "Ext":
		return "IExt " + q(i.arg)
	case "If":
		return "IIf " + coqInstrs(i.a, ind) + " " + coqInstrs(i.b, ind)
	case "Loop":
		return "ILoop " + coqInstrs(i.a, ind)
	case "Return":
		return "IReturn"
	}
	panic("unknown op " + i.op)
}

func run(repo, out, initNames string) (err error) {
	defer func() {
		if r := recover(); r != nil {
			if f, ok := r.(failure); ok {
				err = fmt.Errorf("%s", f.msg)
				return
			}
			panic(r)
		}
	}()
	dir := filepath.Join(repo, "pkg", "fswallet")
	fset := token.NewFileSet()
	pkgs, perr := parser.ParseDir(fset, dir, func(fi os.FileInfo) bool { return !strings.HasSuffix(fi.Name(), "_test.go") }, parser.SkipObjectResolution)
	if perr != nil {
		return perr
	}
	var files []*ast.File
	for _, p := range pkgs {
		var names []string
		for n := range p.Files {
			names = append(names, n)
		}
		sort.Strings(names)
		for _, n := range names {
			f := p.Files[n]
			// honour build constraints crudely: skip files that need the verif tag
			skip := false
			for _, cg := range f.Comments {
				if cg.Pos() < f.Package && strings.Contains(cg.Text(), "go:build") && strings.Contains(cg.Text(), "verif") {
					skip = true
				}
			}
			if !skip {
				files = append(files, f)
			}
		}
	}
	g := &gen{fset: fset, fields: map[string]ast.Expr{}, mutexes: map[string]bool{}, methods: map[string]*ast.FuncDecl{},
		bodies: map[string][]instr{}, inProg: map[string]bool{}}
	// the wallet struct: the struct type with a sync.Mutex / sync.RWMutex field
	for _, f := range files {
		for _, d := range f.Decls {
			gd, ok := d.(*ast.GenDecl)
			if !ok {
				continue
			}
			for _, sp := range gd.Specs {
				ts, ok := sp.(*ast.TypeSpec)
				if !ok {
					continue
				}
				st, ok := ts.Type.(*ast.StructType)
				if !ok {
					continue
				}
				var mx []string
				rw := false
				for _, fld := range st.Fields.List {
					t := fld.Type
					if se, ok := t.(*ast.SelectorExpr); ok {
						if id, ok := se.X.(*ast.Ident); ok && id.Name == "sync" && (se.Sel.Name == "Mutex" || se.Sel.Name == "RWMutex") {
							if se.Sel.Name == "RWMutex" {
								rw = true
							}
							if len(fld.Names) == 0 {
								return fmt.Errorf("%s: embedded mutex in %s is not modelled", fset.Position(fld.Pos()), ts.Name.Name)
							}
							for _, n := range fld.Names {
								mx = append(mx, n.Name)
							}
						}
					}
				}
				if len(mx) == 0 {
					continue
				}
				if g.structNm != "" {
					return fmt.Errorf("two structs with mutexes (%s, %s): which is the wallet?", g.structNm, ts.Name.Name)
				}
				if rw {
					return fmt.Errorf("sync.RWMutex in %s: reader locks are not modelled", ts.Name.Name)
				}
				g.structNm = ts.Name.Name
				for _, m := range mx {
					g.mutexes[m] = true
				}
				for _, fld := range st.Fields.List {
					if len(fld.Names) == 0 {
						return fmt.Errorf("embedded field in %s is not modelled", ts.Name.Name)
					}
					for _, n := range fld.Names {
						g.fields[n.Name] = fld.Type
					}
				}
			}
		}
	}
	if g.structNm == "" {
		return fmt.Errorf("no struct with a sync.Mutex field found in %s", dir)
	}
	var constructors []*ast.FuncDecl
	for _, f := range files {
		for _, d := range f.Decls {
			fd, ok := d.(*ast.FuncDecl)
			if !ok || fd.Body == nil {
				continue
			}
			if fd.Recv != nil && len(fd.Recv.List) == 1 {
				t := fd.Recv.List[0].Type
				if st, ok := t.(*ast.StarExpr); ok {
					t = st.X
				} else if id, ok := t.(*ast.Ident); ok && id.Name == g.structNm {
					return fmt.Errorf("%s: value receiver on %s copies the mutex", fset.Position(fd.Pos()), g.structNm)
				}
				if id, ok := t.(*ast.Ident); ok && id.Name == g.structNm {
					if _, dup := g.fields[fd.Name.Name]; dup {
						return fmt.Errorf("method and field share the name %s", fd.Name.Name)
					}
					g.methods[fd.Name.Name] = fd
				}
				continue
			}
			// a plain function that builds the wallet
			found := false
			ast.Inspect(fd.Body, func(n ast.Node) bool {
				if e, ok := n.(ast.Expr); ok && isWalletLit(e, g.structNm) {
					found = true
				}
				return true
			})
			if found {
				constructors = append(constructors, fd)
			} else {
				// any other plain function must not receive the wallet
				if fd.Type.Params != nil {
					for _, p := range fd.Type.Params.List {
						t := p.Type
						if st, ok := t.(*ast.StarExpr); ok {
							t = st.X
						}
						if id, ok := t.(*ast.Ident); ok && id.Name == g.structNm {
							return fmt.Errorf("%s: plain function %s takes the wallet as a parameter (not modelled)", fset.Position(fd.Pos()), fd.Name.Name)
						}
					}
				}
			}
		}
	}
	if len(constructors) != 1 {
		return fmt.Errorf("expected exactly one constructor of %s, found %d", g.structNm, len(constructors))
	}
	inits := map[string]bool{}
	for _, n := range strings.Split(initNames, ",") {
		if n != "" {
			inits[n] = true
		}
	}
	// constructor body, inline
	ccx := &ctx{g: g, fname: constructors[0].Name.Name, funcs: map[string]*closure{}, alias: map[string][]string{}, fparam: map[string]bool{}}
	consBody := stripFinalReturn(ccx.block(constructors[0].Body.List))
	if ccx.recv == "" {
		return fmt.Errorf("constructor %s: wallet literal is not bound to a variable by :=", constructors[0].Name.Name)
	}
	// exported API, init methods; bodies are emitted on demand from these roots
	var api, initL []string
	var mnames []string
	for n := range g.methods {
		mnames = append(mnames, n)
	}
	sort.Strings(mnames)
	root := &ctx{g: g, fname: "<root>", funcs: map[string]*closure{}, alias: map[string][]string{}, fparam: map[string]bool{}}
	for _, n := range mnames {
		if !ast.IsExported(n) {
			continue
		}
		root.callee(g.methods[n], nil)
		if inits[n] {
			initL = append(initL, n)
		} else {
			api = append(api, n)
		}
	}
	for n := range inits {
		if g.methods[n] == nil {
			return fmt.Errorf("init method %s not found", n)
		}
	}

	var b strings.Builder
	b.WriteString("(* GENERATED by harness/cmd/gen_locks from pkg/fswallet/*.go — do not edit.\n")
	b.WriteString("   Synchronisation structure of the wallet for Conc/Lockset.v (property C17). *)\n")
	b.WriteString("From Coq Require Import List String.\nFrom FFS Require Import Conc.Lockset.\nImport ListNotations.\nOpen Scope string_scope.\n\n")
	fmt.Fprintf(&b, "Definition fswallet_struct : string := %s.\n", q(g.structNm))
	var mx, fl []string
	for m := range g.mutexes {
		mx = append(mx, q(m))
	}
	sort.Strings(mx)
	for f := range g.fields {
		if !g.mutexes[f] {
			fl = append(fl, q(f))
		}
	}
	sort.Strings(fl)
	fmt.Fprintf(&b, "Definition fswallet_mutexes : list string := %s.\n", coqList(mx))
	fmt.Fprintf(&b, "Definition fswallet_fields : list string := %s.\n\n", coqList(fl))
	for _, n := range g.order {
		fmt.Fprintf(&b, "Definition body_%s : list instr := %s.\n\n", ident(n), coqInstrs(g.bodies[n], ""))
	}
	b.WriteString("Definition fswallet_prog : prog := [\n")
	for k, n := range g.order {
		sep := ";"
		if k == len(g.order)-1 {
			sep = ""
		}
		fmt.Fprintf(&b, "  (%s, body_%s)%s\n", q(n), ident(n), sep)
	}
	b.WriteString("].\n\n")
	fmt.Fprintf(&b, "(* %s, inlined: runs before the wallet value exists for anybody else *)\n", constructors[0].Name.Name)
	fmt.Fprintf(&b, "Definition fswallet_constructor : list instr := %s.\n\n", coqInstrs(consBody, ""))
	qs := func(xs []string) string {
		o := make([]string, len(xs))
		for i, x := range xs {
			o[i] = q(x)
		}
		return coqList(o)
	}
	fmt.Fprintf(&b, "(* exported methods called once by the creating goroutine before the wallet is shared *)\nDefinition fswallet_init : list string := %s.\n", qs(initL))
	fmt.Fprintf(&b, "(* exported methods any goroutine may call at any time afterwards *)\nDefinition fswallet_api : list string := %s.\n", qs(api))
	if err := os.WriteFile(out, []byte(b.String()), 0o644); err != nil {
		return err
	}
	return nil
}

func ident(n string) string {
	r := strings.NewReplacer("$", "_", ".", "_", "<", "", ">", "")
	return r.Replace(n)
}

func main() {
	repo := flag.String("repo", "/repo", "repository root")
	out := flag.String("out", "", "output .v file")
	initNames := flag.String("init", "Initialize", "comma-separated exported methods that run before publication")
	flag.Parse()
	if *out == "" {
		fmt.Fprintln(os.Stderr, "gen_locks: -out required")
		os.Exit(2)
	}
	if err := run(*repo, *out, *initNames); err != nil {
		fmt.Fprintln(os.Stderr, "gen_locks: FAIL CLOSED:", err)
		os.Exit(1)
	}
}
