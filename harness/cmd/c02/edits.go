// Round 3b: parameter definitions that are EDITED between uses.  A Parameter caches its parsed type
// tree in an unexported field; the API says "if you have modified the structure since Validate was last
// called, call Validate again".  The sessions here use a parameter list, change it (a member's Type to
// another width / from static to dynamic, array dimensions, names, members added / removed / reordered)
// on the same objects followed by Validate(), on by-value copies of the Parameter structs (which copy the
// unexported cache), on shallow copies of the Components slices, or inside a freshly built enclosing
// tuple, then run ordinary requests for the NEW definition (the model is pure: an ordinary case whose
// Go object has a history), and edit back.
package main

import (
	"encoding/json"
	"fmt"

	"github.com/hyperledger/firefly-signer/pkg/abi"
	"verifharness/abigen"
	"verifharness/cv"
)

var editNameCounter int

// nodesOf lists every node of the type trees (the top-level parameters included).
func nodesOf(ts []*abigen.Type) []*abigen.Type {
	var out []*abigen.Type
	var w func(t *abigen.Type)
	w = func(t *abigen.Type) {
		out = append(out, t)
		if t.Elem != nil {
			w(t.Elem)
		}
		for _, f := range t.Fields {
			w(f)
		}
	}
	for _, t := range ts {
		w(t)
	}
	return out
}

func sigList(ts []*abigen.Type) string {
	b, _ := json.Marshal(abigen.Params(ts))
	return string(b)
}

// editTypes returns an edited deep copy of the definition (always different from ts), and the name of the edit.
func editTypes(r *cv.Rand, ts []*abigen.Type) ([]*abigen.Type, string) {
	for try := 0; try < 50; try++ {
		cp := make([]*abigen.Type, len(ts))
		for i, t := range ts {
			cp[i] = t.Clone()
		}
		what := editOnce(r, &cp)
		if what != "" && sigList(cp) != sigList(ts) {
			return cp, what
		}
	}
	cp := append([]*abigen.Type{}, ts...)
	return append(cp, abigen.U(8).Named("extra")), "append-param"
}

func pick(r *cv.Rand, ns []*abigen.Type, pred func(*abigen.Type) bool) *abigen.Type {
	var c []*abigen.Type
	for _, n := range ns {
		if pred(n) {
			c = append(c, n)
		}
	}
	if len(c) == 0 {
		return nil
	}
	return c[r.Intn(len(c))]
}

func setNode(n *abigen.Type, nt *abigen.Type) {
	name := n.Name
	*n = *nt
	n.Name = name
}

func editOnce(r *cv.Rand, ts *[]*abigen.Type) string {
	ns := nodesOf(*ts)
	newName := func() string { editNameCounter++; return fmt.Sprintf("e%d", editNameCounter) }
	switch r.Intn(12) {
	case 0, 1: // another width of the same family (narrower / wider)
		n := pick(r, ns, func(t *abigen.Type) bool { return t.Kind == abigen.Uint || t.Kind == abigen.Int })
		if n == nil {
			return ""
		}
		m := []int{8, 16, 64, 128, 256, n.M + 8, n.M - 8}[r.Intn(7)]
		if m < 8 || m > 256 {
			return ""
		}
		k := n.Kind
		if r.Intn(4) == 0 {
			k = abigen.Uint + abigen.Int - k
		}
		setNode(n, &abigen.Type{Kind: k, M: m})
		return "width"
	case 2: // static <-> dynamic leaf
		n := pick(r, ns, func(t *abigen.Type) bool { return t.IsElementary() && t.Kind != abigen.Fixed && t.Kind != abigen.Ufixed })
		if n == nil {
			return ""
		}
		if n.Kind == abigen.Bytes || n.Kind == abigen.String {
			setNode(n, []*abigen.Type{abigen.U(256), abigen.BN(32), abigen.BN(4), abigen.Boolean()}[r.Intn(4)])
		} else {
			setNode(n, []*abigen.Type{abigen.Byts(), abigen.Str()}[r.Intn(2)])
		}
		return "static-dynamic"
	case 3: // another elementary type
		n := pick(r, ns, func(t *abigen.Type) bool { return t.IsElementary() })
		if n == nil {
			return ""
		}
		setNode(n, abigen.GenElementary(r, abigen.Opts{}))
		return "elementary"
	case 4: // array dimensions
		n := pick(r, ns, func(t *abigen.Type) bool { return t.Kind == abigen.FixedArr || t.Kind == abigen.DynArr })
		if n == nil {
			n = pick(r, ns, func(t *abigen.Type) bool { return true })
			inner := *n
			inner.Name = ""
			setNode(n, abigen.Arr(&inner, 1+r.Intn(2)))
			return "wrap-in-array"
		}
		switch {
		case n.Kind == abigen.DynArr:
			n.Kind, n.Len = abigen.FixedArr, 1+r.Intn(3)
		case r.Bool():
			n.Kind, n.Len = abigen.DynArr, 0
		default:
			n.Len = n.Len%3 + 1
		}
		return "array-dimension"
	case 5: // unwrap an array level
		n := pick(r, ns, func(t *abigen.Type) bool { return t.Kind == abigen.FixedArr || t.Kind == abigen.DynArr })
		if n == nil {
			return ""
		}
		setNode(n, n.Elem)
		return "unwrap-array"
	case 6, 7, 11: // members of a tuple (or the parameter list itself): add, remove, exchange
		var fields *[]*abigen.Type
		if tn := pick(r, ns, func(t *abigen.Type) bool { return t.Kind == abigen.Tuple }); tn != nil && r.Intn(3) != 0 {
			fields = &tn.Fields
		} else {
			fields = ts
		}
		switch op := r.Intn(3); {
		case op == 0 || len(*fields) == 0:
			nt := abigen.GenElementary(r, abigen.Opts{}).Named(newName())
			pos := r.Intn(len(*fields) + 1)
			nf := append([]*abigen.Type{}, (*fields)[:pos]...)
			nf = append(nf, nt)
			*fields = append(nf, (*fields)[pos:]...)
			return "add-member"
		case op == 1 && len(*fields) > 1:
			pos := r.Intn(len(*fields))
			nf := append([]*abigen.Type{}, (*fields)[:pos]...)
			*fields = append(nf, (*fields)[pos+1:]...)
			return "remove-member"
		case len(*fields) > 1:
			i := r.Intn(len(*fields) - 1)
			nf := append([]*abigen.Type{}, *fields...)
			nf[i], nf[i+1] = nf[i+1], nf[i]
			*fields = nf
			return "exchange-members"
		}
		return ""
	case 8, 10: // names
		n := pick(r, ns, func(t *abigen.Type) bool { return true })
		if n.Name == "" || r.Bool() {
			n.Name = newName()
		} else {
			n.Name = ""
		}
		// element types of arrays carry no name of their own
		return "name"
	default: // elementary <-> tuple
		n := pick(r, ns, func(t *abigen.Type) bool { return t.IsElementary() || t.Kind == abigen.Tuple })
		if n == nil {
			return ""
		}
		if n.Kind == abigen.Tuple {
			setNode(n, abigen.GenElementary(r, abigen.Opts{}))
		} else {
			inner := *n
			inner.Name = newName()
			setNode(n, abigen.Tup(&inner, abigen.Str().Named(newName())))
		}
		return "elementary-tuple"
	}
}

// cleanNames: an array's element type has no name in the ABI JSON (the name belongs to the parameter).
func cleanNames(ts []*abigen.Type) {
	var w func(t *abigen.Type)
	w = func(t *abigen.Type) {
		if t.Elem != nil {
			t.Elem.Name = ""
			w(t.Elem)
		}
		for _, f := range t.Fields {
			w(f)
		}
	}
	for _, t := range ts {
		w(t)
	}
}

const (
	editInPlace      = iota // assign the fields of the existing objects, then Validate() the top-level parameters
	editByValue             // copy the Parameter structs by value (with their unexported cache), edit the copies, Validate()
	editFreshTop            // new top-level Parameter structs around by-value copies of the members; no Validate (first use parses)
	editShallowSlice        // in place, but every Components slice is re-allocated and every other member is a by-value copy; Validate()
	editModes
)

// adopt turns the existing object `old` into the definition `fresh` (a freshly built object used as the template).
func adopt(old, fresh *abi.Parameter, mode int, depth int, rot int) *abi.Parameter {
	p := old
	switch {
	case mode == editByValue, mode == editFreshTop && depth > 0, mode == editShallowSlice && depth%2 == 1:
		cp := *old // copies the unexported cache as well
		p = &cp
	case mode == editFreshTop && depth == 0:
		p = &abi.Parameter{Components: old.Components, Indexed: old.Indexed}
	}
	p.Name, p.Type, p.InternalType = fresh.Name, fresh.Type, fresh.InternalType
	p.Components = adoptList(p.Components, fresh.Components, mode, depth+1, rot)
	return p
}

func adoptList(olds, freshes abi.ParameterArray, mode int, depth int, rot int) abi.ParameterArray {
	if len(freshes) == 0 {
		return nil
	}
	var out abi.ParameterArray
	if mode == editInPlace && len(olds) == len(freshes) {
		out = olds // the same slice
	} else {
		out = make(abi.ParameterArray, len(freshes))
	}
	src := append(abi.ParameterArray{}, olds...)
	for i, f := range freshes {
		if i < len(src) {
			// rot != 0: the existing objects are reused at other positions
			out[i] = adopt(src[(i+rot)%len(src)], f, mode, depth, rot)
		} else {
			out[i] = f // more members than before: the additional ones are new objects
		}
	}
	// an object must not be used at two positions
	seen := map[*abi.Parameter]bool{}
	for i, p := range out {
		if seen[p] {
			out[i] = freshes[i]
		}
		seen[out[i]] = true
	}
	return out
}

// warm uses every nested Parameter on its own (TypeComponentTree), so that members carry a cache even
// when the enclosing parameter parses them without touching it.
func warm(pa abi.ParameterArray) {
	for _, p := range pa {
		func() {
			defer func() { recover() }()
			_, _ = p.TypeComponentTree()
			_, _ = p.SignatureString()
		}()
		warm(p.Components)
	}
}

func (h *H) editSessions(r *cv.Rand, n int) {
	for i := 0; i < n; i++ {
		// a definition with at least one tuple parameter (members are where a stale cache can hide)
		var ts []*abigen.Type
		k := 1 + r.Intn(2)
		for j := 0; j < k; j++ {
			t := abigen.GenType(r, 1+r.Intn(3), abigen.Opts{})
			t.Name = fmt.Sprintf("p%d", j)
			ts = append(ts, t)
		}
		m := 1 + r.Intn(3)
		fs := make([]*abigen.Type, m)
		for j := range fs {
			fs[j] = abigen.GenType(r, r.Intn(3), abigen.Opts{})
		}
		tup := abigen.Tup(fs...)
		abigen.NameMembers(r, tup, i%2 == 0)
		var tt *abigen.Type = tup
		switch r.Intn(4) {
		case 0:
			tt = abigen.Dyn(tup)
		case 1:
			tt = abigen.Arr(tup, 1+r.Intn(2))
		}
		tt.Name = "t"
		pos := r.Intn(len(ts) + 1)
		ts = append(append(append([]*abigen.Type{}, ts[:pos]...), tt), ts[pos:]...)
		cleanNames(ts)

		s := newSession(ts)
		if i%2 == 1 {
			warm(s.pa)
			h.st.Hit("edit:members-warmed")
		}
		first := ts
		h.sessionRequest(r, s, "edit-before", abigen.GenValue(r, abigen.Tup(s.ts...), abigen.VOpts{MaxArr: 2}), 0, i)
		steps := 2 + r.Intn(2)
		for step := 0; step <= steps; step++ {
			var ts2 []*abigen.Type
			what := "edit-back"
			if step == steps {
				ts2 = first // the reverse direction: back to the first definition
			} else {
				ts2, what = editTypes(r, s.ts)
				cleanNames(ts2)
			}
			mode := (i + step) % editModes
			rot := 0
			if r.Intn(4) == 0 {
				rot = 1
			}
			fresh := abigen.Params(ts2)
			pa := adoptList(s.pa, fresh, mode, 0, rot)
			s.pa, s.ts = pa, ts2
			if mode == editFreshTop || r.Bool() {
				s.entry = &abi.Entry{Type: abi.Function, Name: "g", Inputs: pa}
			} else {
				s.entry.Inputs = pa
			}
			if mode != editFreshTop {
				// the documented step after a modification
				if (i+step)%3 == 0 {
					if err := s.entry.Validate(); err != nil {
						panic(fmt.Sprintf("edit session: Validate of %s failed: %v", sigOf(ts2), err))
					}
				} else {
					for _, p := range pa {
						if err := p.Validate(); err != nil {
							panic(fmt.Sprintf("edit session: Validate of %s failed: %v", sigOf(ts2), err))
						}
					}
				}
			}
			h.st.Hit("edit:" + what)
			h.st.Hit(fmt.Sprintf("edit-mode:%d", mode))
			root := abigen.Tup(s.ts...)
			h.sessionRequest(r, s, "edit-after", abigen.GenValue(r, root, abigen.VOpts{MaxArr: 2}), 0, 3*step)   // well typed
			h.sessionRequest(r, s, "edit-after", abigen.GenValue(r, root, abigen.VOpts{MaxArr: 2}), 1, 3*step+1) // one leaf out of range
			h.sessionRequest(r, s, "edit-after", abigen.GenValue(r, root, abigen.VOpts{MaxArr: 2}), 0, 3*step+2)
			if i%3 == 0 {
				warm(s.pa)
			}
		}
	}
}
