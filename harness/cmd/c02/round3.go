// Round 3 additions to the C02 harness: state kept across calls (shared ParameterArray / Entry /
// Parameter objects, repeated requests, retained results verified again later, a concurrent section),
// inputs that must not be written to, Go representations behind the reader fall-backs (typed slices and
// maps, pointers, named types, Stringers: the model sees the plain value they stand for), sizes at
// which a length / count / offset word needs a second and third byte, leading-zero hex data, tuple
// object keys, every Go kind for fixed-point types.
package main

import (
	"bytes"
	"encoding/hex"
	"encoding/json"
	"fmt"
	"math"
	"math/big"
	"reflect"
	"strings"
	"sync"

	"github.com/hyperledger/firefly-signer/pkg/abi"
	"github.com/hyperledger/firefly-signer/pkg/ethtypes"
	"verifharness/abigen"
	"verifharness/cv"
)

type kept struct {
	id   int
	d    *desc
	out  []byte // the slice as returned by the implementation
	copy []byte // its content at the time of the call
}

type keptTree struct {
	id   int
	d    *desc
	tree *abi.ComponentValue
	enc  []byte
}

// fail records a failing input found by a Go-side oracle (stats.impl_oracle_failures).
func (h *H) fail(what string, d *desc, detail string) {
	o := map[string]interface{}{"what": what, "key": "", "detail": detail}
	if d != nil {
		b, _ := json.Marshal(d)
		var m map[string]interface{}
		json.Unmarshal(b, &m)
		for k, v := range m {
			if k != "key" {
				o[k] = v
			}
		}
	}
	h.st.Hit("go-oracle-failed:" + what)
	if len(h.st.ImplFailures) < 40 {
		h.st.ImplFailures = append(h.st.ImplFailures, o)
	}
}

// sameVal compares two Go input trees by value (NaN equals NaN, big numbers by value and precision).
func sameVal(a, b reflect.Value) bool {
	if a.IsValid() != b.IsValid() {
		return false
	}
	if !a.IsValid() {
		return true
	}
	if a.Type() != b.Type() {
		return false
	}
	switch a.Kind() {
	case reflect.Float32, reflect.Float64:
		return math.Float64bits(a.Float()) == math.Float64bits(b.Float())
	case reflect.Interface:
		if a.IsNil() || b.IsNil() {
			return a.IsNil() == b.IsNil()
		}
		return sameVal(a.Elem(), b.Elem())
	case reflect.Ptr:
		if a.IsNil() || b.IsNil() {
			return a.IsNil() == b.IsNil()
		}
		if a.CanInterface() {
			switch x := a.Interface().(type) {
			case *big.Int:
				return x.Cmp(b.Interface().(*big.Int)) == 0
			case *big.Float:
				y := b.Interface().(*big.Float)
				return x.Cmp(y) == 0 && x.Prec() == y.Prec() && x.Signbit() == y.Signbit()
			case *ethtypes.HexInteger:
				return x.BigInt().Cmp(b.Interface().(*ethtypes.HexInteger).BigInt()) == 0
			}
		}
		return sameVal(a.Elem(), b.Elem())
	case reflect.Slice:
		if a.IsNil() != b.IsNil() || a.Len() != b.Len() {
			return false
		}
		for i := 0; i < a.Len(); i++ {
			if !sameVal(a.Index(i), b.Index(i)) {
				return false
			}
		}
		return true
	case reflect.Array:
		for i := 0; i < a.Len(); i++ {
			if !sameVal(a.Index(i), b.Index(i)) {
				return false
			}
		}
		return true
	case reflect.Map:
		if a.Len() != b.Len() {
			return false
		}
		it := a.MapRange()
		for it.Next() {
			if !sameVal(it.Value(), b.MapIndex(it.Key())) {
				return false
			}
		}
		return true
	}
	if a.CanInterface() {
		return reflect.DeepEqual(a.Interface(), b.Interface())
	}
	return true
}

// afterCall: oracles evaluated on the implementation alone after every encode request.
func (h *H) afterCall(d *desc, mode string, pa abi.ParameterArray, e *abi.Entry, goVal interface{}, mk func() interface{}, jsonText string, out []byte, cls int, poke bool, off int) {
	values := mode == modeValues || mode == modeCallV
	// (a) the request must not write into the caller's value (a later request with the same object would
	// then encode something else than the value the caller holds)
	if values && cls != 2 && !sameVal(reflect.ValueOf(goVal), reflect.ValueOf(mk())) {
		h.fail("the encode request modified the caller's input value", d, "")
	}
	if poke && cls == 0 {
		// other uses of the same (cached) type tree in between: decode the result, serialize it, parse again
		func() {
			defer func() { recover() }()
			if tree, err := pa.DecodeABIData(out, off); err == nil {
				_, _ = tree.JSON()
				_, _ = abi.NewSerializer().SetFormattingMode(abi.FormatAsObjects).SerializeJSON(tree)
				_, _ = tree.EncodeABIData()
			}
			// ... and decodes that fail part-way (truncated data, data cut in the middle)
			for _, cut := range []int{len(out) - 1, off + (len(out)-off)/2, off + 33} {
				if cut > off && cut < len(out) {
					func() {
						defer func() { recover() }()
						_, _ = pa.DecodeABIData(out[:cut], off)
					}()
				}
			}
			if e != nil {
				_, _ = e.DecodeCallData(out)
				_, _ = e.Signature()
			}
		}()
	}
	// (b) the same request on the same objects gives the same answer
	out2, _, cls2, _ := runOn(mode, pa, e, goVal, jsonText)
	if cls2 != cls || !bytes.Equal(out, out2) {
		h.fail("repeating the encode request with the same objects and the same input gives a different result", d,
			fmt.Sprintf("first: class %d 0x%s; second: class %d 0x%s", cls, hexCut(out), cls2, hexCut(out2)))
	}
	// (d) the two-step route (parse to a value tree, encode the tree, encode it again) gives the same bytes
	if cls == 0 {
		func() {
			defer func() {
				if r := recover(); r != nil {
					h.fail("the two-step route ParseExternalData/ParseJSON + EncodeABIData panicked where the one-step request succeeded", d, fmt.Sprint(r))
				}
			}()
			var tree *abi.ComponentValue
			var err error
			if values {
				tree, err = pa.ParseExternalData(goVal)
			} else {
				tree, err = pa.ParseJSON([]byte(jsonText))
			}
			if err != nil {
				h.fail("the two-step route ParseExternalData/ParseJSON + EncodeABIData fails where the one-step request succeeded", d, err.Error())
				return
			}
			for k := 0; k < 2; k++ {
				b, err := tree.EncodeABIData()
				if err != nil || !bytes.Equal(b, out[off:]) {
					h.fail(fmt.Sprintf("encoding the parsed value tree (time %d) differs from the one-step request", k+1), d, "tree: 0x"+hexCut(b)+" request: 0x"+hexCut(out[off:]))
					return
				}
			}
			if d.ID%5 == 0 {
				h.ktrees = append(h.ktrees, keptTree{id: d.ID, d: d, tree: tree, enc: append([]byte{}, out[off:]...)})
			}
		}()
	}
	if cls == 0 {
		if cls2 == 0 && len(out) > 0 && len(out2) > 0 && &out[0] == &out2[0] {
			h.fail("two encode requests returned the same buffer", d, "")
		}
		// (c) retained: the returned buffer keeps its content while other requests run
		h.kept = append(h.kept, kept{id: d.ID, d: d, out: out, copy: append([]byte{}, out...)})
	}
}

func hexCut(b []byte) string {
	s := hex.EncodeToString(b)
	if len(s) > 400 {
		s = s[:400] + "..."
	}
	return s
}

// afterParse: a parsed value tree encodes to the same bytes every time, now and at the end of the run,
// and to the same bytes as the direct request; ElementaryABIData of each leaf equals the leaf's encoding.
func (h *H) afterParse(d *desc, pa abi.ParameterArray, mk func() interface{}, tree *abi.ComponentValue) {
	enc := func() (b []byte, cls int) {
		var err error
		p := false
		func() {
			defer func() {
				if recover() != nil {
					p = true
				}
			}()
			b, err = tree.EncodeABIData()
		}()
		return b, clsOf(err, p)
	}
	b1, c1 := enc()
	b2, c2 := enc()
	if c1 != c2 || !bytes.Equal(b1, b2) {
		h.fail("encoding the same parsed value tree twice gives different results", d, fmt.Sprintf("class %d 0x%s / class %d 0x%s", c1, hexCut(b1), c2, hexCut(b2)))
	}
	b3, _, c3, _ := runOn(modeValues, pa, nil, mk(), "")
	if c3 != c1 || !bytes.Equal(b1, b3) {
		h.fail("ParseExternalData+EncodeABIData and EncodeABIDataValues disagree on the same input", d, fmt.Sprintf("class %d 0x%s / class %d 0x%s", c1, hexCut(b1), c3, hexCut(b3)))
	}
	var leaves func(c *abi.ComponentValue)
	leaves = func(c *abi.ComponentValue) {
		if c == nil || c.Component == nil {
			return
		}
		if c.Component.ComponentType() == abi.ElementaryComponent {
			var e1, e2 []byte
			var err1, err2 error
			func() {
				defer func() { recover() }()
				e1, _, err1 = c.ElementaryABIData()
				e2, err2 = c.EncodeABIData()
			}()
			if (err1 == nil) != (err2 == nil) || !bytes.Equal(e1, e2) {
				h.fail("ElementaryABIData and EncodeABIData disagree on a leaf", d, c.Component.String())
			}
			return
		}
		for _, k := range c.Children {
			leaves(k)
		}
	}
	leaves(tree)
	func() {
		defer func() { recover() }()
		if _, _, err := tree.ElementaryABIData(); err == nil {
			h.fail("ElementaryABIData accepted a tuple", d, "")
		}
	}()
	if c1 == 0 {
		h.ktrees = append(h.ktrees, keptTree{id: d.ID, d: d, tree: tree, enc: append([]byte{}, b1...)})
	}
}

// finalChecks runs at the end: every retained buffer still has its content, every retained tree still
// encodes to the same bytes.
func (h *H) finalChecks() {
	for _, k := range h.kept {
		if !bytes.Equal(k.out, k.copy) {
			h.fail("a returned encoding changed its content while later requests ran (the buffer is shared)", k.d, "was 0x"+hexCut(k.copy)+" now 0x"+hexCut(k.out))
			break
		}
	}
	for _, k := range h.ktrees {
		var b []byte
		var err error
		func() {
			defer func() { recover() }()
			b, err = k.tree.EncodeABIData()
		}()
		if err != nil || !bytes.Equal(b, k.enc) {
			h.fail("a retained value tree encodes differently at the end of the run", k.d, "was 0x"+hexCut(k.enc)+" now 0x"+hexCut(b))
			break
		}
	}
	h.st.Hit(fmt.Sprintf("retained-buffers-rechecked:%d", len(h.kept)))
	h.st.Hit(fmt.Sprintf("retained-trees-rechecked:%d", len(h.ktrees)))
}

// ---------------------------------------------------------------------------------------------
// Go representations behind the fall-backs of the readers
// ---------------------------------------------------------------------------------------------

type nStr string
type nI64 int64
type nI32 int32
type nI16 int16
type nI8 int8
type nInt int
type nU32 uint32
type nU16 uint16
type nU8 uint8
type nBool bool
type nF64 float64
type nBytes []byte
type nKey string
type strg struct{ s string }

func (s strg) String() string { return s.s }

type pstrg struct{ s string }

func (s *pstrg) String() string { return s.s }

// typed rebuilds a Go input tree with typed containers where the elements allow it: []T instead of
// []interface{}, map[string]T / map[interface{}]interface{} / map[nKey]interface{} instead of
// map[string]interface{}.  c drives the (deterministic) choices.
func typed(v interface{}, c *uint64) interface{} {
	next := func() uint64 {
		*c += 0x9E3779B97F4A7C15
		z := *c
		z = (z ^ (z >> 30)) * 0xBF58476D1CE4E5B9
		return z >> 33
	}
	homog := func(vals []interface{}) reflect.Type {
		var t reflect.Type
		for _, e := range vals {
			et := reflect.TypeOf(e)
			if et == nil || (t != nil && et != t) {
				return nil
			}
			t = et
		}
		if t != nil && t.Kind() == reflect.Uint8 {
			return nil
		}
		return t
	}
	switch x := v.(type) {
	case []interface{}:
		vals := make([]interface{}, len(x))
		for i, e := range x {
			vals[i] = typed(e, c)
		}
		if t := homog(vals); t != nil && next()%4 != 0 {
			s := reflect.MakeSlice(reflect.SliceOf(t), len(vals), len(vals))
			for i, e := range vals {
				s.Index(i).Set(reflect.ValueOf(e))
			}
			return s.Interface()
		}
		return vals
	case map[string]interface{}:
		keys := make([]string, 0, len(x))
		for k := range x {
			keys = append(keys, k)
		}
		// deterministic order of the recursive choices
		for i := range keys {
			for j := i + 1; j < len(keys); j++ {
				if keys[j] < keys[i] {
					keys[i], keys[j] = keys[j], keys[i]
				}
			}
		}
		vals := make([]interface{}, len(keys))
		for i, k := range keys {
			vals[i] = typed(x[k], c)
		}
		switch next() % 4 {
		case 0:
			if t := homog(vals); t != nil {
				m := reflect.MakeMapWithSize(reflect.MapOf(reflect.TypeOf(""), t), len(keys))
				for i, k := range keys {
					m.SetMapIndex(reflect.ValueOf(k), reflect.ValueOf(vals[i]))
				}
				return m.Interface()
			}
		case 1:
			m := map[interface{}]interface{}{}
			for i, k := range keys {
				m[k] = vals[i]
			}
			return m
		case 2:
			m := map[nKey]interface{}{}
			for i, k := range keys {
				m[nKey(k)] = vals[i]
			}
			return m
		}
		m := map[string]interface{}{}
		for i, k := range keys {
			m[k] = vals[i]
		}
		return m
	}
	return v
}

func mkTyped(x *abigen.Ext, salt uint64) func() interface{} {
	return func() interface{} {
		c := salt
		return typed(x.Go(), &c)
	}
}

func ptrTo(v interface{}) interface{} {
	p := reflect.New(reflect.TypeOf(v))
	p.Elem().Set(reflect.ValueOf(v))
	return p.Interface()
}

// goReprs: one elementary value behind a pointer, a named type, a Stringer.  `x` is the plain external
// value the wrapper stands for (what the model sees).
func (h *H) goReprs(r *cv.Rand) {
	type wrap struct {
		name string
		x    *abigen.Ext
		mk   func() interface{}
	}
	run := func(kind string, t *abigen.Type, ws []wrap, val func(x *abigen.Ext) (*abigen.Value, bool)) {
		for _, w := range ws {
			w := w
			var v *abigen.Value
			reject := false
			if val != nil {
				var ok bool
				v, ok = val(w.x)
				if v != nil {
					v = tupv(one(t), v)
				}
				reject = !ok && v == nil
			}
			h.st.Hit("go-repr:" + w.name)
			h.addEncO(kind, modeValues, one(t), lst(w.x), v, reject, "", encOpts{mk: func() interface{} { return []interface{}{w.mk()} }})
		}
	}
	xint := func(k string, z int64) *abigen.Ext { return &abigen.Ext{Kind: abigen.XInt, IKind: k, Big: big.NewInt(z)} }
	other := &abigen.Ext{Kind: abigen.XOther}
	// integers
	for _, t := range []*abigen.Type{abigen.U(256), abigen.I(256), abigen.U(8), abigen.I(8), abigen.I(64), abigen.U(64)} {
		t := t
		var ws []wrap
		vals := []int64{0, 1, -1, 127, 128, -128, -129, 255, 256, math.MaxInt32, math.MinInt32, math.MaxInt64, math.MinInt64}
		for _, z := range vals {
			z := z
			zs := fmt.Sprint(z)
			ws = append(ws,
				wrap{"*string", xstr(zs), func() interface{} { return ptrTo(zs) }},
				wrap{"named-string", xstr(zs), func() interface{} { return nStr(zs) }},
				wrap{"Stringer", xstr(zs), func() interface{} { return strg{zs} }},
				wrap{"*Stringer", xstr(zs), func() interface{} { return &pstrg{zs} }},
				wrap{"*json.Number", xjnum(zs), func() interface{} { return ptrTo(json.Number(zs)) }},
				wrap{"*int64", xint("KInt64", z), func() interface{} { return ptrTo(z) }},
				wrap{"named-int64", xint("KInt64", z), func() interface{} { return nI64(z) }},
				wrap{"*named-int64", xint("KInt64", z), func() interface{} { return ptrTo(nI64(z)) }},
				wrap{"named-int", xint("KInt64", z), func() interface{} { return nInt(z) }},
				wrap{"*float64", &abigen.Ext{Kind: abigen.XF64, F: float64(z)}, func() interface{} { return ptrTo(float64(z)) }},
				wrap{"**big.Int", &abigen.Ext{Kind: abigen.XBigInt, Big: big.NewInt(z)}, func() interface{} { return ptrTo(big.NewInt(z)) }},
				wrap{"*HexInteger", xstr((*ethtypes.HexInteger)(big.NewInt(z)).String()), func() interface{} { return (*ethtypes.HexInteger)(big.NewInt(z)) }},
			)
			if z >= math.MinInt32 && z <= math.MaxInt32 {
				ws = append(ws, wrap{"named-int32", xint("KInt64", z), func() interface{} { return nI32(z) }},
					wrap{"*int32", xint("KInt32", z), func() interface{} { return ptrTo(int32(z)) }})
			}
			if z >= math.MinInt16 && z <= math.MaxInt16 {
				ws = append(ws, wrap{"named-int16", xint("KInt64", z), func() interface{} { return nI16(z) }})
			}
			if z >= math.MinInt8 && z <= math.MaxInt8 {
				ws = append(ws, wrap{"named-int8", xint("KInt64", z), func() interface{} { return nI8(z) }})
			}
			if z >= 0 && z <= math.MaxUint32 {
				ws = append(ws, wrap{"named-uint32", xint("KInt64", z), func() interface{} { return nU32(z) }},
					wrap{"*uint32", xint("KUint32", z), func() interface{} { return ptrTo(uint32(z)) }})
			}
			if z >= 0 && z <= math.MaxUint16 {
				ws = append(ws, wrap{"named-uint16", xint("KInt64", z), func() interface{} { return nU16(z) }})
			}
			if z >= 0 && z <= math.MaxUint8 {
				ws = append(ws, wrap{"named-uint8", xint("KInt64", z), func() interface{} { return nU8(z) }},
					wrap{"*uint8", xint("KUint8", z), func() interface{} { return ptrTo(uint8(z)) }})
			}
			if z >= 0 {
				ws = append(ws, wrap{"*uint64", xint("KUint64", z), func() interface{} { return ptrTo(uint64(z)) }},
					wrap{"*uint", xint("KUint", z), func() interface{} { return ptrTo(uint(z)) }})
			}
		}
		// every (value, wrapper) pair is a lot: take a rotating third in the quick tier
		var sel []wrap
		for i, w := range ws {
			if (i+t.M)%3 == 0 {
				sel = append(sel, w)
			}
		}
		run("go-repr-int", t, sel, func(x *abigen.Ext) (*abigen.Value, bool) {
			var z *big.Int
			switch x.Kind {
			case abigen.XStr, abigen.XJNum:
				z, _ = new(big.Int).SetString(x.Text, 0)
			case abigen.XInt, abigen.XBigInt:
				z = x.Big
			case abigen.XF64:
				z, _ = new(big.Float).SetFloat64(x.F).Int(nil)
			}
			if z == nil {
				return nil, true // comparison only
			}
			if inRange(t, z) {
				return num(t, z), true
			}
			return nil, false
		})
		run("go-repr-int-unusable", t, []wrap{
			{"nil-*string", other, func() interface{} { return (*string)(nil) }},
			{"nil-*int64", other, func() interface{} { return (*int64)(nil) }},
			{"named-bool", other, func() interface{} { return nBool(true) }},
			{"[2]byte", other, func() interface{} { return [2]byte{1, 2} }},
			{"struct", other, func() interface{} { return struct{ A int }{1} }},
		}, nil)
	}
	// bool
	{
		t := abigen.Boolean()
		tr, fa := true, false
		run("go-repr-bool", t, []wrap{
			{"*bool", &abigen.Ext{Kind: abigen.XBool, Bool: true}, func() interface{} { return &tr }},
			{"*bool", &abigen.Ext{Kind: abigen.XBool, Bool: false}, func() interface{} { return &fa }},
			{"*string", xstr("true"), func() interface{} { return ptrTo("true") }},
			{"named-string", xstr("TRUE"), func() interface{} { return nStr("TRUE") }},
			{"Stringer", xstr("True"), func() interface{} { return strg{"True"} }},
			{"Stringer", xstr("false"), func() interface{} { return strg{"false"} }},
			{"**bool", &abigen.Ext{Kind: abigen.XBool, Bool: true}, func() interface{} { p := &tr; return &p }},
		}, func(x *abigen.Ext) (*abigen.Value, bool) {
			b := x.Bool || strings.EqualFold(x.Text, "true")
			if b {
				return num(t, big.NewInt(1)), true
			}
			return num(t, big.NewInt(0)), true
		})
		run("go-repr-bool-unusable", t, []wrap{
			{"named-bool", other, func() interface{} { return nBool(true) }},
			{"nil-*bool", other, func() interface{} { return (*bool)(nil) }},
			{"named-int", other, func() interface{} { return nInt(1) }},
		}, nil)
	}
	// byte strings
	for _, t := range []*abigen.Type{abigen.Byts(), abigen.BN(4), abigen.BN(32), abigen.Func(), abigen.Addr()} {
		t := t
		n := map[abigen.Kind]int{abigen.Bytes: 37, abigen.BytesN: t.M, abigen.Function: 24, abigen.Address: 20}[t.Kind]
		for _, b := range [][]byte{r.Bytes(n), append(make([]byte, 2), r.Bytes(n - 2)...)} {
			b := b
			hx := "0x" + hex.EncodeToString(b)
			xb := &abigen.Ext{Kind: abigen.XBytes, Bytes: b}
			cp := func() []byte { return append([]byte{}, b...) }
			ws := []wrap{
				{"named-[]byte", xb, func() interface{} { return nBytes(cp()) }},
				{"HexBytes0xPrefix", xb, func() interface{} { return ethtypes.HexBytes0xPrefix(cp()) }},
				{"HexBytesPlain", xb, func() interface{} { return ethtypes.HexBytesPlain(cp()) }},
				{"*[]byte", xb, func() interface{} { c := cp(); return &c }},
				{"*named-[]byte", xb, func() interface{} { c := nBytes(cp()); return &c }},
				{"*string", xstr(hx), func() interface{} { return ptrTo(hx) }},
				{"named-string", xstr(hx[2:]), func() interface{} { return nStr(hx[2:]) }},
				{"Stringer", xstr(hx), func() interface{} { return strg{hx} }},
				{"*Stringer", xstr(strings.ToUpper(hx[2:])), func() interface{} { return &pstrg{strings.ToUpper(hx[2:])} }},
				{"json.Number", xjnum(hx), func() interface{} { return json.Number(hx) }},
			}
			if t.Kind == abigen.Address {
				var a ethtypes.Address0xHex
				copy(a[:], b)
				ws = append(ws, wrap{"Address0xHex", xstr(a.String()), func() interface{} { return a }},
					wrap{"*Address0xHex", xstr(a.String()), func() interface{} { c := a; return &c }},
					wrap{"AddressPlainHex", xstr(ethtypes.AddressPlainHex(a).String()), func() interface{} { return ethtypes.AddressPlainHex(a) }},
					wrap{"AddressWithChecksum", xstr(ethtypes.AddressWithChecksum(a).String()), func() interface{} { return ethtypes.AddressWithChecksum(a) }})
			}
			run("go-repr-bytes", t, ws, func(x *abigen.Ext) (*abigen.Value, bool) {
				if t.Kind == abigen.Address {
					return num(t, new(big.Int).SetBytes(b)), true
				}
				return &abigen.Value{T: t, Bytes: b}, true
			})
		}
		run("go-repr-bytes-unusable", t, []wrap{
			{"[4]byte", other, func() interface{} { return [4]byte{1, 2, 3, 4} }},
			{"nil-*[]byte", other, func() interface{} { return (*[]byte)(nil) }},
			{"named-int", other, func() interface{} { return nInt(1) }},
			{"[]int8", other, func() interface{} { return []int8{1, 2, 3, 4} }},
		}, nil)
	}
	// strings
	{
		t := abigen.Str()
		for _, s := range []string{"", "abc", "0x1234", abigen.RandText(r, 33)} {
			s := s
			xs := xstr(s)
			run("go-repr-string", t, []wrap{
				{"named-string", xs, func() interface{} { return nStr(s) }},
				{"*string", xs, func() interface{} { return ptrTo(s) }},
				{"**string", xs, func() interface{} { return ptrTo(ptrTo(s)) }},
				{"Stringer", xs, func() interface{} { return strg{s} }},
				{"*Stringer", xs, func() interface{} { return &pstrg{s} }},
				{"json.Number", xjnum(s), func() interface{} { return json.Number(s) }},
				{"*[]byte", &abigen.Ext{Kind: abigen.XBytes, Bytes: []byte(s)}, func() interface{} { c := []byte(s); return &c }},
				{"HexBytes0xPrefix", xstr(ethtypes.HexBytes0xPrefix(s).String()), func() interface{} { return ethtypes.HexBytes0xPrefix(s) }},
			}, func(x *abigen.Ext) (*abigen.Value, bool) {
				if x.Kind == abigen.XBytes {
					return &abigen.Value{T: t, Bytes: x.Bytes}, true
				}
				return &abigen.Value{T: t, Bytes: []byte(x.Text)}, true
			})
		}
		run("go-repr-string-unusable", t, []wrap{
			{"named-[]byte", other, func() interface{} { return nBytes("ab") }},
			{"nil-*string", other, func() interface{} { return (*string)(nil) }},
			{"int", other, func() interface{} { return 5 }},
		}, nil)
	}
	// maps whose keys are not strings
	ts := []*abigen.Type{abigen.U(8), abigen.Boolean()}
	h.addEncO("go-repr-map-int-keys", modeValues, ts, other, nil, false, "", encOpts{mk: func() interface{} { return map[interface{}]interface{}{0: 1, 1: true} }})
	h.addEncO("go-repr-map-int-keys", modeValues, ts, other, nil, false, "", encOpts{mk: func() interface{} { return map[int]interface{}{0: 1, 1: true} }})
}

// ---------------------------------------------------------------------------------------------
// sizes at which the count / length / offset words need more than one byte; leading zeros; keys
// ---------------------------------------------------------------------------------------------

func rep(x *abigen.Ext, n int) *abigen.Ext {
	l := make([]*abigen.Ext, n)
	for i := range l {
		l[i] = x
	}
	return lst(l...)
}

func (h *H) bigShapes(r *cv.Rand, thorough bool) {
	u8 := abigen.U(8)
	for _, n := range []int{255, 256, 257} {
		// count word >= 256 (static children)
		td := abigen.Dyn(u8)
		vs := make([]*abigen.Value, n)
		xs := make([]*abigen.Ext, n)
		for i := range vs {
			z := big.NewInt(int64(i % 256))
			vs[i] = num(u8, z)
			xs[i] = xjnum(z.String())
		}
		h.st.Hit(fmt.Sprintf("array-elements:%d", n))
		h.addEnc("big-count", modeJSON, one(td), lst(lst(xs...)), tupv(one(td), &abigen.Value{T: td, Elems: vs}), false, "")
		// the same as a Go []byte walked as a slice of uint8
		bs := make([]byte, n)
		for i := range bs {
			bs[i] = byte(i)
		}
		h.addEnc("big-count-[]byte", modeValues, one(td), lst(&abigen.Ext{Kind: abigen.XBytes, Bytes: bs}), tupv(one(td), &abigen.Value{T: td, Elems: vs}), false, "")
		// dynamic children: count word and offsets beyond 2^13
		ts := abigen.Dyn(abigen.Str())
		svs := make([]*abigen.Value, n)
		sxs := make([]*abigen.Ext, n)
		for i := range svs {
			s := ""
			if i%100 == 7 {
				s = "q"
			}
			svs[i] = &abigen.Value{T: abigen.Str(), Bytes: []byte(s)}
			sxs[i] = xstr(s)
		}
		h.addEnc("big-count-dynamic", modeJSON, one(ts), lst(lst(sxs...)), tupv(one(ts), &abigen.Value{T: ts, Elems: svs}), false, "")
	}
	// fixed array of 256 static elements followed by a dynamic one: head of 256 words, offset 0x2020
	{
		ta := abigen.Arr(abigen.I(16), 256)
		ts := []*abigen.Type{ta, abigen.Byts()}
		vs := make([]*abigen.Value, 256)
		xs := make([]*abigen.Ext, 256)
		for i := range vs {
			z := big.NewInt(int64(i - 128))
			vs[i] = num(abigen.I(16), z)
			xs[i] = xstr(z.String())
		}
		h.addEnc("big-fixed-array", modeJSON, ts, lst(lst(xs...), xstr("0x01")), tupv(ts, &abigen.Value{T: ta, Elems: vs}, &abigen.Value{T: ts[1], Bytes: []byte{1}}), false, "")
		h.addEnc("big-fixed-array-short", modeJSON, ts, lst(lst(xs[:255]...), xstr("0x01")), nil, true, "")
	}
	// tuples with 8, 9, 10 dynamic members: the first offset crosses 255
	for _, n := range []int{7, 8, 9, 10} {
		ts := make([]*abigen.Type, n)
		vs := make([]*abigen.Value, n)
		xs := make([]*abigen.Ext, n)
		for i := range ts {
			ts[i] = abigen.Str()
			s := abigen.RandText(r, []int{0, 1, 31, 32, 33}[i%5])
			vs[i] = &abigen.Value{T: ts[i], Bytes: []byte(s)}
			xs[i] = xstr(s)
		}
		h.addEnc("many-dynamic-members", modeJSON, ts, lst(xs...), tupv(ts, vs...), false, "")
	}
	// deep nesting: 12 levels of T[1] / T[] / (T) around a static and a dynamic leaf
	for _, leaf := range []*abigen.Type{abigen.I(24), abigen.Str()} {
		for shape := 0; shape < 4; shape++ {
			t := leaf
			lv := &abigen.Value{T: leaf}
			if leaf.Kind == abigen.String {
				lv.Bytes = []byte("deep")
			} else {
				lv.Num = big.NewInt(-2)
			}
			for d := 0; d < 12; d++ {
				var nt *abigen.Type
				switch (shape + d*(shape+1)) % 3 {
				case 0:
					nt = abigen.Arr(t, 1)
				case 1:
					nt = abigen.Dyn(t)
				default:
					nt = abigen.Tup(t.Named(fmt.Sprintf("m%d", d)))
				}
				lv = &abigen.Value{T: nt, Elems: []*abigen.Value{lv}}
				t = nt
			}
			ts := []*abigen.Type{t, abigen.U(8)}
			v := tupv(ts, lv, num(ts[1], big.NewInt(7)))
			x := abigen.ToExt(r, v, abigen.ReprOpts{})
			h.addEnc("deep-nesting", modeFor(r, x), ts, x, v, false, "")
		}
	}
	// dynamic data whose length word needs three bytes, followed by another dynamic member whose offset does
	lens := []int{255, 256, 257, 65535, 65536, 65537}
	if thorough {
		lens = append(lens, 1<<17+5, 1<<20)
	}
	for _, n := range lens {
		b := bytes.Repeat([]byte{0xa5}, n)
		ts := []*abigen.Type{abigen.Byts(), abigen.Str()}
		v := tupv(ts, &abigen.Value{T: ts[0], Bytes: b}, &abigen.Value{T: ts[1], Bytes: []byte("z")})
		h.st.Hit(fmt.Sprintf("dyn-len:%d", n))
		h.addEnc("big-dynamic", modeValues, ts, lst(&abigen.Ext{Kind: abigen.XBytes, Bytes: b}, xstr("z")), v, false, "")
		if n <= 65536 {
			s := strings.Repeat("k", n)
			ts2 := []*abigen.Type{abigen.Arr(abigen.Str(), 2)}
			v2 := tupv(ts2, &abigen.Value{T: ts2[0], Elems: []*abigen.Value{{T: abigen.Str(), Bytes: []byte(s)}, {T: abigen.Str(), Bytes: []byte("y")}}})
			h.addEnc("big-dynamic", modeJSON, ts2, lst(lst(xstr(s), xstr("y"))), v2, false, "")
		}
	}
}

// machine-word magnitudes x every representation: the conversions of Go numbers have their own
// thresholds (2^31, 2^32, 2^53, 2^63, 2^64 ...) that do not depend on the ABI width
func (h *H) magnitudes(r *cv.Rand) {
	p2 := func(k uint) *big.Int { return new(big.Int).Lsh(big.NewInt(1), k) }
	var vals []*big.Int
	for _, k := range []uint{31, 32, 53, 63, 64} {
		for _, d := range []int64{-1, 0, 1} {
			z := new(big.Int).Add(p2(k), big.NewInt(d))
			vals = append(vals, z, new(big.Int).Neg(z))
		}
	}
	vals = append(vals, p2(8), p2(16), p2(24), p2(62), p2(65), p2(128), p2(255), new(big.Int).Neg(p2(255)), new(big.Int).Sub(p2(256), big.NewInt(1)), new(big.Int).Sub(p2(63), big.NewInt(1024)), new(big.Int).Add(p2(63), big.NewInt(2048)),
		new(big.Int).Sub(p2(64), big.NewInt(2048)), new(big.Int).Add(p2(64), big.NewInt(4096)))
	for _, z := range vals {
		for _, rp := range abigen.IntReprs {
			goOnly := rp == "big.Int" || rp == "sized-int" || rp == "float64" || rp == "big.Float"
			x, can := abigen.IntExt(r, z, rp)
			if !can {
				continue
			}
			for ti, t := range []*abigen.Type{abigen.I(256), abigen.U(64)} {
				if ti >= 1 && !goOnly {
					continue // the text spellings are converted before the target type plays a role
				}
				mode := modeValues
				if lst(x).JSONable() && r.Bool() {
					mode = modeJSON
				}
				h.st.Hit("magnitude-repr:" + x.Repr)
				if inRange(t, z) {
					h.addEnc("int-magnitude", mode, one(t), lst(x), tupv(one(t), num(t, z)), false, "")
				} else {
					h.addEnc("int-magnitude-out-of-range", mode, one(t), lst(x), nil, true, "")
				}
			}
		}
	}
	// float32 around its own thresholds
	for _, f := range []float32{1 << 24, 1<<24 + 2, -(1 << 24), 1 << 31, 1 << 32, -(1 << 31), 1 << 53, 1 << 63, -(1 << 63), 1 << 64, 1 << 100} {
		z, _ := new(big.Float).SetFloat64(float64(f)).Int(nil)
		for _, t := range []*abigen.Type{abigen.I(256), abigen.U(256), abigen.I(64), abigen.U(32)} {
			x := &abigen.Ext{Kind: abigen.XF32, F: float64(f)}
			if inRange(t, z) {
				h.addEnc("int-magnitude-float32", modeValues, one(t), lst(x), tupv(one(t), num(t, z)), false, "")
			} else {
				h.addEnc("int-magnitude-float32-out-of-range", modeValues, one(t), lst(x), nil, true, "")
			}
		}
	}
}

func (h *H) hexEdges(r *cv.Rand) {
	// byte strings that begin with zero bytes / with the characters of the prefix
	for _, c := range []struct {
		t *abigen.Type
		b []byte
	}{
		{abigen.BN(4), []byte{0, 0, 0, 1}}, {abigen.BN(1), []byte{0}}, {abigen.BN(2), []byte{0, 0x0a}}, {abigen.BN(32), append(make([]byte, 16), r.Bytes(16)...)},
		{abigen.Byts(), []byte{0}}, {abigen.Byts(), []byte{0, 0, 0xab}}, {abigen.Byts(), make([]byte, 33)}, {abigen.Byts(), []byte{0x0a, 0x00}},
		{abigen.Func(), append([]byte{0, 0}, r.Bytes(22)...)}, {abigen.Byts(), []byte{0x00, 0x10, 0x00}},
	} {
		hx := hex.EncodeToString(c.b)
		for _, s := range []string{"0x" + hx, hx, strings.ToUpper(hx), "0x" + strings.ToUpper(hx)} {
			mode := modeValues
			if r.Bool() {
				mode = modeJSON
			}
			h.addEnc("bytes-leading-zero", mode, one(c.t), lst(xstr(s)), tupv(one(c.t), &abigen.Value{T: c.t, Bytes: c.b}), false, "")
		}
		h.addEnc("bytes-leading-zero", modeValues, one(c.t), lst(&abigen.Ext{Kind: abigen.XBytes, Bytes: c.b}), tupv(one(c.t), &abigen.Value{T: c.t, Bytes: c.b}), false, "")
	}
	for m := 8; m <= 256; m += 8 {
		t := abigen.I(m)
		full := new(big.Int).Sub(new(big.Int).Lsh(big.NewInt(1), uint(m)), big.NewInt(1)) // the image of -1
		half := new(big.Int).Lsh(big.NewInt(1), uint(m-1))                                 // the image of the minimum
		for _, z := range []*big.Int{full, half} {
			hx := z.Text(16)
			h.addEnc("int-twos-complement-image", modeFor(r, lst(xstr("0x"+hx))), one(t), lst(xstr("0x"+hx)), nil, true, "")
			if m == 256 || m%64 == 8 {
				h.addEnc("int-twos-complement-image", modeValues, one(t), lst(xstr("0x"+strings.Repeat("0", 64-len(hx))+hx)), nil, true, "")
				h.addEnc("int-twos-complement-image", modeValues, one(t), lst(&abigen.Ext{Kind: abigen.XBigInt, Big: z}), nil, true, "")
			}
		}
	}
	for _, s := range []string{"0x0x01", "00x01", "x01", "0x 01", "0x01 ", "0x-1", "0x+1", "0x0_1", "0X01", "0x", "0", "0x0"} {
		h.addEnc("bytes-prefix-odd", modeValues, one(abigen.Byts()), lst(xstr(s)), nil, false, "")
		h.addEnc("bytes-prefix-odd", modeValues, one(abigen.BN(1)), lst(xstr(s)), nil, false, "")
	}
	// a string is its characters, whatever they look like
	ts := abigen.Str()
	for _, s := range []string{"0x", "0x1234", "0xzz", "1234", "true", "false", "null", "0", "-1", "1e3", "[1]", "{\"a\":1}", "\x00", "\x00\x00a", "a\x00", " ", "0x00"} {
		h.addEnc("string-looks-like", modeFor(r, lst(xstr(s))), one(ts), lst(xstr(s)), tupv(one(ts), &abigen.Value{T: ts, Bytes: []byte(s)}), false, "")
	}
	h.addEnc("string-from-json-number", modeJSON, one(ts), lst(xjnum("12")), nil, false, "")
	h.addEnc("string-from-json-bool", modeJSON, one(ts), lst(&abigen.Ext{Kind: abigen.XBool, Bool: true}), nil, false, "")
	h.addEnc("string-from-json-null", modeJSON, one(ts), lst(&abigen.Ext{Kind: abigen.XNil}), nil, false, "")
	for _, t := range []*abigen.Type{abigen.Byts(), abigen.BN(4), abigen.Addr(), abigen.Func(), abigen.Boolean(), abigen.Fx(128, 18)} {
		h.addEnc("null-for-elementary", modeJSON, one(t), lst(&abigen.Ext{Kind: abigen.XNil}), nil, false, "")
	}
}

func xmap(kv ...interface{}) *abigen.Ext {
	m := &abigen.Ext{Kind: abigen.XMap}
	for i := 0; i+1 < len(kv); i += 2 {
		m.Keys = append(m.Keys, kv[i].(string))
		m.Vals = append(m.Vals, kv[i+1].(*abigen.Ext))
	}
	return m
}

func (h *H) tupleKeys(r *cv.Rand) {
	a, b := abigen.U(8).Named("a"), abigen.I(16).Named("b")
	named := []*abigen.Type{a, b}
	u0, u1 := abigen.U(8), abigen.I(16)
	unnamed := []*abigen.Type{u0, u1}
	one1, two := xjnum("1"), xjnum("-2")
	ok := func(ts []*abigen.Type) *abigen.Value { return tupv(ts, num(ts[0], big.NewInt(1)), num(ts[1], big.NewInt(-2))) }
	for _, wrapIn := range []int{0, 1, 2} {
		w := func(ts []*abigen.Type, x *abigen.Ext, v *abigen.Value) ([]*abigen.Type, *abigen.Ext, *abigen.Value) {
			switch wrapIn {
			case 1: // as a tuple member
				tt := abigen.Tup(ts...).Named("t")
				wt := []*abigen.Type{abigen.Str().Named("s"), tt}
				if v != nil {
					v = tupv(wt, &abigen.Value{T: wt[0], Bytes: []byte("x")}, &abigen.Value{T: tt, Elems: v.Elems})
				}
				return wt, xmap("s", xstr("x"), "t", x), v
			case 2: // as an element of a dynamic array
				tt := abigen.Tup(ts...)
				wt := one(abigen.Dyn(tt))
				if v != nil {
					v = tupv(wt, &abigen.Value{T: wt[0], Elems: []*abigen.Value{{T: tt, Elems: v.Elems}}})
				}
				return wt, lst(lst(x)), v
			}
			return ts, x, v
		}
		emit := func(kind string, ts []*abigen.Type, x *abigen.Ext, v *abigen.Value, reject bool) {
			ts2, x2, v2 := w(ts, x, v)
			h.addEnc(kind, modeFor(r, x2), ts2, x2, v2, reject, "")
		}
		emit("tuple-keys-named", named, xmap("a", one1, "b", two), ok(named), false)
		emit("tuple-keys-named-reordered", named, xmap("b", two, "a", one1), ok(named), false)
		emit("tuple-keys-index-for-named", named, xmap("0", one1, "1", two), nil, true)
		emit("tuple-keys-index-for-named", named, xmap("a", one1, "1", two), nil, true)
		emit("tuple-keys-case", named, xmap("A", one1, "b", two), nil, true)
		emit("tuple-keys-case", named, xmap("a", one1, "B", two), nil, true)
		emit("tuple-keys-space", named, xmap("a ", one1, "b", two), nil, true)
		emit("tuple-keys-index", unnamed, xmap("0", one1, "1", two), ok(unnamed), false)
		emit("tuple-keys-index-odd", unnamed, xmap("00", one1, "1", two), nil, true)
		emit("tuple-keys-index-odd", unnamed, xmap("0", one1, "01", two), nil, true)
		emit("tuple-keys-index-odd", unnamed, xmap("0", one1, "+1", two), nil, true)
		emit("tuple-keys-index-odd", unnamed, xmap("1", one1, "2", two), nil, true)
		emit("tuple-keys-index-odd", unnamed, xmap("0", one1, "", two), nil, true)
		emit("tuple-keys-name-for-unnamed", unnamed, xmap("a", one1, "b", two), nil, true)
		mixed := []*abigen.Type{a, u1}
		emit("tuple-keys-mixed", mixed, xmap("a", one1, "1", two), ok(mixed), false)
		emit("tuple-keys-mixed", mixed, xmap("0", one1, "1", two), nil, true)
		// both spellings present: the declared key wins
		emit("tuple-keys-both", named, xmap("a", one1, "b", two, "0", xjnum("9"), "1", xjnum("9")), ok(named), false)
		// same types, names exchanged: an object is assigned by name
		swapped := []*abigen.Type{abigen.U(8).Named("b"), abigen.I(16).Named("a")}
		emit("tuple-keys-swapped-names", swapped, xmap("b", one1, "a", two), ok(swapped), false)
		emit("tuple-keys-swapped-names", swapped, xmap("a", one1, "b", two), nil, false)
		// duplicate names: comparison only
		dup := []*abigen.Type{abigen.U(8).Named("a"), abigen.I(16).Named("a")}
		emit("tuple-keys-duplicate-names", dup, xmap("a", one1), nil, false)
	}
}

// every Go kind for fixed-point types (comparison with the model only)
func (h *H) fixedKinds(r *cv.Rand) {
	for _, t := range []*abigen.Type{abigen.Fx(128, 18), abigen.UFx(64, 2), abigen.Fx(8, 1)} {
		for _, k := range abigen.IntKinds {
			lo, hi := abigen.IntKindRange(k)
			for _, z := range []*big.Int{big.NewInt(0), big.NewInt(3), big.NewInt(12), lo, hi} {
				h.addEnc("fixed-go-kind", modeValues, one(t), lst(&abigen.Ext{Kind: abigen.XInt, IKind: k, Big: z}), nil, false, "")
			}
		}
		for _, f := range []float64{0, 0.5, 2.25, 3, -0.5} {
			h.addEnc("fixed-go-kind", modeValues, one(t), lst(&abigen.Ext{Kind: abigen.XF32, F: f}), nil, false, "")
			bf := new(big.Float).SetFloat64(f)
			h.addEnc("fixed-go-kind", modeValues, one(t), lst(&abigen.Ext{Kind: abigen.XBigFloat, Float: bf}), nil, false, "")
		}
		h.addEnc("fixed-go-kind", modeValues, one(t), lst(&abigen.Ext{Kind: abigen.XBigInt, Big: big.NewInt(3)}), nil, false, "")
		h.addEnc("fixed-go-kind", modeValues, one(t), lst(&abigen.Ext{Kind: abigen.XOther}), nil, false, "")
		h.addEnc("fixed-go-kind", modeValues, one(t), lst(&abigen.Ext{Kind: abigen.XNil}), nil, false, "")
		h.addEncO("fixed-go-kind-wrapped", modeValues, one(t), lst(xstr("1.5")), nil, false, "", encOpts{mk: func() interface{} { return []interface{}{ptrTo("1.5")} }})
		h.addEncO("fixed-go-kind-wrapped", modeValues, one(t), lst(xstr("2.5")), nil, false, "", encOpts{mk: func() interface{} { return []interface{}{strg{"2.5"}} }})
		h.addEncO("fixed-go-kind-wrapped", modeValues, one(t), lst(&abigen.Ext{Kind: abigen.XF64, F: 2.5}), nil, false, "", encOpts{mk: func() interface{} { f := 2.5; return []interface{}{&f} }})
		h.addEncO("fixed-go-kind-wrapped", modeValues, one(t), lst(&abigen.Ext{Kind: abigen.XF64, F: 0.75}), nil, false, "", encOpts{mk: func() interface{} { return []interface{}{nF64(0.75)} }})
		h.addEncO("fixed-go-kind-wrapped", modeValues, one(t), lst(&abigen.Ext{Kind: abigen.XF64, F: 3}), nil, false, "", encOpts{mk: func() interface{} { return []interface{}{nI16(3)} }})
	}
}

// ---------------------------------------------------------------------------------------------
// sessions: the same ParameterArray / Entry / Parameter objects serve many requests
// ---------------------------------------------------------------------------------------------

type session struct {
	ts    []*abigen.Type
	pa    abi.ParameterArray
	entry *abi.Entry
}

func newSession(ts []*abigen.Type) *session {
	pa := abigen.Params(ts)
	return &session{ts: ts, pa: pa, entry: &abi.Entry{Type: abi.Function, Name: "g", Inputs: pa}}
}

// request runs one well-typed value (or a damaged one) through a session in the given mode.
func (h *H) sessionRequest(r *cv.Rand, s *session, kind string, v *abigen.Value, how int, modeSel int) {
	goVals := modeSel%2 == 1
	x := abigen.ToExt(r, v, abigen.ReprOpts{GoValues: goVals})
	var val *abigen.Value = v
	reject := false
	switch how {
	case 1: // one integer leaf out of range
		if leaves := v.NumericLeaves(); len(leaves) > 0 {
			lf := leaves[r.Intn(len(leaves))]
			_, out := abigen.IntBoundaries(lf.T)
			old := lf.Num
			lf.Num = out[r.Intn(2)]
			x = abigen.ToExt(r, v, abigen.ReprOpts{GoValues: goVals})
			lf.Num = old
			val, reject = nil, true
		}
	case 2: // arity damage of the first fixed array / tuple found
		if dmgAny(x, v) {
			val, reject = nil, true
		}
	}
	var mode string
	switch modeSel % 6 {
	case 0, 4:
		mode = modeJSON
	case 1, 5:
		mode = modeValues
	case 2:
		mode = modeCallJ
	default:
		mode = modeCallV
	}
	if !x.JSONable() {
		if mode == modeJSON {
			mode = modeValues
		} else if mode == modeCallJ {
			mode = modeCallV
		}
	}
	o := encOpts{pa: s.pa, entry: s.entry, always: true, poke: true}
	if (mode == modeValues || mode == modeCallV) && modeSel%4 != 1 {
		o.mk = mkTyped(x, uint64(h.id)*7919+uint64(modeSel))
		h.st.Hit("session:typed-containers")
	}
	h.addEncO(kind, mode, s.ts, x, val, reject, "", o)
	if modeSel%5 == 0 && x.Kind != abigen.XOther {
		h.addParseO(kind+"-parse", s.ts, x, s.pa, true)
	}
}

// dmgAny drops the last element of the first fixed array or tuple (given as a list) in the tree.
func dmgAny(x *abigen.Ext, v *abigen.Value) bool {
	if v.T.Kind == abigen.FixedArr || (v.T.Kind == abigen.Tuple && v.T.Name != "") {
		if x.Kind == abigen.XList && len(x.List) > 0 {
			x.List = x.List[:len(x.List)-1]
			return true
		}
		if x.Kind == abigen.XMap && len(x.Keys) > 0 {
			x.Keys, x.Vals = x.Keys[:len(x.Keys)-1], x.Vals[:len(x.Vals)-1]
			return true
		}
	}
	switch x.Kind {
	case abigen.XList:
		for i := range x.List {
			if i < len(v.Elems) && dmgAny(x.List[i], v.Elems[i]) {
				return true
			}
		}
	case abigen.XMap:
		for i := range x.Vals {
			if i < len(v.Elems) && dmgAny(x.Vals[i], v.Elems[i]) {
				return true
			}
		}
	}
	return false
}

func (h *H) sessions(r *cv.Rand, nRandom, perSession int) []*session {
	var all []*session
	fixedLists := [][]*abigen.Type{
		{abigen.U(8).Named("a"), abigen.I(16).Named("b")},
		{abigen.Str().Named("s"), abigen.Arr(abigen.U(256), 2).Named("f"), abigen.BN(3).Named("t"), abigen.Dyn(abigen.I(64)).Named("d"),
			abigen.Tup(abigen.Boolean().Named("k"), abigen.Addr().Named("w")).Named("tp")},
		{abigen.Arr(abigen.Tup(abigen.Str().Named("n"), abigen.U(8).Named("v")), 2).Named("x"), abigen.Byts().Named("y")},
		{abigen.Dyn(abigen.Arr(abigen.Byts(), 2)), abigen.I(256), abigen.Dyn(abigen.Dyn(abigen.U(16)))},
		{abigen.I(8), abigen.I(72), abigen.U(64), abigen.I(256), abigen.U(256)},
	}
	for _, ts := range fixedLists {
		all = append(all, newSession(ts))
	}
	// a second parameter array made of the SAME *abi.Parameter objects in another order
	{
		s0 := all[0]
		pa := abi.ParameterArray{s0.pa[1], s0.pa[0]}
		all = append(all, &session{ts: []*abigen.Type{s0.ts[1], s0.ts[0]}, pa: pa, entry: &abi.Entry{Type: abi.Function, Name: "g", Inputs: pa}})
	}
	// the same types under other names (what a cache keyed by the type signature would confuse)
	all = append(all, newSession([]*abigen.Type{abigen.U(8).Named("b"), abigen.I(16).Named("a")}))
	for i := 0; i < nRandom; i++ {
		k := 1 + r.Intn(3)
		ts := make([]*abigen.Type, k)
		for j := range ts {
			ts[j] = abigen.GenType(r, 1+r.Intn(3), abigen.Opts{})
			if r.Intn(3) != 0 {
				ts[j].Name = fmt.Sprintf("p%d", j)
			}
		}
		all = append(all, newSession(ts))
	}
	// requests: round-robin over the sessions so that the objects are used alternately
	for round := 0; round < perSession; round++ {
		for si, s := range all {
			v := abigen.GenValue(r, abigen.Tup(s.ts...), abigen.VOpts{MaxArr: 3})
			how := 0
			if round%3 == 1 {
				how = 1 + (round/3+si)%2
			}
			h.sessionRequest(r, s, "session", v, how, round+si)
		}
	}
	return all
}

// concurrent: the sessions' objects (type trees already parsed) serve requests from several goroutines;
// every answer must equal the sequential one.
func (h *H) concurrent(r *cv.Rand, all []*session, iterations int) {
	type job struct {
		s    *session
		x    *abigen.Ext
		json string
		out  []byte
		cls  int
		d    *desc
	}
	var jobs []*job
	for si, s := range all {
		if si >= 12 {
			break
		}
		for k := 0; k < 3; k++ {
			v := abigen.GenValue(r, abigen.Tup(s.ts...), abigen.VOpts{MaxArr: 2})
			x := abigen.ToExt(r, v, abigen.ReprOpts{GoValues: k == 1})
			j := &job{s: s, x: x}
			if x.JSONable() && k != 1 {
				j.json = x.JSON()
			}
			mode := modeValues
			if j.json != "" {
				mode = modeJSON
			}
			j.out, _, j.cls, _ = runOn(mode, s.pa, s.entry, x.Go(), j.json)
			j.d = &desc{ID: 0, Kind: "concurrent", Mode: mode, Types: sigOf(s.ts), Input: x.Describe(), JSON: j.json, Oracle: "sequential result"}
			jobs = append(jobs, j)
		}
	}
	var mu sync.Mutex
	var bad *job
	badDetail := ""
	var wg sync.WaitGroup
	for g := 0; g < 8; g++ {
		wg.Add(1)
		go func(g int) {
			defer wg.Done()
			for it := 0; it < iterations; it++ {
				j := jobs[(it*7+g*13)%len(jobs)]
				mode := modeValues
				if j.json != "" {
					mode = modeJSON
				}
				if (it+g)%5 == 0 {
					if mode == modeJSON {
						mode = modeCallJ
					} else {
						mode = modeCallV
					}
				}
				out, prefix, cls, _ := runOn(mode, j.s.pa, j.s.entry, j.x.Go(), j.json)
				if cls != j.cls || !bytes.Equal(out[len(prefix):], j.out) {
					mu.Lock()
					if bad == nil {
						bad = j
						badDetail = fmt.Sprintf("sequential: class %d 0x%s; concurrent: class %d 0x%s", j.cls, hexCut(j.out), cls, hexCut(out[len(prefix):]))
					}
					mu.Unlock()
					return
				}
			}
		}(g)
	}
	wg.Wait()
	h.st.Hit(fmt.Sprintf("concurrent-requests:%d", 8*iterations))
	if bad != nil {
		h.fail("a request served concurrently with others gives another result than alone", bad.d, badDetail)
	}
}
