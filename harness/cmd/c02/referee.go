package main

// Streams added in answer to the referee report (design/reviews/C02.md), appended after all earlier
// streams (no PRNG: the case ids of the earlier streams keep their meaning).
//
//   - issue 4(i): the step JSON text -> Go value tree is encoding/json's (ParseJSON =
//     json.Decoder + UseNumber, then ParseExternalData); the model sees what that decoder returns.
//     Objects with duplicate keys (the decoder keeps the LAST binding) and strings with escapes are
//     run through the JSON entry points with a property oracle.
//   - issue 2: decimal-looking texts with a leading zero are read by Go's base-prefix syntax
//     ("010" = octal 8, "08" = 8 through the float syntax); theorem C02_integers_every_value_c19
//     states it, here the implementation is held to it.

import (
	"fmt"
	"math/big"
	"strings"

	"github.com/hyperledger/firefly-signer/pkg/abi"

	"verifharness/abigen"
)

func (h *H) refereeStreams() {
	a, b := abigen.U(8).Named("a"), abigen.I(16).Named("b")
	named := []*abigen.Type{a, b}
	val := func(x, y int64) *abigen.Value {
		return tupv(named, num(named[0], big.NewInt(x)), num(named[1], big.NewInt(y)))
	}
	for _, mode := range []string{modeJSON, modeCallJ} {
		// {"a":9,"a":1,"b":-2}: the last binding of "a" counts
		h.addEnc("json-duplicate-key", mode, named, xmap("a", xjnum("9"), "a", xjnum("1"), "b", xjnum("-2")), val(1, -2), false, "")
		// the first binding is out of range, the last one is not: accepted
		h.addEnc("json-duplicate-key", mode, named, xmap("a", xjnum("256"), "b", xjnum("-2"), "a", xjnum("255")), val(255, -2), false, "")
		// the last binding is out of range: refused
		h.addEnc("json-duplicate-key", mode, named, xmap("a", xjnum("255"), "b", xjnum("-2"), "a", xjnum("256")), nil, true, "")
		// nested: an array of tuples, each object with a duplicate
		tt := abigen.Tup(named...)
		wt := one(abigen.Dyn(tt))
		inner := xmap("b", xjnum("7"), "a", xjnum("3"), "b", xjnum("-32768"))
		v := tupv(wt, &abigen.Value{T: wt[0], Elems: []*abigen.Value{{T: tt, Elems: val(3, -32768).Elems}}})
		h.addEnc("json-duplicate-key-nested", mode, wt, lst(lst(inner)), v, false, "")

		st := abigen.Str()
		for _, s := range []string{"a\"b", "back\\slash", "line\nfeed\ttab\r", "é世\U0001F600", "<&>", "  ", "\x00\x01\x1f", "/slash", "0x41", "\\u0041"} {
			h.addEnc("json-string-escapes", mode, one(st), lst(xstr(s)), tupv(one(st), &abigen.Value{T: st, Bytes: []byte(s)}), false, "")
			// the same text as an object key of a named member
			nm := abigen.U(8).Named(s)
			h.addEnc("json-key-escapes", mode, one(nm), xmap(s, xjnum("7")), tupv(one(nm), num(nm, big.NewInt(7))), false, "")
		}
	}
	u8, u16 := abigen.U(8), abigen.U(16)
	okv := func(t *abigen.Type, z int64) *abigen.Value { return tupv(one(t), num(t, big.NewInt(z))) }
	for _, mode := range []string{modeValues, modeJSON} {
		h.addEnc("int-leading-zero-text", mode, one(u8), lst(xstr("010")), okv(u8, 8), false, "")
		h.addEnc("int-leading-zero-text", mode, one(u8), lst(xstr("08")), okv(u8, 8), false, "")
		h.addEnc("int-leading-zero-text", mode, one(u8), lst(xstr("0377")), okv(u8, 255), false, "")
		h.addEnc("int-leading-zero-text", mode, one(u8), lst(xstr("0400")), nil, true, "")
		h.addEnc("int-leading-zero-text", mode, one(u16), lst(xstr("0400")), okv(u16, 256), false, "")
		h.addEnc("int-leading-zero-text", mode, one(u8), lst(xstr("-00")), okv(u8, 0), false, "")
		h.addEnc("int-leading-zero-text", mode, one(u8), lst(xstr("1_")), nil, true, "")
	}
}

// ---------------------------------------------------------------------------------------------
// issue 4(ii): the component tree given to the model is the tree pkg/abi built
// ---------------------------------------------------------------------------------------------

var baseKinds = map[string]string{"uint": "EUInt", "int": "EInt", "address": "EAddress", "bool": "EBool", "fixed": "EFixed",
	"ufixed": "EUFixed", "bytes": "EBytes", "string": "EString", "function": "EFunction"}

// treeCoq prints a type component tree built by pkg/abi (through its public accessors only) in the
// format of abigen.CoqTcomp.
func treeCoq(tc abi.TypeComponent) string {
	k := abigen.CoqBytes([]byte(tc.KeyName()))
	switch tc.ComponentType() {
	case abi.FixedArrayComponent:
		return fmt.Sprintf("(TCFixedArr %d %s %s)", tc.FixedArrayLen(), treeCoq(tc.ArrayChild()), k)
	case abi.DynamicArrayComponent:
		return fmt.Sprintf("(TCDynArr %s %s)", treeCoq(tc.ArrayChild()), k)
	case abi.TupleComponent:
		p := make([]string, len(tc.TupleChildren()))
		for i, c := range tc.TupleChildren() {
			p[i] = treeCoq(c)
		}
		return "(TCTuple [" + strings.Join(p, "; ") + "] " + k + ")"
	}
	e := "E?"
	if et := tc.ElementaryType(); et != nil {
		e = baseKinds[string(et.BaseType())]
	}
	return fmt.Sprintf("(TCElem %s %s %d %d %s)", e, abigen.CoqBytes([]byte(tc.ElementarySuffix())), tc.ElementaryM(), tc.ElementaryN(), k)
}

// checkTree: the `tcomp` list written into the Coq case (abigen.CoqTcompList of the generator's own
// type description) must be the tree typecomponents.go built for the parameter array the
// implementation was run on - entry by entry: table entry, suffix after alias expansion, M, N, key
// names on every level, array lengths.  Called after the request (the request itself parses).
func (h *H) checkTree(d *desc, pa abi.ParameterArray, ts []*abigen.Type) {
	var got string
	func() {
		defer func() {
			if r := recover(); r != nil {
				got = fmt.Sprintf("panic: %v", r)
			}
		}()
		root, err := pa.TypeComponentTree()
		if err != nil {
			got = "" // not a valid parameter list: outside the quantifier
			return
		}
		p := make([]string, len(root.TupleChildren()))
		for i, c := range root.TupleChildren() {
			p[i] = treeCoq(c)
		}
		got = "[" + strings.Join(p, "; ") + "]"
	}()
	if got == "" {
		return
	}
	h.st.Hit("tree-compared")
	if want := abigen.CoqTcompList(ts); got != want {
		if len(got) > 600 {
			got = got[:600] + "..."
		}
		if len(want) > 600 {
			want = want[:600] + "..."
		}
		h.fail("the type component tree pkg/abi built differs from the tree given to the model", d, "pkg/abi: "+got+"  model: "+want)
	}
}
